package p

import (
	ext "subj/ext1"
)

var Anchor = 0

func FmapT0(f func(byte) byte, l []byte) []byte {
	return deriveFmapFmapT0(f, l)
}

func FmapintT0(f func(byte) int, l []byte) []int {
	return deriveFmapFmapintT0(f, l)
}

func FmapstrT0(f func(rune) byte, s string) []byte {
	return deriveFmapStrT0(f, s)
}

func JoinT0(l [][]byte) []byte {
	return deriveJoinT0(l)
}

func JoinstrT0(l []string) string {
	return deriveJoinStrT0(l)
}

func FmapT1(f func(*K1) *K1, l []*K1) []*K1 {
	return deriveFmapFmapT1(f, l)
}

func FmapintT1(f func(*K1) int, l []*K1) []int {
	return deriveFmapFmapintT1(f, l)
}

func FmapstrT1(f func(rune) *K1, s string) []*K1 {
	return deriveFmapStrT1(f, s)
}

func JoinT1(l [][]*K1) []*K1 {
	return deriveJoinT1(l)
}

func FmapT2(f func(*S0) *S0, l []*S0) []*S0 {
	return deriveFmapFmapT2(f, l)
}

func FmapintT2(f func(*S0) int, l []*S0) []int {
	return deriveFmapFmapintT2(f, l)
}

func FmapstrT2(f func(rune) *S0, s string) []*S0 {
	return deriveFmapStrT2(f, s)
}

func JoinT2(l [][]*S0) []*S0 {
	return deriveJoinT2(l)
}

func FmapT3(f func(S1) S1, l []S1) []S1 {
	return deriveFmapFmapT3(f, l)
}

func FmapintT3(f func(S1) int, l []S1) []int {
	return deriveFmapFmapintT3(f, l)
}

func FmapstrT3(f func(rune) S1, s string) []S1 {
	return deriveFmapStrT3(f, s)
}

func JoinT3(l [][]S1) []S1 {
	return deriveJoinT3(l)
}

func FmapT4(f func(*S2) *S2, l []*S2) []*S2 {
	return deriveFmapFmapT4(f, l)
}

func FmapintT4(f func(*S2) int, l []*S2) []int {
	return deriveFmapFmapintT4(f, l)
}

func FmapstrT4(f func(rune) *S2, s string) []*S2 {
	return deriveFmapStrT4(f, s)
}

func JoinT4(l [][]*S2) []*S2 {
	return deriveJoinT4(l)
}

func FmapT5(f func(S2) S2, l []S2) []S2 {
	return deriveFmapFmapT5(f, l)
}

func FmapintT5(f func(S2) int, l []S2) []int {
	return deriveFmapFmapintT5(f, l)
}

func FmapstrT5(f func(rune) S2, s string) []S2 {
	return deriveFmapStrT5(f, s)
}

func JoinT5(l [][]S2) []S2 {
	return deriveJoinT5(l)
}

func FmapT6(f func(ext.E0) ext.E0, l []ext.E0) []ext.E0 {
	return deriveFmapFmapT6(f, l)
}

func FmapintT6(f func(ext.E0) int, l []ext.E0) []int {
	return deriveFmapFmapintT6(f, l)
}

func FmapstrT6(f func(rune) ext.E0, s string) []ext.E0 {
	return deriveFmapStrT6(f, s)
}

func JoinT6(l [][]ext.E0) []ext.E0 {
	return deriveJoinT6(l)
}

func FmapT7(f func(int16) int16, l []int16) []int16 {
	return deriveFmapFmapT7(f, l)
}

func FmapintT7(f func(int16) int, l []int16) []int {
	return deriveFmapFmapintT7(f, l)
}

func FmapstrT7(f func(rune) int16, s string) []int16 {
	return deriveFmapStrT7(f, s)
}

func JoinT7(l [][]int16) []int16 {
	return deriveJoinT7(l)
}

func FmapT8(f func(rune) rune, l []rune) []rune {
	return deriveFmapFmapT8(f, l)
}

func FmapintT8(f func(rune) int, l []rune) []int {
	return deriveFmapFmapintT8(f, l)
}

func FmapstrT8(f func(rune) rune, s string) []rune {
	return deriveFmapStrT8(f, s)
}

func JoinT8(l [][]rune) []rune {
	return deriveJoinT8(l)
}

func FmapT9(f func([]K1) []K1, l [][]K1) [][]K1 {
	return deriveFmapFmapT9(f, l)
}

func FmapintT9(f func([]K1) int, l [][]K1) []int {
	return deriveFmapFmapintT9(f, l)
}

func FmapstrT9(f func(rune) []K1, s string) [][]K1 {
	return deriveFmapStrT9(f, s)
}

func JoinT9(l [][][]K1) [][]K1 {
	return deriveJoinT9(l)
}

func FmapT10(f func(*int16) *int16, l []*int16) []*int16 {
	return deriveFmapFmapT10(f, l)
}

func FmapintT10(f func(*int16) int, l []*int16) []int {
	return deriveFmapFmapintT10(f, l)
}

func FmapstrT10(f func(rune) *int16, s string) []*int16 {
	return deriveFmapStrT10(f, s)
}

func JoinT10(l [][]*int16) []*int16 {
	return deriveJoinT10(l)
}

func FmapT11(f func(float64) float64, l []float64) []float64 {
	return deriveFmapFmapT11(f, l)
}

func FmapintT11(f func(float64) int, l []float64) []int {
	return deriveFmapFmapintT11(f, l)
}

func FmapstrT11(f func(rune) float64, s string) []float64 {
	return deriveFmapStrT11(f, s)
}

func JoinT11(l [][]float64) []float64 {
	return deriveJoinT11(l)
}

func FmapT12(f func(bool) bool, l []bool) []bool {
	return deriveFmapFmapT12(f, l)
}

func FmapintT12(f func(bool) int, l []bool) []int {
	return deriveFmapFmapintT12(f, l)
}

func FmapstrT12(f func(rune) bool, s string) []bool {
	return deriveFmapStrT12(f, s)
}

func JoinT12(l [][]bool) []bool {
	return deriveJoinT12(l)
}

func FmapT13(f func(S0) S0, l []S0) []S0 {
	return deriveFmapFmapT13(f, l)
}

func FmapintT13(f func(S0) int, l []S0) []int {
	return deriveFmapFmapintT13(f, l)
}

func FmapstrT13(f func(rune) S0, s string) []S0 {
	return deriveFmapStrT13(f, s)
}

func JoinT13(l [][]S0) []S0 {
	return deriveJoinT13(l)
}
