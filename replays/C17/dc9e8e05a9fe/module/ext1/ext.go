package ext

type Num string

type Key struct {
	K0 string
	k1 int8
	K2 byte
}

type E0 struct {
}
