package other

type Num float64

type Key struct {
	K0 Num
	k1 int
}

type E0 struct {
}

type E1 struct {
}
