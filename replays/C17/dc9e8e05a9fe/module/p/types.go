package p

import (
	ext "subj/ext1"
)

type MyRune rune

type MyStr string

type N0 *int

type N1 [][]ext.Num

type N2 [3]uint64

type K0 struct {
}

type S0 struct {
	F0 map[rune]int
	f1 map[MyRune]map[MyRune]map[int]bool
}

type S1 struct {
	S0
}

type S2 struct {
	*S0
	F1 []byte
	K0
	F3 ext.Num
	F4 int32
	f5 K0
}
