package p

import (
	ext "subj/ext1"
	other "subj/x/other"
)

var Anchor = 0

func FmapT0(f func(map[other.Num][0]int) map[other.Num][0]int, l []map[other.Num][0]int) []map[other.Num][0]int {
	return deriveFmapFmapT0(f, l)
}

func FmapintT0(f func(map[other.Num][0]int) int, l []map[other.Num][0]int) []int {
	return deriveFmapFmapintT0(f, l)
}

func FmapstrT0(f func(rune) map[other.Num][0]int, s string) []map[other.Num][0]int {
	return deriveFmapStrT0(f, s)
}

func JoinT0(l [][]map[other.Num][0]int) []map[other.Num][0]int {
	return deriveJoinT0(l)
}

func JoinstrT0(l []string) string {
	return deriveJoinStrT0(l)
}

func FmapT1(f func(S0) S0, l []S0) []S0 {
	return deriveFmapFmapT1(f, l)
}

func FmapintT1(f func(S0) int, l []S0) []int {
	return deriveFmapFmapintT1(f, l)
}

func FmapstrT1(f func(rune) S0, s string) []S0 {
	return deriveFmapStrT1(f, s)
}

func JoinT1(l [][]S0) []S0 {
	return deriveJoinT1(l)
}

func FmapT2(f func(S1) S1, l []S1) []S1 {
	return deriveFmapFmapT2(f, l)
}

func FmapintT2(f func(S1) int, l []S1) []int {
	return deriveFmapFmapintT2(f, l)
}

func FmapstrT2(f func(rune) S1, s string) []S1 {
	return deriveFmapStrT2(f, s)
}

func JoinT2(l [][]S1) []S1 {
	return deriveJoinT2(l)
}

func FmapT3(f func(uintptr) uintptr, l []uintptr) []uintptr {
	return deriveFmapFmapT3(f, l)
}

func FmapintT3(f func(uintptr) int, l []uintptr) []int {
	return deriveFmapFmapintT3(f, l)
}

func FmapstrT3(f func(rune) uintptr, s string) []uintptr {
	return deriveFmapStrT3(f, s)
}

func JoinT3(l [][]uintptr) []uintptr {
	return deriveJoinT3(l)
}

func FmapT4(f func(map[ext.Num]K0) map[ext.Num]K0, l []map[ext.Num]K0) []map[ext.Num]K0 {
	return deriveFmapFmapT4(f, l)
}

func FmapintT4(f func(map[ext.Num]K0) int, l []map[ext.Num]K0) []int {
	return deriveFmapFmapintT4(f, l)
}

func FmapstrT4(f func(rune) map[ext.Num]K0, s string) []map[ext.Num]K0 {
	return deriveFmapStrT4(f, s)
}

func JoinT4(l [][]map[ext.Num]K0) []map[ext.Num]K0 {
	return deriveJoinT4(l)
}

func FmapT5(f func(uint64) uint64, l []uint64) []uint64 {
	return deriveFmapFmapT5(f, l)
}

func FmapintT5(f func(uint64) int, l []uint64) []int {
	return deriveFmapFmapintT5(f, l)
}

func FmapstrT5(f func(rune) uint64, s string) []uint64 {
	return deriveFmapStrT5(f, s)
}

func JoinT5(l [][]uint64) []uint64 {
	return deriveJoinT5(l)
}

func FmapT6(f func(string) string, l []string) []string {
	return deriveFmapFmapT6(f, l)
}

func FmapintT6(f func(string) int, l []string) []int {
	return deriveFmapFmapintT6(f, l)
}

func FmapstrT6(f func(rune) string, s string) []string {
	return deriveFmapStrT6(f, s)
}

func JoinT6(l [][]string) []string {
	return deriveJoinT6(l)
}

func FmapT7(f func(N0) N0, l []N0) []N0 {
	return deriveFmapFmapT7(f, l)
}

func FmapintT7(f func(N0) int, l []N0) []int {
	return deriveFmapFmapintT7(f, l)
}

func FmapstrT7(f func(rune) N0, s string) []N0 {
	return deriveFmapStrT7(f, s)
}

func JoinT7(l [][]N0) []N0 {
	return deriveJoinT7(l)
}

func FmapT8(f func([1]complex128) [1]complex128, l [][1]complex128) [][1]complex128 {
	return deriveFmapFmapT8(f, l)
}

func FmapintT8(f func([1]complex128) int, l [][1]complex128) []int {
	return deriveFmapFmapintT8(f, l)
}

func FmapstrT8(f func(rune) [1]complex128, s string) [][1]complex128 {
	return deriveFmapStrT8(f, s)
}

func JoinT8(l [][][1]complex128) [][1]complex128 {
	return deriveJoinT8(l)
}

func FmapT9(f func(bool) bool, l []bool) []bool {
	return deriveFmapFmapT9(f, l)
}

func FmapintT9(f func(bool) int, l []bool) []int {
	return deriveFmapFmapintT9(f, l)
}

func FmapstrT9(f func(rune) bool, s string) []bool {
	return deriveFmapStrT9(f, s)
}

func JoinT9(l [][]bool) []bool {
	return deriveJoinT9(l)
}

func FmapT10(f func(ext.E0) ext.E0, l []ext.E0) []ext.E0 {
	return deriveFmapFmapT10(f, l)
}

func FmapintT10(f func(ext.E0) int, l []ext.E0) []int {
	return deriveFmapFmapintT10(f, l)
}

func FmapstrT10(f func(rune) ext.E0, s string) []ext.E0 {
	return deriveFmapStrT10(f, s)
}

func JoinT10(l [][]ext.E0) []ext.E0 {
	return deriveJoinT10(l)
}

func FmapT11(f func(K0) K0, l []K0) []K0 {
	return deriveFmapFmapT11(f, l)
}

func FmapintT11(f func(K0) int, l []K0) []int {
	return deriveFmapFmapintT11(f, l)
}

func FmapstrT11(f func(rune) K0, s string) []K0 {
	return deriveFmapStrT11(f, s)
}

func JoinT11(l [][]K0) []K0 {
	return deriveJoinT11(l)
}

func FmapT12(f func(complex128) complex128, l []complex128) []complex128 {
	return deriveFmapFmapT12(f, l)
}

func FmapintT12(f func(complex128) int, l []complex128) []int {
	return deriveFmapFmapintT12(f, l)
}

func FmapstrT12(f func(rune) complex128, s string) []complex128 {
	return deriveFmapStrT12(f, s)
}

func JoinT12(l [][]complex128) []complex128 {
	return deriveJoinT12(l)
}

func FmapT13(f func(complex64) complex64, l []complex64) []complex64 {
	return deriveFmapFmapT13(f, l)
}

func FmapintT13(f func(complex64) int, l []complex64) []int {
	return deriveFmapFmapintT13(f, l)
}

func FmapstrT13(f func(rune) complex64, s string) []complex64 {
	return deriveFmapStrT13(f, s)
}

func JoinT13(l [][]complex64) []complex64 {
	return deriveJoinT13(l)
}
