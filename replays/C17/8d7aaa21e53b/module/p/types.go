package p

type MyU8 uint8

type MyF32 float32

type MyInt int

type MyF float64

type N0 map[MyF]rune

type N1 [][]complex64

type N2 [1]uint64

type K0 struct {
	F0 int
	F1 bool
}

type S0 struct {
	K0
	f1 int
	F2 *S0
	f3 MyF
}

type S1 struct {
}

type S2 struct {
}
