package ext

type Num float64

type Key struct {
	K0 Num
	K1 Num
	K2 byte
}

type E0 struct {
	f0 *E0
	f1 *E0
	F2 []float64
}

type E1 struct {
	f0 *[0]int16
	f1 **uint64
	F2 []byte
	f3 Num
}
