package ext

type Num uint8

type Key struct {
	k0 Num
}

type E0 struct {
	f0 Num
}

type E1 struct {
}
