package ext

type Num int

type Key struct {
	K0 int
}

type E0 struct {
	f0 []byte
	f1 []byte
	F2 []byte
	F3 Num
}

type E1 struct {
	f0 E0
	F1 E0
	F2 [2]*E1
}
