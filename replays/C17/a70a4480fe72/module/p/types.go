package p

import (
	ext2 "subj/x/ext"
)

type MyI64 int64

type MyU uint

type MyBool bool

type MyC complex128

type K0 struct {
}

type K1 struct {
}

type S0 struct {
}

type S1 struct {
	F0 [3]map[int]map[MyBool]ext2.E1
	f1 map[K1]string
}
