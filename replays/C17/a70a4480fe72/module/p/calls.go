package p

import (
	ext2 "subj/x/ext"
)

var Anchor = 0

func FmapT0(f func(K0) K0, l []K0) []K0 {
	return deriveFmapFmapT0(f, l)
}

func FmapintT0(f func(K0) int, l []K0) []int {
	return deriveFmapFmapintT0(f, l)
}

func FmapstrT0(f func(rune) K0, s string) []K0 {
	return deriveFmapStrT0(f, s)
}

func JoinT0(l [][]K0) []K0 {
	return deriveJoinT0(l)
}

func JoinstrT0(l []string) string {
	return deriveJoinStrT0(l)
}

func FmapT1(f func(*K1) *K1, l []*K1) []*K1 {
	return deriveFmapFmapT1(f, l)
}

func FmapintT1(f func(*K1) int, l []*K1) []int {
	return deriveFmapFmapintT1(f, l)
}

func FmapstrT1(f func(rune) *K1, s string) []*K1 {
	return deriveFmapStrT1(f, s)
}

func JoinT1(l [][]*K1) []*K1 {
	return deriveJoinT1(l)
}

func FmapT2(f func(*S0) *S0, l []*S0) []*S0 {
	return deriveFmapFmapT2(f, l)
}

func FmapintT2(f func(*S0) int, l []*S0) []int {
	return deriveFmapFmapintT2(f, l)
}

func FmapstrT2(f func(rune) *S0, s string) []*S0 {
	return deriveFmapStrT2(f, s)
}

func JoinT2(l [][]*S0) []*S0 {
	return deriveJoinT2(l)
}

func FmapT3(f func(*S1) *S1, l []*S1) []*S1 {
	return deriveFmapFmapT3(f, l)
}

func FmapintT3(f func(*S1) int, l []*S1) []int {
	return deriveFmapFmapintT3(f, l)
}

func FmapstrT3(f func(rune) *S1, s string) []*S1 {
	return deriveFmapStrT3(f, s)
}

func JoinT3(l [][]*S1) []*S1 {
	return deriveJoinT3(l)
}

func FmapT4(f func(uint32) uint32, l []uint32) []uint32 {
	return deriveFmapFmapT4(f, l)
}

func FmapintT4(f func(uint32) int, l []uint32) []int {
	return deriveFmapFmapintT4(f, l)
}

func FmapstrT4(f func(rune) uint32, s string) []uint32 {
	return deriveFmapStrT4(f, s)
}

func JoinT4(l [][]uint32) []uint32 {
	return deriveJoinT4(l)
}

func FmapT5(f func(ext2.E0) ext2.E0, l []ext2.E0) []ext2.E0 {
	return deriveFmapFmapT5(f, l)
}

func FmapintT5(f func(ext2.E0) int, l []ext2.E0) []int {
	return deriveFmapFmapintT5(f, l)
}

func FmapstrT5(f func(rune) ext2.E0, s string) []ext2.E0 {
	return deriveFmapStrT5(f, s)
}

func JoinT5(l [][]ext2.E0) []ext2.E0 {
	return deriveJoinT5(l)
}

func FmapT6(f func(bool) bool, l []bool) []bool {
	return deriveFmapFmapT6(f, l)
}

func FmapintT6(f func(bool) int, l []bool) []int {
	return deriveFmapFmapintT6(f, l)
}

func FmapstrT6(f func(rune) bool, s string) []bool {
	return deriveFmapStrT6(f, s)
}

func JoinT6(l [][]bool) []bool {
	return deriveJoinT6(l)
}

func FmapT7(f func(int64) int64, l []int64) []int64 {
	return deriveFmapFmapT7(f, l)
}

func FmapintT7(f func(int64) int, l []int64) []int {
	return deriveFmapFmapintT7(f, l)
}

func FmapstrT7(f func(rune) int64, s string) []int64 {
	return deriveFmapStrT7(f, s)
}

func JoinT7(l [][]int64) []int64 {
	return deriveJoinT7(l)
}

func FmapT8(f func(int8) int8, l []int8) []int8 {
	return deriveFmapFmapT8(f, l)
}

func FmapintT8(f func(int8) int, l []int8) []int {
	return deriveFmapFmapintT8(f, l)
}

func FmapstrT8(f func(rune) int8, s string) []int8 {
	return deriveFmapStrT8(f, s)
}

func JoinT8(l [][]int8) []int8 {
	return deriveJoinT8(l)
}

func FmapT9(f func(map[uint8]S0) map[uint8]S0, l []map[uint8]S0) []map[uint8]S0 {
	return deriveFmapFmapT9(f, l)
}

func FmapintT9(f func(map[uint8]S0) int, l []map[uint8]S0) []int {
	return deriveFmapFmapintT9(f, l)
}

func FmapstrT9(f func(rune) map[uint8]S0, s string) []map[uint8]S0 {
	return deriveFmapStrT9(f, s)
}

func JoinT9(l [][]map[uint8]S0) []map[uint8]S0 {
	return deriveJoinT9(l)
}

func FmapT10(f func([3]uint8) [3]uint8, l [][3]uint8) [][3]uint8 {
	return deriveFmapFmapT10(f, l)
}

func FmapintT10(f func([3]uint8) int, l [][3]uint8) []int {
	return deriveFmapFmapintT10(f, l)
}

func FmapstrT10(f func(rune) [3]uint8, s string) [][3]uint8 {
	return deriveFmapStrT10(f, s)
}

func JoinT10(l [][][3]uint8) [][3]uint8 {
	return deriveJoinT10(l)
}

func FmapT11(f func(int16) int16, l []int16) []int16 {
	return deriveFmapFmapT11(f, l)
}

func FmapintT11(f func(int16) int, l []int16) []int {
	return deriveFmapFmapintT11(f, l)
}

func FmapstrT11(f func(rune) int16, s string) []int16 {
	return deriveFmapStrT11(f, s)
}

func JoinT11(l [][]int16) []int16 {
	return deriveJoinT11(l)
}

func FmapT12(f func(MyU) MyU, l []MyU) []MyU {
	return deriveFmapFmapT12(f, l)
}

func FmapintT12(f func(MyU) int, l []MyU) []int {
	return deriveFmapFmapintT12(f, l)
}

func FmapstrT12(f func(rune) MyU, s string) []MyU {
	return deriveFmapStrT12(f, s)
}

func JoinT12(l [][]MyU) []MyU {
	return deriveJoinT12(l)
}

func FmapT13(f func(*[]string) *[]string, l []*[]string) []*[]string {
	return deriveFmapFmapT13(f, l)
}

func FmapintT13(f func(*[]string) int, l []*[]string) []int {
	return deriveFmapFmapintT13(f, l)
}

func FmapstrT13(f func(rune) *[]string, s string) []*[]string {
	return deriveFmapStrT13(f, s)
}

func JoinT13(l [][]*[]string) []*[]string {
	return deriveJoinT13(l)
}
