package ext

type Num int

type Key struct {
	K0 float64
}

type E0 struct {
	f0 *int16
	F1 []Key
	f2 rune
}
