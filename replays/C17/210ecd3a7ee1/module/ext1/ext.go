package ext

type Num int64

type Key struct {
	k0 uint64
	k1 uint8
	k2 bool
}

type E0 struct {
	F0 complex64
	f1 map[int64][1]int32
	f2 *E0
}

type E1 struct {
	f0 Num
}
