package p

var Anchor = 0

func FmapT0(f func(K0) K0, l []K0) []K0 {
	return deriveFmapFmapT0(f, l)
}

func FmapintT0(f func(K0) int, l []K0) []int {
	return deriveFmapFmapintT0(f, l)
}

func FmapstrT0(f func(rune) K0, s string) []K0 {
	return deriveFmapStrT0(f, s)
}

func JoinT0(l [][]K0) []K0 {
	return deriveJoinT0(l)
}

func JoinstrT0(l []string) string {
	return deriveJoinStrT0(l)
}

func FmapT1(f func(S0) S0, l []S0) []S0 {
	return deriveFmapFmapT1(f, l)
}

func FmapintT1(f func(S0) int, l []S0) []int {
	return deriveFmapFmapintT1(f, l)
}

func FmapstrT1(f func(rune) S0, s string) []S0 {
	return deriveFmapStrT1(f, s)
}

func JoinT1(l [][]S0) []S0 {
	return deriveJoinT1(l)
}

func FmapT2(f func(S1) S1, l []S1) []S1 {
	return deriveFmapFmapT2(f, l)
}

func FmapintT2(f func(S1) int, l []S1) []int {
	return deriveFmapFmapintT2(f, l)
}

func FmapstrT2(f func(rune) S1, s string) []S1 {
	return deriveFmapStrT2(f, s)
}

func JoinT2(l [][]S1) []S1 {
	return deriveJoinT2(l)
}

func FmapT3(f func(S2) S2, l []S2) []S2 {
	return deriveFmapFmapT3(f, l)
}

func FmapintT3(f func(S2) int, l []S2) []int {
	return deriveFmapFmapintT3(f, l)
}

func FmapstrT3(f func(rune) S2, s string) []S2 {
	return deriveFmapStrT3(f, s)
}

func JoinT3(l [][]S2) []S2 {
	return deriveJoinT3(l)
}

func FmapT4(f func([3][]int32) [3][]int32, l [][3][]int32) [][3][]int32 {
	return deriveFmapFmapT4(f, l)
}

func FmapintT4(f func([3][]int32) int, l [][3][]int32) []int {
	return deriveFmapFmapintT4(f, l)
}

func FmapstrT4(f func(rune) [3][]int32, s string) [][3][]int32 {
	return deriveFmapStrT4(f, s)
}

func JoinT4(l [][][3][]int32) [][3][]int32 {
	return deriveJoinT4(l)
}

func FmapT5(f func(S4) S4, l []S4) []S4 {
	return deriveFmapFmapT5(f, l)
}

func FmapintT5(f func(S4) int, l []S4) []int {
	return deriveFmapFmapintT5(f, l)
}

func FmapstrT5(f func(rune) S4, s string) []S4 {
	return deriveFmapStrT5(f, s)
}

func JoinT5(l [][]S4) []S4 {
	return deriveJoinT5(l)
}

func FmapT6(f func(uint64) uint64, l []uint64) []uint64 {
	return deriveFmapFmapT6(f, l)
}

func FmapintT6(f func(uint64) int, l []uint64) []int {
	return deriveFmapFmapintT6(f, l)
}

func FmapstrT6(f func(rune) uint64, s string) []uint64 {
	return deriveFmapStrT6(f, s)
}

func JoinT6(l [][]uint64) []uint64 {
	return deriveJoinT6(l)
}

func FmapT7(f func(map[rune]S0) map[rune]S0, l []map[rune]S0) []map[rune]S0 {
	return deriveFmapFmapT7(f, l)
}

func FmapintT7(f func(map[rune]S0) int, l []map[rune]S0) []int {
	return deriveFmapFmapintT7(f, l)
}

func FmapstrT7(f func(rune) map[rune]S0, s string) []map[rune]S0 {
	return deriveFmapStrT7(f, s)
}

func JoinT7(l [][]map[rune]S0) []map[rune]S0 {
	return deriveJoinT7(l)
}

func FmapT8(f func(N0) N0, l []N0) []N0 {
	return deriveFmapFmapT8(f, l)
}

func FmapintT8(f func(N0) int, l []N0) []int {
	return deriveFmapFmapintT8(f, l)
}

func FmapstrT8(f func(rune) N0, s string) []N0 {
	return deriveFmapStrT8(f, s)
}

func JoinT8(l [][]N0) []N0 {
	return deriveJoinT8(l)
}

func FmapT9(f func(int32) int32, l []int32) []int32 {
	return deriveFmapFmapT9(f, l)
}

func FmapintT9(f func(int32) int, l []int32) []int {
	return deriveFmapFmapintT9(f, l)
}

func FmapstrT9(f func(rune) int32, s string) []int32 {
	return deriveFmapStrT9(f, s)
}

func JoinT9(l [][]int32) []int32 {
	return deriveJoinT9(l)
}

func FmapT10(f func(map[int32]byte) map[int32]byte, l []map[int32]byte) []map[int32]byte {
	return deriveFmapFmapT10(f, l)
}

func FmapintT10(f func(map[int32]byte) int, l []map[int32]byte) []int {
	return deriveFmapFmapintT10(f, l)
}

func FmapstrT10(f func(rune) map[int32]byte, s string) []map[int32]byte {
	return deriveFmapStrT10(f, s)
}

func JoinT10(l [][]map[int32]byte) []map[int32]byte {
	return deriveJoinT10(l)
}

func FmapT11(f func(int8) int8, l []int8) []int8 {
	return deriveFmapFmapT11(f, l)
}

func FmapintT11(f func(int8) int, l []int8) []int {
	return deriveFmapFmapintT11(f, l)
}

func FmapstrT11(f func(rune) int8, s string) []int8 {
	return deriveFmapStrT11(f, s)
}

func JoinT11(l [][]int8) []int8 {
	return deriveJoinT11(l)
}

func FmapT12(f func(MyI64) MyI64, l []MyI64) []MyI64 {
	return deriveFmapFmapT12(f, l)
}

func FmapintT12(f func(MyI64) int, l []MyI64) []int {
	return deriveFmapFmapintT12(f, l)
}

func FmapstrT12(f func(rune) MyI64, s string) []MyI64 {
	return deriveFmapStrT12(f, s)
}

func JoinT12(l [][]MyI64) []MyI64 {
	return deriveJoinT12(l)
}

func FmapT13(f func([]bool) []bool, l [][]bool) [][]bool {
	return deriveFmapFmapT13(f, l)
}

func FmapintT13(f func([]bool) int, l [][]bool) []int {
	return deriveFmapFmapintT13(f, l)
}

func FmapstrT13(f func(rune) []bool, s string) [][]bool {
	return deriveFmapStrT13(f, s)
}

func JoinT13(l [][][]bool) [][]bool {
	return deriveJoinT13(l)
}
