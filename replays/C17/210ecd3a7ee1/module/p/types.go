package p

import (
	ext "subj/ext1"
	other "subj/x/other"
)

type MyI64 int64

type MyU uint

type MyBool bool

type N0 []uint8

type K0 struct {
	f0 MyBool
	f1 int8
	F2 [2]other.Key
}

type K1 struct {
	f0 ext.Key
}

type S0 struct {
	K0
	f1 int
	F2 other.Key
	f3 [3]int16
	F4 map[MyI64]uint8
}

type S1 struct {
	F0 byte
	S0
	F2 **N0
	F3 string
	F4 map[uint16]int8
	F5 int
}

type S2 struct {
}

type S3 struct {
	F0 *S2
	F1 uint
	F2 uint8
	f3 MyU
}

type S4 struct {
	F0 ext.Key
	S1
	F2 **S4
}
