package other

import (
	ext "subj/ext1"
)

type Num int64

type Key struct {
	K0 bool
}

type E0 struct {
	f0 Key
}

type E1 struct {
	f0 uint8
	f1 [][]byte
	f2 ext.Key
	f3 ext.E0
}
