package ext

type Num int

type Key struct {
	k0 rune
	k1 Num
	K2 bool
}

type E0 struct {
	F0 map[Key]Key
	f1 [2]float32
	F2 map[Key]Key
}
