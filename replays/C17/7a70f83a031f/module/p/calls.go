package p

import (
	ext "subj/ext1"
	ext2 "subj/x/ext"
)

var Anchor = 0

func FmapT0(f func(K0) K0, l []K0) []K0 {
	return deriveFmapFmapT0(f, l)
}

func FmapintT0(f func(K0) int, l []K0) []int {
	return deriveFmapFmapintT0(f, l)
}

func FmapstrT0(f func(rune) K0, s string) []K0 {
	return deriveFmapStrT0(f, s)
}

func JoinT0(l [][]K0) []K0 {
	return deriveJoinT0(l)
}

func JoinstrT0(l []string) string {
	return deriveJoinStrT0(l)
}

func FmapT1(f func(*ext2.Num) *ext2.Num, l []*ext2.Num) []*ext2.Num {
	return deriveFmapFmapT1(f, l)
}

func FmapintT1(f func(*ext2.Num) int, l []*ext2.Num) []int {
	return deriveFmapFmapintT1(f, l)
}

func FmapstrT1(f func(rune) *ext2.Num, s string) []*ext2.Num {
	return deriveFmapStrT1(f, s)
}

func JoinT1(l [][]*ext2.Num) []*ext2.Num {
	return deriveJoinT1(l)
}

func FmapT2(f func(complex64) complex64, l []complex64) []complex64 {
	return deriveFmapFmapT2(f, l)
}

func FmapintT2(f func(complex64) int, l []complex64) []int {
	return deriveFmapFmapintT2(f, l)
}

func FmapstrT2(f func(rune) complex64, s string) []complex64 {
	return deriveFmapStrT2(f, s)
}

func JoinT2(l [][]complex64) []complex64 {
	return deriveJoinT2(l)
}

func FmapT3(f func(S2) S2, l []S2) []S2 {
	return deriveFmapFmapT3(f, l)
}

func FmapintT3(f func(S2) int, l []S2) []int {
	return deriveFmapFmapintT3(f, l)
}

func FmapstrT3(f func(rune) S2, s string) []S2 {
	return deriveFmapStrT3(f, s)
}

func JoinT3(l [][]S2) []S2 {
	return deriveJoinT3(l)
}

func FmapT4(f func(ext.Key) ext.Key, l []ext.Key) []ext.Key {
	return deriveFmapFmapT4(f, l)
}

func FmapintT4(f func(ext.Key) int, l []ext.Key) []int {
	return deriveFmapFmapintT4(f, l)
}

func FmapstrT4(f func(rune) ext.Key, s string) []ext.Key {
	return deriveFmapStrT4(f, s)
}

func JoinT4(l [][]ext.Key) []ext.Key {
	return deriveJoinT4(l)
}

func FmapT5(f func(int8) int8, l []int8) []int8 {
	return deriveFmapFmapT5(f, l)
}

func FmapintT5(f func(int8) int, l []int8) []int {
	return deriveFmapFmapintT5(f, l)
}

func FmapstrT5(f func(rune) int8, s string) []int8 {
	return deriveFmapStrT5(f, s)
}

func JoinT5(l [][]int8) []int8 {
	return deriveJoinT5(l)
}

func FmapT6(f func(int64) int64, l []int64) []int64 {
	return deriveFmapFmapT6(f, l)
}

func FmapintT6(f func(int64) int, l []int64) []int {
	return deriveFmapFmapintT6(f, l)
}

func FmapstrT6(f func(rune) int64, s string) []int64 {
	return deriveFmapStrT6(f, s)
}

func JoinT6(l [][]int64) []int64 {
	return deriveJoinT6(l)
}

func FmapT7(f func([]K0) []K0, l [][]K0) [][]K0 {
	return deriveFmapFmapT7(f, l)
}

func FmapintT7(f func([]K0) int, l [][]K0) []int {
	return deriveFmapFmapintT7(f, l)
}

func FmapstrT7(f func(rune) []K0, s string) [][]K0 {
	return deriveFmapStrT7(f, s)
}

func JoinT7(l [][][]K0) [][]K0 {
	return deriveJoinT7(l)
}

func FmapT8(f func([3]ext2.Num) [3]ext2.Num, l [][3]ext2.Num) [][3]ext2.Num {
	return deriveFmapFmapT8(f, l)
}

func FmapintT8(f func([3]ext2.Num) int, l [][3]ext2.Num) []int {
	return deriveFmapFmapintT8(f, l)
}

func FmapstrT8(f func(rune) [3]ext2.Num, s string) [][3]ext2.Num {
	return deriveFmapStrT8(f, s)
}

func JoinT8(l [][][3]ext2.Num) [][3]ext2.Num {
	return deriveJoinT8(l)
}

func FmapT9(f func(string) string, l []string) []string {
	return deriveFmapFmapT9(f, l)
}

func FmapintT9(f func(string) int, l []string) []int {
	return deriveFmapFmapintT9(f, l)
}

func FmapstrT9(f func(rune) string, s string) []string {
	return deriveFmapStrT9(f, s)
}

func JoinT9(l [][]string) []string {
	return deriveJoinT9(l)
}

func FmapT10(f func(int32) int32, l []int32) []int32 {
	return deriveFmapFmapT10(f, l)
}

func FmapintT10(f func(int32) int, l []int32) []int {
	return deriveFmapFmapintT10(f, l)
}

func FmapstrT10(f func(rune) int32, s string) []int32 {
	return deriveFmapStrT10(f, s)
}

func JoinT10(l [][]int32) []int32 {
	return deriveJoinT10(l)
}

func FmapT11(f func([0]map[[0]ext2.Num]map[MyInt]S1) [0]map[[0]ext2.Num]map[MyInt]S1, l [][0]map[[0]ext2.Num]map[MyInt]S1) [][0]map[[0]ext2.Num]map[MyInt]S1 {
	return deriveFmapFmapT11(f, l)
}

func FmapintT11(f func([0]map[[0]ext2.Num]map[MyInt]S1) int, l [][0]map[[0]ext2.Num]map[MyInt]S1) []int {
	return deriveFmapFmapintT11(f, l)
}

func FmapstrT11(f func(rune) [0]map[[0]ext2.Num]map[MyInt]S1, s string) [][0]map[[0]ext2.Num]map[MyInt]S1 {
	return deriveFmapStrT11(f, s)
}

func JoinT11(l [][][0]map[[0]ext2.Num]map[MyInt]S1) [][0]map[[0]ext2.Num]map[MyInt]S1 {
	return deriveJoinT11(l)
}

func FmapT12(f func(map[uint64]ext2.E0) map[uint64]ext2.E0, l []map[uint64]ext2.E0) []map[uint64]ext2.E0 {
	return deriveFmapFmapT12(f, l)
}

func FmapintT12(f func(map[uint64]ext2.E0) int, l []map[uint64]ext2.E0) []int {
	return deriveFmapFmapintT12(f, l)
}

func FmapstrT12(f func(rune) map[uint64]ext2.E0, s string) []map[uint64]ext2.E0 {
	return deriveFmapStrT12(f, s)
}

func JoinT12(l [][]map[uint64]ext2.E0) []map[uint64]ext2.E0 {
	return deriveJoinT12(l)
}

func FmapT13(f func([]S2) []S2, l [][]S2) [][]S2 {
	return deriveFmapFmapT13(f, l)
}

func FmapintT13(f func([]S2) int, l [][]S2) []int {
	return deriveFmapFmapintT13(f, l)
}

func FmapstrT13(f func(rune) []S2, s string) [][]S2 {
	return deriveFmapStrT13(f, s)
}

func JoinT13(l [][][]S2) [][]S2 {
	return deriveJoinT13(l)
}
