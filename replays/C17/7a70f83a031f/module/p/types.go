package p

import (
	ext "subj/ext1"
	ext2 "subj/x/ext"
)

type MyInt int

type K0 struct {
	F0 byte
	F1 ext.Num
	F2 int32
}

type S0 struct {
	f0 string
	f1 int8
	f2 []byte
	F3 uint8
	F4 int8
	F5 *uint16
}

type S1 struct {
	F0 []S0
}

type S2 struct {
	F0 uint8
	F1 int
	f2 ext2.Num
	F3 ext.Key
	f4 string
}
