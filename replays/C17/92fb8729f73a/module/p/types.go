package p

import (
	ext "subj/ext1"
)

type MyInt int

type MyF float64

type K0 struct {
	F0 ext.Num
	F1 [2]float64
}

type K1 struct {
	F0 [1]bool
	F1 MyInt
	f2 [0]int8
}

type S0 struct {
	*K0
	f1 int64
	F2 MyInt
}

type S1 struct {
	*K1
	K0
	F2 []byte
	f3 *[]S1
}
