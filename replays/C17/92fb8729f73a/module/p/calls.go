package p

import (
	ext "subj/ext1"
)

var Anchor = 0

func FmapT0(f func(int32) int32, l []int32) []int32 {
	return deriveFmapFmapT0(f, l)
}

func FmapintT0(f func(int32) int, l []int32) []int {
	return deriveFmapFmapintT0(f, l)
}

func FmapstrT0(f func(rune) int32, s string) []int32 {
	return deriveFmapStrT0(f, s)
}

func JoinT0(l [][]int32) []int32 {
	return deriveJoinT0(l)
}

func JoinstrT0(l []string) string {
	return deriveJoinStrT0(l)
}

func FmapT1(f func(K1) K1, l []K1) []K1 {
	return deriveFmapFmapT1(f, l)
}

func FmapintT1(f func(K1) int, l []K1) []int {
	return deriveFmapFmapintT1(f, l)
}

func FmapstrT1(f func(rune) K1, s string) []K1 {
	return deriveFmapStrT1(f, s)
}

func JoinT1(l [][]K1) []K1 {
	return deriveJoinT1(l)
}

func FmapT2(f func(ext.Num) ext.Num, l []ext.Num) []ext.Num {
	return deriveFmapFmapT2(f, l)
}

func FmapintT2(f func(ext.Num) int, l []ext.Num) []int {
	return deriveFmapFmapintT2(f, l)
}

func FmapstrT2(f func(rune) ext.Num, s string) []ext.Num {
	return deriveFmapStrT2(f, s)
}

func JoinT2(l [][]ext.Num) []ext.Num {
	return deriveJoinT2(l)
}

func FmapT3(f func(S1) S1, l []S1) []S1 {
	return deriveFmapFmapT3(f, l)
}

func FmapintT3(f func(S1) int, l []S1) []int {
	return deriveFmapFmapintT3(f, l)
}

func FmapstrT3(f func(rune) S1, s string) []S1 {
	return deriveFmapStrT3(f, s)
}

func JoinT3(l [][]S1) []S1 {
	return deriveJoinT3(l)
}

func FmapT4(f func(map[int]K1) map[int]K1, l []map[int]K1) []map[int]K1 {
	return deriveFmapFmapT4(f, l)
}

func FmapintT4(f func(map[int]K1) int, l []map[int]K1) []int {
	return deriveFmapFmapintT4(f, l)
}

func FmapstrT4(f func(rune) map[int]K1, s string) []map[int]K1 {
	return deriveFmapStrT4(f, s)
}

func JoinT4(l [][]map[int]K1) []map[int]K1 {
	return deriveJoinT4(l)
}

func FmapT5(f func(uintptr) uintptr, l []uintptr) []uintptr {
	return deriveFmapFmapT5(f, l)
}

func FmapintT5(f func(uintptr) int, l []uintptr) []int {
	return deriveFmapFmapintT5(f, l)
}

func FmapstrT5(f func(rune) uintptr, s string) []uintptr {
	return deriveFmapStrT5(f, s)
}

func JoinT5(l [][]uintptr) []uintptr {
	return deriveJoinT5(l)
}

func FmapT6(f func(ext.E1) ext.E1, l []ext.E1) []ext.E1 {
	return deriveFmapFmapT6(f, l)
}

func FmapintT6(f func(ext.E1) int, l []ext.E1) []int {
	return deriveFmapFmapintT6(f, l)
}

func FmapstrT6(f func(rune) ext.E1, s string) []ext.E1 {
	return deriveFmapStrT6(f, s)
}

func JoinT6(l [][]ext.E1) []ext.E1 {
	return deriveJoinT6(l)
}

func FmapT7(f func(string) string, l []string) []string {
	return deriveFmapFmapT7(f, l)
}

func FmapintT7(f func(string) int, l []string) []int {
	return deriveFmapFmapintT7(f, l)
}

func FmapstrT7(f func(rune) string, s string) []string {
	return deriveFmapStrT7(f, s)
}

func JoinT7(l [][]string) []string {
	return deriveJoinT7(l)
}

func FmapT8(f func(**K1) **K1, l []**K1) []**K1 {
	return deriveFmapFmapT8(f, l)
}

func FmapintT8(f func(**K1) int, l []**K1) []int {
	return deriveFmapFmapintT8(f, l)
}

func FmapstrT8(f func(rune) **K1, s string) []**K1 {
	return deriveFmapStrT8(f, s)
}

func JoinT8(l [][]**K1) []**K1 {
	return deriveJoinT8(l)
}

func FmapT9(f func(int16) int16, l []int16) []int16 {
	return deriveFmapFmapT9(f, l)
}

func FmapintT9(f func(int16) int, l []int16) []int {
	return deriveFmapFmapintT9(f, l)
}

func FmapstrT9(f func(rune) int16, s string) []int16 {
	return deriveFmapStrT9(f, s)
}

func JoinT9(l [][]int16) []int16 {
	return deriveJoinT9(l)
}

func FmapT10(f func([]MyF) []MyF, l [][]MyF) [][]MyF {
	return deriveFmapFmapT10(f, l)
}

func FmapintT10(f func([]MyF) int, l [][]MyF) []int {
	return deriveFmapFmapintT10(f, l)
}

func FmapstrT10(f func(rune) []MyF, s string) [][]MyF {
	return deriveFmapStrT10(f, s)
}

func JoinT10(l [][][]MyF) [][]MyF {
	return deriveJoinT10(l)
}

func FmapT11(f func(map[bool]complex64) map[bool]complex64, l []map[bool]complex64) []map[bool]complex64 {
	return deriveFmapFmapT11(f, l)
}

func FmapintT11(f func(map[bool]complex64) int, l []map[bool]complex64) []int {
	return deriveFmapFmapintT11(f, l)
}

func FmapstrT11(f func(rune) map[bool]complex64, s string) []map[bool]complex64 {
	return deriveFmapStrT11(f, s)
}

func JoinT11(l [][]map[bool]complex64) []map[bool]complex64 {
	return deriveJoinT11(l)
}

func FmapT12(f func(map[K0]S0) map[K0]S0, l []map[K0]S0) []map[K0]S0 {
	return deriveFmapFmapT12(f, l)
}

func FmapintT12(f func(map[K0]S0) int, l []map[K0]S0) []int {
	return deriveFmapFmapintT12(f, l)
}

func FmapstrT12(f func(rune) map[K0]S0, s string) []map[K0]S0 {
	return deriveFmapStrT12(f, s)
}

func JoinT12(l [][]map[K0]S0) []map[K0]S0 {
	return deriveJoinT12(l)
}

func FmapT13(f func(complex64) complex64, l []complex64) []complex64 {
	return deriveFmapFmapT13(f, l)
}

func FmapintT13(f func(complex64) int, l []complex64) []int {
	return deriveFmapFmapintT13(f, l)
}

func FmapstrT13(f func(rune) complex64, s string) []complex64 {
	return deriveFmapStrT13(f, s)
}

func JoinT13(l [][]complex64) []complex64 {
	return deriveJoinT13(l)
}
