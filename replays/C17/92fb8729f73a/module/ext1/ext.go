package ext

type Num int64

type Key struct {
	k0 bool
	k1 int32
	k2 float32
}

type E0 struct {
	f0 Key
	f1 []float32
	F2 [1]map[Key]int8
}

type E1 struct {
	f0 map[uint64]int16
	f1 int
}
