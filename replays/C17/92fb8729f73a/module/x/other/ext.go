package other

import (
	ext "subj/ext1"
)

type Num int

type Key struct {
	K0 int8
	K1 uint64
	k2 bool
}

type E0 struct {
	f0 ext.E0
	F1 map[rune]ext.Num
	f2 Key
	f3 Num
}

type E1 struct {
	f0 [][0]E0
}
