package p

import (
	ext "subj/ext1"
	ext2 "subj/x/ext"
)

type MyBool bool

type MyC complex128

type MyRune rune

type K0 struct {
	F0 [0]uint16
	F1 [2]MyC
	F2 bool
}

type S0 struct {
	f0 K0
	f1 ext2.E0
}

type S1 struct {
	f0 int
	*K0
	f2 map[ext2.Key]MyC
	F3 string
	F4 *[]*S1
	F5 S0
}

type S2 struct {
	F0 bool
	F1 string
	*S0
	S1
	f4 K0
	f5 bool
}

type S3 struct {
	F0 ext.Key
}

type S4 struct {
	F0 bool
	F1 ext.E0
	S0
	f3 [1]int
}
