package p

import (
	ext "subj/ext1"
	other "subj/x/other"
)

var Anchor = 0

func FmapT0(f func(bool) bool, l []bool) []bool {
	return deriveFmapFmapT0(f, l)
}

func FmapintT0(f func(bool) int, l []bool) []int {
	return deriveFmapFmapintT0(f, l)
}

func FmapstrT0(f func(rune) bool, s string) []bool {
	return deriveFmapStrT0(f, s)
}

func JoinT0(l [][]bool) []bool {
	return deriveJoinT0(l)
}

func JoinstrT0(l []string) string {
	return deriveJoinStrT0(l)
}

func FmapT1(f func(int) int, l []int) []int {
	return deriveFmapFmapT1(f, l)
}

func FmapstrT1(f func(rune) int, s string) []int {
	return deriveFmapStrT1(f, s)
}

func JoinT1(l [][]int) []int {
	return deriveJoinT1(l)
}

func FmapT2(f func(*S0) *S0, l []*S0) []*S0 {
	return deriveFmapFmapT2(f, l)
}

func FmapintT2(f func(*S0) int, l []*S0) []int {
	return deriveFmapFmapintT2(f, l)
}

func FmapstrT2(f func(rune) *S0, s string) []*S0 {
	return deriveFmapStrT2(f, s)
}

func JoinT2(l [][]*S0) []*S0 {
	return deriveJoinT2(l)
}

func FmapT3(f func(S1) S1, l []S1) []S1 {
	return deriveFmapFmapT3(f, l)
}

func FmapintT3(f func(S1) int, l []S1) []int {
	return deriveFmapFmapintT3(f, l)
}

func FmapstrT3(f func(rune) S1, s string) []S1 {
	return deriveFmapStrT3(f, s)
}

func JoinT3(l [][]S1) []S1 {
	return deriveJoinT3(l)
}

func FmapT4(f func([0]MyC) [0]MyC, l [][0]MyC) [][0]MyC {
	return deriveFmapFmapT4(f, l)
}

func FmapintT4(f func([0]MyC) int, l [][0]MyC) []int {
	return deriveFmapFmapintT4(f, l)
}

func FmapstrT4(f func(rune) [0]MyC, s string) [][0]MyC {
	return deriveFmapStrT4(f, s)
}

func JoinT4(l [][][0]MyC) [][0]MyC {
	return deriveJoinT4(l)
}

func FmapT5(f func(map[other.Key]ext.E1) map[other.Key]ext.E1, l []map[other.Key]ext.E1) []map[other.Key]ext.E1 {
	return deriveFmapFmapT5(f, l)
}

func FmapintT5(f func(map[other.Key]ext.E1) int, l []map[other.Key]ext.E1) []int {
	return deriveFmapFmapintT5(f, l)
}

func FmapstrT5(f func(rune) map[other.Key]ext.E1, s string) []map[other.Key]ext.E1 {
	return deriveFmapStrT5(f, s)
}

func JoinT5(l [][]map[other.Key]ext.E1) []map[other.Key]ext.E1 {
	return deriveJoinT5(l)
}

func FmapT6(f func(rune) rune, l []rune) []rune {
	return deriveFmapFmapT6(f, l)
}

func FmapintT6(f func(rune) int, l []rune) []int {
	return deriveFmapFmapintT6(f, l)
}

func FmapstrT6(f func(rune) rune, s string) []rune {
	return deriveFmapStrT6(f, s)
}

func JoinT6(l [][]rune) []rune {
	return deriveJoinT6(l)
}

func FmapT7(f func(complex64) complex64, l []complex64) []complex64 {
	return deriveFmapFmapT7(f, l)
}

func FmapintT7(f func(complex64) int, l []complex64) []int {
	return deriveFmapFmapintT7(f, l)
}

func FmapstrT7(f func(rune) complex64, s string) []complex64 {
	return deriveFmapStrT7(f, s)
}

func JoinT7(l [][]complex64) []complex64 {
	return deriveJoinT7(l)
}

func FmapT8(f func(*S1) *S1, l []*S1) []*S1 {
	return deriveFmapFmapT8(f, l)
}

func FmapintT8(f func(*S1) int, l []*S1) []int {
	return deriveFmapFmapintT8(f, l)
}

func FmapstrT8(f func(rune) *S1, s string) []*S1 {
	return deriveFmapStrT8(f, s)
}

func JoinT8(l [][]*S1) []*S1 {
	return deriveJoinT8(l)
}

func FmapT9(f func(map[ext.Key]N0) map[ext.Key]N0, l []map[ext.Key]N0) []map[ext.Key]N0 {
	return deriveFmapFmapT9(f, l)
}

func FmapintT9(f func(map[ext.Key]N0) int, l []map[ext.Key]N0) []int {
	return deriveFmapFmapintT9(f, l)
}

func FmapstrT9(f func(rune) map[ext.Key]N0, s string) []map[ext.Key]N0 {
	return deriveFmapStrT9(f, s)
}

func JoinT9(l [][]map[ext.Key]N0) []map[ext.Key]N0 {
	return deriveJoinT9(l)
}

func FmapT10(f func(N0) N0, l []N0) []N0 {
	return deriveFmapFmapT10(f, l)
}

func FmapintT10(f func(N0) int, l []N0) []int {
	return deriveFmapFmapintT10(f, l)
}

func FmapstrT10(f func(rune) N0, s string) []N0 {
	return deriveFmapStrT10(f, s)
}

func JoinT10(l [][]N0) []N0 {
	return deriveJoinT10(l)
}

func FmapT11(f func(uint16) uint16, l []uint16) []uint16 {
	return deriveFmapFmapT11(f, l)
}

func FmapintT11(f func(uint16) int, l []uint16) []int {
	return deriveFmapFmapintT11(f, l)
}

func FmapstrT11(f func(rune) uint16, s string) []uint16 {
	return deriveFmapStrT11(f, s)
}

func JoinT11(l [][]uint16) []uint16 {
	return deriveJoinT11(l)
}

func FmapT12(f func(map[[1]MyBool]*S0) map[[1]MyBool]*S0, l []map[[1]MyBool]*S0) []map[[1]MyBool]*S0 {
	return deriveFmapFmapT12(f, l)
}

func FmapintT12(f func(map[[1]MyBool]*S0) int, l []map[[1]MyBool]*S0) []int {
	return deriveFmapFmapintT12(f, l)
}

func FmapstrT12(f func(rune) map[[1]MyBool]*S0, s string) []map[[1]MyBool]*S0 {
	return deriveFmapStrT12(f, s)
}

func JoinT12(l [][]map[[1]MyBool]*S0) []map[[1]MyBool]*S0 {
	return deriveJoinT12(l)
}

func FmapT13(f func(uint8) uint8, l []uint8) []uint8 {
	return deriveFmapFmapT13(f, l)
}

func FmapintT13(f func(uint8) int, l []uint8) []int {
	return deriveFmapFmapintT13(f, l)
}

func FmapstrT13(f func(rune) uint8, s string) []uint8 {
	return deriveFmapStrT13(f, s)
}

func JoinT13(l [][]uint8) []uint8 {
	return deriveJoinT13(l)
}
