package p

type MyU uint

type MyBool bool

type MyC complex128

type N0 *int

type K0 struct {
	f0 complex128
}

type K1 struct {
	F0 rune
	F1 [0]MyBool
	F2 K0
}

type S0 struct {
	K0
	F1 map[MyBool]**MyC
	F2 int
	f3 int64
	F4 int32
}

type S1 struct {
	F0 float64
	K0
	F2 int16
	K1
}
