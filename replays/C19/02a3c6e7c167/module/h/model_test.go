package h

import (
	"fmt"
	"os"
	"reflect"
	"sort"
	"strconv"
	"strings"
	"testing"

	"pgregory.net/rapid"

	m "subj/modelp"
	m2 "subj/modelp2"
	p "subj/p"
	"subj/sched"
	"subj/vrep"
)

type mcfg struct {
	form  string
	items []int
	caps  []int
	ocap  int
}

func (c mcfg) String() string {
	return fmt.Sprintf("form=%s items=%v caps=%v outerCap=%d", c.form, c.items, c.caps, c.ocap)
}

type mobs struct {
	got    [][]p.Item
	closed []int
	fcalls []p.Item
	sent   []p.Item
}

func setS(s *sched.Sched) { m.S = s; m2.S = s }

// runModel executes one schedule of configuration c under scheduler s.
func runModel(s *sched.Sched, c mcfg) *mobs {
	o := &mobs{}
	setS(s)
	s.Run(func() {
		n := len(c.items)
		ins := make([]*sched.Chan[p.Item], n)
		for i := range ins {
			ins[i] = sched.Make[p.Item](s, c.caps[i]).Named(fmt.Sprintf("in%d", i))
		}
		startProducers := func() {
			for i := range ins {
				i := i
				s.GoNamed(fmt.Sprintf("producer%d", i), func() {
					for k := 0; k < c.items[i]; k++ {
						it := p.Item{Ch: i, Seq: k}
						ins[i].Send(it)
						o.sent = append(o.sent, it)
					}
					ins[i].Close()
				})
			}
		}
		f := func(it p.Item) p.Item {
			o.fcalls = append(o.fcalls, it)
			it.Mapped = true
			return it
		}
		var outs []*sched.Chan[p.Item]
		switch c.form {
		case "fmap":
			outs = []*sched.Chan[p.Item]{m.FmapChan(f, ins[0])}
			startProducers()
		case "dup":
			a, b := m.Dup(ins[0])
			outs = []*sched.Chan[p.Item]{a, b}
			startProducers()
		case "dupS":
			a, b := m2.DupS(ins[0])
			outs = []*sched.Chan[p.Item]{a, b}
			startProducers()
		case "joinSliceR":
			outs = []*sched.Chan[p.Item]{m.JoinSliceR(ins)}
			startProducers()
		case "joinSliceS":
			outs = []*sched.Chan[p.Item]{m.JoinSliceS(ins)}
			startProducers()
		case "joinV2":
			outs = []*sched.Chan[p.Item]{m.JoinV2(ins[0], ins[1])}
			startProducers()
		case "joinV3":
			outs = []*sched.Chan[p.Item]{m.JoinV3(ins[0], ins[1], ins[2])}
			startProducers()
		case "joinRR", "joinSR":
			outer := sched.Make[*sched.Chan[p.Item]](s, c.ocap).Named("outer")
			if c.form == "joinRR" {
				outs = []*sched.Chan[p.Item]{m.JoinRR(outer)}
			} else {
				outs = []*sched.Chan[p.Item]{m2.JoinSR(outer)}
			}
			startProducers()
			s.GoNamed("handover", func() {
				for i := range ins {
					outer.Send(ins[i])
				}
				outer.Close()
			})
		case "pipeline":
			src := ins[0]
			pf := func(int) *sched.Chan[p.Item] { return src }
			pg := func(it p.Item) *sched.Chan[p.Item] {
				o.fcalls = append(o.fcalls, it)
				k := it.Seq%2 + 1
				ch := sched.Make[p.Item](s, c.ocap)
				s.GoNamed(fmt.Sprintf("fan%d", it.Seq), func() {
					for j := 0; j < k; j++ {
						ch.Send(p.Item{Ch: it.Seq, Seq: j, Mapped: true})
					}
					ch.Close()
				})
				return ch
			}
			outs = []*sched.Chan[p.Item]{m.Pipeline(pf, pg)(7)}
			startProducers()
		}
		o.got = make([][]p.Item, len(outs))
		o.closed = make([]int, len(outs))
		for i, out := range outs {
			i, out := i, out
			s.GoNamed(fmt.Sprintf("consumer%d", i), func() {
				for {
					v, ok := out.Recv()
					if !ok {
						o.closed[i]++
						return
					}
					o.got[i] = append(o.got[i], v)
				}
			})
		}
	})
	return o
}

func mkey(it p.Item) string { return fmt.Sprintf("%d.%d", it.Ch, it.Seq) }

func judgeModel(c mcfg, s *sched.Sched, o *mobs) (string, string) {
	if len(s.Problems) > 0 {
		cls := "panic"
		if strings.Contains(s.Problems[0], "WaitGroup") {
			cls = "waitgroup-misuse"
		}
		if strings.Contains(s.Problems[0], "closed channel") {
			cls = "send-or-close-on-closed"
		}
		return cls, strings.Join(s.Problems, "; ")
	}
	if s.Deadlock {
		return "deadlock", "no transition is enabled while tasks are blocked: " + strings.Join(s.Blocked, ", ")
	}
	for i, n := range o.closed {
		if n != 1 {
			return "close-once", fmt.Sprintf("output %d observed closed %d times", i, n)
		}
	}
	var want []string
	if c.form == "pipeline" {
		for _, it := range o.sent {
			for k := 0; k < it.Seq%2+1; k++ {
				want = append(want, mkey(p.Item{Ch: it.Seq, Seq: k}))
			}
		}
	} else {
		for _, it := range o.sent {
			want = append(want, mkey(it))
		}
	}
	for oi, got := range o.got {
		var g []string
		for _, it := range got {
			g = append(g, mkey(it))
		}
		gs, ws := append([]string{}, g...), append([]string{}, want...)
		sort.Strings(gs)
		sort.Strings(ws)
		if !reflect.DeepEqual(gs, ws) {
			return "exactly-once", fmt.Sprintf("output %d received %v, inputs carried %v", oi, g, want)
		}
		last := map[int]int{}
		for _, it := range got {
			if l, ok := last[it.Ch]; ok && it.Seq <= l {
				return "order", fmt.Sprintf("output %d: items of input %d out of order: %v", oi, it.Ch, g)
			}
			last[it.Ch] = it.Seq
		}
	}
	if c.form == "fmap" && len(o.fcalls) != len(o.sent) {
		return "f-calls", fmt.Sprintf("f called %d times for %d items", len(o.fcalls), len(o.sent))
	}
	return "", ""
}

func allConfigs(thorough bool) []mcfg {
	var out []mcfg
	maxItems := 2
	combos := func(n, maxv int) [][]int {
		res := [][]int{{}}
		for i := 0; i < n; i++ {
			var next [][]int
			for _, r := range res {
				for v := 0; v <= maxv; v++ {
					next = append(next, append(append([]int{}, r...), v))
				}
			}
			res = next
		}
		return res
	}
	add := func(form string, n int, maxIt, maxCap int) {
		for _, items := range combos(n, maxIt) {
			for _, caps := range combos(n, maxCap) {
				ocs := []int{0}
				if form == "joinRR" || form == "joinSR" || form == "pipeline" {
					ocs = []int{0, 1}
				}
				for _, oc := range ocs {
					out = append(out, mcfg{form, items, caps, oc})
				}
			}
		}
	}
	for _, f := range []string{"fmap", "dup", "dupS"} {
		add(f, 1, maxItems+1, 2)
	}
	add("pipeline", 1, maxItems, 1)
	for _, f := range []string{"joinSliceR", "joinSliceS", "joinRR", "joinSR", "joinV2"} {
		add(f, 2, maxItems, 1)
		if f != "joinV2" {
			add(f, 1, maxItems, 1)
			add(f, 0, 0, 0)
		}
	}
	add("joinV3", 3, 1, 0)
	if thorough {
		add("joinSliceR", 3, 1, 1)
		add("joinRR", 3, 1, 0)
	}
	_ = maxItems
	return out
}

// TestHModel explores the interleavings of the rewritten helpers: every schedule of every tiny
// configuration up to a per-configuration bound (bounded-exhaustive), then random deeper ones.
func TestHModel(t *testing.T) {
	e := &Registry[0]
	thorough := os.Getenv("VERIF_TIER") == "thorough"
	bound := 3000
	if thorough {
		bound = 300000
	}
	if v := os.Getenv("VERIF_SCHEDULE_BOUND"); v != "" {
		bound, _ = strconv.Atoi(v)
	}
	shard, _ := strconv.Atoi(os.Getenv("VERIF_MODEL_SHARD"))
	nshards, _ := strconv.Atoi(os.Getenv("VERIF_MODEL_NSHARDS"))
	if nshards == 0 {
		nshards = 1
	}
	exhaustive, truncated := 0, 0
	for ci, c := range allConfigs(thorough) {
		if ci%nshards != shard {
			continue
		}
		ex := &sched.PORExplorer{}
		failed := false
		for {
			s := sched.New(nil)
			s.ChooseT = ex.Chooser()
			o := runModel(s, c)
			rep.Eval()
			if s.Abandoned {
				// every enabled transition was asleep: this interleaving only repeats commuting steps of one already explored
				rep.AddExtra("model_runs_cut_by_sleep_sets", 1)
				if !ex.Next() {
					exhaustive++
					break
				}
				if ex.Runs >= bound {
					truncated++
					break
				}
				continue
			}
			if check, msg := judgeModel(c, s, o); check != "" {
				tr := s.Trace
				if len(tr) > 60 {
					tr = tr[len(tr)-60:]
				}
				sig := map[string]string{"check": check, "form": c.form, "engine": "model-scheduler"}
				v := vrep.Violation{Signature: sig, Message: fmt.Sprintf("type %s (entry %s): %s\n config: %s\n schedule (%d steps, last shown):\n  %s", e.TypeStr, e.ID, msg, c, len(s.Trace), strings.Join(tr, "\n  "))}
				if fd := findings.Match(property, sig); fd != nil {
					v.Finding = fd.ID
					rep.KnownHit(v)
				} else {
					v.Signature["entry"] = e.ID
					rep.Violate(v)
					t.Errorf("%s", v.Message)
				}
				failed = true
				break
			}
			if !ex.Next() {
				exhaustive++
				break
			}
			if ex.Runs >= bound {
				truncated++
				break
			}
		}
		total := 0
		for _, n := range c.items {
			total += n
		}
		if total >= 2 {
			rep.NT("model|" + c.String())
		}
		rep.Class("model-config:" + c.form)
		if len(rep.Samples) < 6 && ci%7 == 0 {
			rep.Sample(map[string]any{"engine": "model scheduler", "config": c.String(), "schedules": ex.Runs, "exhaustive": !failed && ex.Runs < bound})
		}
	}
	rep.AddExtra("model_configs_exhaustive", int64(exhaustive))
	rep.AddExtra("model_configs_truncated_at_bound", int64(truncated))
	// random schedules for deeper configurations
	lastFail = nil
	passed := t.Run("random", func(t *testing.T) {
		rapid.Check(t, func(rt *rapid.T) {
			defer func() {
				if r := recover(); r != nil {
					if _, ok := r.(knownHit); ok {
						return
					}
					panic(r)
				}
			}()
			form := rapid.SampledFrom([]string{"fmap", "dup", "dupS", "joinSliceR", "joinSliceS", "joinRR", "joinSR", "joinV2", "joinV3", "pipeline"}).Draw(rt, "form")
			n := map[string]int{"fmap": 1, "dup": 1, "dupS": 1, "joinV2": 2, "joinV3": 3, "pipeline": 1}[form]
			if n == 0 {
				n = rapid.IntRange(1, 4).Draw(rt, "inputs")
			}
			c := mcfg{form: form, ocap: rapid.IntRange(0, 2).Draw(rt, "ocap")}
			for i := 0; i < n; i++ {
				c.items = append(c.items, rapid.IntRange(0, 4).Draw(rt, "items"))
				c.caps = append(c.caps, rapid.IntRange(0, 2).Draw(rt, "cap"))
			}
			s := sched.New(func(k int, _ []string) int { return rapid.IntRange(0, k-1).Draw(rt, "choice") })
			o := runModel(s, c)
			rep.Eval()
			rep.NT("model-random|" + c.String() + "|" + strings.Join(s.Trace, ";"))
			if check, msg := judgeModel(c, s, o); check != "" {
				fail(rt, e, map[string]string{"check": check, "form": c.form, "engine": "model-scheduler"}, "%s\n config: %s\n schedule:\n  %s", msg, c, strings.Join(s.Trace, "\n  "))
			}
		})
	})
	if !passed && lastFail != nil {
		lastFail.Signature["entry"] = e.ID
		rep.Violate(*lastFail)
	}
}
