package p

var Anchor = 0

func EqualT0(a [2][]string, b [2][]string) bool {
	return deriveEqualT0(a, b)
}

func EqualcT0(a [2][]string, b [2][]string) bool {
	return deriveEqualCT0(a)(b)
}

type CtxEqualT0 struct{ F [2][]string }

func EqualCtxStT0(a, b [2][]string) bool {
	return deriveEqualCStT0(CtxEqualT0{a}, CtxEqualT0{b})
}

func EqualCtxSlT0(a, b [2][]string) bool {
	return deriveEqualCSlT0([][2][]string{a}, [][2][]string{b})
}

func EqualCtxArT0(a, b [2][]string) bool {
	return deriveEqualCArT0([1][2][]string{a}, [1][2][]string{b})
}

func EqualCtxMaT0(a, b [2][]string) bool {
	return deriveEqualCMaT0(map[string][2][]string{"k": a}, map[string][2][]string{"k": b})
}

func EqualCtxPtT0(a, b [2][]string) bool {
	return deriveEqualCPtT0(&a, &b)
}

func EqualT1(a map[string][]string, b map[string][]string) bool {
	return deriveEqualT1(a, b)
}

func EqualcT1(a map[string][]string, b map[string][]string) bool {
	return deriveEqualCT1(a)(b)
}

type CtxEqualT1 struct{ F map[string][]string }

func EqualCtxStT1(a, b map[string][]string) bool {
	return deriveEqualCStT1(CtxEqualT1{a}, CtxEqualT1{b})
}

func EqualCtxSlT1(a, b map[string][]string) bool {
	return deriveEqualCSlT1([]map[string][]string{a}, []map[string][]string{b})
}

func EqualCtxArT1(a, b map[string][]string) bool {
	return deriveEqualCArT1([1]map[string][]string{a}, [1]map[string][]string{b})
}

func EqualCtxMaT1(a, b map[string][]string) bool {
	return deriveEqualCMaT1(map[string]map[string][]string{"k": a}, map[string]map[string][]string{"k": b})
}

func EqualCtxPtT1(a, b map[string][]string) bool {
	return deriveEqualCPtT1(&a, &b)
}

func EqualT2(a map[K0][]string, b map[K0][]string) bool {
	return deriveEqualT2(a, b)
}

func EqualcT2(a map[K0][]string, b map[K0][]string) bool {
	return deriveEqualCT2(a)(b)
}

type CtxEqualT2 struct{ F map[K0][]string }

func EqualCtxStT2(a, b map[K0][]string) bool {
	return deriveEqualCStT2(CtxEqualT2{a}, CtxEqualT2{b})
}

func EqualCtxSlT2(a, b map[K0][]string) bool {
	return deriveEqualCSlT2([]map[K0][]string{a}, []map[K0][]string{b})
}

func EqualCtxArT2(a, b map[K0][]string) bool {
	return deriveEqualCArT2([1]map[K0][]string{a}, [1]map[K0][]string{b})
}

func EqualCtxMaT2(a, b map[K0][]string) bool {
	return deriveEqualCMaT2(map[string]map[K0][]string{"k": a}, map[string]map[K0][]string{"k": b})
}

func EqualCtxPtT2(a, b map[K0][]string) bool {
	return deriveEqualCPtT2(&a, &b)
}

func EqualT3(a *[2]string, b *[2]string) bool {
	return deriveEqualT3(a, b)
}

func EqualcT3(a *[2]string, b *[2]string) bool {
	return deriveEqualCT3(a)(b)
}

type CtxEqualT3 struct{ F *[2]string }

func EqualCtxStT3(a, b *[2]string) bool {
	return deriveEqualCStT3(CtxEqualT3{a}, CtxEqualT3{b})
}

func EqualCtxSlT3(a, b *[2]string) bool {
	return deriveEqualCSlT3([]*[2]string{a}, []*[2]string{b})
}

func EqualCtxArT3(a, b *[2]string) bool {
	return deriveEqualCArT3([1]*[2]string{a}, [1]*[2]string{b})
}

func EqualCtxMaT3(a, b *[2]string) bool {
	return deriveEqualCMaT3(map[string]*[2]string{"k": a}, map[string]*[2]string{"k": b})
}

func EqualCtxPtT3(a, b *[2]string) bool {
	return deriveEqualCPtT3(&a, &b)
}

func EqualT4(a [][2]string, b [][2]string) bool {
	return deriveEqualT4(a, b)
}

func EqualcT4(a [][2]string, b [][2]string) bool {
	return deriveEqualCT4(a)(b)
}

type CtxEqualT4 struct{ F [][2]string }

func EqualCtxStT4(a, b [][2]string) bool {
	return deriveEqualCStT4(CtxEqualT4{a}, CtxEqualT4{b})
}

func EqualCtxSlT4(a, b [][2]string) bool {
	return deriveEqualCSlT4([][][2]string{a}, [][][2]string{b})
}

func EqualCtxArT4(a, b [][2]string) bool {
	return deriveEqualCArT4([1][][2]string{a}, [1][][2]string{b})
}

func EqualCtxMaT4(a, b [][2]string) bool {
	return deriveEqualCMaT4(map[string][][2]string{"k": a}, map[string][][2]string{"k": b})
}

func EqualCtxPtT4(a, b [][2]string) bool {
	return deriveEqualCPtT4(&a, &b)
}

func EqualT5(a [2][2]string, b [2][2]string) bool {
	return deriveEqualT5(a, b)
}

func EqualcT5(a [2][2]string, b [2][2]string) bool {
	return deriveEqualCT5(a)(b)
}

type CtxEqualT5 struct{ F [2][2]string }

func EqualCtxStT5(a, b [2][2]string) bool {
	return deriveEqualCStT5(CtxEqualT5{a}, CtxEqualT5{b})
}

func EqualCtxSlT5(a, b [2][2]string) bool {
	return deriveEqualCSlT5([][2][2]string{a}, [][2][2]string{b})
}

func EqualCtxArT5(a, b [2][2]string) bool {
	return deriveEqualCArT5([1][2][2]string{a}, [1][2][2]string{b})
}

func EqualCtxMaT5(a, b [2][2]string) bool {
	return deriveEqualCMaT5(map[string][2][2]string{"k": a}, map[string][2][2]string{"k": b})
}

func EqualCtxPtT5(a, b [2][2]string) bool {
	return deriveEqualCPtT5(&a, &b)
}

func EqualT6(a map[string][2]string, b map[string][2]string) bool {
	return deriveEqualT6(a, b)
}

func EqualcT6(a map[string][2]string, b map[string][2]string) bool {
	return deriveEqualCT6(a)(b)
}

type CtxEqualT6 struct{ F map[string][2]string }

func EqualCtxStT6(a, b map[string][2]string) bool {
	return deriveEqualCStT6(CtxEqualT6{a}, CtxEqualT6{b})
}

func EqualCtxSlT6(a, b map[string][2]string) bool {
	return deriveEqualCSlT6([]map[string][2]string{a}, []map[string][2]string{b})
}

func EqualCtxArT6(a, b map[string][2]string) bool {
	return deriveEqualCArT6([1]map[string][2]string{a}, [1]map[string][2]string{b})
}

func EqualCtxMaT6(a, b map[string][2]string) bool {
	return deriveEqualCMaT6(map[string]map[string][2]string{"k": a}, map[string]map[string][2]string{"k": b})
}

func EqualCtxPtT6(a, b map[string][2]string) bool {
	return deriveEqualCPtT6(&a, &b)
}

func EqualT7(a map[K0][2]string, b map[K0][2]string) bool {
	return deriveEqualT7(a, b)
}

func EqualcT7(a map[K0][2]string, b map[K0][2]string) bool {
	return deriveEqualCT7(a)(b)
}

type CtxEqualT7 struct{ F map[K0][2]string }

func EqualCtxStT7(a, b map[K0][2]string) bool {
	return deriveEqualCStT7(CtxEqualT7{a}, CtxEqualT7{b})
}

func EqualCtxSlT7(a, b map[K0][2]string) bool {
	return deriveEqualCSlT7([]map[K0][2]string{a}, []map[K0][2]string{b})
}

func EqualCtxArT7(a, b map[K0][2]string) bool {
	return deriveEqualCArT7([1]map[K0][2]string{a}, [1]map[K0][2]string{b})
}

func EqualCtxMaT7(a, b map[K0][2]string) bool {
	return deriveEqualCMaT7(map[string]map[K0][2]string{"k": a}, map[string]map[K0][2]string{"k": b})
}

func EqualCtxPtT7(a, b map[K0][2]string) bool {
	return deriveEqualCPtT7(&a, &b)
}

func EqualT8(a *map[string]string, b *map[string]string) bool {
	return deriveEqualT8(a, b)
}

func EqualcT8(a *map[string]string, b *map[string]string) bool {
	return deriveEqualCT8(a)(b)
}

type CtxEqualT8 struct{ F *map[string]string }

func EqualCtxStT8(a, b *map[string]string) bool {
	return deriveEqualCStT8(CtxEqualT8{a}, CtxEqualT8{b})
}

func EqualCtxSlT8(a, b *map[string]string) bool {
	return deriveEqualCSlT8([]*map[string]string{a}, []*map[string]string{b})
}

func EqualCtxArT8(a, b *map[string]string) bool {
	return deriveEqualCArT8([1]*map[string]string{a}, [1]*map[string]string{b})
}

func EqualCtxMaT8(a, b *map[string]string) bool {
	return deriveEqualCMaT8(map[string]*map[string]string{"k": a}, map[string]*map[string]string{"k": b})
}

func EqualCtxPtT8(a, b *map[string]string) bool {
	return deriveEqualCPtT8(&a, &b)
}

func EqualT9(a []map[string]string, b []map[string]string) bool {
	return deriveEqualT9(a, b)
}

func EqualcT9(a []map[string]string, b []map[string]string) bool {
	return deriveEqualCT9(a)(b)
}

type CtxEqualT9 struct{ F []map[string]string }

func EqualCtxStT9(a, b []map[string]string) bool {
	return deriveEqualCStT9(CtxEqualT9{a}, CtxEqualT9{b})
}

func EqualCtxSlT9(a, b []map[string]string) bool {
	return deriveEqualCSlT9([][]map[string]string{a}, [][]map[string]string{b})
}

func EqualCtxArT9(a, b []map[string]string) bool {
	return deriveEqualCArT9([1][]map[string]string{a}, [1][]map[string]string{b})
}

func EqualCtxMaT9(a, b []map[string]string) bool {
	return deriveEqualCMaT9(map[string][]map[string]string{"k": a}, map[string][]map[string]string{"k": b})
}

func EqualCtxPtT9(a, b []map[string]string) bool {
	return deriveEqualCPtT9(&a, &b)
}

func EqualT10(a [2]map[string]string, b [2]map[string]string) bool {
	return deriveEqualT10(a, b)
}

func EqualcT10(a [2]map[string]string, b [2]map[string]string) bool {
	return deriveEqualCT10(a)(b)
}

type CtxEqualT10 struct{ F [2]map[string]string }

func EqualCtxStT10(a, b [2]map[string]string) bool {
	return deriveEqualCStT10(CtxEqualT10{a}, CtxEqualT10{b})
}

func EqualCtxSlT10(a, b [2]map[string]string) bool {
	return deriveEqualCSlT10([][2]map[string]string{a}, [][2]map[string]string{b})
}

func EqualCtxArT10(a, b [2]map[string]string) bool {
	return deriveEqualCArT10([1][2]map[string]string{a}, [1][2]map[string]string{b})
}

func EqualCtxMaT10(a, b [2]map[string]string) bool {
	return deriveEqualCMaT10(map[string][2]map[string]string{"k": a}, map[string][2]map[string]string{"k": b})
}

func EqualCtxPtT10(a, b [2]map[string]string) bool {
	return deriveEqualCPtT10(&a, &b)
}

func EqualT11(a map[string]map[string]string, b map[string]map[string]string) bool {
	return deriveEqualT11(a, b)
}

func EqualcT11(a map[string]map[string]string, b map[string]map[string]string) bool {
	return deriveEqualCT11(a)(b)
}

type CtxEqualT11 struct{ F map[string]map[string]string }

func EqualCtxStT11(a, b map[string]map[string]string) bool {
	return deriveEqualCStT11(CtxEqualT11{a}, CtxEqualT11{b})
}

func EqualCtxSlT11(a, b map[string]map[string]string) bool {
	return deriveEqualCSlT11([]map[string]map[string]string{a}, []map[string]map[string]string{b})
}

func EqualCtxArT11(a, b map[string]map[string]string) bool {
	return deriveEqualCArT11([1]map[string]map[string]string{a}, [1]map[string]map[string]string{b})
}

func EqualCtxMaT11(a, b map[string]map[string]string) bool {
	return deriveEqualCMaT11(map[string]map[string]map[string]string{"k": a}, map[string]map[string]map[string]string{"k": b})
}

func EqualCtxPtT11(a, b map[string]map[string]string) bool {
	return deriveEqualCPtT11(&a, &b)
}

func EqualT12(a map[K0]map[string]string, b map[K0]map[string]string) bool {
	return deriveEqualT12(a, b)
}

func EqualcT12(a map[K0]map[string]string, b map[K0]map[string]string) bool {
	return deriveEqualCT12(a)(b)
}

type CtxEqualT12 struct{ F map[K0]map[string]string }

func EqualCtxStT12(a, b map[K0]map[string]string) bool {
	return deriveEqualCStT12(CtxEqualT12{a}, CtxEqualT12{b})
}

func EqualCtxSlT12(a, b map[K0]map[string]string) bool {
	return deriveEqualCSlT12([]map[K0]map[string]string{a}, []map[K0]map[string]string{b})
}

func EqualCtxArT12(a, b map[K0]map[string]string) bool {
	return deriveEqualCArT12([1]map[K0]map[string]string{a}, [1]map[K0]map[string]string{b})
}

func EqualCtxMaT12(a, b map[K0]map[string]string) bool {
	return deriveEqualCMaT12(map[string]map[K0]map[string]string{"k": a}, map[string]map[K0]map[string]string{"k": b})
}

func EqualCtxPtT12(a, b map[K0]map[string]string) bool {
	return deriveEqualCPtT12(&a, &b)
}

func EqualT13(a *map[K0]string, b *map[K0]string) bool {
	return deriveEqualT13(a, b)
}

func EqualcT13(a *map[K0]string, b *map[K0]string) bool {
	return deriveEqualCT13(a)(b)
}

type CtxEqualT13 struct{ F *map[K0]string }

func EqualCtxStT13(a, b *map[K0]string) bool {
	return deriveEqualCStT13(CtxEqualT13{a}, CtxEqualT13{b})
}

func EqualCtxSlT13(a, b *map[K0]string) bool {
	return deriveEqualCSlT13([]*map[K0]string{a}, []*map[K0]string{b})
}

func EqualCtxArT13(a, b *map[K0]string) bool {
	return deriveEqualCArT13([1]*map[K0]string{a}, [1]*map[K0]string{b})
}

func EqualCtxMaT13(a, b *map[K0]string) bool {
	return deriveEqualCMaT13(map[string]*map[K0]string{"k": a}, map[string]*map[K0]string{"k": b})
}

func EqualCtxPtT13(a, b *map[K0]string) bool {
	return deriveEqualCPtT13(&a, &b)
}
