package ext

type Num string

type Key struct {
	k0 uintptr
	K1 bool
}

type E0 struct {
}

type E1 struct {
	f0 E0
	f1 Num
	f2 int16
	f3 map[bool]E0
}
