package ext

type Num int

type Key struct {
	k0 uint8
	K1 uint8
}

type E0 struct {
	F0 *uint64
}

type E1 struct {
	f0 *E1
}
