package p

import (
	ext "subj/ext1"
	ext2 "subj/x/ext"
)

type MyF float64

type MyI64 int64

type MyU uint

type MyBool bool

type N0 *MyU

type N1 [3]complex64

type N2 *complex128

type K0 struct {
	f0 ext.Num
	F1 ext.Num
	F2 MyI64
}

func (a *K0) Equal(b *K0) bool {
	return deriveEqualMK0(a, b)
}

type S0 struct {
	K0
	f1 [0]uint32
}

func (a S0) Equal(b S0) bool {
	return true
}

type S1 struct {
	K0
	f1 *S2
	F2 MyBool
	f3 map[[0]uint16]map[MyF][2]ext2.Key
	F4 int64
}

type S2 struct {
	S0
}

func (a S2) Equal(b S2) bool {
	return true
}

type S3 struct {
	F0 *ext.E1
}

func (a S3) Equal(b S3) bool {
	return true
}
