package p

import (
	ext2 "subj/x/ext"
)

var Anchor = 0

func EqualT0(a complex128, b complex128) bool {
	return deriveEqualT0(a, b)
}

func EqualcT0(a complex128, b complex128) bool {
	return deriveEqualCT0(a)(b)
}

type CtxEqualT0 struct{ F complex128 }

func EqualCtxStT0(a, b complex128) bool {
	return deriveEqualCStT0(CtxEqualT0{a}, CtxEqualT0{b})
}

func EqualCtxSlT0(a, b complex128) bool {
	return deriveEqualCSlT0([]complex128{a}, []complex128{b})
}

func EqualCtxArT0(a, b complex128) bool {
	return deriveEqualCArT0([1]complex128{a}, [1]complex128{b})
}

func EqualCtxMaT0(a, b complex128) bool {
	return deriveEqualCMaT0(map[string]complex128{"k": a}, map[string]complex128{"k": b})
}

func EqualCtxPtT0(a, b complex128) bool {
	return deriveEqualCPtT0(&a, &b)
}

func EqualT1(a S0, b S0) bool {
	return deriveEqualT1(a, b)
}

func EqualcT1(a S0, b S0) bool {
	return deriveEqualCT1(a)(b)
}

type CtxEqualT1 struct{ F S0 }

func EqualCtxStT1(a, b S0) bool {
	return deriveEqualCStT1(CtxEqualT1{a}, CtxEqualT1{b})
}

func EqualCtxSlT1(a, b S0) bool {
	return deriveEqualCSlT1([]S0{a}, []S0{b})
}

func EqualCtxArT1(a, b S0) bool {
	return deriveEqualCArT1([1]S0{a}, [1]S0{b})
}

func EqualCtxMaT1(a, b S0) bool {
	return deriveEqualCMaT1(map[string]S0{"k": a}, map[string]S0{"k": b})
}

func EqualCtxPtT1(a, b S0) bool {
	return deriveEqualCPtT1(&a, &b)
}

func EqualT2(a S1, b S1) bool {
	return deriveEqualT2(a, b)
}

func EqualcT2(a S1, b S1) bool {
	return deriveEqualCT2(a)(b)
}

type CtxEqualT2 struct{ F S1 }

func EqualCtxStT2(a, b S1) bool {
	return deriveEqualCStT2(CtxEqualT2{a}, CtxEqualT2{b})
}

func EqualCtxSlT2(a, b S1) bool {
	return deriveEqualCSlT2([]S1{a}, []S1{b})
}

func EqualCtxArT2(a, b S1) bool {
	return deriveEqualCArT2([1]S1{a}, [1]S1{b})
}

func EqualCtxMaT2(a, b S1) bool {
	return deriveEqualCMaT2(map[string]S1{"k": a}, map[string]S1{"k": b})
}

func EqualCtxPtT2(a, b S1) bool {
	return deriveEqualCPtT2(&a, &b)
}

func EqualT3(a *uint16, b *uint16) bool {
	return deriveEqualT3(a, b)
}

func EqualcT3(a *uint16, b *uint16) bool {
	return deriveEqualCT3(a)(b)
}

type CtxEqualT3 struct{ F *uint16 }

func EqualCtxStT3(a, b *uint16) bool {
	return deriveEqualCStT3(CtxEqualT3{a}, CtxEqualT3{b})
}

func EqualCtxSlT3(a, b *uint16) bool {
	return deriveEqualCSlT3([]*uint16{a}, []*uint16{b})
}

func EqualCtxArT3(a, b *uint16) bool {
	return deriveEqualCArT3([1]*uint16{a}, [1]*uint16{b})
}

func EqualCtxMaT3(a, b *uint16) bool {
	return deriveEqualCMaT3(map[string]*uint16{"k": a}, map[string]*uint16{"k": b})
}

func EqualCtxPtT3(a, b *uint16) bool {
	return deriveEqualCPtT3(&a, &b)
}

func EqualT4(a *S3, b *S3) bool {
	return deriveEqualT4(a, b)
}

func EqualcT4(a *S3, b *S3) bool {
	return deriveEqualCT4(a)(b)
}

type CtxEqualT4 struct{ F *S3 }

func EqualCtxStT4(a, b *S3) bool {
	return deriveEqualCStT4(CtxEqualT4{a}, CtxEqualT4{b})
}

func EqualCtxSlT4(a, b *S3) bool {
	return deriveEqualCSlT4([]*S3{a}, []*S3{b})
}

func EqualCtxArT4(a, b *S3) bool {
	return deriveEqualCArT4([1]*S3{a}, [1]*S3{b})
}

func EqualCtxMaT4(a, b *S3) bool {
	return deriveEqualCMaT4(map[string]*S3{"k": a}, map[string]*S3{"k": b})
}

func EqualCtxPtT4(a, b *S3) bool {
	return deriveEqualCPtT4(&a, &b)
}

func EqualcT5(a N2, b N2) bool {
	return deriveEqualCT5(a)(b)
}

type CtxEqualT5 struct{ F N2 }

func EqualCtxStT5(a, b N2) bool {
	return deriveEqualCStT5(CtxEqualT5{a}, CtxEqualT5{b})
}

func EqualCtxSlT5(a, b N2) bool {
	return deriveEqualCSlT5([]N2{a}, []N2{b})
}

func EqualCtxArT5(a, b N2) bool {
	return deriveEqualCArT5([1]N2{a}, [1]N2{b})
}

func EqualCtxMaT5(a, b N2) bool {
	return deriveEqualCMaT5(map[string]N2{"k": a}, map[string]N2{"k": b})
}

func EqualCtxPtT5(a, b N2) bool {
	return deriveEqualCPtT5(&a, &b)
}

func EqualT6(a ext2.Num, b ext2.Num) bool {
	return deriveEqualT6(a, b)
}

func EqualcT6(a ext2.Num, b ext2.Num) bool {
	return deriveEqualCT6(a)(b)
}

type CtxEqualT6 struct{ F ext2.Num }

func EqualCtxStT6(a, b ext2.Num) bool {
	return deriveEqualCStT6(CtxEqualT6{a}, CtxEqualT6{b})
}

func EqualCtxSlT6(a, b ext2.Num) bool {
	return deriveEqualCSlT6([]ext2.Num{a}, []ext2.Num{b})
}

func EqualCtxArT6(a, b ext2.Num) bool {
	return deriveEqualCArT6([1]ext2.Num{a}, [1]ext2.Num{b})
}

func EqualCtxMaT6(a, b ext2.Num) bool {
	return deriveEqualCMaT6(map[string]ext2.Num{"k": a}, map[string]ext2.Num{"k": b})
}

func EqualCtxPtT6(a, b ext2.Num) bool {
	return deriveEqualCPtT6(&a, &b)
}

func EqualT7(a bool, b bool) bool {
	return deriveEqualT7(a, b)
}

func EqualcT7(a bool, b bool) bool {
	return deriveEqualCT7(a)(b)
}

type CtxEqualT7 struct{ F bool }

func EqualCtxStT7(a, b bool) bool {
	return deriveEqualCStT7(CtxEqualT7{a}, CtxEqualT7{b})
}

func EqualCtxSlT7(a, b bool) bool {
	return deriveEqualCSlT7([]bool{a}, []bool{b})
}

func EqualCtxArT7(a, b bool) bool {
	return deriveEqualCArT7([1]bool{a}, [1]bool{b})
}

func EqualCtxMaT7(a, b bool) bool {
	return deriveEqualCMaT7(map[string]bool{"k": a}, map[string]bool{"k": b})
}

func EqualCtxPtT7(a, b bool) bool {
	return deriveEqualCPtT7(&a, &b)
}

func EqualT8(a string, b string) bool {
	return deriveEqualT8(a, b)
}

func EqualcT8(a string, b string) bool {
	return deriveEqualCT8(a)(b)
}

type CtxEqualT8 struct{ F string }

func EqualCtxStT8(a, b string) bool {
	return deriveEqualCStT8(CtxEqualT8{a}, CtxEqualT8{b})
}

func EqualCtxSlT8(a, b string) bool {
	return deriveEqualCSlT8([]string{a}, []string{b})
}

func EqualCtxArT8(a, b string) bool {
	return deriveEqualCArT8([1]string{a}, [1]string{b})
}

func EqualCtxMaT8(a, b string) bool {
	return deriveEqualCMaT8(map[string]string{"k": a}, map[string]string{"k": b})
}

func EqualCtxPtT8(a, b string) bool {
	return deriveEqualCPtT8(&a, &b)
}

func EqualT9(a rune, b rune) bool {
	return deriveEqualT9(a, b)
}

func EqualcT9(a rune, b rune) bool {
	return deriveEqualCT9(a)(b)
}

type CtxEqualT9 struct{ F rune }

func EqualCtxStT9(a, b rune) bool {
	return deriveEqualCStT9(CtxEqualT9{a}, CtxEqualT9{b})
}

func EqualCtxSlT9(a, b rune) bool {
	return deriveEqualCSlT9([]rune{a}, []rune{b})
}

func EqualCtxArT9(a, b rune) bool {
	return deriveEqualCArT9([1]rune{a}, [1]rune{b})
}

func EqualCtxMaT9(a, b rune) bool {
	return deriveEqualCMaT9(map[string]rune{"k": a}, map[string]rune{"k": b})
}

func EqualCtxPtT9(a, b rune) bool {
	return deriveEqualCPtT9(&a, &b)
}

func EqualT10(a float32, b float32) bool {
	return deriveEqualT10(a, b)
}

func EqualcT10(a float32, b float32) bool {
	return deriveEqualCT10(a)(b)
}

type CtxEqualT10 struct{ F float32 }

func EqualCtxStT10(a, b float32) bool {
	return deriveEqualCStT10(CtxEqualT10{a}, CtxEqualT10{b})
}

func EqualCtxSlT10(a, b float32) bool {
	return deriveEqualCSlT10([]float32{a}, []float32{b})
}

func EqualCtxArT10(a, b float32) bool {
	return deriveEqualCArT10([1]float32{a}, [1]float32{b})
}

func EqualCtxMaT10(a, b float32) bool {
	return deriveEqualCMaT10(map[string]float32{"k": a}, map[string]float32{"k": b})
}

func EqualCtxPtT10(a, b float32) bool {
	return deriveEqualCPtT10(&a, &b)
}

func EqualT11(a N0, b N0) bool {
	return deriveEqualT11(a, b)
}

func EqualcT11(a N0, b N0) bool {
	return deriveEqualCT11(a)(b)
}

type CtxEqualT11 struct{ F N0 }

func EqualCtxStT11(a, b N0) bool {
	return deriveEqualCStT11(CtxEqualT11{a}, CtxEqualT11{b})
}

func EqualCtxSlT11(a, b N0) bool {
	return deriveEqualCSlT11([]N0{a}, []N0{b})
}

func EqualCtxArT11(a, b N0) bool {
	return deriveEqualCArT11([1]N0{a}, [1]N0{b})
}

func EqualCtxMaT11(a, b N0) bool {
	return deriveEqualCMaT11(map[string]N0{"k": a}, map[string]N0{"k": b})
}

func EqualCtxPtT11(a, b N0) bool {
	return deriveEqualCPtT11(&a, &b)
}

func EqualT12(a uint64, b uint64) bool {
	return deriveEqualT12(a, b)
}

func EqualcT12(a uint64, b uint64) bool {
	return deriveEqualCT12(a)(b)
}

type CtxEqualT12 struct{ F uint64 }

func EqualCtxStT12(a, b uint64) bool {
	return deriveEqualCStT12(CtxEqualT12{a}, CtxEqualT12{b})
}

func EqualCtxSlT12(a, b uint64) bool {
	return deriveEqualCSlT12([]uint64{a}, []uint64{b})
}

func EqualCtxArT12(a, b uint64) bool {
	return deriveEqualCArT12([1]uint64{a}, [1]uint64{b})
}

func EqualCtxMaT12(a, b uint64) bool {
	return deriveEqualCMaT12(map[string]uint64{"k": a}, map[string]uint64{"k": b})
}

func EqualCtxPtT12(a, b uint64) bool {
	return deriveEqualCPtT12(&a, &b)
}

func EqualT13(a int, b int) bool {
	return deriveEqualT13(a, b)
}

func EqualcT13(a int, b int) bool {
	return deriveEqualCT13(a)(b)
}

type CtxEqualT13 struct{ F int }

func EqualCtxStT13(a, b int) bool {
	return deriveEqualCStT13(CtxEqualT13{a}, CtxEqualT13{b})
}

func EqualCtxSlT13(a, b int) bool {
	return deriveEqualCSlT13([]int{a}, []int{b})
}

func EqualCtxArT13(a, b int) bool {
	return deriveEqualCArT13([1]int{a}, [1]int{b})
}

func EqualCtxMaT13(a, b int) bool {
	return deriveEqualCMaT13(map[string]int{"k": a}, map[string]int{"k": b})
}

func EqualCtxPtT13(a, b int) bool {
	return deriveEqualCPtT13(&a, &b)
}
