package ext

type Num uint8

type Key struct {
	k0 Num
	K1 Num
	K2 uint64
}

type E0 struct {
	F0 *map[bool]uint32
	F1 []map[Key]int8
}
