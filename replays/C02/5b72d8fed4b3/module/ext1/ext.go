package ext

type Num string

type Key struct {
	K0 complex128
	k1 complex128
}

type E0 struct {
}
