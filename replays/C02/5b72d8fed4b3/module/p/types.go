package p

import (
	ext2 "subj/x/ext"
)

type MyU8 uint8

type N0 []int

type K0 struct {
	f0 ext2.Key
}

type S0 struct {
	F0 []byte
	f1 []byte
	f2 K0
	F3 N0
}

type S1 struct {
	K0
	F1 uint32
	*S0
	F3 MyU8
	F4 int
	F5 int8
}
