package ext

type Num float64

type Key struct {
	K0 Num
}

type E0 struct {
	F0 int8
	f1 bool
	f2 uint
}

type E1 struct {
	f0 int
	f1 bool
}
