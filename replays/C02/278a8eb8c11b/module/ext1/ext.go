package ext

type Num string

type Key struct {
	k0 Num
	K1 Num
}

type E0 struct {
	F0 *byte
	f1 *float32
}

type E1 struct {
}
