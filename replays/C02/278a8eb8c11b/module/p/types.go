package p

import (
	ext "subj/ext1"
)

type MyU8 uint8

type MyF32 float32

type N0 []float32

type N1 map[bool]ext.Num

type N2 []MyF32

type K0 struct {
}

type S0 struct {
	*K0
}
