package p

import (
	ext "subj/ext1"
	ext2 "subj/x/ext"
)

var Anchor = 0

func EqualT0(a *K0, b *K0) bool {
	return deriveEqualT0(a, b)
}

func EqualcT0(a *K0, b *K0) bool {
	return deriveEqualCT0(a)(b)
}

type CtxEqualT0 struct{ F *K0 }

func EqualCtxStT0(a, b *K0) bool {
	return deriveEqualCStT0(CtxEqualT0{a}, CtxEqualT0{b})
}

func EqualCtxSlT0(a, b *K0) bool {
	return deriveEqualCSlT0([]*K0{a}, []*K0{b})
}

func EqualCtxArT0(a, b *K0) bool {
	return deriveEqualCArT0([1]*K0{a}, [1]*K0{b})
}

func EqualCtxMaT0(a, b *K0) bool {
	return deriveEqualCMaT0(map[string]*K0{"k": a}, map[string]*K0{"k": b})
}

func EqualCtxPtT0(a, b *K0) bool {
	return deriveEqualCPtT0(&a, &b)
}

func EqualT1(a *S0, b *S0) bool {
	return deriveEqualT1(a, b)
}

func EqualcT1(a *S0, b *S0) bool {
	return deriveEqualCT1(a)(b)
}

type CtxEqualT1 struct{ F *S0 }

func EqualCtxStT1(a, b *S0) bool {
	return deriveEqualCStT1(CtxEqualT1{a}, CtxEqualT1{b})
}

func EqualCtxSlT1(a, b *S0) bool {
	return deriveEqualCSlT1([]*S0{a}, []*S0{b})
}

func EqualCtxArT1(a, b *S0) bool {
	return deriveEqualCArT1([1]*S0{a}, [1]*S0{b})
}

func EqualCtxMaT1(a, b *S0) bool {
	return deriveEqualCMaT1(map[string]*S0{"k": a}, map[string]*S0{"k": b})
}

func EqualCtxPtT1(a, b *S0) bool {
	return deriveEqualCPtT1(&a, &b)
}

func EqualT2(a N1, b N1) bool {
	return deriveEqualT2(a, b)
}

func EqualcT2(a N1, b N1) bool {
	return deriveEqualCT2(a)(b)
}

type CtxEqualT2 struct{ F N1 }

func EqualCtxStT2(a, b N1) bool {
	return deriveEqualCStT2(CtxEqualT2{a}, CtxEqualT2{b})
}

func EqualCtxSlT2(a, b N1) bool {
	return deriveEqualCSlT2([]N1{a}, []N1{b})
}

func EqualCtxArT2(a, b N1) bool {
	return deriveEqualCArT2([1]N1{a}, [1]N1{b})
}

func EqualCtxMaT2(a, b N1) bool {
	return deriveEqualCMaT2(map[string]N1{"k": a}, map[string]N1{"k": b})
}

func EqualCtxPtT2(a, b N1) bool {
	return deriveEqualCPtT2(&a, &b)
}

func EqualT3(a int16, b int16) bool {
	return deriveEqualT3(a, b)
}

func EqualcT3(a int16, b int16) bool {
	return deriveEqualCT3(a)(b)
}

type CtxEqualT3 struct{ F int16 }

func EqualCtxStT3(a, b int16) bool {
	return deriveEqualCStT3(CtxEqualT3{a}, CtxEqualT3{b})
}

func EqualCtxSlT3(a, b int16) bool {
	return deriveEqualCSlT3([]int16{a}, []int16{b})
}

func EqualCtxArT3(a, b int16) bool {
	return deriveEqualCArT3([1]int16{a}, [1]int16{b})
}

func EqualCtxMaT3(a, b int16) bool {
	return deriveEqualCMaT3(map[string]int16{"k": a}, map[string]int16{"k": b})
}

func EqualCtxPtT3(a, b int16) bool {
	return deriveEqualCPtT3(&a, &b)
}

func EqualT4(a uint8, b uint8) bool {
	return deriveEqualT4(a, b)
}

func EqualcT4(a uint8, b uint8) bool {
	return deriveEqualCT4(a)(b)
}

type CtxEqualT4 struct{ F uint8 }

func EqualCtxStT4(a, b uint8) bool {
	return deriveEqualCStT4(CtxEqualT4{a}, CtxEqualT4{b})
}

func EqualCtxSlT4(a, b uint8) bool {
	return deriveEqualCSlT4([]uint8{a}, []uint8{b})
}

func EqualCtxArT4(a, b uint8) bool {
	return deriveEqualCArT4([1]uint8{a}, [1]uint8{b})
}

func EqualCtxMaT4(a, b uint8) bool {
	return deriveEqualCMaT4(map[string]uint8{"k": a}, map[string]uint8{"k": b})
}

func EqualCtxPtT4(a, b uint8) bool {
	return deriveEqualCPtT4(&a, &b)
}

func EqualT5(a [3]MyF32, b [3]MyF32) bool {
	return deriveEqualT5(a, b)
}

func EqualcT5(a [3]MyF32, b [3]MyF32) bool {
	return deriveEqualCT5(a)(b)
}

type CtxEqualT5 struct{ F [3]MyF32 }

func EqualCtxStT5(a, b [3]MyF32) bool {
	return deriveEqualCStT5(CtxEqualT5{a}, CtxEqualT5{b})
}

func EqualCtxSlT5(a, b [3]MyF32) bool {
	return deriveEqualCSlT5([][3]MyF32{a}, [][3]MyF32{b})
}

func EqualCtxArT5(a, b [3]MyF32) bool {
	return deriveEqualCArT5([1][3]MyF32{a}, [1][3]MyF32{b})
}

func EqualCtxMaT5(a, b [3]MyF32) bool {
	return deriveEqualCMaT5(map[string][3]MyF32{"k": a}, map[string][3]MyF32{"k": b})
}

func EqualCtxPtT5(a, b [3]MyF32) bool {
	return deriveEqualCPtT5(&a, &b)
}

func EqualT6(a N2, b N2) bool {
	return deriveEqualT6(a, b)
}

func EqualcT6(a N2, b N2) bool {
	return deriveEqualCT6(a)(b)
}

type CtxEqualT6 struct{ F N2 }

func EqualCtxStT6(a, b N2) bool {
	return deriveEqualCStT6(CtxEqualT6{a}, CtxEqualT6{b})
}

func EqualCtxSlT6(a, b N2) bool {
	return deriveEqualCSlT6([]N2{a}, []N2{b})
}

func EqualCtxArT6(a, b N2) bool {
	return deriveEqualCArT6([1]N2{a}, [1]N2{b})
}

func EqualCtxMaT6(a, b N2) bool {
	return deriveEqualCMaT6(map[string]N2{"k": a}, map[string]N2{"k": b})
}

func EqualCtxPtT6(a, b N2) bool {
	return deriveEqualCPtT6(&a, &b)
}

func EqualT7(a uint32, b uint32) bool {
	return deriveEqualT7(a, b)
}

func EqualcT7(a uint32, b uint32) bool {
	return deriveEqualCT7(a)(b)
}

type CtxEqualT7 struct{ F uint32 }

func EqualCtxStT7(a, b uint32) bool {
	return deriveEqualCStT7(CtxEqualT7{a}, CtxEqualT7{b})
}

func EqualCtxSlT7(a, b uint32) bool {
	return deriveEqualCSlT7([]uint32{a}, []uint32{b})
}

func EqualCtxArT7(a, b uint32) bool {
	return deriveEqualCArT7([1]uint32{a}, [1]uint32{b})
}

func EqualCtxMaT7(a, b uint32) bool {
	return deriveEqualCMaT7(map[string]uint32{"k": a}, map[string]uint32{"k": b})
}

func EqualCtxPtT7(a, b uint32) bool {
	return deriveEqualCPtT7(&a, &b)
}

func EqualT8(a MyF32, b MyF32) bool {
	return deriveEqualT8(a, b)
}

func EqualcT8(a MyF32, b MyF32) bool {
	return deriveEqualCT8(a)(b)
}

type CtxEqualT8 struct{ F MyF32 }

func EqualCtxStT8(a, b MyF32) bool {
	return deriveEqualCStT8(CtxEqualT8{a}, CtxEqualT8{b})
}

func EqualCtxArT8(a, b MyF32) bool {
	return deriveEqualCArT8([1]MyF32{a}, [1]MyF32{b})
}

func EqualCtxMaT8(a, b MyF32) bool {
	return deriveEqualCMaT8(map[string]MyF32{"k": a}, map[string]MyF32{"k": b})
}

func EqualCtxPtT8(a, b MyF32) bool {
	return deriveEqualCPtT8(&a, &b)
}

func EqualT9(a map[K0]K0, b map[K0]K0) bool {
	return deriveEqualT9(a, b)
}

func EqualcT9(a map[K0]K0, b map[K0]K0) bool {
	return deriveEqualCT9(a)(b)
}

type CtxEqualT9 struct{ F map[K0]K0 }

func EqualCtxStT9(a, b map[K0]K0) bool {
	return deriveEqualCStT9(CtxEqualT9{a}, CtxEqualT9{b})
}

func EqualCtxSlT9(a, b map[K0]K0) bool {
	return deriveEqualCSlT9([]map[K0]K0{a}, []map[K0]K0{b})
}

func EqualCtxArT9(a, b map[K0]K0) bool {
	return deriveEqualCArT9([1]map[K0]K0{a}, [1]map[K0]K0{b})
}

func EqualCtxMaT9(a, b map[K0]K0) bool {
	return deriveEqualCMaT9(map[string]map[K0]K0{"k": a}, map[string]map[K0]K0{"k": b})
}

func EqualCtxPtT9(a, b map[K0]K0) bool {
	return deriveEqualCPtT9(&a, &b)
}

func EqualT10(a [1]ext2.Num, b [1]ext2.Num) bool {
	return deriveEqualT10(a, b)
}

func EqualcT10(a [1]ext2.Num, b [1]ext2.Num) bool {
	return deriveEqualCT10(a)(b)
}

type CtxEqualT10 struct{ F [1]ext2.Num }

func EqualCtxStT10(a, b [1]ext2.Num) bool {
	return deriveEqualCStT10(CtxEqualT10{a}, CtxEqualT10{b})
}

func EqualCtxSlT10(a, b [1]ext2.Num) bool {
	return deriveEqualCSlT10([][1]ext2.Num{a}, [][1]ext2.Num{b})
}

func EqualCtxArT10(a, b [1]ext2.Num) bool {
	return deriveEqualCArT10([1][1]ext2.Num{a}, [1][1]ext2.Num{b})
}

func EqualCtxMaT10(a, b [1]ext2.Num) bool {
	return deriveEqualCMaT10(map[string][1]ext2.Num{"k": a}, map[string][1]ext2.Num{"k": b})
}

func EqualCtxPtT10(a, b [1]ext2.Num) bool {
	return deriveEqualCPtT10(&a, &b)
}

func EqualT11(a [0]ext.E1, b [0]ext.E1) bool {
	return deriveEqualT11(a, b)
}

func EqualcT11(a [0]ext.E1, b [0]ext.E1) bool {
	return deriveEqualCT11(a)(b)
}

type CtxEqualT11 struct{ F [0]ext.E1 }

func EqualCtxStT11(a, b [0]ext.E1) bool {
	return deriveEqualCStT11(CtxEqualT11{a}, CtxEqualT11{b})
}

func EqualCtxSlT11(a, b [0]ext.E1) bool {
	return deriveEqualCSlT11([][0]ext.E1{a}, [][0]ext.E1{b})
}

func EqualCtxArT11(a, b [0]ext.E1) bool {
	return deriveEqualCArT11([1][0]ext.E1{a}, [1][0]ext.E1{b})
}

func EqualCtxMaT11(a, b [0]ext.E1) bool {
	return deriveEqualCMaT11(map[string][0]ext.E1{"k": a}, map[string][0]ext.E1{"k": b})
}

func EqualCtxPtT11(a, b [0]ext.E1) bool {
	return deriveEqualCPtT11(&a, &b)
}

func EqualT12(a *map[uint64]S0, b *map[uint64]S0) bool {
	return deriveEqualT12(a, b)
}

func EqualcT12(a *map[uint64]S0, b *map[uint64]S0) bool {
	return deriveEqualCT12(a)(b)
}

type CtxEqualT12 struct{ F *map[uint64]S0 }

func EqualCtxStT12(a, b *map[uint64]S0) bool {
	return deriveEqualCStT12(CtxEqualT12{a}, CtxEqualT12{b})
}

func EqualCtxSlT12(a, b *map[uint64]S0) bool {
	return deriveEqualCSlT12([]*map[uint64]S0{a}, []*map[uint64]S0{b})
}

func EqualCtxArT12(a, b *map[uint64]S0) bool {
	return deriveEqualCArT12([1]*map[uint64]S0{a}, [1]*map[uint64]S0{b})
}

func EqualCtxMaT12(a, b *map[uint64]S0) bool {
	return deriveEqualCMaT12(map[string]*map[uint64]S0{"k": a}, map[string]*map[uint64]S0{"k": b})
}

func EqualCtxPtT12(a, b *map[uint64]S0) bool {
	return deriveEqualCPtT12(&a, &b)
}

func EqualT13(a map[uintptr]S0, b map[uintptr]S0) bool {
	return deriveEqualT13(a, b)
}

func EqualcT13(a map[uintptr]S0, b map[uintptr]S0) bool {
	return deriveEqualCT13(a)(b)
}

type CtxEqualT13 struct{ F map[uintptr]S0 }

func EqualCtxStT13(a, b map[uintptr]S0) bool {
	return deriveEqualCStT13(CtxEqualT13{a}, CtxEqualT13{b})
}

func EqualCtxSlT13(a, b map[uintptr]S0) bool {
	return deriveEqualCSlT13([]map[uintptr]S0{a}, []map[uintptr]S0{b})
}

func EqualCtxArT13(a, b map[uintptr]S0) bool {
	return deriveEqualCArT13([1]map[uintptr]S0{a}, [1]map[uintptr]S0{b})
}

func EqualCtxMaT13(a, b map[uintptr]S0) bool {
	return deriveEqualCMaT13(map[string]map[uintptr]S0{"k": a}, map[string]map[uintptr]S0{"k": b})
}

func EqualCtxPtT13(a, b map[uintptr]S0) bool {
	return deriveEqualCPtT13(&a, &b)
}
