package ext

import (
	ext "subj/ext1"
)

type Num int64

type Key struct {
	K0 int32
	K1 int32
}

type E0 struct {
	f0 ext.Num
}
