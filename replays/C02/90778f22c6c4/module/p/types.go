package p

import (
	other "subj/x/other"
)

type MyInt int

type N0 *uint32

type N1 [][]int8

type K0 struct {
}

type K1 struct {
	F0 int32
}

type S0 struct {
	f0 [0]other.Num
	F1 *int8
	F2 K0
	f3 map[int32]uint32
	F4 int
	f5 map[uintptr]*[]bool
}

type S1 struct {
	K1
	f1 uint64
	F2 uint8
	F3 int
	f4 *[]N1
}
