package p

import (
	ext "subj/ext1"
	other "subj/x/other"
)

var Anchor = 0

func EqualT0(a map[K0]K0, b map[K0]K0) bool {
	return deriveEqualT0(a, b)
}

func EqualcT0(a map[K0]K0, b map[K0]K0) bool {
	return deriveEqualCT0(a)(b)
}

type CtxEqualT0 struct{ F map[K0]K0 }

func EqualCtxStT0(a, b map[K0]K0) bool {
	return deriveEqualCStT0(CtxEqualT0{a}, CtxEqualT0{b})
}

func EqualCtxSlT0(a, b map[K0]K0) bool {
	return deriveEqualCSlT0([]map[K0]K0{a}, []map[K0]K0{b})
}

func EqualCtxArT0(a, b map[K0]K0) bool {
	return deriveEqualCArT0([1]map[K0]K0{a}, [1]map[K0]K0{b})
}

func EqualCtxMaT0(a, b map[K0]K0) bool {
	return deriveEqualCMaT0(map[string]map[K0]K0{"k": a}, map[string]map[K0]K0{"k": b})
}

func EqualCtxPtT0(a, b map[K0]K0) bool {
	return deriveEqualCPtT0(&a, &b)
}

func EqualT1(a *K1, b *K1) bool {
	return deriveEqualT1(a, b)
}

func EqualcT1(a *K1, b *K1) bool {
	return deriveEqualCT1(a)(b)
}

type CtxEqualT1 struct{ F *K1 }

func EqualCtxStT1(a, b *K1) bool {
	return deriveEqualCStT1(CtxEqualT1{a}, CtxEqualT1{b})
}

func EqualCtxSlT1(a, b *K1) bool {
	return deriveEqualCSlT1([]*K1{a}, []*K1{b})
}

func EqualCtxArT1(a, b *K1) bool {
	return deriveEqualCArT1([1]*K1{a}, [1]*K1{b})
}

func EqualCtxMaT1(a, b *K1) bool {
	return deriveEqualCMaT1(map[string]*K1{"k": a}, map[string]*K1{"k": b})
}

func EqualCtxPtT1(a, b *K1) bool {
	return deriveEqualCPtT1(&a, &b)
}

func EqualT2(a ext.E0, b ext.E0) bool {
	return deriveEqualT2(a, b)
}

func EqualcT2(a ext.E0, b ext.E0) bool {
	return deriveEqualCT2(a)(b)
}

type CtxEqualT2 struct{ F ext.E0 }

func EqualCtxStT2(a, b ext.E0) bool {
	return deriveEqualCStT2(CtxEqualT2{a}, CtxEqualT2{b})
}

func EqualCtxSlT2(a, b ext.E0) bool {
	return deriveEqualCSlT2([]ext.E0{a}, []ext.E0{b})
}

func EqualCtxArT2(a, b ext.E0) bool {
	return deriveEqualCArT2([1]ext.E0{a}, [1]ext.E0{b})
}

func EqualCtxMaT2(a, b ext.E0) bool {
	return deriveEqualCMaT2(map[string]ext.E0{"k": a}, map[string]ext.E0{"k": b})
}

func EqualCtxPtT2(a, b ext.E0) bool {
	return deriveEqualCPtT2(&a, &b)
}

func EqualT3(a uint16, b uint16) bool {
	return deriveEqualT3(a, b)
}

func EqualcT3(a uint16, b uint16) bool {
	return deriveEqualCT3(a)(b)
}

type CtxEqualT3 struct{ F uint16 }

func EqualCtxStT3(a, b uint16) bool {
	return deriveEqualCStT3(CtxEqualT3{a}, CtxEqualT3{b})
}

func EqualCtxSlT3(a, b uint16) bool {
	return deriveEqualCSlT3([]uint16{a}, []uint16{b})
}

func EqualCtxArT3(a, b uint16) bool {
	return deriveEqualCArT3([1]uint16{a}, [1]uint16{b})
}

func EqualCtxMaT3(a, b uint16) bool {
	return deriveEqualCMaT3(map[string]uint16{"k": a}, map[string]uint16{"k": b})
}

func EqualCtxPtT3(a, b uint16) bool {
	return deriveEqualCPtT3(&a, &b)
}

func EqualT4(a map[uint64]K0, b map[uint64]K0) bool {
	return deriveEqualT4(a, b)
}

func EqualcT4(a map[uint64]K0, b map[uint64]K0) bool {
	return deriveEqualCT4(a)(b)
}

type CtxEqualT4 struct{ F map[uint64]K0 }

func EqualCtxStT4(a, b map[uint64]K0) bool {
	return deriveEqualCStT4(CtxEqualT4{a}, CtxEqualT4{b})
}

func EqualCtxSlT4(a, b map[uint64]K0) bool {
	return deriveEqualCSlT4([]map[uint64]K0{a}, []map[uint64]K0{b})
}

func EqualCtxArT4(a, b map[uint64]K0) bool {
	return deriveEqualCArT4([1]map[uint64]K0{a}, [1]map[uint64]K0{b})
}

func EqualCtxMaT4(a, b map[uint64]K0) bool {
	return deriveEqualCMaT4(map[string]map[uint64]K0{"k": a}, map[string]map[uint64]K0{"k": b})
}

func EqualCtxPtT4(a, b map[uint64]K0) bool {
	return deriveEqualCPtT4(&a, &b)
}

func EqualT5(a other.Num, b other.Num) bool {
	return deriveEqualT5(a, b)
}

func EqualcT5(a other.Num, b other.Num) bool {
	return deriveEqualCT5(a)(b)
}

type CtxEqualT5 struct{ F other.Num }

func EqualCtxStT5(a, b other.Num) bool {
	return deriveEqualCStT5(CtxEqualT5{a}, CtxEqualT5{b})
}

func EqualCtxSlT5(a, b other.Num) bool {
	return deriveEqualCSlT5([]other.Num{a}, []other.Num{b})
}

func EqualCtxArT5(a, b other.Num) bool {
	return deriveEqualCArT5([1]other.Num{a}, [1]other.Num{b})
}

func EqualCtxMaT5(a, b other.Num) bool {
	return deriveEqualCMaT5(map[string]other.Num{"k": a}, map[string]other.Num{"k": b})
}

func EqualCtxPtT5(a, b other.Num) bool {
	return deriveEqualCPtT5(&a, &b)
}

func EqualT6(a []byte, b []byte) bool {
	return deriveEqualT6(a, b)
}

func EqualcT6(a []byte, b []byte) bool {
	return deriveEqualCT6(a)(b)
}

type CtxEqualT6 struct{ F []byte }

func EqualCtxStT6(a, b []byte) bool {
	return deriveEqualCStT6(CtxEqualT6{a}, CtxEqualT6{b})
}

func EqualCtxSlT6(a, b []byte) bool {
	return deriveEqualCSlT6([][]byte{a}, [][]byte{b})
}

func EqualCtxArT6(a, b []byte) bool {
	return deriveEqualCArT6([1][]byte{a}, [1][]byte{b})
}

func EqualCtxMaT6(a, b []byte) bool {
	return deriveEqualCMaT6(map[string][]byte{"k": a}, map[string][]byte{"k": b})
}

func EqualCtxPtT6(a, b []byte) bool {
	return deriveEqualCPtT6(&a, &b)
}

func EqualT7(a N0, b N0) bool {
	return deriveEqualT7(a, b)
}

func EqualcT7(a N0, b N0) bool {
	return deriveEqualCT7(a)(b)
}

type CtxEqualT7 struct{ F N0 }

func EqualCtxStT7(a, b N0) bool {
	return deriveEqualCStT7(CtxEqualT7{a}, CtxEqualT7{b})
}

func EqualCtxSlT7(a, b N0) bool {
	return deriveEqualCSlT7([]N0{a}, []N0{b})
}

func EqualCtxArT7(a, b N0) bool {
	return deriveEqualCArT7([1]N0{a}, [1]N0{b})
}

func EqualCtxMaT7(a, b N0) bool {
	return deriveEqualCMaT7(map[string]N0{"k": a}, map[string]N0{"k": b})
}

func EqualCtxPtT7(a, b N0) bool {
	return deriveEqualCPtT7(&a, &b)
}

func EqualT8(a int, b int) bool {
	return deriveEqualT8(a, b)
}

func EqualcT8(a int, b int) bool {
	return deriveEqualCT8(a)(b)
}

type CtxEqualT8 struct{ F int }

func EqualCtxStT8(a, b int) bool {
	return deriveEqualCStT8(CtxEqualT8{a}, CtxEqualT8{b})
}

func EqualCtxSlT8(a, b int) bool {
	return deriveEqualCSlT8([]int{a}, []int{b})
}

func EqualCtxArT8(a, b int) bool {
	return deriveEqualCArT8([1]int{a}, [1]int{b})
}

func EqualCtxMaT8(a, b int) bool {
	return deriveEqualCMaT8(map[string]int{"k": a}, map[string]int{"k": b})
}

func EqualCtxPtT8(a, b int) bool {
	return deriveEqualCPtT8(&a, &b)
}

func EqualT9(a bool, b bool) bool {
	return deriveEqualT9(a, b)
}

func EqualcT9(a bool, b bool) bool {
	return deriveEqualCT9(a)(b)
}

type CtxEqualT9 struct{ F bool }

func EqualCtxStT9(a, b bool) bool {
	return deriveEqualCStT9(CtxEqualT9{a}, CtxEqualT9{b})
}

func EqualCtxSlT9(a, b bool) bool {
	return deriveEqualCSlT9([]bool{a}, []bool{b})
}

func EqualCtxArT9(a, b bool) bool {
	return deriveEqualCArT9([1]bool{a}, [1]bool{b})
}

func EqualCtxMaT9(a, b bool) bool {
	return deriveEqualCMaT9(map[string]bool{"k": a}, map[string]bool{"k": b})
}

func EqualCtxPtT9(a, b bool) bool {
	return deriveEqualCPtT9(&a, &b)
}

func EqualT10(a N1, b N1) bool {
	return deriveEqualT10(a, b)
}

func EqualcT10(a N1, b N1) bool {
	return deriveEqualCT10(a)(b)
}

type CtxEqualT10 struct{ F N1 }

func EqualCtxStT10(a, b N1) bool {
	return deriveEqualCStT10(CtxEqualT10{a}, CtxEqualT10{b})
}

func EqualCtxSlT10(a, b N1) bool {
	return deriveEqualCSlT10([]N1{a}, []N1{b})
}

func EqualCtxArT10(a, b N1) bool {
	return deriveEqualCArT10([1]N1{a}, [1]N1{b})
}

func EqualCtxMaT10(a, b N1) bool {
	return deriveEqualCMaT10(map[string]N1{"k": a}, map[string]N1{"k": b})
}

func EqualCtxPtT10(a, b N1) bool {
	return deriveEqualCPtT10(&a, &b)
}

func EqualT11(a map[other.Num]other.Num, b map[other.Num]other.Num) bool {
	return deriveEqualT11(a, b)
}

func EqualcT11(a map[other.Num]other.Num, b map[other.Num]other.Num) bool {
	return deriveEqualCT11(a)(b)
}

type CtxEqualT11 struct{ F map[other.Num]other.Num }

func EqualCtxStT11(a, b map[other.Num]other.Num) bool {
	return deriveEqualCStT11(CtxEqualT11{a}, CtxEqualT11{b})
}

func EqualCtxSlT11(a, b map[other.Num]other.Num) bool {
	return deriveEqualCSlT11([]map[other.Num]other.Num{a}, []map[other.Num]other.Num{b})
}

func EqualCtxArT11(a, b map[other.Num]other.Num) bool {
	return deriveEqualCArT11([1]map[other.Num]other.Num{a}, [1]map[other.Num]other.Num{b})
}

func EqualCtxMaT11(a, b map[other.Num]other.Num) bool {
	return deriveEqualCMaT11(map[string]map[other.Num]other.Num{"k": a}, map[string]map[other.Num]other.Num{"k": b})
}

func EqualCtxPtT11(a, b map[other.Num]other.Num) bool {
	return deriveEqualCPtT11(&a, &b)
}

func EqualT12(a other.Key, b other.Key) bool {
	return deriveEqualT12(a, b)
}

func EqualcT12(a other.Key, b other.Key) bool {
	return deriveEqualCT12(a)(b)
}

type CtxEqualT12 struct{ F other.Key }

func EqualCtxStT12(a, b other.Key) bool {
	return deriveEqualCStT12(CtxEqualT12{a}, CtxEqualT12{b})
}

func EqualCtxSlT12(a, b other.Key) bool {
	return deriveEqualCSlT12([]other.Key{a}, []other.Key{b})
}

func EqualCtxArT12(a, b other.Key) bool {
	return deriveEqualCArT12([1]other.Key{a}, [1]other.Key{b})
}

func EqualCtxMaT12(a, b other.Key) bool {
	return deriveEqualCMaT12(map[string]other.Key{"k": a}, map[string]other.Key{"k": b})
}

func EqualCtxPtT12(a, b other.Key) bool {
	return deriveEqualCPtT12(&a, &b)
}

func EqualT13(a ext.Num, b ext.Num) bool {
	return deriveEqualT13(a, b)
}

func EqualcT13(a ext.Num, b ext.Num) bool {
	return deriveEqualCT13(a)(b)
}

type CtxEqualT13 struct{ F ext.Num }

func EqualCtxStT13(a, b ext.Num) bool {
	return deriveEqualCStT13(CtxEqualT13{a}, CtxEqualT13{b})
}

func EqualCtxSlT13(a, b ext.Num) bool {
	return deriveEqualCSlT13([]ext.Num{a}, []ext.Num{b})
}

func EqualCtxArT13(a, b ext.Num) bool {
	return deriveEqualCArT13([1]ext.Num{a}, [1]ext.Num{b})
}

func EqualCtxMaT13(a, b ext.Num) bool {
	return deriveEqualCMaT13(map[string]ext.Num{"k": a}, map[string]ext.Num{"k": b})
}

func EqualCtxPtT13(a, b ext.Num) bool {
	return deriveEqualCPtT13(&a, &b)
}
