package ext

type Num float64

type Key struct {
	k0 rune
}

type E0 struct {
	f0 Num
	f1 Key
	f2 bool
}
