package other

type Num string

type Key struct {
	K0 Num
}

type E0 struct {
	f0 complex64
	f1 []Num
	f2 *E0
	F3 bool
}

type E1 struct {
}
