package p

import (
	other "subj/x/other"
)

var Anchor = 0

func EqualT0(a K0, b K0) bool {
	return deriveEqualT0(a, b)
}

func EqualcT0(a K0, b K0) bool {
	return deriveEqualCT0(a)(b)
}

type CtxEqualT0 struct{ F K0 }

func EqualCtxStT0(a, b K0) bool {
	return deriveEqualCStT0(CtxEqualT0{a}, CtxEqualT0{b})
}

func EqualCtxSlT0(a, b K0) bool {
	return deriveEqualCSlT0([]K0{a}, []K0{b})
}

func EqualCtxArT0(a, b K0) bool {
	return deriveEqualCArT0([1]K0{a}, [1]K0{b})
}

func EqualCtxMaT0(a, b K0) bool {
	return deriveEqualCMaT0(map[string]K0{"k": a}, map[string]K0{"k": b})
}

func EqualCtxPtT0(a, b K0) bool {
	return deriveEqualCPtT0(&a, &b)
}

func EqualT1(a K1, b K1) bool {
	return deriveEqualT1(a, b)
}

func EqualcT1(a K1, b K1) bool {
	return deriveEqualCT1(a)(b)
}

type CtxEqualT1 struct{ F K1 }

func EqualCtxStT1(a, b K1) bool {
	return deriveEqualCStT1(CtxEqualT1{a}, CtxEqualT1{b})
}

func EqualCtxSlT1(a, b K1) bool {
	return deriveEqualCSlT1([]K1{a}, []K1{b})
}

func EqualCtxArT1(a, b K1) bool {
	return deriveEqualCArT1([1]K1{a}, [1]K1{b})
}

func EqualCtxMaT1(a, b K1) bool {
	return deriveEqualCMaT1(map[string]K1{"k": a}, map[string]K1{"k": b})
}

func EqualT2(a S0, b S0) bool {
	return deriveEqualT2(a, b)
}

func EqualcT2(a S0, b S0) bool {
	return deriveEqualCT2(a)(b)
}

type CtxEqualT2 struct{ F S0 }

func EqualCtxStT2(a, b S0) bool {
	return deriveEqualCStT2(CtxEqualT2{a}, CtxEqualT2{b})
}

func EqualCtxSlT2(a, b S0) bool {
	return deriveEqualCSlT2([]S0{a}, []S0{b})
}

func EqualCtxArT2(a, b S0) bool {
	return deriveEqualCArT2([1]S0{a}, [1]S0{b})
}

func EqualCtxMaT2(a, b S0) bool {
	return deriveEqualCMaT2(map[string]S0{"k": a}, map[string]S0{"k": b})
}

func EqualCtxPtT2(a, b S0) bool {
	return deriveEqualCPtT2(&a, &b)
}

func EqualT3(a *S1, b *S1) bool {
	return deriveEqualT3(a, b)
}

func EqualcT3(a *S1, b *S1) bool {
	return deriveEqualCT3(a)(b)
}

type CtxEqualT3 struct{ F *S1 }

func EqualCtxStT3(a, b *S1) bool {
	return deriveEqualCStT3(CtxEqualT3{a}, CtxEqualT3{b})
}

func EqualCtxSlT3(a, b *S1) bool {
	return deriveEqualCSlT3([]*S1{a}, []*S1{b})
}

func EqualCtxArT3(a, b *S1) bool {
	return deriveEqualCArT3([1]*S1{a}, [1]*S1{b})
}

func EqualCtxMaT3(a, b *S1) bool {
	return deriveEqualCMaT3(map[string]*S1{"k": a}, map[string]*S1{"k": b})
}

func EqualCtxPtT3(a, b *S1) bool {
	return deriveEqualCPtT3(&a, &b)
}

func EqualT4(a []S1, b []S1) bool {
	return deriveEqualT4(a, b)
}

func EqualcT4(a []S1, b []S1) bool {
	return deriveEqualCT4(a)(b)
}

type CtxEqualT4 struct{ F []S1 }

func EqualCtxStT4(a, b []S1) bool {
	return deriveEqualCStT4(CtxEqualT4{a}, CtxEqualT4{b})
}

func EqualCtxSlT4(a, b []S1) bool {
	return deriveEqualCSlT4([][]S1{a}, [][]S1{b})
}

func EqualCtxArT4(a, b []S1) bool {
	return deriveEqualCArT4([1][]S1{a}, [1][]S1{b})
}

func EqualCtxMaT4(a, b []S1) bool {
	return deriveEqualCMaT4(map[string][]S1{"k": a}, map[string][]S1{"k": b})
}

func EqualCtxPtT4(a, b []S1) bool {
	return deriveEqualCPtT4(&a, &b)
}

func EqualT5(a map[other.Key]S0, b map[other.Key]S0) bool {
	return deriveEqualT5(a, b)
}

func EqualcT5(a map[other.Key]S0, b map[other.Key]S0) bool {
	return deriveEqualCT5(a)(b)
}

type CtxEqualT5 struct{ F map[other.Key]S0 }

func EqualCtxStT5(a, b map[other.Key]S0) bool {
	return deriveEqualCStT5(CtxEqualT5{a}, CtxEqualT5{b})
}

func EqualCtxSlT5(a, b map[other.Key]S0) bool {
	return deriveEqualCSlT5([]map[other.Key]S0{a}, []map[other.Key]S0{b})
}

func EqualCtxArT5(a, b map[other.Key]S0) bool {
	return deriveEqualCArT5([1]map[other.Key]S0{a}, [1]map[other.Key]S0{b})
}

func EqualCtxMaT5(a, b map[other.Key]S0) bool {
	return deriveEqualCMaT5(map[string]map[other.Key]S0{"k": a}, map[string]map[other.Key]S0{"k": b})
}

func EqualCtxPtT5(a, b map[other.Key]S0) bool {
	return deriveEqualCPtT5(&a, &b)
}

func EqualT6(a map[int8]*int64, b map[int8]*int64) bool {
	return deriveEqualT6(a, b)
}

func EqualcT6(a map[int8]*int64, b map[int8]*int64) bool {
	return deriveEqualCT6(a)(b)
}

type CtxEqualT6 struct{ F map[int8]*int64 }

func EqualCtxStT6(a, b map[int8]*int64) bool {
	return deriveEqualCStT6(CtxEqualT6{a}, CtxEqualT6{b})
}

func EqualCtxSlT6(a, b map[int8]*int64) bool {
	return deriveEqualCSlT6([]map[int8]*int64{a}, []map[int8]*int64{b})
}

func EqualCtxArT6(a, b map[int8]*int64) bool {
	return deriveEqualCArT6([1]map[int8]*int64{a}, [1]map[int8]*int64{b})
}

func EqualCtxMaT6(a, b map[int8]*int64) bool {
	return deriveEqualCMaT6(map[string]map[int8]*int64{"k": a}, map[string]map[int8]*int64{"k": b})
}

func EqualCtxPtT6(a, b map[int8]*int64) bool {
	return deriveEqualCPtT6(&a, &b)
}

func EqualT7(a *int32, b *int32) bool {
	return deriveEqualT7(a, b)
}

func EqualcT7(a *int32, b *int32) bool {
	return deriveEqualCT7(a)(b)
}

type CtxEqualT7 struct{ F *int32 }

func EqualCtxStT7(a, b *int32) bool {
	return deriveEqualCStT7(CtxEqualT7{a}, CtxEqualT7{b})
}

func EqualCtxSlT7(a, b *int32) bool {
	return deriveEqualCSlT7([]*int32{a}, []*int32{b})
}

func EqualCtxArT7(a, b *int32) bool {
	return deriveEqualCArT7([1]*int32{a}, [1]*int32{b})
}

func EqualCtxMaT7(a, b *int32) bool {
	return deriveEqualCMaT7(map[string]*int32{"k": a}, map[string]*int32{"k": b})
}

func EqualCtxPtT7(a, b *int32) bool {
	return deriveEqualCPtT7(&a, &b)
}

func EqualT8(a MyU, b MyU) bool {
	return deriveEqualT8(a, b)
}

func EqualcT8(a MyU, b MyU) bool {
	return deriveEqualCT8(a)(b)
}

type CtxEqualT8 struct{ F MyU }

func EqualCtxStT8(a, b MyU) bool {
	return deriveEqualCStT8(CtxEqualT8{a}, CtxEqualT8{b})
}

func EqualCtxSlT8(a, b MyU) bool {
	return deriveEqualCSlT8([]MyU{a}, []MyU{b})
}

func EqualCtxArT8(a, b MyU) bool {
	return deriveEqualCArT8([1]MyU{a}, [1]MyU{b})
}

func EqualCtxMaT8(a, b MyU) bool {
	return deriveEqualCMaT8(map[string]MyU{"k": a}, map[string]MyU{"k": b})
}

func EqualCtxPtT8(a, b MyU) bool {
	return deriveEqualCPtT8(&a, &b)
}

func EqualT9(a bool, b bool) bool {
	return deriveEqualT9(a, b)
}

func EqualcT9(a bool, b bool) bool {
	return deriveEqualCT9(a)(b)
}

type CtxEqualT9 struct{ F bool }

func EqualCtxStT9(a, b bool) bool {
	return deriveEqualCStT9(CtxEqualT9{a}, CtxEqualT9{b})
}

func EqualCtxSlT9(a, b bool) bool {
	return deriveEqualCSlT9([]bool{a}, []bool{b})
}

func EqualCtxArT9(a, b bool) bool {
	return deriveEqualCArT9([1]bool{a}, [1]bool{b})
}

func EqualCtxMaT9(a, b bool) bool {
	return deriveEqualCMaT9(map[string]bool{"k": a}, map[string]bool{"k": b})
}

func EqualCtxPtT9(a, b bool) bool {
	return deriveEqualCPtT9(&a, &b)
}

func EqualT10(a other.Num, b other.Num) bool {
	return deriveEqualT10(a, b)
}

func EqualcT10(a other.Num, b other.Num) bool {
	return deriveEqualCT10(a)(b)
}

type CtxEqualT10 struct{ F other.Num }

func EqualCtxStT10(a, b other.Num) bool {
	return deriveEqualCStT10(CtxEqualT10{a}, CtxEqualT10{b})
}

func EqualCtxSlT10(a, b other.Num) bool {
	return deriveEqualCSlT10([]other.Num{a}, []other.Num{b})
}

func EqualCtxArT10(a, b other.Num) bool {
	return deriveEqualCArT10([1]other.Num{a}, [1]other.Num{b})
}

func EqualCtxMaT10(a, b other.Num) bool {
	return deriveEqualCMaT10(map[string]other.Num{"k": a}, map[string]other.Num{"k": b})
}

func EqualCtxPtT10(a, b other.Num) bool {
	return deriveEqualCPtT10(&a, &b)
}

func EqualcT11(a *MyU, b *MyU) bool {
	return deriveEqualCT11(a)(b)
}

type CtxEqualT11 struct{ F *MyU }

func EqualCtxStT11(a, b *MyU) bool {
	return deriveEqualCStT11(CtxEqualT11{a}, CtxEqualT11{b})
}

func EqualCtxSlT11(a, b *MyU) bool {
	return deriveEqualCSlT11([]*MyU{a}, []*MyU{b})
}

func EqualCtxArT11(a, b *MyU) bool {
	return deriveEqualCArT11([1]*MyU{a}, [1]*MyU{b})
}

func EqualCtxMaT11(a, b *MyU) bool {
	return deriveEqualCMaT11(map[string]*MyU{"k": a}, map[string]*MyU{"k": b})
}

func EqualCtxPtT11(a, b *MyU) bool {
	return deriveEqualCPtT11(&a, &b)
}

func EqualT12(a other.E0, b other.E0) bool {
	return deriveEqualT12(a, b)
}

func EqualcT12(a other.E0, b other.E0) bool {
	return deriveEqualCT12(a)(b)
}

type CtxEqualT12 struct{ F other.E0 }

func EqualCtxStT12(a, b other.E0) bool {
	return deriveEqualCStT12(CtxEqualT12{a}, CtxEqualT12{b})
}

func EqualCtxSlT12(a, b other.E0) bool {
	return deriveEqualCSlT12([]other.E0{a}, []other.E0{b})
}

func EqualCtxArT12(a, b other.E0) bool {
	return deriveEqualCArT12([1]other.E0{a}, [1]other.E0{b})
}

func EqualCtxMaT12(a, b other.E0) bool {
	return deriveEqualCMaT12(map[string]other.E0{"k": a}, map[string]other.E0{"k": b})
}

func EqualCtxPtT12(a, b other.E0) bool {
	return deriveEqualCPtT12(&a, &b)
}

func EqualT13(a []byte, b []byte) bool {
	return deriveEqualT13(a, b)
}

func EqualcT13(a []byte, b []byte) bool {
	return deriveEqualCT13(a)(b)
}

type CtxEqualT13 struct{ F []byte }

func EqualCtxStT13(a, b []byte) bool {
	return deriveEqualCStT13(CtxEqualT13{a}, CtxEqualT13{b})
}

func EqualCtxSlT13(a, b []byte) bool {
	return deriveEqualCSlT13([][]byte{a}, [][]byte{b})
}

func EqualCtxArT13(a, b []byte) bool {
	return deriveEqualCArT13([1][]byte{a}, [1][]byte{b})
}

func EqualCtxMaT13(a, b []byte) bool {
	return deriveEqualCMaT13(map[string][]byte{"k": a}, map[string][]byte{"k": b})
}

func EqualCtxPtT13(a, b []byte) bool {
	return deriveEqualCPtT13(&a, &b)
}
