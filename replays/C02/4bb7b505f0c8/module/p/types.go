package p

import (
	ext "subj/ext1"
	other "subj/x/other"
)

type MyI64 int64

type MyU uint

type K0 struct {
	f0 ext.Num
	F1 int32
	F2 MyU
}

func (a *K0) Equal(b *K0) bool {
	if a == nil || b == nil {
		return a == nil && b == nil
	}
	return a.F1 == b.F1
}

type K1 struct {
	F0 ext.Num
}

func (a *K1) Equal(b *K1) bool {
	return deriveEqualMK1(a, b)
}

type S0 struct {
	K0
	f1 rune
	f2 string
	f3 bool
	F4 string
}

func (a *S0) Equal(b *S0) bool {
	if a == nil || b == nil {
		return a == nil && b == nil
	}
	return a.f1 == b.f1
}

type S1 struct {
	f0 other.E0
	F1 map[other.Num]MyI64
}

func (a *S1) Equal(b *S1) bool {
	if a == nil || b == nil {
		return a == nil && b == nil
	}
	return true
}
