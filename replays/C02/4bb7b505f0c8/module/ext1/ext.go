package ext

type Num uint8

type Key struct {
	K0 int8
}

type E0 struct {
	F0 bool
}
