package other

type Num int

type Key struct {
	K0 string
}

type E0 struct {
	f0 int8
	f1 map[uint]uint64
	f2 *E0
}
