package ext

type Num string

type Key struct {
	k0 int64
	k1 Num
	k2 int8
}

type E0 struct {
}

type E1 struct {
	F0 E0
	f1 **E1
	F2 []map[Key]E0
	f3 Num
}
