package p

import (
	ext "subj/ext1"
	ext2 "subj/x/ext"
)

type MyBool bool

type MyC complex128

type K0 struct {
}

type S0 struct {
	F0 ext2.Key
	f1 *map[ext.Key]S0
}

type S1 struct {
}

type S2 struct {
	f0 []byte
	S1
	f2 int
	S0
	F4 *[]map[MyC]ext.Key
	f5 string
}

type S3 struct {
}

type S4 struct {
	F0 []S4
	F1 complex128
	F2 map[uint64]S4
	f3 *S0
}
