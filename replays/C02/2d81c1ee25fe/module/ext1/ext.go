package ext

type Num int

type Key struct {
	k0 int64
	K1 byte
	K2 Num
}

type E0 struct {
	F0 []byte
	f1 map[Key][]uint8
}

type E1 struct {
	f0 E0
	f1 [0]E0
}
