package other

type Num uint8

type Key struct {
	K0 uintptr
}

type E0 struct {
	f0 bool
	f1 uint
	F2 rune
	f3 map[Key]map[int]complex64
}
