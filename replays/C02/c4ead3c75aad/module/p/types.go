package p

import (
	ext "subj/ext1"
)

type MyI64 int64

type N0 map[int32]MyI64

type K0 struct {
	F0 uint8
	F1 uintptr
}

type K1 struct {
}

type S0 struct {
	f0 K1
	F1 ext.E1
	F2 int
}
