package ext

type Num uint8

type Key struct {
	K0 complex128
	K1 Num
	K2 int
}

type E0 struct {
}

type E1 struct {
	f0 E0
	f1 Num
	f2 int16
	f3 map[bool]E0
}
