package ext

type Num uint8

type Key struct {
	k0 int
	k1 Num
}

type E0 struct {
}

type E1 struct {
	f0 *E1
}
