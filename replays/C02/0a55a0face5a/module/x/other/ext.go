package other

import (
	ext "subj/ext1"
)

type Num uint8

type Key struct {
	k0 byte
	K1 int8
	K2 uint8
}

type E0 struct {
	F0 ext.E1
}
