package p

var Anchor = 0

func EqualT0(a *K0, b *K0) bool {
	return deriveEqualT0(a, b)
}

func EqualcT0(a *K0, b *K0) bool {
	return deriveEqualCT0(a)(b)
}

type CtxEqualT0 struct{ F *K0 }

func EqualCtxStT0(a, b *K0) bool {
	return deriveEqualCStT0(CtxEqualT0{a}, CtxEqualT0{b})
}

func EqualCtxSlT0(a, b *K0) bool {
	return deriveEqualCSlT0([]*K0{a}, []*K0{b})
}

func EqualCtxArT0(a, b *K0) bool {
	return deriveEqualCArT0([1]*K0{a}, [1]*K0{b})
}

func EqualCtxMaT0(a, b *K0) bool {
	return deriveEqualCMaT0(map[string]*K0{"k": a}, map[string]*K0{"k": b})
}

func EqualCtxPtT0(a, b *K0) bool {
	return deriveEqualCPtT0(&a, &b)
}

func EqualT1(a *S0, b *S0) bool {
	return deriveEqualT1(a, b)
}

func EqualcT1(a *S0, b *S0) bool {
	return deriveEqualCT1(a)(b)
}

type CtxEqualT1 struct{ F *S0 }

func EqualCtxStT1(a, b *S0) bool {
	return deriveEqualCStT1(CtxEqualT1{a}, CtxEqualT1{b})
}

func EqualCtxSlT1(a, b *S0) bool {
	return deriveEqualCSlT1([]*S0{a}, []*S0{b})
}

func EqualCtxArT1(a, b *S0) bool {
	return deriveEqualCArT1([1]*S0{a}, [1]*S0{b})
}

func EqualCtxMaT1(a, b *S0) bool {
	return deriveEqualCMaT1(map[string]*S0{"k": a}, map[string]*S0{"k": b})
}

func EqualCtxPtT1(a, b *S0) bool {
	return deriveEqualCPtT1(&a, &b)
}

func EqualT2(a *S1, b *S1) bool {
	return deriveEqualT2(a, b)
}

func EqualcT2(a *S1, b *S1) bool {
	return deriveEqualCT2(a)(b)
}

type CtxEqualT2 struct{ F *S1 }

func EqualCtxStT2(a, b *S1) bool {
	return deriveEqualCStT2(CtxEqualT2{a}, CtxEqualT2{b})
}

func EqualCtxSlT2(a, b *S1) bool {
	return deriveEqualCSlT2([]*S1{a}, []*S1{b})
}

func EqualCtxArT2(a, b *S1) bool {
	return deriveEqualCArT2([1]*S1{a}, [1]*S1{b})
}

func EqualCtxMaT2(a, b *S1) bool {
	return deriveEqualCMaT2(map[string]*S1{"k": a}, map[string]*S1{"k": b})
}

func EqualCtxPtT2(a, b *S1) bool {
	return deriveEqualCPtT2(&a, &b)
}

func EqualT3(a *S2, b *S2) bool {
	return deriveEqualT3(a, b)
}

func EqualcT3(a *S2, b *S2) bool {
	return deriveEqualCT3(a)(b)
}

type CtxEqualT3 struct{ F *S2 }

func EqualCtxStT3(a, b *S2) bool {
	return deriveEqualCStT3(CtxEqualT3{a}, CtxEqualT3{b})
}

func EqualCtxSlT3(a, b *S2) bool {
	return deriveEqualCSlT3([]*S2{a}, []*S2{b})
}

func EqualCtxArT3(a, b *S2) bool {
	return deriveEqualCArT3([1]*S2{a}, [1]*S2{b})
}

func EqualCtxMaT3(a, b *S2) bool {
	return deriveEqualCMaT3(map[string]*S2{"k": a}, map[string]*S2{"k": b})
}

func EqualCtxPtT3(a, b *S2) bool {
	return deriveEqualCPtT3(&a, &b)
}

func EqualT4(a *S3, b *S3) bool {
	return deriveEqualT4(a, b)
}

func EqualcT4(a *S3, b *S3) bool {
	return deriveEqualCT4(a)(b)
}

type CtxEqualT4 struct{ F *S3 }

func EqualCtxStT4(a, b *S3) bool {
	return deriveEqualCStT4(CtxEqualT4{a}, CtxEqualT4{b})
}

func EqualCtxSlT4(a, b *S3) bool {
	return deriveEqualCSlT4([]*S3{a}, []*S3{b})
}

func EqualCtxArT4(a, b *S3) bool {
	return deriveEqualCArT4([1]*S3{a}, [1]*S3{b})
}

func EqualCtxMaT4(a, b *S3) bool {
	return deriveEqualCMaT4(map[string]*S3{"k": a}, map[string]*S3{"k": b})
}

func EqualCtxPtT4(a, b *S3) bool {
	return deriveEqualCPtT4(&a, &b)
}

func EqualT5(a N1, b N1) bool {
	return deriveEqualT5(a, b)
}

func EqualcT5(a N1, b N1) bool {
	return deriveEqualCT5(a)(b)
}

type CtxEqualT5 struct{ F N1 }

func EqualCtxStT5(a, b N1) bool {
	return deriveEqualCStT5(CtxEqualT5{a}, CtxEqualT5{b})
}

func EqualCtxSlT5(a, b N1) bool {
	return deriveEqualCSlT5([]N1{a}, []N1{b})
}

func EqualCtxArT5(a, b N1) bool {
	return deriveEqualCArT5([1]N1{a}, [1]N1{b})
}

func EqualCtxMaT5(a, b N1) bool {
	return deriveEqualCMaT5(map[string]N1{"k": a}, map[string]N1{"k": b})
}

func EqualCtxPtT5(a, b N1) bool {
	return deriveEqualCPtT5(&a, &b)
}

func EqualT6(a map[K0]S2, b map[K0]S2) bool {
	return deriveEqualT6(a, b)
}

func EqualcT6(a map[K0]S2, b map[K0]S2) bool {
	return deriveEqualCT6(a)(b)
}

type CtxEqualT6 struct{ F map[K0]S2 }

func EqualCtxStT6(a, b map[K0]S2) bool {
	return deriveEqualCStT6(CtxEqualT6{a}, CtxEqualT6{b})
}

func EqualCtxSlT6(a, b map[K0]S2) bool {
	return deriveEqualCSlT6([]map[K0]S2{a}, []map[K0]S2{b})
}

func EqualCtxArT6(a, b map[K0]S2) bool {
	return deriveEqualCArT6([1]map[K0]S2{a}, [1]map[K0]S2{b})
}

func EqualCtxMaT6(a, b map[K0]S2) bool {
	return deriveEqualCMaT6(map[string]map[K0]S2{"k": a}, map[string]map[K0]S2{"k": b})
}

func EqualCtxPtT6(a, b map[K0]S2) bool {
	return deriveEqualCPtT6(&a, &b)
}

func EqualT7(a int8, b int8) bool {
	return deriveEqualT7(a, b)
}

func EqualcT7(a int8, b int8) bool {
	return deriveEqualCT7(a)(b)
}

type CtxEqualT7 struct{ F int8 }

func EqualCtxStT7(a, b int8) bool {
	return deriveEqualCStT7(CtxEqualT7{a}, CtxEqualT7{b})
}

func EqualCtxSlT7(a, b int8) bool {
	return deriveEqualCSlT7([]int8{a}, []int8{b})
}

func EqualCtxArT7(a, b int8) bool {
	return deriveEqualCArT7([1]int8{a}, [1]int8{b})
}

func EqualCtxMaT7(a, b int8) bool {
	return deriveEqualCMaT7(map[string]int8{"k": a}, map[string]int8{"k": b})
}

func EqualCtxPtT7(a, b int8) bool {
	return deriveEqualCPtT7(&a, &b)
}

func EqualT8(a []S1, b []S1) bool {
	return deriveEqualT8(a, b)
}

func EqualcT8(a []S1, b []S1) bool {
	return deriveEqualCT8(a)(b)
}

type CtxEqualT8 struct{ F []S1 }

func EqualCtxStT8(a, b []S1) bool {
	return deriveEqualCStT8(CtxEqualT8{a}, CtxEqualT8{b})
}

func EqualCtxSlT8(a, b []S1) bool {
	return deriveEqualCSlT8([][]S1{a}, [][]S1{b})
}

func EqualCtxArT8(a, b []S1) bool {
	return deriveEqualCArT8([1][]S1{a}, [1][]S1{b})
}

func EqualCtxMaT8(a, b []S1) bool {
	return deriveEqualCMaT8(map[string][]S1{"k": a}, map[string][]S1{"k": b})
}

func EqualCtxPtT8(a, b []S1) bool {
	return deriveEqualCPtT8(&a, &b)
}

func EqualT9(a complex128, b complex128) bool {
	return deriveEqualT9(a, b)
}

func EqualcT9(a complex128, b complex128) bool {
	return deriveEqualCT9(a)(b)
}

type CtxEqualT9 struct{ F complex128 }

func EqualCtxStT9(a, b complex128) bool {
	return deriveEqualCStT9(CtxEqualT9{a}, CtxEqualT9{b})
}

func EqualCtxSlT9(a, b complex128) bool {
	return deriveEqualCSlT9([]complex128{a}, []complex128{b})
}

func EqualCtxArT9(a, b complex128) bool {
	return deriveEqualCArT9([1]complex128{a}, [1]complex128{b})
}

func EqualCtxMaT9(a, b complex128) bool {
	return deriveEqualCMaT9(map[string]complex128{"k": a}, map[string]complex128{"k": b})
}

func EqualCtxPtT9(a, b complex128) bool {
	return deriveEqualCPtT9(&a, &b)
}

func EqualT10(a int16, b int16) bool {
	return deriveEqualT10(a, b)
}

func EqualcT10(a int16, b int16) bool {
	return deriveEqualCT10(a)(b)
}

type CtxEqualT10 struct{ F int16 }

func EqualCtxStT10(a, b int16) bool {
	return deriveEqualCStT10(CtxEqualT10{a}, CtxEqualT10{b})
}

func EqualCtxSlT10(a, b int16) bool {
	return deriveEqualCSlT10([]int16{a}, []int16{b})
}

func EqualCtxArT10(a, b int16) bool {
	return deriveEqualCArT10([1]int16{a}, [1]int16{b})
}

func EqualCtxMaT10(a, b int16) bool {
	return deriveEqualCMaT10(map[string]int16{"k": a}, map[string]int16{"k": b})
}

func EqualCtxPtT10(a, b int16) bool {
	return deriveEqualCPtT10(&a, &b)
}

func EqualT11(a *uint16, b *uint16) bool {
	return deriveEqualT11(a, b)
}

func EqualcT11(a *uint16, b *uint16) bool {
	return deriveEqualCT11(a)(b)
}

type CtxEqualT11 struct{ F *uint16 }

func EqualCtxStT11(a, b *uint16) bool {
	return deriveEqualCStT11(CtxEqualT11{a}, CtxEqualT11{b})
}

func EqualCtxSlT11(a, b *uint16) bool {
	return deriveEqualCSlT11([]*uint16{a}, []*uint16{b})
}

func EqualCtxArT11(a, b *uint16) bool {
	return deriveEqualCArT11([1]*uint16{a}, [1]*uint16{b})
}

func EqualCtxMaT11(a, b *uint16) bool {
	return deriveEqualCMaT11(map[string]*uint16{"k": a}, map[string]*uint16{"k": b})
}

func EqualCtxPtT11(a, b *uint16) bool {
	return deriveEqualCPtT11(&a, &b)
}

func EqualT12(a []byte, b []byte) bool {
	return deriveEqualT12(a, b)
}

func EqualcT12(a []byte, b []byte) bool {
	return deriveEqualCT12(a)(b)
}

type CtxEqualT12 struct{ F []byte }

func EqualCtxStT12(a, b []byte) bool {
	return deriveEqualCStT12(CtxEqualT12{a}, CtxEqualT12{b})
}

func EqualCtxSlT12(a, b []byte) bool {
	return deriveEqualCSlT12([][]byte{a}, [][]byte{b})
}

func EqualCtxArT12(a, b []byte) bool {
	return deriveEqualCArT12([1][]byte{a}, [1][]byte{b})
}

func EqualCtxMaT12(a, b []byte) bool {
	return deriveEqualCMaT12(map[string][]byte{"k": a}, map[string][]byte{"k": b})
}

func EqualCtxPtT12(a, b []byte) bool {
	return deriveEqualCPtT12(&a, &b)
}

func EqualT13(a map[int][]byte, b map[int][]byte) bool {
	return deriveEqualT13(a, b)
}

func EqualcT13(a map[int][]byte, b map[int][]byte) bool {
	return deriveEqualCT13(a)(b)
}

type CtxEqualT13 struct{ F map[int][]byte }

func EqualCtxStT13(a, b map[int][]byte) bool {
	return deriveEqualCStT13(CtxEqualT13{a}, CtxEqualT13{b})
}

func EqualCtxSlT13(a, b map[int][]byte) bool {
	return deriveEqualCSlT13([]map[int][]byte{a}, []map[int][]byte{b})
}

func EqualCtxArT13(a, b map[int][]byte) bool {
	return deriveEqualCArT13([1]map[int][]byte{a}, [1]map[int][]byte{b})
}

func EqualCtxMaT13(a, b map[int][]byte) bool {
	return deriveEqualCMaT13(map[string]map[int][]byte{"k": a}, map[string]map[int][]byte{"k": b})
}

func EqualCtxPtT13(a, b map[int][]byte) bool {
	return deriveEqualCPtT13(&a, &b)
}
