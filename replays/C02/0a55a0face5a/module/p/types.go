package p

import (
	ext "subj/ext1"
	other "subj/x/other"
)

type MyI64 int64

type MyU uint

type MyBool bool

type N0 [][]MyU

type N1 []MyI64

type K0 struct {
	F0 other.Key
}

type S0 struct {
	F0 map[int32]uint64
	F1 ext.Num
	f2 ext.E0
	K0
}

type S1 struct {
}

type S2 struct {
	F0 float64
	F1 map[other.Key]ext.Num
	K0
	F3 complex128
}

type S3 struct {
}
