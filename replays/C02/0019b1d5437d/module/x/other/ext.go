package other

type Num uint8

type Key struct {
	K0 string
}

type E0 struct {
	f0 Key
	f1 rune
}

type E1 struct {
	f0 complex128
}
