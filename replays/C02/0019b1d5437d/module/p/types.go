package p

import (
	other "subj/x/other"
)

type MyU8 uint8

type MyF32 float32

type MyInt int

type N0 *MyInt

type K0 struct {
}

type K1 struct {
	F0 other.Num
	F1 int8
}

type S0 struct {
	f0 []other.Key
	F1 [3]N0
	f2 uint
	f3 *S0
	F4 uint
}
