package p

var Anchor = 0

func EqualT0(a []bool, b []bool) bool {
	return deriveEqualT0(a, b)
}

func EqualcT0(a []bool, b []bool) bool {
	return deriveEqualCT0(a)(b)
}

type CtxEqualT0 struct{ F []bool }

func EqualCtxStT0(a, b []bool) bool {
	return deriveEqualCStT0(CtxEqualT0{a}, CtxEqualT0{b})
}

func EqualCtxSlT0(a, b []bool) bool {
	return deriveEqualCSlT0([][]bool{a}, [][]bool{b})
}

func EqualCtxArT0(a, b []bool) bool {
	return deriveEqualCArT0([1][]bool{a}, [1][]bool{b})
}

func EqualCtxMaT0(a, b []bool) bool {
	return deriveEqualCMaT0(map[string][]bool{"k": a}, map[string][]bool{"k": b})
}

func EqualCtxPtT0(a, b []bool) bool {
	return deriveEqualCPtT0(&a, &b)
}

func EqualT1(a [2]bool, b [2]bool) bool {
	return deriveEqualT1(a, b)
}

func EqualcT1(a [2]bool, b [2]bool) bool {
	return deriveEqualCT1(a)(b)
}

type CtxEqualT1 struct{ F [2]bool }

func EqualCtxStT1(a, b [2]bool) bool {
	return deriveEqualCStT1(CtxEqualT1{a}, CtxEqualT1{b})
}

func EqualCtxSlT1(a, b [2]bool) bool {
	return deriveEqualCSlT1([][2]bool{a}, [][2]bool{b})
}

func EqualCtxArT1(a, b [2]bool) bool {
	return deriveEqualCArT1([1][2]bool{a}, [1][2]bool{b})
}

func EqualCtxMaT1(a, b [2]bool) bool {
	return deriveEqualCMaT1(map[string][2]bool{"k": a}, map[string][2]bool{"k": b})
}

func EqualCtxPtT1(a, b [2]bool) bool {
	return deriveEqualCPtT1(&a, &b)
}

func EqualT2(a map[string]bool, b map[string]bool) bool {
	return deriveEqualT2(a, b)
}

func EqualcT2(a map[string]bool, b map[string]bool) bool {
	return deriveEqualCT2(a)(b)
}

type CtxEqualT2 struct{ F map[string]bool }

func EqualCtxStT2(a, b map[string]bool) bool {
	return deriveEqualCStT2(CtxEqualT2{a}, CtxEqualT2{b})
}

func EqualCtxSlT2(a, b map[string]bool) bool {
	return deriveEqualCSlT2([]map[string]bool{a}, []map[string]bool{b})
}

func EqualCtxArT2(a, b map[string]bool) bool {
	return deriveEqualCArT2([1]map[string]bool{a}, [1]map[string]bool{b})
}

func EqualCtxMaT2(a, b map[string]bool) bool {
	return deriveEqualCMaT2(map[string]map[string]bool{"k": a}, map[string]map[string]bool{"k": b})
}

func EqualCtxPtT2(a, b map[string]bool) bool {
	return deriveEqualCPtT2(&a, &b)
}

func EqualT3(a map[K0]bool, b map[K0]bool) bool {
	return deriveEqualT3(a, b)
}

func EqualcT3(a map[K0]bool, b map[K0]bool) bool {
	return deriveEqualCT3(a)(b)
}

type CtxEqualT3 struct{ F map[K0]bool }

func EqualCtxStT3(a, b map[K0]bool) bool {
	return deriveEqualCStT3(CtxEqualT3{a}, CtxEqualT3{b})
}

func EqualCtxSlT3(a, b map[K0]bool) bool {
	return deriveEqualCSlT3([]map[K0]bool{a}, []map[K0]bool{b})
}

func EqualCtxArT3(a, b map[K0]bool) bool {
	return deriveEqualCArT3([1]map[K0]bool{a}, [1]map[K0]bool{b})
}

func EqualCtxMaT3(a, b map[K0]bool) bool {
	return deriveEqualCMaT3(map[string]map[K0]bool{"k": a}, map[string]map[K0]bool{"k": b})
}

func EqualCtxPtT3(a, b map[K0]bool) bool {
	return deriveEqualCPtT3(&a, &b)
}

func EqualT4(a *byte, b *byte) bool {
	return deriveEqualT4(a, b)
}

func EqualcT4(a *byte, b *byte) bool {
	return deriveEqualCT4(a)(b)
}

type CtxEqualT4 struct{ F *byte }

func EqualCtxStT4(a, b *byte) bool {
	return deriveEqualCStT4(CtxEqualT4{a}, CtxEqualT4{b})
}

func EqualCtxSlT4(a, b *byte) bool {
	return deriveEqualCSlT4([]*byte{a}, []*byte{b})
}

func EqualCtxArT4(a, b *byte) bool {
	return deriveEqualCArT4([1]*byte{a}, [1]*byte{b})
}

func EqualCtxMaT4(a, b *byte) bool {
	return deriveEqualCMaT4(map[string]*byte{"k": a}, map[string]*byte{"k": b})
}

func EqualCtxPtT4(a, b *byte) bool {
	return deriveEqualCPtT4(&a, &b)
}

func EqualT5(a []byte, b []byte) bool {
	return deriveEqualT5(a, b)
}

func EqualcT5(a []byte, b []byte) bool {
	return deriveEqualCT5(a)(b)
}

type CtxEqualT5 struct{ F []byte }

func EqualCtxStT5(a, b []byte) bool {
	return deriveEqualCStT5(CtxEqualT5{a}, CtxEqualT5{b})
}

func EqualCtxSlT5(a, b []byte) bool {
	return deriveEqualCSlT5([][]byte{a}, [][]byte{b})
}

func EqualCtxArT5(a, b []byte) bool {
	return deriveEqualCArT5([1][]byte{a}, [1][]byte{b})
}

func EqualCtxMaT5(a, b []byte) bool {
	return deriveEqualCMaT5(map[string][]byte{"k": a}, map[string][]byte{"k": b})
}

func EqualCtxPtT5(a, b []byte) bool {
	return deriveEqualCPtT5(&a, &b)
}

func EqualT6(a [2]byte, b [2]byte) bool {
	return deriveEqualT6(a, b)
}

func EqualcT6(a [2]byte, b [2]byte) bool {
	return deriveEqualCT6(a)(b)
}

type CtxEqualT6 struct{ F [2]byte }

func EqualCtxStT6(a, b [2]byte) bool {
	return deriveEqualCStT6(CtxEqualT6{a}, CtxEqualT6{b})
}

func EqualCtxSlT6(a, b [2]byte) bool {
	return deriveEqualCSlT6([][2]byte{a}, [][2]byte{b})
}

func EqualCtxArT6(a, b [2]byte) bool {
	return deriveEqualCArT6([1][2]byte{a}, [1][2]byte{b})
}

func EqualCtxMaT6(a, b [2]byte) bool {
	return deriveEqualCMaT6(map[string][2]byte{"k": a}, map[string][2]byte{"k": b})
}

func EqualCtxPtT6(a, b [2]byte) bool {
	return deriveEqualCPtT6(&a, &b)
}

func EqualT7(a map[string]byte, b map[string]byte) bool {
	return deriveEqualT7(a, b)
}

func EqualcT7(a map[string]byte, b map[string]byte) bool {
	return deriveEqualCT7(a)(b)
}

type CtxEqualT7 struct{ F map[string]byte }

func EqualCtxStT7(a, b map[string]byte) bool {
	return deriveEqualCStT7(CtxEqualT7{a}, CtxEqualT7{b})
}

func EqualCtxSlT7(a, b map[string]byte) bool {
	return deriveEqualCSlT7([]map[string]byte{a}, []map[string]byte{b})
}

func EqualCtxArT7(a, b map[string]byte) bool {
	return deriveEqualCArT7([1]map[string]byte{a}, [1]map[string]byte{b})
}

func EqualCtxMaT7(a, b map[string]byte) bool {
	return deriveEqualCMaT7(map[string]map[string]byte{"k": a}, map[string]map[string]byte{"k": b})
}

func EqualCtxPtT7(a, b map[string]byte) bool {
	return deriveEqualCPtT7(&a, &b)
}

func EqualT8(a map[K0]byte, b map[K0]byte) bool {
	return deriveEqualT8(a, b)
}

func EqualcT8(a map[K0]byte, b map[K0]byte) bool {
	return deriveEqualCT8(a)(b)
}

type CtxEqualT8 struct{ F map[K0]byte }

func EqualCtxStT8(a, b map[K0]byte) bool {
	return deriveEqualCStT8(CtxEqualT8{a}, CtxEqualT8{b})
}

func EqualCtxSlT8(a, b map[K0]byte) bool {
	return deriveEqualCSlT8([]map[K0]byte{a}, []map[K0]byte{b})
}

func EqualCtxArT8(a, b map[K0]byte) bool {
	return deriveEqualCArT8([1]map[K0]byte{a}, [1]map[K0]byte{b})
}

func EqualCtxMaT8(a, b map[K0]byte) bool {
	return deriveEqualCMaT8(map[string]map[K0]byte{"k": a}, map[string]map[K0]byte{"k": b})
}

func EqualCtxPtT8(a, b map[K0]byte) bool {
	return deriveEqualCPtT8(&a, &b)
}

func EqualT9(a *MyInt, b *MyInt) bool {
	return deriveEqualT9(a, b)
}

func EqualcT9(a *MyInt, b *MyInt) bool {
	return deriveEqualCT9(a)(b)
}

type CtxEqualT9 struct{ F *MyInt }

func EqualCtxStT9(a, b *MyInt) bool {
	return deriveEqualCStT9(CtxEqualT9{a}, CtxEqualT9{b})
}

func EqualCtxSlT9(a, b *MyInt) bool {
	return deriveEqualCSlT9([]*MyInt{a}, []*MyInt{b})
}

func EqualCtxArT9(a, b *MyInt) bool {
	return deriveEqualCArT9([1]*MyInt{a}, [1]*MyInt{b})
}

func EqualCtxMaT9(a, b *MyInt) bool {
	return deriveEqualCMaT9(map[string]*MyInt{"k": a}, map[string]*MyInt{"k": b})
}

func EqualCtxPtT9(a, b *MyInt) bool {
	return deriveEqualCPtT9(&a, &b)
}

func EqualT10(a []MyInt, b []MyInt) bool {
	return deriveEqualT10(a, b)
}

func EqualcT10(a []MyInt, b []MyInt) bool {
	return deriveEqualCT10(a)(b)
}

type CtxEqualT10 struct{ F []MyInt }

func EqualCtxStT10(a, b []MyInt) bool {
	return deriveEqualCStT10(CtxEqualT10{a}, CtxEqualT10{b})
}

func EqualCtxSlT10(a, b []MyInt) bool {
	return deriveEqualCSlT10([][]MyInt{a}, [][]MyInt{b})
}

func EqualCtxArT10(a, b []MyInt) bool {
	return deriveEqualCArT10([1][]MyInt{a}, [1][]MyInt{b})
}

func EqualCtxMaT10(a, b []MyInt) bool {
	return deriveEqualCMaT10(map[string][]MyInt{"k": a}, map[string][]MyInt{"k": b})
}

func EqualCtxPtT10(a, b []MyInt) bool {
	return deriveEqualCPtT10(&a, &b)
}

func EqualT11(a [2]MyInt, b [2]MyInt) bool {
	return deriveEqualT11(a, b)
}

func EqualcT11(a [2]MyInt, b [2]MyInt) bool {
	return deriveEqualCT11(a)(b)
}

type CtxEqualT11 struct{ F [2]MyInt }

func EqualCtxStT11(a, b [2]MyInt) bool {
	return deriveEqualCStT11(CtxEqualT11{a}, CtxEqualT11{b})
}

func EqualCtxSlT11(a, b [2]MyInt) bool {
	return deriveEqualCSlT11([][2]MyInt{a}, [][2]MyInt{b})
}

func EqualCtxArT11(a, b [2]MyInt) bool {
	return deriveEqualCArT11([1][2]MyInt{a}, [1][2]MyInt{b})
}

func EqualCtxMaT11(a, b [2]MyInt) bool {
	return deriveEqualCMaT11(map[string][2]MyInt{"k": a}, map[string][2]MyInt{"k": b})
}

func EqualCtxPtT11(a, b [2]MyInt) bool {
	return deriveEqualCPtT11(&a, &b)
}

func EqualT12(a map[string]MyInt, b map[string]MyInt) bool {
	return deriveEqualT12(a, b)
}

func EqualcT12(a map[string]MyInt, b map[string]MyInt) bool {
	return deriveEqualCT12(a)(b)
}

type CtxEqualT12 struct{ F map[string]MyInt }

func EqualCtxStT12(a, b map[string]MyInt) bool {
	return deriveEqualCStT12(CtxEqualT12{a}, CtxEqualT12{b})
}

func EqualCtxSlT12(a, b map[string]MyInt) bool {
	return deriveEqualCSlT12([]map[string]MyInt{a}, []map[string]MyInt{b})
}

func EqualCtxArT12(a, b map[string]MyInt) bool {
	return deriveEqualCArT12([1]map[string]MyInt{a}, [1]map[string]MyInt{b})
}

func EqualCtxMaT12(a, b map[string]MyInt) bool {
	return deriveEqualCMaT12(map[string]map[string]MyInt{"k": a}, map[string]map[string]MyInt{"k": b})
}

func EqualCtxPtT12(a, b map[string]MyInt) bool {
	return deriveEqualCPtT12(&a, &b)
}

func EqualT13(a map[K0]MyInt, b map[K0]MyInt) bool {
	return deriveEqualT13(a, b)
}

func EqualcT13(a map[K0]MyInt, b map[K0]MyInt) bool {
	return deriveEqualCT13(a)(b)
}

type CtxEqualT13 struct{ F map[K0]MyInt }

func EqualCtxStT13(a, b map[K0]MyInt) bool {
	return deriveEqualCStT13(CtxEqualT13{a}, CtxEqualT13{b})
}

func EqualCtxSlT13(a, b map[K0]MyInt) bool {
	return deriveEqualCSlT13([]map[K0]MyInt{a}, []map[K0]MyInt{b})
}

func EqualCtxArT13(a, b map[K0]MyInt) bool {
	return deriveEqualCArT13([1]map[K0]MyInt{a}, [1]map[K0]MyInt{b})
}

func EqualCtxMaT13(a, b map[K0]MyInt) bool {
	return deriveEqualCMaT13(map[string]map[K0]MyInt{"k": a}, map[string]map[K0]MyInt{"k": b})
}

func EqualCtxPtT13(a, b map[K0]MyInt) bool {
	return deriveEqualCPtT13(&a, &b)
}
