package ext

type Num string

type Key struct {
	k0 int
	k1 complex128
	k2 string
}

type E0 struct {
	F0 complex64
	F1 Key
	f2 *E0
	F3 map[int8]complex128
}

type E1 struct {
	f0 [2][]Num
}
