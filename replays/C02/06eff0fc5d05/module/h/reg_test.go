package h

import (
	"reflect"

	ext "subj/ext1"
	p "subj/p"
	ext2 "subj/x/ext"
)

var _ = p.Anchor

var Registry = []Entry{
	{ID: "T0", Type: reflect.TypeOf((*map[bool]ext2.Num)(nil)).Elem(), TypeStr: "map[bool]ext2.Num",
		Funcs: map[string]any{"ctx:array": p.EqualCtxArT0, "ctx:map": p.EqualCtxMaT0, "ctx:ptr": p.EqualCtxPtT0, "ctx:slice": p.EqualCtxSlT0, "ctx:struct": p.EqualCtxStT0, "equal": p.EqualT0, "equalc": p.EqualcT0},
		Tags:  map[string]string{"f:ext": "1", "f:map": "1", "f:namedbasic": "1", "usermethods": "1"},
	},
	{ID: "T1", Type: reflect.TypeOf((*p.S0)(nil)).Elem(), TypeStr: "p.S0",
		Funcs: map[string]any{"ctx:array": p.EqualCtxArT1, "ctx:map": p.EqualCtxMaT1, "ctx:ptr": p.EqualCtxPtT1, "ctx:slice": p.EqualCtxSlT1, "ctx:struct": p.EqualCtxStT1, "equal": p.EqualT1, "equalc": p.EqualcT1},
		Tags:  map[string]string{"f:embedded": "1", "f:ext": "1", "f:namedbasic": "1", "f:namedcomposite": "1", "f:slice": "1", "f:string": "1", "f:struct": "1", "f:userequal": "1", "usermethods": "1"},
	},
	{ID: "T2", Type: reflect.TypeOf((*[1]map[ext2.Key]uintptr)(nil)).Elem(), TypeStr: "[1]map[ext2.Key]uintptr",
		Funcs: map[string]any{"ctx:array": p.EqualCtxArT2, "ctx:map": p.EqualCtxMaT2, "ctx:ptr": p.EqualCtxPtT2, "ctx:slice": p.EqualCtxSlT2, "ctx:struct": p.EqualCtxStT2, "equal": p.EqualT2, "equalc": p.EqualcT2},
		Tags:  map[string]string{"f:array": "1", "f:ext": "1", "f:map": "1", "f:namedbasic": "1", "f:struct": "1", "f:structkey": "1", "usermethods": "1"},
	},
	{ID: "T3", Type: reflect.TypeOf((**p.S2)(nil)).Elem(), TypeStr: "*p.S2",
		Funcs: map[string]any{"ctx:array": p.EqualCtxArT3, "ctx:map": p.EqualCtxMaT3, "ctx:ptr": p.EqualCtxPtT3, "ctx:slice": p.EqualCtxSlT3, "ctx:struct": p.EqualCtxStT3, "equal": p.EqualT3, "equalc": p.EqualcT3},
		Tags:  map[string]string{"f:emptystruct": "1", "f:ptr": "1", "f:struct": "1", "f:userequal": "1", "usermethods": "1"},
	},
	{ID: "T4", Type: reflect.TypeOf((*int)(nil)).Elem(), TypeStr: "int",
		Funcs: map[string]any{"ctx:array": p.EqualCtxArT4, "ctx:map": p.EqualCtxMaT4, "ctx:ptr": p.EqualCtxPtT4, "ctx:slice": p.EqualCtxSlT4, "ctx:struct": p.EqualCtxStT4, "equal": p.EqualT4, "equalc": p.EqualcT4},
		Tags:  map[string]string{"basic-ordered": "1", "comparable": "1", "usermethods": "1"},
	},
	{ID: "T5", Type: reflect.TypeOf((*ext.Key)(nil)).Elem(), TypeStr: "ext.Key",
		Funcs: map[string]any{"ctx:array": p.EqualCtxArT5, "ctx:map": p.EqualCtxMaT5, "ctx:ptr": p.EqualCtxPtT5, "ctx:slice": p.EqualCtxSlT5, "ctx:struct": p.EqualCtxStT5, "equal": p.EqualT5, "equalc": p.EqualcT5},
		Tags:  map[string]string{"comparable": "1", "f:complex": "1", "f:ext": "1", "f:ext-private": "1", "f:string": "1", "f:struct": "1", "usermethods": "1"},
	},
	{ID: "T6", Type: reflect.TypeOf((*p.N1)(nil)).Elem(), TypeStr: "p.N1",
		Funcs: map[string]any{"ctx:array": p.EqualCtxArT6, "ctx:map": p.EqualCtxMaT6, "ctx:ptr": p.EqualCtxPtT6, "ctx:slice": p.EqualCtxSlT6, "ctx:struct": p.EqualCtxStT6, "equal": p.EqualT6, "equalc": p.EqualcT6},
		Tags:  map[string]string{"comparable": "1", "f:array": "1", "f:namedcomposite": "1", "usermethods": "1"},
	},
	{ID: "T7", Type: reflect.TypeOf((**p.MyRune)(nil)).Elem(), TypeStr: "*p.MyRune",
		Funcs: map[string]any{"ctx:array": p.EqualCtxArT7, "ctx:map": p.EqualCtxMaT7, "ctx:ptr": p.EqualCtxPtT7, "ctx:slice": p.EqualCtxSlT7, "ctx:struct": p.EqualCtxStT7, "equal": p.EqualT7, "equalc": p.EqualcT7},
		Tags:  map[string]string{"f:namedbasic": "1", "f:ptr": "1", "usermethods": "1"},
	},
	{ID: "T8", Type: reflect.TypeOf((*complex128)(nil)).Elem(), TypeStr: "complex128",
		Funcs: map[string]any{"ctx:array": p.EqualCtxArT8, "ctx:map": p.EqualCtxMaT8, "ctx:ptr": p.EqualCtxPtT8, "ctx:slice": p.EqualCtxSlT8, "ctx:struct": p.EqualCtxStT8, "equal": p.EqualT8, "equalc": p.EqualcT8},
		Tags:  map[string]string{"comparable": "1", "f:complex": "1", "usermethods": "1"},
	},
	{ID: "T9", Type: reflect.TypeOf((*p.N0)(nil)).Elem(), TypeStr: "p.N0",
		Funcs: map[string]any{"ctx:array": p.EqualCtxArT9, "ctx:map": p.EqualCtxMaT9, "ctx:ptr": p.EqualCtxPtT9, "ctx:slice": p.EqualCtxSlT9, "ctx:struct": p.EqualCtxStT9, "equal": p.EqualT9, "equalc": p.EqualcT9},
		Tags:  map[string]string{"f:namedcomposite": "1", "f:slice": "1", "f:string": "1", "usermethods": "1"},
	},
	{ID: "T10", Type: reflect.TypeOf((*[1]rune)(nil)).Elem(), TypeStr: "[1]rune",
		Funcs: map[string]any{"ctx:array": p.EqualCtxArT10, "ctx:map": p.EqualCtxMaT10, "ctx:ptr": p.EqualCtxPtT10, "ctx:slice": p.EqualCtxSlT10, "ctx:struct": p.EqualCtxStT10, "equal": p.EqualT10, "equalc": p.EqualcT10},
		Tags:  map[string]string{"comparable": "1", "f:array": "1", "usermethods": "1"},
	},
	{ID: "T11", Type: reflect.TypeOf((*float32)(nil)).Elem(), TypeStr: "float32",
		Funcs: map[string]any{"ctx:array": p.EqualCtxArT11, "ctx:map": p.EqualCtxMaT11, "ctx:ptr": p.EqualCtxPtT11, "ctx:slice": p.EqualCtxSlT11, "ctx:struct": p.EqualCtxStT11, "equal": p.EqualT11, "equalc": p.EqualcT11},
		Tags:  map[string]string{"basic-ordered": "1", "comparable": "1", "f:float": "1", "usermethods": "1"},
	},
	{ID: "T12", Type: reflect.TypeOf((*map[p.MyStr][]p.MyStr)(nil)).Elem(), TypeStr: "map[p.MyStr][]p.MyStr",
		Funcs: map[string]any{"ctx:array": p.EqualCtxArT12, "ctx:map": p.EqualCtxMaT12, "ctx:ptr": p.EqualCtxPtT12, "ctx:slice": p.EqualCtxSlT12, "ctx:struct": p.EqualCtxStT12, "equal": p.EqualT12, "equalc": p.EqualcT12},
		Tags:  map[string]string{"f:map": "1", "f:namedbasic": "1", "f:slice": "1", "f:string": "1", "usermethods": "1"},
	},
	{ID: "T13", Type: reflect.TypeOf((*ext2.E1)(nil)).Elem(), TypeStr: "ext2.E1",
		Funcs: map[string]any{"ctx:array": p.EqualCtxArT13, "ctx:map": p.EqualCtxMaT13, "ctx:ptr": p.EqualCtxPtT13, "ctx:slice": p.EqualCtxSlT13, "ctx:struct": p.EqualCtxStT13, "equal": p.EqualT13, "equalc": p.EqualcT13},
		Tags:  map[string]string{"f:array": "1", "f:ext": "1", "f:ext-private": "1", "f:map": "1", "f:namedbasic": "1", "f:slice": "1", "f:string": "1", "f:struct": "1", "f:structkey": "1", "usermethods": "1"},
	},
}
