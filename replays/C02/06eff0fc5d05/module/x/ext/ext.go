package ext

import (
	ext "subj/ext1"
)

type Num int64

type Key struct {
	K0 Num
}

type E0 struct {
	f0 int8
	f1 map[Key]Num
	f2 ext.E1
}

type E1 struct {
	f0 E0
}
