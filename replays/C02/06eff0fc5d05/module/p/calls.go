package p

import (
	ext "subj/ext1"
	ext2 "subj/x/ext"
)

var Anchor = 0

func EqualT0(a map[bool]ext2.Num, b map[bool]ext2.Num) bool {
	return deriveEqualT0(a, b)
}

func EqualcT0(a map[bool]ext2.Num, b map[bool]ext2.Num) bool {
	return deriveEqualCT0(a)(b)
}

type CtxEqualT0 struct{ F map[bool]ext2.Num }

func EqualCtxStT0(a, b map[bool]ext2.Num) bool {
	return deriveEqualCStT0(CtxEqualT0{a}, CtxEqualT0{b})
}

func EqualCtxSlT0(a, b map[bool]ext2.Num) bool {
	return deriveEqualCSlT0([]map[bool]ext2.Num{a}, []map[bool]ext2.Num{b})
}

func EqualCtxArT0(a, b map[bool]ext2.Num) bool {
	return deriveEqualCArT0([1]map[bool]ext2.Num{a}, [1]map[bool]ext2.Num{b})
}

func EqualCtxMaT0(a, b map[bool]ext2.Num) bool {
	return deriveEqualCMaT0(map[string]map[bool]ext2.Num{"k": a}, map[string]map[bool]ext2.Num{"k": b})
}

func EqualCtxPtT0(a, b map[bool]ext2.Num) bool {
	return deriveEqualCPtT0(&a, &b)
}

func EqualT1(a S0, b S0) bool {
	return deriveEqualT1(a, b)
}

func EqualcT1(a S0, b S0) bool {
	return deriveEqualCT1(a)(b)
}

type CtxEqualT1 struct{ F S0 }

func EqualCtxStT1(a, b S0) bool {
	return deriveEqualCStT1(CtxEqualT1{a}, CtxEqualT1{b})
}

func EqualCtxSlT1(a, b S0) bool {
	return deriveEqualCSlT1([]S0{a}, []S0{b})
}

func EqualCtxArT1(a, b S0) bool {
	return deriveEqualCArT1([1]S0{a}, [1]S0{b})
}

func EqualCtxMaT1(a, b S0) bool {
	return deriveEqualCMaT1(map[string]S0{"k": a}, map[string]S0{"k": b})
}

func EqualCtxPtT1(a, b S0) bool {
	return deriveEqualCPtT1(&a, &b)
}

func EqualT2(a [1]map[ext2.Key]uintptr, b [1]map[ext2.Key]uintptr) bool {
	return deriveEqualT2(a, b)
}

func EqualcT2(a [1]map[ext2.Key]uintptr, b [1]map[ext2.Key]uintptr) bool {
	return deriveEqualCT2(a)(b)
}

type CtxEqualT2 struct{ F [1]map[ext2.Key]uintptr }

func EqualCtxStT2(a, b [1]map[ext2.Key]uintptr) bool {
	return deriveEqualCStT2(CtxEqualT2{a}, CtxEqualT2{b})
}

func EqualCtxSlT2(a, b [1]map[ext2.Key]uintptr) bool {
	return deriveEqualCSlT2([][1]map[ext2.Key]uintptr{a}, [][1]map[ext2.Key]uintptr{b})
}

func EqualCtxArT2(a, b [1]map[ext2.Key]uintptr) bool {
	return deriveEqualCArT2([1][1]map[ext2.Key]uintptr{a}, [1][1]map[ext2.Key]uintptr{b})
}

func EqualCtxMaT2(a, b [1]map[ext2.Key]uintptr) bool {
	return deriveEqualCMaT2(map[string][1]map[ext2.Key]uintptr{"k": a}, map[string][1]map[ext2.Key]uintptr{"k": b})
}

func EqualCtxPtT2(a, b [1]map[ext2.Key]uintptr) bool {
	return deriveEqualCPtT2(&a, &b)
}

func EqualT3(a *S2, b *S2) bool {
	return deriveEqualT3(a, b)
}

func EqualcT3(a *S2, b *S2) bool {
	return deriveEqualCT3(a)(b)
}

type CtxEqualT3 struct{ F *S2 }

func EqualCtxStT3(a, b *S2) bool {
	return deriveEqualCStT3(CtxEqualT3{a}, CtxEqualT3{b})
}

func EqualCtxSlT3(a, b *S2) bool {
	return deriveEqualCSlT3([]*S2{a}, []*S2{b})
}

func EqualCtxArT3(a, b *S2) bool {
	return deriveEqualCArT3([1]*S2{a}, [1]*S2{b})
}

func EqualCtxMaT3(a, b *S2) bool {
	return deriveEqualCMaT3(map[string]*S2{"k": a}, map[string]*S2{"k": b})
}

func EqualCtxPtT3(a, b *S2) bool {
	return deriveEqualCPtT3(&a, &b)
}

func EqualT4(a int, b int) bool {
	return deriveEqualT4(a, b)
}

func EqualcT4(a int, b int) bool {
	return deriveEqualCT4(a)(b)
}

type CtxEqualT4 struct{ F int }

func EqualCtxStT4(a, b int) bool {
	return deriveEqualCStT4(CtxEqualT4{a}, CtxEqualT4{b})
}

func EqualCtxSlT4(a, b int) bool {
	return deriveEqualCSlT4([]int{a}, []int{b})
}

func EqualCtxArT4(a, b int) bool {
	return deriveEqualCArT4([1]int{a}, [1]int{b})
}

func EqualCtxMaT4(a, b int) bool {
	return deriveEqualCMaT4(map[string]int{"k": a}, map[string]int{"k": b})
}

func EqualCtxPtT4(a, b int) bool {
	return deriveEqualCPtT4(&a, &b)
}

func EqualT5(a ext.Key, b ext.Key) bool {
	return deriveEqualT5(a, b)
}

func EqualcT5(a ext.Key, b ext.Key) bool {
	return deriveEqualCT5(a)(b)
}

type CtxEqualT5 struct{ F ext.Key }

func EqualCtxStT5(a, b ext.Key) bool {
	return deriveEqualCStT5(CtxEqualT5{a}, CtxEqualT5{b})
}

func EqualCtxSlT5(a, b ext.Key) bool {
	return deriveEqualCSlT5([]ext.Key{a}, []ext.Key{b})
}

func EqualCtxArT5(a, b ext.Key) bool {
	return deriveEqualCArT5([1]ext.Key{a}, [1]ext.Key{b})
}

func EqualCtxMaT5(a, b ext.Key) bool {
	return deriveEqualCMaT5(map[string]ext.Key{"k": a}, map[string]ext.Key{"k": b})
}

func EqualCtxPtT5(a, b ext.Key) bool {
	return deriveEqualCPtT5(&a, &b)
}

func EqualT6(a N1, b N1) bool {
	return deriveEqualT6(a, b)
}

func EqualcT6(a N1, b N1) bool {
	return deriveEqualCT6(a)(b)
}

type CtxEqualT6 struct{ F N1 }

func EqualCtxStT6(a, b N1) bool {
	return deriveEqualCStT6(CtxEqualT6{a}, CtxEqualT6{b})
}

func EqualCtxSlT6(a, b N1) bool {
	return deriveEqualCSlT6([]N1{a}, []N1{b})
}

func EqualCtxArT6(a, b N1) bool {
	return deriveEqualCArT6([1]N1{a}, [1]N1{b})
}

func EqualCtxMaT6(a, b N1) bool {
	return deriveEqualCMaT6(map[string]N1{"k": a}, map[string]N1{"k": b})
}

func EqualCtxPtT6(a, b N1) bool {
	return deriveEqualCPtT6(&a, &b)
}

func EqualT7(a *MyRune, b *MyRune) bool {
	return deriveEqualT7(a, b)
}

func EqualcT7(a *MyRune, b *MyRune) bool {
	return deriveEqualCT7(a)(b)
}

type CtxEqualT7 struct{ F *MyRune }

func EqualCtxStT7(a, b *MyRune) bool {
	return deriveEqualCStT7(CtxEqualT7{a}, CtxEqualT7{b})
}

func EqualCtxSlT7(a, b *MyRune) bool {
	return deriveEqualCSlT7([]*MyRune{a}, []*MyRune{b})
}

func EqualCtxArT7(a, b *MyRune) bool {
	return deriveEqualCArT7([1]*MyRune{a}, [1]*MyRune{b})
}

func EqualCtxMaT7(a, b *MyRune) bool {
	return deriveEqualCMaT7(map[string]*MyRune{"k": a}, map[string]*MyRune{"k": b})
}

func EqualCtxPtT7(a, b *MyRune) bool {
	return deriveEqualCPtT7(&a, &b)
}

func EqualT8(a complex128, b complex128) bool {
	return deriveEqualT8(a, b)
}

func EqualcT8(a complex128, b complex128) bool {
	return deriveEqualCT8(a)(b)
}

type CtxEqualT8 struct{ F complex128 }

func EqualCtxStT8(a, b complex128) bool {
	return deriveEqualCStT8(CtxEqualT8{a}, CtxEqualT8{b})
}

func EqualCtxSlT8(a, b complex128) bool {
	return deriveEqualCSlT8([]complex128{a}, []complex128{b})
}

func EqualCtxArT8(a, b complex128) bool {
	return deriveEqualCArT8([1]complex128{a}, [1]complex128{b})
}

func EqualCtxMaT8(a, b complex128) bool {
	return deriveEqualCMaT8(map[string]complex128{"k": a}, map[string]complex128{"k": b})
}

func EqualCtxPtT8(a, b complex128) bool {
	return deriveEqualCPtT8(&a, &b)
}

func EqualT9(a N0, b N0) bool {
	return deriveEqualT9(a, b)
}

func EqualcT9(a N0, b N0) bool {
	return deriveEqualCT9(a)(b)
}

type CtxEqualT9 struct{ F N0 }

func EqualCtxStT9(a, b N0) bool {
	return deriveEqualCStT9(CtxEqualT9{a}, CtxEqualT9{b})
}

func EqualCtxSlT9(a, b N0) bool {
	return deriveEqualCSlT9([]N0{a}, []N0{b})
}

func EqualCtxArT9(a, b N0) bool {
	return deriveEqualCArT9([1]N0{a}, [1]N0{b})
}

func EqualCtxMaT9(a, b N0) bool {
	return deriveEqualCMaT9(map[string]N0{"k": a}, map[string]N0{"k": b})
}

func EqualCtxPtT9(a, b N0) bool {
	return deriveEqualCPtT9(&a, &b)
}

func EqualT10(a [1]rune, b [1]rune) bool {
	return deriveEqualT10(a, b)
}

func EqualcT10(a [1]rune, b [1]rune) bool {
	return deriveEqualCT10(a)(b)
}

type CtxEqualT10 struct{ F [1]rune }

func EqualCtxStT10(a, b [1]rune) bool {
	return deriveEqualCStT10(CtxEqualT10{a}, CtxEqualT10{b})
}

func EqualCtxSlT10(a, b [1]rune) bool {
	return deriveEqualCSlT10([][1]rune{a}, [][1]rune{b})
}

func EqualCtxArT10(a, b [1]rune) bool {
	return deriveEqualCArT10([1][1]rune{a}, [1][1]rune{b})
}

func EqualCtxMaT10(a, b [1]rune) bool {
	return deriveEqualCMaT10(map[string][1]rune{"k": a}, map[string][1]rune{"k": b})
}

func EqualCtxPtT10(a, b [1]rune) bool {
	return deriveEqualCPtT10(&a, &b)
}

func EqualT11(a float32, b float32) bool {
	return deriveEqualT11(a, b)
}

func EqualcT11(a float32, b float32) bool {
	return deriveEqualCT11(a)(b)
}

type CtxEqualT11 struct{ F float32 }

func EqualCtxStT11(a, b float32) bool {
	return deriveEqualCStT11(CtxEqualT11{a}, CtxEqualT11{b})
}

func EqualCtxSlT11(a, b float32) bool {
	return deriveEqualCSlT11([]float32{a}, []float32{b})
}

func EqualCtxArT11(a, b float32) bool {
	return deriveEqualCArT11([1]float32{a}, [1]float32{b})
}

func EqualCtxMaT11(a, b float32) bool {
	return deriveEqualCMaT11(map[string]float32{"k": a}, map[string]float32{"k": b})
}

func EqualCtxPtT11(a, b float32) bool {
	return deriveEqualCPtT11(&a, &b)
}

func EqualT12(a map[MyStr][]MyStr, b map[MyStr][]MyStr) bool {
	return deriveEqualT12(a, b)
}

func EqualcT12(a map[MyStr][]MyStr, b map[MyStr][]MyStr) bool {
	return deriveEqualCT12(a)(b)
}

type CtxEqualT12 struct{ F map[MyStr][]MyStr }

func EqualCtxStT12(a, b map[MyStr][]MyStr) bool {
	return deriveEqualCStT12(CtxEqualT12{a}, CtxEqualT12{b})
}

func EqualCtxSlT12(a, b map[MyStr][]MyStr) bool {
	return deriveEqualCSlT12([]map[MyStr][]MyStr{a}, []map[MyStr][]MyStr{b})
}

func EqualCtxArT12(a, b map[MyStr][]MyStr) bool {
	return deriveEqualCArT12([1]map[MyStr][]MyStr{a}, [1]map[MyStr][]MyStr{b})
}

func EqualCtxMaT12(a, b map[MyStr][]MyStr) bool {
	return deriveEqualCMaT12(map[string]map[MyStr][]MyStr{"k": a}, map[string]map[MyStr][]MyStr{"k": b})
}

func EqualCtxPtT12(a, b map[MyStr][]MyStr) bool {
	return deriveEqualCPtT12(&a, &b)
}

func EqualT13(a ext2.E1, b ext2.E1) bool {
	return deriveEqualT13(a, b)
}

func EqualcT13(a ext2.E1, b ext2.E1) bool {
	return deriveEqualCT13(a)(b)
}

type CtxEqualT13 struct{ F ext2.E1 }

func EqualCtxStT13(a, b ext2.E1) bool {
	return deriveEqualCStT13(CtxEqualT13{a}, CtxEqualT13{b})
}

func EqualCtxSlT13(a, b ext2.E1) bool {
	return deriveEqualCSlT13([]ext2.E1{a}, []ext2.E1{b})
}

func EqualCtxArT13(a, b ext2.E1) bool {
	return deriveEqualCArT13([1]ext2.E1{a}, [1]ext2.E1{b})
}

func EqualCtxMaT13(a, b ext2.E1) bool {
	return deriveEqualCMaT13(map[string]ext2.E1{"k": a}, map[string]ext2.E1{"k": b})
}

func EqualCtxPtT13(a, b ext2.E1) bool {
	return deriveEqualCPtT13(&a, &b)
}
