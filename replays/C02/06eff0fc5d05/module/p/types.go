package p

import (
	ext "subj/ext1"
	ext2 "subj/x/ext"
)

type MyRune rune

type MyStr string

type MyU8 uint8

type N0 []string

type N1 [3]int16

type K0 struct {
	F0 bool
	f1 int
	f2 ext2.Key
}

func (a K0) Equal(b K0) bool {
	return a.f1 == b.f1
}

type S0 struct {
	K0
	F1 N0
}

func (a S0) Equal(b S0) bool {
	return true
}

type S1 struct {
	F0 ext.E1
	F1 MyRune
	*K0
}

func (a *S1) Equal(b *S1) bool {
	return deriveEqualMS1(a, b)
}

type S2 struct {
}

func (a S2) Equal(b S2) bool {
	return true
}
