package p

import (
	ext "subj/ext1"
)

type MyBool bool

type MyC complex128

type MyRune rune

type N0 [3]int8

type N1 [0]rune

type K0 struct {
	f0 MyBool
	F1 bool
	f2 int64
}

type K1 struct {
	F0 MyC
}

type S0 struct {
	K0
	F1 rune
}

type S1 struct {
	K1
	F1 bool
}

type S2 struct {
	F0 map[K0]ext.E0
	F1 uint8
	S0
	F3 map[[1]int]S1
	f4 *N0
	f5 bool
}
