package p

import (
	ext "subj/ext1"
	ext2 "subj/x/ext"
)

var Anchor = 0

func EqualT0(a *K0, b *K0) bool {
	return deriveEqualT0(a, b)
}

func EqualcT0(a *K0, b *K0) bool {
	return deriveEqualCT0(a)(b)
}

type CtxEqualT0 struct{ F *K0 }

func EqualCtxStT0(a, b *K0) bool {
	return deriveEqualCStT0(CtxEqualT0{a}, CtxEqualT0{b})
}

func EqualCtxSlT0(a, b *K0) bool {
	return deriveEqualCSlT0([]*K0{a}, []*K0{b})
}

func EqualCtxArT0(a, b *K0) bool {
	return deriveEqualCArT0([1]*K0{a}, [1]*K0{b})
}

func EqualCtxMaT0(a, b *K0) bool {
	return deriveEqualCMaT0(map[string]*K0{"k": a}, map[string]*K0{"k": b})
}

func EqualCtxPtT0(a, b *K0) bool {
	return deriveEqualCPtT0(&a, &b)
}

func EqualT1(a K1, b K1) bool {
	return deriveEqualT1(a, b)
}

func EqualcT1(a K1, b K1) bool {
	return deriveEqualCT1(a)(b)
}

type CtxEqualT1 struct{ F K1 }

func EqualCtxStT1(a, b K1) bool {
	return deriveEqualCStT1(CtxEqualT1{a}, CtxEqualT1{b})
}

func EqualCtxSlT1(a, b K1) bool {
	return deriveEqualCSlT1([]K1{a}, []K1{b})
}

func EqualCtxArT1(a, b K1) bool {
	return deriveEqualCArT1([1]K1{a}, [1]K1{b})
}

func EqualCtxMaT1(a, b K1) bool {
	return deriveEqualCMaT1(map[string]K1{"k": a}, map[string]K1{"k": b})
}

func EqualCtxPtT1(a, b K1) bool {
	return deriveEqualCPtT1(&a, &b)
}

func EqualT2(a float32, b float32) bool {
	return deriveEqualT2(a, b)
}

func EqualcT2(a float32, b float32) bool {
	return deriveEqualCT2(a)(b)
}

type CtxEqualT2 struct{ F float32 }

func EqualCtxStT2(a, b float32) bool {
	return deriveEqualCStT2(CtxEqualT2{a}, CtxEqualT2{b})
}

func EqualCtxSlT2(a, b float32) bool {
	return deriveEqualCSlT2([]float32{a}, []float32{b})
}

func EqualCtxArT2(a, b float32) bool {
	return deriveEqualCArT2([1]float32{a}, [1]float32{b})
}

func EqualCtxMaT2(a, b float32) bool {
	return deriveEqualCMaT2(map[string]float32{"k": a}, map[string]float32{"k": b})
}

func EqualCtxPtT2(a, b float32) bool {
	return deriveEqualCPtT2(&a, &b)
}

func EqualT3(a S1, b S1) bool {
	return deriveEqualT3(a, b)
}

func EqualcT3(a S1, b S1) bool {
	return deriveEqualCT3(a)(b)
}

type CtxEqualT3 struct{ F S1 }

func EqualCtxStT3(a, b S1) bool {
	return deriveEqualCStT3(CtxEqualT3{a}, CtxEqualT3{b})
}

func EqualCtxSlT3(a, b S1) bool {
	return deriveEqualCSlT3([]S1{a}, []S1{b})
}

func EqualCtxArT3(a, b S1) bool {
	return deriveEqualCArT3([1]S1{a}, [1]S1{b})
}

func EqualCtxMaT3(a, b S1) bool {
	return deriveEqualCMaT3(map[string]S1{"k": a}, map[string]S1{"k": b})
}

func EqualCtxPtT3(a, b S1) bool {
	return deriveEqualCPtT3(&a, &b)
}

func EqualT4(a int16, b int16) bool {
	return deriveEqualT4(a, b)
}

func EqualcT4(a int16, b int16) bool {
	return deriveEqualCT4(a)(b)
}

type CtxEqualT4 struct{ F int16 }

func EqualCtxStT4(a, b int16) bool {
	return deriveEqualCStT4(CtxEqualT4{a}, CtxEqualT4{b})
}

func EqualCtxSlT4(a, b int16) bool {
	return deriveEqualCSlT4([]int16{a}, []int16{b})
}

func EqualCtxArT4(a, b int16) bool {
	return deriveEqualCArT4([1]int16{a}, [1]int16{b})
}

func EqualCtxMaT4(a, b int16) bool {
	return deriveEqualCMaT4(map[string]int16{"k": a}, map[string]int16{"k": b})
}

func EqualCtxPtT4(a, b int16) bool {
	return deriveEqualCPtT4(&a, &b)
}

func EqualT5(a map[ext2.Num]int, b map[ext2.Num]int) bool {
	return deriveEqualT5(a, b)
}

func EqualcT5(a map[ext2.Num]int, b map[ext2.Num]int) bool {
	return deriveEqualCT5(a)(b)
}

type CtxEqualT5 struct{ F map[ext2.Num]int }

func EqualCtxStT5(a, b map[ext2.Num]int) bool {
	return deriveEqualCStT5(CtxEqualT5{a}, CtxEqualT5{b})
}

func EqualCtxSlT5(a, b map[ext2.Num]int) bool {
	return deriveEqualCSlT5([]map[ext2.Num]int{a}, []map[ext2.Num]int{b})
}

func EqualCtxArT5(a, b map[ext2.Num]int) bool {
	return deriveEqualCArT5([1]map[ext2.Num]int{a}, [1]map[ext2.Num]int{b})
}

func EqualCtxMaT5(a, b map[ext2.Num]int) bool {
	return deriveEqualCMaT5(map[string]map[ext2.Num]int{"k": a}, map[string]map[ext2.Num]int{"k": b})
}

func EqualCtxPtT5(a, b map[ext2.Num]int) bool {
	return deriveEqualCPtT5(&a, &b)
}

func EqualT6(a int64, b int64) bool {
	return deriveEqualT6(a, b)
}

func EqualcT6(a int64, b int64) bool {
	return deriveEqualCT6(a)(b)
}

type CtxEqualT6 struct{ F int64 }

func EqualCtxStT6(a, b int64) bool {
	return deriveEqualCStT6(CtxEqualT6{a}, CtxEqualT6{b})
}

func EqualCtxSlT6(a, b int64) bool {
	return deriveEqualCSlT6([]int64{a}, []int64{b})
}

func EqualCtxArT6(a, b int64) bool {
	return deriveEqualCArT6([1]int64{a}, [1]int64{b})
}

func EqualCtxMaT6(a, b int64) bool {
	return deriveEqualCMaT6(map[string]int64{"k": a}, map[string]int64{"k": b})
}

func EqualCtxPtT6(a, b int64) bool {
	return deriveEqualCPtT6(&a, &b)
}

func EqualT7(a map[int8]S0, b map[int8]S0) bool {
	return deriveEqualT7(a, b)
}

func EqualcT7(a map[int8]S0, b map[int8]S0) bool {
	return deriveEqualCT7(a)(b)
}

type CtxEqualT7 struct{ F map[int8]S0 }

func EqualCtxStT7(a, b map[int8]S0) bool {
	return deriveEqualCStT7(CtxEqualT7{a}, CtxEqualT7{b})
}

func EqualCtxSlT7(a, b map[int8]S0) bool {
	return deriveEqualCSlT7([]map[int8]S0{a}, []map[int8]S0{b})
}

func EqualCtxArT7(a, b map[int8]S0) bool {
	return deriveEqualCArT7([1]map[int8]S0{a}, [1]map[int8]S0{b})
}

func EqualCtxMaT7(a, b map[int8]S0) bool {
	return deriveEqualCMaT7(map[string]map[int8]S0{"k": a}, map[string]map[int8]S0{"k": b})
}

func EqualCtxPtT7(a, b map[int8]S0) bool {
	return deriveEqualCPtT7(&a, &b)
}

func EqualcT8(a *K1, b *K1) bool {
	return deriveEqualCT8(a)(b)
}

type CtxEqualT8 struct{ F *K1 }

func EqualCtxStT8(a, b *K1) bool {
	return deriveEqualCStT8(CtxEqualT8{a}, CtxEqualT8{b})
}

func EqualCtxSlT8(a, b *K1) bool {
	return deriveEqualCSlT8([]*K1{a}, []*K1{b})
}

func EqualCtxArT8(a, b *K1) bool {
	return deriveEqualCArT8([1]*K1{a}, [1]*K1{b})
}

func EqualCtxMaT8(a, b *K1) bool {
	return deriveEqualCMaT8(map[string]*K1{"k": a}, map[string]*K1{"k": b})
}

func EqualCtxPtT8(a, b *K1) bool {
	return deriveEqualCPtT8(&a, &b)
}

func EqualT9(a complex64, b complex64) bool {
	return deriveEqualT9(a, b)
}

func EqualcT9(a complex64, b complex64) bool {
	return deriveEqualCT9(a)(b)
}

type CtxEqualT9 struct{ F complex64 }

func EqualCtxStT9(a, b complex64) bool {
	return deriveEqualCStT9(CtxEqualT9{a}, CtxEqualT9{b})
}

func EqualCtxSlT9(a, b complex64) bool {
	return deriveEqualCSlT9([]complex64{a}, []complex64{b})
}

func EqualCtxArT9(a, b complex64) bool {
	return deriveEqualCArT9([1]complex64{a}, [1]complex64{b})
}

func EqualCtxMaT9(a, b complex64) bool {
	return deriveEqualCMaT9(map[string]complex64{"k": a}, map[string]complex64{"k": b})
}

func EqualCtxPtT9(a, b complex64) bool {
	return deriveEqualCPtT9(&a, &b)
}

func EqualT10(a map[[2]ext.Key]int64, b map[[2]ext.Key]int64) bool {
	return deriveEqualT10(a, b)
}

func EqualcT10(a map[[2]ext.Key]int64, b map[[2]ext.Key]int64) bool {
	return deriveEqualCT10(a)(b)
}

type CtxEqualT10 struct{ F map[[2]ext.Key]int64 }

func EqualCtxStT10(a, b map[[2]ext.Key]int64) bool {
	return deriveEqualCStT10(CtxEqualT10{a}, CtxEqualT10{b})
}

func EqualCtxSlT10(a, b map[[2]ext.Key]int64) bool {
	return deriveEqualCSlT10([]map[[2]ext.Key]int64{a}, []map[[2]ext.Key]int64{b})
}

func EqualCtxArT10(a, b map[[2]ext.Key]int64) bool {
	return deriveEqualCArT10([1]map[[2]ext.Key]int64{a}, [1]map[[2]ext.Key]int64{b})
}

func EqualCtxMaT10(a, b map[[2]ext.Key]int64) bool {
	return deriveEqualCMaT10(map[string]map[[2]ext.Key]int64{"k": a}, map[string]map[[2]ext.Key]int64{"k": b})
}

func EqualCtxPtT10(a, b map[[2]ext.Key]int64) bool {
	return deriveEqualCPtT10(&a, &b)
}

func EqualT11(a [0][1]uint16, b [0][1]uint16) bool {
	return deriveEqualT11(a, b)
}

func EqualcT11(a [0][1]uint16, b [0][1]uint16) bool {
	return deriveEqualCT11(a)(b)
}

type CtxEqualT11 struct{ F [0][1]uint16 }

func EqualCtxStT11(a, b [0][1]uint16) bool {
	return deriveEqualCStT11(CtxEqualT11{a}, CtxEqualT11{b})
}

func EqualCtxSlT11(a, b [0][1]uint16) bool {
	return deriveEqualCSlT11([][0][1]uint16{a}, [][0][1]uint16{b})
}

func EqualCtxArT11(a, b [0][1]uint16) bool {
	return deriveEqualCArT11([1][0][1]uint16{a}, [1][0][1]uint16{b})
}

func EqualCtxMaT11(a, b [0][1]uint16) bool {
	return deriveEqualCMaT11(map[string][0][1]uint16{"k": a}, map[string][0][1]uint16{"k": b})
}

func EqualCtxPtT11(a, b [0][1]uint16) bool {
	return deriveEqualCPtT11(&a, &b)
}

func EqualT12(a []map[int8]ext.E1, b []map[int8]ext.E1) bool {
	return deriveEqualT12(a, b)
}

func EqualcT12(a []map[int8]ext.E1, b []map[int8]ext.E1) bool {
	return deriveEqualCT12(a)(b)
}

type CtxEqualT12 struct{ F []map[int8]ext.E1 }

func EqualCtxStT12(a, b []map[int8]ext.E1) bool {
	return deriveEqualCStT12(CtxEqualT12{a}, CtxEqualT12{b})
}

func EqualCtxSlT12(a, b []map[int8]ext.E1) bool {
	return deriveEqualCSlT12([][]map[int8]ext.E1{a}, [][]map[int8]ext.E1{b})
}

func EqualCtxArT12(a, b []map[int8]ext.E1) bool {
	return deriveEqualCArT12([1][]map[int8]ext.E1{a}, [1][]map[int8]ext.E1{b})
}

func EqualCtxMaT12(a, b []map[int8]ext.E1) bool {
	return deriveEqualCMaT12(map[string][]map[int8]ext.E1{"k": a}, map[string][]map[int8]ext.E1{"k": b})
}

func EqualCtxPtT12(a, b []map[int8]ext.E1) bool {
	return deriveEqualCPtT12(&a, &b)
}

func EqualT13(a string, b string) bool {
	return deriveEqualT13(a, b)
}

func EqualcT13(a string, b string) bool {
	return deriveEqualCT13(a)(b)
}

type CtxEqualT13 struct{ F string }

func EqualCtxStT13(a, b string) bool {
	return deriveEqualCStT13(CtxEqualT13{a}, CtxEqualT13{b})
}

func EqualCtxSlT13(a, b string) bool {
	return deriveEqualCSlT13([]string{a}, []string{b})
}

func EqualCtxArT13(a, b string) bool {
	return deriveEqualCArT13([1]string{a}, [1]string{b})
}

func EqualCtxMaT13(a, b string) bool {
	return deriveEqualCMaT13(map[string]string{"k": a}, map[string]string{"k": b})
}

func EqualCtxPtT13(a, b string) bool {
	return deriveEqualCPtT13(&a, &b)
}
