package ext

type Num int

type Key struct {
	K0 uint8
}

type E0 struct {
	f0 map[Key]Num
	f1 uint32
	f2 Key
	f3 Num
}
