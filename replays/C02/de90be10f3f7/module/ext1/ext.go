package ext

type Num int

type Key struct {
	k0 Num
	K1 int
	k2 int32
}

type E0 struct {
	F0 map[Key]Num
	F1 int
	f2 []int
}

type E1 struct {
	f0 [1][]byte
}
