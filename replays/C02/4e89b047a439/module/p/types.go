package p

import (
	ext "subj/ext1"
	other "subj/x/other"
)

type MyC complex128

type MyRune rune

type N0 [0]other.Num

type K0 struct {
	f0 int32
}

func (a *K0) Equal(b *K0) bool {
	if a == nil || b == nil {
		return a == nil && b == nil
	}
	return a.f0 == b.f0
}

type K1 struct {
	f0 ext.Key
	f1 other.Key
	F2 K0
}

func (a *K1) Equal(b *K1) bool {
	if a == nil || b == nil {
		return a == nil && b == nil
	}
	return true
}

type S0 struct {
	F0 map[uintptr]rune
	F1 int
	f2 map[other.Num]rune
	K0
	*K1
	F5 other.E0
}

func (a S0) Equal(b S0) bool {
	return a.F1 == b.F1
}
