package p

import (
	ext "subj/ext1"
	other "subj/x/other"
)

var Anchor = 0

func EqualT0(a byte, b byte) bool {
	return deriveEqualT0(a, b)
}

func EqualcT0(a byte, b byte) bool {
	return deriveEqualCT0(a)(b)
}

type CtxEqualT0 struct{ F byte }

func EqualCtxStT0(a, b byte) bool {
	return deriveEqualCStT0(CtxEqualT0{a}, CtxEqualT0{b})
}

func EqualCtxSlT0(a, b byte) bool {
	return deriveEqualCSlT0([]byte{a}, []byte{b})
}

func EqualCtxArT0(a, b byte) bool {
	return deriveEqualCArT0([1]byte{a}, [1]byte{b})
}

func EqualCtxMaT0(a, b byte) bool {
	return deriveEqualCMaT0(map[string]byte{"k": a}, map[string]byte{"k": b})
}

func EqualCtxPtT0(a, b byte) bool {
	return deriveEqualCPtT0(&a, &b)
}

func EqualT1(a MyInt, b MyInt) bool {
	return deriveEqualT1(a, b)
}

func EqualcT1(a MyInt, b MyInt) bool {
	return deriveEqualCT1(a)(b)
}

type CtxEqualT1 struct{ F MyInt }

func EqualCtxStT1(a, b MyInt) bool {
	return deriveEqualCStT1(CtxEqualT1{a}, CtxEqualT1{b})
}

func EqualCtxSlT1(a, b MyInt) bool {
	return deriveEqualCSlT1([]MyInt{a}, []MyInt{b})
}

func EqualCtxArT1(a, b MyInt) bool {
	return deriveEqualCArT1([1]MyInt{a}, [1]MyInt{b})
}

func EqualCtxMaT1(a, b MyInt) bool {
	return deriveEqualCMaT1(map[string]MyInt{"k": a}, map[string]MyInt{"k": b})
}

func EqualCtxPtT1(a, b MyInt) bool {
	return deriveEqualCPtT1(&a, &b)
}

func EqualT2(a S0, b S0) bool {
	return deriveEqualT2(a, b)
}

func EqualcT2(a S0, b S0) bool {
	return deriveEqualCT2(a)(b)
}

type CtxEqualT2 struct{ F S0 }

func EqualCtxStT2(a, b S0) bool {
	return deriveEqualCStT2(CtxEqualT2{a}, CtxEqualT2{b})
}

func EqualCtxSlT2(a, b S0) bool {
	return deriveEqualCSlT2([]S0{a}, []S0{b})
}

func EqualCtxArT2(a, b S0) bool {
	return deriveEqualCArT2([1]S0{a}, [1]S0{b})
}

func EqualCtxMaT2(a, b S0) bool {
	return deriveEqualCMaT2(map[string]S0{"k": a}, map[string]S0{"k": b})
}

func EqualCtxPtT2(a, b S0) bool {
	return deriveEqualCPtT2(&a, &b)
}

func EqualT3(a ext.E0, b ext.E0) bool {
	return deriveEqualT3(a, b)
}

func EqualcT3(a ext.E0, b ext.E0) bool {
	return deriveEqualCT3(a)(b)
}

type CtxEqualT3 struct{ F ext.E0 }

func EqualCtxStT3(a, b ext.E0) bool {
	return deriveEqualCStT3(CtxEqualT3{a}, CtxEqualT3{b})
}

func EqualCtxSlT3(a, b ext.E0) bool {
	return deriveEqualCSlT3([]ext.E0{a}, []ext.E0{b})
}

func EqualCtxArT3(a, b ext.E0) bool {
	return deriveEqualCArT3([1]ext.E0{a}, [1]ext.E0{b})
}

func EqualCtxMaT3(a, b ext.E0) bool {
	return deriveEqualCMaT3(map[string]ext.E0{"k": a}, map[string]ext.E0{"k": b})
}

func EqualCtxPtT3(a, b ext.E0) bool {
	return deriveEqualCPtT3(&a, &b)
}

func EqualT4(a R, b R) bool {
	return deriveEqualT4(a, b)
}

func EqualcT4(a R, b R) bool {
	return deriveEqualCT4(a)(b)
}

type CtxEqualT4 struct{ F R }

func EqualCtxStT4(a, b R) bool {
	return deriveEqualCStT4(CtxEqualT4{a}, CtxEqualT4{b})
}

func EqualCtxSlT4(a, b R) bool {
	return deriveEqualCSlT4([]R{a}, []R{b})
}

func EqualCtxArT4(a, b R) bool {
	return deriveEqualCArT4([1]R{a}, [1]R{b})
}

func EqualCtxMaT4(a, b R) bool {
	return deriveEqualCMaT4(map[string]R{"k": a}, map[string]R{"k": b})
}

func EqualCtxPtT4(a, b R) bool {
	return deriveEqualCPtT4(&a, &b)
}

func EqualT5(a other.O0, b other.O0) bool {
	return deriveEqualT5(a, b)
}

func EqualcT5(a other.O0, b other.O0) bool {
	return deriveEqualCT5(a)(b)
}

type CtxEqualT5 struct{ F other.O0 }

func EqualCtxStT5(a, b other.O0) bool {
	return deriveEqualCStT5(CtxEqualT5{a}, CtxEqualT5{b})
}

func EqualCtxSlT5(a, b other.O0) bool {
	return deriveEqualCSlT5([]other.O0{a}, []other.O0{b})
}

func EqualCtxArT5(a, b other.O0) bool {
	return deriveEqualCArT5([1]other.O0{a}, [1]other.O0{b})
}

func EqualCtxMaT5(a, b other.O0) bool {
	return deriveEqualCMaT5(map[string]other.O0{"k": a}, map[string]other.O0{"k": b})
}

func EqualCtxPtT5(a, b other.O0) bool {
	return deriveEqualCPtT5(&a, &b)
}

func EqualT6(a *int, b *int) bool {
	return deriveEqualT6(a, b)
}

func EqualcT6(a *int, b *int) bool {
	return deriveEqualCT6(a)(b)
}

type CtxEqualT6 struct{ F *int }

func EqualCtxStT6(a, b *int) bool {
	return deriveEqualCStT6(CtxEqualT6{a}, CtxEqualT6{b})
}

func EqualCtxSlT6(a, b *int) bool {
	return deriveEqualCSlT6([]*int{a}, []*int{b})
}

func EqualCtxArT6(a, b *int) bool {
	return deriveEqualCArT6([1]*int{a}, [1]*int{b})
}

func EqualCtxMaT6(a, b *int) bool {
	return deriveEqualCMaT6(map[string]*int{"k": a}, map[string]*int{"k": b})
}

func EqualCtxPtT6(a, b *int) bool {
	return deriveEqualCPtT6(&a, &b)
}

func EqualT7(a []int, b []int) bool {
	return deriveEqualT7(a, b)
}

func EqualcT7(a []int, b []int) bool {
	return deriveEqualCT7(a)(b)
}

type CtxEqualT7 struct{ F []int }

func EqualCtxStT7(a, b []int) bool {
	return deriveEqualCStT7(CtxEqualT7{a}, CtxEqualT7{b})
}

func EqualCtxSlT7(a, b []int) bool {
	return deriveEqualCSlT7([][]int{a}, [][]int{b})
}

func EqualCtxArT7(a, b []int) bool {
	return deriveEqualCArT7([1][]int{a}, [1][]int{b})
}

func EqualCtxMaT7(a, b []int) bool {
	return deriveEqualCMaT7(map[string][]int{"k": a}, map[string][]int{"k": b})
}

func EqualCtxPtT7(a, b []int) bool {
	return deriveEqualCPtT7(&a, &b)
}

func EqualT8(a [2]int, b [2]int) bool {
	return deriveEqualT8(a, b)
}

func EqualcT8(a [2]int, b [2]int) bool {
	return deriveEqualCT8(a)(b)
}

type CtxEqualT8 struct{ F [2]int }

func EqualCtxStT8(a, b [2]int) bool {
	return deriveEqualCStT8(CtxEqualT8{a}, CtxEqualT8{b})
}

func EqualCtxSlT8(a, b [2]int) bool {
	return deriveEqualCSlT8([][2]int{a}, [][2]int{b})
}

func EqualCtxArT8(a, b [2]int) bool {
	return deriveEqualCArT8([1][2]int{a}, [1][2]int{b})
}

func EqualCtxMaT8(a, b [2]int) bool {
	return deriveEqualCMaT8(map[string][2]int{"k": a}, map[string][2]int{"k": b})
}

func EqualCtxPtT8(a, b [2]int) bool {
	return deriveEqualCPtT8(&a, &b)
}

func EqualT9(a map[string]int, b map[string]int) bool {
	return deriveEqualT9(a, b)
}

func EqualcT9(a map[string]int, b map[string]int) bool {
	return deriveEqualCT9(a)(b)
}

type CtxEqualT9 struct{ F map[string]int }

func EqualCtxStT9(a, b map[string]int) bool {
	return deriveEqualCStT9(CtxEqualT9{a}, CtxEqualT9{b})
}

func EqualCtxSlT9(a, b map[string]int) bool {
	return deriveEqualCSlT9([]map[string]int{a}, []map[string]int{b})
}

func EqualCtxArT9(a, b map[string]int) bool {
	return deriveEqualCArT9([1]map[string]int{a}, [1]map[string]int{b})
}

func EqualCtxMaT9(a, b map[string]int) bool {
	return deriveEqualCMaT9(map[string]map[string]int{"k": a}, map[string]map[string]int{"k": b})
}

func EqualCtxPtT9(a, b map[string]int) bool {
	return deriveEqualCPtT9(&a, &b)
}

func EqualT10(a map[K0]int, b map[K0]int) bool {
	return deriveEqualT10(a, b)
}

func EqualcT10(a map[K0]int, b map[K0]int) bool {
	return deriveEqualCT10(a)(b)
}

type CtxEqualT10 struct{ F map[K0]int }

func EqualCtxStT10(a, b map[K0]int) bool {
	return deriveEqualCStT10(CtxEqualT10{a}, CtxEqualT10{b})
}

func EqualCtxSlT10(a, b map[K0]int) bool {
	return deriveEqualCSlT10([]map[K0]int{a}, []map[K0]int{b})
}

func EqualCtxArT10(a, b map[K0]int) bool {
	return deriveEqualCArT10([1]map[K0]int{a}, [1]map[K0]int{b})
}

func EqualCtxMaT10(a, b map[K0]int) bool {
	return deriveEqualCMaT10(map[string]map[K0]int{"k": a}, map[string]map[K0]int{"k": b})
}

func EqualCtxPtT10(a, b map[K0]int) bool {
	return deriveEqualCPtT10(&a, &b)
}

func EqualT11(a *string, b *string) bool {
	return deriveEqualT11(a, b)
}

func EqualcT11(a *string, b *string) bool {
	return deriveEqualCT11(a)(b)
}

type CtxEqualT11 struct{ F *string }

func EqualCtxStT11(a, b *string) bool {
	return deriveEqualCStT11(CtxEqualT11{a}, CtxEqualT11{b})
}

func EqualCtxSlT11(a, b *string) bool {
	return deriveEqualCSlT11([]*string{a}, []*string{b})
}

func EqualCtxArT11(a, b *string) bool {
	return deriveEqualCArT11([1]*string{a}, [1]*string{b})
}

func EqualCtxMaT11(a, b *string) bool {
	return deriveEqualCMaT11(map[string]*string{"k": a}, map[string]*string{"k": b})
}

func EqualCtxPtT11(a, b *string) bool {
	return deriveEqualCPtT11(&a, &b)
}

func EqualT12(a []string, b []string) bool {
	return deriveEqualT12(a, b)
}

func EqualcT12(a []string, b []string) bool {
	return deriveEqualCT12(a)(b)
}

type CtxEqualT12 struct{ F []string }

func EqualCtxStT12(a, b []string) bool {
	return deriveEqualCStT12(CtxEqualT12{a}, CtxEqualT12{b})
}

func EqualCtxSlT12(a, b []string) bool {
	return deriveEqualCSlT12([][]string{a}, [][]string{b})
}

func EqualCtxArT12(a, b []string) bool {
	return deriveEqualCArT12([1][]string{a}, [1][]string{b})
}

func EqualCtxMaT12(a, b []string) bool {
	return deriveEqualCMaT12(map[string][]string{"k": a}, map[string][]string{"k": b})
}

func EqualCtxPtT12(a, b []string) bool {
	return deriveEqualCPtT12(&a, &b)
}

func EqualT13(a [2]string, b [2]string) bool {
	return deriveEqualT13(a, b)
}

func EqualcT13(a [2]string, b [2]string) bool {
	return deriveEqualCT13(a)(b)
}

type CtxEqualT13 struct{ F [2]string }

func EqualCtxStT13(a, b [2]string) bool {
	return deriveEqualCStT13(CtxEqualT13{a}, CtxEqualT13{b})
}

func EqualCtxSlT13(a, b [2]string) bool {
	return deriveEqualCSlT13([][2]string{a}, [][2]string{b})
}

func EqualCtxArT13(a, b [2]string) bool {
	return deriveEqualCArT13([1][2]string{a}, [1][2]string{b})
}

func EqualCtxMaT13(a, b [2]string) bool {
	return deriveEqualCMaT13(map[string][2]string{"k": a}, map[string][2]string{"k": b})
}

func EqualCtxPtT13(a, b [2]string) bool {
	return deriveEqualCPtT13(&a, &b)
}
