package other

type Num int

type Key struct {
	K0 bool
	K1 bool
	k2 int
}

type E0 struct {
}

type E1 struct {
	f0 [0]int
	F1 [2]Num
	f2 int16
	f3 map[Key]float32
}
