package ext

type Num int64

type Key struct {
	K0 bool
}

type E0 struct {
	f0 rune
	f1 bool
	F2 *E0
}
