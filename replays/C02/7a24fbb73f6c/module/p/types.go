package p

import (
	ext "subj/ext1"
	other "subj/x/other"
)

type MyInt int

type MyF float64

type N0 []uint

type N1 [2]int

type N2 *other.Num

type K0 struct {
	F0 complex128
	F1 byte
}

type S0 struct {
	F0 []other.Num
	F1 N0
	F2 other.E0
	f3 map[uint16]bool
	F4 other.E0
}

type S1 struct {
	f0 *map[ext.Num]S1
	F1 N2
}
