package p

import (
	ext "subj/ext1"
	other "subj/x/other"
)

var Anchor = 0

func EqualT0(a *K0, b *K0) bool {
	return deriveEqualT0(a, b)
}

func EqualcT0(a *K0, b *K0) bool {
	return deriveEqualCT0(a)(b)
}

type CtxEqualT0 struct{ F *K0 }

func EqualCtxStT0(a, b *K0) bool {
	return deriveEqualCStT0(CtxEqualT0{a}, CtxEqualT0{b})
}

func EqualCtxSlT0(a, b *K0) bool {
	return deriveEqualCSlT0([]*K0{a}, []*K0{b})
}

func EqualCtxArT0(a, b *K0) bool {
	return deriveEqualCArT0([1]*K0{a}, [1]*K0{b})
}

func EqualCtxMaT0(a, b *K0) bool {
	return deriveEqualCMaT0(map[string]*K0{"k": a}, map[string]*K0{"k": b})
}

func EqualCtxPtT0(a, b *K0) bool {
	return deriveEqualCPtT0(&a, &b)
}

func EqualT1(a S0, b S0) bool {
	return deriveEqualT1(a, b)
}

func EqualcT1(a S0, b S0) bool {
	return deriveEqualCT1(a)(b)
}

type CtxEqualT1 struct{ F S0 }

func EqualCtxStT1(a, b S0) bool {
	return deriveEqualCStT1(CtxEqualT1{a}, CtxEqualT1{b})
}

func EqualCtxSlT1(a, b S0) bool {
	return deriveEqualCSlT1([]S0{a}, []S0{b})
}

func EqualCtxArT1(a, b S0) bool {
	return deriveEqualCArT1([1]S0{a}, [1]S0{b})
}

func EqualCtxMaT1(a, b S0) bool {
	return deriveEqualCMaT1(map[string]S0{"k": a}, map[string]S0{"k": b})
}

func EqualCtxPtT1(a, b S0) bool {
	return deriveEqualCPtT1(&a, &b)
}

func EqualT2(a rune, b rune) bool {
	return deriveEqualT2(a, b)
}

func EqualcT2(a rune, b rune) bool {
	return deriveEqualCT2(a)(b)
}

type CtxEqualT2 struct{ F rune }

func EqualCtxStT2(a, b rune) bool {
	return deriveEqualCStT2(CtxEqualT2{a}, CtxEqualT2{b})
}

func EqualCtxSlT2(a, b rune) bool {
	return deriveEqualCSlT2([]rune{a}, []rune{b})
}

func EqualCtxArT2(a, b rune) bool {
	return deriveEqualCArT2([1]rune{a}, [1]rune{b})
}

func EqualCtxMaT2(a, b rune) bool {
	return deriveEqualCMaT2(map[string]rune{"k": a}, map[string]rune{"k": b})
}

func EqualCtxPtT2(a, b rune) bool {
	return deriveEqualCPtT2(&a, &b)
}

func EqualT3(a other.E1, b other.E1) bool {
	return deriveEqualT3(a, b)
}

func EqualcT3(a other.E1, b other.E1) bool {
	return deriveEqualCT3(a)(b)
}

type CtxEqualT3 struct{ F other.E1 }

func EqualCtxStT3(a, b other.E1) bool {
	return deriveEqualCStT3(CtxEqualT3{a}, CtxEqualT3{b})
}

func EqualCtxSlT3(a, b other.E1) bool {
	return deriveEqualCSlT3([]other.E1{a}, []other.E1{b})
}

func EqualCtxArT3(a, b other.E1) bool {
	return deriveEqualCArT3([1]other.E1{a}, [1]other.E1{b})
}

func EqualCtxMaT3(a, b other.E1) bool {
	return deriveEqualCMaT3(map[string]other.E1{"k": a}, map[string]other.E1{"k": b})
}

func EqualCtxPtT3(a, b other.E1) bool {
	return deriveEqualCPtT3(&a, &b)
}

func EqualT4(a []S1, b []S1) bool {
	return deriveEqualT4(a, b)
}

func EqualcT4(a []S1, b []S1) bool {
	return deriveEqualCT4(a)(b)
}

type CtxEqualT4 struct{ F []S1 }

func EqualCtxStT4(a, b []S1) bool {
	return deriveEqualCStT4(CtxEqualT4{a}, CtxEqualT4{b})
}

func EqualCtxSlT4(a, b []S1) bool {
	return deriveEqualCSlT4([][]S1{a}, [][]S1{b})
}

func EqualCtxArT4(a, b []S1) bool {
	return deriveEqualCArT4([1][]S1{a}, [1][]S1{b})
}

func EqualCtxMaT4(a, b []S1) bool {
	return deriveEqualCMaT4(map[string][]S1{"k": a}, map[string][]S1{"k": b})
}

func EqualCtxPtT4(a, b []S1) bool {
	return deriveEqualCPtT4(&a, &b)
}

func EqualT5(a byte, b byte) bool {
	return deriveEqualT5(a, b)
}

func EqualcT5(a byte, b byte) bool {
	return deriveEqualCT5(a)(b)
}

type CtxEqualT5 struct{ F byte }

func EqualCtxStT5(a, b byte) bool {
	return deriveEqualCStT5(CtxEqualT5{a}, CtxEqualT5{b})
}

func EqualCtxSlT5(a, b byte) bool {
	return deriveEqualCSlT5([]byte{a}, []byte{b})
}

func EqualCtxArT5(a, b byte) bool {
	return deriveEqualCArT5([1]byte{a}, [1]byte{b})
}

func EqualCtxMaT5(a, b byte) bool {
	return deriveEqualCMaT5(map[string]byte{"k": a}, map[string]byte{"k": b})
}

func EqualCtxPtT5(a, b byte) bool {
	return deriveEqualCPtT5(&a, &b)
}

func EqualT6(a map[bool]S0, b map[bool]S0) bool {
	return deriveEqualT6(a, b)
}

func EqualcT6(a map[bool]S0, b map[bool]S0) bool {
	return deriveEqualCT6(a)(b)
}

type CtxEqualT6 struct{ F map[bool]S0 }

func EqualCtxStT6(a, b map[bool]S0) bool {
	return deriveEqualCStT6(CtxEqualT6{a}, CtxEqualT6{b})
}

func EqualCtxSlT6(a, b map[bool]S0) bool {
	return deriveEqualCSlT6([]map[bool]S0{a}, []map[bool]S0{b})
}

func EqualCtxArT6(a, b map[bool]S0) bool {
	return deriveEqualCArT6([1]map[bool]S0{a}, [1]map[bool]S0{b})
}

func EqualCtxMaT6(a, b map[bool]S0) bool {
	return deriveEqualCMaT6(map[string]map[bool]S0{"k": a}, map[string]map[bool]S0{"k": b})
}

func EqualCtxPtT6(a, b map[bool]S0) bool {
	return deriveEqualCPtT6(&a, &b)
}

func EqualT7(a N2, b N2) bool {
	return deriveEqualT7(a, b)
}

func EqualcT7(a N2, b N2) bool {
	return deriveEqualCT7(a)(b)
}

type CtxEqualT7 struct{ F N2 }

func EqualCtxStT7(a, b N2) bool {
	return deriveEqualCStT7(CtxEqualT7{a}, CtxEqualT7{b})
}

func EqualCtxSlT7(a, b N2) bool {
	return deriveEqualCSlT7([]N2{a}, []N2{b})
}

func EqualCtxArT7(a, b N2) bool {
	return deriveEqualCArT7([1]N2{a}, [1]N2{b})
}

func EqualCtxMaT7(a, b N2) bool {
	return deriveEqualCMaT7(map[string]N2{"k": a}, map[string]N2{"k": b})
}

func EqualCtxPtT7(a, b N2) bool {
	return deriveEqualCPtT7(&a, &b)
}

func EqualT8(a ext.Num, b ext.Num) bool {
	return deriveEqualT8(a, b)
}

func EqualcT8(a ext.Num, b ext.Num) bool {
	return deriveEqualCT8(a)(b)
}

type CtxEqualT8 struct{ F ext.Num }

func EqualCtxStT8(a, b ext.Num) bool {
	return deriveEqualCStT8(CtxEqualT8{a}, CtxEqualT8{b})
}

func EqualCtxSlT8(a, b ext.Num) bool {
	return deriveEqualCSlT8([]ext.Num{a}, []ext.Num{b})
}

func EqualCtxArT8(a, b ext.Num) bool {
	return deriveEqualCArT8([1]ext.Num{a}, [1]ext.Num{b})
}

func EqualCtxMaT8(a, b ext.Num) bool {
	return deriveEqualCMaT8(map[string]ext.Num{"k": a}, map[string]ext.Num{"k": b})
}

func EqualCtxPtT8(a, b ext.Num) bool {
	return deriveEqualCPtT8(&a, &b)
}

func EqualT9(a map[ext.Num]K0, b map[ext.Num]K0) bool {
	return deriveEqualT9(a, b)
}

func EqualcT9(a map[ext.Num]K0, b map[ext.Num]K0) bool {
	return deriveEqualCT9(a)(b)
}

type CtxEqualT9 struct{ F map[ext.Num]K0 }

func EqualCtxStT9(a, b map[ext.Num]K0) bool {
	return deriveEqualCStT9(CtxEqualT9{a}, CtxEqualT9{b})
}

func EqualCtxSlT9(a, b map[ext.Num]K0) bool {
	return deriveEqualCSlT9([]map[ext.Num]K0{a}, []map[ext.Num]K0{b})
}

func EqualCtxArT9(a, b map[ext.Num]K0) bool {
	return deriveEqualCArT9([1]map[ext.Num]K0{a}, [1]map[ext.Num]K0{b})
}

func EqualCtxMaT9(a, b map[ext.Num]K0) bool {
	return deriveEqualCMaT9(map[string]map[ext.Num]K0{"k": a}, map[string]map[ext.Num]K0{"k": b})
}

func EqualCtxPtT9(a, b map[ext.Num]K0) bool {
	return deriveEqualCPtT9(&a, &b)
}

func EqualT10(a N1, b N1) bool {
	return deriveEqualT10(a, b)
}

func EqualcT10(a N1, b N1) bool {
	return deriveEqualCT10(a)(b)
}

type CtxEqualT10 struct{ F N1 }

func EqualCtxStT10(a, b N1) bool {
	return deriveEqualCStT10(CtxEqualT10{a}, CtxEqualT10{b})
}

func EqualCtxSlT10(a, b N1) bool {
	return deriveEqualCSlT10([]N1{a}, []N1{b})
}

func EqualCtxArT10(a, b N1) bool {
	return deriveEqualCArT10([1]N1{a}, [1]N1{b})
}

func EqualCtxMaT10(a, b N1) bool {
	return deriveEqualCMaT10(map[string]N1{"k": a}, map[string]N1{"k": b})
}

func EqualCtxPtT10(a, b N1) bool {
	return deriveEqualCPtT10(&a, &b)
}

func EqualT11(a int8, b int8) bool {
	return deriveEqualT11(a, b)
}

func EqualcT11(a int8, b int8) bool {
	return deriveEqualCT11(a)(b)
}

type CtxEqualT11 struct{ F int8 }

func EqualCtxStT11(a, b int8) bool {
	return deriveEqualCStT11(CtxEqualT11{a}, CtxEqualT11{b})
}

func EqualCtxSlT11(a, b int8) bool {
	return deriveEqualCSlT11([]int8{a}, []int8{b})
}

func EqualCtxArT11(a, b int8) bool {
	return deriveEqualCArT11([1]int8{a}, [1]int8{b})
}

func EqualCtxMaT11(a, b int8) bool {
	return deriveEqualCMaT11(map[string]int8{"k": a}, map[string]int8{"k": b})
}

func EqualCtxPtT11(a, b int8) bool {
	return deriveEqualCPtT11(&a, &b)
}

func EqualT12(a map[[0]other.Key]complex128, b map[[0]other.Key]complex128) bool {
	return deriveEqualT12(a, b)
}

func EqualcT12(a map[[0]other.Key]complex128, b map[[0]other.Key]complex128) bool {
	return deriveEqualCT12(a)(b)
}

type CtxEqualT12 struct{ F map[[0]other.Key]complex128 }

func EqualCtxStT12(a, b map[[0]other.Key]complex128) bool {
	return deriveEqualCStT12(CtxEqualT12{a}, CtxEqualT12{b})
}

func EqualCtxSlT12(a, b map[[0]other.Key]complex128) bool {
	return deriveEqualCSlT12([]map[[0]other.Key]complex128{a}, []map[[0]other.Key]complex128{b})
}

func EqualCtxArT12(a, b map[[0]other.Key]complex128) bool {
	return deriveEqualCArT12([1]map[[0]other.Key]complex128{a}, [1]map[[0]other.Key]complex128{b})
}

func EqualCtxMaT12(a, b map[[0]other.Key]complex128) bool {
	return deriveEqualCMaT12(map[string]map[[0]other.Key]complex128{"k": a}, map[string]map[[0]other.Key]complex128{"k": b})
}

func EqualCtxPtT12(a, b map[[0]other.Key]complex128) bool {
	return deriveEqualCPtT12(&a, &b)
}

func EqualcT13(a []byte, b []byte) bool {
	return deriveEqualCT13(a)(b)
}

type CtxEqualT13 struct{ F []byte }

func EqualCtxStT13(a, b []byte) bool {
	return deriveEqualCStT13(CtxEqualT13{a}, CtxEqualT13{b})
}

func EqualCtxSlT13(a, b []byte) bool {
	return deriveEqualCSlT13([][]byte{a}, [][]byte{b})
}

func EqualCtxArT13(a, b []byte) bool {
	return deriveEqualCArT13([1][]byte{a}, [1][]byte{b})
}

func EqualCtxMaT13(a, b []byte) bool {
	return deriveEqualCMaT13(map[string][]byte{"k": a}, map[string][]byte{"k": b})
}

func EqualCtxPtT13(a, b []byte) bool {
	return deriveEqualCPtT13(&a, &b)
}
