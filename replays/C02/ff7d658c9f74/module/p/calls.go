package p

import (
	ext2 "subj/x/ext"
)

var Anchor = 0

func EqualT0(a K0, b K0) bool {
	return deriveEqualT0(a, b)
}

func EqualcT0(a K0, b K0) bool {
	return deriveEqualCT0(a)(b)
}

type CtxEqualT0 struct{ F K0 }

func EqualCtxStT0(a, b K0) bool {
	return deriveEqualCStT0(CtxEqualT0{a}, CtxEqualT0{b})
}

func EqualCtxSlT0(a, b K0) bool {
	return deriveEqualCSlT0([]K0{a}, []K0{b})
}

func EqualCtxArT0(a, b K0) bool {
	return deriveEqualCArT0([1]K0{a}, [1]K0{b})
}

func EqualCtxMaT0(a, b K0) bool {
	return deriveEqualCMaT0(map[string]K0{"k": a}, map[string]K0{"k": b})
}

func EqualCtxPtT0(a, b K0) bool {
	return deriveEqualCPtT0(&a, &b)
}

func EqualT1(a map[int]S1, b map[int]S1) bool {
	return deriveEqualT1(a, b)
}

func EqualcT1(a map[int]S1, b map[int]S1) bool {
	return deriveEqualCT1(a)(b)
}

type CtxEqualT1 struct{ F map[int]S1 }

func EqualCtxStT1(a, b map[int]S1) bool {
	return deriveEqualCStT1(CtxEqualT1{a}, CtxEqualT1{b})
}

func EqualCtxSlT1(a, b map[int]S1) bool {
	return deriveEqualCSlT1([]map[int]S1{a}, []map[int]S1{b})
}

func EqualCtxArT1(a, b map[int]S1) bool {
	return deriveEqualCArT1([1]map[int]S1{a}, [1]map[int]S1{b})
}

func EqualCtxMaT1(a, b map[int]S1) bool {
	return deriveEqualCMaT1(map[string]map[int]S1{"k": a}, map[string]map[int]S1{"k": b})
}

func EqualCtxPtT1(a, b map[int]S1) bool {
	return deriveEqualCPtT1(&a, &b)
}

func EqualT2(a []ext2.Key, b []ext2.Key) bool {
	return deriveEqualT2(a, b)
}

func EqualcT2(a []ext2.Key, b []ext2.Key) bool {
	return deriveEqualCT2(a)(b)
}

type CtxEqualT2 struct{ F []ext2.Key }

func EqualCtxStT2(a, b []ext2.Key) bool {
	return deriveEqualCStT2(CtxEqualT2{a}, CtxEqualT2{b})
}

func EqualCtxSlT2(a, b []ext2.Key) bool {
	return deriveEqualCSlT2([][]ext2.Key{a}, [][]ext2.Key{b})
}

func EqualCtxArT2(a, b []ext2.Key) bool {
	return deriveEqualCArT2([1][]ext2.Key{a}, [1][]ext2.Key{b})
}

func EqualCtxMaT2(a, b []ext2.Key) bool {
	return deriveEqualCMaT2(map[string][]ext2.Key{"k": a}, map[string][]ext2.Key{"k": b})
}

func EqualCtxPtT2(a, b []ext2.Key) bool {
	return deriveEqualCPtT2(&a, &b)
}

func EqualT3(a *S2, b *S2) bool {
	return deriveEqualT3(a, b)
}

func EqualcT3(a *S2, b *S2) bool {
	return deriveEqualCT3(a)(b)
}

type CtxEqualT3 struct{ F *S2 }

func EqualCtxStT3(a, b *S2) bool {
	return deriveEqualCStT3(CtxEqualT3{a}, CtxEqualT3{b})
}

func EqualCtxSlT3(a, b *S2) bool {
	return deriveEqualCSlT3([]*S2{a}, []*S2{b})
}

func EqualCtxArT3(a, b *S2) bool {
	return deriveEqualCArT3([1]*S2{a}, [1]*S2{b})
}

func EqualCtxMaT3(a, b *S2) bool {
	return deriveEqualCMaT3(map[string]*S2{"k": a}, map[string]*S2{"k": b})
}

func EqualCtxPtT3(a, b *S2) bool {
	return deriveEqualCPtT3(&a, &b)
}

func EqualT4(a S3, b S3) bool {
	return deriveEqualT4(a, b)
}

func EqualcT4(a S3, b S3) bool {
	return deriveEqualCT4(a)(b)
}

type CtxEqualT4 struct{ F S3 }

func EqualCtxStT4(a, b S3) bool {
	return deriveEqualCStT4(CtxEqualT4{a}, CtxEqualT4{b})
}

func EqualCtxSlT4(a, b S3) bool {
	return deriveEqualCSlT4([]S3{a}, []S3{b})
}

func EqualCtxArT4(a, b S3) bool {
	return deriveEqualCArT4([1]S3{a}, [1]S3{b})
}

func EqualCtxMaT4(a, b S3) bool {
	return deriveEqualCMaT4(map[string]S3{"k": a}, map[string]S3{"k": b})
}

func EqualCtxPtT4(a, b S3) bool {
	return deriveEqualCPtT4(&a, &b)
}

func EqualT5(a S4, b S4) bool {
	return deriveEqualT5(a, b)
}

func EqualcT5(a S4, b S4) bool {
	return deriveEqualCT5(a)(b)
}

type CtxEqualT5 struct{ F S4 }

func EqualCtxStT5(a, b S4) bool {
	return deriveEqualCStT5(CtxEqualT5{a}, CtxEqualT5{b})
}

func EqualCtxSlT5(a, b S4) bool {
	return deriveEqualCSlT5([]S4{a}, []S4{b})
}

func EqualCtxArT5(a, b S4) bool {
	return deriveEqualCArT5([1]S4{a}, [1]S4{b})
}

func EqualCtxMaT5(a, b S4) bool {
	return deriveEqualCMaT5(map[string]S4{"k": a}, map[string]S4{"k": b})
}

func EqualCtxPtT5(a, b S4) bool {
	return deriveEqualCPtT5(&a, &b)
}

func EqualT6(a *string, b *string) bool {
	return deriveEqualT6(a, b)
}

func EqualcT6(a *string, b *string) bool {
	return deriveEqualCT6(a)(b)
}

type CtxEqualT6 struct{ F *string }

func EqualCtxStT6(a, b *string) bool {
	return deriveEqualCStT6(CtxEqualT6{a}, CtxEqualT6{b})
}

func EqualCtxSlT6(a, b *string) bool {
	return deriveEqualCSlT6([]*string{a}, []*string{b})
}

func EqualCtxArT6(a, b *string) bool {
	return deriveEqualCArT6([1]*string{a}, [1]*string{b})
}

func EqualCtxMaT6(a, b *string) bool {
	return deriveEqualCMaT6(map[string]*string{"k": a}, map[string]*string{"k": b})
}

func EqualCtxPtT6(a, b *string) bool {
	return deriveEqualCPtT6(&a, &b)
}

func EqualcT7(a []S4, b []S4) bool {
	return deriveEqualCT7(a)(b)
}

type CtxEqualT7 struct{ F []S4 }

func EqualCtxStT7(a, b []S4) bool {
	return deriveEqualCStT7(CtxEqualT7{a}, CtxEqualT7{b})
}

func EqualCtxSlT7(a, b []S4) bool {
	return deriveEqualCSlT7([][]S4{a}, [][]S4{b})
}

func EqualCtxArT7(a, b []S4) bool {
	return deriveEqualCArT7([1][]S4{a}, [1][]S4{b})
}

func EqualCtxMaT7(a, b []S4) bool {
	return deriveEqualCMaT7(map[string][]S4{"k": a}, map[string][]S4{"k": b})
}

func EqualCtxPtT7(a, b []S4) bool {
	return deriveEqualCPtT7(&a, &b)
}

func EqualT8(a map[int64]float32, b map[int64]float32) bool {
	return deriveEqualT8(a, b)
}

func EqualcT8(a map[int64]float32, b map[int64]float32) bool {
	return deriveEqualCT8(a)(b)
}

type CtxEqualT8 struct{ F map[int64]float32 }

func EqualCtxStT8(a, b map[int64]float32) bool {
	return deriveEqualCStT8(CtxEqualT8{a}, CtxEqualT8{b})
}

func EqualCtxSlT8(a, b map[int64]float32) bool {
	return deriveEqualCSlT8([]map[int64]float32{a}, []map[int64]float32{b})
}

func EqualCtxArT8(a, b map[int64]float32) bool {
	return deriveEqualCArT8([1]map[int64]float32{a}, [1]map[int64]float32{b})
}

func EqualCtxMaT8(a, b map[int64]float32) bool {
	return deriveEqualCMaT8(map[string]map[int64]float32{"k": a}, map[string]map[int64]float32{"k": b})
}

func EqualCtxPtT8(a, b map[int64]float32) bool {
	return deriveEqualCPtT8(&a, &b)
}

func EqualT9(a string, b string) bool {
	return deriveEqualT9(a, b)
}

func EqualcT9(a string, b string) bool {
	return deriveEqualCT9(a)(b)
}

type CtxEqualT9 struct{ F string }

func EqualCtxStT9(a, b string) bool {
	return deriveEqualCStT9(CtxEqualT9{a}, CtxEqualT9{b})
}

func EqualCtxSlT9(a, b string) bool {
	return deriveEqualCSlT9([]string{a}, []string{b})
}

func EqualCtxArT9(a, b string) bool {
	return deriveEqualCArT9([1]string{a}, [1]string{b})
}

func EqualCtxMaT9(a, b string) bool {
	return deriveEqualCMaT9(map[string]string{"k": a}, map[string]string{"k": b})
}

func EqualT10(a complex128, b complex128) bool {
	return deriveEqualT10(a, b)
}

func EqualcT10(a complex128, b complex128) bool {
	return deriveEqualCT10(a)(b)
}

type CtxEqualT10 struct{ F complex128 }

func EqualCtxStT10(a, b complex128) bool {
	return deriveEqualCStT10(CtxEqualT10{a}, CtxEqualT10{b})
}

func EqualCtxSlT10(a, b complex128) bool {
	return deriveEqualCSlT10([]complex128{a}, []complex128{b})
}

func EqualCtxArT10(a, b complex128) bool {
	return deriveEqualCArT10([1]complex128{a}, [1]complex128{b})
}

func EqualCtxMaT10(a, b complex128) bool {
	return deriveEqualCMaT10(map[string]complex128{"k": a}, map[string]complex128{"k": b})
}

func EqualCtxPtT10(a, b complex128) bool {
	return deriveEqualCPtT10(&a, &b)
}

func EqualT11(a []byte, b []byte) bool {
	return deriveEqualT11(a, b)
}

func EqualcT11(a []byte, b []byte) bool {
	return deriveEqualCT11(a)(b)
}

type CtxEqualT11 struct{ F []byte }

func EqualCtxStT11(a, b []byte) bool {
	return deriveEqualCStT11(CtxEqualT11{a}, CtxEqualT11{b})
}

func EqualCtxSlT11(a, b []byte) bool {
	return deriveEqualCSlT11([][]byte{a}, [][]byte{b})
}

func EqualCtxArT11(a, b []byte) bool {
	return deriveEqualCArT11([1][]byte{a}, [1][]byte{b})
}

func EqualCtxMaT11(a, b []byte) bool {
	return deriveEqualCMaT11(map[string][]byte{"k": a}, map[string][]byte{"k": b})
}

func EqualCtxPtT11(a, b []byte) bool {
	return deriveEqualCPtT11(&a, &b)
}

func EqualT12(a *uint, b *uint) bool {
	return deriveEqualT12(a, b)
}

func EqualcT12(a *uint, b *uint) bool {
	return deriveEqualCT12(a)(b)
}

type CtxEqualT12 struct{ F *uint }

func EqualCtxStT12(a, b *uint) bool {
	return deriveEqualCStT12(CtxEqualT12{a}, CtxEqualT12{b})
}

func EqualCtxSlT12(a, b *uint) bool {
	return deriveEqualCSlT12([]*uint{a}, []*uint{b})
}

func EqualCtxArT12(a, b *uint) bool {
	return deriveEqualCArT12([1]*uint{a}, [1]*uint{b})
}

func EqualCtxMaT12(a, b *uint) bool {
	return deriveEqualCMaT12(map[string]*uint{"k": a}, map[string]*uint{"k": b})
}

func EqualCtxPtT12(a, b *uint) bool {
	return deriveEqualCPtT12(&a, &b)
}

func EqualT13(a map[uint8]uint32, b map[uint8]uint32) bool {
	return deriveEqualT13(a, b)
}

func EqualcT13(a map[uint8]uint32, b map[uint8]uint32) bool {
	return deriveEqualCT13(a)(b)
}

type CtxEqualT13 struct{ F map[uint8]uint32 }

func EqualCtxStT13(a, b map[uint8]uint32) bool {
	return deriveEqualCStT13(CtxEqualT13{a}, CtxEqualT13{b})
}

func EqualCtxSlT13(a, b map[uint8]uint32) bool {
	return deriveEqualCSlT13([]map[uint8]uint32{a}, []map[uint8]uint32{b})
}

func EqualCtxArT13(a, b map[uint8]uint32) bool {
	return deriveEqualCArT13([1]map[uint8]uint32{a}, [1]map[uint8]uint32{b})
}

func EqualCtxMaT13(a, b map[uint8]uint32) bool {
	return deriveEqualCMaT13(map[string]map[uint8]uint32{"k": a}, map[string]map[uint8]uint32{"k": b})
}

func EqualCtxPtT13(a, b map[uint8]uint32) bool {
	return deriveEqualCPtT13(&a, &b)
}
