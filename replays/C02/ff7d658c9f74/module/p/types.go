package p

import (
	ext "subj/ext1"
)

type MyF float64

type MyI64 int64

type MyU uint

type MyBool bool

type K0 struct {
	F0 rune
	F1 uint
}

type S0 struct {
	f0 string
	K0
	f2 [0]ext.Num
	f3 map[uint16]ext.Num
}

func (a S0) Equal(b S0) bool {
	return a.f0 == b.f0
}

type S1 struct {
	F0 ext.Num
}

type S2 struct {
	f0 K0
	K0
	F2 map[bool][]map[complex128]rune
	f3 map[uint16]MyF
	F4 [2]map[K0]int64
}

func (a S2) Equal(b S2) bool {
	return true
}

type S3 struct {
	S0
}

func (a S3) Equal(b S3) bool {
	return true
}

type S4 struct {
	F0 *ext.E1
}
