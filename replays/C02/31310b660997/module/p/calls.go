package p

import (
	ext "subj/ext1"
)

var Anchor = 0

func EqualT0(a map[MyU]N0, b map[MyU]N0) bool {
	return deriveEqualT0(a, b)
}

func EqualcT0(a map[MyU]N0, b map[MyU]N0) bool {
	return deriveEqualCT0(a)(b)
}

type CtxEqualT0 struct{ F map[MyU]N0 }

func EqualCtxStT0(a, b map[MyU]N0) bool {
	return deriveEqualCStT0(CtxEqualT0{a}, CtxEqualT0{b})
}

func EqualCtxSlT0(a, b map[MyU]N0) bool {
	return deriveEqualCSlT0([]map[MyU]N0{a}, []map[MyU]N0{b})
}

func EqualCtxArT0(a, b map[MyU]N0) bool {
	return deriveEqualCArT0([1]map[MyU]N0{a}, [1]map[MyU]N0{b})
}

func EqualCtxMaT0(a, b map[MyU]N0) bool {
	return deriveEqualCMaT0(map[string]map[MyU]N0{"k": a}, map[string]map[MyU]N0{"k": b})
}

func EqualCtxPtT0(a, b map[MyU]N0) bool {
	return deriveEqualCPtT0(&a, &b)
}

func EqualT1(a MyU, b MyU) bool {
	return deriveEqualT1(a, b)
}

func EqualcT1(a MyU, b MyU) bool {
	return deriveEqualCT1(a)(b)
}

type CtxEqualT1 struct{ F MyU }

func EqualCtxStT1(a, b MyU) bool {
	return deriveEqualCStT1(CtxEqualT1{a}, CtxEqualT1{b})
}

func EqualCtxSlT1(a, b MyU) bool {
	return deriveEqualCSlT1([]MyU{a}, []MyU{b})
}

func EqualCtxArT1(a, b MyU) bool {
	return deriveEqualCArT1([1]MyU{a}, [1]MyU{b})
}

func EqualCtxMaT1(a, b MyU) bool {
	return deriveEqualCMaT1(map[string]MyU{"k": a}, map[string]MyU{"k": b})
}

func EqualCtxPtT1(a, b MyU) bool {
	return deriveEqualCPtT1(&a, &b)
}

func EqualT2(a K0, b K0) bool {
	return deriveEqualT2(a, b)
}

func EqualcT2(a K0, b K0) bool {
	return deriveEqualCT2(a)(b)
}

type CtxEqualT2 struct{ F K0 }

func EqualCtxStT2(a, b K0) bool {
	return deriveEqualCStT2(CtxEqualT2{a}, CtxEqualT2{b})
}

func EqualCtxSlT2(a, b K0) bool {
	return deriveEqualCSlT2([]K0{a}, []K0{b})
}

func EqualCtxArT2(a, b K0) bool {
	return deriveEqualCArT2([1]K0{a}, [1]K0{b})
}

func EqualCtxMaT2(a, b K0) bool {
	return deriveEqualCMaT2(map[string]K0{"k": a}, map[string]K0{"k": b})
}

func EqualCtxPtT2(a, b K0) bool {
	return deriveEqualCPtT2(&a, &b)
}

func EqualT3(a N1, b N1) bool {
	return deriveEqualT3(a, b)
}

func EqualcT3(a N1, b N1) bool {
	return deriveEqualCT3(a)(b)
}

type CtxEqualT3 struct{ F N1 }

func EqualCtxStT3(a, b N1) bool {
	return deriveEqualCStT3(CtxEqualT3{a}, CtxEqualT3{b})
}

func EqualCtxSlT3(a, b N1) bool {
	return deriveEqualCSlT3([]N1{a}, []N1{b})
}

func EqualCtxArT3(a, b N1) bool {
	return deriveEqualCArT3([1]N1{a}, [1]N1{b})
}

func EqualCtxMaT3(a, b N1) bool {
	return deriveEqualCMaT3(map[string]N1{"k": a}, map[string]N1{"k": b})
}

func EqualCtxPtT3(a, b N1) bool {
	return deriveEqualCPtT3(&a, &b)
}

func EqualT4(a float64, b float64) bool {
	return deriveEqualT4(a, b)
}

func EqualcT4(a float64, b float64) bool {
	return deriveEqualCT4(a)(b)
}

type CtxEqualT4 struct{ F float64 }

func EqualCtxStT4(a, b float64) bool {
	return deriveEqualCStT4(CtxEqualT4{a}, CtxEqualT4{b})
}

func EqualCtxSlT4(a, b float64) bool {
	return deriveEqualCSlT4([]float64{a}, []float64{b})
}

func EqualCtxArT4(a, b float64) bool {
	return deriveEqualCArT4([1]float64{a}, [1]float64{b})
}

func EqualCtxMaT4(a, b float64) bool {
	return deriveEqualCMaT4(map[string]float64{"k": a}, map[string]float64{"k": b})
}

func EqualCtxPtT4(a, b float64) bool {
	return deriveEqualCPtT4(&a, &b)
}

func EqualT5(a map[complex128]uintptr, b map[complex128]uintptr) bool {
	return deriveEqualT5(a, b)
}

func EqualcT5(a map[complex128]uintptr, b map[complex128]uintptr) bool {
	return deriveEqualCT5(a)(b)
}

type CtxEqualT5 struct{ F map[complex128]uintptr }

func EqualCtxStT5(a, b map[complex128]uintptr) bool {
	return deriveEqualCStT5(CtxEqualT5{a}, CtxEqualT5{b})
}

func EqualCtxSlT5(a, b map[complex128]uintptr) bool {
	return deriveEqualCSlT5([]map[complex128]uintptr{a}, []map[complex128]uintptr{b})
}

func EqualCtxArT5(a, b map[complex128]uintptr) bool {
	return deriveEqualCArT5([1]map[complex128]uintptr{a}, [1]map[complex128]uintptr{b})
}

func EqualCtxMaT5(a, b map[complex128]uintptr) bool {
	return deriveEqualCMaT5(map[string]map[complex128]uintptr{"k": a}, map[string]map[complex128]uintptr{"k": b})
}

func EqualCtxPtT5(a, b map[complex128]uintptr) bool {
	return deriveEqualCPtT5(&a, &b)
}

func EqualT6(a S0, b S0) bool {
	return deriveEqualT6(a, b)
}

func EqualcT6(a S0, b S0) bool {
	return deriveEqualCT6(a)(b)
}

type CtxEqualT6 struct{ F S0 }

func EqualCtxStT6(a, b S0) bool {
	return deriveEqualCStT6(CtxEqualT6{a}, CtxEqualT6{b})
}

func EqualCtxSlT6(a, b S0) bool {
	return deriveEqualCSlT6([]S0{a}, []S0{b})
}

func EqualCtxArT6(a, b S0) bool {
	return deriveEqualCArT6([1]S0{a}, [1]S0{b})
}

func EqualCtxMaT6(a, b S0) bool {
	return deriveEqualCMaT6(map[string]S0{"k": a}, map[string]S0{"k": b})
}

func EqualCtxPtT6(a, b S0) bool {
	return deriveEqualCPtT6(&a, &b)
}

func EqualT7(a int, b int) bool {
	return deriveEqualT7(a, b)
}

func EqualcT7(a int, b int) bool {
	return deriveEqualCT7(a)(b)
}

type CtxEqualT7 struct{ F int }

func EqualCtxStT7(a, b int) bool {
	return deriveEqualCStT7(CtxEqualT7{a}, CtxEqualT7{b})
}

func EqualCtxSlT7(a, b int) bool {
	return deriveEqualCSlT7([]int{a}, []int{b})
}

func EqualCtxArT7(a, b int) bool {
	return deriveEqualCArT7([1]int{a}, [1]int{b})
}

func EqualCtxMaT7(a, b int) bool {
	return deriveEqualCMaT7(map[string]int{"k": a}, map[string]int{"k": b})
}

func EqualCtxPtT7(a, b int) bool {
	return deriveEqualCPtT7(&a, &b)
}

func EqualT8(a rune, b rune) bool {
	return deriveEqualT8(a, b)
}

func EqualcT8(a rune, b rune) bool {
	return deriveEqualCT8(a)(b)
}

type CtxEqualT8 struct{ F rune }

func EqualCtxStT8(a, b rune) bool {
	return deriveEqualCStT8(CtxEqualT8{a}, CtxEqualT8{b})
}

func EqualCtxSlT8(a, b rune) bool {
	return deriveEqualCSlT8([]rune{a}, []rune{b})
}

func EqualCtxArT8(a, b rune) bool {
	return deriveEqualCArT8([1]rune{a}, [1]rune{b})
}

func EqualCtxMaT8(a, b rune) bool {
	return deriveEqualCMaT8(map[string]rune{"k": a}, map[string]rune{"k": b})
}

func EqualCtxPtT8(a, b rune) bool {
	return deriveEqualCPtT8(&a, &b)
}

func EqualT9(a byte, b byte) bool {
	return deriveEqualT9(a, b)
}

func EqualcT9(a byte, b byte) bool {
	return deriveEqualCT9(a)(b)
}

type CtxEqualT9 struct{ F byte }

func EqualCtxStT9(a, b byte) bool {
	return deriveEqualCStT9(CtxEqualT9{a}, CtxEqualT9{b})
}

func EqualCtxSlT9(a, b byte) bool {
	return deriveEqualCSlT9([]byte{a}, []byte{b})
}

func EqualCtxArT9(a, b byte) bool {
	return deriveEqualCArT9([1]byte{a}, [1]byte{b})
}

func EqualCtxMaT9(a, b byte) bool {
	return deriveEqualCMaT9(map[string]byte{"k": a}, map[string]byte{"k": b})
}

func EqualCtxPtT9(a, b byte) bool {
	return deriveEqualCPtT9(&a, &b)
}

func EqualT10(a map[ext.Key]MyU, b map[ext.Key]MyU) bool {
	return deriveEqualT10(a, b)
}

func EqualcT10(a map[ext.Key]MyU, b map[ext.Key]MyU) bool {
	return deriveEqualCT10(a)(b)
}

type CtxEqualT10 struct{ F map[ext.Key]MyU }

func EqualCtxStT10(a, b map[ext.Key]MyU) bool {
	return deriveEqualCStT10(CtxEqualT10{a}, CtxEqualT10{b})
}

func EqualCtxSlT10(a, b map[ext.Key]MyU) bool {
	return deriveEqualCSlT10([]map[ext.Key]MyU{a}, []map[ext.Key]MyU{b})
}

func EqualCtxArT10(a, b map[ext.Key]MyU) bool {
	return deriveEqualCArT10([1]map[ext.Key]MyU{a}, [1]map[ext.Key]MyU{b})
}

func EqualCtxMaT10(a, b map[ext.Key]MyU) bool {
	return deriveEqualCMaT10(map[string]map[ext.Key]MyU{"k": a}, map[string]map[ext.Key]MyU{"k": b})
}

func EqualCtxPtT10(a, b map[ext.Key]MyU) bool {
	return deriveEqualCPtT10(&a, &b)
}

func EqualT11(a uint32, b uint32) bool {
	return deriveEqualT11(a, b)
}

func EqualcT11(a uint32, b uint32) bool {
	return deriveEqualCT11(a)(b)
}

type CtxEqualT11 struct{ F uint32 }

func EqualCtxStT11(a, b uint32) bool {
	return deriveEqualCStT11(CtxEqualT11{a}, CtxEqualT11{b})
}

func EqualCtxSlT11(a, b uint32) bool {
	return deriveEqualCSlT11([]uint32{a}, []uint32{b})
}

func EqualCtxArT11(a, b uint32) bool {
	return deriveEqualCArT11([1]uint32{a}, [1]uint32{b})
}

func EqualCtxMaT11(a, b uint32) bool {
	return deriveEqualCMaT11(map[string]uint32{"k": a}, map[string]uint32{"k": b})
}

func EqualCtxPtT11(a, b uint32) bool {
	return deriveEqualCPtT11(&a, &b)
}

func EqualT12(a ext.Key, b ext.Key) bool {
	return deriveEqualT12(a, b)
}

func EqualcT12(a ext.Key, b ext.Key) bool {
	return deriveEqualCT12(a)(b)
}

type CtxEqualT12 struct{ F ext.Key }

func EqualCtxStT12(a, b ext.Key) bool {
	return deriveEqualCStT12(CtxEqualT12{a}, CtxEqualT12{b})
}

func EqualCtxSlT12(a, b ext.Key) bool {
	return deriveEqualCSlT12([]ext.Key{a}, []ext.Key{b})
}

func EqualCtxArT12(a, b ext.Key) bool {
	return deriveEqualCArT12([1]ext.Key{a}, [1]ext.Key{b})
}

func EqualCtxMaT12(a, b ext.Key) bool {
	return deriveEqualCMaT12(map[string]ext.Key{"k": a}, map[string]ext.Key{"k": b})
}

func EqualCtxPtT12(a, b ext.Key) bool {
	return deriveEqualCPtT12(&a, &b)
}

func EqualT13(a []string, b []string) bool {
	return deriveEqualT13(a, b)
}

func EqualcT13(a []string, b []string) bool {
	return deriveEqualCT13(a)(b)
}

type CtxEqualT13 struct{ F []string }

func EqualCtxStT13(a, b []string) bool {
	return deriveEqualCStT13(CtxEqualT13{a}, CtxEqualT13{b})
}

func EqualCtxSlT13(a, b []string) bool {
	return deriveEqualCSlT13([][]string{a}, [][]string{b})
}

func EqualCtxArT13(a, b []string) bool {
	return deriveEqualCArT13([1][]string{a}, [1][]string{b})
}

func EqualCtxMaT13(a, b []string) bool {
	return deriveEqualCMaT13(map[string][]string{"k": a}, map[string][]string{"k": b})
}

func EqualCtxPtT13(a, b []string) bool {
	return deriveEqualCPtT13(&a, &b)
}
