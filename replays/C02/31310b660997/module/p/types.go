package p

import (
	ext "subj/ext1"
)

type MyU uint

type N0 *uint

type N1 []uint16

type K0 struct {
	F0 int
	F1 int64
}

type S0 struct {
	F0 K0
	F1 map[uint64]K0
	f2 ext.E0
	F3 []byte
	F4 [][1]int64
}
