package ext

import (
	ext "subj/ext1"
)

type Num int

type Key struct {
	K0 uint64
	k1 int
	K2 Num
}

type E0 struct {
	f0 int32
	F1 Num
	f2 Key
}

type E1 struct {
	F0 ext.Num
	F1 *map[Key]bool
	f2 Num
	F3 E0
}
