package ext

type Num uint8

type Key struct {
	k0 bool
	K1 Num
}

type E0 struct {
}
