package ext

type Num string

type Key struct {
	K0 float64
}

type E0 struct {
	f0 []Num
}
