package p

import (
	ext2 "subj/x/ext"
)

type MyI64 int64

type N0 *int

type N1 []int

type N2 [][]bool

type K0 struct {
	F0 bool
	f1 uint64
}

type K1 struct {
	F0 int64
	F1 ext2.Num
}

func (a *K1) Equal(b *K1) bool {
	return deriveEqualMK1(a, b)
}

type S0 struct {
	F0 uint
	K1
	F2 map[[0]int8]*ext2.E1
}
