package p

import (
	ext "subj/ext1"
	ext2 "subj/x/ext"
)

var Anchor = 0

func EqualT0(a *K0, b *K0) bool {
	return deriveEqualT0(a, b)
}

func EqualcT0(a *K0, b *K0) bool {
	return deriveEqualCT0(a)(b)
}

type CtxEqualT0 struct{ F *K0 }

func EqualCtxStT0(a, b *K0) bool {
	return deriveEqualCStT0(CtxEqualT0{a}, CtxEqualT0{b})
}

func EqualCtxSlT0(a, b *K0) bool {
	return deriveEqualCSlT0([]*K0{a}, []*K0{b})
}

func EqualCtxArT0(a, b *K0) bool {
	return deriveEqualCArT0([1]*K0{a}, [1]*K0{b})
}

func EqualCtxMaT0(a, b *K0) bool {
	return deriveEqualCMaT0(map[string]*K0{"k": a}, map[string]*K0{"k": b})
}

func EqualCtxPtT0(a, b *K0) bool {
	return deriveEqualCPtT0(&a, &b)
}

func EqualViaT1(a *K1, b *K1) bool {
	return deriveEqualMK1(a, b)
}

func EqualcT1(a *K1, b *K1) bool {
	return deriveEqualCT1(a)(b)
}

type CtxEqualT1 struct{ F *K1 }

func EqualCtxStT1(a, b *K1) bool {
	return deriveEqualCStT1(CtxEqualT1{a}, CtxEqualT1{b})
}

func EqualCtxSlT1(a, b *K1) bool {
	return deriveEqualCSlT1([]*K1{a}, []*K1{b})
}

func EqualCtxArT1(a, b *K1) bool {
	return deriveEqualCArT1([1]*K1{a}, [1]*K1{b})
}

func EqualCtxMaT1(a, b *K1) bool {
	return deriveEqualCMaT1(map[string]*K1{"k": a}, map[string]*K1{"k": b})
}

func EqualCtxPtT1(a, b *K1) bool {
	return deriveEqualCPtT1(&a, &b)
}

func EqualT2(a *S0, b *S0) bool {
	return deriveEqualT2(a, b)
}

func EqualcT2(a *S0, b *S0) bool {
	return deriveEqualCT2(a)(b)
}

type CtxEqualT2 struct{ F *S0 }

func EqualCtxStT2(a, b *S0) bool {
	return deriveEqualCStT2(CtxEqualT2{a}, CtxEqualT2{b})
}

func EqualCtxSlT2(a, b *S0) bool {
	return deriveEqualCSlT2([]*S0{a}, []*S0{b})
}

func EqualCtxArT2(a, b *S0) bool {
	return deriveEqualCArT2([1]*S0{a}, [1]*S0{b})
}

func EqualCtxMaT2(a, b *S0) bool {
	return deriveEqualCMaT2(map[string]*S0{"k": a}, map[string]*S0{"k": b})
}

func EqualCtxPtT2(a, b *S0) bool {
	return deriveEqualCPtT2(&a, &b)
}

func EqualT3(a bool, b bool) bool {
	return deriveEqualT3(a, b)
}

func EqualcT3(a bool, b bool) bool {
	return deriveEqualCT3(a)(b)
}

type CtxEqualT3 struct{ F bool }

func EqualCtxStT3(a, b bool) bool {
	return deriveEqualCStT3(CtxEqualT3{a}, CtxEqualT3{b})
}

func EqualCtxSlT3(a, b bool) bool {
	return deriveEqualCSlT3([]bool{a}, []bool{b})
}

func EqualCtxArT3(a, b bool) bool {
	return deriveEqualCArT3([1]bool{a}, [1]bool{b})
}

func EqualCtxMaT3(a, b bool) bool {
	return deriveEqualCMaT3(map[string]bool{"k": a}, map[string]bool{"k": b})
}

func EqualCtxPtT3(a, b bool) bool {
	return deriveEqualCPtT3(&a, &b)
}

func EqualT4(a N2, b N2) bool {
	return deriveEqualT4(a, b)
}

func EqualcT4(a N2, b N2) bool {
	return deriveEqualCT4(a)(b)
}

type CtxEqualT4 struct{ F N2 }

func EqualCtxStT4(a, b N2) bool {
	return deriveEqualCStT4(CtxEqualT4{a}, CtxEqualT4{b})
}

func EqualCtxSlT4(a, b N2) bool {
	return deriveEqualCSlT4([]N2{a}, []N2{b})
}

func EqualCtxArT4(a, b N2) bool {
	return deriveEqualCArT4([1]N2{a}, [1]N2{b})
}

func EqualCtxMaT4(a, b N2) bool {
	return deriveEqualCMaT4(map[string]N2{"k": a}, map[string]N2{"k": b})
}

func EqualCtxPtT4(a, b N2) bool {
	return deriveEqualCPtT4(&a, &b)
}

func EqualT5(a K1, b K1) bool {
	return deriveEqualT5(a, b)
}

func EqualcT5(a K1, b K1) bool {
	return deriveEqualCT5(a)(b)
}

type CtxEqualT5 struct{ F K1 }

func EqualCtxStT5(a, b K1) bool {
	return deriveEqualCStT5(CtxEqualT5{a}, CtxEqualT5{b})
}

func EqualCtxSlT5(a, b K1) bool {
	return deriveEqualCSlT5([]K1{a}, []K1{b})
}

func EqualCtxArT5(a, b K1) bool {
	return deriveEqualCArT5([1]K1{a}, [1]K1{b})
}

func EqualCtxMaT5(a, b K1) bool {
	return deriveEqualCMaT5(map[string]K1{"k": a}, map[string]K1{"k": b})
}

func EqualT6(a N0, b N0) bool {
	return deriveEqualT6(a, b)
}

func EqualcT6(a N0, b N0) bool {
	return deriveEqualCT6(a)(b)
}

type CtxEqualT6 struct{ F N0 }

func EqualCtxStT6(a, b N0) bool {
	return deriveEqualCStT6(CtxEqualT6{a}, CtxEqualT6{b})
}

func EqualCtxSlT6(a, b N0) bool {
	return deriveEqualCSlT6([]N0{a}, []N0{b})
}

func EqualCtxArT6(a, b N0) bool {
	return deriveEqualCArT6([1]N0{a}, [1]N0{b})
}

func EqualCtxMaT6(a, b N0) bool {
	return deriveEqualCMaT6(map[string]N0{"k": a}, map[string]N0{"k": b})
}

func EqualCtxPtT6(a, b N0) bool {
	return deriveEqualCPtT6(&a, &b)
}

func EqualT7(a int8, b int8) bool {
	return deriveEqualT7(a, b)
}

func EqualcT7(a int8, b int8) bool {
	return deriveEqualCT7(a)(b)
}

type CtxEqualT7 struct{ F int8 }

func EqualCtxStT7(a, b int8) bool {
	return deriveEqualCStT7(CtxEqualT7{a}, CtxEqualT7{b})
}

func EqualCtxSlT7(a, b int8) bool {
	return deriveEqualCSlT7([]int8{a}, []int8{b})
}

func EqualCtxArT7(a, b int8) bool {
	return deriveEqualCArT7([1]int8{a}, [1]int8{b})
}

func EqualCtxMaT7(a, b int8) bool {
	return deriveEqualCMaT7(map[string]int8{"k": a}, map[string]int8{"k": b})
}

func EqualCtxPtT7(a, b int8) bool {
	return deriveEqualCPtT7(&a, &b)
}

func EqualT8(a map[K0]K0, b map[K0]K0) bool {
	return deriveEqualT8(a, b)
}

func EqualcT8(a map[K0]K0, b map[K0]K0) bool {
	return deriveEqualCT8(a)(b)
}

type CtxEqualT8 struct{ F map[K0]K0 }

func EqualCtxStT8(a, b map[K0]K0) bool {
	return deriveEqualCStT8(CtxEqualT8{a}, CtxEqualT8{b})
}

func EqualCtxSlT8(a, b map[K0]K0) bool {
	return deriveEqualCSlT8([]map[K0]K0{a}, []map[K0]K0{b})
}

func EqualCtxArT8(a, b map[K0]K0) bool {
	return deriveEqualCArT8([1]map[K0]K0{a}, [1]map[K0]K0{b})
}

func EqualCtxMaT8(a, b map[K0]K0) bool {
	return deriveEqualCMaT8(map[string]map[K0]K0{"k": a}, map[string]map[K0]K0{"k": b})
}

func EqualCtxPtT8(a, b map[K0]K0) bool {
	return deriveEqualCPtT8(&a, &b)
}

func EqualT9(a map[bool]*K0, b map[bool]*K0) bool {
	return deriveEqualT9(a, b)
}

func EqualcT9(a map[bool]*K0, b map[bool]*K0) bool {
	return deriveEqualCT9(a)(b)
}

type CtxEqualT9 struct{ F map[bool]*K0 }

func EqualCtxStT9(a, b map[bool]*K0) bool {
	return deriveEqualCStT9(CtxEqualT9{a}, CtxEqualT9{b})
}

func EqualCtxSlT9(a, b map[bool]*K0) bool {
	return deriveEqualCSlT9([]map[bool]*K0{a}, []map[bool]*K0{b})
}

func EqualCtxArT9(a, b map[bool]*K0) bool {
	return deriveEqualCArT9([1]map[bool]*K0{a}, [1]map[bool]*K0{b})
}

func EqualCtxMaT9(a, b map[bool]*K0) bool {
	return deriveEqualCMaT9(map[string]map[bool]*K0{"k": a}, map[string]map[bool]*K0{"k": b})
}

func EqualCtxPtT9(a, b map[bool]*K0) bool {
	return deriveEqualCPtT9(&a, &b)
}

func EqualT10(a map[ext.Num]map[byte]K1, b map[ext.Num]map[byte]K1) bool {
	return deriveEqualT10(a, b)
}

func EqualcT10(a map[ext.Num]map[byte]K1, b map[ext.Num]map[byte]K1) bool {
	return deriveEqualCT10(a)(b)
}

type CtxEqualT10 struct{ F map[ext.Num]map[byte]K1 }

func EqualCtxStT10(a, b map[ext.Num]map[byte]K1) bool {
	return deriveEqualCStT10(CtxEqualT10{a}, CtxEqualT10{b})
}

func EqualCtxSlT10(a, b map[ext.Num]map[byte]K1) bool {
	return deriveEqualCSlT10([]map[ext.Num]map[byte]K1{a}, []map[ext.Num]map[byte]K1{b})
}

func EqualCtxArT10(a, b map[ext.Num]map[byte]K1) bool {
	return deriveEqualCArT10([1]map[ext.Num]map[byte]K1{a}, [1]map[ext.Num]map[byte]K1{b})
}

func EqualCtxMaT10(a, b map[ext.Num]map[byte]K1) bool {
	return deriveEqualCMaT10(map[string]map[ext.Num]map[byte]K1{"k": a}, map[string]map[ext.Num]map[byte]K1{"k": b})
}

func EqualCtxPtT10(a, b map[ext.Num]map[byte]K1) bool {
	return deriveEqualCPtT10(&a, &b)
}

func EqualT11(a ext2.E0, b ext2.E0) bool {
	return deriveEqualT11(a, b)
}

func EqualcT11(a ext2.E0, b ext2.E0) bool {
	return deriveEqualCT11(a)(b)
}

type CtxEqualT11 struct{ F ext2.E0 }

func EqualCtxStT11(a, b ext2.E0) bool {
	return deriveEqualCStT11(CtxEqualT11{a}, CtxEqualT11{b})
}

func EqualCtxSlT11(a, b ext2.E0) bool {
	return deriveEqualCSlT11([]ext2.E0{a}, []ext2.E0{b})
}

func EqualCtxArT11(a, b ext2.E0) bool {
	return deriveEqualCArT11([1]ext2.E0{a}, [1]ext2.E0{b})
}

func EqualCtxMaT11(a, b ext2.E0) bool {
	return deriveEqualCMaT11(map[string]ext2.E0{"k": a}, map[string]ext2.E0{"k": b})
}

func EqualCtxPtT11(a, b ext2.E0) bool {
	return deriveEqualCPtT11(&a, &b)
}

func EqualT12(a uintptr, b uintptr) bool {
	return deriveEqualT12(a, b)
}

func EqualcT12(a uintptr, b uintptr) bool {
	return deriveEqualCT12(a)(b)
}

type CtxEqualT12 struct{ F uintptr }

func EqualCtxStT12(a, b uintptr) bool {
	return deriveEqualCStT12(CtxEqualT12{a}, CtxEqualT12{b})
}

func EqualCtxSlT12(a, b uintptr) bool {
	return deriveEqualCSlT12([]uintptr{a}, []uintptr{b})
}

func EqualCtxArT12(a, b uintptr) bool {
	return deriveEqualCArT12([1]uintptr{a}, [1]uintptr{b})
}

func EqualCtxMaT12(a, b uintptr) bool {
	return deriveEqualCMaT12(map[string]uintptr{"k": a}, map[string]uintptr{"k": b})
}

func EqualCtxPtT12(a, b uintptr) bool {
	return deriveEqualCPtT12(&a, &b)
}

func EqualT13(a complex64, b complex64) bool {
	return deriveEqualT13(a, b)
}

func EqualcT13(a complex64, b complex64) bool {
	return deriveEqualCT13(a)(b)
}

type CtxEqualT13 struct{ F complex64 }

func EqualCtxStT13(a, b complex64) bool {
	return deriveEqualCStT13(CtxEqualT13{a}, CtxEqualT13{b})
}

func EqualCtxSlT13(a, b complex64) bool {
	return deriveEqualCSlT13([]complex64{a}, []complex64{b})
}

func EqualCtxArT13(a, b complex64) bool {
	return deriveEqualCArT13([1]complex64{a}, [1]complex64{b})
}

func EqualCtxMaT13(a, b complex64) bool {
	return deriveEqualCMaT13(map[string]complex64{"k": a}, map[string]complex64{"k": b})
}

func EqualCtxPtT13(a, b complex64) bool {
	return deriveEqualCPtT13(&a, &b)
}
