package ext

type Num int64

type Key struct {
	K0 int32
	k1 int32
	k2 int
}

type E0 struct {
}

type E1 struct {
}
