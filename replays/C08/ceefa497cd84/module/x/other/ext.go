package other

import (
	ext "subj/ext1"
)

type Num int

type Key struct {
	K0 Num
}

type E0 struct {
	f0 ext.Num
}
