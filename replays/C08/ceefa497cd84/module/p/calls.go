package p

func WTie1(a *TieS, b *TieS) bool {
	return deriveEqualTie1(a, b)
}

func WTie5(dst *TieS, src *TieS) {
	deriveDeepCopyTie5(dst, src)
}

func W0(a int, b int) bool {
	return deriveEqualT0(a, b)
}

func W1(a int, b int) bool {
	return deriveEqualCT1(a)(b)
}
