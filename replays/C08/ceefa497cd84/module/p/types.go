package p

type MyStr string

type MyU8 uint8

type Tie0A []string

type Tie0B []string

type K0 struct {
}

type S0 struct {
	f0 int
}

type TieS struct {
	T0_0 Tie0B
	T0_1 []string
	T0_2 Tie0A
}
