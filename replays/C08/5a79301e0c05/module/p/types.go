package p

type MyInt int

type MyF float64

type MyI64 int64

type Tie0A []int

type Tie1A []string

type K0 struct {
	F0 bool
}

type S0 struct {
}

type TieS struct {
	T0_0 Tie0A
	T0_1 []int
	T1_0 Tie1A
	T1_1 []string
}
