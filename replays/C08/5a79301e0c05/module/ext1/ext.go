package ext

type Num int

type Key struct {
	K0 uint
	k1 Num
}

type E0 struct {
}
