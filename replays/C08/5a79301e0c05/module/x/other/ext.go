package other

type Num int

type Key struct {
	k0 Num
}

type E0 struct {
	f0 complex64
}

type E1 struct {
	f0 int
}
