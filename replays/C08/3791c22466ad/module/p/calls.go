package p

func WTie0(a *TieS) uint64 {
	return deriveHashTie0(a)
}

func WTie2(a *TieS, b *TieS) int {
	return deriveCompareTie2(a, b)
}

func WTie3(a *TieS) *TieS {
	return deriveCloneTie3(a)
}

func WTie4(a *TieS) string {
	return deriveGoStringTie4(a)
}

func W0(a int, b int) bool {
	return deriveEqualT0(a, b)
}

func W1(a int, b int) bool {
	return deriveEqualCT1(a)(b)
}

func W2(a bool, b bool) bool {
	return deriveEqualT2(a, b)
}
