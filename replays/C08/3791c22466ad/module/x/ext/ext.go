package ext

type Num float64

type Key struct {
	k0 Num
	k1 Num
}

type E0 struct {
}

type E1 struct {
}
