package ext

type Num string

type Key struct {
	K0 int
}

type E0 struct {
}
