package other

type Num string

type Key struct {
	k0 string
	k1 uint8
}

type E0 struct {
	f0 complex128
	f1 int8
	F2 map[Key]*E0
}

type E1 struct {
}
