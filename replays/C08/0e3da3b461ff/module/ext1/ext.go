package ext

type Num float64

type Key struct {
	K0 uint64
	K1 Num
	K2 Num
}

type E0 struct {
	F0 map[string]*Key
	F1 [][]byte
}

type E1 struct {
}
