package p

import (
	ext "subj/ext1"
)

func WTie1(a *TieS, b *TieS) bool {
	return deriveEqualTie1(a, b)
}

func WTie2(a *TieS, b *TieS) int {
	return deriveCompareTie2(a, b)
}

func WTie3(a *TieS) *TieS {
	return deriveCloneTie3(a)
}

func WTie4(a *TieS) string {
	return deriveGoStringTie4(a)
}

func WTie5(dst *TieS, src *TieS) {
	deriveDeepCopyTie5(dst, src)
}

func W0(a int, b int) int {
	return deriveCompareT0(a, b)
}

func W1(l []map[uintptr]*ext.E1, d map[uintptr]*ext.E1) map[uintptr]*ext.E1 {
	return deriveMinLT1(l, d)
}
