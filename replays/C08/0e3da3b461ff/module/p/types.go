package p

import (
	ext "subj/ext1"
	other "subj/x/other"
)

type MyI64 int64

type MyU uint

type MyBool bool

type MyC complex128

type Tie0A map[string]byte

type Tie0B map[string]byte

type Tie0C map[string]byte

type Tie1A *float64

type Tie1B *float64

type K0 struct {
	f0 float64
	F1 uint64
}

type S0 struct {
	f0 *K0
	f1 [1]*map[uint]string
	*K0
	F3 []string
	F4 map[ext.Key]map[rune]map[ext.Num]string
	F5 map[int]string
}

type S1 struct {
	F0 S0
	f1 map[[1]int]MyC
	f2 string
	S0
	F4 [3]other.Num
}

type S2 struct {
	F0 MyI64
	F1 *S2
	F2 [2][1]*S2
}

type TieS struct {
	T0_0 map[string]byte
	T0_1 Tie0C
	T0_2 Tie0A
	T0_3 Tie0B
	T1_0 Tie1A
	T1_1 *float64
	T1_2 Tie1B
}
