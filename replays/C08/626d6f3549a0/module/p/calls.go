package p

func WTie0(a *TieS) uint64 {
	return deriveHashTie0(a)
}

func WTie2(a *TieS, b *TieS) int {
	return deriveCompareTie2(a, b)
}

func WTie3(a *TieS) *TieS {
	return deriveCloneTie3(a)
}

func WTie4(a *TieS) string {
	return deriveGoStringTie4(a)
}

func W0(a [1]uint8, b [1]uint8) bool {
	return deriveEqualT0(a, b)
}

func W1(a uint32, b uint32) uint32 {
	return deriveMaxTT1(a, b)
}
