package p

import (
	ext2 "subj/x/ext"
)

type MyI64 int64

type MyU uint

type MyBool bool

type Tie0A map[int]float64

type K0 struct {
}

type S0 struct {
	f0 *S0
	F1 string
	F2 K0
	F3 bool
	F4 MyI64
	F5 uint
}

type S1 struct {
	F0 string
	F1 []byte
	f2 *complex128
	f3 map[int]S1
	f4 int64
	f5 [1]int8
}

type S2 struct {
	*K0
	F1 *ext2.Num
}

type TieS struct {
	T0_0 Tie0A
	T0_1 map[int]float64
}
