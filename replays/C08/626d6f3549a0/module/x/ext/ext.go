package ext

type Num int64

type Key struct {
	K0 int
	k1 Num
	k2 Num
}

type E0 struct {
	F0 int32
	F1 bool
	f2 Num
	f3 Num
}

type E1 struct {
	f0 Num
	f1 uint16
	f2 *E1
}
