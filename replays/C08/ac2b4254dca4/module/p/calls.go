package p

import (
	ext "subj/ext1"
	ext2 "subj/x/ext"
)

func WTie1(a *TieS, b *TieS) bool {
	return deriveEqualTie1(a, b)
}

func WTie2(a *TieS, b *TieS) int {
	return deriveCompareTie2(a, b)
}

func WTie4(a *TieS) string {
	return deriveGoStringTie4(a)
}

func W0(l []ext.E1) []ext.E1 {
	return deriveUniqueT0(l)
}

func W1(a ext2.Num, b ext2.Num) int {
	return deriveCompareT1(a, b)
}

func W2(pred func([2][]rune) bool, l [][2][]rune) bool {
	return deriveAllT2(pred, l)
}

func W3(a S0, b S0) bool {
	return deriveEqualCT3(a)(b)
}

func W4(a int, b int) int {
	return deriveCompareT4(a, b)
}
