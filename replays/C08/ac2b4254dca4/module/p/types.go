package p

import (
	ext2 "subj/x/ext"
)

type MyF float64

type MyI64 int64

type MyU uint

type Tie0A map[string]bool

type Tie0B map[string]bool

type Tie0C map[string]bool

type Tie1A []byte

type Tie1B []byte

type Tie2A [][]string

type Tie2B [][]string

type Tie2C [][]string

type K0 struct {
	f0 uint64
	F1 [1]ext2.Num
	f2 ext2.Key
}

type S0 struct {
}

type TieS struct {
	T0_0 Tie0A
	T0_1 Tie0B
	T0_2 map[string]bool
	T0_3 Tie0C
	T1_0 Tie1A
	T1_1 Tie1B
	T1_2 []byte
	T2_0 Tie2B
	T2_1 Tie2A
	T2_2 [][]string
	T2_3 Tie2C
}
