package ext

type Num int64

type Key struct {
	K0 uint
	k1 Num
	K2 byte
}

type E0 struct {
	F0 Key
	F1 Num
}
