package ext

type Num int

type Key struct {
	K0 Num
	K1 byte
	k2 int
}

type E0 struct {
}
