package ext

type Num float64

type Key struct {
	k0 uint8
	k1 int8
}

type E0 struct {
	f0 map[Key]Num
}

type E1 struct {
}
