package p

import (
	ext "subj/ext1"
	ext2 "subj/x/ext"
)

type MyInt int

type MyF float64

type Tie0A map[string]int

type Tie1A map[int]string

type Tie1B map[int]string

type K0 struct {
}

type K1 struct {
	F0 ext2.Num
}

type S0 struct {
	F0 bool
	F1 int32
	F2 string
}

type S1 struct {
	f0 ext.Num
}

type TieS struct {
	T0_0 Tie0A
	T0_1 map[string]int
	T1_0 Tie1A
	T1_1 Tie1B
	T1_2 map[int]string
}
