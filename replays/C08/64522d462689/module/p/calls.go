package p

func WTie0(a *TieS) uint64 {
	return deriveHashTie0(a)
}

func WTie1(a *TieS, b *TieS) bool {
	return deriveEqualTie1(a, b)
}

func WTie5(dst *TieS, src *TieS) {
	deriveDeepCopyTie5(dst, src)
}

func W0(a int8, b int8) int {
	return deriveCompareT0(a, b)
}

func W1(a MyF, b MyF) int {
	return deriveCompareT1(a, b)
}

func W2(a uint16, b uint16) bool {
	return deriveEqualCT2(a)(b)
}

func W3(a int64, b int64) bool {
	return deriveEqualT3(a, b)
}

func W4(a int8, b int8) bool {
	return deriveEqualT4(a, b)
}
