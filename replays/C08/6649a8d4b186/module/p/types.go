package p

import (
	ext2 "subj/x/ext"
)

type MyStr string

type MyU8 uint8

type N0 *ext2.Num

type N1 []int8

type N2 *int64

type Tie0A map[uint8]int

type Tie1A [][]string

type Tie2A []string

type K0 struct {
	f0 uint8
}

type S0 struct {
	F0 uint
}

type S1 struct {
	F0 []S1
	F1 int16
	K0
	F3 ext2.Num
}

type TieS struct {
	T0_0 Tie0A
	T0_1 map[uint8]int
	T1_0 [][]string
	T1_1 Tie1A
	T2_0 []string
	T2_1 Tie2A
}
