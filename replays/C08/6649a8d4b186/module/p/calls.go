package p

import (
	ext2 "subj/x/ext"
)

func WTie0(a *TieS) uint64 {
	return deriveHashTie0(a)
}

func WTie1(a *TieS, b *TieS) bool {
	return deriveEqualTie1(a, b)
}

func WTie2(a *TieS, b *TieS) int {
	return deriveCompareTie2(a, b)
}

func WTie3(a *TieS) *TieS {
	return deriveCloneTie3(a)
}

func WTie5(dst *TieS, src *TieS) {
	deriveDeepCopyTie5(dst, src)
}

func W0(a *bool) uint64 {
	return deriveHashT0(a)
}

func W1(a int, b int) bool {
	return deriveEqualT1(a, b)
}

func W2(a map[MyU8]int, b map[MyU8]int) int {
	return deriveCompareCT2(a)(b)
}

func W3(a int16) int16 {
	return deriveCloneT3(a)
}

func W4(a N0) N0 {
	return deriveCloneT4(a)
}

func W5(l []float32) map[float32]struct{} {
	return deriveSetT5(l)
}

func W6(dst *ext2.E0, src *ext2.E0) {
	deriveDeepCopyT6(dst, src)
}

func W7(l []byte, d byte) byte {
	return deriveMinLT7(l, d)
}

func W8(l []int8) []int8 {
	return deriveSortT8(l)
}
