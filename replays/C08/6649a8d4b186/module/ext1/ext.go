package ext

type Num int

type Key struct {
	k0 Num
}

type E0 struct {
}

type E1 struct {
	f0 E0
	F1 int16
}
