package ext

type Num int

type Key struct {
	k0 int64
	K1 Num
	K2 int
}

type E0 struct {
	f0 complex64
}
