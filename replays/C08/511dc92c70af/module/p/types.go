package p

type MyStr string

type MyU8 uint8

type Tie0A []int

type Tie0B []int

type K0 struct {
}

type S0 struct {
}

type TieS struct {
	T0_0 []int
	T0_1 Tie0A
	T0_2 Tie0B
}
