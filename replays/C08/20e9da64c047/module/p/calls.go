package p

func WTie0(a *TieS) uint64 {
	return deriveHashTie0(a)
}

func WTie2(a *TieS, b *TieS) int {
	return deriveCompareTie2(a, b)
}

func WTie4(a *TieS) string {
	return deriveGoStringTie4(a)
}

func WTie5(dst *TieS, src *TieS) {
	deriveDeepCopyTie5(dst, src)
}

func W0(a int64) uint64 {
	return deriveHashT0(a)
}

func W1(a string) uint64 {
	return deriveHashT1(a)
}

func W2(pred func(K0) bool, l []K0) bool {
	return deriveAnyT2(pred, l)
}

func W3(pred func(bool) bool, l []bool) []bool {
	return deriveTakeWhileT3(pred, l)
}

func W4(a K0) string {
	return deriveGoStringT4(a)
}
