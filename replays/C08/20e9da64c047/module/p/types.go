package p

import (
	ext "subj/ext1"
	other "subj/x/other"
)

type MyInt int

type MyF float64

type MyI64 int64

type N0 *int

type N1 map[uint64]float32

type Tie0A map[int]byte

type Tie0B map[int]byte

type K0 struct {
	F0 ext.Num
}

type K1 struct {
	F0 int
}

type S0 struct {
	K0
	F1 map[other.Key][][]string
	F2 *[]int
	f3 MyF
	K1
	f5 K1
}

type TieS struct {
	T0_0 Tie0B
	T0_1 map[int]byte
	T0_2 Tie0A
}
