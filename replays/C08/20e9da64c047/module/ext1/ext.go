package ext

type Num int64

type Key struct {
	k0 uint16
	K1 int
	k2 int
}

type E0 struct {
	f0 int
	f1 Key
	f2 int
	f3 [2]Key
}

type E1 struct {
	f0 Num
}
