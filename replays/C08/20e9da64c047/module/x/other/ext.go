package other

type Num string

type Key struct {
	K0 bool
	k1 uint8
}

type E0 struct {
	f0 Num
	f1 bool
	f2 Num
	f3 Key
}

type E1 struct {
	f0 *E0
}
