package ext

type Num string

type Key struct {
	k0 string
}

type E0 struct {
}

type E1 struct {
}
