package p

import (
	ext2 "subj/x/ext"
)

type MyRune rune

type MyStr string

type MyU8 uint8

type MyF32 float32

type Tie0A [][]byte

type Tie1A []bool

type Tie2A *byte

type Tie2B *byte

type K0 struct {
	F0 MyRune
}

type S0 struct {
	F0 K0
	f1 uintptr
	K0
	f3 complex64
}

type S1 struct {
	f0 map[string][]ext2.Num
	f1 uint16
	K0
	f3 [][]byte
}

type TieS struct {
	T0_0 Tie0A
	T0_1 [][]byte
	T1_0 Tie1A
	T1_1 []bool
	T2_0 *byte
	T2_1 Tie2B
	T2_2 Tie2A
}
