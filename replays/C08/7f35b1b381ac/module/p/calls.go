package p

func WTie0(a *TieS) uint64 {
	return deriveHashTie0(a)
}

func WTie1(a *TieS, b *TieS) bool {
	return deriveEqualTie1(a, b)
}

func WTie3(a *TieS) *TieS {
	return deriveCloneTie3(a)
}

func WTie4(a *TieS) string {
	return deriveGoStringTie4(a)
}

func W0(a complex64, b complex64) bool {
	return deriveEqualT0(a, b)
}

func W1(a map[string]struct{}, b map[string]struct{}) map[string]struct{} {
	return deriveIntersectMT1(a, b)
}

func W2(l []int8, d int8) int8 {
	return deriveMaxLT2(l, d)
}

func W3(a bool, b bool) bool {
	return deriveEqualCT3(a)(b)
}

func W4(l []Tie1A) []Tie1A {
	return deriveSortT4(l)
}

func W5(a map[int]struct{}, b map[int]struct{}) map[int]struct{} {
	return deriveIntersectMT5(a, b)
}
