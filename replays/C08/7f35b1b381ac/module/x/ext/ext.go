package ext

type Num int

type Key struct {
	k0 int
	K1 bool
}

type E0 struct {
	F0 **complex128
}
