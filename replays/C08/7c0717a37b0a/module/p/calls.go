package p

func WTie1(a *TieS, b *TieS) bool {
	return deriveEqualTie1(a, b)
}

func WTie2(a *TieS, b *TieS) int {
	return deriveCompareTie2(a, b)
}

func WTie3(a *TieS) *TieS {
	return deriveCloneTie3(a)
}

func WTie4(a *TieS) string {
	return deriveGoStringTie4(a)
}

func WTie5(dst *TieS, src *TieS) {
	deriveDeepCopyTie5(dst, src)
}

func W0(a Tie0A, b Tie0A) int {
	return deriveCompareCT0(a)(b)
}

func W1(a *int8, b *int8) bool {
	return deriveEqualT1(a, b)
}

func W2(a int, b int) bool {
	return deriveEqualCT2(a)(b)
}

func W3(a bool, b bool) bool {
	return deriveEqualCT3(a)(b)
}

func W4(a int, b int) bool {
	return deriveEqualT4(a, b)
}
