package p

type MyInt int

type N0 map[bool]bool

type Tie0A []string

type Tie1A []string

type Tie1B []string

type K0 struct {
}

type K1 struct {
}

type S0 struct {
}

type S1 struct {
}

type TieS struct {
	T0_0 []string
	T0_1 Tie0A
	T1_0 Tie1A
	T1_1 []string
	T1_2 Tie1B
}
