package ext

type Num int

type Key struct {
	k0 bool
}

type E0 struct {
}
