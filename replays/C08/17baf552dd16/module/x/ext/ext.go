package ext

type Num int64

type Key struct {
	k0 bool
}

type E0 struct {
}

type E1 struct {
	f0 []byte
	f1 []byte
	f2 []byte
}
