package p

import (
	ext "subj/ext1"
	ext2 "subj/x/ext"
)

func WTie0(a *TieS) uint64 {
	return deriveHashTie0(a)
}

func WTie1(a *TieS, b *TieS) bool {
	return deriveEqualTie1(a, b)
}

func WTie2(a *TieS, b *TieS) int {
	return deriveCompareTie2(a, b)
}

func WTie3(a *TieS) *TieS {
	return deriveCloneTie3(a)
}

func WTie4(a *TieS) string {
	return deriveGoStringTie4(a)
}

func WTie5(dst *TieS, src *TieS) {
	deriveDeepCopyTie5(dst, src)
}

func W0(a []uint, b []uint) []uint {
	return deriveUnionLT0(a, b)
}

func W1(a int, b int) bool {
	return deriveEqualCT1(a)(b)
}

func W2(a *uint8) uint64 {
	return deriveHashT2(a)
}

func W3(pred func(S1) bool, l []S1) bool {
	return deriveAnyT3(pred, l)
}

func W4(a int, b int) int {
	return deriveMaxTT4(a, b)
}

func W5(m map[ext.Num]map[ext2.Num]S2) []ext.Num {
	return deriveKeysT5(m)
}

func W6(l []TieS, d TieS) TieS {
	return deriveMinLT6(l, d)
}

func W7(l []uint, x uint) bool {
	return deriveContainsT7(l, x)
}

func W8(a map[byte]bool, b map[byte]bool) bool {
	return deriveEqualT8(a, b)
}

func W9(a *ext.E0, b *ext.E0) *ext.E0 {
	return deriveMaxTT9(a, b)
}

func W10(a bool, b bool) int {
	return deriveCompareCT10(a)(b)
}

func W11(m map[int]int) []int {
	return deriveKeysT11(m)
}
