package p

import (
	ext "subj/ext1"
	ext2 "subj/x/ext"
)

type MyInt int

type MyF float64

type N0 map[ext.Num]int32

type Tie0A []int

type Tie1A map[uint8]string

type Tie1B map[uint8]string

type K0 struct {
	F0 int8
}

type K1 struct {
	F0 ext2.Num
	F1 [1]ext2.Key
	F2 ext2.Num
}

type S0 struct {
	F0 [3][]map[complex128]N0
	F1 *ext.Num
}

type S1 struct {
	*S0
	F1 uint16
	f2 map[ext2.Key]S1
	F3 bool
	f4 map[string]bool
}

type S2 struct {
	F0 N0
}

type TieS struct {
	T0_0 []int
	T0_1 Tie0A
	T1_0 Tie1A
	T1_1 map[uint8]string
	T1_2 Tie1B
}
