package ext

type Num float64

type Key struct {
	k0 Num
	K1 int64
}

type E0 struct {
	f0 byte
	f1 []byte
}

type E1 struct {
	F0 map[Key][]byte
}
