package p

func WTie3(a *TieS) *TieS {
	return deriveCloneTie3(a)
}

func WTie4(a *TieS) string {
	return deriveGoStringTie4(a)
}

func WTie5(dst *TieS, src *TieS) {
	deriveDeepCopyTie5(dst, src)
}

func W0(a int, b int) bool {
	return deriveEqualCT0(a)(b)
}

func W1(a bool, b bool) bool {
	return deriveEqualCT1(a)(b)
}

func W2(a int, b int) bool {
	return deriveEqualT2(a, b)
}
