package p

type MyInt int

type N0 []bool

type Tie0A []string

type K0 struct {
}

type S0 struct {
}

type TieS struct {
	T0_0 []string
	T0_1 Tie0A
}
