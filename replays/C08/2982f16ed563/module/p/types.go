package p

import (
	ext "subj/ext1"
)

type MyC complex128

type Tie0A *byte

type Tie0B *byte

type Tie0C *byte

type Tie1A []bool

type Tie1B []bool

type Tie1C []bool

type K0 struct {
}

type S0 struct {
	F0 map[uint16]string
	F1 ext.Key
}

type S1 struct {
	f0 map[uintptr]S0
}

type TieS struct {
	T0_0 Tie0B
	T0_1 Tie0C
	T0_2 *byte
	T0_3 Tie0A
	T1_0 Tie1A
	T1_1 Tie1B
	T1_2 []bool
	T1_3 Tie1C
}
