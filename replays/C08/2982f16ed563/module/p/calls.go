package p

func WTie2(a *TieS, b *TieS) int {
	return deriveCompareTie2(a, b)
}

func WTie3(a *TieS) *TieS {
	return deriveCloneTie3(a)
}

func WTie4(a *TieS) string {
	return deriveGoStringTie4(a)
}

func WTie5(dst *TieS, src *TieS) {
	deriveDeepCopyTie5(dst, src)
}

func W0(dst *[]K0, src *[]K0) {
	deriveDeepCopyT0(dst, src)
}

func W1(a map[uint16]struct{}, b map[uint16]struct{}) map[uint16]struct{} {
	return deriveUnionMT1(a, b)
}
