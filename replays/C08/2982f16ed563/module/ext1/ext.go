package ext

type Num string

type Key struct {
	K0 int8
	k1 string
	k2 uint16
}

type E0 struct {
	f0 [0]int8
	f1 Key
	F2 float32
}
