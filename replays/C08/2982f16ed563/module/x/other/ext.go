package other

type Num int

type Key struct {
	k0 float64
}

type E0 struct {
}
