package p

type MyInt int

type Tie0A []int

type Tie1A []int

type K0 struct {
}

type S0 struct {
	f0 int
}

type TieS struct {
	T0_0 Tie0A
	T0_1 []int
	T1_0 Tie1A
	T1_1 []int
}
