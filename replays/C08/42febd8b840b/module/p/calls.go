package p

func WTie0(a *TieS) uint64 {
	return deriveHashTie0(a)
}

func WTie2(a *TieS, b *TieS) int {
	return deriveCompareTie2(a, b)
}

func W0(a bool, b bool) bool {
	return deriveEqualCT0(a)(b)
}

func W1(a int, b int) bool {
	return deriveEqualCT1(a)(b)
}
