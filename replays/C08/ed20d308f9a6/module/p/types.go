package p

type MyF32 float32

type MyInt int

type MyF float64

type MyI64 int64

type Tie0A []string

type Tie0B []string

type K0 struct {
	f0 int
	F1 int
}

type S0 struct {
}

type TieS struct {
	T0_0 []string
	T0_1 Tie0A
	T0_2 Tie0B
}
