package p

func WTie0(a *TieS) uint64 {
	return deriveHashTie0(a)
}

func WTie1(a *TieS, b *TieS) bool {
	return deriveEqualTie1(a, b)
}

func WTie3(a *TieS) *TieS {
	return deriveCloneTie3(a)
}

func WTie4(a *TieS) string {
	return deriveGoStringTie4(a)
}

func WTie5(dst *TieS, src *TieS) {
	deriveDeepCopyTie5(dst, src)
}

func W0(a bool, b bool) bool {
	return deriveEqualCT0(a)(b)
}
