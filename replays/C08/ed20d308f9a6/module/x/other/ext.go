package other

type Num string

type Key struct {
	k0 Num
	k1 int8
}

type E0 struct {
}
