package ext

type Num int

type Key struct {
	K0 Num
	K1 Num
}

type E0 struct {
	f0 *E0
	F1 bool
}
