package p

type MyInt int

type MyF float64

type Tie0A []string

type K0 struct {
}

type S0 struct {
}

type TieS struct {
	T0_0 Tie0A
	T0_1 []string
}
