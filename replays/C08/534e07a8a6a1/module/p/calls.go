package p

func WTie0(a *TieS) uint64 {
	return deriveHashTie0(a)
}

func WTie1(a *TieS, b *TieS) bool {
	return deriveEqualTie1(a, b)
}

func W0(a bool, b bool) bool {
	return deriveEqualT0(a, b)
}

func W1(a int, b int) bool {
	return deriveEqualCT1(a)(b)
}
