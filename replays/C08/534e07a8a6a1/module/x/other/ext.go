package other

type Num int

type Key struct {
	k0 int
	K1 uint16
	k2 int
}

type E0 struct {
}
