package ext

type Num int64

type Key struct {
	k0 Num
	K1 bool
}

type E0 struct {
}
