package p

import (
	ext "subj/ext1"
	ext2 "subj/x/ext"
)

func WTie0(a *TieS) uint64 {
	return deriveHashTie0(a)
}

func WTie2(a *TieS, b *TieS) int {
	return deriveCompareTie2(a, b)
}

func WTie3(a *TieS) *TieS {
	return deriveCloneTie3(a)
}

func WTie5(dst *TieS, src *TieS) {
	deriveDeepCopyTie5(dst, src)
}

func W0(pred func(ext2.Num) bool, l []ext2.Num) []ext2.Num {
	return deriveTakeWhileT0(pred, l)
}

func W1(a float64, b float64) int {
	return deriveCompareCT1(a)(b)
}

func W2(a *complex64, b *complex64) bool {
	return deriveEqualT2(a, b)
}

func W3(a map[ext2.Num]int8, b map[ext2.Num]int8) bool {
	return deriveEqualT3(a, b)
}

func W4(a []map[ext2.Key]complex64, b []map[ext2.Key]complex64) []map[ext2.Key]complex64 {
	return deriveIntersectLT4(a, b)
}

func W5(a bool, b bool) bool {
	return deriveEqualCT5(a)(b)
}

func W6(dst map[ext.Key]float64, src map[ext.Key]float64) {
	deriveDeepCopyT6(dst, src)
}

func W7(a float32, b float32) int {
	return deriveCompareCT7(a)(b)
}

func W9(a map[int]struct{}, b map[int]struct{}) map[int]struct{} {
	return deriveUnionMT9(a, b)
}

func W10(pred func(ext2.E0) bool, l []ext2.E0) bool {
	return deriveAnyT10(pred, l)
}
