package p

type MyU uint

type MyBool bool

type MyC complex128

type MyRune rune

type N0 *int

type Tie0A map[uint8]float64

type Tie0B map[uint8]float64

type Tie1A *byte

type Tie1B *byte

type Tie1C *byte

type K0 struct {
	F0 uint16
	F1 [1]uint8
}

type S0 struct {
	f0 int8
	F1 *S0
}

type TieS struct {
	T0_0 map[uint8]float64
	T0_1 Tie0B
	T0_2 Tie0A
	T1_0 Tie1A
	T1_1 *byte
	T1_2 Tie1C
	T1_3 Tie1B
}
