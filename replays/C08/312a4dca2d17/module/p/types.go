package p

import (
	ext "subj/ext1"
	ext2 "subj/x/ext"
)

type MyRune rune

type MyStr string

type MyU8 uint8

type Tie0A map[int]int

type Tie0B map[int]int

type Tie0C map[int]int

type Tie1A []bool

type Tie1B []bool

type K0 struct {
	f0 MyU8
	f1 float64
}

type S0 struct {
	F0 [][]uint32
}

type S1 struct {
	F0 *S2
	F1 S0
	F2 *[1]ext2.Num
	f3 bool
	F4 MyRune
	F5 map[float32]*ext.Num
}

type S2 struct {
	F0 int8
	F1 string
	F2 map[complex128]bool
	f3 bool
	F4 *[]map[byte]ext2.Key
	F5 *[]S0
}

type TieS struct {
	T0_0 Tie0C
	T0_1 Tie0B
	T0_2 map[int]int
	T0_3 Tie0A
	T1_0 []bool
	T1_1 Tie1B
	T1_2 Tie1A
}
