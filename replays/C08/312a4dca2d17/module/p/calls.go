package p

import (
	ext2 "subj/x/ext"
)

func WTie0(a *TieS) uint64 {
	return deriveHashTie0(a)
}

func WTie1(a *TieS, b *TieS) bool {
	return deriveEqualTie1(a, b)
}

func WTie2(a *TieS, b *TieS) int {
	return deriveCompareTie2(a, b)
}

func WTie3(a *TieS) *TieS {
	return deriveCloneTie3(a)
}

func WTie5(dst *TieS, src *TieS) {
	deriveDeepCopyTie5(dst, src)
}

func W0(a map[bool]S1, b map[bool]S1) map[bool]S1 {
	return deriveMaxTT0(a, b)
}

func W1(a *uint64, b *uint64) bool {
	return deriveEqualT1(a, b)
}

func W3(l []S0) []S0 {
	return deriveUniqueT3(l)
}

func W4(m map[int]S0) []int {
	return deriveKeysT4(m)
}

func W5(a ext2.Num, b ext2.Num) ext2.Num {
	return deriveMaxTT5(a, b)
}

func W6(a *int32) *int32 {
	return deriveCloneT6(a)
}

func W7(pred func(map[uint64]S1) bool, l []map[uint64]S1) bool {
	return deriveAnyT7(pred, l)
}

func W8(a uint8) uint8 {
	return deriveCloneT8(a)
}

func W9(a *S0, b *S0) bool {
	return deriveEqualT9(a, b)
}
