package ext

type Num int64

type Key struct {
	k0 Num
	K1 uint8
	k2 byte
}

type E0 struct {
	f0 [2]Num
	F1 *E0
}
