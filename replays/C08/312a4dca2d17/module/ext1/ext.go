package ext

type Num uint8

type Key struct {
	K0 uint64
}

type E0 struct {
	F0 int16
	f1 float64
	F2 uintptr
}

type E1 struct {
	f0 [][]byte
	f1 []byte
}
