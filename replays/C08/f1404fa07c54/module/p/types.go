package p

import (
	ext "subj/ext1"
	ext2 "subj/x/ext"
)

type MyF float64

type MyI64 int64

type MyU uint

type N0 map[ext.Key]ext.Num

type N1 *uint32

type N2 [][]MyF

type Tie0A []string

type Tie0B []string

type Tie0C []string

type Tie1A *byte

type Tie1B *byte

type Tie1C *byte

type Tie2A *byte

type K0 struct {
	f0 MyF
	F1 int
	f2 ext2.Key
}

type S0 struct {
	K0
	F1 string
	f2 [1]K0
	f3 *[]uint
}

type TieS struct {
	T0_0 Tie0A
	T0_1 Tie0C
	T0_2 []string
	T0_3 Tie0B
	T1_0 Tie1A
	T1_1 *byte
	T1_2 Tie1B
	T1_3 Tie1C
	T2_0 Tie2A
	T2_1 *byte
}
