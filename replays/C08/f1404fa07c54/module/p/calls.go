package p

func WTie1(a *TieS, b *TieS) bool {
	return deriveEqualTie1(a, b)
}

func WTie2(a *TieS, b *TieS) int {
	return deriveCompareTie2(a, b)
}

func WTie3(a *TieS) *TieS {
	return deriveCloneTie3(a)
}

func WTie5(dst *TieS, src *TieS) {
	deriveDeepCopyTie5(dst, src)
}

func W0(l [][]complex64, d []complex64) []complex64 {
	return deriveMinLT0(l, d)
}

func W1(a []uint16, b []uint16) []uint16 {
	return deriveIntersectLT1(a, b)
}

func W2(a Tie0A, b Tie0A) bool {
	return deriveEqualCT2(a)(b)
}

func W3(a int64, b int64) bool {
	return deriveEqualT3(a, b)
}

func W4(a map[MyI64]int16, b map[MyI64]int16) map[MyI64]int16 {
	return deriveMaxTT4(a, b)
}

func W5(a rune, b rune) rune {
	return deriveMinTT5(a, b)
}

func W6(l [][]byte) [][]byte {
	return deriveUniqueT6(l)
}

func W8(l []MyU) map[MyU]struct{} {
	return deriveSetT8(l)
}

func W9(a N2) N2 {
	return deriveCloneT9(a)
}

func W10(a rune, b rune) bool {
	return deriveEqualCT10(a)(b)
}
