package ext

type Num string

type Key struct {
	K0 uint16
	k1 Num
	k2 complex128
}

type E0 struct {
	f0 Key
	f1 bool
	f2 map[Key]uint8
	f3 []int
}
