package p

type MyI64 int64

type N0 map[MyI64]MyI64

type N1 []MyI64

type Tie0A *float64

type Tie0B *float64

type Tie0C *float64

type K0 struct {
	f0 bool
	F1 [1]int
	F2 bool
}

type S0 struct {
	f0 N0
	f1 uint
	f2 []S1
}

type S1 struct {
}

type TieS struct {
	T0_0 Tie0C
	T0_1 Tie0A
	T0_2 *float64
	T0_3 Tie0B
}
