package p

import (
	other "subj/x/other"
)

func WTie0(a *TieS) uint64 {
	return deriveHashTie0(a)
}

func WTie1(a *TieS, b *TieS) bool {
	return deriveEqualTie1(a, b)
}

func WTie2(a *TieS, b *TieS) int {
	return deriveCompareTie2(a, b)
}

func WTie3(a *TieS) *TieS {
	return deriveCloneTie3(a)
}

func W0(pred func(complex128) bool, l []complex128) bool {
	return deriveAllT0(pred, l)
}

func W1(pred func(other.Key) bool, l []other.Key) []other.Key {
	return deriveTakeWhileT1(pred, l)
}
