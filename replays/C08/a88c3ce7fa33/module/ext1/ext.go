package ext

type Num string

type Key struct {
	K0 Num
	k1 uint
}

type E0 struct {
}

type E1 struct {
	F0 Num
	F1 []byte
}
