package other

type Num float64

type Key struct {
	K0 int32
	k1 int
}

type E0 struct {
	f0 []float32
	f1 bool
}
