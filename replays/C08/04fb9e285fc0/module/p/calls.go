package p

func WTie0(a *TieS) uint64 {
	return deriveHashTie0(a)
}

func WTie2(a *TieS, b *TieS) int {
	return deriveCompareTie2(a, b)
}

func WTie3(a *TieS) *TieS {
	return deriveCloneTie3(a)
}

func W0(a int8, b int8) bool {
	return deriveEqualCT0(a)(b)
}

func W1(a int, b int) bool {
	return deriveEqualCT1(a)(b)
}

func W2(a bool, b bool) bool {
	return deriveEqualT2(a, b)
}
