package p

type MyInt int

type MyF float64

type Tie0A map[int]string

type Tie1A []int

type K0 struct {
	f0 bool
}

type S0 struct {
}

type S1 struct {
}

type TieS struct {
	T0_0 Tie0A
	T0_1 map[int]string
	T1_0 Tie1A
	T1_1 []int
}
