package ext

type Num uint8

type Key struct {
	K0 Num
	k1 Num
	k2 Num
}

type E0 struct {
}
