package p

type MyStr string

type MyU8 uint8

type Tie0A map[int]string

type K0 struct {
	F0 int
}

type S0 struct {
}

type S1 struct {
}

type TieS struct {
	T0_0 Tie0A
	T0_1 map[int]string
}
