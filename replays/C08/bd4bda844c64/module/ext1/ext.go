package ext

type Num uint8

type Key struct {
	k0 uintptr
	k1 Num
	K2 Num
}

type E0 struct {
	f0 [1][0]complex128
}

type E1 struct {
	F0 *int32
	F1 bool
}
