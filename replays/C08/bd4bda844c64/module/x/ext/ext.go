package ext

type Num float64

type Key struct {
	K0 Num
}

type E0 struct {
	f0 []byte
}

type E1 struct {
	f0 [1][2]uint64
}
