package p

import (
	ext "subj/ext1"
)

type MyF float64

type Tie0A *bool

type Tie0B *bool

type Tie1A map[uint8]byte

type K0 struct {
	F0 int32
}

type S0 struct {
	F0 []byte
}

type S1 struct {
	F0 K0
	K0
	S0
	F3 string
	F4 ext.Num
}

type S2 struct {
	F0 *complex64
}

type TieS struct {
	T0_0 Tie0A
	T0_1 *bool
	T0_2 Tie0B
	T1_0 Tie1A
	T1_1 map[uint8]byte
}
