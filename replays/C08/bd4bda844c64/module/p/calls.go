package p

import (
	ext2 "subj/x/ext"
)

func WTie0(a *TieS) uint64 {
	return deriveHashTie0(a)
}

func WTie1(a *TieS, b *TieS) bool {
	return deriveEqualTie1(a, b)
}

func WTie2(a *TieS, b *TieS) int {
	return deriveCompareTie2(a, b)
}

func WTie3(a *TieS) *TieS {
	return deriveCloneTie3(a)
}

func W0(pred func(ext2.E1) bool, l []ext2.E1) bool {
	return deriveAnyT0(pred, l)
}

func W1(m map[MyF]complex64) []MyF {
	return deriveKeysT1(m)
}

func W2(m map[K0]ext2.E0) []K0 {
	return deriveKeysT2(m)
}

func W3(l []complex128) []complex128 {
	return deriveUniqueT3(l)
}

func W4(a map[float64]struct{}, b map[float64]struct{}) map[float64]struct{} {
	return deriveIntersectMT4(a, b)
}

func W5(a float32, b float32) int {
	return deriveCompareCT5(a)(b)
}
