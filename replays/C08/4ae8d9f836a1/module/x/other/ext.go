package other

type Num string

type Key struct {
	K0 uint64
}

type E0 struct {
	f0 **E0
	f1 *E0
	f2 int8
	f3 int
}
