package p

import (
	other "subj/x/other"
)

type MyU8 uint8

type MyF32 float32

type Tie0A [][]float64

type Tie0B [][]float64

type Tie1A map[int]int

type K0 struct {
	F0 MyF32
}

type K1 struct {
	F0 other.Num
}

type S0 struct {
	f0 []S0
	K0
}

type TieS struct {
	T0_0 Tie0B
	T0_1 Tie0A
	T0_2 [][]float64
	T1_0 map[int]int
	T1_1 Tie1A
}
