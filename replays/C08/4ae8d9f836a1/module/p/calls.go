package p

import (
	other "subj/x/other"
)

func W0(a MyU8) MyU8 {
	return deriveCloneT0(a)
}

func W1(a uint8) string {
	return deriveGoStringT1(a)
}

func W2(a int64) int64 {
	return deriveCloneT2(a)
}

func W3(l []MyU8) []MyU8 {
	return deriveUniqueT3(l)
}

func W4(a []int32, b []int32) int {
	return deriveCompareT4(a, b)
}

func W5(a other.Num, b other.Num) bool {
	return deriveEqualT5(a, b)
}

func W6(a int8, b int8) int {
	return deriveCompareCT6(a)(b)
}

func W7(a []map[byte][]byte, b []map[byte][]byte) []map[byte][]byte {
	return deriveUnionLT7(a, b)
}

func W8(l [][]K1, x []K1) bool {
	return deriveContainsT8(l, x)
}
