package p

type MyInt int

type MyF float64

type N0 [][]bool

type Tie0A []string

type K0 struct {
	f0 int
}

type S0 struct {
	*K0
}

type S1 struct {
}

type TieS struct {
	T0_0 Tie0A
	T0_1 []string
}
