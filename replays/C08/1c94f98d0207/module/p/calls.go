package p

func WTie1(a *TieS, b *TieS) bool {
	return deriveEqualTie1(a, b)
}

func WTie3(a *TieS) *TieS {
	return deriveCloneTie3(a)
}

func WTie5(dst *TieS, src *TieS) {
	deriveDeepCopyTie5(dst, src)
}

func W0(a int, b int) bool {
	return deriveEqualCT0(a)(b)
}

func W1(a int, b int) bool {
	return deriveEqualT1(a, b)
}
