package ext

type Num uint8

type Key struct {
	k0 Num
	k1 Num
	K2 float32
}

type E0 struct {
	f0 bool
	f1 Key
	f2 *E0
	f3 []Num
}
