package ext

type Num int

type Key struct {
	K0 int64
	K1 rune
	K2 float64
}

type E0 struct {
}

type E1 struct {
	f0 complex64
}
