package p

import (
	ext "subj/ext1"
	ext2 "subj/x/ext"
)

func WTie1(a *TieS, b *TieS) bool {
	return deriveEqualTie1(a, b)
}

func WTie2(a *TieS, b *TieS) int {
	return deriveCompareTie2(a, b)
}

func WTie3(a *TieS) *TieS {
	return deriveCloneTie3(a)
}

func W0(l []ext.Num) map[ext.Num]struct{} {
	return deriveSetT0(l)
}

func W1(a *K0, b *K0) bool {
	return deriveEqualCT1(a)(b)
}

func W2(pred func(bool) bool, l []bool) bool {
	return deriveAnyT2(pred, l)
}

func W3(a map[ext2.Key][]byte, b map[ext2.Key][]byte) int {
	return deriveCompareT3(a, b)
}

func W4(pred func(float64) bool, l []float64) bool {
	return deriveAnyT4(pred, l)
}

func W5(a complex64, b complex64) bool {
	return deriveEqualCT5(a)(b)
}

func W6(a Tie1A, b Tie1A) bool {
	return deriveEqualT6(a, b)
}

func W7(a int32, b int32) bool {
	return deriveEqualT7(a, b)
}

func W9(pred func(S0) bool, l []S0) bool {
	return deriveAllT9(pred, l)
}

func W10(l []byte, x byte) bool {
	return deriveContainsT10(l, x)
}
