package p

type MyI64 int64

type MyU uint

type MyBool bool

type MyC complex128

type N0 map[MyI64]int

type N1 map[MyU]int8

type Tie0A []int

type Tie0B []int

type Tie1A *float64

type Tie2A [][]bool

type Tie2B [][]bool

type K0 struct {
	F0 uint16
	F1 float32
	F2 MyI64
}

type K1 struct {
	F0 complex128
	F1 complex128
	F2 complex128
}

type S0 struct {
}

type TieS struct {
	T0_0 []int
	T0_1 Tie0A
	T0_2 Tie0B
	T1_0 Tie1A
	T1_1 *float64
	T2_0 Tie2B
	T2_1 [][]bool
	T2_2 Tie2A
}
