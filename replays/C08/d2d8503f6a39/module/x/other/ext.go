package other

type Num float64

type Key struct {
	K0 uint64
	k1 rune
}

type E0 struct {
	f0 Key
	F1 Num
	f2 **Key
	f3 **E0
}
