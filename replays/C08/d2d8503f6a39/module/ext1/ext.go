package ext

type Num string

type Key struct {
	K0 uint64
	K1 bool
}

type E0 struct {
	f0 Num
	f1 int8
	f2 Key
}

type E1 struct {
	f0 []Num
	f1 int32
	F2 [0]byte
	f3 Num
}
