package p

import (
	ext "subj/ext1"
)

type MyInt int

type MyF float64

type MyI64 int64

type MyU uint

type N0 [0]ext.Num

type N1 [0]int32

type Tie0A []string

type Tie0B []string

type Tie0C []string

type K0 struct {
	f0 ext.Key
	f1 MyU
	F2 MyInt
}

type S0 struct {
	F0 uint
	F1 []S2
}

type S1 struct {
	F0 *[]MyInt
}

type S2 struct {
	F0 int32
	F1 N0
	K0
	F3 []S1
}

type TieS struct {
	T0_0 []string
	T0_1 Tie0B
	T0_2 Tie0A
	T0_3 Tie0C
}
