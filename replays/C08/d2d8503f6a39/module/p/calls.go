package p

import (
	other "subj/x/other"
)

func WTie2(a *TieS, b *TieS) int {
	return deriveCompareTie2(a, b)
}

func WTie3(a *TieS) *TieS {
	return deriveCloneTie3(a)
}

func WTie4(a *TieS) string {
	return deriveGoStringTie4(a)
}

func W0(a map[MyF]S2, b map[MyF]S2) int {
	return deriveCompareT0(a, b)
}

func W1(a bool, b bool) bool {
	return deriveEqualCT1(a)(b)
}

func W2(a int8, b int8) int8 {
	return deriveMaxTT2(a, b)
}

func W3(a []*S1, b []*S1) int {
	return deriveCompareCT3(a)(b)
}

func W4(l []rune, d rune) rune {
	return deriveMinLT4(l, d)
}

func W6(a map[int]K0, b map[int]K0) bool {
	return deriveEqualCT6(a)(b)
}

func W7(a map[int32]struct{}, b map[int32]struct{}) map[int32]struct{} {
	return deriveIntersectMT7(a, b)
}

func W8(a []byte, b []byte) bool {
	return deriveEqualCT8(a)(b)
}

func W9(l []uint8) map[uint8]struct{} {
	return deriveSetT9(l)
}

func W10(a other.E0, b other.E0) bool {
	return deriveEqualT10(a, b)
}
