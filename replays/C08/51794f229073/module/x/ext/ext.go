package ext

import (
	ext "subj/ext1"
)

type Num uint8

type Key struct {
	k0 Num
}

type E0 struct {
	F0 bool
}

type E1 struct {
	f0 ext.Num
	f1 []byte
}
