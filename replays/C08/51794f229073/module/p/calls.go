package p

func WTie5(dst *TieS, src *TieS) {
	deriveDeepCopyTie5(dst, src)
}

func W0(a int, b int) bool {
	return deriveEqualCT0(a)(b)
}

func W1(a int) uint64 {
	return deriveHashT1(a)
}

func W2(a bool) uint64 {
	return deriveHashT2(a)
}
