package p

type MyStr string

type MyU8 uint8

type N0 []int

type Tie0A map[int]int

type K0 struct {
	F0 int
}

type K1 struct {
}

type S0 struct {
	*K1
}

type TieS struct {
	T0_0 map[int]int
	T0_1 Tie0A
}
