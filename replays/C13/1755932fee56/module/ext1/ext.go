package ext

type Num string

type Key struct {
	k0 uint8
	K1 int
	k2 int
}

type E0 struct {
}
