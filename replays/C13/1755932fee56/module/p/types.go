package p

import (
	ext2 "subj/x/ext"
)

type MyStr string

type MyU8 uint8

type K0 struct {
	f0 complex128
}

type S0 struct {
	F0 K0
	F1 map[ext2.Num]rune
	F2 ext2.Num
	F3 int
	f4 string
}

type S1 struct {
	f0 *S1
	F1 *string
	F2 uint16
	F3 byte
	F4 map[byte][]byte
}

type S2 struct {
	*K0
	F1 [2]int16
	F2 *uint
	f3 string
}
