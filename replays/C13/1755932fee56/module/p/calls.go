package p

import (
	ext "subj/ext1"
	ext2 "subj/x/ext"
)

var Anchor = 0

func CompareT0(a *K0, b *K0) int {
	return deriveCompareT0(a, b)
}

func EqualT0(a *K0, b *K0) bool {
	return deriveEqualT0(a, b)
}

func SortT0(l []*K0) []*K0 {
	return deriveSortT0(l)
}

func MinlT0(l []*K0, d *K0) *K0 {
	return deriveMinLT0(l, d)
}

func MaxlT0(l []*K0, d *K0) *K0 {
	return deriveMaxLT0(l, d)
}

func MintT0(a *K0, b *K0) *K0 {
	return deriveMinTT0(a, b)
}

func MaxtT0(a *K0, b *K0) *K0 {
	return deriveMaxTT0(a, b)
}

func CompareT1(a *byte, b *byte) int {
	return deriveCompareT1(a, b)
}

func EqualT1(a *byte, b *byte) bool {
	return deriveEqualT1(a, b)
}

func SortT1(l []*byte) []*byte {
	return deriveSortT1(l)
}

func MinlT1(l []*byte, d *byte) *byte {
	return deriveMinLT1(l, d)
}

func MaxlT1(l []*byte, d *byte) *byte {
	return deriveMaxLT1(l, d)
}

func MintT1(a *byte, b *byte) *byte {
	return deriveMinTT1(a, b)
}

func MaxtT1(a *byte, b *byte) *byte {
	return deriveMaxTT1(a, b)
}

func CompareT2(a ext.Num, b ext.Num) int {
	return deriveCompareT2(a, b)
}

func EqualT2(a ext.Num, b ext.Num) bool {
	return deriveEqualT2(a, b)
}

func SortT2(l []ext.Num) []ext.Num {
	return deriveSortT2(l)
}

func MinlT2(l []ext.Num, d ext.Num) ext.Num {
	return deriveMinLT2(l, d)
}

func MaxlT2(l []ext.Num, d ext.Num) ext.Num {
	return deriveMaxLT2(l, d)
}

func MintT2(a ext.Num, b ext.Num) ext.Num {
	return deriveMinTT2(a, b)
}

func MaxtT2(a ext.Num, b ext.Num) ext.Num {
	return deriveMaxTT2(a, b)
}

func KeysofT2(m map[ext.Num]int) []ext.Num {
	return deriveKeysT2(m)
}

func CompareT3(a byte, b byte) int {
	return deriveCompareT3(a, b)
}

func EqualT3(a byte, b byte) bool {
	return deriveEqualT3(a, b)
}

func SortT3(l []byte) []byte {
	return deriveSortT3(l)
}

func MinlT3(l []byte, d byte) byte {
	return deriveMinLT3(l, d)
}

func MaxlT3(l []byte, d byte) byte {
	return deriveMaxLT3(l, d)
}

func MintT3(a byte, b byte) byte {
	return deriveMinTT3(a, b)
}

func MaxtT3(a byte, b byte) byte {
	return deriveMaxTT3(a, b)
}

func KeysofT3(m map[byte]int) []byte {
	return deriveKeysT3(m)
}

func CompareT4(a int64, b int64) int {
	return deriveCompareT4(a, b)
}

func EqualT4(a int64, b int64) bool {
	return deriveEqualT4(a, b)
}

func SortT4(l []int64) []int64 {
	return deriveSortT4(l)
}

func MinlT4(l []int64, d int64) int64 {
	return deriveMinLT4(l, d)
}

func MaxlT4(l []int64, d int64) int64 {
	return deriveMaxLT4(l, d)
}

func MintT4(a int64, b int64) int64 {
	return deriveMinTT4(a, b)
}

func MaxtT4(a int64, b int64) int64 {
	return deriveMaxTT4(a, b)
}

func KeysofT4(m map[int64]int) []int64 {
	return deriveKeysT4(m)
}

func CompareT5(a map[K0]rune, b map[K0]rune) int {
	return deriveCompareT5(a, b)
}

func EqualT5(a map[K0]rune, b map[K0]rune) bool {
	return deriveEqualT5(a, b)
}

func SortT5(l []map[K0]rune) []map[K0]rune {
	return deriveSortT5(l)
}

func MinlT5(l []map[K0]rune, d map[K0]rune) map[K0]rune {
	return deriveMinLT5(l, d)
}

func MaxlT5(l []map[K0]rune, d map[K0]rune) map[K0]rune {
	return deriveMaxLT5(l, d)
}

func MintT5(a map[K0]rune, b map[K0]rune) map[K0]rune {
	return deriveMinTT5(a, b)
}

func MaxtT5(a map[K0]rune, b map[K0]rune) map[K0]rune {
	return deriveMaxTT5(a, b)
}

func CompareT6(a *uintptr, b *uintptr) int {
	return deriveCompareT6(a, b)
}

func EqualT6(a *uintptr, b *uintptr) bool {
	return deriveEqualT6(a, b)
}

func SortT6(l []*uintptr) []*uintptr {
	return deriveSortT6(l)
}

func MinlT6(l []*uintptr, d *uintptr) *uintptr {
	return deriveMinLT6(l, d)
}

func MaxlT6(l []*uintptr, d *uintptr) *uintptr {
	return deriveMaxLT6(l, d)
}

func MintT6(a *uintptr, b *uintptr) *uintptr {
	return deriveMinTT6(a, b)
}

func MaxtT6(a *uintptr, b *uintptr) *uintptr {
	return deriveMaxTT6(a, b)
}

func CompareT7(a ext2.Key, b ext2.Key) int {
	return deriveCompareT7(a, b)
}

func EqualT7(a ext2.Key, b ext2.Key) bool {
	return deriveEqualT7(a, b)
}

func SortT7(l []ext2.Key) []ext2.Key {
	return deriveSortT7(l)
}

func MinlT7(l []ext2.Key, d ext2.Key) ext2.Key {
	return deriveMinLT7(l, d)
}

func MaxlT7(l []ext2.Key, d ext2.Key) ext2.Key {
	return deriveMaxLT7(l, d)
}

func MintT7(a ext2.Key, b ext2.Key) ext2.Key {
	return deriveMinTT7(a, b)
}

func MaxtT7(a ext2.Key, b ext2.Key) ext2.Key {
	return deriveMaxTT7(a, b)
}

func KeysofT7(m map[ext2.Key]int) []ext2.Key {
	return deriveKeysT7(m)
}

func CompareT8(a S1, b S1) int {
	return deriveCompareT8(a, b)
}

func EqualT8(a S1, b S1) bool {
	return deriveEqualT8(a, b)
}

func SortT8(l []S1) []S1 {
	return deriveSortT8(l)
}

func MinlT8(l []S1, d S1) S1 {
	return deriveMinLT8(l, d)
}

func MaxlT8(l []S1, d S1) S1 {
	return deriveMaxLT8(l, d)
}

func MintT8(a S1, b S1) S1 {
	return deriveMinTT8(a, b)
}

func MaxtT8(a S1, b S1) S1 {
	return deriveMaxTT8(a, b)
}

func CompareT9(a bool, b bool) int {
	return deriveCompareT9(a, b)
}

func EqualT9(a bool, b bool) bool {
	return deriveEqualT9(a, b)
}

func SortT9(l []bool) []bool {
	return deriveSortT9(l)
}

func KeysofT9(m map[bool]int) []bool {
	return deriveKeysT9(m)
}

func CompareT10(a *complex128, b *complex128) int {
	return deriveCompareT10(a, b)
}

func EqualT10(a *complex128, b *complex128) bool {
	return deriveEqualT10(a, b)
}

func SortT10(l []*complex128) []*complex128 {
	return deriveSortT10(l)
}

func MinlT10(l []*complex128, d *complex128) *complex128 {
	return deriveMinLT10(l, d)
}

func MaxlT10(l []*complex128, d *complex128) *complex128 {
	return deriveMaxLT10(l, d)
}

func MintT10(a *complex128, b *complex128) *complex128 {
	return deriveMinTT10(a, b)
}

func MaxtT10(a *complex128, b *complex128) *complex128 {
	return deriveMaxTT10(a, b)
}

func CompareT11(a int8, b int8) int {
	return deriveCompareT11(a, b)
}

func EqualT11(a int8, b int8) bool {
	return deriveEqualT11(a, b)
}

func SortT11(l []int8) []int8 {
	return deriveSortT11(l)
}

func MinlT11(l []int8, d int8) int8 {
	return deriveMinLT11(l, d)
}

func MaxlT11(l []int8, d int8) int8 {
	return deriveMaxLT11(l, d)
}

func MintT11(a int8, b int8) int8 {
	return deriveMinTT11(a, b)
}

func MaxtT11(a int8, b int8) int8 {
	return deriveMaxTT11(a, b)
}

func KeysofT11(m map[int8]int) []int8 {
	return deriveKeysT11(m)
}

func CompareT12(a map[ext.Num]MyStr, b map[ext.Num]MyStr) int {
	return deriveCompareT12(a, b)
}

func EqualT12(a map[ext.Num]MyStr, b map[ext.Num]MyStr) bool {
	return deriveEqualT12(a, b)
}

func SortT12(l []map[ext.Num]MyStr) []map[ext.Num]MyStr {
	return deriveSortT12(l)
}

func MinlT12(l []map[ext.Num]MyStr, d map[ext.Num]MyStr) map[ext.Num]MyStr {
	return deriveMinLT12(l, d)
}

func MaxlT12(l []map[ext.Num]MyStr, d map[ext.Num]MyStr) map[ext.Num]MyStr {
	return deriveMaxLT12(l, d)
}

func MintT12(a map[ext.Num]MyStr, b map[ext.Num]MyStr) map[ext.Num]MyStr {
	return deriveMinTT12(a, b)
}

func MaxtT12(a map[ext.Num]MyStr, b map[ext.Num]MyStr) map[ext.Num]MyStr {
	return deriveMaxTT12(a, b)
}

func CompareT13(a S2, b S2) int {
	return deriveCompareT13(a, b)
}

func EqualT13(a S2, b S2) bool {
	return deriveEqualT13(a, b)
}

func SortT13(l []S2) []S2 {
	return deriveSortT13(l)
}

func MinlT13(l []S2, d S2) S2 {
	return deriveMinLT13(l, d)
}

func MaxlT13(l []S2, d S2) S2 {
	return deriveMaxLT13(l, d)
}

func MintT13(a S2, b S2) S2 {
	return deriveMinTT13(a, b)
}

func MaxtT13(a S2, b S2) S2 {
	return deriveMaxTT13(a, b)
}
