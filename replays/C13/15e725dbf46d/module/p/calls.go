package p

import (
	ext "subj/ext1"
	other "subj/x/other"
)

var Anchor = 0

func CompareT0(a *K0, b *K0) int {
	return deriveCompareT0(a, b)
}

func EqualT0(a *K0, b *K0) bool {
	return deriveEqualT0(a, b)
}

func SortT0(l []*K0) []*K0 {
	return deriveSortT0(l)
}

func MinlT0(l []*K0, d *K0) *K0 {
	return deriveMinLT0(l, d)
}

func MaxlT0(l []*K0, d *K0) *K0 {
	return deriveMaxLT0(l, d)
}

func MintT0(a *K0, b *K0) *K0 {
	return deriveMinTT0(a, b)
}

func MaxtT0(a *K0, b *K0) *K0 {
	return deriveMaxTT0(a, b)
}

func CompareT1(a K1, b K1) int {
	return deriveCompareT1(a, b)
}

func EqualT1(a K1, b K1) bool {
	return deriveEqualT1(a, b)
}

func SortT1(l []K1) []K1 {
	return deriveSortT1(l)
}

func MinlT1(l []K1, d K1) K1 {
	return deriveMinLT1(l, d)
}

func MaxlT1(l []K1, d K1) K1 {
	return deriveMaxLT1(l, d)
}

func MintT1(a K1, b K1) K1 {
	return deriveMinTT1(a, b)
}

func MaxtT1(a K1, b K1) K1 {
	return deriveMaxTT1(a, b)
}

func KeysofT1(m map[K1]int) []K1 {
	return deriveKeysT1(m)
}

func CompareT2(a map[other.Num][]*byte, b map[other.Num][]*byte) int {
	return deriveCompareT2(a, b)
}

func EqualT2(a map[other.Num][]*byte, b map[other.Num][]*byte) bool {
	return deriveEqualT2(a, b)
}

func SortT2(l []map[other.Num][]*byte) []map[other.Num][]*byte {
	return deriveSortT2(l)
}

func MinlT2(l []map[other.Num][]*byte, d map[other.Num][]*byte) map[other.Num][]*byte {
	return deriveMinLT2(l, d)
}

func MaxlT2(l []map[other.Num][]*byte, d map[other.Num][]*byte) map[other.Num][]*byte {
	return deriveMaxLT2(l, d)
}

func MintT2(a map[other.Num][]*byte, b map[other.Num][]*byte) map[other.Num][]*byte {
	return deriveMinTT2(a, b)
}

func MaxtT2(a map[other.Num][]*byte, b map[other.Num][]*byte) map[other.Num][]*byte {
	return deriveMaxTT2(a, b)
}

func CompareT3(a *S0, b *S0) int {
	return deriveCompareT3(a, b)
}

func EqualT3(a *S0, b *S0) bool {
	return deriveEqualT3(a, b)
}

func SortT3(l []*S0) []*S0 {
	return deriveSortT3(l)
}

func MinlT3(l []*S0, d *S0) *S0 {
	return deriveMinLT3(l, d)
}

func MaxlT3(l []*S0, d *S0) *S0 {
	return deriveMaxLT3(l, d)
}

func MintT3(a *S0, b *S0) *S0 {
	return deriveMinTT3(a, b)
}

func MaxtT3(a *S0, b *S0) *S0 {
	return deriveMaxTT3(a, b)
}

func CompareT4(a []int64, b []int64) int {
	return deriveCompareT4(a, b)
}

func EqualT4(a []int64, b []int64) bool {
	return deriveEqualT4(a, b)
}

func SortT4(l [][]int64) [][]int64 {
	return deriveSortT4(l)
}

func MinlT4(l [][]int64, d []int64) []int64 {
	return deriveMinLT4(l, d)
}

func MaxlT4(l [][]int64, d []int64) []int64 {
	return deriveMaxLT4(l, d)
}

func MintT4(a []int64, b []int64) []int64 {
	return deriveMinTT4(a, b)
}

func MaxtT4(a []int64, b []int64) []int64 {
	return deriveMaxTT4(a, b)
}

func CompareT5(a int, b int) int {
	return deriveCompareT5(a, b)
}

func EqualT5(a int, b int) bool {
	return deriveEqualT5(a, b)
}

func SortT5(l []int) []int {
	return deriveSortT5(l)
}

func MinlT5(l []int, d int) int {
	return deriveMinLT5(l, d)
}

func MaxlT5(l []int, d int) int {
	return deriveMaxLT5(l, d)
}

func MintT5(a int, b int) int {
	return deriveMinTT5(a, b)
}

func MaxtT5(a int, b int) int {
	return deriveMaxTT5(a, b)
}

func KeysofT5(m map[int]int) []int {
	return deriveKeysT5(m)
}

func CompareT6(a []other.E1, b []other.E1) int {
	return deriveCompareT6(a, b)
}

func EqualT6(a []other.E1, b []other.E1) bool {
	return deriveEqualT6(a, b)
}

func SortT6(l [][]other.E1) [][]other.E1 {
	return deriveSortT6(l)
}

func MinlT6(l [][]other.E1, d []other.E1) []other.E1 {
	return deriveMinLT6(l, d)
}

func MaxlT6(l [][]other.E1, d []other.E1) []other.E1 {
	return deriveMaxLT6(l, d)
}

func MintT6(a []other.E1, b []other.E1) []other.E1 {
	return deriveMinTT6(a, b)
}

func MaxtT6(a []other.E1, b []other.E1) []other.E1 {
	return deriveMaxTT6(a, b)
}

func CompareT7(a *[2]string, b *[2]string) int {
	return deriveCompareT7(a, b)
}

func EqualT7(a *[2]string, b *[2]string) bool {
	return deriveEqualT7(a, b)
}

func SortT7(l []*[2]string) []*[2]string {
	return deriveSortT7(l)
}

func MinlT7(l []*[2]string, d *[2]string) *[2]string {
	return deriveMinLT7(l, d)
}

func MaxlT7(l []*[2]string, d *[2]string) *[2]string {
	return deriveMaxLT7(l, d)
}

func MintT7(a *[2]string, b *[2]string) *[2]string {
	return deriveMinTT7(a, b)
}

func MaxtT7(a *[2]string, b *[2]string) *[2]string {
	return deriveMaxTT7(a, b)
}

func CompareT8(a float32, b float32) int {
	return deriveCompareT8(a, b)
}

func EqualT8(a float32, b float32) bool {
	return deriveEqualT8(a, b)
}

func SortT8(l []float32) []float32 {
	return deriveSortT8(l)
}

func MinlT8(l []float32, d float32) float32 {
	return deriveMinLT8(l, d)
}

func MaxlT8(l []float32, d float32) float32 {
	return deriveMaxLT8(l, d)
}

func MintT8(a float32, b float32) float32 {
	return deriveMinTT8(a, b)
}

func MaxtT8(a float32, b float32) float32 {
	return deriveMaxTT8(a, b)
}

func KeysofT8(m map[float32]int) []float32 {
	return deriveKeysT8(m)
}

func CompareT9(a other.E0, b other.E0) int {
	return deriveCompareT9(a, b)
}

func EqualT9(a other.E0, b other.E0) bool {
	return deriveEqualT9(a, b)
}

func SortT9(l []other.E0) []other.E0 {
	return deriveSortT9(l)
}

func MinlT9(l []other.E0, d other.E0) other.E0 {
	return deriveMinLT9(l, d)
}

func MaxlT9(l []other.E0, d other.E0) other.E0 {
	return deriveMaxLT9(l, d)
}

func MintT9(a other.E0, b other.E0) other.E0 {
	return deriveMinTT9(a, b)
}

func MaxtT9(a other.E0, b other.E0) other.E0 {
	return deriveMaxTT9(a, b)
}

func KeysofT9(m map[other.E0]int) []other.E0 {
	return deriveKeysT9(m)
}

func CompareT10(a map[ext.Key]K1, b map[ext.Key]K1) int {
	return deriveCompareT10(a, b)
}

func EqualT10(a map[ext.Key]K1, b map[ext.Key]K1) bool {
	return deriveEqualT10(a, b)
}

func SortT10(l []map[ext.Key]K1) []map[ext.Key]K1 {
	return deriveSortT10(l)
}

func MinlT10(l []map[ext.Key]K1, d map[ext.Key]K1) map[ext.Key]K1 {
	return deriveMinLT10(l, d)
}

func MaxlT10(l []map[ext.Key]K1, d map[ext.Key]K1) map[ext.Key]K1 {
	return deriveMaxLT10(l, d)
}

func MintT10(a map[ext.Key]K1, b map[ext.Key]K1) map[ext.Key]K1 {
	return deriveMinTT10(a, b)
}

func MaxtT10(a map[ext.Key]K1, b map[ext.Key]K1) map[ext.Key]K1 {
	return deriveMaxTT10(a, b)
}

func CompareT11(a []string, b []string) int {
	return deriveCompareT11(a, b)
}

func EqualT11(a []string, b []string) bool {
	return deriveEqualT11(a, b)
}

func SortT11(l [][]string) [][]string {
	return deriveSortT11(l)
}

func MinlT11(l [][]string, d []string) []string {
	return deriveMinLT11(l, d)
}

func MaxlT11(l [][]string, d []string) []string {
	return deriveMaxLT11(l, d)
}

func MintT11(a []string, b []string) []string {
	return deriveMinTT11(a, b)
}

func MaxtT11(a []string, b []string) []string {
	return deriveMaxTT11(a, b)
}

func CompareT12(a bool, b bool) int {
	return deriveCompareT12(a, b)
}

func EqualT12(a bool, b bool) bool {
	return deriveEqualT12(a, b)
}

func SortT12(l []bool) []bool {
	return deriveSortT12(l)
}

func KeysofT12(m map[bool]int) []bool {
	return deriveKeysT12(m)
}

func CompareT13(a map[uint64]K0, b map[uint64]K0) int {
	return deriveCompareT13(a, b)
}

func EqualT13(a map[uint64]K0, b map[uint64]K0) bool {
	return deriveEqualT13(a, b)
}

func SortT13(l []map[uint64]K0) []map[uint64]K0 {
	return deriveSortT13(l)
}

func MinlT13(l []map[uint64]K0, d map[uint64]K0) map[uint64]K0 {
	return deriveMinLT13(l, d)
}

func MaxlT13(l []map[uint64]K0, d map[uint64]K0) map[uint64]K0 {
	return deriveMaxLT13(l, d)
}

func MintT13(a map[uint64]K0, b map[uint64]K0) map[uint64]K0 {
	return deriveMinTT13(a, b)
}

func MaxtT13(a map[uint64]K0, b map[uint64]K0) map[uint64]K0 {
	return deriveMaxTT13(a, b)
}
