package p

import (
	ext "subj/ext1"
	other "subj/x/other"
)

type MyF float64

type MyI64 int64

type MyU uint

type MyBool bool

type N0 []bool

type N1 map[K0]int

type N2 []bool

type K0 struct {
	f0 int32
	F1 MyU
}

type K1 struct {
	f0 int32
	F1 ext.Num
	f2 MyI64
}

type S0 struct {
	f0 other.E0
}
