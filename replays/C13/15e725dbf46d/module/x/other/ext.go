package other

type Num int

type Key struct {
	k0 float32
	k1 uint64
}

type E0 struct {
}

type E1 struct {
	F0 Num
	F1 map[uint8]int8
	f2 []byte
}
