package other

import (
	ext "subj/ext1"
)

type Num string

type Key struct {
	K0 float64
	k1 uint
}

type E0 struct {
	f0 ext.E0
	f1 *E0
	F2 *bool
	f3 [0]Num
}
