package p

import (
	ext "subj/ext1"
	other "subj/x/other"
)

var Anchor = 0

func CompareT0(a *K0, b *K0) int {
	return deriveCompareT0(a, b)
}

func EqualT0(a *K0, b *K0) bool {
	return deriveEqualT0(a, b)
}

func SortT0(l []*K0) []*K0 {
	return deriveSortT0(l)
}

func MinlT0(l []*K0, d *K0) *K0 {
	return deriveMinLT0(l, d)
}

func MaxlT0(l []*K0, d *K0) *K0 {
	return deriveMaxLT0(l, d)
}

func MintT0(a *K0, b *K0) *K0 {
	return deriveMinTT0(a, b)
}

func MaxtT0(a *K0, b *K0) *K0 {
	return deriveMaxTT0(a, b)
}

func CompareT1(a int64, b int64) int {
	return deriveCompareT1(a, b)
}

func EqualT1(a int64, b int64) bool {
	return deriveEqualT1(a, b)
}

func SortT1(l []int64) []int64 {
	return deriveSortT1(l)
}

func MinlT1(l []int64, d int64) int64 {
	return deriveMinLT1(l, d)
}

func MaxlT1(l []int64, d int64) int64 {
	return deriveMaxLT1(l, d)
}

func MintT1(a int64, b int64) int64 {
	return deriveMinTT1(a, b)
}

func MaxtT1(a int64, b int64) int64 {
	return deriveMaxTT1(a, b)
}

func KeysofT1(m map[int64]int) []int64 {
	return deriveKeysT1(m)
}

func CompareT2(a S1, b S1) int {
	return deriveCompareT2(a, b)
}

func EqualT2(a S1, b S1) bool {
	return deriveEqualT2(a, b)
}

func SortT2(l []S1) []S1 {
	return deriveSortT2(l)
}

func MinlT2(l []S1, d S1) S1 {
	return deriveMinLT2(l, d)
}

func MaxlT2(l []S1, d S1) S1 {
	return deriveMaxLT2(l, d)
}

func MintT2(a S1, b S1) S1 {
	return deriveMinTT2(a, b)
}

func MaxtT2(a S1, b S1) S1 {
	return deriveMaxTT2(a, b)
}

func CompareT3(a *S2, b *S2) int {
	return deriveCompareT3(a, b)
}

func EqualT3(a *S2, b *S2) bool {
	return deriveEqualT3(a, b)
}

func SortT3(l []*S2) []*S2 {
	return deriveSortT3(l)
}

func MinlT3(l []*S2, d *S2) *S2 {
	return deriveMinLT3(l, d)
}

func MaxlT3(l []*S2, d *S2) *S2 {
	return deriveMaxLT3(l, d)
}

func MintT3(a *S2, b *S2) *S2 {
	return deriveMinTT3(a, b)
}

func MaxtT3(a *S2, b *S2) *S2 {
	return deriveMaxTT3(a, b)
}

func CompareT4(a S3, b S3) int {
	return deriveCompareT4(a, b)
}

func EqualT4(a S3, b S3) bool {
	return deriveEqualT4(a, b)
}

func SortT4(l []S3) []S3 {
	return deriveSortT4(l)
}

func MinlT4(l []S3, d S3) S3 {
	return deriveMinLT4(l, d)
}

func MaxlT4(l []S3, d S3) S3 {
	return deriveMaxLT4(l, d)
}

func MintT4(a S3, b S3) S3 {
	return deriveMinTT4(a, b)
}

func MaxtT4(a S3, b S3) S3 {
	return deriveMaxTT4(a, b)
}

func KeysofT4(m map[S3]int) []S3 {
	return deriveKeysT4(m)
}

func CompareT5(a S4, b S4) int {
	return deriveCompareT5(a, b)
}

func EqualT5(a S4, b S4) bool {
	return deriveEqualT5(a, b)
}

func SortT5(l []S4) []S4 {
	return deriveSortT5(l)
}

func MinlT5(l []S4, d S4) S4 {
	return deriveMinLT5(l, d)
}

func MaxlT5(l []S4, d S4) S4 {
	return deriveMaxLT5(l, d)
}

func MintT5(a S4, b S4) S4 {
	return deriveMinTT5(a, b)
}

func MaxtT5(a S4, b S4) S4 {
	return deriveMaxTT5(a, b)
}

func KeysofT5(m map[S4]int) []S4 {
	return deriveKeysT5(m)
}

func CompareT6(a map[[1]ext.Num]other.Num, b map[[1]ext.Num]other.Num) int {
	return deriveCompareT6(a, b)
}

func EqualT6(a map[[1]ext.Num]other.Num, b map[[1]ext.Num]other.Num) bool {
	return deriveEqualT6(a, b)
}

func SortT6(l []map[[1]ext.Num]other.Num) []map[[1]ext.Num]other.Num {
	return deriveSortT6(l)
}

func MinlT6(l []map[[1]ext.Num]other.Num, d map[[1]ext.Num]other.Num) map[[1]ext.Num]other.Num {
	return deriveMinLT6(l, d)
}

func MaxlT6(l []map[[1]ext.Num]other.Num, d map[[1]ext.Num]other.Num) map[[1]ext.Num]other.Num {
	return deriveMaxLT6(l, d)
}

func MintT6(a map[[1]ext.Num]other.Num, b map[[1]ext.Num]other.Num) map[[1]ext.Num]other.Num {
	return deriveMinTT6(a, b)
}

func MaxtT6(a map[[1]ext.Num]other.Num, b map[[1]ext.Num]other.Num) map[[1]ext.Num]other.Num {
	return deriveMaxTT6(a, b)
}

func CompareT7(a map[bool]rune, b map[bool]rune) int {
	return deriveCompareT7(a, b)
}

func EqualT7(a map[bool]rune, b map[bool]rune) bool {
	return deriveEqualT7(a, b)
}

func SortT7(l []map[bool]rune) []map[bool]rune {
	return deriveSortT7(l)
}

func MinlT7(l []map[bool]rune, d map[bool]rune) map[bool]rune {
	return deriveMinLT7(l, d)
}

func MaxlT7(l []map[bool]rune, d map[bool]rune) map[bool]rune {
	return deriveMaxLT7(l, d)
}

func MintT7(a map[bool]rune, b map[bool]rune) map[bool]rune {
	return deriveMinTT7(a, b)
}

func MaxtT7(a map[bool]rune, b map[bool]rune) map[bool]rune {
	return deriveMaxTT7(a, b)
}

func CompareT8(a *N0, b *N0) int {
	return deriveCompareT8(a, b)
}

func EqualT8(a *N0, b *N0) bool {
	return deriveEqualT8(a, b)
}

func SortT8(l []*N0) []*N0 {
	return deriveSortT8(l)
}

func MinlT8(l []*N0, d *N0) *N0 {
	return deriveMinLT8(l, d)
}

func MaxlT8(l []*N0, d *N0) *N0 {
	return deriveMaxLT8(l, d)
}

func MintT8(a *N0, b *N0) *N0 {
	return deriveMinTT8(a, b)
}

func MaxtT8(a *N0, b *N0) *N0 {
	return deriveMaxTT8(a, b)
}

func CompareT9(a uint64, b uint64) int {
	return deriveCompareT9(a, b)
}

func EqualT9(a uint64, b uint64) bool {
	return deriveEqualT9(a, b)
}

func SortT9(l []uint64) []uint64 {
	return deriveSortT9(l)
}

func MinlT9(l []uint64, d uint64) uint64 {
	return deriveMinLT9(l, d)
}

func MaxlT9(l []uint64, d uint64) uint64 {
	return deriveMaxLT9(l, d)
}

func MintT9(a uint64, b uint64) uint64 {
	return deriveMinTT9(a, b)
}

func MaxtT9(a uint64, b uint64) uint64 {
	return deriveMaxTT9(a, b)
}

func KeysofT9(m map[uint64]int) []uint64 {
	return deriveKeysT9(m)
}

func CompareT10(a int, b int) int {
	return deriveCompareT10(a, b)
}

func EqualT10(a int, b int) bool {
	return deriveEqualT10(a, b)
}

func SortT10(l []int) []int {
	return deriveSortT10(l)
}

func MinlT10(l []int, d int) int {
	return deriveMinLT10(l, d)
}

func MaxlT10(l []int, d int) int {
	return deriveMaxLT10(l, d)
}

func MintT10(a int, b int) int {
	return deriveMinTT10(a, b)
}

func MaxtT10(a int, b int) int {
	return deriveMaxTT10(a, b)
}

func KeysofT10(m map[int]int) []int {
	return deriveKeysT10(m)
}

func CompareT11(a N0, b N0) int {
	return deriveCompareT11(a, b)
}

func EqualT11(a N0, b N0) bool {
	return deriveEqualT11(a, b)
}

func SortT11(l []N0) []N0 {
	return deriveSortT11(l)
}

func MinlT11(l []N0, d N0) N0 {
	return deriveMinLT11(l, d)
}

func MaxlT11(l []N0, d N0) N0 {
	return deriveMaxLT11(l, d)
}

func MintT11(a N0, b N0) N0 {
	return deriveMinTT11(a, b)
}

func MaxtT11(a N0, b N0) N0 {
	return deriveMaxTT11(a, b)
}

func CompareT12(a uintptr, b uintptr) int {
	return deriveCompareT12(a, b)
}

func EqualT12(a uintptr, b uintptr) bool {
	return deriveEqualT12(a, b)
}

func SortT12(l []uintptr) []uintptr {
	return deriveSortT12(l)
}

func MinlT12(l []uintptr, d uintptr) uintptr {
	return deriveMinLT12(l, d)
}

func MaxlT12(l []uintptr, d uintptr) uintptr {
	return deriveMaxLT12(l, d)
}

func MintT12(a uintptr, b uintptr) uintptr {
	return deriveMinTT12(a, b)
}

func MaxtT12(a uintptr, b uintptr) uintptr {
	return deriveMaxTT12(a, b)
}

func KeysofT12(m map[uintptr]int) []uintptr {
	return deriveKeysT12(m)
}

func CompareT13(a map[int]byte, b map[int]byte) int {
	return deriveCompareT13(a, b)
}

func EqualT13(a map[int]byte, b map[int]byte) bool {
	return deriveEqualT13(a, b)
}

func SortT13(l []map[int]byte) []map[int]byte {
	return deriveSortT13(l)
}

func MinlT13(l []map[int]byte, d map[int]byte) map[int]byte {
	return deriveMinLT13(l, d)
}

func MaxlT13(l []map[int]byte, d map[int]byte) map[int]byte {
	return deriveMaxLT13(l, d)
}

func MintT13(a map[int]byte, b map[int]byte) map[int]byte {
	return deriveMinTT13(a, b)
}

func MaxtT13(a map[int]byte, b map[int]byte) map[int]byte {
	return deriveMaxTT13(a, b)
}
