package p

import (
	ext "subj/ext1"
	other "subj/x/other"
)

type MyBool bool

type N0 []uint32

type K0 struct {
	F0 MyBool
	F1 [0]MyBool
	F2 other.Num
}

type S0 struct {
	F0 N0
}

type S1 struct {
	f0 N0
	f1 map[ext.Key]int
	f2 map[byte]uint8
	f3 map[K0]MyBool
}

type S2 struct {
}

type S3 struct {
}

type S4 struct {
}
