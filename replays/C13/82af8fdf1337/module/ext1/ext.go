package ext

type Num uint8

type Key struct {
	K0 int
}

type E0 struct {
	f0 float32
}

type E1 struct {
	F0 map[Key]float64
	F1 Num
	F2 []uintptr
	f3 map[Key][]uintptr
}
