package p

import (
	ext "subj/ext1"
)

type MyF float64

type K0 struct {
	F0 bool
	f1 ext.Num
	F2 string
}

type K1 struct {
	F0 uint8
	F1 complex128
	F2 byte
}

type S0 struct {
	F0 *int8
	F1 [][]map[int8]complex64
	F2 string
}

type S1 struct {
	F0 float64
}

type S2 struct {
	*K1
}

type S3 struct {
	F0 ext.E1
	F1 []byte
	F2 S1
	F3 *string
	F4 []S3
}

type S4 struct {
	F0 map[int8]ext.Num
	f1 int8
	f2 S3
	f3 []*int
	S3
	K0
}
