package p

import (
	ext "subj/ext1"
)

var Anchor = 0

func CompareT0(a K0, b K0) int {
	return deriveCompareT0(a, b)
}

func EqualT0(a K0, b K0) bool {
	return deriveEqualT0(a, b)
}

func SortT0(l []K0) []K0 {
	return deriveSortT0(l)
}

func MinlT0(l []K0, d K0) K0 {
	return deriveMinLT0(l, d)
}

func MaxlT0(l []K0, d K0) K0 {
	return deriveMaxLT0(l, d)
}

func MintT0(a K0, b K0) K0 {
	return deriveMinTT0(a, b)
}

func MaxtT0(a K0, b K0) K0 {
	return deriveMaxTT0(a, b)
}

func KeysofT0(m map[K0]int) []K0 {
	return deriveKeysT0(m)
}

func CompareT1(a *K1, b *K1) int {
	return deriveCompareT1(a, b)
}

func EqualT1(a *K1, b *K1) bool {
	return deriveEqualT1(a, b)
}

func SortT1(l []*K1) []*K1 {
	return deriveSortT1(l)
}

func MinlT1(l []*K1, d *K1) *K1 {
	return deriveMinLT1(l, d)
}

func MaxlT1(l []*K1, d *K1) *K1 {
	return deriveMaxLT1(l, d)
}

func MintT1(a *K1, b *K1) *K1 {
	return deriveMinTT1(a, b)
}

func MaxtT1(a *K1, b *K1) *K1 {
	return deriveMaxTT1(a, b)
}

func CompareT2(a *S0, b *S0) int {
	return deriveCompareT2(a, b)
}

func EqualT2(a *S0, b *S0) bool {
	return deriveEqualT2(a, b)
}

func SortT2(l []*S0) []*S0 {
	return deriveSortT2(l)
}

func MinlT2(l []*S0, d *S0) *S0 {
	return deriveMinLT2(l, d)
}

func MaxlT2(l []*S0, d *S0) *S0 {
	return deriveMaxLT2(l, d)
}

func MintT2(a *S0, b *S0) *S0 {
	return deriveMinTT2(a, b)
}

func MaxtT2(a *S0, b *S0) *S0 {
	return deriveMaxTT2(a, b)
}

func CompareT3(a *S1, b *S1) int {
	return deriveCompareT3(a, b)
}

func EqualT3(a *S1, b *S1) bool {
	return deriveEqualT3(a, b)
}

func SortT3(l []*S1) []*S1 {
	return deriveSortT3(l)
}

func MinlT3(l []*S1, d *S1) *S1 {
	return deriveMinLT3(l, d)
}

func MaxlT3(l []*S1, d *S1) *S1 {
	return deriveMaxLT3(l, d)
}

func MintT3(a *S1, b *S1) *S1 {
	return deriveMinTT3(a, b)
}

func MaxtT3(a *S1, b *S1) *S1 {
	return deriveMaxTT3(a, b)
}

func CompareT4(a *S2, b *S2) int {
	return deriveCompareT4(a, b)
}

func EqualT4(a *S2, b *S2) bool {
	return deriveEqualT4(a, b)
}

func SortT4(l []*S2) []*S2 {
	return deriveSortT4(l)
}

func MinlT4(l []*S2, d *S2) *S2 {
	return deriveMinLT4(l, d)
}

func MaxlT4(l []*S2, d *S2) *S2 {
	return deriveMaxLT4(l, d)
}

func MintT4(a *S2, b *S2) *S2 {
	return deriveMinTT4(a, b)
}

func MaxtT4(a *S2, b *S2) *S2 {
	return deriveMaxTT4(a, b)
}

func CompareT5(a S3, b S3) int {
	return deriveCompareT5(a, b)
}

func EqualT5(a S3, b S3) bool {
	return deriveEqualT5(a, b)
}

func SortT5(l []S3) []S3 {
	return deriveSortT5(l)
}

func MinlT5(l []S3, d S3) S3 {
	return deriveMinLT5(l, d)
}

func MaxlT5(l []S3, d S3) S3 {
	return deriveMaxLT5(l, d)
}

func MintT5(a S3, b S3) S3 {
	return deriveMinTT5(a, b)
}

func MaxtT5(a S3, b S3) S3 {
	return deriveMaxTT5(a, b)
}

func CompareT6(a *S4, b *S4) int {
	return deriveCompareT6(a, b)
}

func EqualT6(a *S4, b *S4) bool {
	return deriveEqualT6(a, b)
}

func SortT6(l []*S4) []*S4 {
	return deriveSortT6(l)
}

func MinlT6(l []*S4, d *S4) *S4 {
	return deriveMinLT6(l, d)
}

func MaxlT6(l []*S4, d *S4) *S4 {
	return deriveMaxLT6(l, d)
}

func MintT6(a *S4, b *S4) *S4 {
	return deriveMinTT6(a, b)
}

func MaxtT6(a *S4, b *S4) *S4 {
	return deriveMaxTT6(a, b)
}

func CompareT7(a MyF, b MyF) int {
	return deriveCompareT7(a, b)
}

func EqualT7(a MyF, b MyF) bool {
	return deriveEqualT7(a, b)
}

func SortT7(l []MyF) []MyF {
	return deriveSortT7(l)
}

func MinlT7(l []MyF, d MyF) MyF {
	return deriveMinLT7(l, d)
}

func MaxlT7(l []MyF, d MyF) MyF {
	return deriveMaxLT7(l, d)
}

func MintT7(a MyF, b MyF) MyF {
	return deriveMinTT7(a, b)
}

func MaxtT7(a MyF, b MyF) MyF {
	return deriveMaxTT7(a, b)
}

func KeysofT7(m map[MyF]int) []MyF {
	return deriveKeysT7(m)
}

func CompareT8(a ext.Key, b ext.Key) int {
	return deriveCompareT8(a, b)
}

func EqualT8(a ext.Key, b ext.Key) bool {
	return deriveEqualT8(a, b)
}

func SortT8(l []ext.Key) []ext.Key {
	return deriveSortT8(l)
}

func MinlT8(l []ext.Key, d ext.Key) ext.Key {
	return deriveMinLT8(l, d)
}

func MaxlT8(l []ext.Key, d ext.Key) ext.Key {
	return deriveMaxLT8(l, d)
}

func MintT8(a ext.Key, b ext.Key) ext.Key {
	return deriveMinTT8(a, b)
}

func MaxtT8(a ext.Key, b ext.Key) ext.Key {
	return deriveMaxTT8(a, b)
}

func KeysofT8(m map[ext.Key]int) []ext.Key {
	return deriveKeysT8(m)
}

func CompareT9(a map[K1]*uintptr, b map[K1]*uintptr) int {
	return deriveCompareT9(a, b)
}

func EqualT9(a map[K1]*uintptr, b map[K1]*uintptr) bool {
	return deriveEqualT9(a, b)
}

func SortT9(l []map[K1]*uintptr) []map[K1]*uintptr {
	return deriveSortT9(l)
}

func MinlT9(l []map[K1]*uintptr, d map[K1]*uintptr) map[K1]*uintptr {
	return deriveMinLT9(l, d)
}

func MaxlT9(l []map[K1]*uintptr, d map[K1]*uintptr) map[K1]*uintptr {
	return deriveMaxLT9(l, d)
}

func MintT9(a map[K1]*uintptr, b map[K1]*uintptr) map[K1]*uintptr {
	return deriveMinTT9(a, b)
}

func MaxtT9(a map[K1]*uintptr, b map[K1]*uintptr) map[K1]*uintptr {
	return deriveMaxTT9(a, b)
}

func CompareT10(a []byte, b []byte) int {
	return deriveCompareT10(a, b)
}

func EqualT10(a []byte, b []byte) bool {
	return deriveEqualT10(a, b)
}

func SortT10(l [][]byte) [][]byte {
	return deriveSortT10(l)
}

func MinlT10(l [][]byte, d []byte) []byte {
	return deriveMinLT10(l, d)
}

func MaxlT10(l [][]byte, d []byte) []byte {
	return deriveMaxLT10(l, d)
}

func MintT10(a []byte, b []byte) []byte {
	return deriveMinTT10(a, b)
}

func MaxtT10(a []byte, b []byte) []byte {
	return deriveMaxTT10(a, b)
}

func CompareT11(a ext.Num, b ext.Num) int {
	return deriveCompareT11(a, b)
}

func EqualT11(a ext.Num, b ext.Num) bool {
	return deriveEqualT11(a, b)
}

func SortT11(l []ext.Num) []ext.Num {
	return deriveSortT11(l)
}

func MinlT11(l []ext.Num, d ext.Num) ext.Num {
	return deriveMinLT11(l, d)
}

func MaxlT11(l []ext.Num, d ext.Num) ext.Num {
	return deriveMaxLT11(l, d)
}

func MintT11(a ext.Num, b ext.Num) ext.Num {
	return deriveMinTT11(a, b)
}

func MaxtT11(a ext.Num, b ext.Num) ext.Num {
	return deriveMaxTT11(a, b)
}

func KeysofT11(m map[ext.Num]int) []ext.Num {
	return deriveKeysT11(m)
}

func CompareT12(a uint16, b uint16) int {
	return deriveCompareT12(a, b)
}

func EqualT12(a uint16, b uint16) bool {
	return deriveEqualT12(a, b)
}

func SortT12(l []uint16) []uint16 {
	return deriveSortT12(l)
}

func MinlT12(l []uint16, d uint16) uint16 {
	return deriveMinLT12(l, d)
}

func MaxlT12(l []uint16, d uint16) uint16 {
	return deriveMaxLT12(l, d)
}

func MintT12(a uint16, b uint16) uint16 {
	return deriveMinTT12(a, b)
}

func MaxtT12(a uint16, b uint16) uint16 {
	return deriveMaxTT12(a, b)
}

func KeysofT12(m map[uint16]int) []uint16 {
	return deriveKeysT12(m)
}

func CompareT13(a map[byte]S0, b map[byte]S0) int {
	return deriveCompareT13(a, b)
}

func EqualT13(a map[byte]S0, b map[byte]S0) bool {
	return deriveEqualT13(a, b)
}

func SortT13(l []map[byte]S0) []map[byte]S0 {
	return deriveSortT13(l)
}

func MinlT13(l []map[byte]S0, d map[byte]S0) map[byte]S0 {
	return deriveMinLT13(l, d)
}

func MaxlT13(l []map[byte]S0, d map[byte]S0) map[byte]S0 {
	return deriveMaxLT13(l, d)
}

func MintT13(a map[byte]S0, b map[byte]S0) map[byte]S0 {
	return deriveMinTT13(a, b)
}

func MaxtT13(a map[byte]S0, b map[byte]S0) map[byte]S0 {
	return deriveMaxTT13(a, b)
}
