package ext

type Num float64

type Key struct {
	k0 uintptr
}

type E0 struct {
	f0 []byte
}
