package p

import (
	ext2 "subj/x/ext"
)

var Anchor = 0

func CompareT0(a map[[1]ext2.Num]int, b map[[1]ext2.Num]int) int {
	return deriveCompareT0(a, b)
}

func EqualT0(a map[[1]ext2.Num]int, b map[[1]ext2.Num]int) bool {
	return deriveEqualT0(a, b)
}

func SortT0(l []map[[1]ext2.Num]int) []map[[1]ext2.Num]int {
	return deriveSortT0(l)
}

func MinlT0(l []map[[1]ext2.Num]int, d map[[1]ext2.Num]int) map[[1]ext2.Num]int {
	return deriveMinLT0(l, d)
}

func MaxlT0(l []map[[1]ext2.Num]int, d map[[1]ext2.Num]int) map[[1]ext2.Num]int {
	return deriveMaxLT0(l, d)
}

func MintT0(a map[[1]ext2.Num]int, b map[[1]ext2.Num]int) map[[1]ext2.Num]int {
	return deriveMinTT0(a, b)
}

func MaxtT0(a map[[1]ext2.Num]int, b map[[1]ext2.Num]int) map[[1]ext2.Num]int {
	return deriveMaxTT0(a, b)
}

func CompareT1(a uint64, b uint64) int {
	return deriveCompareT1(a, b)
}

func EqualT1(a uint64, b uint64) bool {
	return deriveEqualT1(a, b)
}

func SortT1(l []uint64) []uint64 {
	return deriveSortT1(l)
}

func MinlT1(l []uint64, d uint64) uint64 {
	return deriveMinLT1(l, d)
}

func MaxlT1(l []uint64, d uint64) uint64 {
	return deriveMaxLT1(l, d)
}

func MintT1(a uint64, b uint64) uint64 {
	return deriveMinTT1(a, b)
}

func MaxtT1(a uint64, b uint64) uint64 {
	return deriveMaxTT1(a, b)
}

func KeysofT1(m map[uint64]int) []uint64 {
	return deriveKeysT1(m)
}

func CompareT2(a *S1, b *S1) int {
	return deriveCompareT2(a, b)
}

func EqualT2(a *S1, b *S1) bool {
	return deriveEqualT2(a, b)
}

func SortT2(l []*S1) []*S1 {
	return deriveSortT2(l)
}

func MinlT2(l []*S1, d *S1) *S1 {
	return deriveMinLT2(l, d)
}

func MaxlT2(l []*S1, d *S1) *S1 {
	return deriveMaxLT2(l, d)
}

func MintT2(a *S1, b *S1) *S1 {
	return deriveMinTT2(a, b)
}

func MaxtT2(a *S1, b *S1) *S1 {
	return deriveMaxTT2(a, b)
}

func CompareT3(a []K0, b []K0) int {
	return deriveCompareT3(a, b)
}

func EqualT3(a []K0, b []K0) bool {
	return deriveEqualT3(a, b)
}

func SortT3(l [][]K0) [][]K0 {
	return deriveSortT3(l)
}

func MinlT3(l [][]K0, d []K0) []K0 {
	return deriveMinLT3(l, d)
}

func MaxlT3(l [][]K0, d []K0) []K0 {
	return deriveMaxLT3(l, d)
}

func MintT3(a []K0, b []K0) []K0 {
	return deriveMinTT3(a, b)
}

func MaxtT3(a []K0, b []K0) []K0 {
	return deriveMaxTT3(a, b)
}

func CompareT4(a map[MyStr]S3, b map[MyStr]S3) int {
	return deriveCompareT4(a, b)
}

func EqualT4(a map[MyStr]S3, b map[MyStr]S3) bool {
	return deriveEqualT4(a, b)
}

func SortT4(l []map[MyStr]S3) []map[MyStr]S3 {
	return deriveSortT4(l)
}

func MinlT4(l []map[MyStr]S3, d map[MyStr]S3) map[MyStr]S3 {
	return deriveMinLT4(l, d)
}

func MaxlT4(l []map[MyStr]S3, d map[MyStr]S3) map[MyStr]S3 {
	return deriveMaxLT4(l, d)
}

func MintT4(a map[MyStr]S3, b map[MyStr]S3) map[MyStr]S3 {
	return deriveMinTT4(a, b)
}

func MaxtT4(a map[MyStr]S3, b map[MyStr]S3) map[MyStr]S3 {
	return deriveMaxTT4(a, b)
}

func CompareT5(a [1]int, b [1]int) int {
	return deriveCompareT5(a, b)
}

func EqualT5(a [1]int, b [1]int) bool {
	return deriveEqualT5(a, b)
}

func SortT5(l [][1]int) [][1]int {
	return deriveSortT5(l)
}

func MinlT5(l [][1]int, d [1]int) [1]int {
	return deriveMinLT5(l, d)
}

func MaxlT5(l [][1]int, d [1]int) [1]int {
	return deriveMaxLT5(l, d)
}

func MintT5(a [1]int, b [1]int) [1]int {
	return deriveMinTT5(a, b)
}

func MaxtT5(a [1]int, b [1]int) [1]int {
	return deriveMaxTT5(a, b)
}

func KeysofT5(m map[[1]int]int) [][1]int {
	return deriveKeysT5(m)
}

func CompareT6(a int32, b int32) int {
	return deriveCompareT6(a, b)
}

func EqualT6(a int32, b int32) bool {
	return deriveEqualT6(a, b)
}

func SortT6(l []int32) []int32 {
	return deriveSortT6(l)
}

func MinlT6(l []int32, d int32) int32 {
	return deriveMinLT6(l, d)
}

func MaxlT6(l []int32, d int32) int32 {
	return deriveMaxLT6(l, d)
}

func MintT6(a int32, b int32) int32 {
	return deriveMinTT6(a, b)
}

func MaxtT6(a int32, b int32) int32 {
	return deriveMaxTT6(a, b)
}

func KeysofT6(m map[int32]int) []int32 {
	return deriveKeysT6(m)
}

func CompareT7(a map[[1]MyStr]S2, b map[[1]MyStr]S2) int {
	return deriveCompareT7(a, b)
}

func EqualT7(a map[[1]MyStr]S2, b map[[1]MyStr]S2) bool {
	return deriveEqualT7(a, b)
}

func SortT7(l []map[[1]MyStr]S2) []map[[1]MyStr]S2 {
	return deriveSortT7(l)
}

func MinlT7(l []map[[1]MyStr]S2, d map[[1]MyStr]S2) map[[1]MyStr]S2 {
	return deriveMinLT7(l, d)
}

func MaxlT7(l []map[[1]MyStr]S2, d map[[1]MyStr]S2) map[[1]MyStr]S2 {
	return deriveMaxLT7(l, d)
}

func MintT7(a map[[1]MyStr]S2, b map[[1]MyStr]S2) map[[1]MyStr]S2 {
	return deriveMinTT7(a, b)
}

func MaxtT7(a map[[1]MyStr]S2, b map[[1]MyStr]S2) map[[1]MyStr]S2 {
	return deriveMaxTT7(a, b)
}

func CompareT8(a map[ext2.Num]MyStr, b map[ext2.Num]MyStr) int {
	return deriveCompareT8(a, b)
}

func EqualT8(a map[ext2.Num]MyStr, b map[ext2.Num]MyStr) bool {
	return deriveEqualT8(a, b)
}

func SortT8(l []map[ext2.Num]MyStr) []map[ext2.Num]MyStr {
	return deriveSortT8(l)
}

func MinlT8(l []map[ext2.Num]MyStr, d map[ext2.Num]MyStr) map[ext2.Num]MyStr {
	return deriveMinLT8(l, d)
}

func MaxlT8(l []map[ext2.Num]MyStr, d map[ext2.Num]MyStr) map[ext2.Num]MyStr {
	return deriveMaxLT8(l, d)
}

func MintT8(a map[ext2.Num]MyStr, b map[ext2.Num]MyStr) map[ext2.Num]MyStr {
	return deriveMinTT8(a, b)
}

func MaxtT8(a map[ext2.Num]MyStr, b map[ext2.Num]MyStr) map[ext2.Num]MyStr {
	return deriveMaxTT8(a, b)
}

func CompareT9(a ext2.E1, b ext2.E1) int {
	return deriveCompareT9(a, b)
}

func EqualT9(a ext2.E1, b ext2.E1) bool {
	return deriveEqualT9(a, b)
}

func SortT9(l []ext2.E1) []ext2.E1 {
	return deriveSortT9(l)
}

func MinlT9(l []ext2.E1, d ext2.E1) ext2.E1 {
	return deriveMinLT9(l, d)
}

func MaxlT9(l []ext2.E1, d ext2.E1) ext2.E1 {
	return deriveMaxLT9(l, d)
}

func MintT9(a ext2.E1, b ext2.E1) ext2.E1 {
	return deriveMinTT9(a, b)
}

func MaxtT9(a ext2.E1, b ext2.E1) ext2.E1 {
	return deriveMaxTT9(a, b)
}

func CompareT10(a []byte, b []byte) int {
	return deriveCompareT10(a, b)
}

func EqualT10(a []byte, b []byte) bool {
	return deriveEqualT10(a, b)
}

func SortT10(l [][]byte) [][]byte {
	return deriveSortT10(l)
}

func MinlT10(l [][]byte, d []byte) []byte {
	return deriveMinLT10(l, d)
}

func MaxlT10(l [][]byte, d []byte) []byte {
	return deriveMaxLT10(l, d)
}

func MintT10(a []byte, b []byte) []byte {
	return deriveMinTT10(a, b)
}

func MaxtT10(a []byte, b []byte) []byte {
	return deriveMaxTT10(a, b)
}

func CompareT11(a uintptr, b uintptr) int {
	return deriveCompareT11(a, b)
}

func EqualT11(a uintptr, b uintptr) bool {
	return deriveEqualT11(a, b)
}

func SortT11(l []uintptr) []uintptr {
	return deriveSortT11(l)
}

func MinlT11(l []uintptr, d uintptr) uintptr {
	return deriveMinLT11(l, d)
}

func MaxlT11(l []uintptr, d uintptr) uintptr {
	return deriveMaxLT11(l, d)
}

func MintT11(a uintptr, b uintptr) uintptr {
	return deriveMinTT11(a, b)
}

func MaxtT11(a uintptr, b uintptr) uintptr {
	return deriveMaxTT11(a, b)
}

func KeysofT11(m map[uintptr]int) []uintptr {
	return deriveKeysT11(m)
}

func CompareT12(a int64, b int64) int {
	return deriveCompareT12(a, b)
}

func EqualT12(a int64, b int64) bool {
	return deriveEqualT12(a, b)
}

func SortT12(l []int64) []int64 {
	return deriveSortT12(l)
}

func MinlT12(l []int64, d int64) int64 {
	return deriveMinLT12(l, d)
}

func MaxlT12(l []int64, d int64) int64 {
	return deriveMaxLT12(l, d)
}

func MintT12(a int64, b int64) int64 {
	return deriveMinTT12(a, b)
}

func MaxtT12(a int64, b int64) int64 {
	return deriveMaxTT12(a, b)
}

func KeysofT12(m map[int64]int) []int64 {
	return deriveKeysT12(m)
}

func CompareT13(a S0, b S0) int {
	return deriveCompareT13(a, b)
}

func EqualT13(a S0, b S0) bool {
	return deriveEqualT13(a, b)
}

func SortT13(l []S0) []S0 {
	return deriveSortT13(l)
}

func MinlT13(l []S0, d S0) S0 {
	return deriveMinLT13(l, d)
}

func MaxlT13(l []S0, d S0) S0 {
	return deriveMaxLT13(l, d)
}

func MintT13(a S0, b S0) S0 {
	return deriveMinTT13(a, b)
}

func MaxtT13(a S0, b S0) S0 {
	return deriveMaxTT13(a, b)
}

func KeysofT13(m map[S0]int) []S0 {
	return deriveKeysT13(m)
}
