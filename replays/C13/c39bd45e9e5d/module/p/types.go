package p

import (
	ext "subj/ext1"
	ext2 "subj/x/ext"
)

type MyStr string

type K0 struct {
	F0 ext2.Num
}

type S0 struct {
	F0 int16
	f1 K0
	F2 ext.Key
	f3 uint16
}

type S1 struct {
	*S0
	f1 *S1
}

type S2 struct {
	F0 uint
	F1 MyStr
	F2 bool
}

type S3 struct {
	F0 uint16
	f1 string
	F2 string
	F3 bool
}
