package ext

import (
	ext "subj/ext1"
)

type Num int

type Key struct {
	k0 Num
	K1 Num
	K2 uint64
}

type E0 struct {
	f0 ext.Num
	f1 ext.E0
	f2 []byte
	f3 []byte
}

type E1 struct {
	F0 Num
	F1 **int
}
