package p

import (
	ext "subj/ext1"
	other "subj/x/other"
)

var Anchor = 0

func CompareT0(a *K0, b *K0) int {
	return deriveCompareT0(a, b)
}

func EqualT0(a *K0, b *K0) bool {
	return deriveEqualT0(a, b)
}

func SortT0(l []*K0) []*K0 {
	return deriveSortT0(l)
}

func MinlT0(l []*K0, d *K0) *K0 {
	return deriveMinLT0(l, d)
}

func MaxlT0(l []*K0, d *K0) *K0 {
	return deriveMaxLT0(l, d)
}

func MintT0(a *K0, b *K0) *K0 {
	return deriveMinTT0(a, b)
}

func MaxtT0(a *K0, b *K0) *K0 {
	return deriveMaxTT0(a, b)
}

func CompareT1(a S0, b S0) int {
	return deriveCompareT1(a, b)
}

func EqualT1(a S0, b S0) bool {
	return deriveEqualT1(a, b)
}

func SortT1(l []S0) []S0 {
	return deriveSortT1(l)
}

func MinlT1(l []S0, d S0) S0 {
	return deriveMinLT1(l, d)
}

func MaxlT1(l []S0, d S0) S0 {
	return deriveMaxLT1(l, d)
}

func MintT1(a S0, b S0) S0 {
	return deriveMinTT1(a, b)
}

func MaxtT1(a S0, b S0) S0 {
	return deriveMaxTT1(a, b)
}

func KeysofT1(m map[S0]int) []S0 {
	return deriveKeysT1(m)
}

func CompareT2(a ext.E0, b ext.E0) int {
	return deriveCompareT2(a, b)
}

func EqualT2(a ext.E0, b ext.E0) bool {
	return deriveEqualT2(a, b)
}

func SortT2(l []ext.E0) []ext.E0 {
	return deriveSortT2(l)
}

func MinlT2(l []ext.E0, d ext.E0) ext.E0 {
	return deriveMinLT2(l, d)
}

func MaxlT2(l []ext.E0, d ext.E0) ext.E0 {
	return deriveMaxLT2(l, d)
}

func MintT2(a ext.E0, b ext.E0) ext.E0 {
	return deriveMinTT2(a, b)
}

func MaxtT2(a ext.E0, b ext.E0) ext.E0 {
	return deriveMaxTT2(a, b)
}

func KeysofT2(m map[ext.E0]int) []ext.E0 {
	return deriveKeysT2(m)
}

func CompareT3(a int32, b int32) int {
	return deriveCompareT3(a, b)
}

func EqualT3(a int32, b int32) bool {
	return deriveEqualT3(a, b)
}

func SortT3(l []int32) []int32 {
	return deriveSortT3(l)
}

func MinlT3(l []int32, d int32) int32 {
	return deriveMinLT3(l, d)
}

func MaxlT3(l []int32, d int32) int32 {
	return deriveMaxLT3(l, d)
}

func MintT3(a int32, b int32) int32 {
	return deriveMinTT3(a, b)
}

func MaxtT3(a int32, b int32) int32 {
	return deriveMaxTT3(a, b)
}

func KeysofT3(m map[int32]int) []int32 {
	return deriveKeysT3(m)
}

func CompareT4(a int, b int) int {
	return deriveCompareT4(a, b)
}

func EqualT4(a int, b int) bool {
	return deriveEqualT4(a, b)
}

func SortT4(l []int) []int {
	return deriveSortT4(l)
}

func MinlT4(l []int, d int) int {
	return deriveMinLT4(l, d)
}

func MaxlT4(l []int, d int) int {
	return deriveMaxLT4(l, d)
}

func MintT4(a int, b int) int {
	return deriveMinTT4(a, b)
}

func MaxtT4(a int, b int) int {
	return deriveMaxTT4(a, b)
}

func KeysofT4(m map[int]int) []int {
	return deriveKeysT4(m)
}

func CompareT5(a *int, b *int) int {
	return deriveCompareT5(a, b)
}

func EqualT5(a *int, b *int) bool {
	return deriveEqualT5(a, b)
}

func SortT5(l []*int) []*int {
	return deriveSortT5(l)
}

func MinlT5(l []*int, d *int) *int {
	return deriveMinLT5(l, d)
}

func MaxlT5(l []*int, d *int) *int {
	return deriveMaxLT5(l, d)
}

func MintT5(a *int, b *int) *int {
	return deriveMinTT5(a, b)
}

func MaxtT5(a *int, b *int) *int {
	return deriveMaxTT5(a, b)
}

func CompareT6(a []int64, b []int64) int {
	return deriveCompareT6(a, b)
}

func EqualT6(a []int64, b []int64) bool {
	return deriveEqualT6(a, b)
}

func SortT6(l [][]int64) [][]int64 {
	return deriveSortT6(l)
}

func MinlT6(l [][]int64, d []int64) []int64 {
	return deriveMinLT6(l, d)
}

func MaxlT6(l [][]int64, d []int64) []int64 {
	return deriveMaxLT6(l, d)
}

func MintT6(a []int64, b []int64) []int64 {
	return deriveMinTT6(a, b)
}

func MaxtT6(a []int64, b []int64) []int64 {
	return deriveMaxTT6(a, b)
}

func CompareT7(a []other.E1, b []other.E1) int {
	return deriveCompareT7(a, b)
}

func EqualT7(a []other.E1, b []other.E1) bool {
	return deriveEqualT7(a, b)
}

func SortT7(l [][]other.E1) [][]other.E1 {
	return deriveSortT7(l)
}

func MinlT7(l [][]other.E1, d []other.E1) []other.E1 {
	return deriveMinLT7(l, d)
}

func MaxlT7(l [][]other.E1, d []other.E1) []other.E1 {
	return deriveMaxLT7(l, d)
}

func MintT7(a []other.E1, b []other.E1) []other.E1 {
	return deriveMinTT7(a, b)
}

func MaxtT7(a []other.E1, b []other.E1) []other.E1 {
	return deriveMaxTT7(a, b)
}

func CompareT8(a *[2]string, b *[2]string) int {
	return deriveCompareT8(a, b)
}

func EqualT8(a *[2]string, b *[2]string) bool {
	return deriveEqualT8(a, b)
}

func SortT8(l []*[2]string) []*[2]string {
	return deriveSortT8(l)
}

func MinlT8(l []*[2]string, d *[2]string) *[2]string {
	return deriveMinLT8(l, d)
}

func MaxlT8(l []*[2]string, d *[2]string) *[2]string {
	return deriveMaxLT8(l, d)
}

func MintT8(a *[2]string, b *[2]string) *[2]string {
	return deriveMinTT8(a, b)
}

func MaxtT8(a *[2]string, b *[2]string) *[2]string {
	return deriveMaxTT8(a, b)
}

func CompareT9(a float32, b float32) int {
	return deriveCompareT9(a, b)
}

func EqualT9(a float32, b float32) bool {
	return deriveEqualT9(a, b)
}

func SortT9(l []float32) []float32 {
	return deriveSortT9(l)
}

func MinlT9(l []float32, d float32) float32 {
	return deriveMinLT9(l, d)
}

func MaxlT9(l []float32, d float32) float32 {
	return deriveMaxLT9(l, d)
}

func MintT9(a float32, b float32) float32 {
	return deriveMinTT9(a, b)
}

func MaxtT9(a float32, b float32) float32 {
	return deriveMaxTT9(a, b)
}

func KeysofT9(m map[float32]int) []float32 {
	return deriveKeysT9(m)
}

func CompareT10(a other.E0, b other.E0) int {
	return deriveCompareT10(a, b)
}

func EqualT10(a other.E0, b other.E0) bool {
	return deriveEqualT10(a, b)
}

func SortT10(l []other.E0) []other.E0 {
	return deriveSortT10(l)
}

func MinlT10(l []other.E0, d other.E0) other.E0 {
	return deriveMinLT10(l, d)
}

func MaxlT10(l []other.E0, d other.E0) other.E0 {
	return deriveMaxLT10(l, d)
}

func MintT10(a other.E0, b other.E0) other.E0 {
	return deriveMinTT10(a, b)
}

func MaxtT10(a other.E0, b other.E0) other.E0 {
	return deriveMaxTT10(a, b)
}

func KeysofT10(m map[other.E0]int) []other.E0 {
	return deriveKeysT10(m)
}

func CompareT11(a map[ext.Key]S0, b map[ext.Key]S0) int {
	return deriveCompareT11(a, b)
}

func EqualT11(a map[ext.Key]S0, b map[ext.Key]S0) bool {
	return deriveEqualT11(a, b)
}

func SortT11(l []map[ext.Key]S0) []map[ext.Key]S0 {
	return deriveSortT11(l)
}

func MinlT11(l []map[ext.Key]S0, d map[ext.Key]S0) map[ext.Key]S0 {
	return deriveMinLT11(l, d)
}

func MaxlT11(l []map[ext.Key]S0, d map[ext.Key]S0) map[ext.Key]S0 {
	return deriveMaxLT11(l, d)
}

func MintT11(a map[ext.Key]S0, b map[ext.Key]S0) map[ext.Key]S0 {
	return deriveMinTT11(a, b)
}

func MaxtT11(a map[ext.Key]S0, b map[ext.Key]S0) map[ext.Key]S0 {
	return deriveMaxTT11(a, b)
}

func CompareT12(a []string, b []string) int {
	return deriveCompareT12(a, b)
}

func EqualT12(a []string, b []string) bool {
	return deriveEqualT12(a, b)
}

func SortT12(l [][]string) [][]string {
	return deriveSortT12(l)
}

func MinlT12(l [][]string, d []string) []string {
	return deriveMinLT12(l, d)
}

func MaxlT12(l [][]string, d []string) []string {
	return deriveMaxLT12(l, d)
}

func MintT12(a []string, b []string) []string {
	return deriveMinTT12(a, b)
}

func MaxtT12(a []string, b []string) []string {
	return deriveMaxTT12(a, b)
}

func CompareT13(a bool, b bool) int {
	return deriveCompareT13(a, b)
}

func EqualT13(a bool, b bool) bool {
	return deriveEqualT13(a, b)
}

func SortT13(l []bool) []bool {
	return deriveSortT13(l)
}

func KeysofT13(m map[bool]int) []bool {
	return deriveKeysT13(m)
}
