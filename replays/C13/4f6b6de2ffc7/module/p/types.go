package p

import (
	other "subj/x/other"
)

type MyF32 float32

type MyInt int

type MyF float64

type MyI64 int64

type N0 []bool

type N1 map[K0]int

type N2 []bool

type K0 struct {
	F0 bool
	F1 MyInt
}

type S0 struct {
	f0 other.E0
}
