package other

type Num int

type Key struct {
	k0 float32
	k1 uint64
}

type E0 struct {
}

type E1 struct {
	F0 *map[int]int64
	f1 map[Key]*E1
	f2 Num
}
