package ext

type Num string

type Key struct {
	K0 Num
	K1 uintptr
	k2 complex128
}

type E0 struct {
	F0 [0]bool
	F1 Num
}
