package p

import (
	ext "subj/ext1"
)

var Anchor = 0

func CompareT0(a K0, b K0) int {
	return deriveCompareT0(a, b)
}

func EqualT0(a K0, b K0) bool {
	return deriveEqualT0(a, b)
}

func SortT0(l []K0) []K0 {
	return deriveSortT0(l)
}

func MinlT0(l []K0, d K0) K0 {
	return deriveMinLT0(l, d)
}

func MaxlT0(l []K0, d K0) K0 {
	return deriveMaxLT0(l, d)
}

func MintT0(a K0, b K0) K0 {
	return deriveMinTT0(a, b)
}

func MaxtT0(a K0, b K0) K0 {
	return deriveMaxTT0(a, b)
}

func KeysofT0(m map[K0]int) []K0 {
	return deriveKeysT0(m)
}

func CompareT1(a int, b int) int {
	return deriveCompareT1(a, b)
}

func EqualT1(a int, b int) bool {
	return deriveEqualT1(a, b)
}

func SortT1(l []int) []int {
	return deriveSortT1(l)
}

func MinlT1(l []int, d int) int {
	return deriveMinLT1(l, d)
}

func MaxlT1(l []int, d int) int {
	return deriveMaxLT1(l, d)
}

func MintT1(a int, b int) int {
	return deriveMinTT1(a, b)
}

func MaxtT1(a int, b int) int {
	return deriveMaxTT1(a, b)
}

func KeysofT1(m map[int]int) []int {
	return deriveKeysT1(m)
}

func CompareT2(a bool, b bool) int {
	return deriveCompareT2(a, b)
}

func EqualT2(a bool, b bool) bool {
	return deriveEqualT2(a, b)
}

func SortT2(l []bool) []bool {
	return deriveSortT2(l)
}

func KeysofT2(m map[bool]int) []bool {
	return deriveKeysT2(m)
}

func CompareT3(a *S1, b *S1) int {
	return deriveCompareT3(a, b)
}

func EqualT3(a *S1, b *S1) bool {
	return deriveEqualT3(a, b)
}

func SortT3(l []*S1) []*S1 {
	return deriveSortT3(l)
}

func MinlT3(l []*S1, d *S1) *S1 {
	return deriveMinLT3(l, d)
}

func MaxlT3(l []*S1, d *S1) *S1 {
	return deriveMaxLT3(l, d)
}

func MintT3(a *S1, b *S1) *S1 {
	return deriveMinTT3(a, b)
}

func MaxtT3(a *S1, b *S1) *S1 {
	return deriveMaxTT3(a, b)
}

func CompareT4(a rune, b rune) int {
	return deriveCompareT4(a, b)
}

func EqualT4(a rune, b rune) bool {
	return deriveEqualT4(a, b)
}

func SortT4(l []rune) []rune {
	return deriveSortT4(l)
}

func MinlT4(l []rune, d rune) rune {
	return deriveMinLT4(l, d)
}

func MaxlT4(l []rune, d rune) rune {
	return deriveMaxLT4(l, d)
}

func MintT4(a rune, b rune) rune {
	return deriveMinTT4(a, b)
}

func MaxtT4(a rune, b rune) rune {
	return deriveMaxTT4(a, b)
}

func KeysofT4(m map[rune]int) []rune {
	return deriveKeysT4(m)
}

func CompareT5(a map[[2]int64]K0, b map[[2]int64]K0) int {
	return deriveCompareT5(a, b)
}

func EqualT5(a map[[2]int64]K0, b map[[2]int64]K0) bool {
	return deriveEqualT5(a, b)
}

func SortT5(l []map[[2]int64]K0) []map[[2]int64]K0 {
	return deriveSortT5(l)
}

func MinlT5(l []map[[2]int64]K0, d map[[2]int64]K0) map[[2]int64]K0 {
	return deriveMinLT5(l, d)
}

func MaxlT5(l []map[[2]int64]K0, d map[[2]int64]K0) map[[2]int64]K0 {
	return deriveMaxLT5(l, d)
}

func MintT5(a map[[2]int64]K0, b map[[2]int64]K0) map[[2]int64]K0 {
	return deriveMinTT5(a, b)
}

func MaxtT5(a map[[2]int64]K0, b map[[2]int64]K0) map[[2]int64]K0 {
	return deriveMaxTT5(a, b)
}

func CompareT6(a uint16, b uint16) int {
	return deriveCompareT6(a, b)
}

func EqualT6(a uint16, b uint16) bool {
	return deriveEqualT6(a, b)
}

func SortT6(l []uint16) []uint16 {
	return deriveSortT6(l)
}

func MinlT6(l []uint16, d uint16) uint16 {
	return deriveMinLT6(l, d)
}

func MaxlT6(l []uint16, d uint16) uint16 {
	return deriveMaxLT6(l, d)
}

func MintT6(a uint16, b uint16) uint16 {
	return deriveMinTT6(a, b)
}

func MaxtT6(a uint16, b uint16) uint16 {
	return deriveMaxTT6(a, b)
}

func KeysofT6(m map[uint16]int) []uint16 {
	return deriveKeysT6(m)
}

func CompareT7(a string, b string) int {
	return deriveCompareT7(a, b)
}

func EqualT7(a string, b string) bool {
	return deriveEqualT7(a, b)
}

func SortT7(l []string) []string {
	return deriveSortT7(l)
}

func MinlT7(l []string, d string) string {
	return deriveMinLT7(l, d)
}

func MaxlT7(l []string, d string) string {
	return deriveMaxLT7(l, d)
}

func MintT7(a string, b string) string {
	return deriveMinTT7(a, b)
}

func MaxtT7(a string, b string) string {
	return deriveMaxTT7(a, b)
}

func KeysofT7(m map[string]int) []string {
	return deriveKeysT7(m)
}

func CompareT8(a ext.Key, b ext.Key) int {
	return deriveCompareT8(a, b)
}

func EqualT8(a ext.Key, b ext.Key) bool {
	return deriveEqualT8(a, b)
}

func SortT8(l []ext.Key) []ext.Key {
	return deriveSortT8(l)
}

func MinlT8(l []ext.Key, d ext.Key) ext.Key {
	return deriveMinLT8(l, d)
}

func MaxlT8(l []ext.Key, d ext.Key) ext.Key {
	return deriveMaxLT8(l, d)
}

func MintT8(a ext.Key, b ext.Key) ext.Key {
	return deriveMinTT8(a, b)
}

func MaxtT8(a ext.Key, b ext.Key) ext.Key {
	return deriveMaxTT8(a, b)
}

func KeysofT8(m map[ext.Key]int) []ext.Key {
	return deriveKeysT8(m)
}

func CompareT9(a uint, b uint) int {
	return deriveCompareT9(a, b)
}

func EqualT9(a uint, b uint) bool {
	return deriveEqualT9(a, b)
}

func SortT9(l []uint) []uint {
	return deriveSortT9(l)
}

func MinlT9(l []uint, d uint) uint {
	return deriveMinLT9(l, d)
}

func MaxlT9(l []uint, d uint) uint {
	return deriveMaxLT9(l, d)
}

func MintT9(a uint, b uint) uint {
	return deriveMinTT9(a, b)
}

func MaxtT9(a uint, b uint) uint {
	return deriveMaxTT9(a, b)
}

func KeysofT9(m map[uint]int) []uint {
	return deriveKeysT9(m)
}

func CompareT10(a map[bool]K0, b map[bool]K0) int {
	return deriveCompareT10(a, b)
}

func EqualT10(a map[bool]K0, b map[bool]K0) bool {
	return deriveEqualT10(a, b)
}

func SortT10(l []map[bool]K0) []map[bool]K0 {
	return deriveSortT10(l)
}

func MinlT10(l []map[bool]K0, d map[bool]K0) map[bool]K0 {
	return deriveMinLT10(l, d)
}

func MaxlT10(l []map[bool]K0, d map[bool]K0) map[bool]K0 {
	return deriveMaxLT10(l, d)
}

func MintT10(a map[bool]K0, b map[bool]K0) map[bool]K0 {
	return deriveMinTT10(a, b)
}

func MaxtT10(a map[bool]K0, b map[bool]K0) map[bool]K0 {
	return deriveMaxTT10(a, b)
}

func CompareT11(a int8, b int8) int {
	return deriveCompareT11(a, b)
}

func EqualT11(a int8, b int8) bool {
	return deriveEqualT11(a, b)
}

func SortT11(l []int8) []int8 {
	return deriveSortT11(l)
}

func MinlT11(l []int8, d int8) int8 {
	return deriveMinLT11(l, d)
}

func MaxlT11(l []int8, d int8) int8 {
	return deriveMaxLT11(l, d)
}

func MintT11(a int8, b int8) int8 {
	return deriveMinTT11(a, b)
}

func MaxtT11(a int8, b int8) int8 {
	return deriveMaxTT11(a, b)
}

func KeysofT11(m map[int8]int) []int8 {
	return deriveKeysT11(m)
}

func CompareT12(a []bool, b []bool) int {
	return deriveCompareT12(a, b)
}

func EqualT12(a []bool, b []bool) bool {
	return deriveEqualT12(a, b)
}

func SortT12(l [][]bool) [][]bool {
	return deriveSortT12(l)
}

func MinlT12(l [][]bool, d []bool) []bool {
	return deriveMinLT12(l, d)
}

func MaxlT12(l [][]bool, d []bool) []bool {
	return deriveMaxLT12(l, d)
}

func MintT12(a []bool, b []bool) []bool {
	return deriveMinTT12(a, b)
}

func MaxtT12(a []bool, b []bool) []bool {
	return deriveMaxTT12(a, b)
}

func CompareT13(a map[bool]bool, b map[bool]bool) int {
	return deriveCompareT13(a, b)
}

func EqualT13(a map[bool]bool, b map[bool]bool) bool {
	return deriveEqualT13(a, b)
}

func SortT13(l []map[bool]bool) []map[bool]bool {
	return deriveSortT13(l)
}

func MinlT13(l []map[bool]bool, d map[bool]bool) map[bool]bool {
	return deriveMinLT13(l, d)
}

func MaxlT13(l []map[bool]bool, d map[bool]bool) map[bool]bool {
	return deriveMaxLT13(l, d)
}

func MintT13(a map[bool]bool, b map[bool]bool) map[bool]bool {
	return deriveMinTT13(a, b)
}

func MaxtT13(a map[bool]bool, b map[bool]bool) map[bool]bool {
	return deriveMaxTT13(a, b)
}
