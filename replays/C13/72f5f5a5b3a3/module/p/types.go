package p

type MyBool bool

type MyC complex128

type MyRune rune

type MyStr string

type K0 struct {
	F0 int
	F1 int
}

type K1 struct {
	f0 MyRune
}

type S0 struct {
	F0 *[]S1
	*K0
}

type S1 struct {
	f0 [][1]map[[0]complex128]bool
	S0
	f2 int8
	F3 MyC
	f4 int
}
