package ext

type Num int

type Key struct {
	k0 int
}

type E0 struct {
	F0 []byte
}

type E1 struct {
}
