package ext

type Num int64

type Key struct {
	K0 bool
	k1 Num
}

type E0 struct {
}
