package ext

type Num float64

type Key struct {
	K0 Num
	K1 bool
}

type E0 struct {
	f0 *uint64
	f1 bool
}
