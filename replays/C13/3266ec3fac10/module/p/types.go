package p

import (
	ext "subj/ext1"
)

type MyF32 float32

type MyInt int

type MyF float64

type MyI64 int64

type N0 map[K1]ext.Num

type K0 struct {
	F0 uint16
}

type K1 struct {
	F0 float32
	F1 [0]rune
}

type S0 struct {
}
