package p

import (
	ext "subj/ext1"
)

var Anchor = 0

func CompareT0(a K0, b K0) int {
	return deriveCompareT0(a, b)
}

func EqualT0(a K0, b K0) bool {
	return deriveEqualT0(a, b)
}

func SortT0(l []K0) []K0 {
	return deriveSortT0(l)
}

func MinlT0(l []K0, d K0) K0 {
	return deriveMinLT0(l, d)
}

func MaxlT0(l []K0, d K0) K0 {
	return deriveMaxLT0(l, d)
}

func MintT0(a K0, b K0) K0 {
	return deriveMinTT0(a, b)
}

func MaxtT0(a K0, b K0) K0 {
	return deriveMaxTT0(a, b)
}

func KeysofT0(m map[K0]int) []K0 {
	return deriveKeysT0(m)
}

func CompareT1(a map[ext.Num]map[int8]K1, b map[ext.Num]map[int8]K1) int {
	return deriveCompareT1(a, b)
}

func EqualT1(a map[ext.Num]map[int8]K1, b map[ext.Num]map[int8]K1) bool {
	return deriveEqualT1(a, b)
}

func SortT1(l []map[ext.Num]map[int8]K1) []map[ext.Num]map[int8]K1 {
	return deriveSortT1(l)
}

func MinlT1(l []map[ext.Num]map[int8]K1, d map[ext.Num]map[int8]K1) map[ext.Num]map[int8]K1 {
	return deriveMinLT1(l, d)
}

func MaxlT1(l []map[ext.Num]map[int8]K1, d map[ext.Num]map[int8]K1) map[ext.Num]map[int8]K1 {
	return deriveMaxLT1(l, d)
}

func MintT1(a map[ext.Num]map[int8]K1, b map[ext.Num]map[int8]K1) map[ext.Num]map[int8]K1 {
	return deriveMinTT1(a, b)
}

func MaxtT1(a map[ext.Num]map[int8]K1, b map[ext.Num]map[int8]K1) map[ext.Num]map[int8]K1 {
	return deriveMaxTT1(a, b)
}

func CompareT2(a S0, b S0) int {
	return deriveCompareT2(a, b)
}

func EqualT2(a S0, b S0) bool {
	return deriveEqualT2(a, b)
}

func SortT2(l []S0) []S0 {
	return deriveSortT2(l)
}

func MinlT2(l []S0, d S0) S0 {
	return deriveMinLT2(l, d)
}

func MaxlT2(l []S0, d S0) S0 {
	return deriveMaxLT2(l, d)
}

func MintT2(a S0, b S0) S0 {
	return deriveMinTT2(a, b)
}

func MaxtT2(a S0, b S0) S0 {
	return deriveMaxTT2(a, b)
}

func KeysofT2(m map[S0]int) []S0 {
	return deriveKeysT2(m)
}

func CompareT3(a map[K1]bool, b map[K1]bool) int {
	return deriveCompareT3(a, b)
}

func EqualT3(a map[K1]bool, b map[K1]bool) bool {
	return deriveEqualT3(a, b)
}

func SortT3(l []map[K1]bool) []map[K1]bool {
	return deriveSortT3(l)
}

func MinlT3(l []map[K1]bool, d map[K1]bool) map[K1]bool {
	return deriveMinLT3(l, d)
}

func MaxlT3(l []map[K1]bool, d map[K1]bool) map[K1]bool {
	return deriveMaxLT3(l, d)
}

func MintT3(a map[K1]bool, b map[K1]bool) map[K1]bool {
	return deriveMinTT3(a, b)
}

func MaxtT3(a map[K1]bool, b map[K1]bool) map[K1]bool {
	return deriveMaxTT3(a, b)
}

func CompareT4(a ext.Num, b ext.Num) int {
	return deriveCompareT4(a, b)
}

func EqualT4(a ext.Num, b ext.Num) bool {
	return deriveEqualT4(a, b)
}

func SortT4(l []ext.Num) []ext.Num {
	return deriveSortT4(l)
}

func MinlT4(l []ext.Num, d ext.Num) ext.Num {
	return deriveMinLT4(l, d)
}

func MaxlT4(l []ext.Num, d ext.Num) ext.Num {
	return deriveMaxLT4(l, d)
}

func MintT4(a ext.Num, b ext.Num) ext.Num {
	return deriveMinTT4(a, b)
}

func MaxtT4(a ext.Num, b ext.Num) ext.Num {
	return deriveMaxTT4(a, b)
}

func KeysofT4(m map[ext.Num]int) []ext.Num {
	return deriveKeysT4(m)
}

func CompareT5(a complex64, b complex64) int {
	return deriveCompareT5(a, b)
}

func EqualT5(a complex64, b complex64) bool {
	return deriveEqualT5(a, b)
}

func SortT5(l []complex64) []complex64 {
	return deriveSortT5(l)
}

func KeysofT5(m map[complex64]int) []complex64 {
	return deriveKeysT5(m)
}

func CompareT6(a uint16, b uint16) int {
	return deriveCompareT6(a, b)
}

func EqualT6(a uint16, b uint16) bool {
	return deriveEqualT6(a, b)
}

func SortT6(l []uint16) []uint16 {
	return deriveSortT6(l)
}

func MinlT6(l []uint16, d uint16) uint16 {
	return deriveMinLT6(l, d)
}

func MaxlT6(l []uint16, d uint16) uint16 {
	return deriveMaxLT6(l, d)
}

func MintT6(a uint16, b uint16) uint16 {
	return deriveMinTT6(a, b)
}

func MaxtT6(a uint16, b uint16) uint16 {
	return deriveMaxTT6(a, b)
}

func KeysofT6(m map[uint16]int) []uint16 {
	return deriveKeysT6(m)
}

func CompareT7(a [][3][]bool, b [][3][]bool) int {
	return deriveCompareT7(a, b)
}

func EqualT7(a [][3][]bool, b [][3][]bool) bool {
	return deriveEqualT7(a, b)
}

func SortT7(l [][][3][]bool) [][][3][]bool {
	return deriveSortT7(l)
}

func MinlT7(l [][][3][]bool, d [][3][]bool) [][3][]bool {
	return deriveMinLT7(l, d)
}

func MaxlT7(l [][][3][]bool, d [][3][]bool) [][3][]bool {
	return deriveMaxLT7(l, d)
}

func MintT7(a [][3][]bool, b [][3][]bool) [][3][]bool {
	return deriveMinTT7(a, b)
}

func MaxtT7(a [][3][]bool, b [][3][]bool) [][3][]bool {
	return deriveMaxTT7(a, b)
}

func CompareT8(a []K1, b []K1) int {
	return deriveCompareT8(a, b)
}

func EqualT8(a []K1, b []K1) bool {
	return deriveEqualT8(a, b)
}

func SortT8(l [][]K1) [][]K1 {
	return deriveSortT8(l)
}

func MinlT8(l [][]K1, d []K1) []K1 {
	return deriveMinLT8(l, d)
}

func MaxlT8(l [][]K1, d []K1) []K1 {
	return deriveMaxLT8(l, d)
}

func MintT8(a []K1, b []K1) []K1 {
	return deriveMinTT8(a, b)
}

func MaxtT8(a []K1, b []K1) []K1 {
	return deriveMaxTT8(a, b)
}

func CompareT9(a N0, b N0) int {
	return deriveCompareT9(a, b)
}

func EqualT9(a N0, b N0) bool {
	return deriveEqualT9(a, b)
}

func SortT9(l []N0) []N0 {
	return deriveSortT9(l)
}

func MinlT9(l []N0, d N0) N0 {
	return deriveMinLT9(l, d)
}

func MaxlT9(l []N0, d N0) N0 {
	return deriveMaxLT9(l, d)
}

func MintT9(a N0, b N0) N0 {
	return deriveMinTT9(a, b)
}

func MaxtT9(a N0, b N0) N0 {
	return deriveMaxTT9(a, b)
}

func CompareT10(a bool, b bool) int {
	return deriveCompareT10(a, b)
}

func EqualT10(a bool, b bool) bool {
	return deriveEqualT10(a, b)
}

func SortT10(l []bool) []bool {
	return deriveSortT10(l)
}

func KeysofT10(m map[bool]int) []bool {
	return deriveKeysT10(m)
}

func CompareT11(a *K1, b *K1) int {
	return deriveCompareT11(a, b)
}

func EqualT11(a *K1, b *K1) bool {
	return deriveEqualT11(a, b)
}

func SortT11(l []*K1) []*K1 {
	return deriveSortT11(l)
}

func MinlT11(l []*K1, d *K1) *K1 {
	return deriveMinLT11(l, d)
}

func MaxlT11(l []*K1, d *K1) *K1 {
	return deriveMaxLT11(l, d)
}

func MintT11(a *K1, b *K1) *K1 {
	return deriveMinTT11(a, b)
}

func MaxtT11(a *K1, b *K1) *K1 {
	return deriveMaxTT11(a, b)
}

func CompareT12(a int16, b int16) int {
	return deriveCompareT12(a, b)
}

func EqualT12(a int16, b int16) bool {
	return deriveEqualT12(a, b)
}

func SortT12(l []int16) []int16 {
	return deriveSortT12(l)
}

func MinlT12(l []int16, d int16) int16 {
	return deriveMinLT12(l, d)
}

func MaxlT12(l []int16, d int16) int16 {
	return deriveMaxLT12(l, d)
}

func MintT12(a int16, b int16) int16 {
	return deriveMinTT12(a, b)
}

func MaxtT12(a int16, b int16) int16 {
	return deriveMaxTT12(a, b)
}

func KeysofT12(m map[int16]int) []int16 {
	return deriveKeysT12(m)
}

func CompareT13(a byte, b byte) int {
	return deriveCompareT13(a, b)
}

func EqualT13(a byte, b byte) bool {
	return deriveEqualT13(a, b)
}

func SortT13(l []byte) []byte {
	return deriveSortT13(l)
}

func MinlT13(l []byte, d byte) byte {
	return deriveMinLT13(l, d)
}

func MaxlT13(l []byte, d byte) byte {
	return deriveMaxLT13(l, d)
}

func MintT13(a byte, b byte) byte {
	return deriveMinTT13(a, b)
}

func MaxtT13(a byte, b byte) byte {
	return deriveMaxTT13(a, b)
}

func KeysofT13(m map[byte]int) []byte {
	return deriveKeysT13(m)
}
