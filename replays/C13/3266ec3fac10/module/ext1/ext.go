package ext

type Num int64

type Key struct {
	K0 Num
	K1 bool
	K2 uint16
}

type E0 struct {
	F0 []byte
	f1 []byte
	f2 Num
}

type E1 struct {
	F0 []byte
}
