package ext

import (
	ext "subj/ext1"
)

type Num string

type Key struct {
	K0 uintptr
}

type E0 struct {
	f0 []byte
	F1 []map[int]ext.Num
}
