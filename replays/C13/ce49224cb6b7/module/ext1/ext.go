package ext

type Num float64

type Key struct {
	K0 bool
	K1 float64
}

type E0 struct {
	f0 *[]byte
}

type E1 struct {
	f0 *E1
	f1 *E1
	f2 **uint32
}
