package p

import (
	ext "subj/ext1"
	ext2 "subj/x/ext"
)

type MyF32 float32

type N0 map[complex128]uint16

type K0 struct {
	F0 int64
}

type K1 struct {
	F0 bool
	F1 uint
}

type S0 struct {
	F0 int
	F1 ext2.Key
	F2 ext2.E0
	F3 ext.Num
	F4 uintptr
}

type S1 struct {
	F0 []N0
	F1 bool
}

type S2 struct {
	F0 map[MyF32]S0
	F1 []*N0
	F2 complex128
	f3 map[uintptr]S2
	F4 [1]ext2.E0
}

type S3 struct {
}
