package p

import (
	ext2 "subj/x/ext"
)

type MyF float64

type MyI64 int64

type N0 [][]uint

type K0 struct {
	f0 int8
	f1 ext2.Num
	F2 float64
}

type K1 struct {
	F0 ext2.Key
	F1 [1]rune
	F2 ext2.Num
}

type S0 struct {
}

type S1 struct {
	F0 int32
}
