package p

var Anchor = 0

func CompareT0(a float64, b float64) int {
	return deriveCompareT0(a, b)
}

func EqualT0(a float64, b float64) bool {
	return deriveEqualT0(a, b)
}

func SortT0(l []float64) []float64 {
	return deriveSortT0(l)
}

func MinlT0(l []float64, d float64) float64 {
	return deriveMinLT0(l, d)
}

func MaxlT0(l []float64, d float64) float64 {
	return deriveMaxLT0(l, d)
}

func MintT0(a float64, b float64) float64 {
	return deriveMinTT0(a, b)
}

func MaxtT0(a float64, b float64) float64 {
	return deriveMaxTT0(a, b)
}

func KeysofT0(m map[float64]int) []float64 {
	return deriveKeysT0(m)
}

func CompareT1(a K1, b K1) int {
	return deriveCompareT1(a, b)
}

func EqualT1(a K1, b K1) bool {
	return deriveEqualT1(a, b)
}

func SortT1(l []K1) []K1 {
	return deriveSortT1(l)
}

func MinlT1(l []K1, d K1) K1 {
	return deriveMinLT1(l, d)
}

func MaxlT1(l []K1, d K1) K1 {
	return deriveMaxLT1(l, d)
}

func MintT1(a K1, b K1) K1 {
	return deriveMinTT1(a, b)
}

func MaxtT1(a K1, b K1) K1 {
	return deriveMaxTT1(a, b)
}

func KeysofT1(m map[K1]int) []K1 {
	return deriveKeysT1(m)
}

func CompareT2(a S0, b S0) int {
	return deriveCompareT2(a, b)
}

func EqualT2(a S0, b S0) bool {
	return deriveEqualT2(a, b)
}

func SortT2(l []S0) []S0 {
	return deriveSortT2(l)
}

func MinlT2(l []S0, d S0) S0 {
	return deriveMinLT2(l, d)
}

func MaxlT2(l []S0, d S0) S0 {
	return deriveMaxLT2(l, d)
}

func MintT2(a S0, b S0) S0 {
	return deriveMinTT2(a, b)
}

func MaxtT2(a S0, b S0) S0 {
	return deriveMaxTT2(a, b)
}

func KeysofT2(m map[S0]int) []S0 {
	return deriveKeysT2(m)
}

func CompareT3(a [][0]N0, b [][0]N0) int {
	return deriveCompareT3(a, b)
}

func EqualT3(a [][0]N0, b [][0]N0) bool {
	return deriveEqualT3(a, b)
}

func SortT3(l [][][0]N0) [][][0]N0 {
	return deriveSortT3(l)
}

func MinlT3(l [][][0]N0, d [][0]N0) [][0]N0 {
	return deriveMinLT3(l, d)
}

func MaxlT3(l [][][0]N0, d [][0]N0) [][0]N0 {
	return deriveMaxLT3(l, d)
}

func MintT3(a [][0]N0, b [][0]N0) [][0]N0 {
	return deriveMinTT3(a, b)
}

func MaxtT3(a [][0]N0, b [][0]N0) [][0]N0 {
	return deriveMaxTT3(a, b)
}

func CompareT4(a float32, b float32) int {
	return deriveCompareT4(a, b)
}

func EqualT4(a float32, b float32) bool {
	return deriveEqualT4(a, b)
}

func SortT4(l []float32) []float32 {
	return deriveSortT4(l)
}

func MinlT4(l []float32, d float32) float32 {
	return deriveMinLT4(l, d)
}

func MaxlT4(l []float32, d float32) float32 {
	return deriveMaxLT4(l, d)
}

func MintT4(a float32, b float32) float32 {
	return deriveMinTT4(a, b)
}

func MaxtT4(a float32, b float32) float32 {
	return deriveMaxTT4(a, b)
}

func KeysofT4(m map[float32]int) []float32 {
	return deriveKeysT4(m)
}

func CompareT5(a bool, b bool) int {
	return deriveCompareT5(a, b)
}

func EqualT5(a bool, b bool) bool {
	return deriveEqualT5(a, b)
}

func SortT5(l []bool) []bool {
	return deriveSortT5(l)
}

func KeysofT5(m map[bool]int) []bool {
	return deriveKeysT5(m)
}

func CompareT6(a []MyI64, b []MyI64) int {
	return deriveCompareT6(a, b)
}

func EqualT6(a []MyI64, b []MyI64) bool {
	return deriveEqualT6(a, b)
}

func SortT6(l [][]MyI64) [][]MyI64 {
	return deriveSortT6(l)
}

func MinlT6(l [][]MyI64, d []MyI64) []MyI64 {
	return deriveMinLT6(l, d)
}

func MaxlT6(l [][]MyI64, d []MyI64) []MyI64 {
	return deriveMaxLT6(l, d)
}

func MintT6(a []MyI64, b []MyI64) []MyI64 {
	return deriveMinTT6(a, b)
}

func MaxtT6(a []MyI64, b []MyI64) []MyI64 {
	return deriveMaxTT6(a, b)
}

func CompareT7(a *uint64, b *uint64) int {
	return deriveCompareT7(a, b)
}

func EqualT7(a *uint64, b *uint64) bool {
	return deriveEqualT7(a, b)
}

func SortT7(l []*uint64) []*uint64 {
	return deriveSortT7(l)
}

func MinlT7(l []*uint64, d *uint64) *uint64 {
	return deriveMinLT7(l, d)
}

func MaxlT7(l []*uint64, d *uint64) *uint64 {
	return deriveMaxLT7(l, d)
}

func MintT7(a *uint64, b *uint64) *uint64 {
	return deriveMinTT7(a, b)
}

func MaxtT7(a *uint64, b *uint64) *uint64 {
	return deriveMaxTT7(a, b)
}

func CompareT8(a N0, b N0) int {
	return deriveCompareT8(a, b)
}

func EqualT8(a N0, b N0) bool {
	return deriveEqualT8(a, b)
}

func SortT8(l []N0) []N0 {
	return deriveSortT8(l)
}

func MinlT8(l []N0, d N0) N0 {
	return deriveMinLT8(l, d)
}

func MaxlT8(l []N0, d N0) N0 {
	return deriveMaxLT8(l, d)
}

func MintT8(a N0, b N0) N0 {
	return deriveMinTT8(a, b)
}

func MaxtT8(a N0, b N0) N0 {
	return deriveMaxTT8(a, b)
}

func CompareT9(a int, b int) int {
	return deriveCompareT9(a, b)
}

func EqualT9(a int, b int) bool {
	return deriveEqualT9(a, b)
}

func SortT9(l []int) []int {
	return deriveSortT9(l)
}

func MinlT9(l []int, d int) int {
	return deriveMinLT9(l, d)
}

func MaxlT9(l []int, d int) int {
	return deriveMaxLT9(l, d)
}

func MintT9(a int, b int) int {
	return deriveMinTT9(a, b)
}

func MaxtT9(a int, b int) int {
	return deriveMaxTT9(a, b)
}

func KeysofT9(m map[int]int) []int {
	return deriveKeysT9(m)
}

func CompareT10(a rune, b rune) int {
	return deriveCompareT10(a, b)
}

func EqualT10(a rune, b rune) bool {
	return deriveEqualT10(a, b)
}

func SortT10(l []rune) []rune {
	return deriveSortT10(l)
}

func MinlT10(l []rune, d rune) rune {
	return deriveMinLT10(l, d)
}

func MaxlT10(l []rune, d rune) rune {
	return deriveMaxLT10(l, d)
}

func MintT10(a rune, b rune) rune {
	return deriveMinTT10(a, b)
}

func MaxtT10(a rune, b rune) rune {
	return deriveMaxTT10(a, b)
}

func KeysofT10(m map[rune]int) []rune {
	return deriveKeysT10(m)
}

func CompareT11(a map[float32][]K1, b map[float32][]K1) int {
	return deriveCompareT11(a, b)
}

func EqualT11(a map[float32][]K1, b map[float32][]K1) bool {
	return deriveEqualT11(a, b)
}

func SortT11(l []map[float32][]K1) []map[float32][]K1 {
	return deriveSortT11(l)
}

func MinlT11(l []map[float32][]K1, d map[float32][]K1) map[float32][]K1 {
	return deriveMinLT11(l, d)
}

func MaxlT11(l []map[float32][]K1, d map[float32][]K1) map[float32][]K1 {
	return deriveMaxLT11(l, d)
}

func MintT11(a map[float32][]K1, b map[float32][]K1) map[float32][]K1 {
	return deriveMinTT11(a, b)
}

func MaxtT11(a map[float32][]K1, b map[float32][]K1) map[float32][]K1 {
	return deriveMaxTT11(a, b)
}

func CompareT12(a S1, b S1) int {
	return deriveCompareT12(a, b)
}

func EqualT12(a S1, b S1) bool {
	return deriveEqualT12(a, b)
}

func SortT12(l []S1) []S1 {
	return deriveSortT12(l)
}

func MinlT12(l []S1, d S1) S1 {
	return deriveMinLT12(l, d)
}

func MaxlT12(l []S1, d S1) S1 {
	return deriveMaxLT12(l, d)
}

func MintT12(a S1, b S1) S1 {
	return deriveMinTT12(a, b)
}

func MaxtT12(a S1, b S1) S1 {
	return deriveMaxTT12(a, b)
}

func KeysofT12(m map[S1]int) []S1 {
	return deriveKeysT12(m)
}

func CompareT13(a K0, b K0) int {
	return deriveCompareT13(a, b)
}

func EqualT13(a K0, b K0) bool {
	return deriveEqualT13(a, b)
}

func SortT13(l []K0) []K0 {
	return deriveSortT13(l)
}

func MinlT13(l []K0, d K0) K0 {
	return deriveMinLT13(l, d)
}

func MaxlT13(l []K0, d K0) K0 {
	return deriveMaxLT13(l, d)
}

func MintT13(a K0, b K0) K0 {
	return deriveMinTT13(a, b)
}

func MaxtT13(a K0, b K0) K0 {
	return deriveMaxTT13(a, b)
}

func KeysofT13(m map[K0]int) []K0 {
	return deriveKeysT13(m)
}
