package ext

type Num int64

type Key struct {
	k0 uint16
	k1 uint
}

type E0 struct {
	f0 Num
	f1 uint32
	f2 int
}
