package ext

type Num int64

type Key struct {
	k0 float64
}

type E0 struct {
	f0 *[2]byte
	f1 Num
}

type E1 struct {
	f0 int8
	f1 []byte
	F2 complex128
}
