package p

type MyInt int

type MyF float64

type MyI64 int64

type MyU uint

type K0 struct {
	f0 uintptr
}

type K1 struct {
	F0 MyF
	F1 MyU
}

type S0 struct {
	f0 string
	F1 map[MyU]*K1
}

type S1 struct {
}

type S2 struct {
}

type S3 struct {
	*S0
	F1 map[K1]S3
	F2 string
}

type S4 struct {
	F0 MyI64
}
