package ext

import (
	ext "subj/ext1"
)

type Num int

type Key struct {
	K0 uint64
	K1 Num
	k2 uint16
}

type E0 struct {
	F0 Key
	f1 Num
	F2 ext.Key
}

type E1 struct {
	f0 int
	f1 [0]*E1
}
