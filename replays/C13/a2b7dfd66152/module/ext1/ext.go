package ext

type Num int64

type Key struct {
	k0 Num
}

type E0 struct {
	f0 uint16
	f1 Key
	F2 int8
}

type E1 struct {
	f0 byte
	f1 E0
	f2 *E1
}
