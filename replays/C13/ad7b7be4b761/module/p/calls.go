package p

var Anchor = 0

func CompareT0(a map[K0]*[]byte, b map[K0]*[]byte) int {
	return deriveCompareT0(a, b)
}

func EqualT0(a map[K0]*[]byte, b map[K0]*[]byte) bool {
	return deriveEqualT0(a, b)
}

func SortT0(l []map[K0]*[]byte) []map[K0]*[]byte {
	return deriveSortT0(l)
}

func MinlT0(l []map[K0]*[]byte, d map[K0]*[]byte) map[K0]*[]byte {
	return deriveMinLT0(l, d)
}

func MaxlT0(l []map[K0]*[]byte, d map[K0]*[]byte) map[K0]*[]byte {
	return deriveMaxLT0(l, d)
}

func MintT0(a map[K0]*[]byte, b map[K0]*[]byte) map[K0]*[]byte {
	return deriveMinTT0(a, b)
}

func MaxtT0(a map[K0]*[]byte, b map[K0]*[]byte) map[K0]*[]byte {
	return deriveMaxTT0(a, b)
}

func CompareT1(a *[][]byte, b *[][]byte) int {
	return deriveCompareT1(a, b)
}

func EqualT1(a *[][]byte, b *[][]byte) bool {
	return deriveEqualT1(a, b)
}

func SortT1(l []*[][]byte) []*[][]byte {
	return deriveSortT1(l)
}

func MinlT1(l []*[][]byte, d *[][]byte) *[][]byte {
	return deriveMinLT1(l, d)
}

func MaxlT1(l []*[][]byte, d *[][]byte) *[][]byte {
	return deriveMaxLT1(l, d)
}

func MintT1(a *[][]byte, b *[][]byte) *[][]byte {
	return deriveMinTT1(a, b)
}

func MaxtT1(a *[][]byte, b *[][]byte) *[][]byte {
	return deriveMaxTT1(a, b)
}

func CompareT2(a [][][]byte, b [][][]byte) int {
	return deriveCompareT2(a, b)
}

func EqualT2(a [][][]byte, b [][][]byte) bool {
	return deriveEqualT2(a, b)
}

func SortT2(l [][][][]byte) [][][][]byte {
	return deriveSortT2(l)
}

func MinlT2(l [][][][]byte, d [][][]byte) [][][]byte {
	return deriveMinLT2(l, d)
}

func MaxlT2(l [][][][]byte, d [][][]byte) [][][]byte {
	return deriveMaxLT2(l, d)
}

func MintT2(a [][][]byte, b [][][]byte) [][][]byte {
	return deriveMinTT2(a, b)
}

func MaxtT2(a [][][]byte, b [][][]byte) [][][]byte {
	return deriveMaxTT2(a, b)
}

func CompareT3(a [2][][]byte, b [2][][]byte) int {
	return deriveCompareT3(a, b)
}

func EqualT3(a [2][][]byte, b [2][][]byte) bool {
	return deriveEqualT3(a, b)
}

func SortT3(l [][2][][]byte) [][2][][]byte {
	return deriveSortT3(l)
}

func MinlT3(l [][2][][]byte, d [2][][]byte) [2][][]byte {
	return deriveMinLT3(l, d)
}

func MaxlT3(l [][2][][]byte, d [2][][]byte) [2][][]byte {
	return deriveMaxLT3(l, d)
}

func MintT3(a [2][][]byte, b [2][][]byte) [2][][]byte {
	return deriveMinTT3(a, b)
}

func MaxtT3(a [2][][]byte, b [2][][]byte) [2][][]byte {
	return deriveMaxTT3(a, b)
}

func CompareT4(a map[string][][]byte, b map[string][][]byte) int {
	return deriveCompareT4(a, b)
}

func EqualT4(a map[string][][]byte, b map[string][][]byte) bool {
	return deriveEqualT4(a, b)
}

func SortT4(l []map[string][][]byte) []map[string][][]byte {
	return deriveSortT4(l)
}

func MinlT4(l []map[string][][]byte, d map[string][][]byte) map[string][][]byte {
	return deriveMinLT4(l, d)
}

func MaxlT4(l []map[string][][]byte, d map[string][][]byte) map[string][][]byte {
	return deriveMaxLT4(l, d)
}

func MintT4(a map[string][][]byte, b map[string][][]byte) map[string][][]byte {
	return deriveMinTT4(a, b)
}

func MaxtT4(a map[string][][]byte, b map[string][][]byte) map[string][][]byte {
	return deriveMaxTT4(a, b)
}

func CompareT5(a map[K0][][]byte, b map[K0][][]byte) int {
	return deriveCompareT5(a, b)
}

func EqualT5(a map[K0][][]byte, b map[K0][][]byte) bool {
	return deriveEqualT5(a, b)
}

func SortT5(l []map[K0][][]byte) []map[K0][][]byte {
	return deriveSortT5(l)
}

func MinlT5(l []map[K0][][]byte, d map[K0][][]byte) map[K0][][]byte {
	return deriveMinLT5(l, d)
}

func MaxlT5(l []map[K0][][]byte, d map[K0][][]byte) map[K0][][]byte {
	return deriveMaxLT5(l, d)
}

func MintT5(a map[K0][][]byte, b map[K0][][]byte) map[K0][][]byte {
	return deriveMinTT5(a, b)
}

func MaxtT5(a map[K0][][]byte, b map[K0][][]byte) map[K0][][]byte {
	return deriveMaxTT5(a, b)
}

func CompareT6(a *[2][]byte, b *[2][]byte) int {
	return deriveCompareT6(a, b)
}

func EqualT6(a *[2][]byte, b *[2][]byte) bool {
	return deriveEqualT6(a, b)
}

func SortT6(l []*[2][]byte) []*[2][]byte {
	return deriveSortT6(l)
}

func MinlT6(l []*[2][]byte, d *[2][]byte) *[2][]byte {
	return deriveMinLT6(l, d)
}

func MaxlT6(l []*[2][]byte, d *[2][]byte) *[2][]byte {
	return deriveMaxLT6(l, d)
}

func MintT6(a *[2][]byte, b *[2][]byte) *[2][]byte {
	return deriveMinTT6(a, b)
}

func MaxtT6(a *[2][]byte, b *[2][]byte) *[2][]byte {
	return deriveMaxTT6(a, b)
}

func CompareT7(a [][2][]byte, b [][2][]byte) int {
	return deriveCompareT7(a, b)
}

func EqualT7(a [][2][]byte, b [][2][]byte) bool {
	return deriveEqualT7(a, b)
}

func SortT7(l [][][2][]byte) [][][2][]byte {
	return deriveSortT7(l)
}

func MinlT7(l [][][2][]byte, d [][2][]byte) [][2][]byte {
	return deriveMinLT7(l, d)
}

func MaxlT7(l [][][2][]byte, d [][2][]byte) [][2][]byte {
	return deriveMaxLT7(l, d)
}

func MintT7(a [][2][]byte, b [][2][]byte) [][2][]byte {
	return deriveMinTT7(a, b)
}

func MaxtT7(a [][2][]byte, b [][2][]byte) [][2][]byte {
	return deriveMaxTT7(a, b)
}

func CompareT8(a [2][2][]byte, b [2][2][]byte) int {
	return deriveCompareT8(a, b)
}

func EqualT8(a [2][2][]byte, b [2][2][]byte) bool {
	return deriveEqualT8(a, b)
}

func SortT8(l [][2][2][]byte) [][2][2][]byte {
	return deriveSortT8(l)
}

func MinlT8(l [][2][2][]byte, d [2][2][]byte) [2][2][]byte {
	return deriveMinLT8(l, d)
}

func MaxlT8(l [][2][2][]byte, d [2][2][]byte) [2][2][]byte {
	return deriveMaxLT8(l, d)
}

func MintT8(a [2][2][]byte, b [2][2][]byte) [2][2][]byte {
	return deriveMinTT8(a, b)
}

func MaxtT8(a [2][2][]byte, b [2][2][]byte) [2][2][]byte {
	return deriveMaxTT8(a, b)
}

func CompareT9(a map[string][2][]byte, b map[string][2][]byte) int {
	return deriveCompareT9(a, b)
}

func EqualT9(a map[string][2][]byte, b map[string][2][]byte) bool {
	return deriveEqualT9(a, b)
}

func SortT9(l []map[string][2][]byte) []map[string][2][]byte {
	return deriveSortT9(l)
}

func MinlT9(l []map[string][2][]byte, d map[string][2][]byte) map[string][2][]byte {
	return deriveMinLT9(l, d)
}

func MaxlT9(l []map[string][2][]byte, d map[string][2][]byte) map[string][2][]byte {
	return deriveMaxLT9(l, d)
}

func MintT9(a map[string][2][]byte, b map[string][2][]byte) map[string][2][]byte {
	return deriveMinTT9(a, b)
}

func MaxtT9(a map[string][2][]byte, b map[string][2][]byte) map[string][2][]byte {
	return deriveMaxTT9(a, b)
}

func CompareT10(a map[K0][2][]byte, b map[K0][2][]byte) int {
	return deriveCompareT10(a, b)
}

func EqualT10(a map[K0][2][]byte, b map[K0][2][]byte) bool {
	return deriveEqualT10(a, b)
}

func SortT10(l []map[K0][2][]byte) []map[K0][2][]byte {
	return deriveSortT10(l)
}

func MinlT10(l []map[K0][2][]byte, d map[K0][2][]byte) map[K0][2][]byte {
	return deriveMinLT10(l, d)
}

func MaxlT10(l []map[K0][2][]byte, d map[K0][2][]byte) map[K0][2][]byte {
	return deriveMaxLT10(l, d)
}

func MintT10(a map[K0][2][]byte, b map[K0][2][]byte) map[K0][2][]byte {
	return deriveMinTT10(a, b)
}

func MaxtT10(a map[K0][2][]byte, b map[K0][2][]byte) map[K0][2][]byte {
	return deriveMaxTT10(a, b)
}

func CompareT11(a *map[string][]byte, b *map[string][]byte) int {
	return deriveCompareT11(a, b)
}

func EqualT11(a *map[string][]byte, b *map[string][]byte) bool {
	return deriveEqualT11(a, b)
}

func SortT11(l []*map[string][]byte) []*map[string][]byte {
	return deriveSortT11(l)
}

func MinlT11(l []*map[string][]byte, d *map[string][]byte) *map[string][]byte {
	return deriveMinLT11(l, d)
}

func MaxlT11(l []*map[string][]byte, d *map[string][]byte) *map[string][]byte {
	return deriveMaxLT11(l, d)
}

func MintT11(a *map[string][]byte, b *map[string][]byte) *map[string][]byte {
	return deriveMinTT11(a, b)
}

func MaxtT11(a *map[string][]byte, b *map[string][]byte) *map[string][]byte {
	return deriveMaxTT11(a, b)
}

func CompareT12(a []map[string][]byte, b []map[string][]byte) int {
	return deriveCompareT12(a, b)
}

func EqualT12(a []map[string][]byte, b []map[string][]byte) bool {
	return deriveEqualT12(a, b)
}

func SortT12(l [][]map[string][]byte) [][]map[string][]byte {
	return deriveSortT12(l)
}

func MinlT12(l [][]map[string][]byte, d []map[string][]byte) []map[string][]byte {
	return deriveMinLT12(l, d)
}

func MaxlT12(l [][]map[string][]byte, d []map[string][]byte) []map[string][]byte {
	return deriveMaxLT12(l, d)
}

func MintT12(a []map[string][]byte, b []map[string][]byte) []map[string][]byte {
	return deriveMinTT12(a, b)
}

func MaxtT12(a []map[string][]byte, b []map[string][]byte) []map[string][]byte {
	return deriveMaxTT12(a, b)
}

func CompareT13(a [2]map[string][]byte, b [2]map[string][]byte) int {
	return deriveCompareT13(a, b)
}

func EqualT13(a [2]map[string][]byte, b [2]map[string][]byte) bool {
	return deriveEqualT13(a, b)
}

func SortT13(l [][2]map[string][]byte) [][2]map[string][]byte {
	return deriveSortT13(l)
}

func MinlT13(l [][2]map[string][]byte, d [2]map[string][]byte) [2]map[string][]byte {
	return deriveMinLT13(l, d)
}

func MaxlT13(l [][2]map[string][]byte, d [2]map[string][]byte) [2]map[string][]byte {
	return deriveMaxLT13(l, d)
}

func MintT13(a [2]map[string][]byte, b [2]map[string][]byte) [2]map[string][]byte {
	return deriveMinTT13(a, b)
}

func MaxtT13(a [2]map[string][]byte, b [2]map[string][]byte) [2]map[string][]byte {
	return deriveMaxTT13(a, b)
}
