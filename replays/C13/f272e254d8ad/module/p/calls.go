package p

var Anchor = 0

func CompareT0(a []bool, b []bool) int {
	return deriveCompareT0(a, b)
}

func EqualT0(a []bool, b []bool) bool {
	return deriveEqualT0(a, b)
}

func SortT0(l [][]bool) [][]bool {
	return deriveSortT0(l)
}

func MinlT0(l [][]bool, d []bool) []bool {
	return deriveMinLT0(l, d)
}

func MaxlT0(l [][]bool, d []bool) []bool {
	return deriveMaxLT0(l, d)
}

func MintT0(a []bool, b []bool) []bool {
	return deriveMinTT0(a, b)
}

func MaxtT0(a []bool, b []bool) []bool {
	return deriveMaxTT0(a, b)
}

func CompareT1(a [2]bool, b [2]bool) int {
	return deriveCompareT1(a, b)
}

func EqualT1(a [2]bool, b [2]bool) bool {
	return deriveEqualT1(a, b)
}

func SortT1(l [][2]bool) [][2]bool {
	return deriveSortT1(l)
}

func MinlT1(l [][2]bool, d [2]bool) [2]bool {
	return deriveMinLT1(l, d)
}

func MaxlT1(l [][2]bool, d [2]bool) [2]bool {
	return deriveMaxLT1(l, d)
}

func MintT1(a [2]bool, b [2]bool) [2]bool {
	return deriveMinTT1(a, b)
}

func MaxtT1(a [2]bool, b [2]bool) [2]bool {
	return deriveMaxTT1(a, b)
}

func KeysofT1(m map[[2]bool]int) [][2]bool {
	return deriveKeysT1(m)
}

func CompareT2(a map[string]bool, b map[string]bool) int {
	return deriveCompareT2(a, b)
}

func EqualT2(a map[string]bool, b map[string]bool) bool {
	return deriveEqualT2(a, b)
}

func SortT2(l []map[string]bool) []map[string]bool {
	return deriveSortT2(l)
}

func MinlT2(l []map[string]bool, d map[string]bool) map[string]bool {
	return deriveMinLT2(l, d)
}

func MaxlT2(l []map[string]bool, d map[string]bool) map[string]bool {
	return deriveMaxLT2(l, d)
}

func MintT2(a map[string]bool, b map[string]bool) map[string]bool {
	return deriveMinTT2(a, b)
}

func MaxtT2(a map[string]bool, b map[string]bool) map[string]bool {
	return deriveMaxTT2(a, b)
}

func CompareT3(a map[K0]bool, b map[K0]bool) int {
	return deriveCompareT3(a, b)
}

func EqualT3(a map[K0]bool, b map[K0]bool) bool {
	return deriveEqualT3(a, b)
}

func SortT3(l []map[K0]bool) []map[K0]bool {
	return deriveSortT3(l)
}

func MinlT3(l []map[K0]bool, d map[K0]bool) map[K0]bool {
	return deriveMinLT3(l, d)
}

func MaxlT3(l []map[K0]bool, d map[K0]bool) map[K0]bool {
	return deriveMaxLT3(l, d)
}

func MintT3(a map[K0]bool, b map[K0]bool) map[K0]bool {
	return deriveMinTT3(a, b)
}

func MaxtT3(a map[K0]bool, b map[K0]bool) map[K0]bool {
	return deriveMaxTT3(a, b)
}

func CompareT4(a *byte, b *byte) int {
	return deriveCompareT4(a, b)
}

func EqualT4(a *byte, b *byte) bool {
	return deriveEqualT4(a, b)
}

func SortT4(l []*byte) []*byte {
	return deriveSortT4(l)
}

func MinlT4(l []*byte, d *byte) *byte {
	return deriveMinLT4(l, d)
}

func MaxlT4(l []*byte, d *byte) *byte {
	return deriveMaxLT4(l, d)
}

func MintT4(a *byte, b *byte) *byte {
	return deriveMinTT4(a, b)
}

func MaxtT4(a *byte, b *byte) *byte {
	return deriveMaxTT4(a, b)
}

func CompareT5(a []byte, b []byte) int {
	return deriveCompareT5(a, b)
}

func EqualT5(a []byte, b []byte) bool {
	return deriveEqualT5(a, b)
}

func SortT5(l [][]byte) [][]byte {
	return deriveSortT5(l)
}

func MinlT5(l [][]byte, d []byte) []byte {
	return deriveMinLT5(l, d)
}

func MaxlT5(l [][]byte, d []byte) []byte {
	return deriveMaxLT5(l, d)
}

func MintT5(a []byte, b []byte) []byte {
	return deriveMinTT5(a, b)
}

func MaxtT5(a []byte, b []byte) []byte {
	return deriveMaxTT5(a, b)
}

func CompareT6(a [2]byte, b [2]byte) int {
	return deriveCompareT6(a, b)
}

func EqualT6(a [2]byte, b [2]byte) bool {
	return deriveEqualT6(a, b)
}

func SortT6(l [][2]byte) [][2]byte {
	return deriveSortT6(l)
}

func MinlT6(l [][2]byte, d [2]byte) [2]byte {
	return deriveMinLT6(l, d)
}

func MaxlT6(l [][2]byte, d [2]byte) [2]byte {
	return deriveMaxLT6(l, d)
}

func MintT6(a [2]byte, b [2]byte) [2]byte {
	return deriveMinTT6(a, b)
}

func MaxtT6(a [2]byte, b [2]byte) [2]byte {
	return deriveMaxTT6(a, b)
}

func KeysofT6(m map[[2]byte]int) [][2]byte {
	return deriveKeysT6(m)
}

func CompareT7(a map[string]byte, b map[string]byte) int {
	return deriveCompareT7(a, b)
}

func EqualT7(a map[string]byte, b map[string]byte) bool {
	return deriveEqualT7(a, b)
}

func SortT7(l []map[string]byte) []map[string]byte {
	return deriveSortT7(l)
}

func MinlT7(l []map[string]byte, d map[string]byte) map[string]byte {
	return deriveMinLT7(l, d)
}

func MaxlT7(l []map[string]byte, d map[string]byte) map[string]byte {
	return deriveMaxLT7(l, d)
}

func MintT7(a map[string]byte, b map[string]byte) map[string]byte {
	return deriveMinTT7(a, b)
}

func MaxtT7(a map[string]byte, b map[string]byte) map[string]byte {
	return deriveMaxTT7(a, b)
}

func CompareT8(a map[K0]byte, b map[K0]byte) int {
	return deriveCompareT8(a, b)
}

func EqualT8(a map[K0]byte, b map[K0]byte) bool {
	return deriveEqualT8(a, b)
}

func SortT8(l []map[K0]byte) []map[K0]byte {
	return deriveSortT8(l)
}

func MinlT8(l []map[K0]byte, d map[K0]byte) map[K0]byte {
	return deriveMinLT8(l, d)
}

func MaxlT8(l []map[K0]byte, d map[K0]byte) map[K0]byte {
	return deriveMaxLT8(l, d)
}

func MintT8(a map[K0]byte, b map[K0]byte) map[K0]byte {
	return deriveMinTT8(a, b)
}

func MaxtT8(a map[K0]byte, b map[K0]byte) map[K0]byte {
	return deriveMaxTT8(a, b)
}

func CompareT9(a *MyInt, b *MyInt) int {
	return deriveCompareT9(a, b)
}

func EqualT9(a *MyInt, b *MyInt) bool {
	return deriveEqualT9(a, b)
}

func SortT9(l []*MyInt) []*MyInt {
	return deriveSortT9(l)
}

func MinlT9(l []*MyInt, d *MyInt) *MyInt {
	return deriveMinLT9(l, d)
}

func MaxlT9(l []*MyInt, d *MyInt) *MyInt {
	return deriveMaxLT9(l, d)
}

func MintT9(a *MyInt, b *MyInt) *MyInt {
	return deriveMinTT9(a, b)
}

func MaxtT9(a *MyInt, b *MyInt) *MyInt {
	return deriveMaxTT9(a, b)
}

func CompareT10(a []MyInt, b []MyInt) int {
	return deriveCompareT10(a, b)
}

func EqualT10(a []MyInt, b []MyInt) bool {
	return deriveEqualT10(a, b)
}

func SortT10(l [][]MyInt) [][]MyInt {
	return deriveSortT10(l)
}

func MinlT10(l [][]MyInt, d []MyInt) []MyInt {
	return deriveMinLT10(l, d)
}

func MaxlT10(l [][]MyInt, d []MyInt) []MyInt {
	return deriveMaxLT10(l, d)
}

func MintT10(a []MyInt, b []MyInt) []MyInt {
	return deriveMinTT10(a, b)
}

func MaxtT10(a []MyInt, b []MyInt) []MyInt {
	return deriveMaxTT10(a, b)
}

func CompareT11(a [2]MyInt, b [2]MyInt) int {
	return deriveCompareT11(a, b)
}

func EqualT11(a [2]MyInt, b [2]MyInt) bool {
	return deriveEqualT11(a, b)
}

func SortT11(l [][2]MyInt) [][2]MyInt {
	return deriveSortT11(l)
}

func MinlT11(l [][2]MyInt, d [2]MyInt) [2]MyInt {
	return deriveMinLT11(l, d)
}

func MaxlT11(l [][2]MyInt, d [2]MyInt) [2]MyInt {
	return deriveMaxLT11(l, d)
}

func MintT11(a [2]MyInt, b [2]MyInt) [2]MyInt {
	return deriveMinTT11(a, b)
}

func MaxtT11(a [2]MyInt, b [2]MyInt) [2]MyInt {
	return deriveMaxTT11(a, b)
}

func KeysofT11(m map[[2]MyInt]int) [][2]MyInt {
	return deriveKeysT11(m)
}

func CompareT12(a map[string]MyInt, b map[string]MyInt) int {
	return deriveCompareT12(a, b)
}

func EqualT12(a map[string]MyInt, b map[string]MyInt) bool {
	return deriveEqualT12(a, b)
}

func SortT12(l []map[string]MyInt) []map[string]MyInt {
	return deriveSortT12(l)
}

func MinlT12(l []map[string]MyInt, d map[string]MyInt) map[string]MyInt {
	return deriveMinLT12(l, d)
}

func MaxlT12(l []map[string]MyInt, d map[string]MyInt) map[string]MyInt {
	return deriveMaxLT12(l, d)
}

func MintT12(a map[string]MyInt, b map[string]MyInt) map[string]MyInt {
	return deriveMinTT12(a, b)
}

func MaxtT12(a map[string]MyInt, b map[string]MyInt) map[string]MyInt {
	return deriveMaxTT12(a, b)
}

func CompareT13(a map[K0]MyInt, b map[K0]MyInt) int {
	return deriveCompareT13(a, b)
}

func EqualT13(a map[K0]MyInt, b map[K0]MyInt) bool {
	return deriveEqualT13(a, b)
}

func SortT13(l []map[K0]MyInt) []map[K0]MyInt {
	return deriveSortT13(l)
}

func MinlT13(l []map[K0]MyInt, d map[K0]MyInt) map[K0]MyInt {
	return deriveMinLT13(l, d)
}

func MaxlT13(l []map[K0]MyInt, d map[K0]MyInt) map[K0]MyInt {
	return deriveMaxLT13(l, d)
}

func MintT13(a map[K0]MyInt, b map[K0]MyInt) map[K0]MyInt {
	return deriveMinTT13(a, b)
}

func MaxtT13(a map[K0]MyInt, b map[K0]MyInt) map[K0]MyInt {
	return deriveMaxTT13(a, b)
}
