package ext

type Num int

type Key struct {
	k0 uintptr
	K1 float32
	K2 uint16
}

type E0 struct {
}
