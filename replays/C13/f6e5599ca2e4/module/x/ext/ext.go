package ext

type Num string

type Key struct {
	k0 string
}

type E0 struct {
	f0 map[Key]int8
}

type E1 struct {
	F0 *E1
	f1 int16
}
