package p

import (
	ext "subj/ext1"
	ext2 "subj/x/ext"
)

type MyStr string

type MyU8 uint8

type N0 [2]MyU8

type N1 [2]bool

type K0 struct {
	f0 complex128
	f1 int32
	f2 ext2.Num
}

type S0 struct {
	K0
	F1 map[ext.Num][]map[MyU8]int8
	F2 map[int32]S0
	F3 uint8
	f4 int64
}

type S1 struct {
	f0 N1
	F1 MyStr
	F2 [][3][]S1
}
