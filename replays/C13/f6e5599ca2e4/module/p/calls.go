package p

import (
	ext "subj/ext1"
)

var Anchor = 0

func CompareT0(a K0, b K0) int {
	return deriveCompareT0(a, b)
}

func EqualT0(a K0, b K0) bool {
	return deriveEqualT0(a, b)
}

func SortT0(l []K0) []K0 {
	return deriveSortT0(l)
}

func MinlT0(l []K0, d K0) K0 {
	return deriveMinLT0(l, d)
}

func MaxlT0(l []K0, d K0) K0 {
	return deriveMaxLT0(l, d)
}

func MintT0(a K0, b K0) K0 {
	return deriveMinTT0(a, b)
}

func MaxtT0(a K0, b K0) K0 {
	return deriveMaxTT0(a, b)
}

func KeysofT0(m map[K0]int) []K0 {
	return deriveKeysT0(m)
}

func CompareT1(a *S1, b *S1) int {
	return deriveCompareT1(a, b)
}

func EqualT1(a *S1, b *S1) bool {
	return deriveEqualT1(a, b)
}

func SortT1(l []*S1) []*S1 {
	return deriveSortT1(l)
}

func MinlT1(l []*S1, d *S1) *S1 {
	return deriveMinLT1(l, d)
}

func MaxlT1(l []*S1, d *S1) *S1 {
	return deriveMaxLT1(l, d)
}

func MintT1(a *S1, b *S1) *S1 {
	return deriveMinTT1(a, b)
}

func MaxtT1(a *S1, b *S1) *S1 {
	return deriveMaxTT1(a, b)
}

func CompareT2(a float64, b float64) int {
	return deriveCompareT2(a, b)
}

func EqualT2(a float64, b float64) bool {
	return deriveEqualT2(a, b)
}

func SortT2(l []float64) []float64 {
	return deriveSortT2(l)
}

func MinlT2(l []float64, d float64) float64 {
	return deriveMinLT2(l, d)
}

func MaxlT2(l []float64, d float64) float64 {
	return deriveMaxLT2(l, d)
}

func MintT2(a float64, b float64) float64 {
	return deriveMinTT2(a, b)
}

func MaxtT2(a float64, b float64) float64 {
	return deriveMaxTT2(a, b)
}

func KeysofT2(m map[float64]int) []float64 {
	return deriveKeysT2(m)
}

func CompareT3(a ext.Num, b ext.Num) int {
	return deriveCompareT3(a, b)
}

func EqualT3(a ext.Num, b ext.Num) bool {
	return deriveEqualT3(a, b)
}

func SortT3(l []ext.Num) []ext.Num {
	return deriveSortT3(l)
}

func MinlT3(l []ext.Num, d ext.Num) ext.Num {
	return deriveMinLT3(l, d)
}

func MaxlT3(l []ext.Num, d ext.Num) ext.Num {
	return deriveMaxLT3(l, d)
}

func MintT3(a ext.Num, b ext.Num) ext.Num {
	return deriveMinTT3(a, b)
}

func MaxtT3(a ext.Num, b ext.Num) ext.Num {
	return deriveMaxTT3(a, b)
}

func KeysofT3(m map[ext.Num]int) []ext.Num {
	return deriveKeysT3(m)
}

func CompareT4(a map[MyU8]S1, b map[MyU8]S1) int {
	return deriveCompareT4(a, b)
}

func EqualT4(a map[MyU8]S1, b map[MyU8]S1) bool {
	return deriveEqualT4(a, b)
}

func SortT4(l []map[MyU8]S1) []map[MyU8]S1 {
	return deriveSortT4(l)
}

func MinlT4(l []map[MyU8]S1, d map[MyU8]S1) map[MyU8]S1 {
	return deriveMinLT4(l, d)
}

func MaxlT4(l []map[MyU8]S1, d map[MyU8]S1) map[MyU8]S1 {
	return deriveMaxLT4(l, d)
}

func MintT4(a map[MyU8]S1, b map[MyU8]S1) map[MyU8]S1 {
	return deriveMinTT4(a, b)
}

func MaxtT4(a map[MyU8]S1, b map[MyU8]S1) map[MyU8]S1 {
	return deriveMaxTT4(a, b)
}

func CompareT5(a []K0, b []K0) int {
	return deriveCompareT5(a, b)
}

func EqualT5(a []K0, b []K0) bool {
	return deriveEqualT5(a, b)
}

func SortT5(l [][]K0) [][]K0 {
	return deriveSortT5(l)
}

func MinlT5(l [][]K0, d []K0) []K0 {
	return deriveMinLT5(l, d)
}

func MaxlT5(l [][]K0, d []K0) []K0 {
	return deriveMaxLT5(l, d)
}

func MintT5(a []K0, b []K0) []K0 {
	return deriveMinTT5(a, b)
}

func MaxtT5(a []K0, b []K0) []K0 {
	return deriveMaxTT5(a, b)
}

func CompareT6(a N1, b N1) int {
	return deriveCompareT6(a, b)
}

func EqualT6(a N1, b N1) bool {
	return deriveEqualT6(a, b)
}

func SortT6(l []N1) []N1 {
	return deriveSortT6(l)
}

func MinlT6(l []N1, d N1) N1 {
	return deriveMinLT6(l, d)
}

func MaxlT6(l []N1, d N1) N1 {
	return deriveMaxLT6(l, d)
}

func MintT6(a N1, b N1) N1 {
	return deriveMinTT6(a, b)
}

func MaxtT6(a N1, b N1) N1 {
	return deriveMaxTT6(a, b)
}

func KeysofT6(m map[N1]int) []N1 {
	return deriveKeysT6(m)
}

func CompareT7(a int16, b int16) int {
	return deriveCompareT7(a, b)
}

func EqualT7(a int16, b int16) bool {
	return deriveEqualT7(a, b)
}

func SortT7(l []int16) []int16 {
	return deriveSortT7(l)
}

func MinlT7(l []int16, d int16) int16 {
	return deriveMinLT7(l, d)
}

func MaxlT7(l []int16, d int16) int16 {
	return deriveMaxLT7(l, d)
}

func MintT7(a int16, b int16) int16 {
	return deriveMinTT7(a, b)
}

func MaxtT7(a int16, b int16) int16 {
	return deriveMaxTT7(a, b)
}

func KeysofT7(m map[int16]int) []int16 {
	return deriveKeysT7(m)
}

func CompareT8(a []byte, b []byte) int {
	return deriveCompareT8(a, b)
}

func EqualT8(a []byte, b []byte) bool {
	return deriveEqualT8(a, b)
}

func SortT8(l [][]byte) [][]byte {
	return deriveSortT8(l)
}

func MinlT8(l [][]byte, d []byte) []byte {
	return deriveMinLT8(l, d)
}

func MaxlT8(l [][]byte, d []byte) []byte {
	return deriveMaxLT8(l, d)
}

func MintT8(a []byte, b []byte) []byte {
	return deriveMinTT8(a, b)
}

func MaxtT8(a []byte, b []byte) []byte {
	return deriveMaxTT8(a, b)
}

func CompareT9(a int8, b int8) int {
	return deriveCompareT9(a, b)
}

func EqualT9(a int8, b int8) bool {
	return deriveEqualT9(a, b)
}

func SortT9(l []int8) []int8 {
	return deriveSortT9(l)
}

func MinlT9(l []int8, d int8) int8 {
	return deriveMinLT9(l, d)
}

func MaxlT9(l []int8, d int8) int8 {
	return deriveMaxLT9(l, d)
}

func MintT9(a int8, b int8) int8 {
	return deriveMinTT9(a, b)
}

func MaxtT9(a int8, b int8) int8 {
	return deriveMaxTT9(a, b)
}

func KeysofT9(m map[int8]int) []int8 {
	return deriveKeysT9(m)
}

func CompareT10(a string, b string) int {
	return deriveCompareT10(a, b)
}

func EqualT10(a string, b string) bool {
	return deriveEqualT10(a, b)
}

func SortT10(l []string) []string {
	return deriveSortT10(l)
}

func MinlT10(l []string, d string) string {
	return deriveMinLT10(l, d)
}

func MaxlT10(l []string, d string) string {
	return deriveMaxLT10(l, d)
}

func MintT10(a string, b string) string {
	return deriveMinTT10(a, b)
}

func MaxtT10(a string, b string) string {
	return deriveMaxTT10(a, b)
}

func KeysofT10(m map[string]int) []string {
	return deriveKeysT10(m)
}

func CompareT11(a byte, b byte) int {
	return deriveCompareT11(a, b)
}

func EqualT11(a byte, b byte) bool {
	return deriveEqualT11(a, b)
}

func SortT11(l []byte) []byte {
	return deriveSortT11(l)
}

func MinlT11(l []byte, d byte) byte {
	return deriveMinLT11(l, d)
}

func MaxlT11(l []byte, d byte) byte {
	return deriveMaxLT11(l, d)
}

func MintT11(a byte, b byte) byte {
	return deriveMinTT11(a, b)
}

func MaxtT11(a byte, b byte) byte {
	return deriveMaxTT11(a, b)
}

func KeysofT11(m map[byte]int) []byte {
	return deriveKeysT11(m)
}

func CompareT12(a []int8, b []int8) int {
	return deriveCompareT12(a, b)
}

func EqualT12(a []int8, b []int8) bool {
	return deriveEqualT12(a, b)
}

func SortT12(l [][]int8) [][]int8 {
	return deriveSortT12(l)
}

func MinlT12(l [][]int8, d []int8) []int8 {
	return deriveMinLT12(l, d)
}

func MaxlT12(l [][]int8, d []int8) []int8 {
	return deriveMaxLT12(l, d)
}

func MintT12(a []int8, b []int8) []int8 {
	return deriveMinTT12(a, b)
}

func MaxtT12(a []int8, b []int8) []int8 {
	return deriveMaxTT12(a, b)
}

func CompareT13(a ext.Key, b ext.Key) int {
	return deriveCompareT13(a, b)
}

func EqualT13(a ext.Key, b ext.Key) bool {
	return deriveEqualT13(a, b)
}

func SortT13(l []ext.Key) []ext.Key {
	return deriveSortT13(l)
}

func MinlT13(l []ext.Key, d ext.Key) ext.Key {
	return deriveMinLT13(l, d)
}

func MaxlT13(l []ext.Key, d ext.Key) ext.Key {
	return deriveMaxLT13(l, d)
}

func MintT13(a ext.Key, b ext.Key) ext.Key {
	return deriveMinTT13(a, b)
}

func MaxtT13(a ext.Key, b ext.Key) ext.Key {
	return deriveMaxTT13(a, b)
}

func KeysofT13(m map[ext.Key]int) []ext.Key {
	return deriveKeysT13(m)
}
