package ext

type Num int64

type Key struct {
	K0 uint16
	k1 uint16
	k2 Num
}

type E0 struct {
}

type E1 struct {
	f0 *E1
	F1 uint32
	f2 int16
}
