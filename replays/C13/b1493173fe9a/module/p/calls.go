package p

var Anchor = 0

func CompareT0(a K0, b K0) int {
	return deriveCompareT0(a, b)
}

func EqualT0(a K0, b K0) bool {
	return deriveEqualT0(a, b)
}

func SortT0(l []K0) []K0 {
	return deriveSortT0(l)
}

func MinlT0(l []K0, d K0) K0 {
	return deriveMinLT0(l, d)
}

func MaxlT0(l []K0, d K0) K0 {
	return deriveMaxLT0(l, d)
}

func MintT0(a K0, b K0) K0 {
	return deriveMinTT0(a, b)
}

func MaxtT0(a K0, b K0) K0 {
	return deriveMaxTT0(a, b)
}

func KeysofT0(m map[K0]int) []K0 {
	return deriveKeysT0(m)
}

func CompareT1(a map[byte]byte, b map[byte]byte) int {
	return deriveCompareT1(a, b)
}

func EqualT1(a map[byte]byte, b map[byte]byte) bool {
	return deriveEqualT1(a, b)
}

func SortT1(l []map[byte]byte) []map[byte]byte {
	return deriveSortT1(l)
}

func MinlT1(l []map[byte]byte, d map[byte]byte) map[byte]byte {
	return deriveMinLT1(l, d)
}

func MaxlT1(l []map[byte]byte, d map[byte]byte) map[byte]byte {
	return deriveMaxLT1(l, d)
}

func MintT1(a map[byte]byte, b map[byte]byte) map[byte]byte {
	return deriveMinTT1(a, b)
}

func MaxtT1(a map[byte]byte, b map[byte]byte) map[byte]byte {
	return deriveMaxTT1(a, b)
}

func CompareT2(a *S0, b *S0) int {
	return deriveCompareT2(a, b)
}

func EqualT2(a *S0, b *S0) bool {
	return deriveEqualT2(a, b)
}

func SortT2(l []*S0) []*S0 {
	return deriveSortT2(l)
}

func MinlT2(l []*S0, d *S0) *S0 {
	return deriveMinLT2(l, d)
}

func MaxlT2(l []*S0, d *S0) *S0 {
	return deriveMaxLT2(l, d)
}

func MintT2(a *S0, b *S0) *S0 {
	return deriveMinTT2(a, b)
}

func MaxtT2(a *S0, b *S0) *S0 {
	return deriveMaxTT2(a, b)
}

func CompareT3(a map[K0]K1, b map[K0]K1) int {
	return deriveCompareT3(a, b)
}

func EqualT3(a map[K0]K1, b map[K0]K1) bool {
	return deriveEqualT3(a, b)
}

func SortT3(l []map[K0]K1) []map[K0]K1 {
	return deriveSortT3(l)
}

func MinlT3(l []map[K0]K1, d map[K0]K1) map[K0]K1 {
	return deriveMinLT3(l, d)
}

func MaxlT3(l []map[K0]K1, d map[K0]K1) map[K0]K1 {
	return deriveMaxLT3(l, d)
}

func MintT3(a map[K0]K1, b map[K0]K1) map[K0]K1 {
	return deriveMinTT3(a, b)
}

func MaxtT3(a map[K0]K1, b map[K0]K1) map[K0]K1 {
	return deriveMaxTT3(a, b)
}

func CompareT4(a uint64, b uint64) int {
	return deriveCompareT4(a, b)
}

func EqualT4(a uint64, b uint64) bool {
	return deriveEqualT4(a, b)
}

func SortT4(l []uint64) []uint64 {
	return deriveSortT4(l)
}

func MinlT4(l []uint64, d uint64) uint64 {
	return deriveMinLT4(l, d)
}

func MaxlT4(l []uint64, d uint64) uint64 {
	return deriveMaxLT4(l, d)
}

func MintT4(a uint64, b uint64) uint64 {
	return deriveMinTT4(a, b)
}

func MaxtT4(a uint64, b uint64) uint64 {
	return deriveMaxTT4(a, b)
}

func KeysofT4(m map[uint64]int) []uint64 {
	return deriveKeysT4(m)
}

func CompareT5(a []S2, b []S2) int {
	return deriveCompareT5(a, b)
}

func EqualT5(a []S2, b []S2) bool {
	return deriveEqualT5(a, b)
}

func SortT5(l [][]S2) [][]S2 {
	return deriveSortT5(l)
}

func MinlT5(l [][]S2, d []S2) []S2 {
	return deriveMinLT5(l, d)
}

func MaxlT5(l [][]S2, d []S2) []S2 {
	return deriveMaxLT5(l, d)
}

func MintT5(a []S2, b []S2) []S2 {
	return deriveMinTT5(a, b)
}

func MaxtT5(a []S2, b []S2) []S2 {
	return deriveMaxTT5(a, b)
}

func CompareT6(a N1, b N1) int {
	return deriveCompareT6(a, b)
}

func EqualT6(a N1, b N1) bool {
	return deriveEqualT6(a, b)
}

func SortT6(l []N1) []N1 {
	return deriveSortT6(l)
}

func MinlT6(l []N1, d N1) N1 {
	return deriveMinLT6(l, d)
}

func MaxlT6(l []N1, d N1) N1 {
	return deriveMaxLT6(l, d)
}

func MintT6(a N1, b N1) N1 {
	return deriveMinTT6(a, b)
}

func MaxtT6(a N1, b N1) N1 {
	return deriveMaxTT6(a, b)
}

func CompareT7(a float64, b float64) int {
	return deriveCompareT7(a, b)
}

func EqualT7(a float64, b float64) bool {
	return deriveEqualT7(a, b)
}

func SortT7(l []float64) []float64 {
	return deriveSortT7(l)
}

func MinlT7(l []float64, d float64) float64 {
	return deriveMinLT7(l, d)
}

func MaxlT7(l []float64, d float64) float64 {
	return deriveMaxLT7(l, d)
}

func MintT7(a float64, b float64) float64 {
	return deriveMinTT7(a, b)
}

func MaxtT7(a float64, b float64) float64 {
	return deriveMaxTT7(a, b)
}

func KeysofT7(m map[float64]int) []float64 {
	return deriveKeysT7(m)
}

func CompareT8(a MyStr, b MyStr) int {
	return deriveCompareT8(a, b)
}

func EqualT8(a MyStr, b MyStr) bool {
	return deriveEqualT8(a, b)
}

func SortT8(l []MyStr) []MyStr {
	return deriveSortT8(l)
}

func MinlT8(l []MyStr, d MyStr) MyStr {
	return deriveMinLT8(l, d)
}

func MaxlT8(l []MyStr, d MyStr) MyStr {
	return deriveMaxLT8(l, d)
}

func MintT8(a MyStr, b MyStr) MyStr {
	return deriveMinTT8(a, b)
}

func MaxtT8(a MyStr, b MyStr) MyStr {
	return deriveMaxTT8(a, b)
}

func KeysofT8(m map[MyStr]int) []MyStr {
	return deriveKeysT8(m)
}

func CompareT9(a uint32, b uint32) int {
	return deriveCompareT9(a, b)
}

func EqualT9(a uint32, b uint32) bool {
	return deriveEqualT9(a, b)
}

func SortT9(l []uint32) []uint32 {
	return deriveSortT9(l)
}

func MinlT9(l []uint32, d uint32) uint32 {
	return deriveMinLT9(l, d)
}

func MaxlT9(l []uint32, d uint32) uint32 {
	return deriveMaxLT9(l, d)
}

func MintT9(a uint32, b uint32) uint32 {
	return deriveMinTT9(a, b)
}

func MaxtT9(a uint32, b uint32) uint32 {
	return deriveMaxTT9(a, b)
}

func KeysofT9(m map[uint32]int) []uint32 {
	return deriveKeysT9(m)
}

func CompareT10(a uint, b uint) int {
	return deriveCompareT10(a, b)
}

func EqualT10(a uint, b uint) bool {
	return deriveEqualT10(a, b)
}

func SortT10(l []uint) []uint {
	return deriveSortT10(l)
}

func MinlT10(l []uint, d uint) uint {
	return deriveMinLT10(l, d)
}

func MaxlT10(l []uint, d uint) uint {
	return deriveMaxLT10(l, d)
}

func MintT10(a uint, b uint) uint {
	return deriveMinTT10(a, b)
}

func MaxtT10(a uint, b uint) uint {
	return deriveMaxTT10(a, b)
}

func KeysofT10(m map[uint]int) []uint {
	return deriveKeysT10(m)
}

func CompareT11(a int16, b int16) int {
	return deriveCompareT11(a, b)
}

func EqualT11(a int16, b int16) bool {
	return deriveEqualT11(a, b)
}

func SortT11(l []int16) []int16 {
	return deriveSortT11(l)
}

func MinlT11(l []int16, d int16) int16 {
	return deriveMinLT11(l, d)
}

func MaxlT11(l []int16, d int16) int16 {
	return deriveMaxLT11(l, d)
}

func MintT11(a int16, b int16) int16 {
	return deriveMinTT11(a, b)
}

func MaxtT11(a int16, b int16) int16 {
	return deriveMaxTT11(a, b)
}

func KeysofT11(m map[int16]int) []int16 {
	return deriveKeysT11(m)
}

func CompareT12(a K1, b K1) int {
	return deriveCompareT12(a, b)
}

func EqualT12(a K1, b K1) bool {
	return deriveEqualT12(a, b)
}

func SortT12(l []K1) []K1 {
	return deriveSortT12(l)
}

func MinlT12(l []K1, d K1) K1 {
	return deriveMinLT12(l, d)
}

func MaxlT12(l []K1, d K1) K1 {
	return deriveMaxLT12(l, d)
}

func MintT12(a K1, b K1) K1 {
	return deriveMinTT12(a, b)
}

func MaxtT12(a K1, b K1) K1 {
	return deriveMaxTT12(a, b)
}

func KeysofT12(m map[K1]int) []K1 {
	return deriveKeysT12(m)
}

func CompareT13(a []rune, b []rune) int {
	return deriveCompareT13(a, b)
}

func EqualT13(a []rune, b []rune) bool {
	return deriveEqualT13(a, b)
}

func SortT13(l [][]rune) [][]rune {
	return deriveSortT13(l)
}

func MinlT13(l [][]rune, d []rune) []rune {
	return deriveMinLT13(l, d)
}

func MaxlT13(l [][]rune, d []rune) []rune {
	return deriveMaxLT13(l, d)
}

func MintT13(a []rune, b []rune) []rune {
	return deriveMinTT13(a, b)
}

func MaxtT13(a []rune, b []rune) []rune {
	return deriveMaxTT13(a, b)
}
