package p

import (
	ext "subj/ext1"
)

type MyStr string

type MyU8 uint8

type N0 [][]uint

type N1 []complex128

type N2 map[complex128]float32

type K0 struct {
}

type K1 struct {
	F0 bool
	F1 int64
	F2 float64
}

type S0 struct {
}

type S1 struct {
	f0 map[int]map[string]map[ext.Num]bool
}

type S2 struct {
	F0 []*N2
}
