package other

import (
	ext "subj/ext1"
)

type Num int64

type Key struct {
	k0 int
}

type E0 struct {
	f0 Key
}

type E1 struct {
	F0 [][]ext.Key
	f1 *[]ext.Num
}
