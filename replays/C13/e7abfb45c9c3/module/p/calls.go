package p

import (
	other "subj/x/other"
)

var Anchor = 0

func CompareT0(a map[K0]R, b map[K0]R) int {
	return deriveCompareT0(a, b)
}

func EqualT0(a map[K0]R, b map[K0]R) bool {
	return deriveEqualT0(a, b)
}

func SortT0(l []map[K0]R) []map[K0]R {
	return deriveSortT0(l)
}

func MinlT0(l []map[K0]R, d map[K0]R) map[K0]R {
	return deriveMinLT0(l, d)
}

func MaxlT0(l []map[K0]R, d map[K0]R) map[K0]R {
	return deriveMaxLT0(l, d)
}

func MintT0(a map[K0]R, b map[K0]R) map[K0]R {
	return deriveMinTT0(a, b)
}

func MaxtT0(a map[K0]R, b map[K0]R) map[K0]R {
	return deriveMaxTT0(a, b)
}

func CompareT1(a *other.O0, b *other.O0) int {
	return deriveCompareT1(a, b)
}

func EqualT1(a *other.O0, b *other.O0) bool {
	return deriveEqualT1(a, b)
}

func SortT1(l []*other.O0) []*other.O0 {
	return deriveSortT1(l)
}

func MinlT1(l []*other.O0, d *other.O0) *other.O0 {
	return deriveMinLT1(l, d)
}

func MaxlT1(l []*other.O0, d *other.O0) *other.O0 {
	return deriveMaxLT1(l, d)
}

func MintT1(a *other.O0, b *other.O0) *other.O0 {
	return deriveMinTT1(a, b)
}

func MaxtT1(a *other.O0, b *other.O0) *other.O0 {
	return deriveMaxTT1(a, b)
}

func CompareT2(a []other.O0, b []other.O0) int {
	return deriveCompareT2(a, b)
}

func EqualT2(a []other.O0, b []other.O0) bool {
	return deriveEqualT2(a, b)
}

func SortT2(l [][]other.O0) [][]other.O0 {
	return deriveSortT2(l)
}

func MinlT2(l [][]other.O0, d []other.O0) []other.O0 {
	return deriveMinLT2(l, d)
}

func MaxlT2(l [][]other.O0, d []other.O0) []other.O0 {
	return deriveMaxLT2(l, d)
}

func MintT2(a []other.O0, b []other.O0) []other.O0 {
	return deriveMinTT2(a, b)
}

func MaxtT2(a []other.O0, b []other.O0) []other.O0 {
	return deriveMaxTT2(a, b)
}

func CompareT3(a [2]other.O0, b [2]other.O0) int {
	return deriveCompareT3(a, b)
}

func EqualT3(a [2]other.O0, b [2]other.O0) bool {
	return deriveEqualT3(a, b)
}

func SortT3(l [][2]other.O0) [][2]other.O0 {
	return deriveSortT3(l)
}

func MinlT3(l [][2]other.O0, d [2]other.O0) [2]other.O0 {
	return deriveMinLT3(l, d)
}

func MaxlT3(l [][2]other.O0, d [2]other.O0) [2]other.O0 {
	return deriveMaxLT3(l, d)
}

func MintT3(a [2]other.O0, b [2]other.O0) [2]other.O0 {
	return deriveMinTT3(a, b)
}

func MaxtT3(a [2]other.O0, b [2]other.O0) [2]other.O0 {
	return deriveMaxTT3(a, b)
}

func CompareT4(a map[string]other.O0, b map[string]other.O0) int {
	return deriveCompareT4(a, b)
}

func EqualT4(a map[string]other.O0, b map[string]other.O0) bool {
	return deriveEqualT4(a, b)
}

func SortT4(l []map[string]other.O0) []map[string]other.O0 {
	return deriveSortT4(l)
}

func MinlT4(l []map[string]other.O0, d map[string]other.O0) map[string]other.O0 {
	return deriveMinLT4(l, d)
}

func MaxlT4(l []map[string]other.O0, d map[string]other.O0) map[string]other.O0 {
	return deriveMaxLT4(l, d)
}

func MintT4(a map[string]other.O0, b map[string]other.O0) map[string]other.O0 {
	return deriveMinTT4(a, b)
}

func MaxtT4(a map[string]other.O0, b map[string]other.O0) map[string]other.O0 {
	return deriveMaxTT4(a, b)
}

func CompareT5(a map[K0]other.O0, b map[K0]other.O0) int {
	return deriveCompareT5(a, b)
}

func EqualT5(a map[K0]other.O0, b map[K0]other.O0) bool {
	return deriveEqualT5(a, b)
}

func SortT5(l []map[K0]other.O0) []map[K0]other.O0 {
	return deriveSortT5(l)
}

func MinlT5(l []map[K0]other.O0, d map[K0]other.O0) map[K0]other.O0 {
	return deriveMinLT5(l, d)
}

func MaxlT5(l []map[K0]other.O0, d map[K0]other.O0) map[K0]other.O0 {
	return deriveMaxLT5(l, d)
}

func MintT5(a map[K0]other.O0, b map[K0]other.O0) map[K0]other.O0 {
	return deriveMinTT5(a, b)
}

func MaxtT5(a map[K0]other.O0, b map[K0]other.O0) map[K0]other.O0 {
	return deriveMaxTT5(a, b)
}

func CompareT6(a **int, b **int) int {
	return deriveCompareT6(a, b)
}

func EqualT6(a **int, b **int) bool {
	return deriveEqualT6(a, b)
}

func SortT6(l []**int) []**int {
	return deriveSortT6(l)
}

func MinlT6(l []**int, d **int) **int {
	return deriveMinLT6(l, d)
}

func MaxlT6(l []**int, d **int) **int {
	return deriveMaxLT6(l, d)
}

func MintT6(a **int, b **int) **int {
	return deriveMinTT6(a, b)
}

func MaxtT6(a **int, b **int) **int {
	return deriveMaxTT6(a, b)
}

func CompareT7(a []*int, b []*int) int {
	return deriveCompareT7(a, b)
}

func EqualT7(a []*int, b []*int) bool {
	return deriveEqualT7(a, b)
}

func SortT7(l [][]*int) [][]*int {
	return deriveSortT7(l)
}

func MinlT7(l [][]*int, d []*int) []*int {
	return deriveMinLT7(l, d)
}

func MaxlT7(l [][]*int, d []*int) []*int {
	return deriveMaxLT7(l, d)
}

func MintT7(a []*int, b []*int) []*int {
	return deriveMinTT7(a, b)
}

func MaxtT7(a []*int, b []*int) []*int {
	return deriveMaxTT7(a, b)
}

func CompareT8(a [2]*int, b [2]*int) int {
	return deriveCompareT8(a, b)
}

func EqualT8(a [2]*int, b [2]*int) bool {
	return deriveEqualT8(a, b)
}

func SortT8(l [][2]*int) [][2]*int {
	return deriveSortT8(l)
}

func MinlT8(l [][2]*int, d [2]*int) [2]*int {
	return deriveMinLT8(l, d)
}

func MaxlT8(l [][2]*int, d [2]*int) [2]*int {
	return deriveMaxLT8(l, d)
}

func MintT8(a [2]*int, b [2]*int) [2]*int {
	return deriveMinTT8(a, b)
}

func MaxtT8(a [2]*int, b [2]*int) [2]*int {
	return deriveMaxTT8(a, b)
}

func CompareT9(a map[string]*int, b map[string]*int) int {
	return deriveCompareT9(a, b)
}

func EqualT9(a map[string]*int, b map[string]*int) bool {
	return deriveEqualT9(a, b)
}

func SortT9(l []map[string]*int) []map[string]*int {
	return deriveSortT9(l)
}

func MinlT9(l []map[string]*int, d map[string]*int) map[string]*int {
	return deriveMinLT9(l, d)
}

func MaxlT9(l []map[string]*int, d map[string]*int) map[string]*int {
	return deriveMaxLT9(l, d)
}

func MintT9(a map[string]*int, b map[string]*int) map[string]*int {
	return deriveMinTT9(a, b)
}

func MaxtT9(a map[string]*int, b map[string]*int) map[string]*int {
	return deriveMaxTT9(a, b)
}

func CompareT10(a map[K0]*int, b map[K0]*int) int {
	return deriveCompareT10(a, b)
}

func EqualT10(a map[K0]*int, b map[K0]*int) bool {
	return deriveEqualT10(a, b)
}

func SortT10(l []map[K0]*int) []map[K0]*int {
	return deriveSortT10(l)
}

func MinlT10(l []map[K0]*int, d map[K0]*int) map[K0]*int {
	return deriveMinLT10(l, d)
}

func MaxlT10(l []map[K0]*int, d map[K0]*int) map[K0]*int {
	return deriveMaxLT10(l, d)
}

func MintT10(a map[K0]*int, b map[K0]*int) map[K0]*int {
	return deriveMinTT10(a, b)
}

func MaxtT10(a map[K0]*int, b map[K0]*int) map[K0]*int {
	return deriveMaxTT10(a, b)
}

func CompareT11(a *[]int, b *[]int) int {
	return deriveCompareT11(a, b)
}

func EqualT11(a *[]int, b *[]int) bool {
	return deriveEqualT11(a, b)
}

func SortT11(l []*[]int) []*[]int {
	return deriveSortT11(l)
}

func MinlT11(l []*[]int, d *[]int) *[]int {
	return deriveMinLT11(l, d)
}

func MaxlT11(l []*[]int, d *[]int) *[]int {
	return deriveMaxLT11(l, d)
}

func MintT11(a *[]int, b *[]int) *[]int {
	return deriveMinTT11(a, b)
}

func MaxtT11(a *[]int, b *[]int) *[]int {
	return deriveMaxTT11(a, b)
}

func CompareT12(a [][]int, b [][]int) int {
	return deriveCompareT12(a, b)
}

func EqualT12(a [][]int, b [][]int) bool {
	return deriveEqualT12(a, b)
}

func SortT12(l [][][]int) [][][]int {
	return deriveSortT12(l)
}

func MinlT12(l [][][]int, d [][]int) [][]int {
	return deriveMinLT12(l, d)
}

func MaxlT12(l [][][]int, d [][]int) [][]int {
	return deriveMaxLT12(l, d)
}

func MintT12(a [][]int, b [][]int) [][]int {
	return deriveMinTT12(a, b)
}

func MaxtT12(a [][]int, b [][]int) [][]int {
	return deriveMaxTT12(a, b)
}

func CompareT13(a [2][]int, b [2][]int) int {
	return deriveCompareT13(a, b)
}

func EqualT13(a [2][]int, b [2][]int) bool {
	return deriveEqualT13(a, b)
}

func SortT13(l [][2][]int) [][2][]int {
	return deriveSortT13(l)
}

func MinlT13(l [][2][]int, d [2][]int) [2][]int {
	return deriveMinLT13(l, d)
}

func MaxlT13(l [][2][]int, d [2][]int) [2][]int {
	return deriveMaxLT13(l, d)
}

func MintT13(a [2][]int, b [2][]int) [2][]int {
	return deriveMinTT13(a, b)
}

func MaxtT13(a [2][]int, b [2][]int) [2][]int {
	return deriveMaxTT13(a, b)
}
