package p

var Anchor = 0

func CompareT0(a [2][]S0, b [2][]S0) int {
	return deriveCompareT0(a, b)
}

func EqualT0(a [2][]S0, b [2][]S0) bool {
	return deriveEqualT0(a, b)
}

func SortT0(l [][2][]S0) [][2][]S0 {
	return deriveSortT0(l)
}

func MinlT0(l [][2][]S0, d [2][]S0) [2][]S0 {
	return deriveMinLT0(l, d)
}

func MaxlT0(l [][2][]S0, d [2][]S0) [2][]S0 {
	return deriveMaxLT0(l, d)
}

func MintT0(a [2][]S0, b [2][]S0) [2][]S0 {
	return deriveMinTT0(a, b)
}

func MaxtT0(a [2][]S0, b [2][]S0) [2][]S0 {
	return deriveMaxTT0(a, b)
}

func CompareT1(a map[string][]S0, b map[string][]S0) int {
	return deriveCompareT1(a, b)
}

func EqualT1(a map[string][]S0, b map[string][]S0) bool {
	return deriveEqualT1(a, b)
}

func SortT1(l []map[string][]S0) []map[string][]S0 {
	return deriveSortT1(l)
}

func MinlT1(l []map[string][]S0, d map[string][]S0) map[string][]S0 {
	return deriveMinLT1(l, d)
}

func MaxlT1(l []map[string][]S0, d map[string][]S0) map[string][]S0 {
	return deriveMaxLT1(l, d)
}

func MintT1(a map[string][]S0, b map[string][]S0) map[string][]S0 {
	return deriveMinTT1(a, b)
}

func MaxtT1(a map[string][]S0, b map[string][]S0) map[string][]S0 {
	return deriveMaxTT1(a, b)
}

func CompareT2(a map[K0][]S0, b map[K0][]S0) int {
	return deriveCompareT2(a, b)
}

func EqualT2(a map[K0][]S0, b map[K0][]S0) bool {
	return deriveEqualT2(a, b)
}

func SortT2(l []map[K0][]S0) []map[K0][]S0 {
	return deriveSortT2(l)
}

func MinlT2(l []map[K0][]S0, d map[K0][]S0) map[K0][]S0 {
	return deriveMinLT2(l, d)
}

func MaxlT2(l []map[K0][]S0, d map[K0][]S0) map[K0][]S0 {
	return deriveMaxLT2(l, d)
}

func MintT2(a map[K0][]S0, b map[K0][]S0) map[K0][]S0 {
	return deriveMinTT2(a, b)
}

func MaxtT2(a map[K0][]S0, b map[K0][]S0) map[K0][]S0 {
	return deriveMaxTT2(a, b)
}

func CompareT3(a *[2]S0, b *[2]S0) int {
	return deriveCompareT3(a, b)
}

func EqualT3(a *[2]S0, b *[2]S0) bool {
	return deriveEqualT3(a, b)
}

func SortT3(l []*[2]S0) []*[2]S0 {
	return deriveSortT3(l)
}

func MinlT3(l []*[2]S0, d *[2]S0) *[2]S0 {
	return deriveMinLT3(l, d)
}

func MaxlT3(l []*[2]S0, d *[2]S0) *[2]S0 {
	return deriveMaxLT3(l, d)
}

func MintT3(a *[2]S0, b *[2]S0) *[2]S0 {
	return deriveMinTT3(a, b)
}

func MaxtT3(a *[2]S0, b *[2]S0) *[2]S0 {
	return deriveMaxTT3(a, b)
}

func CompareT4(a [][2]S0, b [][2]S0) int {
	return deriveCompareT4(a, b)
}

func EqualT4(a [][2]S0, b [][2]S0) bool {
	return deriveEqualT4(a, b)
}

func SortT4(l [][][2]S0) [][][2]S0 {
	return deriveSortT4(l)
}

func MinlT4(l [][][2]S0, d [][2]S0) [][2]S0 {
	return deriveMinLT4(l, d)
}

func MaxlT4(l [][][2]S0, d [][2]S0) [][2]S0 {
	return deriveMaxLT4(l, d)
}

func MintT4(a [][2]S0, b [][2]S0) [][2]S0 {
	return deriveMinTT4(a, b)
}

func MaxtT4(a [][2]S0, b [][2]S0) [][2]S0 {
	return deriveMaxTT4(a, b)
}

func CompareT5(a [2][2]S0, b [2][2]S0) int {
	return deriveCompareT5(a, b)
}

func EqualT5(a [2][2]S0, b [2][2]S0) bool {
	return deriveEqualT5(a, b)
}

func SortT5(l [][2][2]S0) [][2][2]S0 {
	return deriveSortT5(l)
}

func MinlT5(l [][2][2]S0, d [2][2]S0) [2][2]S0 {
	return deriveMinLT5(l, d)
}

func MaxlT5(l [][2][2]S0, d [2][2]S0) [2][2]S0 {
	return deriveMaxLT5(l, d)
}

func MintT5(a [2][2]S0, b [2][2]S0) [2][2]S0 {
	return deriveMinTT5(a, b)
}

func MaxtT5(a [2][2]S0, b [2][2]S0) [2][2]S0 {
	return deriveMaxTT5(a, b)
}

func CompareT6(a map[string][2]S0, b map[string][2]S0) int {
	return deriveCompareT6(a, b)
}

func EqualT6(a map[string][2]S0, b map[string][2]S0) bool {
	return deriveEqualT6(a, b)
}

func SortT6(l []map[string][2]S0) []map[string][2]S0 {
	return deriveSortT6(l)
}

func MinlT6(l []map[string][2]S0, d map[string][2]S0) map[string][2]S0 {
	return deriveMinLT6(l, d)
}

func MaxlT6(l []map[string][2]S0, d map[string][2]S0) map[string][2]S0 {
	return deriveMaxLT6(l, d)
}

func MintT6(a map[string][2]S0, b map[string][2]S0) map[string][2]S0 {
	return deriveMinTT6(a, b)
}

func MaxtT6(a map[string][2]S0, b map[string][2]S0) map[string][2]S0 {
	return deriveMaxTT6(a, b)
}

func CompareT7(a map[K0][2]S0, b map[K0][2]S0) int {
	return deriveCompareT7(a, b)
}

func EqualT7(a map[K0][2]S0, b map[K0][2]S0) bool {
	return deriveEqualT7(a, b)
}

func SortT7(l []map[K0][2]S0) []map[K0][2]S0 {
	return deriveSortT7(l)
}

func MinlT7(l []map[K0][2]S0, d map[K0][2]S0) map[K0][2]S0 {
	return deriveMinLT7(l, d)
}

func MaxlT7(l []map[K0][2]S0, d map[K0][2]S0) map[K0][2]S0 {
	return deriveMaxLT7(l, d)
}

func MintT7(a map[K0][2]S0, b map[K0][2]S0) map[K0][2]S0 {
	return deriveMinTT7(a, b)
}

func MaxtT7(a map[K0][2]S0, b map[K0][2]S0) map[K0][2]S0 {
	return deriveMaxTT7(a, b)
}

func CompareT8(a *map[string]S0, b *map[string]S0) int {
	return deriveCompareT8(a, b)
}

func EqualT8(a *map[string]S0, b *map[string]S0) bool {
	return deriveEqualT8(a, b)
}

func SortT8(l []*map[string]S0) []*map[string]S0 {
	return deriveSortT8(l)
}

func MinlT8(l []*map[string]S0, d *map[string]S0) *map[string]S0 {
	return deriveMinLT8(l, d)
}

func MaxlT8(l []*map[string]S0, d *map[string]S0) *map[string]S0 {
	return deriveMaxLT8(l, d)
}

func MintT8(a *map[string]S0, b *map[string]S0) *map[string]S0 {
	return deriveMinTT8(a, b)
}

func MaxtT8(a *map[string]S0, b *map[string]S0) *map[string]S0 {
	return deriveMaxTT8(a, b)
}

func CompareT9(a []map[string]S0, b []map[string]S0) int {
	return deriveCompareT9(a, b)
}

func EqualT9(a []map[string]S0, b []map[string]S0) bool {
	return deriveEqualT9(a, b)
}

func SortT9(l [][]map[string]S0) [][]map[string]S0 {
	return deriveSortT9(l)
}

func MinlT9(l [][]map[string]S0, d []map[string]S0) []map[string]S0 {
	return deriveMinLT9(l, d)
}

func MaxlT9(l [][]map[string]S0, d []map[string]S0) []map[string]S0 {
	return deriveMaxLT9(l, d)
}

func MintT9(a []map[string]S0, b []map[string]S0) []map[string]S0 {
	return deriveMinTT9(a, b)
}

func MaxtT9(a []map[string]S0, b []map[string]S0) []map[string]S0 {
	return deriveMaxTT9(a, b)
}

func CompareT10(a [2]map[string]S0, b [2]map[string]S0) int {
	return deriveCompareT10(a, b)
}

func EqualT10(a [2]map[string]S0, b [2]map[string]S0) bool {
	return deriveEqualT10(a, b)
}

func SortT10(l [][2]map[string]S0) [][2]map[string]S0 {
	return deriveSortT10(l)
}

func MinlT10(l [][2]map[string]S0, d [2]map[string]S0) [2]map[string]S0 {
	return deriveMinLT10(l, d)
}

func MaxlT10(l [][2]map[string]S0, d [2]map[string]S0) [2]map[string]S0 {
	return deriveMaxLT10(l, d)
}

func MintT10(a [2]map[string]S0, b [2]map[string]S0) [2]map[string]S0 {
	return deriveMinTT10(a, b)
}

func MaxtT10(a [2]map[string]S0, b [2]map[string]S0) [2]map[string]S0 {
	return deriveMaxTT10(a, b)
}

func CompareT11(a map[string]map[string]S0, b map[string]map[string]S0) int {
	return deriveCompareT11(a, b)
}

func EqualT11(a map[string]map[string]S0, b map[string]map[string]S0) bool {
	return deriveEqualT11(a, b)
}

func SortT11(l []map[string]map[string]S0) []map[string]map[string]S0 {
	return deriveSortT11(l)
}

func MinlT11(l []map[string]map[string]S0, d map[string]map[string]S0) map[string]map[string]S0 {
	return deriveMinLT11(l, d)
}

func MaxlT11(l []map[string]map[string]S0, d map[string]map[string]S0) map[string]map[string]S0 {
	return deriveMaxLT11(l, d)
}

func MintT11(a map[string]map[string]S0, b map[string]map[string]S0) map[string]map[string]S0 {
	return deriveMinTT11(a, b)
}

func MaxtT11(a map[string]map[string]S0, b map[string]map[string]S0) map[string]map[string]S0 {
	return deriveMaxTT11(a, b)
}

func CompareT12(a map[K0]map[string]S0, b map[K0]map[string]S0) int {
	return deriveCompareT12(a, b)
}

func EqualT12(a map[K0]map[string]S0, b map[K0]map[string]S0) bool {
	return deriveEqualT12(a, b)
}

func SortT12(l []map[K0]map[string]S0) []map[K0]map[string]S0 {
	return deriveSortT12(l)
}

func MinlT12(l []map[K0]map[string]S0, d map[K0]map[string]S0) map[K0]map[string]S0 {
	return deriveMinLT12(l, d)
}

func MaxlT12(l []map[K0]map[string]S0, d map[K0]map[string]S0) map[K0]map[string]S0 {
	return deriveMaxLT12(l, d)
}

func MintT12(a map[K0]map[string]S0, b map[K0]map[string]S0) map[K0]map[string]S0 {
	return deriveMinTT12(a, b)
}

func MaxtT12(a map[K0]map[string]S0, b map[K0]map[string]S0) map[K0]map[string]S0 {
	return deriveMaxTT12(a, b)
}

func CompareT13(a *map[K0]S0, b *map[K0]S0) int {
	return deriveCompareT13(a, b)
}

func EqualT13(a *map[K0]S0, b *map[K0]S0) bool {
	return deriveEqualT13(a, b)
}

func SortT13(l []*map[K0]S0) []*map[K0]S0 {
	return deriveSortT13(l)
}

func MinlT13(l []*map[K0]S0, d *map[K0]S0) *map[K0]S0 {
	return deriveMinLT13(l, d)
}

func MaxlT13(l []*map[K0]S0, d *map[K0]S0) *map[K0]S0 {
	return deriveMaxLT13(l, d)
}

func MintT13(a *map[K0]S0, b *map[K0]S0) *map[K0]S0 {
	return deriveMinTT13(a, b)
}

func MaxtT13(a *map[K0]S0, b *map[K0]S0) *map[K0]S0 {
	return deriveMaxTT13(a, b)
}
