package ext

type Num int

type Key struct {
	k0 int32
}

type E0 struct {
	F0 uint16
}
