package other

type Num int64

type Key struct {
	K0 Num
}

type E0 struct {
}
