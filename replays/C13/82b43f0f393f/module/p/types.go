package p

type MyInt int

type MyF float64

type N0 []int

type K0 struct {
	F0 bool
}

type S0 struct {
}

type S1 struct {
	K0
}
