package p

import (
	ext "subj/ext1"
)

var Anchor = 0

func CompareT0(a K0, b K0) int {
	return deriveCompareT0(a, b)
}

func EqualT0(a K0, b K0) bool {
	return deriveEqualT0(a, b)
}

func SortT0(l []K0) []K0 {
	return deriveSortT0(l)
}

func MinlT0(l []K0, d K0) K0 {
	return deriveMinLT0(l, d)
}

func MaxlT0(l []K0, d K0) K0 {
	return deriveMaxLT0(l, d)
}

func MintT0(a K0, b K0) K0 {
	return deriveMinTT0(a, b)
}

func MaxtT0(a K0, b K0) K0 {
	return deriveMaxTT0(a, b)
}

func KeysofT0(m map[K0]int) []K0 {
	return deriveKeysT0(m)
}

func CompareT1(a *S0, b *S0) int {
	return deriveCompareT1(a, b)
}

func EqualT1(a *S0, b *S0) bool {
	return deriveEqualT1(a, b)
}

func SortT1(l []*S0) []*S0 {
	return deriveSortT1(l)
}

func MinlT1(l []*S0, d *S0) *S0 {
	return deriveMinLT1(l, d)
}

func MaxlT1(l []*S0, d *S0) *S0 {
	return deriveMaxLT1(l, d)
}

func MintT1(a *S0, b *S0) *S0 {
	return deriveMinTT1(a, b)
}

func MaxtT1(a *S0, b *S0) *S0 {
	return deriveMaxTT1(a, b)
}

func CompareT2(a map[uint]K0, b map[uint]K0) int {
	return deriveCompareT2(a, b)
}

func EqualT2(a map[uint]K0, b map[uint]K0) bool {
	return deriveEqualT2(a, b)
}

func SortT2(l []map[uint]K0) []map[uint]K0 {
	return deriveSortT2(l)
}

func MinlT2(l []map[uint]K0, d map[uint]K0) map[uint]K0 {
	return deriveMinLT2(l, d)
}

func MaxlT2(l []map[uint]K0, d map[uint]K0) map[uint]K0 {
	return deriveMaxLT2(l, d)
}

func MintT2(a map[uint]K0, b map[uint]K0) map[uint]K0 {
	return deriveMinTT2(a, b)
}

func MaxtT2(a map[uint]K0, b map[uint]K0) map[uint]K0 {
	return deriveMaxTT2(a, b)
}

func CompareT3(a ext.Num, b ext.Num) int {
	return deriveCompareT3(a, b)
}

func EqualT3(a ext.Num, b ext.Num) bool {
	return deriveEqualT3(a, b)
}

func SortT3(l []ext.Num) []ext.Num {
	return deriveSortT3(l)
}

func MinlT3(l []ext.Num, d ext.Num) ext.Num {
	return deriveMinLT3(l, d)
}

func MaxlT3(l []ext.Num, d ext.Num) ext.Num {
	return deriveMaxLT3(l, d)
}

func MintT3(a ext.Num, b ext.Num) ext.Num {
	return deriveMinTT3(a, b)
}

func MaxtT3(a ext.Num, b ext.Num) ext.Num {
	return deriveMaxTT3(a, b)
}

func KeysofT3(m map[ext.Num]int) []ext.Num {
	return deriveKeysT3(m)
}

func CompareT4(a bool, b bool) int {
	return deriveCompareT4(a, b)
}

func EqualT4(a bool, b bool) bool {
	return deriveEqualT4(a, b)
}

func SortT4(l []bool) []bool {
	return deriveSortT4(l)
}

func KeysofT4(m map[bool]int) []bool {
	return deriveKeysT4(m)
}

func CompareT5(a int8, b int8) int {
	return deriveCompareT5(a, b)
}

func EqualT5(a int8, b int8) bool {
	return deriveEqualT5(a, b)
}

func SortT5(l []int8) []int8 {
	return deriveSortT5(l)
}

func MinlT5(l []int8, d int8) int8 {
	return deriveMinLT5(l, d)
}

func MaxlT5(l []int8, d int8) int8 {
	return deriveMaxLT5(l, d)
}

func MintT5(a int8, b int8) int8 {
	return deriveMinTT5(a, b)
}

func MaxtT5(a int8, b int8) int8 {
	return deriveMaxTT5(a, b)
}

func KeysofT5(m map[int8]int) []int8 {
	return deriveKeysT5(m)
}

func CompareT6(a ext.E0, b ext.E0) int {
	return deriveCompareT6(a, b)
}

func EqualT6(a ext.E0, b ext.E0) bool {
	return deriveEqualT6(a, b)
}

func SortT6(l []ext.E0) []ext.E0 {
	return deriveSortT6(l)
}

func MinlT6(l []ext.E0, d ext.E0) ext.E0 {
	return deriveMinLT6(l, d)
}

func MaxlT6(l []ext.E0, d ext.E0) ext.E0 {
	return deriveMaxLT6(l, d)
}

func MintT6(a ext.E0, b ext.E0) ext.E0 {
	return deriveMinTT6(a, b)
}

func MaxtT6(a ext.E0, b ext.E0) ext.E0 {
	return deriveMaxTT6(a, b)
}

func KeysofT6(m map[ext.E0]int) []ext.E0 {
	return deriveKeysT6(m)
}

func CompareT7(a N0, b N0) int {
	return deriveCompareT7(a, b)
}

func EqualT7(a N0, b N0) bool {
	return deriveEqualT7(a, b)
}

func SortT7(l []N0) []N0 {
	return deriveSortT7(l)
}

func MinlT7(l []N0, d N0) N0 {
	return deriveMinLT7(l, d)
}

func MaxlT7(l []N0, d N0) N0 {
	return deriveMaxLT7(l, d)
}

func MintT7(a N0, b N0) N0 {
	return deriveMinTT7(a, b)
}

func MaxtT7(a N0, b N0) N0 {
	return deriveMaxTT7(a, b)
}

func CompareT8(a int32, b int32) int {
	return deriveCompareT8(a, b)
}

func EqualT8(a int32, b int32) bool {
	return deriveEqualT8(a, b)
}

func SortT8(l []int32) []int32 {
	return deriveSortT8(l)
}

func MinlT8(l []int32, d int32) int32 {
	return deriveMinLT8(l, d)
}

func MaxlT8(l []int32, d int32) int32 {
	return deriveMaxLT8(l, d)
}

func MintT8(a int32, b int32) int32 {
	return deriveMinTT8(a, b)
}

func MaxtT8(a int32, b int32) int32 {
	return deriveMaxTT8(a, b)
}

func KeysofT8(m map[int32]int) []int32 {
	return deriveKeysT8(m)
}

func CompareT9(a MyF, b MyF) int {
	return deriveCompareT9(a, b)
}

func EqualT9(a MyF, b MyF) bool {
	return deriveEqualT9(a, b)
}

func SortT9(l []MyF) []MyF {
	return deriveSortT9(l)
}

func MinlT9(l []MyF, d MyF) MyF {
	return deriveMinLT9(l, d)
}

func MaxlT9(l []MyF, d MyF) MyF {
	return deriveMaxLT9(l, d)
}

func MintT9(a MyF, b MyF) MyF {
	return deriveMinTT9(a, b)
}

func MaxtT9(a MyF, b MyF) MyF {
	return deriveMaxTT9(a, b)
}

func KeysofT9(m map[MyF]int) []MyF {
	return deriveKeysT9(m)
}

func CompareT10(a S0, b S0) int {
	return deriveCompareT10(a, b)
}

func EqualT10(a S0, b S0) bool {
	return deriveEqualT10(a, b)
}

func SortT10(l []S0) []S0 {
	return deriveSortT10(l)
}

func MinlT10(l []S0, d S0) S0 {
	return deriveMinLT10(l, d)
}

func MaxlT10(l []S0, d S0) S0 {
	return deriveMaxLT10(l, d)
}

func MintT10(a S0, b S0) S0 {
	return deriveMinTT10(a, b)
}

func MaxtT10(a S0, b S0) S0 {
	return deriveMaxTT10(a, b)
}

func KeysofT10(m map[S0]int) []S0 {
	return deriveKeysT10(m)
}

func CompareT11(a *ext.Num, b *ext.Num) int {
	return deriveCompareT11(a, b)
}

func EqualT11(a *ext.Num, b *ext.Num) bool {
	return deriveEqualT11(a, b)
}

func SortT11(l []*ext.Num) []*ext.Num {
	return deriveSortT11(l)
}

func MinlT11(l []*ext.Num, d *ext.Num) *ext.Num {
	return deriveMinLT11(l, d)
}

func MaxlT11(l []*ext.Num, d *ext.Num) *ext.Num {
	return deriveMaxLT11(l, d)
}

func MintT11(a *ext.Num, b *ext.Num) *ext.Num {
	return deriveMinTT11(a, b)
}

func MaxtT11(a *ext.Num, b *ext.Num) *ext.Num {
	return deriveMaxTT11(a, b)
}

func CompareT12(a map[bool]S0, b map[bool]S0) int {
	return deriveCompareT12(a, b)
}

func EqualT12(a map[bool]S0, b map[bool]S0) bool {
	return deriveEqualT12(a, b)
}

func SortT12(l []map[bool]S0) []map[bool]S0 {
	return deriveSortT12(l)
}

func MinlT12(l []map[bool]S0, d map[bool]S0) map[bool]S0 {
	return deriveMinLT12(l, d)
}

func MaxlT12(l []map[bool]S0, d map[bool]S0) map[bool]S0 {
	return deriveMaxLT12(l, d)
}

func MintT12(a map[bool]S0, b map[bool]S0) map[bool]S0 {
	return deriveMinTT12(a, b)
}

func MaxtT12(a map[bool]S0, b map[bool]S0) map[bool]S0 {
	return deriveMaxTT12(a, b)
}

func CompareT13(a *complex64, b *complex64) int {
	return deriveCompareT13(a, b)
}

func EqualT13(a *complex64, b *complex64) bool {
	return deriveEqualT13(a, b)
}

func SortT13(l []*complex64) []*complex64 {
	return deriveSortT13(l)
}

func MinlT13(l []*complex64, d *complex64) *complex64 {
	return deriveMinLT13(l, d)
}

func MaxlT13(l []*complex64, d *complex64) *complex64 {
	return deriveMaxLT13(l, d)
}

func MintT13(a *complex64, b *complex64) *complex64 {
	return deriveMinTT13(a, b)
}

func MaxtT13(a *complex64, b *complex64) *complex64 {
	return deriveMaxTT13(a, b)
}
