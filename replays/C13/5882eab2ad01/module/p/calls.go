package p

import (
	ext "subj/ext1"
	ext2 "subj/x/ext"
)

var Anchor = 0

func CompareT0(a map[ext.Key]S0, b map[ext.Key]S0) int {
	return deriveCompareT0(a, b)
}

func EqualT0(a map[ext.Key]S0, b map[ext.Key]S0) bool {
	return deriveEqualT0(a, b)
}

func SortT0(l []map[ext.Key]S0) []map[ext.Key]S0 {
	return deriveSortT0(l)
}

func MinlT0(l []map[ext.Key]S0, d map[ext.Key]S0) map[ext.Key]S0 {
	return deriveMinLT0(l, d)
}

func MaxlT0(l []map[ext.Key]S0, d map[ext.Key]S0) map[ext.Key]S0 {
	return deriveMaxLT0(l, d)
}

func MintT0(a map[ext.Key]S0, b map[ext.Key]S0) map[ext.Key]S0 {
	return deriveMinTT0(a, b)
}

func MaxtT0(a map[ext.Key]S0, b map[ext.Key]S0) map[ext.Key]S0 {
	return deriveMaxTT0(a, b)
}

func CompareT1(a *K1, b *K1) int {
	return deriveCompareT1(a, b)
}

func EqualT1(a *K1, b *K1) bool {
	return deriveEqualT1(a, b)
}

func SortT1(l []*K1) []*K1 {
	return deriveSortT1(l)
}

func MinlT1(l []*K1, d *K1) *K1 {
	return deriveMinLT1(l, d)
}

func MaxlT1(l []*K1, d *K1) *K1 {
	return deriveMaxLT1(l, d)
}

func MintT1(a *K1, b *K1) *K1 {
	return deriveMinTT1(a, b)
}

func MaxtT1(a *K1, b *K1) *K1 {
	return deriveMaxTT1(a, b)
}

func CompareT2(a *S0, b *S0) int {
	return deriveCompareT2(a, b)
}

func EqualT2(a *S0, b *S0) bool {
	return deriveEqualT2(a, b)
}

func SortT2(l []*S0) []*S0 {
	return deriveSortT2(l)
}

func MinlT2(l []*S0, d *S0) *S0 {
	return deriveMinLT2(l, d)
}

func MaxlT2(l []*S0, d *S0) *S0 {
	return deriveMaxLT2(l, d)
}

func MintT2(a *S0, b *S0) *S0 {
	return deriveMinTT2(a, b)
}

func MaxtT2(a *S0, b *S0) *S0 {
	return deriveMaxTT2(a, b)
}

func CompareT3(a *K0, b *K0) int {
	return deriveCompareT3(a, b)
}

func EqualT3(a *K0, b *K0) bool {
	return deriveEqualT3(a, b)
}

func SortT3(l []*K0) []*K0 {
	return deriveSortT3(l)
}

func MinlT3(l []*K0, d *K0) *K0 {
	return deriveMinLT3(l, d)
}

func MaxlT3(l []*K0, d *K0) *K0 {
	return deriveMaxLT3(l, d)
}

func MintT3(a *K0, b *K0) *K0 {
	return deriveMinTT3(a, b)
}

func MaxtT3(a *K0, b *K0) *K0 {
	return deriveMaxTT3(a, b)
}

func CompareT4(a []map[uint]*S0, b []map[uint]*S0) int {
	return deriveCompareT4(a, b)
}

func EqualT4(a []map[uint]*S0, b []map[uint]*S0) bool {
	return deriveEqualT4(a, b)
}

func SortT4(l [][]map[uint]*S0) [][]map[uint]*S0 {
	return deriveSortT4(l)
}

func MinlT4(l [][]map[uint]*S0, d []map[uint]*S0) []map[uint]*S0 {
	return deriveMinLT4(l, d)
}

func MaxlT4(l [][]map[uint]*S0, d []map[uint]*S0) []map[uint]*S0 {
	return deriveMaxLT4(l, d)
}

func MintT4(a []map[uint]*S0, b []map[uint]*S0) []map[uint]*S0 {
	return deriveMinTT4(a, b)
}

func MaxtT4(a []map[uint]*S0, b []map[uint]*S0) []map[uint]*S0 {
	return deriveMaxTT4(a, b)
}

func CompareT5(a K0, b K0) int {
	return deriveCompareT5(a, b)
}

func EqualT5(a K0, b K0) bool {
	return deriveEqualT5(a, b)
}

func SortT5(l []K0) []K0 {
	return deriveSortT5(l)
}

func MinlT5(l []K0, d K0) K0 {
	return deriveMinLT5(l, d)
}

func MaxlT5(l []K0, d K0) K0 {
	return deriveMaxLT5(l, d)
}

func MintT5(a K0, b K0) K0 {
	return deriveMinTT5(a, b)
}

func MaxtT5(a K0, b K0) K0 {
	return deriveMaxTT5(a, b)
}

func KeysofT5(m map[K0]int) []K0 {
	return deriveKeysT5(m)
}

func CompareT6(a ext.Num, b ext.Num) int {
	return deriveCompareT6(a, b)
}

func EqualT6(a ext.Num, b ext.Num) bool {
	return deriveEqualT6(a, b)
}

func SortT6(l []ext.Num) []ext.Num {
	return deriveSortT6(l)
}

func MinlT6(l []ext.Num, d ext.Num) ext.Num {
	return deriveMinLT6(l, d)
}

func MaxlT6(l []ext.Num, d ext.Num) ext.Num {
	return deriveMaxLT6(l, d)
}

func MintT6(a ext.Num, b ext.Num) ext.Num {
	return deriveMinTT6(a, b)
}

func MaxtT6(a ext.Num, b ext.Num) ext.Num {
	return deriveMaxTT6(a, b)
}

func KeysofT6(m map[ext.Num]int) []ext.Num {
	return deriveKeysT6(m)
}

func CompareT7(a ext2.E1, b ext2.E1) int {
	return deriveCompareT7(a, b)
}

func EqualT7(a ext2.E1, b ext2.E1) bool {
	return deriveEqualT7(a, b)
}

func SortT7(l []ext2.E1) []ext2.E1 {
	return deriveSortT7(l)
}

func MinlT7(l []ext2.E1, d ext2.E1) ext2.E1 {
	return deriveMinLT7(l, d)
}

func MaxlT7(l []ext2.E1, d ext2.E1) ext2.E1 {
	return deriveMaxLT7(l, d)
}

func MintT7(a ext2.E1, b ext2.E1) ext2.E1 {
	return deriveMinTT7(a, b)
}

func MaxtT7(a ext2.E1, b ext2.E1) ext2.E1 {
	return deriveMaxTT7(a, b)
}

func KeysofT7(m map[ext2.E1]int) []ext2.E1 {
	return deriveKeysT7(m)
}

func CompareT8(a S0, b S0) int {
	return deriveCompareT8(a, b)
}

func EqualT8(a S0, b S0) bool {
	return deriveEqualT8(a, b)
}

func SortT8(l []S0) []S0 {
	return deriveSortT8(l)
}

func MinlT8(l []S0, d S0) S0 {
	return deriveMinLT8(l, d)
}

func MaxlT8(l []S0, d S0) S0 {
	return deriveMaxLT8(l, d)
}

func MintT8(a S0, b S0) S0 {
	return deriveMinTT8(a, b)
}

func MaxtT8(a S0, b S0) S0 {
	return deriveMaxTT8(a, b)
}

func KeysofT8(m map[S0]int) []S0 {
	return deriveKeysT8(m)
}

func CompareT9(a uint32, b uint32) int {
	return deriveCompareT9(a, b)
}

func EqualT9(a uint32, b uint32) bool {
	return deriveEqualT9(a, b)
}

func SortT9(l []uint32) []uint32 {
	return deriveSortT9(l)
}

func MinlT9(l []uint32, d uint32) uint32 {
	return deriveMinLT9(l, d)
}

func MaxlT9(l []uint32, d uint32) uint32 {
	return deriveMaxLT9(l, d)
}

func MintT9(a uint32, b uint32) uint32 {
	return deriveMinTT9(a, b)
}

func MaxtT9(a uint32, b uint32) uint32 {
	return deriveMaxTT9(a, b)
}

func KeysofT9(m map[uint32]int) []uint32 {
	return deriveKeysT9(m)
}

func CompareT10(a int16, b int16) int {
	return deriveCompareT10(a, b)
}

func EqualT10(a int16, b int16) bool {
	return deriveEqualT10(a, b)
}

func SortT10(l []int16) []int16 {
	return deriveSortT10(l)
}

func MinlT10(l []int16, d int16) int16 {
	return deriveMinLT10(l, d)
}

func MaxlT10(l []int16, d int16) int16 {
	return deriveMaxLT10(l, d)
}

func MintT10(a int16, b int16) int16 {
	return deriveMinTT10(a, b)
}

func MaxtT10(a int16, b int16) int16 {
	return deriveMaxTT10(a, b)
}

func KeysofT10(m map[int16]int) []int16 {
	return deriveKeysT10(m)
}

func CompareT11(a map[MyU]S0, b map[MyU]S0) int {
	return deriveCompareT11(a, b)
}

func EqualT11(a map[MyU]S0, b map[MyU]S0) bool {
	return deriveEqualT11(a, b)
}

func SortT11(l []map[MyU]S0) []map[MyU]S0 {
	return deriveSortT11(l)
}

func MinlT11(l []map[MyU]S0, d map[MyU]S0) map[MyU]S0 {
	return deriveMinLT11(l, d)
}

func MaxlT11(l []map[MyU]S0, d map[MyU]S0) map[MyU]S0 {
	return deriveMaxLT11(l, d)
}

func MintT11(a map[MyU]S0, b map[MyU]S0) map[MyU]S0 {
	return deriveMinTT11(a, b)
}

func MaxtT11(a map[MyU]S0, b map[MyU]S0) map[MyU]S0 {
	return deriveMaxTT11(a, b)
}

func CompareT12(a float32, b float32) int {
	return deriveCompareT12(a, b)
}

func EqualT12(a float32, b float32) bool {
	return deriveEqualT12(a, b)
}

func SortT12(l []float32) []float32 {
	return deriveSortT12(l)
}

func MinlT12(l []float32, d float32) float32 {
	return deriveMinLT12(l, d)
}

func MaxlT12(l []float32, d float32) float32 {
	return deriveMaxLT12(l, d)
}

func MintT12(a float32, b float32) float32 {
	return deriveMinTT12(a, b)
}

func MaxtT12(a float32, b float32) float32 {
	return deriveMaxTT12(a, b)
}

func KeysofT12(m map[float32]int) []float32 {
	return deriveKeysT12(m)
}

func CompareT13(a ext2.E0, b ext2.E0) int {
	return deriveCompareT13(a, b)
}

func EqualT13(a ext2.E0, b ext2.E0) bool {
	return deriveEqualT13(a, b)
}

func SortT13(l []ext2.E0) []ext2.E0 {
	return deriveSortT13(l)
}

func MinlT13(l []ext2.E0, d ext2.E0) ext2.E0 {
	return deriveMinLT13(l, d)
}

func MaxlT13(l []ext2.E0, d ext2.E0) ext2.E0 {
	return deriveMaxLT13(l, d)
}

func MintT13(a ext2.E0, b ext2.E0) ext2.E0 {
	return deriveMinTT13(a, b)
}

func MaxtT13(a ext2.E0, b ext2.E0) ext2.E0 {
	return deriveMaxTT13(a, b)
}

func KeysofT13(m map[ext2.E0]int) []ext2.E0 {
	return deriveKeysT13(m)
}
