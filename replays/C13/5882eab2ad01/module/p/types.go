package p

type MyU uint

type K0 struct {
	f0 rune
	f1 bool
}

type K1 struct {
	f0 int32
	f1 int32
	f2 bool
}

type S0 struct {
	F0 string
	F1 K0
	f2 rune
}
