package ext

type Num string

type Key struct {
	k0 bool
}

type E0 struct {
	f0 complex128
	F1 int
}
