package h

import (
	"reflect"

	ext "subj/ext1"
	p "subj/p"
	ext2 "subj/x/ext"
)

var _ = p.Anchor

var Registry = []Entry{
	{ID: "T0", Type: reflect.TypeOf((*map[ext.Key]p.S0)(nil)).Elem(), TypeStr: "map[ext.Key]p.S0",
		Funcs: map[string]any{"compare": p.CompareT0, "equal": p.EqualT0, "maxl": p.MaxlT0, "maxt": p.MaxtT0, "minl": p.MinlT0, "mint": p.MintT0, "sort": p.SortT0},
		Tags:  map[string]string{"f:ext": "1", "f:ext-private": "1", "f:map": "1", "f:string": "1", "f:struct": "1", "f:structkey": "1"},
	},
	{ID: "T1", Type: reflect.TypeOf((**p.K1)(nil)).Elem(), TypeStr: "*p.K1",
		Funcs: map[string]any{"compare": p.CompareT1, "equal": p.EqualT1, "maxl": p.MaxlT1, "maxt": p.MaxtT1, "minl": p.MinlT1, "mint": p.MintT1, "sort": p.SortT1},
		Tags:  map[string]string{"f:ptr": "1", "f:struct": "1"},
	},
	{ID: "T2", Type: reflect.TypeOf((**p.S0)(nil)).Elem(), TypeStr: "*p.S0",
		Funcs: map[string]any{"compare": p.CompareT2, "equal": p.EqualT2, "maxl": p.MaxlT2, "maxt": p.MaxtT2, "minl": p.MinlT2, "mint": p.MintT2, "sort": p.SortT2},
		Tags:  map[string]string{"f:ptr": "1", "f:string": "1", "f:struct": "1"},
	},
	{ID: "T3", Type: reflect.TypeOf((**p.K0)(nil)).Elem(), TypeStr: "*p.K0",
		Funcs: map[string]any{"compare": p.CompareT3, "equal": p.EqualT3, "maxl": p.MaxlT3, "maxt": p.MaxtT3, "minl": p.MinlT3, "mint": p.MintT3, "sort": p.SortT3},
		Tags:  map[string]string{"f:ptr": "1", "f:struct": "1"},
	},
	{ID: "T4", Type: reflect.TypeOf((*[]map[uint]*p.S0)(nil)).Elem(), TypeStr: "[]map[uint]*p.S0",
		Funcs: map[string]any{"compare": p.CompareT4, "equal": p.EqualT4, "maxl": p.MaxlT4, "maxt": p.MaxtT4, "minl": p.MinlT4, "mint": p.MintT4, "sort": p.SortT4},
		Tags:  map[string]string{"f:map": "1", "f:ptr": "1", "f:slice": "1", "f:string": "1", "f:struct": "1"},
	},
	{ID: "T5", Type: reflect.TypeOf((*p.K0)(nil)).Elem(), TypeStr: "p.K0",
		Funcs: map[string]any{"compare": p.CompareT5, "equal": p.EqualT5, "keysof": p.KeysofT5, "maxl": p.MaxlT5, "maxt": p.MaxtT5, "minl": p.MinlT5, "mint": p.MintT5, "sort": p.SortT5},
		Tags:  map[string]string{"comparable": "1", "f:struct": "1"},
	},
	{ID: "T6", Type: reflect.TypeOf((*ext.Num)(nil)).Elem(), TypeStr: "ext.Num",
		Funcs: map[string]any{"compare": p.CompareT6, "equal": p.EqualT6, "keysof": p.KeysofT6, "maxl": p.MaxlT6, "maxt": p.MaxtT6, "minl": p.MinlT6, "mint": p.MintT6, "sort": p.SortT6},
		Tags:  map[string]string{"comparable": "1", "f:ext": "1", "f:namedbasic": "1", "f:string": "1"},
	},
	{ID: "T7", Type: reflect.TypeOf((*ext2.E1)(nil)).Elem(), TypeStr: "ext2.E1",
		Funcs: map[string]any{"compare": p.CompareT7, "equal": p.EqualT7, "keysof": p.KeysofT7, "maxl": p.MaxlT7, "maxt": p.MaxtT7, "minl": p.MinlT7, "mint": p.MintT7, "sort": p.SortT7},
		Tags:  map[string]string{"comparable": "1", "f:emptystruct": "1", "f:ext": "1", "f:struct": "1"},
	},
	{ID: "T8", Type: reflect.TypeOf((*p.S0)(nil)).Elem(), TypeStr: "p.S0",
		Funcs: map[string]any{"compare": p.CompareT8, "equal": p.EqualT8, "keysof": p.KeysofT8, "maxl": p.MaxlT8, "maxt": p.MaxtT8, "minl": p.MinlT8, "mint": p.MintT8, "sort": p.SortT8},
		Tags:  map[string]string{"comparable": "1", "f:string": "1", "f:struct": "1"},
	},
	{ID: "T9", Type: reflect.TypeOf((*uint32)(nil)).Elem(), TypeStr: "uint32",
		Funcs: map[string]any{"compare": p.CompareT9, "equal": p.EqualT9, "keysof": p.KeysofT9, "maxl": p.MaxlT9, "maxt": p.MaxtT9, "minl": p.MinlT9, "mint": p.MintT9, "sort": p.SortT9},
		Tags:  map[string]string{"basic-ordered": "1", "comparable": "1"},
	},
	{ID: "T10", Type: reflect.TypeOf((*int16)(nil)).Elem(), TypeStr: "int16",
		Funcs: map[string]any{"compare": p.CompareT10, "equal": p.EqualT10, "keysof": p.KeysofT10, "maxl": p.MaxlT10, "maxt": p.MaxtT10, "minl": p.MinlT10, "mint": p.MintT10, "sort": p.SortT10},
		Tags:  map[string]string{"basic-ordered": "1", "comparable": "1"},
	},
	{ID: "T11", Type: reflect.TypeOf((*map[p.MyU]p.S0)(nil)).Elem(), TypeStr: "map[p.MyU]p.S0",
		Funcs: map[string]any{"compare": p.CompareT11, "equal": p.EqualT11, "maxl": p.MaxlT11, "maxt": p.MaxtT11, "minl": p.MinlT11, "mint": p.MintT11, "sort": p.SortT11},
		Tags:  map[string]string{"f:map": "1", "f:namedbasic": "1", "f:string": "1", "f:struct": "1"},
	},
	{ID: "T12", Type: reflect.TypeOf((*float32)(nil)).Elem(), TypeStr: "float32",
		Funcs: map[string]any{"compare": p.CompareT12, "equal": p.EqualT12, "keysof": p.KeysofT12, "maxl": p.MaxlT12, "maxt": p.MaxtT12, "minl": p.MinlT12, "mint": p.MintT12, "sort": p.SortT12},
		Tags:  map[string]string{"basic-ordered": "1", "comparable": "1", "f:float": "1"},
	},
	{ID: "T13", Type: reflect.TypeOf((*ext2.E0)(nil)).Elem(), TypeStr: "ext2.E0",
		Funcs: map[string]any{"compare": p.CompareT13, "equal": p.EqualT13, "keysof": p.KeysofT13, "maxl": p.MaxlT13, "maxt": p.MaxtT13, "minl": p.MinlT13, "mint": p.MintT13, "sort": p.SortT13},
		Tags:  map[string]string{"comparable": "1", "f:emptystruct": "1", "f:ext": "1", "f:struct": "1"},
	},
}
