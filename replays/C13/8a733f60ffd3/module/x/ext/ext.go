package ext

type Num int

type Key struct {
	K0 uint64
	K1 Num
	k2 uint16
}

type E0 struct {
	F0 uint16
	F1 [1][]Num
	f2 bool
}

type E1 struct {
	f0 [0][2]float32
}
