package p

import (
	ext2 "subj/x/ext"
)

type MyU8 uint8

type K0 struct {
	F0 [1]ext2.Key
}

type S0 struct {
	f0 string
	F1 map[MyU8]*K0
}

type S1 struct {
}

type S2 struct {
}

type S3 struct {
	*S1
	F1 map[K0]S3
	F2 string
}

type S4 struct {
	F0 MyU8
}
