package p

import (
	ext "subj/ext1"
	ext2 "subj/x/ext"
)

var Anchor = 0

func CompareT0(a K0, b K0) int {
	return deriveCompareT0(a, b)
}

func EqualT0(a K0, b K0) bool {
	return deriveEqualT0(a, b)
}

func SortT0(l []K0) []K0 {
	return deriveSortT0(l)
}

func MinlT0(l []K0, d K0) K0 {
	return deriveMinLT0(l, d)
}

func MaxlT0(l []K0, d K0) K0 {
	return deriveMaxLT0(l, d)
}

func MintT0(a K0, b K0) K0 {
	return deriveMinTT0(a, b)
}

func MaxtT0(a K0, b K0) K0 {
	return deriveMaxTT0(a, b)
}

func KeysofT0(m map[K0]int) []K0 {
	return deriveKeysT0(m)
}

func CompareT1(a S0, b S0) int {
	return deriveCompareT1(a, b)
}

func EqualT1(a S0, b S0) bool {
	return deriveEqualT1(a, b)
}

func SortT1(l []S0) []S0 {
	return deriveSortT1(l)
}

func MinlT1(l []S0, d S0) S0 {
	return deriveMinLT1(l, d)
}

func MaxlT1(l []S0, d S0) S0 {
	return deriveMaxLT1(l, d)
}

func MintT1(a S0, b S0) S0 {
	return deriveMinTT1(a, b)
}

func MaxtT1(a S0, b S0) S0 {
	return deriveMaxTT1(a, b)
}

func CompareT2(a *S1, b *S1) int {
	return deriveCompareT2(a, b)
}

func EqualT2(a *S1, b *S1) bool {
	return deriveEqualT2(a, b)
}

func SortT2(l []*S1) []*S1 {
	return deriveSortT2(l)
}

func MinlT2(l []*S1, d *S1) *S1 {
	return deriveMinLT2(l, d)
}

func MaxlT2(l []*S1, d *S1) *S1 {
	return deriveMaxLT2(l, d)
}

func MintT2(a *S1, b *S1) *S1 {
	return deriveMinTT2(a, b)
}

func MaxtT2(a *S1, b *S1) *S1 {
	return deriveMaxTT2(a, b)
}

func CompareT3(a S2, b S2) int {
	return deriveCompareT3(a, b)
}

func EqualT3(a S2, b S2) bool {
	return deriveEqualT3(a, b)
}

func SortT3(l []S2) []S2 {
	return deriveSortT3(l)
}

func MinlT3(l []S2, d S2) S2 {
	return deriveMinLT3(l, d)
}

func MaxlT3(l []S2, d S2) S2 {
	return deriveMaxLT3(l, d)
}

func MintT3(a S2, b S2) S2 {
	return deriveMinTT3(a, b)
}

func MaxtT3(a S2, b S2) S2 {
	return deriveMaxTT3(a, b)
}

func KeysofT3(m map[S2]int) []S2 {
	return deriveKeysT3(m)
}

func CompareT4(a *S3, b *S3) int {
	return deriveCompareT4(a, b)
}

func EqualT4(a *S3, b *S3) bool {
	return deriveEqualT4(a, b)
}

func SortT4(l []*S3) []*S3 {
	return deriveSortT4(l)
}

func MinlT4(l []*S3, d *S3) *S3 {
	return deriveMinLT4(l, d)
}

func MaxlT4(l []*S3, d *S3) *S3 {
	return deriveMaxLT4(l, d)
}

func MintT4(a *S3, b *S3) *S3 {
	return deriveMinTT4(a, b)
}

func MaxtT4(a *S3, b *S3) *S3 {
	return deriveMaxTT4(a, b)
}

func CompareT5(a string, b string) int {
	return deriveCompareT5(a, b)
}

func EqualT5(a string, b string) bool {
	return deriveEqualT5(a, b)
}

func SortT5(l []string) []string {
	return deriveSortT5(l)
}

func MinlT5(l []string, d string) string {
	return deriveMinLT5(l, d)
}

func MaxlT5(l []string, d string) string {
	return deriveMaxLT5(l, d)
}

func MintT5(a string, b string) string {
	return deriveMinTT5(a, b)
}

func MaxtT5(a string, b string) string {
	return deriveMaxTT5(a, b)
}

func KeysofT5(m map[string]int) []string {
	return deriveKeysT5(m)
}

func CompareT6(a map[ext.Key]int, b map[ext.Key]int) int {
	return deriveCompareT6(a, b)
}

func EqualT6(a map[ext.Key]int, b map[ext.Key]int) bool {
	return deriveEqualT6(a, b)
}

func SortT6(l []map[ext.Key]int) []map[ext.Key]int {
	return deriveSortT6(l)
}

func MinlT6(l []map[ext.Key]int, d map[ext.Key]int) map[ext.Key]int {
	return deriveMinLT6(l, d)
}

func MaxlT6(l []map[ext.Key]int, d map[ext.Key]int) map[ext.Key]int {
	return deriveMaxLT6(l, d)
}

func MintT6(a map[ext.Key]int, b map[ext.Key]int) map[ext.Key]int {
	return deriveMinTT6(a, b)
}

func MaxtT6(a map[ext.Key]int, b map[ext.Key]int) map[ext.Key]int {
	return deriveMaxTT6(a, b)
}

func CompareT7(a *int, b *int) int {
	return deriveCompareT7(a, b)
}

func EqualT7(a *int, b *int) bool {
	return deriveEqualT7(a, b)
}

func SortT7(l []*int) []*int {
	return deriveSortT7(l)
}

func MinlT7(l []*int, d *int) *int {
	return deriveMinLT7(l, d)
}

func MaxlT7(l []*int, d *int) *int {
	return deriveMaxLT7(l, d)
}

func MintT7(a *int, b *int) *int {
	return deriveMinTT7(a, b)
}

func MaxtT7(a *int, b *int) *int {
	return deriveMaxTT7(a, b)
}

func CompareT8(a bool, b bool) int {
	return deriveCompareT8(a, b)
}

func EqualT8(a bool, b bool) bool {
	return deriveEqualT8(a, b)
}

func SortT8(l []bool) []bool {
	return deriveSortT8(l)
}

func KeysofT8(m map[bool]int) []bool {
	return deriveKeysT8(m)
}

func CompareT9(a int32, b int32) int {
	return deriveCompareT9(a, b)
}

func EqualT9(a int32, b int32) bool {
	return deriveEqualT9(a, b)
}

func SortT9(l []int32) []int32 {
	return deriveSortT9(l)
}

func MinlT9(l []int32, d int32) int32 {
	return deriveMinLT9(l, d)
}

func MaxlT9(l []int32, d int32) int32 {
	return deriveMaxLT9(l, d)
}

func MintT9(a int32, b int32) int32 {
	return deriveMinTT9(a, b)
}

func MaxtT9(a int32, b int32) int32 {
	return deriveMaxTT9(a, b)
}

func KeysofT9(m map[int32]int) []int32 {
	return deriveKeysT9(m)
}

func CompareT10(a []*ext2.E0, b []*ext2.E0) int {
	return deriveCompareT10(a, b)
}

func EqualT10(a []*ext2.E0, b []*ext2.E0) bool {
	return deriveEqualT10(a, b)
}

func SortT10(l [][]*ext2.E0) [][]*ext2.E0 {
	return deriveSortT10(l)
}

func MinlT10(l [][]*ext2.E0, d []*ext2.E0) []*ext2.E0 {
	return deriveMinLT10(l, d)
}

func MaxlT10(l [][]*ext2.E0, d []*ext2.E0) []*ext2.E0 {
	return deriveMaxLT10(l, d)
}

func MintT10(a []*ext2.E0, b []*ext2.E0) []*ext2.E0 {
	return deriveMinTT10(a, b)
}

func MaxtT10(a []*ext2.E0, b []*ext2.E0) []*ext2.E0 {
	return deriveMaxTT10(a, b)
}

func CompareT11(a [3]int, b [3]int) int {
	return deriveCompareT11(a, b)
}

func EqualT11(a [3]int, b [3]int) bool {
	return deriveEqualT11(a, b)
}

func SortT11(l [][3]int) [][3]int {
	return deriveSortT11(l)
}

func MinlT11(l [][3]int, d [3]int) [3]int {
	return deriveMinLT11(l, d)
}

func MaxlT11(l [][3]int, d [3]int) [3]int {
	return deriveMaxLT11(l, d)
}

func MintT11(a [3]int, b [3]int) [3]int {
	return deriveMinTT11(a, b)
}

func MaxtT11(a [3]int, b [3]int) [3]int {
	return deriveMaxTT11(a, b)
}

func KeysofT11(m map[[3]int]int) [][3]int {
	return deriveKeysT11(m)
}

func CompareT12(a float32, b float32) int {
	return deriveCompareT12(a, b)
}

func EqualT12(a float32, b float32) bool {
	return deriveEqualT12(a, b)
}

func SortT12(l []float32) []float32 {
	return deriveSortT12(l)
}

func MinlT12(l []float32, d float32) float32 {
	return deriveMinLT12(l, d)
}

func MaxlT12(l []float32, d float32) float32 {
	return deriveMaxLT12(l, d)
}

func MintT12(a float32, b float32) float32 {
	return deriveMinTT12(a, b)
}

func MaxtT12(a float32, b float32) float32 {
	return deriveMaxTT12(a, b)
}

func KeysofT12(m map[float32]int) []float32 {
	return deriveKeysT12(m)
}

func CompareT13(a uintptr, b uintptr) int {
	return deriveCompareT13(a, b)
}

func EqualT13(a uintptr, b uintptr) bool {
	return deriveEqualT13(a, b)
}

func SortT13(l []uintptr) []uintptr {
	return deriveSortT13(l)
}

func MinlT13(l []uintptr, d uintptr) uintptr {
	return deriveMinLT13(l, d)
}

func MaxlT13(l []uintptr, d uintptr) uintptr {
	return deriveMaxLT13(l, d)
}

func MintT13(a uintptr, b uintptr) uintptr {
	return deriveMinTT13(a, b)
}

func MaxtT13(a uintptr, b uintptr) uintptr {
	return deriveMaxTT13(a, b)
}

func KeysofT13(m map[uintptr]int) []uintptr {
	return deriveKeysT13(m)
}
