package ext

type Num string

type Key struct {
	k0 Num
}

type E0 struct {
	f0 complex128
	f1 rune
}
