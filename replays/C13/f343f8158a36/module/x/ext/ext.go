package ext

import (
	ext "subj/ext1"
)

type Num int64

type Key struct {
	K0 Num
	k1 bool
}

type E0 struct {
}

type E1 struct {
	F0 ext.Num
}
