package p

type MyStr string

type MyU8 uint8

type MyF32 float32

type MyInt int

type N0 *rune

type K0 struct {
	f0 int32
	F1 uint
	F2 bool
}

type S0 struct {
	*K0
	F1 uintptr
}

type S1 struct {
	f0 MyStr
}
