package p

import (
	ext "subj/ext1"
	ext2 "subj/x/ext"
)

var Anchor = 0

func CompareT0(a map[ext2.Num][]ext.E0, b map[ext2.Num][]ext.E0) int {
	return deriveCompareT0(a, b)
}

func EqualT0(a map[ext2.Num][]ext.E0, b map[ext2.Num][]ext.E0) bool {
	return deriveEqualT0(a, b)
}

func SortT0(l []map[ext2.Num][]ext.E0) []map[ext2.Num][]ext.E0 {
	return deriveSortT0(l)
}

func MinlT0(l []map[ext2.Num][]ext.E0, d map[ext2.Num][]ext.E0) map[ext2.Num][]ext.E0 {
	return deriveMinLT0(l, d)
}

func MaxlT0(l []map[ext2.Num][]ext.E0, d map[ext2.Num][]ext.E0) map[ext2.Num][]ext.E0 {
	return deriveMaxLT0(l, d)
}

func MintT0(a map[ext2.Num][]ext.E0, b map[ext2.Num][]ext.E0) map[ext2.Num][]ext.E0 {
	return deriveMinTT0(a, b)
}

func MaxtT0(a map[ext2.Num][]ext.E0, b map[ext2.Num][]ext.E0) map[ext2.Num][]ext.E0 {
	return deriveMaxTT0(a, b)
}

func CompareT1(a *S0, b *S0) int {
	return deriveCompareT1(a, b)
}

func EqualT1(a *S0, b *S0) bool {
	return deriveEqualT1(a, b)
}

func SortT1(l []*S0) []*S0 {
	return deriveSortT1(l)
}

func MinlT1(l []*S0, d *S0) *S0 {
	return deriveMinLT1(l, d)
}

func MaxlT1(l []*S0, d *S0) *S0 {
	return deriveMaxLT1(l, d)
}

func MintT1(a *S0, b *S0) *S0 {
	return deriveMinTT1(a, b)
}

func MaxtT1(a *S0, b *S0) *S0 {
	return deriveMaxTT1(a, b)
}

func CompareT2(a S1, b S1) int {
	return deriveCompareT2(a, b)
}

func EqualT2(a S1, b S1) bool {
	return deriveEqualT2(a, b)
}

func SortT2(l []S1) []S1 {
	return deriveSortT2(l)
}

func MinlT2(l []S1, d S1) S1 {
	return deriveMinLT2(l, d)
}

func MaxlT2(l []S1, d S1) S1 {
	return deriveMaxLT2(l, d)
}

func MintT2(a S1, b S1) S1 {
	return deriveMinTT2(a, b)
}

func MaxtT2(a S1, b S1) S1 {
	return deriveMaxTT2(a, b)
}

func KeysofT2(m map[S1]int) []S1 {
	return deriveKeysT2(m)
}

func CompareT3(a bool, b bool) int {
	return deriveCompareT3(a, b)
}

func EqualT3(a bool, b bool) bool {
	return deriveEqualT3(a, b)
}

func SortT3(l []bool) []bool {
	return deriveSortT3(l)
}

func KeysofT3(m map[bool]int) []bool {
	return deriveKeysT3(m)
}

func CompareT4(a rune, b rune) int {
	return deriveCompareT4(a, b)
}

func EqualT4(a rune, b rune) bool {
	return deriveEqualT4(a, b)
}

func SortT4(l []rune) []rune {
	return deriveSortT4(l)
}

func MinlT4(l []rune, d rune) rune {
	return deriveMinLT4(l, d)
}

func MaxlT4(l []rune, d rune) rune {
	return deriveMaxLT4(l, d)
}

func MintT4(a rune, b rune) rune {
	return deriveMinTT4(a, b)
}

func MaxtT4(a rune, b rune) rune {
	return deriveMaxTT4(a, b)
}

func KeysofT4(m map[rune]int) []rune {
	return deriveKeysT4(m)
}

func CompareT5(a [1]int, b [1]int) int {
	return deriveCompareT5(a, b)
}

func EqualT5(a [1]int, b [1]int) bool {
	return deriveEqualT5(a, b)
}

func SortT5(l [][1]int) [][1]int {
	return deriveSortT5(l)
}

func MinlT5(l [][1]int, d [1]int) [1]int {
	return deriveMinLT5(l, d)
}

func MaxlT5(l [][1]int, d [1]int) [1]int {
	return deriveMaxLT5(l, d)
}

func MintT5(a [1]int, b [1]int) [1]int {
	return deriveMinTT5(a, b)
}

func MaxtT5(a [1]int, b [1]int) [1]int {
	return deriveMaxTT5(a, b)
}

func KeysofT5(m map[[1]int]int) [][1]int {
	return deriveKeysT5(m)
}

func CompareT6(a [3]map[float32]int64, b [3]map[float32]int64) int {
	return deriveCompareT6(a, b)
}

func EqualT6(a [3]map[float32]int64, b [3]map[float32]int64) bool {
	return deriveEqualT6(a, b)
}

func SortT6(l [][3]map[float32]int64) [][3]map[float32]int64 {
	return deriveSortT6(l)
}

func MinlT6(l [][3]map[float32]int64, d [3]map[float32]int64) [3]map[float32]int64 {
	return deriveMinLT6(l, d)
}

func MaxlT6(l [][3]map[float32]int64, d [3]map[float32]int64) [3]map[float32]int64 {
	return deriveMaxLT6(l, d)
}

func MintT6(a [3]map[float32]int64, b [3]map[float32]int64) [3]map[float32]int64 {
	return deriveMinTT6(a, b)
}

func MaxtT6(a [3]map[float32]int64, b [3]map[float32]int64) [3]map[float32]int64 {
	return deriveMaxTT6(a, b)
}

func CompareT7(a N0, b N0) int {
	return deriveCompareT7(a, b)
}

func EqualT7(a N0, b N0) bool {
	return deriveEqualT7(a, b)
}

func SortT7(l []N0) []N0 {
	return deriveSortT7(l)
}

func MinlT7(l []N0, d N0) N0 {
	return deriveMinLT7(l, d)
}

func MaxlT7(l []N0, d N0) N0 {
	return deriveMaxLT7(l, d)
}

func MintT7(a N0, b N0) N0 {
	return deriveMinTT7(a, b)
}

func MaxtT7(a N0, b N0) N0 {
	return deriveMaxTT7(a, b)
}

func CompareT8(a K0, b K0) int {
	return deriveCompareT8(a, b)
}

func EqualT8(a K0, b K0) bool {
	return deriveEqualT8(a, b)
}

func SortT8(l []K0) []K0 {
	return deriveSortT8(l)
}

func MinlT8(l []K0, d K0) K0 {
	return deriveMinLT8(l, d)
}

func MaxlT8(l []K0, d K0) K0 {
	return deriveMaxLT8(l, d)
}

func MintT8(a K0, b K0) K0 {
	return deriveMinTT8(a, b)
}

func MaxtT8(a K0, b K0) K0 {
	return deriveMaxTT8(a, b)
}

func KeysofT8(m map[K0]int) []K0 {
	return deriveKeysT8(m)
}

func CompareT9(a int8, b int8) int {
	return deriveCompareT9(a, b)
}

func EqualT9(a int8, b int8) bool {
	return deriveEqualT9(a, b)
}

func SortT9(l []int8) []int8 {
	return deriveSortT9(l)
}

func MinlT9(l []int8, d int8) int8 {
	return deriveMinLT9(l, d)
}

func MaxlT9(l []int8, d int8) int8 {
	return deriveMaxLT9(l, d)
}

func MintT9(a int8, b int8) int8 {
	return deriveMinTT9(a, b)
}

func MaxtT9(a int8, b int8) int8 {
	return deriveMaxTT9(a, b)
}

func KeysofT9(m map[int8]int) []int8 {
	return deriveKeysT9(m)
}

func CompareT10(a complex128, b complex128) int {
	return deriveCompareT10(a, b)
}

func EqualT10(a complex128, b complex128) bool {
	return deriveEqualT10(a, b)
}

func SortT10(l []complex128) []complex128 {
	return deriveSortT10(l)
}

func KeysofT10(m map[complex128]int) []complex128 {
	return deriveKeysT10(m)
}

func CompareT11(a map[int8]map[ext.Key]MyU8, b map[int8]map[ext.Key]MyU8) int {
	return deriveCompareT11(a, b)
}

func EqualT11(a map[int8]map[ext.Key]MyU8, b map[int8]map[ext.Key]MyU8) bool {
	return deriveEqualT11(a, b)
}

func SortT11(l []map[int8]map[ext.Key]MyU8) []map[int8]map[ext.Key]MyU8 {
	return deriveSortT11(l)
}

func MinlT11(l []map[int8]map[ext.Key]MyU8, d map[int8]map[ext.Key]MyU8) map[int8]map[ext.Key]MyU8 {
	return deriveMinLT11(l, d)
}

func MaxlT11(l []map[int8]map[ext.Key]MyU8, d map[int8]map[ext.Key]MyU8) map[int8]map[ext.Key]MyU8 {
	return deriveMaxLT11(l, d)
}

func MintT11(a map[int8]map[ext.Key]MyU8, b map[int8]map[ext.Key]MyU8) map[int8]map[ext.Key]MyU8 {
	return deriveMinTT11(a, b)
}

func MaxtT11(a map[int8]map[ext.Key]MyU8, b map[int8]map[ext.Key]MyU8) map[int8]map[ext.Key]MyU8 {
	return deriveMaxTT11(a, b)
}

func CompareT12(a *int8, b *int8) int {
	return deriveCompareT12(a, b)
}

func EqualT12(a *int8, b *int8) bool {
	return deriveEqualT12(a, b)
}

func SortT12(l []*int8) []*int8 {
	return deriveSortT12(l)
}

func MinlT12(l []*int8, d *int8) *int8 {
	return deriveMinLT12(l, d)
}

func MaxlT12(l []*int8, d *int8) *int8 {
	return deriveMaxLT12(l, d)
}

func MintT12(a *int8, b *int8) *int8 {
	return deriveMinTT12(a, b)
}

func MaxtT12(a *int8, b *int8) *int8 {
	return deriveMaxTT12(a, b)
}

func CompareT13(a complex64, b complex64) int {
	return deriveCompareT13(a, b)
}

func EqualT13(a complex64, b complex64) bool {
	return deriveEqualT13(a, b)
}

func SortT13(l []complex64) []complex64 {
	return deriveSortT13(l)
}

func KeysofT13(m map[complex64]int) []complex64 {
	return deriveKeysT13(m)
}
