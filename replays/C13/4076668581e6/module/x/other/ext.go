package other

type Num float64

type Key struct {
	k0 float32
	k1 int
	k2 int64
}

type E0 struct {
}

type E1 struct {
	f0 [1][1]uintptr
	f1 E0
}
