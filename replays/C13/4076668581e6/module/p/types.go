package p

import (
	ext "subj/ext1"
	other "subj/x/other"
)

type MyInt int

type MyF float64

type MyI64 int64

type MyU uint

type N0 *MyU

type K0 struct {
	F0 int32
	f1 ext.Key
}

type K1 struct {
	F0 other.Num
	F1 K0
	F2 ext.Num
}

type S0 struct {
}

type S1 struct {
	F0 map[bool]float32
	F1 S0
	F2 *map[other.Num]map[int32]rune
}

type S2 struct {
	F0 bool
	F1 N0
	K0
	F3 []int16
	f4 uint8
	F5 *uint
}

type S3 struct {
	F0 map[MyU][2][]uint32
	F1 map[uint16]S4
	f2 uintptr
	F3 float64
}

type S4 struct {
	S3
	F1 N0
}
