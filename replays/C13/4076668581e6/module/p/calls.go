package p

import (
	ext "subj/ext1"
)

var Anchor = 0

func CompareT0(a *K0, b *K0) int {
	return deriveCompareT0(a, b)
}

func EqualT0(a *K0, b *K0) bool {
	return deriveEqualT0(a, b)
}

func SortT0(l []*K0) []*K0 {
	return deriveSortT0(l)
}

func MinlT0(l []*K0, d *K0) *K0 {
	return deriveMinLT0(l, d)
}

func MaxlT0(l []*K0, d *K0) *K0 {
	return deriveMaxLT0(l, d)
}

func MintT0(a *K0, b *K0) *K0 {
	return deriveMinTT0(a, b)
}

func MaxtT0(a *K0, b *K0) *K0 {
	return deriveMaxTT0(a, b)
}

func CompareT1(a [1]int64, b [1]int64) int {
	return deriveCompareT1(a, b)
}

func EqualT1(a [1]int64, b [1]int64) bool {
	return deriveEqualT1(a, b)
}

func SortT1(l [][1]int64) [][1]int64 {
	return deriveSortT1(l)
}

func MinlT1(l [][1]int64, d [1]int64) [1]int64 {
	return deriveMinLT1(l, d)
}

func MaxlT1(l [][1]int64, d [1]int64) [1]int64 {
	return deriveMaxLT1(l, d)
}

func MintT1(a [1]int64, b [1]int64) [1]int64 {
	return deriveMinTT1(a, b)
}

func MaxtT1(a [1]int64, b [1]int64) [1]int64 {
	return deriveMaxTT1(a, b)
}

func KeysofT1(m map[[1]int64]int) [][1]int64 {
	return deriveKeysT1(m)
}

func CompareT2(a map[MyU]S0, b map[MyU]S0) int {
	return deriveCompareT2(a, b)
}

func EqualT2(a map[MyU]S0, b map[MyU]S0) bool {
	return deriveEqualT2(a, b)
}

func SortT2(l []map[MyU]S0) []map[MyU]S0 {
	return deriveSortT2(l)
}

func MinlT2(l []map[MyU]S0, d map[MyU]S0) map[MyU]S0 {
	return deriveMinLT2(l, d)
}

func MaxlT2(l []map[MyU]S0, d map[MyU]S0) map[MyU]S0 {
	return deriveMaxLT2(l, d)
}

func MintT2(a map[MyU]S0, b map[MyU]S0) map[MyU]S0 {
	return deriveMinTT2(a, b)
}

func MaxtT2(a map[MyU]S0, b map[MyU]S0) map[MyU]S0 {
	return deriveMaxTT2(a, b)
}

func CompareT3(a K0, b K0) int {
	return deriveCompareT3(a, b)
}

func EqualT3(a K0, b K0) bool {
	return deriveEqualT3(a, b)
}

func SortT3(l []K0) []K0 {
	return deriveSortT3(l)
}

func MinlT3(l []K0, d K0) K0 {
	return deriveMinLT3(l, d)
}

func MaxlT3(l []K0, d K0) K0 {
	return deriveMaxLT3(l, d)
}

func MintT3(a K0, b K0) K0 {
	return deriveMinTT3(a, b)
}

func MaxtT3(a K0, b K0) K0 {
	return deriveMaxTT3(a, b)
}

func KeysofT3(m map[K0]int) []K0 {
	return deriveKeysT3(m)
}

func CompareT4(a *S2, b *S2) int {
	return deriveCompareT4(a, b)
}

func EqualT4(a *S2, b *S2) bool {
	return deriveEqualT4(a, b)
}

func SortT4(l []*S2) []*S2 {
	return deriveSortT4(l)
}

func MinlT4(l []*S2, d *S2) *S2 {
	return deriveMinLT4(l, d)
}

func MaxlT4(l []*S2, d *S2) *S2 {
	return deriveMaxLT4(l, d)
}

func MintT4(a *S2, b *S2) *S2 {
	return deriveMinTT4(a, b)
}

func MaxtT4(a *S2, b *S2) *S2 {
	return deriveMaxTT4(a, b)
}

func CompareT5(a S2, b S2) int {
	return deriveCompareT5(a, b)
}

func EqualT5(a S2, b S2) bool {
	return deriveEqualT5(a, b)
}

func SortT5(l []S2) []S2 {
	return deriveSortT5(l)
}

func MinlT5(l []S2, d S2) S2 {
	return deriveMinLT5(l, d)
}

func MaxlT5(l []S2, d S2) S2 {
	return deriveMaxLT5(l, d)
}

func MintT5(a S2, b S2) S2 {
	return deriveMinTT5(a, b)
}

func MaxtT5(a S2, b S2) S2 {
	return deriveMaxTT5(a, b)
}

func CompareT6(a bool, b bool) int {
	return deriveCompareT6(a, b)
}

func EqualT6(a bool, b bool) bool {
	return deriveEqualT6(a, b)
}

func SortT6(l []bool) []bool {
	return deriveSortT6(l)
}

func KeysofT6(m map[bool]int) []bool {
	return deriveKeysT6(m)
}

func CompareT7(a S3, b S3) int {
	return deriveCompareT7(a, b)
}

func EqualT7(a S3, b S3) bool {
	return deriveEqualT7(a, b)
}

func SortT7(l []S3) []S3 {
	return deriveSortT7(l)
}

func MinlT7(l []S3, d S3) S3 {
	return deriveMinLT7(l, d)
}

func MaxlT7(l []S3, d S3) S3 {
	return deriveMaxLT7(l, d)
}

func MintT7(a S3, b S3) S3 {
	return deriveMinTT7(a, b)
}

func MaxtT7(a S3, b S3) S3 {
	return deriveMaxTT7(a, b)
}

func CompareT8(a map[int64]map[MyInt][]int, b map[int64]map[MyInt][]int) int {
	return deriveCompareT8(a, b)
}

func EqualT8(a map[int64]map[MyInt][]int, b map[int64]map[MyInt][]int) bool {
	return deriveEqualT8(a, b)
}

func SortT8(l []map[int64]map[MyInt][]int) []map[int64]map[MyInt][]int {
	return deriveSortT8(l)
}

func MinlT8(l []map[int64]map[MyInt][]int, d map[int64]map[MyInt][]int) map[int64]map[MyInt][]int {
	return deriveMinLT8(l, d)
}

func MaxlT8(l []map[int64]map[MyInt][]int, d map[int64]map[MyInt][]int) map[int64]map[MyInt][]int {
	return deriveMaxLT8(l, d)
}

func MintT8(a map[int64]map[MyInt][]int, b map[int64]map[MyInt][]int) map[int64]map[MyInt][]int {
	return deriveMinTT8(a, b)
}

func MaxtT8(a map[int64]map[MyInt][]int, b map[int64]map[MyInt][]int) map[int64]map[MyInt][]int {
	return deriveMaxTT8(a, b)
}

func CompareT9(a N0, b N0) int {
	return deriveCompareT9(a, b)
}

func EqualT9(a N0, b N0) bool {
	return deriveEqualT9(a, b)
}

func SortT9(l []N0) []N0 {
	return deriveSortT9(l)
}

func MinlT9(l []N0, d N0) N0 {
	return deriveMinLT9(l, d)
}

func MaxlT9(l []N0, d N0) N0 {
	return deriveMaxLT9(l, d)
}

func MintT9(a N0, b N0) N0 {
	return deriveMinTT9(a, b)
}

func MaxtT9(a N0, b N0) N0 {
	return deriveMaxTT9(a, b)
}

func CompareT10(a uint8, b uint8) int {
	return deriveCompareT10(a, b)
}

func EqualT10(a uint8, b uint8) bool {
	return deriveEqualT10(a, b)
}

func SortT10(l []uint8) []uint8 {
	return deriveSortT10(l)
}

func MinlT10(l []uint8, d uint8) uint8 {
	return deriveMinLT10(l, d)
}

func MaxlT10(l []uint8, d uint8) uint8 {
	return deriveMaxLT10(l, d)
}

func MintT10(a uint8, b uint8) uint8 {
	return deriveMinTT10(a, b)
}

func MaxtT10(a uint8, b uint8) uint8 {
	return deriveMaxTT10(a, b)
}

func KeysofT10(m map[uint8]int) []uint8 {
	return deriveKeysT10(m)
}

func CompareT11(a map[K0]S1, b map[K0]S1) int {
	return deriveCompareT11(a, b)
}

func EqualT11(a map[K0]S1, b map[K0]S1) bool {
	return deriveEqualT11(a, b)
}

func SortT11(l []map[K0]S1) []map[K0]S1 {
	return deriveSortT11(l)
}

func MinlT11(l []map[K0]S1, d map[K0]S1) map[K0]S1 {
	return deriveMinLT11(l, d)
}

func MaxlT11(l []map[K0]S1, d map[K0]S1) map[K0]S1 {
	return deriveMaxLT11(l, d)
}

func MintT11(a map[K0]S1, b map[K0]S1) map[K0]S1 {
	return deriveMinTT11(a, b)
}

func MaxtT11(a map[K0]S1, b map[K0]S1) map[K0]S1 {
	return deriveMaxTT11(a, b)
}

func CompareT12(a ext.Num, b ext.Num) int {
	return deriveCompareT12(a, b)
}

func EqualT12(a ext.Num, b ext.Num) bool {
	return deriveEqualT12(a, b)
}

func SortT12(l []ext.Num) []ext.Num {
	return deriveSortT12(l)
}

func MinlT12(l []ext.Num, d ext.Num) ext.Num {
	return deriveMinLT12(l, d)
}

func MaxlT12(l []ext.Num, d ext.Num) ext.Num {
	return deriveMaxLT12(l, d)
}

func MintT12(a ext.Num, b ext.Num) ext.Num {
	return deriveMinTT12(a, b)
}

func MaxtT12(a ext.Num, b ext.Num) ext.Num {
	return deriveMaxTT12(a, b)
}

func KeysofT12(m map[ext.Num]int) []ext.Num {
	return deriveKeysT12(m)
}

func CompareT13(a map[bool]N0, b map[bool]N0) int {
	return deriveCompareT13(a, b)
}

func EqualT13(a map[bool]N0, b map[bool]N0) bool {
	return deriveEqualT13(a, b)
}

func SortT13(l []map[bool]N0) []map[bool]N0 {
	return deriveSortT13(l)
}

func MinlT13(l []map[bool]N0, d map[bool]N0) map[bool]N0 {
	return deriveMinLT13(l, d)
}

func MaxlT13(l []map[bool]N0, d map[bool]N0) map[bool]N0 {
	return deriveMaxLT13(l, d)
}

func MintT13(a map[bool]N0, b map[bool]N0) map[bool]N0 {
	return deriveMinTT13(a, b)
}

func MaxtT13(a map[bool]N0, b map[bool]N0) map[bool]N0 {
	return deriveMaxTT13(a, b)
}
