package p

import (
	ext "subj/ext1"
	ext2 "subj/x/ext"
)

type MyI64 int64

type MyU uint

type N0 map[ext.Key]MyU

type N1 [3]int

type K0 struct {
}

type S0 struct {
	F0 int16
}

type S1 struct {
	f0 *map[MyU]*S1
	F1 map[[1]ext2.Num]S1
	f2 map[ext.Num]K0
}
