package p

import (
	ext "subj/ext1"
	ext2 "subj/x/ext"
)

var Anchor = 0

func CompareT0(a *K0, b *K0) int {
	return deriveCompareT0(a, b)
}

func EqualT0(a *K0, b *K0) bool {
	return deriveEqualT0(a, b)
}

func SortT0(l []*K0) []*K0 {
	return deriveSortT0(l)
}

func MinlT0(l []*K0, d *K0) *K0 {
	return deriveMinLT0(l, d)
}

func MaxlT0(l []*K0, d *K0) *K0 {
	return deriveMaxLT0(l, d)
}

func MintT0(a *K0, b *K0) *K0 {
	return deriveMinTT0(a, b)
}

func MaxtT0(a *K0, b *K0) *K0 {
	return deriveMaxTT0(a, b)
}

func CompareT1(a *S0, b *S0) int {
	return deriveCompareT1(a, b)
}

func EqualT1(a *S0, b *S0) bool {
	return deriveEqualT1(a, b)
}

func SortT1(l []*S0) []*S0 {
	return deriveSortT1(l)
}

func MinlT1(l []*S0, d *S0) *S0 {
	return deriveMinLT1(l, d)
}

func MaxlT1(l []*S0, d *S0) *S0 {
	return deriveMaxLT1(l, d)
}

func MintT1(a *S0, b *S0) *S0 {
	return deriveMinTT1(a, b)
}

func MaxtT1(a *S0, b *S0) *S0 {
	return deriveMaxTT1(a, b)
}

func CompareT2(a *S1, b *S1) int {
	return deriveCompareT2(a, b)
}

func EqualT2(a *S1, b *S1) bool {
	return deriveEqualT2(a, b)
}

func SortT2(l []*S1) []*S1 {
	return deriveSortT2(l)
}

func MinlT2(l []*S1, d *S1) *S1 {
	return deriveMinLT2(l, d)
}

func MaxlT2(l []*S1, d *S1) *S1 {
	return deriveMaxLT2(l, d)
}

func MintT2(a *S1, b *S1) *S1 {
	return deriveMinTT2(a, b)
}

func MaxtT2(a *S1, b *S1) *S1 {
	return deriveMaxTT2(a, b)
}

func CompareT3(a ext2.Num, b ext2.Num) int {
	return deriveCompareT3(a, b)
}

func EqualT3(a ext2.Num, b ext2.Num) bool {
	return deriveEqualT3(a, b)
}

func SortT3(l []ext2.Num) []ext2.Num {
	return deriveSortT3(l)
}

func MinlT3(l []ext2.Num, d ext2.Num) ext2.Num {
	return deriveMinLT3(l, d)
}

func MaxlT3(l []ext2.Num, d ext2.Num) ext2.Num {
	return deriveMaxLT3(l, d)
}

func MintT3(a ext2.Num, b ext2.Num) ext2.Num {
	return deriveMinTT3(a, b)
}

func MaxtT3(a ext2.Num, b ext2.Num) ext2.Num {
	return deriveMaxTT3(a, b)
}

func KeysofT3(m map[ext2.Num]int) []ext2.Num {
	return deriveKeysT3(m)
}

func CompareT4(a uint, b uint) int {
	return deriveCompareT4(a, b)
}

func EqualT4(a uint, b uint) bool {
	return deriveEqualT4(a, b)
}

func SortT4(l []uint) []uint {
	return deriveSortT4(l)
}

func MinlT4(l []uint, d uint) uint {
	return deriveMinLT4(l, d)
}

func MaxlT4(l []uint, d uint) uint {
	return deriveMaxLT4(l, d)
}

func MintT4(a uint, b uint) uint {
	return deriveMinTT4(a, b)
}

func MaxtT4(a uint, b uint) uint {
	return deriveMaxTT4(a, b)
}

func KeysofT4(m map[uint]int) []uint {
	return deriveKeysT4(m)
}

func CompareT5(a N0, b N0) int {
	return deriveCompareT5(a, b)
}

func EqualT5(a N0, b N0) bool {
	return deriveEqualT5(a, b)
}

func SortT5(l []N0) []N0 {
	return deriveSortT5(l)
}

func MinlT5(l []N0, d N0) N0 {
	return deriveMinLT5(l, d)
}

func MaxlT5(l []N0, d N0) N0 {
	return deriveMaxLT5(l, d)
}

func MintT5(a N0, b N0) N0 {
	return deriveMinTT5(a, b)
}

func MaxtT5(a N0, b N0) N0 {
	return deriveMaxTT5(a, b)
}

func CompareT6(a K0, b K0) int {
	return deriveCompareT6(a, b)
}

func EqualT6(a K0, b K0) bool {
	return deriveEqualT6(a, b)
}

func SortT6(l []K0) []K0 {
	return deriveSortT6(l)
}

func MinlT6(l []K0, d K0) K0 {
	return deriveMinLT6(l, d)
}

func MaxlT6(l []K0, d K0) K0 {
	return deriveMaxLT6(l, d)
}

func MintT6(a K0, b K0) K0 {
	return deriveMinTT6(a, b)
}

func MaxtT6(a K0, b K0) K0 {
	return deriveMaxTT6(a, b)
}

func KeysofT6(m map[K0]int) []K0 {
	return deriveKeysT6(m)
}

func CompareT7(a int8, b int8) int {
	return deriveCompareT7(a, b)
}

func EqualT7(a int8, b int8) bool {
	return deriveEqualT7(a, b)
}

func SortT7(l []int8) []int8 {
	return deriveSortT7(l)
}

func MinlT7(l []int8, d int8) int8 {
	return deriveMinLT7(l, d)
}

func MaxlT7(l []int8, d int8) int8 {
	return deriveMaxLT7(l, d)
}

func MintT7(a int8, b int8) int8 {
	return deriveMinTT7(a, b)
}

func MaxtT7(a int8, b int8) int8 {
	return deriveMaxTT7(a, b)
}

func KeysofT7(m map[int8]int) []int8 {
	return deriveKeysT7(m)
}

func CompareT8(a []ext.Num, b []ext.Num) int {
	return deriveCompareT8(a, b)
}

func EqualT8(a []ext.Num, b []ext.Num) bool {
	return deriveEqualT8(a, b)
}

func SortT8(l [][]ext.Num) [][]ext.Num {
	return deriveSortT8(l)
}

func MinlT8(l [][]ext.Num, d []ext.Num) []ext.Num {
	return deriveMinLT8(l, d)
}

func MaxlT8(l [][]ext.Num, d []ext.Num) []ext.Num {
	return deriveMaxLT8(l, d)
}

func MintT8(a []ext.Num, b []ext.Num) []ext.Num {
	return deriveMinTT8(a, b)
}

func MaxtT8(a []ext.Num, b []ext.Num) []ext.Num {
	return deriveMaxTT8(a, b)
}

func CompareT9(a map[bool]complex64, b map[bool]complex64) int {
	return deriveCompareT9(a, b)
}

func EqualT9(a map[bool]complex64, b map[bool]complex64) bool {
	return deriveEqualT9(a, b)
}

func SortT9(l []map[bool]complex64) []map[bool]complex64 {
	return deriveSortT9(l)
}

func MinlT9(l []map[bool]complex64, d map[bool]complex64) map[bool]complex64 {
	return deriveMinLT9(l, d)
}

func MaxlT9(l []map[bool]complex64, d map[bool]complex64) map[bool]complex64 {
	return deriveMaxLT9(l, d)
}

func MintT9(a map[bool]complex64, b map[bool]complex64) map[bool]complex64 {
	return deriveMinTT9(a, b)
}

func MaxtT9(a map[bool]complex64, b map[bool]complex64) map[bool]complex64 {
	return deriveMaxTT9(a, b)
}

func CompareT10(a map[uint64]K0, b map[uint64]K0) int {
	return deriveCompareT10(a, b)
}

func EqualT10(a map[uint64]K0, b map[uint64]K0) bool {
	return deriveEqualT10(a, b)
}

func SortT10(l []map[uint64]K0) []map[uint64]K0 {
	return deriveSortT10(l)
}

func MinlT10(l []map[uint64]K0, d map[uint64]K0) map[uint64]K0 {
	return deriveMinLT10(l, d)
}

func MaxlT10(l []map[uint64]K0, d map[uint64]K0) map[uint64]K0 {
	return deriveMaxLT10(l, d)
}

func MintT10(a map[uint64]K0, b map[uint64]K0) map[uint64]K0 {
	return deriveMinTT10(a, b)
}

func MaxtT10(a map[uint64]K0, b map[uint64]K0) map[uint64]K0 {
	return deriveMaxTT10(a, b)
}

func CompareT11(a map[K0]int, b map[K0]int) int {
	return deriveCompareT11(a, b)
}

func EqualT11(a map[K0]int, b map[K0]int) bool {
	return deriveEqualT11(a, b)
}

func SortT11(l []map[K0]int) []map[K0]int {
	return deriveSortT11(l)
}

func MinlT11(l []map[K0]int, d map[K0]int) map[K0]int {
	return deriveMinLT11(l, d)
}

func MaxlT11(l []map[K0]int, d map[K0]int) map[K0]int {
	return deriveMaxLT11(l, d)
}

func MintT11(a map[K0]int, b map[K0]int) map[K0]int {
	return deriveMinTT11(a, b)
}

func MaxtT11(a map[K0]int, b map[K0]int) map[K0]int {
	return deriveMaxTT11(a, b)
}

func CompareT12(a map[K0]ext.Num, b map[K0]ext.Num) int {
	return deriveCompareT12(a, b)
}

func EqualT12(a map[K0]ext.Num, b map[K0]ext.Num) bool {
	return deriveEqualT12(a, b)
}

func SortT12(l []map[K0]ext.Num) []map[K0]ext.Num {
	return deriveSortT12(l)
}

func MinlT12(l []map[K0]ext.Num, d map[K0]ext.Num) map[K0]ext.Num {
	return deriveMinLT12(l, d)
}

func MaxlT12(l []map[K0]ext.Num, d map[K0]ext.Num) map[K0]ext.Num {
	return deriveMaxLT12(l, d)
}

func MintT12(a map[K0]ext.Num, b map[K0]ext.Num) map[K0]ext.Num {
	return deriveMinTT12(a, b)
}

func MaxtT12(a map[K0]ext.Num, b map[K0]ext.Num) map[K0]ext.Num {
	return deriveMaxTT12(a, b)
}

func CompareT13(a S1, b S1) int {
	return deriveCompareT13(a, b)
}

func EqualT13(a S1, b S1) bool {
	return deriveEqualT13(a, b)
}

func SortT13(l []S1) []S1 {
	return deriveSortT13(l)
}

func MinlT13(l []S1, d S1) S1 {
	return deriveMinLT13(l, d)
}

func MaxlT13(l []S1, d S1) S1 {
	return deriveMaxLT13(l, d)
}

func MintT13(a S1, b S1) S1 {
	return deriveMinTT13(a, b)
}

func MaxtT13(a S1, b S1) S1 {
	return deriveMaxTT13(a, b)
}
