package ext

type Num string

type Key struct {
	k0 bool
}

type E0 struct {
	F0 [][]uintptr
	f1 Num
	f2 [0][]uint16
}

type E1 struct {
	F0 int8
	F1 Num
}
