package ext

import (
	ext "subj/ext1"
)

type Num string

type Key struct {
	k0 int8
}

type E0 struct {
	f0 *E0
	f1 Key
	f2 *ext.Key
}

type E1 struct {
	f0 Num
}
