package p

import (
	ext "subj/ext1"
	other "subj/x/other"
)

var Anchor = 0

func CompareT0(a int, b int) int {
	return deriveCompareT0(a, b)
}

func EqualT0(a int, b int) bool {
	return deriveEqualT0(a, b)
}

func SortT0(l []int) []int {
	return deriveSortT0(l)
}

func MinlT0(l []int, d int) int {
	return deriveMinLT0(l, d)
}

func MaxlT0(l []int, d int) int {
	return deriveMaxLT0(l, d)
}

func MintT0(a int, b int) int {
	return deriveMinTT0(a, b)
}

func MaxtT0(a int, b int) int {
	return deriveMaxTT0(a, b)
}

func KeysofT0(m map[int]int) []int {
	return deriveKeysT0(m)
}

func CompareT1(a string, b string) int {
	return deriveCompareT1(a, b)
}

func EqualT1(a string, b string) bool {
	return deriveEqualT1(a, b)
}

func SortT1(l []string) []string {
	return deriveSortT1(l)
}

func MinlT1(l []string, d string) string {
	return deriveMinLT1(l, d)
}

func MaxlT1(l []string, d string) string {
	return deriveMaxLT1(l, d)
}

func MintT1(a string, b string) string {
	return deriveMinTT1(a, b)
}

func MaxtT1(a string, b string) string {
	return deriveMaxTT1(a, b)
}

func KeysofT1(m map[string]int) []string {
	return deriveKeysT1(m)
}

func CompareT2(a float64, b float64) int {
	return deriveCompareT2(a, b)
}

func EqualT2(a float64, b float64) bool {
	return deriveEqualT2(a, b)
}

func SortT2(l []float64) []float64 {
	return deriveSortT2(l)
}

func MinlT2(l []float64, d float64) float64 {
	return deriveMinLT2(l, d)
}

func MaxlT2(l []float64, d float64) float64 {
	return deriveMaxLT2(l, d)
}

func MintT2(a float64, b float64) float64 {
	return deriveMinTT2(a, b)
}

func MaxtT2(a float64, b float64) float64 {
	return deriveMaxTT2(a, b)
}

func KeysofT2(m map[float64]int) []float64 {
	return deriveKeysT2(m)
}

func CompareT3(a bool, b bool) int {
	return deriveCompareT3(a, b)
}

func EqualT3(a bool, b bool) bool {
	return deriveEqualT3(a, b)
}

func SortT3(l []bool) []bool {
	return deriveSortT3(l)
}

func KeysofT3(m map[bool]int) []bool {
	return deriveKeysT3(m)
}

func CompareT4(a byte, b byte) int {
	return deriveCompareT4(a, b)
}

func EqualT4(a byte, b byte) bool {
	return deriveEqualT4(a, b)
}

func SortT4(l []byte) []byte {
	return deriveSortT4(l)
}

func MinlT4(l []byte, d byte) byte {
	return deriveMinLT4(l, d)
}

func MaxlT4(l []byte, d byte) byte {
	return deriveMaxLT4(l, d)
}

func MintT4(a byte, b byte) byte {
	return deriveMinTT4(a, b)
}

func MaxtT4(a byte, b byte) byte {
	return deriveMaxTT4(a, b)
}

func KeysofT4(m map[byte]int) []byte {
	return deriveKeysT4(m)
}

func CompareT5(a S0, b S0) int {
	return deriveCompareT5(a, b)
}

func EqualT5(a S0, b S0) bool {
	return deriveEqualT5(a, b)
}

func SortT5(l []S0) []S0 {
	return deriveSortT5(l)
}

func MinlT5(l []S0, d S0) S0 {
	return deriveMinLT5(l, d)
}

func MaxlT5(l []S0, d S0) S0 {
	return deriveMaxLT5(l, d)
}

func MintT5(a S0, b S0) S0 {
	return deriveMinTT5(a, b)
}

func MaxtT5(a S0, b S0) S0 {
	return deriveMaxTT5(a, b)
}

func CompareT6(a ext.E0, b ext.E0) int {
	return deriveCompareT6(a, b)
}

func EqualT6(a ext.E0, b ext.E0) bool {
	return deriveEqualT6(a, b)
}

func SortT6(l []ext.E0) []ext.E0 {
	return deriveSortT6(l)
}

func MinlT6(l []ext.E0, d ext.E0) ext.E0 {
	return deriveMinLT6(l, d)
}

func MaxlT6(l []ext.E0, d ext.E0) ext.E0 {
	return deriveMaxLT6(l, d)
}

func MintT6(a ext.E0, b ext.E0) ext.E0 {
	return deriveMinTT6(a, b)
}

func MaxtT6(a ext.E0, b ext.E0) ext.E0 {
	return deriveMaxTT6(a, b)
}

func CompareT7(a R, b R) int {
	return deriveCompareT7(a, b)
}

func EqualT7(a R, b R) bool {
	return deriveEqualT7(a, b)
}

func SortT7(l []R) []R {
	return deriveSortT7(l)
}

func MinlT7(l []R, d R) R {
	return deriveMinLT7(l, d)
}

func MaxlT7(l []R, d R) R {
	return deriveMaxLT7(l, d)
}

func MintT7(a R, b R) R {
	return deriveMinTT7(a, b)
}

func MaxtT7(a R, b R) R {
	return deriveMaxTT7(a, b)
}

func CompareT8(a other.O0, b other.O0) int {
	return deriveCompareT8(a, b)
}

func EqualT8(a other.O0, b other.O0) bool {
	return deriveEqualT8(a, b)
}

func SortT8(l []other.O0) []other.O0 {
	return deriveSortT8(l)
}

func MinlT8(l []other.O0, d other.O0) other.O0 {
	return deriveMinLT8(l, d)
}

func MaxlT8(l []other.O0, d other.O0) other.O0 {
	return deriveMaxLT8(l, d)
}

func MintT8(a other.O0, b other.O0) other.O0 {
	return deriveMinTT8(a, b)
}

func MaxtT8(a other.O0, b other.O0) other.O0 {
	return deriveMaxTT8(a, b)
}

func CompareT9(a *int, b *int) int {
	return deriveCompareT9(a, b)
}

func EqualT9(a *int, b *int) bool {
	return deriveEqualT9(a, b)
}

func SortT9(l []*int) []*int {
	return deriveSortT9(l)
}

func MinlT9(l []*int, d *int) *int {
	return deriveMinLT9(l, d)
}

func MaxlT9(l []*int, d *int) *int {
	return deriveMaxLT9(l, d)
}

func MintT9(a *int, b *int) *int {
	return deriveMinTT9(a, b)
}

func MaxtT9(a *int, b *int) *int {
	return deriveMaxTT9(a, b)
}

func CompareT10(a []int, b []int) int {
	return deriveCompareT10(a, b)
}

func EqualT10(a []int, b []int) bool {
	return deriveEqualT10(a, b)
}

func SortT10(l [][]int) [][]int {
	return deriveSortT10(l)
}

func MinlT10(l [][]int, d []int) []int {
	return deriveMinLT10(l, d)
}

func MaxlT10(l [][]int, d []int) []int {
	return deriveMaxLT10(l, d)
}

func MintT10(a []int, b []int) []int {
	return deriveMinTT10(a, b)
}

func MaxtT10(a []int, b []int) []int {
	return deriveMaxTT10(a, b)
}

func CompareT11(a [2]int, b [2]int) int {
	return deriveCompareT11(a, b)
}

func EqualT11(a [2]int, b [2]int) bool {
	return deriveEqualT11(a, b)
}

func SortT11(l [][2]int) [][2]int {
	return deriveSortT11(l)
}

func MinlT11(l [][2]int, d [2]int) [2]int {
	return deriveMinLT11(l, d)
}

func MaxlT11(l [][2]int, d [2]int) [2]int {
	return deriveMaxLT11(l, d)
}

func MintT11(a [2]int, b [2]int) [2]int {
	return deriveMinTT11(a, b)
}

func MaxtT11(a [2]int, b [2]int) [2]int {
	return deriveMaxTT11(a, b)
}

func KeysofT11(m map[[2]int]int) [][2]int {
	return deriveKeysT11(m)
}

func CompareT12(a map[string]int, b map[string]int) int {
	return deriveCompareT12(a, b)
}

func EqualT12(a map[string]int, b map[string]int) bool {
	return deriveEqualT12(a, b)
}

func SortT12(l []map[string]int) []map[string]int {
	return deriveSortT12(l)
}

func MinlT12(l []map[string]int, d map[string]int) map[string]int {
	return deriveMinLT12(l, d)
}

func MaxlT12(l []map[string]int, d map[string]int) map[string]int {
	return deriveMaxLT12(l, d)
}

func MintT12(a map[string]int, b map[string]int) map[string]int {
	return deriveMinTT12(a, b)
}

func MaxtT12(a map[string]int, b map[string]int) map[string]int {
	return deriveMaxTT12(a, b)
}

func CompareT13(a map[K0]int, b map[K0]int) int {
	return deriveCompareT13(a, b)
}

func EqualT13(a map[K0]int, b map[K0]int) bool {
	return deriveEqualT13(a, b)
}

func SortT13(l []map[K0]int) []map[K0]int {
	return deriveSortT13(l)
}

func MinlT13(l []map[K0]int, d map[K0]int) map[K0]int {
	return deriveMinLT13(l, d)
}

func MaxlT13(l []map[K0]int, d map[K0]int) map[K0]int {
	return deriveMaxLT13(l, d)
}

func MintT13(a map[K0]int, b map[K0]int) map[K0]int {
	return deriveMinTT13(a, b)
}

func MaxtT13(a map[K0]int, b map[K0]int) map[K0]int {
	return deriveMaxTT13(a, b)
}
