package p

import (
	ext "subj/ext1"
)

var Anchor = 0

func CompareT0(a K0, b K0) int {
	return deriveCompareT0(a, b)
}

func EqualT0(a K0, b K0) bool {
	return deriveEqualT0(a, b)
}

func SortT0(l []K0) []K0 {
	return deriveSortT0(l)
}

func MinlT0(l []K0, d K0) K0 {
	return deriveMinLT0(l, d)
}

func MaxlT0(l []K0, d K0) K0 {
	return deriveMaxLT0(l, d)
}

func MintT0(a K0, b K0) K0 {
	return deriveMinTT0(a, b)
}

func MaxtT0(a K0, b K0) K0 {
	return deriveMaxTT0(a, b)
}

func KeysofT0(m map[K0]int) []K0 {
	return deriveKeysT0(m)
}

func CompareT1(a *K1, b *K1) int {
	return deriveCompareT1(a, b)
}

func EqualT1(a *K1, b *K1) bool {
	return deriveEqualT1(a, b)
}

func SortT1(l []*K1) []*K1 {
	return deriveSortT1(l)
}

func MinlT1(l []*K1, d *K1) *K1 {
	return deriveMinLT1(l, d)
}

func MaxlT1(l []*K1, d *K1) *K1 {
	return deriveMaxLT1(l, d)
}

func MintT1(a *K1, b *K1) *K1 {
	return deriveMinTT1(a, b)
}

func MaxtT1(a *K1, b *K1) *K1 {
	return deriveMaxTT1(a, b)
}

func CompareT2(a byte, b byte) int {
	return deriveCompareT2(a, b)
}

func EqualT2(a byte, b byte) bool {
	return deriveEqualT2(a, b)
}

func SortT2(l []byte) []byte {
	return deriveSortT2(l)
}

func MinlT2(l []byte, d byte) byte {
	return deriveMinLT2(l, d)
}

func MaxlT2(l []byte, d byte) byte {
	return deriveMaxLT2(l, d)
}

func MintT2(a byte, b byte) byte {
	return deriveMinTT2(a, b)
}

func MaxtT2(a byte, b byte) byte {
	return deriveMaxTT2(a, b)
}

func KeysofT2(m map[byte]int) []byte {
	return deriveKeysT2(m)
}

func CompareT3(a int16, b int16) int {
	return deriveCompareT3(a, b)
}

func EqualT3(a int16, b int16) bool {
	return deriveEqualT3(a, b)
}

func SortT3(l []int16) []int16 {
	return deriveSortT3(l)
}

func MinlT3(l []int16, d int16) int16 {
	return deriveMinLT3(l, d)
}

func MaxlT3(l []int16, d int16) int16 {
	return deriveMaxLT3(l, d)
}

func MintT3(a int16, b int16) int16 {
	return deriveMinTT3(a, b)
}

func MaxtT3(a int16, b int16) int16 {
	return deriveMaxTT3(a, b)
}

func KeysofT3(m map[int16]int) []int16 {
	return deriveKeysT3(m)
}

func CompareT4(a N0, b N0) int {
	return deriveCompareT4(a, b)
}

func EqualT4(a N0, b N0) bool {
	return deriveEqualT4(a, b)
}

func SortT4(l []N0) []N0 {
	return deriveSortT4(l)
}

func MinlT4(l []N0, d N0) N0 {
	return deriveMinLT4(l, d)
}

func MaxlT4(l []N0, d N0) N0 {
	return deriveMaxLT4(l, d)
}

func MintT4(a N0, b N0) N0 {
	return deriveMinTT4(a, b)
}

func MaxtT4(a N0, b N0) N0 {
	return deriveMaxTT4(a, b)
}

func CompareT5(a complex128, b complex128) int {
	return deriveCompareT5(a, b)
}

func EqualT5(a complex128, b complex128) bool {
	return deriveEqualT5(a, b)
}

func SortT5(l []complex128) []complex128 {
	return deriveSortT5(l)
}

func KeysofT5(m map[complex128]int) []complex128 {
	return deriveKeysT5(m)
}

func CompareT6(a N1, b N1) int {
	return deriveCompareT6(a, b)
}

func EqualT6(a N1, b N1) bool {
	return deriveEqualT6(a, b)
}

func SortT6(l []N1) []N1 {
	return deriveSortT6(l)
}

func MinlT6(l []N1, d N1) N1 {
	return deriveMinLT6(l, d)
}

func MaxlT6(l []N1, d N1) N1 {
	return deriveMaxLT6(l, d)
}

func MintT6(a N1, b N1) N1 {
	return deriveMinTT6(a, b)
}

func MaxtT6(a N1, b N1) N1 {
	return deriveMaxTT6(a, b)
}

func CompareT7(a *int, b *int) int {
	return deriveCompareT7(a, b)
}

func EqualT7(a *int, b *int) bool {
	return deriveEqualT7(a, b)
}

func SortT7(l []*int) []*int {
	return deriveSortT7(l)
}

func MinlT7(l []*int, d *int) *int {
	return deriveMinLT7(l, d)
}

func MaxlT7(l []*int, d *int) *int {
	return deriveMaxLT7(l, d)
}

func MintT7(a *int, b *int) *int {
	return deriveMinTT7(a, b)
}

func MaxtT7(a *int, b *int) *int {
	return deriveMaxTT7(a, b)
}

func CompareT8(a [1]int8, b [1]int8) int {
	return deriveCompareT8(a, b)
}

func EqualT8(a [1]int8, b [1]int8) bool {
	return deriveEqualT8(a, b)
}

func SortT8(l [][1]int8) [][1]int8 {
	return deriveSortT8(l)
}

func MinlT8(l [][1]int8, d [1]int8) [1]int8 {
	return deriveMinLT8(l, d)
}

func MaxlT8(l [][1]int8, d [1]int8) [1]int8 {
	return deriveMaxLT8(l, d)
}

func MintT8(a [1]int8, b [1]int8) [1]int8 {
	return deriveMinTT8(a, b)
}

func MaxtT8(a [1]int8, b [1]int8) [1]int8 {
	return deriveMaxTT8(a, b)
}

func KeysofT8(m map[[1]int8]int) [][1]int8 {
	return deriveKeysT8(m)
}

func CompareT9(a *uint32, b *uint32) int {
	return deriveCompareT9(a, b)
}

func EqualT9(a *uint32, b *uint32) bool {
	return deriveEqualT9(a, b)
}

func SortT9(l []*uint32) []*uint32 {
	return deriveSortT9(l)
}

func MinlT9(l []*uint32, d *uint32) *uint32 {
	return deriveMinLT9(l, d)
}

func MaxlT9(l []*uint32, d *uint32) *uint32 {
	return deriveMaxLT9(l, d)
}

func MintT9(a *uint32, b *uint32) *uint32 {
	return deriveMinTT9(a, b)
}

func MaxtT9(a *uint32, b *uint32) *uint32 {
	return deriveMaxTT9(a, b)
}

func CompareT10(a complex64, b complex64) int {
	return deriveCompareT10(a, b)
}

func EqualT10(a complex64, b complex64) bool {
	return deriveEqualT10(a, b)
}

func SortT10(l []complex64) []complex64 {
	return deriveSortT10(l)
}

func KeysofT10(m map[complex64]int) []complex64 {
	return deriveKeysT10(m)
}

func CompareT11(a K1, b K1) int {
	return deriveCompareT11(a, b)
}

func EqualT11(a K1, b K1) bool {
	return deriveEqualT11(a, b)
}

func SortT11(l []K1) []K1 {
	return deriveSortT11(l)
}

func MinlT11(l []K1, d K1) K1 {
	return deriveMinLT11(l, d)
}

func MaxlT11(l []K1, d K1) K1 {
	return deriveMaxLT11(l, d)
}

func MintT11(a K1, b K1) K1 {
	return deriveMinTT11(a, b)
}

func MaxtT11(a K1, b K1) K1 {
	return deriveMaxTT11(a, b)
}

func KeysofT11(m map[K1]int) []K1 {
	return deriveKeysT11(m)
}

func CompareT12(a []bool, b []bool) int {
	return deriveCompareT12(a, b)
}

func EqualT12(a []bool, b []bool) bool {
	return deriveEqualT12(a, b)
}

func SortT12(l [][]bool) [][]bool {
	return deriveSortT12(l)
}

func MinlT12(l [][]bool, d []bool) []bool {
	return deriveMinLT12(l, d)
}

func MaxlT12(l [][]bool, d []bool) []bool {
	return deriveMaxLT12(l, d)
}

func MintT12(a []bool, b []bool) []bool {
	return deriveMinTT12(a, b)
}

func MaxtT12(a []bool, b []bool) []bool {
	return deriveMaxTT12(a, b)
}

func CompareT13(a ext.Num, b ext.Num) int {
	return deriveCompareT13(a, b)
}

func EqualT13(a ext.Num, b ext.Num) bool {
	return deriveEqualT13(a, b)
}

func SortT13(l []ext.Num) []ext.Num {
	return deriveSortT13(l)
}

func MinlT13(l []ext.Num, d ext.Num) ext.Num {
	return deriveMinLT13(l, d)
}

func MaxlT13(l []ext.Num, d ext.Num) ext.Num {
	return deriveMaxLT13(l, d)
}

func MintT13(a ext.Num, b ext.Num) ext.Num {
	return deriveMinTT13(a, b)
}

func MaxtT13(a ext.Num, b ext.Num) ext.Num {
	return deriveMaxTT13(a, b)
}

func KeysofT13(m map[ext.Num]int) []ext.Num {
	return deriveKeysT13(m)
}
