package p

import (
	other "subj/x/other"
)

type MyRune rune

type MyStr string

type N0 [][]other.Num

type N1 *float64

type K0 struct {
}

type K1 struct {
}

type S0 struct {
	F0 float64
	K1
	K0
	F3 K1
}
