package other

type Num int

type Key struct {
	k0 rune
	K1 bool
}

type E0 struct {
	F0 [0][]byte
	f1 Key
}
