package ext

type Num float64

type Key struct {
	k0 bool
}

type E0 struct {
	F0 *E0
	f1 [0]*int32
	F2 rune
	f3 uint64
}
