package p

import (
	other "subj/x/other"
)

var Anchor = 0

func CompareT0(a *K0, b *K0) int {
	return deriveCompareT0(a, b)
}

func EqualT0(a *K0, b *K0) bool {
	return deriveEqualT0(a, b)
}

func SortT0(l []*K0) []*K0 {
	return deriveSortT0(l)
}

func MinlT0(l []*K0, d *K0) *K0 {
	return deriveMinLT0(l, d)
}

func MaxlT0(l []*K0, d *K0) *K0 {
	return deriveMaxLT0(l, d)
}

func MintT0(a *K0, b *K0) *K0 {
	return deriveMinTT0(a, b)
}

func MaxtT0(a *K0, b *K0) *K0 {
	return deriveMaxTT0(a, b)
}

func CompareT1(a *K1, b *K1) int {
	return deriveCompareT1(a, b)
}

func EqualT1(a *K1, b *K1) bool {
	return deriveEqualT1(a, b)
}

func SortT1(l []*K1) []*K1 {
	return deriveSortT1(l)
}

func MinlT1(l []*K1, d *K1) *K1 {
	return deriveMinLT1(l, d)
}

func MaxlT1(l []*K1, d *K1) *K1 {
	return deriveMaxLT1(l, d)
}

func MintT1(a *K1, b *K1) *K1 {
	return deriveMinTT1(a, b)
}

func MaxtT1(a *K1, b *K1) *K1 {
	return deriveMaxTT1(a, b)
}

func CompareT2(a S0, b S0) int {
	return deriveCompareT2(a, b)
}

func EqualT2(a S0, b S0) bool {
	return deriveEqualT2(a, b)
}

func SortT2(l []S0) []S0 {
	return deriveSortT2(l)
}

func MinlT2(l []S0, d S0) S0 {
	return deriveMinLT2(l, d)
}

func MaxlT2(l []S0, d S0) S0 {
	return deriveMaxLT2(l, d)
}

func MintT2(a S0, b S0) S0 {
	return deriveMinTT2(a, b)
}

func MaxtT2(a S0, b S0) S0 {
	return deriveMaxTT2(a, b)
}

func CompareT3(a *S1, b *S1) int {
	return deriveCompareT3(a, b)
}

func EqualT3(a *S1, b *S1) bool {
	return deriveEqualT3(a, b)
}

func SortT3(l []*S1) []*S1 {
	return deriveSortT3(l)
}

func MinlT3(l []*S1, d *S1) *S1 {
	return deriveMinLT3(l, d)
}

func MaxlT3(l []*S1, d *S1) *S1 {
	return deriveMaxLT3(l, d)
}

func MintT3(a *S1, b *S1) *S1 {
	return deriveMinTT3(a, b)
}

func MaxtT3(a *S1, b *S1) *S1 {
	return deriveMaxTT3(a, b)
}

func CompareT4(a map[rune]uint16, b map[rune]uint16) int {
	return deriveCompareT4(a, b)
}

func EqualT4(a map[rune]uint16, b map[rune]uint16) bool {
	return deriveEqualT4(a, b)
}

func SortT4(l []map[rune]uint16) []map[rune]uint16 {
	return deriveSortT4(l)
}

func MinlT4(l []map[rune]uint16, d map[rune]uint16) map[rune]uint16 {
	return deriveMinLT4(l, d)
}

func MaxlT4(l []map[rune]uint16, d map[rune]uint16) map[rune]uint16 {
	return deriveMaxLT4(l, d)
}

func MintT4(a map[rune]uint16, b map[rune]uint16) map[rune]uint16 {
	return deriveMinTT4(a, b)
}

func MaxtT4(a map[rune]uint16, b map[rune]uint16) map[rune]uint16 {
	return deriveMaxTT4(a, b)
}

func CompareT5(a S3, b S3) int {
	return deriveCompareT5(a, b)
}

func EqualT5(a S3, b S3) bool {
	return deriveEqualT5(a, b)
}

func SortT5(l []S3) []S3 {
	return deriveSortT5(l)
}

func MinlT5(l []S3, d S3) S3 {
	return deriveMinLT5(l, d)
}

func MaxlT5(l []S3, d S3) S3 {
	return deriveMaxLT5(l, d)
}

func MintT5(a S3, b S3) S3 {
	return deriveMinTT5(a, b)
}

func MaxtT5(a S3, b S3) S3 {
	return deriveMaxTT5(a, b)
}

func CompareT6(a *S4, b *S4) int {
	return deriveCompareT6(a, b)
}

func EqualT6(a *S4, b *S4) bool {
	return deriveEqualT6(a, b)
}

func SortT6(l []*S4) []*S4 {
	return deriveSortT6(l)
}

func MinlT6(l []*S4, d *S4) *S4 {
	return deriveMinLT6(l, d)
}

func MaxlT6(l []*S4, d *S4) *S4 {
	return deriveMaxLT6(l, d)
}

func MintT6(a *S4, b *S4) *S4 {
	return deriveMinTT6(a, b)
}

func MaxtT6(a *S4, b *S4) *S4 {
	return deriveMaxTT6(a, b)
}

func CompareT7(a map[uint]complex128, b map[uint]complex128) int {
	return deriveCompareT7(a, b)
}

func EqualT7(a map[uint]complex128, b map[uint]complex128) bool {
	return deriveEqualT7(a, b)
}

func SortT7(l []map[uint]complex128) []map[uint]complex128 {
	return deriveSortT7(l)
}

func MinlT7(l []map[uint]complex128, d map[uint]complex128) map[uint]complex128 {
	return deriveMinLT7(l, d)
}

func MaxlT7(l []map[uint]complex128, d map[uint]complex128) map[uint]complex128 {
	return deriveMaxLT7(l, d)
}

func MintT7(a map[uint]complex128, b map[uint]complex128) map[uint]complex128 {
	return deriveMinTT7(a, b)
}

func MaxtT7(a map[uint]complex128, b map[uint]complex128) map[uint]complex128 {
	return deriveMaxTT7(a, b)
}

func CompareT8(a other.E0, b other.E0) int {
	return deriveCompareT8(a, b)
}

func EqualT8(a other.E0, b other.E0) bool {
	return deriveEqualT8(a, b)
}

func SortT8(l []other.E0) []other.E0 {
	return deriveSortT8(l)
}

func MinlT8(l []other.E0, d other.E0) other.E0 {
	return deriveMinLT8(l, d)
}

func MaxlT8(l []other.E0, d other.E0) other.E0 {
	return deriveMaxLT8(l, d)
}

func MintT8(a other.E0, b other.E0) other.E0 {
	return deriveMinTT8(a, b)
}

func MaxtT8(a other.E0, b other.E0) other.E0 {
	return deriveMaxTT8(a, b)
}

func KeysofT8(m map[other.E0]int) []other.E0 {
	return deriveKeysT8(m)
}

func CompareT9(a string, b string) int {
	return deriveCompareT9(a, b)
}

func EqualT9(a string, b string) bool {
	return deriveEqualT9(a, b)
}

func SortT9(l []string) []string {
	return deriveSortT9(l)
}

func MinlT9(l []string, d string) string {
	return deriveMinLT9(l, d)
}

func MaxlT9(l []string, d string) string {
	return deriveMaxLT9(l, d)
}

func MintT9(a string, b string) string {
	return deriveMinTT9(a, b)
}

func MaxtT9(a string, b string) string {
	return deriveMaxTT9(a, b)
}

func KeysofT9(m map[string]int) []string {
	return deriveKeysT9(m)
}

func CompareT10(a bool, b bool) int {
	return deriveCompareT10(a, b)
}

func EqualT10(a bool, b bool) bool {
	return deriveEqualT10(a, b)
}

func SortT10(l []bool) []bool {
	return deriveSortT10(l)
}

func KeysofT10(m map[bool]int) []bool {
	return deriveKeysT10(m)
}

func CompareT11(a uint8, b uint8) int {
	return deriveCompareT11(a, b)
}

func EqualT11(a uint8, b uint8) bool {
	return deriveEqualT11(a, b)
}

func SortT11(l []uint8) []uint8 {
	return deriveSortT11(l)
}

func MinlT11(l []uint8, d uint8) uint8 {
	return deriveMinLT11(l, d)
}

func MaxlT11(l []uint8, d uint8) uint8 {
	return deriveMaxLT11(l, d)
}

func MintT11(a uint8, b uint8) uint8 {
	return deriveMinTT11(a, b)
}

func MaxtT11(a uint8, b uint8) uint8 {
	return deriveMaxTT11(a, b)
}

func KeysofT11(m map[uint8]int) []uint8 {
	return deriveKeysT11(m)
}

func CompareT12(a K0, b K0) int {
	return deriveCompareT12(a, b)
}

func EqualT12(a K0, b K0) bool {
	return deriveEqualT12(a, b)
}

func SortT12(l []K0) []K0 {
	return deriveSortT12(l)
}

func MinlT12(l []K0, d K0) K0 {
	return deriveMinLT12(l, d)
}

func MaxlT12(l []K0, d K0) K0 {
	return deriveMaxLT12(l, d)
}

func MintT12(a K0, b K0) K0 {
	return deriveMinTT12(a, b)
}

func MaxtT12(a K0, b K0) K0 {
	return deriveMaxTT12(a, b)
}

func KeysofT12(m map[K0]int) []K0 {
	return deriveKeysT12(m)
}

func CompareT13(a int8, b int8) int {
	return deriveCompareT13(a, b)
}

func EqualT13(a int8, b int8) bool {
	return deriveEqualT13(a, b)
}

func SortT13(l []int8) []int8 {
	return deriveSortT13(l)
}

func MinlT13(l []int8, d int8) int8 {
	return deriveMinLT13(l, d)
}

func MaxlT13(l []int8, d int8) int8 {
	return deriveMaxLT13(l, d)
}

func MintT13(a int8, b int8) int8 {
	return deriveMinTT13(a, b)
}

func MaxtT13(a int8, b int8) int8 {
	return deriveMaxTT13(a, b)
}

func KeysofT13(m map[int8]int) []int8 {
	return deriveKeysT13(m)
}
