package p

import (
	other "subj/x/other"
)

type MyBool bool

type N0 []int32

type N1 []complex64

type K0 struct {
	f0 string
	F1 [2]int
	f2 MyBool
}

type K1 struct {
	f0 int64
}

type S0 struct {
	F0 int
	f1 *int8
	*K1
}

type S1 struct {
}

type S2 struct {
	F0 *K0
	F1 other.E0
	f2 *bool
	F3 int
	F4 map[uint8]S2
}

type S3 struct {
	*S1
}

type S4 struct {
	f0 map[int32]S4
}
