package other

type Num int

type Key struct {
	K0 int32
	k1 int8
}

type E0 struct {
}
