package ext

type Num int

type Key struct {
	k0 int32
	K1 uint8
	K2 bool
}

type E0 struct {
	f0 Key
}

type E1 struct {
}
