package ext

import (
	ext "subj/ext1"
)

type Num uint8

type Key struct {
	K0 int
	K1 complex128
	K2 bool
}

type E0 struct {
	f0 ext.Num
}
