package ext

type Num uint8

type Key struct {
	K0 Num
	k1 uint8
}

type E0 struct {
	F0 [1]*Key
	f1 [0][]uint16
	f2 bool
	f3 rune
}

type E1 struct {
	F0 []byte
	f1 E0
}
