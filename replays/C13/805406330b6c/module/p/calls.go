package p

import (
	ext "subj/ext1"
	ext2 "subj/x/ext"
)

var Anchor = 0

func CompareT0(a *K0, b *K0) int {
	return deriveCompareT0(a, b)
}

func EqualT0(a *K0, b *K0) bool {
	return deriveEqualT0(a, b)
}

func SortT0(l []*K0) []*K0 {
	return deriveSortT0(l)
}

func MinlT0(l []*K0, d *K0) *K0 {
	return deriveMinLT0(l, d)
}

func MaxlT0(l []*K0, d *K0) *K0 {
	return deriveMaxLT0(l, d)
}

func MintT0(a *K0, b *K0) *K0 {
	return deriveMinTT0(a, b)
}

func MaxtT0(a *K0, b *K0) *K0 {
	return deriveMaxTT0(a, b)
}

func CompareT1(a S0, b S0) int {
	return deriveCompareT1(a, b)
}

func EqualT1(a S0, b S0) bool {
	return deriveEqualT1(a, b)
}

func SortT1(l []S0) []S0 {
	return deriveSortT1(l)
}

func MinlT1(l []S0, d S0) S0 {
	return deriveMinLT1(l, d)
}

func MaxlT1(l []S0, d S0) S0 {
	return deriveMaxLT1(l, d)
}

func MintT1(a S0, b S0) S0 {
	return deriveMinTT1(a, b)
}

func MaxtT1(a S0, b S0) S0 {
	return deriveMaxTT1(a, b)
}

func KeysofT1(m map[S0]int) []S0 {
	return deriveKeysT1(m)
}

func CompareT2(a S1, b S1) int {
	return deriveCompareT2(a, b)
}

func EqualT2(a S1, b S1) bool {
	return deriveEqualT2(a, b)
}

func SortT2(l []S1) []S1 {
	return deriveSortT2(l)
}

func MinlT2(l []S1, d S1) S1 {
	return deriveMinLT2(l, d)
}

func MaxlT2(l []S1, d S1) S1 {
	return deriveMaxLT2(l, d)
}

func MintT2(a S1, b S1) S1 {
	return deriveMinTT2(a, b)
}

func MaxtT2(a S1, b S1) S1 {
	return deriveMaxTT2(a, b)
}

func KeysofT2(m map[S1]int) []S1 {
	return deriveKeysT2(m)
}

func CompareT3(a S2, b S2) int {
	return deriveCompareT3(a, b)
}

func EqualT3(a S2, b S2) bool {
	return deriveEqualT3(a, b)
}

func SortT3(l []S2) []S2 {
	return deriveSortT3(l)
}

func MinlT3(l []S2, d S2) S2 {
	return deriveMinLT3(l, d)
}

func MaxlT3(l []S2, d S2) S2 {
	return deriveMaxLT3(l, d)
}

func MintT3(a S2, b S2) S2 {
	return deriveMinTT3(a, b)
}

func MaxtT3(a S2, b S2) S2 {
	return deriveMaxTT3(a, b)
}

func CompareT4(a *ext.Num, b *ext.Num) int {
	return deriveCompareT4(a, b)
}

func EqualT4(a *ext.Num, b *ext.Num) bool {
	return deriveEqualT4(a, b)
}

func SortT4(l []*ext.Num) []*ext.Num {
	return deriveSortT4(l)
}

func MinlT4(l []*ext.Num, d *ext.Num) *ext.Num {
	return deriveMinLT4(l, d)
}

func MaxlT4(l []*ext.Num, d *ext.Num) *ext.Num {
	return deriveMaxLT4(l, d)
}

func MintT4(a *ext.Num, b *ext.Num) *ext.Num {
	return deriveMinTT4(a, b)
}

func MaxtT4(a *ext.Num, b *ext.Num) *ext.Num {
	return deriveMaxTT4(a, b)
}

func CompareT5(a bool, b bool) int {
	return deriveCompareT5(a, b)
}

func EqualT5(a bool, b bool) bool {
	return deriveEqualT5(a, b)
}

func SortT5(l []bool) []bool {
	return deriveSortT5(l)
}

func KeysofT5(m map[bool]int) []bool {
	return deriveKeysT5(m)
}

func CompareT6(a map[bool]S0, b map[bool]S0) int {
	return deriveCompareT6(a, b)
}

func EqualT6(a map[bool]S0, b map[bool]S0) bool {
	return deriveEqualT6(a, b)
}

func SortT6(l []map[bool]S0) []map[bool]S0 {
	return deriveSortT6(l)
}

func MinlT6(l []map[bool]S0, d map[bool]S0) map[bool]S0 {
	return deriveMinLT6(l, d)
}

func MaxlT6(l []map[bool]S0, d map[bool]S0) map[bool]S0 {
	return deriveMaxLT6(l, d)
}

func MintT6(a map[bool]S0, b map[bool]S0) map[bool]S0 {
	return deriveMinTT6(a, b)
}

func MaxtT6(a map[bool]S0, b map[bool]S0) map[bool]S0 {
	return deriveMaxTT6(a, b)
}

func CompareT7(a ext2.Key, b ext2.Key) int {
	return deriveCompareT7(a, b)
}

func EqualT7(a ext2.Key, b ext2.Key) bool {
	return deriveEqualT7(a, b)
}

func SortT7(l []ext2.Key) []ext2.Key {
	return deriveSortT7(l)
}

func MinlT7(l []ext2.Key, d ext2.Key) ext2.Key {
	return deriveMinLT7(l, d)
}

func MaxlT7(l []ext2.Key, d ext2.Key) ext2.Key {
	return deriveMaxLT7(l, d)
}

func MintT7(a ext2.Key, b ext2.Key) ext2.Key {
	return deriveMinTT7(a, b)
}

func MaxtT7(a ext2.Key, b ext2.Key) ext2.Key {
	return deriveMaxTT7(a, b)
}

func KeysofT7(m map[ext2.Key]int) []ext2.Key {
	return deriveKeysT7(m)
}

func CompareT8(a int32, b int32) int {
	return deriveCompareT8(a, b)
}

func EqualT8(a int32, b int32) bool {
	return deriveEqualT8(a, b)
}

func SortT8(l []int32) []int32 {
	return deriveSortT8(l)
}

func MinlT8(l []int32, d int32) int32 {
	return deriveMinLT8(l, d)
}

func MaxlT8(l []int32, d int32) int32 {
	return deriveMaxLT8(l, d)
}

func MintT8(a int32, b int32) int32 {
	return deriveMinTT8(a, b)
}

func MaxtT8(a int32, b int32) int32 {
	return deriveMaxTT8(a, b)
}

func KeysofT8(m map[int32]int) []int32 {
	return deriveKeysT8(m)
}

func CompareT9(a MyStr, b MyStr) int {
	return deriveCompareT9(a, b)
}

func EqualT9(a MyStr, b MyStr) bool {
	return deriveEqualT9(a, b)
}

func SortT9(l []MyStr) []MyStr {
	return deriveSortT9(l)
}

func MinlT9(l []MyStr, d MyStr) MyStr {
	return deriveMinLT9(l, d)
}

func MaxlT9(l []MyStr, d MyStr) MyStr {
	return deriveMaxLT9(l, d)
}

func MintT9(a MyStr, b MyStr) MyStr {
	return deriveMinTT9(a, b)
}

func MaxtT9(a MyStr, b MyStr) MyStr {
	return deriveMaxTT9(a, b)
}

func KeysofT9(m map[MyStr]int) []MyStr {
	return deriveKeysT9(m)
}

func CompareT10(a *complex64, b *complex64) int {
	return deriveCompareT10(a, b)
}

func EqualT10(a *complex64, b *complex64) bool {
	return deriveEqualT10(a, b)
}

func SortT10(l []*complex64) []*complex64 {
	return deriveSortT10(l)
}

func MinlT10(l []*complex64, d *complex64) *complex64 {
	return deriveMinLT10(l, d)
}

func MaxlT10(l []*complex64, d *complex64) *complex64 {
	return deriveMaxLT10(l, d)
}

func MintT10(a *complex64, b *complex64) *complex64 {
	return deriveMinTT10(a, b)
}

func MaxtT10(a *complex64, b *complex64) *complex64 {
	return deriveMaxTT10(a, b)
}

func CompareT11(a complex64, b complex64) int {
	return deriveCompareT11(a, b)
}

func EqualT11(a complex64, b complex64) bool {
	return deriveEqualT11(a, b)
}

func SortT11(l []complex64) []complex64 {
	return deriveSortT11(l)
}

func KeysofT11(m map[complex64]int) []complex64 {
	return deriveKeysT11(m)
}

func CompareT12(a map[uint64]K0, b map[uint64]K0) int {
	return deriveCompareT12(a, b)
}

func EqualT12(a map[uint64]K0, b map[uint64]K0) bool {
	return deriveEqualT12(a, b)
}

func SortT12(l []map[uint64]K0) []map[uint64]K0 {
	return deriveSortT12(l)
}

func MinlT12(l []map[uint64]K0, d map[uint64]K0) map[uint64]K0 {
	return deriveMinLT12(l, d)
}

func MaxlT12(l []map[uint64]K0, d map[uint64]K0) map[uint64]K0 {
	return deriveMaxLT12(l, d)
}

func MintT12(a map[uint64]K0, b map[uint64]K0) map[uint64]K0 {
	return deriveMinTT12(a, b)
}

func MaxtT12(a map[uint64]K0, b map[uint64]K0) map[uint64]K0 {
	return deriveMaxTT12(a, b)
}

func CompareT13(a map[K0]int, b map[K0]int) int {
	return deriveCompareT13(a, b)
}

func EqualT13(a map[K0]int, b map[K0]int) bool {
	return deriveEqualT13(a, b)
}

func SortT13(l []map[K0]int) []map[K0]int {
	return deriveSortT13(l)
}

func MinlT13(l []map[K0]int, d map[K0]int) map[K0]int {
	return deriveMinLT13(l, d)
}

func MaxlT13(l []map[K0]int, d map[K0]int) map[K0]int {
	return deriveMaxLT13(l, d)
}

func MintT13(a map[K0]int, b map[K0]int) map[K0]int {
	return deriveMinTT13(a, b)
}

func MaxtT13(a map[K0]int, b map[K0]int) map[K0]int {
	return deriveMaxTT13(a, b)
}
