package p

import (
	ext "subj/ext1"
	ext2 "subj/x/ext"
)

type MyStr string

type MyU8 uint8

type MyF32 float32

type K0 struct {
}

type S0 struct {
	f0 string
}

type S1 struct {
	F0 ext2.Key
	F1 rune
	f2 S0
}

type S2 struct {
	F0 map[MyU8]S2
	F1 S0
	f2 ext.E0
	*S0
}
