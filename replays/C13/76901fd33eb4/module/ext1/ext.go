package ext

type Num string

type Key struct {
	k0 Num
	K1 bool
	k2 int8
}

type E0 struct {
}
