package p

import (
	ext "subj/ext1"
)

var Anchor = 0

func CompareT0(a [0]*map[string]S0, b [0]*map[string]S0) int {
	return deriveCompareT0(a, b)
}

func EqualT0(a [0]*map[string]S0, b [0]*map[string]S0) bool {
	return deriveEqualT0(a, b)
}

func SortT0(l [][0]*map[string]S0) [][0]*map[string]S0 {
	return deriveSortT0(l)
}

func MinlT0(l [][0]*map[string]S0, d [0]*map[string]S0) [0]*map[string]S0 {
	return deriveMinLT0(l, d)
}

func MaxlT0(l [][0]*map[string]S0, d [0]*map[string]S0) [0]*map[string]S0 {
	return deriveMaxLT0(l, d)
}

func MintT0(a [0]*map[string]S0, b [0]*map[string]S0) [0]*map[string]S0 {
	return deriveMinTT0(a, b)
}

func MaxtT0(a [0]*map[string]S0, b [0]*map[string]S0) [0]*map[string]S0 {
	return deriveMaxTT0(a, b)
}

func CompareT1(a K1, b K1) int {
	return deriveCompareT1(a, b)
}

func EqualT1(a K1, b K1) bool {
	return deriveEqualT1(a, b)
}

func SortT1(l []K1) []K1 {
	return deriveSortT1(l)
}

func MinlT1(l []K1, d K1) K1 {
	return deriveMinLT1(l, d)
}

func MaxlT1(l []K1, d K1) K1 {
	return deriveMaxLT1(l, d)
}

func MintT1(a K1, b K1) K1 {
	return deriveMinTT1(a, b)
}

func MaxtT1(a K1, b K1) K1 {
	return deriveMaxTT1(a, b)
}

func KeysofT1(m map[K1]int) []K1 {
	return deriveKeysT1(m)
}

func CompareT2(a S2, b S2) int {
	return deriveCompareT2(a, b)
}

func EqualT2(a S2, b S2) bool {
	return deriveEqualT2(a, b)
}

func SortT2(l []S2) []S2 {
	return deriveSortT2(l)
}

func MinlT2(l []S2, d S2) S2 {
	return deriveMinLT2(l, d)
}

func MaxlT2(l []S2, d S2) S2 {
	return deriveMaxLT2(l, d)
}

func MintT2(a S2, b S2) S2 {
	return deriveMinTT2(a, b)
}

func MaxtT2(a S2, b S2) S2 {
	return deriveMaxTT2(a, b)
}

func CompareT3(a complex64, b complex64) int {
	return deriveCompareT3(a, b)
}

func EqualT3(a complex64, b complex64) bool {
	return deriveEqualT3(a, b)
}

func SortT3(l []complex64) []complex64 {
	return deriveSortT3(l)
}

func KeysofT3(m map[complex64]int) []complex64 {
	return deriveKeysT3(m)
}

func CompareT4(a *S2, b *S2) int {
	return deriveCompareT4(a, b)
}

func EqualT4(a *S2, b *S2) bool {
	return deriveEqualT4(a, b)
}

func SortT4(l []*S2) []*S2 {
	return deriveSortT4(l)
}

func MinlT4(l []*S2, d *S2) *S2 {
	return deriveMinLT4(l, d)
}

func MaxlT4(l []*S2, d *S2) *S2 {
	return deriveMaxLT4(l, d)
}

func MintT4(a *S2, b *S2) *S2 {
	return deriveMinTT4(a, b)
}

func MaxtT4(a *S2, b *S2) *S2 {
	return deriveMaxTT4(a, b)
}

func CompareT5(a *S3, b *S3) int {
	return deriveCompareT5(a, b)
}

func EqualT5(a *S3, b *S3) bool {
	return deriveEqualT5(a, b)
}

func SortT5(l []*S3) []*S3 {
	return deriveSortT5(l)
}

func MinlT5(l []*S3, d *S3) *S3 {
	return deriveMinLT5(l, d)
}

func MaxlT5(l []*S3, d *S3) *S3 {
	return deriveMaxLT5(l, d)
}

func MintT5(a *S3, b *S3) *S3 {
	return deriveMinTT5(a, b)
}

func MaxtT5(a *S3, b *S3) *S3 {
	return deriveMaxTT5(a, b)
}

func CompareT6(a bool, b bool) int {
	return deriveCompareT6(a, b)
}

func EqualT6(a bool, b bool) bool {
	return deriveEqualT6(a, b)
}

func SortT6(l []bool) []bool {
	return deriveSortT6(l)
}

func KeysofT6(m map[bool]int) []bool {
	return deriveKeysT6(m)
}

func CompareT7(a int8, b int8) int {
	return deriveCompareT7(a, b)
}

func EqualT7(a int8, b int8) bool {
	return deriveEqualT7(a, b)
}

func SortT7(l []int8) []int8 {
	return deriveSortT7(l)
}

func MinlT7(l []int8, d int8) int8 {
	return deriveMinLT7(l, d)
}

func MaxlT7(l []int8, d int8) int8 {
	return deriveMaxLT7(l, d)
}

func MintT7(a int8, b int8) int8 {
	return deriveMinTT7(a, b)
}

func MaxtT7(a int8, b int8) int8 {
	return deriveMaxTT7(a, b)
}

func KeysofT7(m map[int8]int) []int8 {
	return deriveKeysT7(m)
}

func CompareT8(a K0, b K0) int {
	return deriveCompareT8(a, b)
}

func EqualT8(a K0, b K0) bool {
	return deriveEqualT8(a, b)
}

func SortT8(l []K0) []K0 {
	return deriveSortT8(l)
}

func MinlT8(l []K0, d K0) K0 {
	return deriveMinLT8(l, d)
}

func MaxlT8(l []K0, d K0) K0 {
	return deriveMaxLT8(l, d)
}

func MintT8(a K0, b K0) K0 {
	return deriveMinTT8(a, b)
}

func MaxtT8(a K0, b K0) K0 {
	return deriveMaxTT8(a, b)
}

func KeysofT8(m map[K0]int) []K0 {
	return deriveKeysT8(m)
}

func CompareT9(a int32, b int32) int {
	return deriveCompareT9(a, b)
}

func EqualT9(a int32, b int32) bool {
	return deriveEqualT9(a, b)
}

func SortT9(l []int32) []int32 {
	return deriveSortT9(l)
}

func MinlT9(l []int32, d int32) int32 {
	return deriveMinLT9(l, d)
}

func MaxlT9(l []int32, d int32) int32 {
	return deriveMaxLT9(l, d)
}

func MintT9(a int32, b int32) int32 {
	return deriveMinTT9(a, b)
}

func MaxtT9(a int32, b int32) int32 {
	return deriveMaxTT9(a, b)
}

func KeysofT9(m map[int32]int) []int32 {
	return deriveKeysT9(m)
}

func CompareT10(a uint64, b uint64) int {
	return deriveCompareT10(a, b)
}

func EqualT10(a uint64, b uint64) bool {
	return deriveEqualT10(a, b)
}

func SortT10(l []uint64) []uint64 {
	return deriveSortT10(l)
}

func MinlT10(l []uint64, d uint64) uint64 {
	return deriveMinLT10(l, d)
}

func MaxlT10(l []uint64, d uint64) uint64 {
	return deriveMaxLT10(l, d)
}

func MintT10(a uint64, b uint64) uint64 {
	return deriveMinTT10(a, b)
}

func MaxtT10(a uint64, b uint64) uint64 {
	return deriveMaxTT10(a, b)
}

func KeysofT10(m map[uint64]int) []uint64 {
	return deriveKeysT10(m)
}

func CompareT11(a ext.E0, b ext.E0) int {
	return deriveCompareT11(a, b)
}

func EqualT11(a ext.E0, b ext.E0) bool {
	return deriveEqualT11(a, b)
}

func SortT11(l []ext.E0) []ext.E0 {
	return deriveSortT11(l)
}

func MinlT11(l []ext.E0, d ext.E0) ext.E0 {
	return deriveMinLT11(l, d)
}

func MaxlT11(l []ext.E0, d ext.E0) ext.E0 {
	return deriveMaxLT11(l, d)
}

func MintT11(a ext.E0, b ext.E0) ext.E0 {
	return deriveMinTT11(a, b)
}

func MaxtT11(a ext.E0, b ext.E0) ext.E0 {
	return deriveMaxTT11(a, b)
}

func KeysofT11(m map[ext.E0]int) []ext.E0 {
	return deriveKeysT11(m)
}

func CompareT12(a [3][3]MyBool, b [3][3]MyBool) int {
	return deriveCompareT12(a, b)
}

func EqualT12(a [3][3]MyBool, b [3][3]MyBool) bool {
	return deriveEqualT12(a, b)
}

func SortT12(l [][3][3]MyBool) [][3][3]MyBool {
	return deriveSortT12(l)
}

func MinlT12(l [][3][3]MyBool, d [3][3]MyBool) [3][3]MyBool {
	return deriveMinLT12(l, d)
}

func MaxlT12(l [][3][3]MyBool, d [3][3]MyBool) [3][3]MyBool {
	return deriveMaxLT12(l, d)
}

func MintT12(a [3][3]MyBool, b [3][3]MyBool) [3][3]MyBool {
	return deriveMinTT12(a, b)
}

func MaxtT12(a [3][3]MyBool, b [3][3]MyBool) [3][3]MyBool {
	return deriveMaxTT12(a, b)
}

func KeysofT12(m map[[3][3]MyBool]int) [][3][3]MyBool {
	return deriveKeysT12(m)
}

func CompareT13(a *S1, b *S1) int {
	return deriveCompareT13(a, b)
}

func EqualT13(a *S1, b *S1) bool {
	return deriveEqualT13(a, b)
}

func SortT13(l []*S1) []*S1 {
	return deriveSortT13(l)
}

func MinlT13(l []*S1, d *S1) *S1 {
	return deriveMinLT13(l, d)
}

func MaxlT13(l []*S1, d *S1) *S1 {
	return deriveMaxLT13(l, d)
}

func MintT13(a *S1, b *S1) *S1 {
	return deriveMinTT13(a, b)
}

func MaxtT13(a *S1, b *S1) *S1 {
	return deriveMaxTT13(a, b)
}
