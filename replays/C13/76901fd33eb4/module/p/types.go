package p

import (
	ext "subj/ext1"
	ext2 "subj/x/ext"
)

type MyU uint

type MyBool bool

type MyC complex128

type MyRune rune

type N0 map[ext2.Key]float32

type K0 struct {
}

type K1 struct {
	F0 uint64
	F1 int8
	f2 bool
}

type S0 struct {
	F0 []ext.E0
	f1 *S1
	f2 map[[1]bool]int
	f3 map[[0]float32]S0
	F4 MyC
	F5 MyRune
}

type S1 struct {
}

type S2 struct {
	F0 [][]int16
	F1 map[uint]S3
	F2 ext2.E0
	F3 ext2.Num
	f4 S1
}

type S3 struct {
	F0 map[ext2.Num][]uint16
	F1 int
	f2 N0
}
