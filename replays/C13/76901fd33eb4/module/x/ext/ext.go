package ext

type Num float64

type Key struct {
	K0 uint
	k1 int
}

type E0 struct {
	F0 int64
	f1 [][0]rune
	f2 map[bool]*Num
	f3 []byte
}
