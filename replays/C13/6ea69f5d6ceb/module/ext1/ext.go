package ext

type Num float64

type Key struct {
	k0 Num
	K1 byte
}

type E0 struct {
	F0 [2]*E0
}
