package other

type Num int64

type Key struct {
	K0 string
	k1 Num
}

type E0 struct {
	f0 *E0
	f1 [1]float32
	f2 []*bool
	f3 Num
}
