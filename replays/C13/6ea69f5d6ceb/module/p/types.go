package p

import (
	ext "subj/ext1"
	other "subj/x/other"
)

type MyInt int

type MyF float64

type MyI64 int64

type MyU uint

type N0 [0]uint

type N1 []ext.Num

type N2 []MyI64

type K0 struct {
}

type S0 struct {
	f0 map[[2]int64]K0
	*K0
	f2 int8
	F3 N2
	F4 []S0
	F5 int64
}

type S1 struct {
	F0 ext.Num
	f1 other.Num
	*K0
	F3 other.E0
}
