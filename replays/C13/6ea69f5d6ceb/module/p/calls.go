package p

import (
	ext "subj/ext1"
	other "subj/x/other"
)

var Anchor = 0

func CompareT0(a K0, b K0) int {
	return deriveCompareT0(a, b)
}

func EqualT0(a K0, b K0) bool {
	return deriveEqualT0(a, b)
}

func SortT0(l []K0) []K0 {
	return deriveSortT0(l)
}

func MinlT0(l []K0, d K0) K0 {
	return deriveMinLT0(l, d)
}

func MaxlT0(l []K0, d K0) K0 {
	return deriveMaxLT0(l, d)
}

func MintT0(a K0, b K0) K0 {
	return deriveMinTT0(a, b)
}

func MaxtT0(a K0, b K0) K0 {
	return deriveMaxTT0(a, b)
}

func KeysofT0(m map[K0]int) []K0 {
	return deriveKeysT0(m)
}

func CompareT1(a *S0, b *S0) int {
	return deriveCompareT1(a, b)
}

func EqualT1(a *S0, b *S0) bool {
	return deriveEqualT1(a, b)
}

func SortT1(l []*S0) []*S0 {
	return deriveSortT1(l)
}

func MinlT1(l []*S0, d *S0) *S0 {
	return deriveMinLT1(l, d)
}

func MaxlT1(l []*S0, d *S0) *S0 {
	return deriveMaxLT1(l, d)
}

func MintT1(a *S0, b *S0) *S0 {
	return deriveMinTT1(a, b)
}

func MaxtT1(a *S0, b *S0) *S0 {
	return deriveMaxTT1(a, b)
}

func CompareT2(a map[MyU]N2, b map[MyU]N2) int {
	return deriveCompareT2(a, b)
}

func EqualT2(a map[MyU]N2, b map[MyU]N2) bool {
	return deriveEqualT2(a, b)
}

func SortT2(l []map[MyU]N2) []map[MyU]N2 {
	return deriveSortT2(l)
}

func MinlT2(l []map[MyU]N2, d map[MyU]N2) map[MyU]N2 {
	return deriveMinLT2(l, d)
}

func MaxlT2(l []map[MyU]N2, d map[MyU]N2) map[MyU]N2 {
	return deriveMaxLT2(l, d)
}

func MintT2(a map[MyU]N2, b map[MyU]N2) map[MyU]N2 {
	return deriveMinTT2(a, b)
}

func MaxtT2(a map[MyU]N2, b map[MyU]N2) map[MyU]N2 {
	return deriveMaxTT2(a, b)
}

func CompareT3(a uint16, b uint16) int {
	return deriveCompareT3(a, b)
}

func EqualT3(a uint16, b uint16) bool {
	return deriveEqualT3(a, b)
}

func SortT3(l []uint16) []uint16 {
	return deriveSortT3(l)
}

func MinlT3(l []uint16, d uint16) uint16 {
	return deriveMinLT3(l, d)
}

func MaxlT3(l []uint16, d uint16) uint16 {
	return deriveMaxLT3(l, d)
}

func MintT3(a uint16, b uint16) uint16 {
	return deriveMinTT3(a, b)
}

func MaxtT3(a uint16, b uint16) uint16 {
	return deriveMaxTT3(a, b)
}

func KeysofT3(m map[uint16]int) []uint16 {
	return deriveKeysT3(m)
}

func CompareT4(a other.Num, b other.Num) int {
	return deriveCompareT4(a, b)
}

func EqualT4(a other.Num, b other.Num) bool {
	return deriveEqualT4(a, b)
}

func SortT4(l []other.Num) []other.Num {
	return deriveSortT4(l)
}

func MinlT4(l []other.Num, d other.Num) other.Num {
	return deriveMinLT4(l, d)
}

func MaxlT4(l []other.Num, d other.Num) other.Num {
	return deriveMaxLT4(l, d)
}

func MintT4(a other.Num, b other.Num) other.Num {
	return deriveMinTT4(a, b)
}

func MaxtT4(a other.Num, b other.Num) other.Num {
	return deriveMaxTT4(a, b)
}

func KeysofT4(m map[other.Num]int) []other.Num {
	return deriveKeysT4(m)
}

func CompareT5(a complex64, b complex64) int {
	return deriveCompareT5(a, b)
}

func EqualT5(a complex64, b complex64) bool {
	return deriveEqualT5(a, b)
}

func SortT5(l []complex64) []complex64 {
	return deriveSortT5(l)
}

func KeysofT5(m map[complex64]int) []complex64 {
	return deriveKeysT5(m)
}

func CompareT6(a []map[ext.Num]S0, b []map[ext.Num]S0) int {
	return deriveCompareT6(a, b)
}

func EqualT6(a []map[ext.Num]S0, b []map[ext.Num]S0) bool {
	return deriveEqualT6(a, b)
}

func SortT6(l [][]map[ext.Num]S0) [][]map[ext.Num]S0 {
	return deriveSortT6(l)
}

func MinlT6(l [][]map[ext.Num]S0, d []map[ext.Num]S0) []map[ext.Num]S0 {
	return deriveMinLT6(l, d)
}

func MaxlT6(l [][]map[ext.Num]S0, d []map[ext.Num]S0) []map[ext.Num]S0 {
	return deriveMaxLT6(l, d)
}

func MintT6(a []map[ext.Num]S0, b []map[ext.Num]S0) []map[ext.Num]S0 {
	return deriveMinTT6(a, b)
}

func MaxtT6(a []map[ext.Num]S0, b []map[ext.Num]S0) []map[ext.Num]S0 {
	return deriveMaxTT6(a, b)
}

func CompareT7(a map[MyF]K0, b map[MyF]K0) int {
	return deriveCompareT7(a, b)
}

func EqualT7(a map[MyF]K0, b map[MyF]K0) bool {
	return deriveEqualT7(a, b)
}

func SortT7(l []map[MyF]K0) []map[MyF]K0 {
	return deriveSortT7(l)
}

func MinlT7(l []map[MyF]K0, d map[MyF]K0) map[MyF]K0 {
	return deriveMinLT7(l, d)
}

func MaxlT7(l []map[MyF]K0, d map[MyF]K0) map[MyF]K0 {
	return deriveMaxLT7(l, d)
}

func MintT7(a map[MyF]K0, b map[MyF]K0) map[MyF]K0 {
	return deriveMinTT7(a, b)
}

func MaxtT7(a map[MyF]K0, b map[MyF]K0) map[MyF]K0 {
	return deriveMaxTT7(a, b)
}

func CompareT8(a S1, b S1) int {
	return deriveCompareT8(a, b)
}

func EqualT8(a S1, b S1) bool {
	return deriveEqualT8(a, b)
}

func SortT8(l []S1) []S1 {
	return deriveSortT8(l)
}

func MinlT8(l []S1, d S1) S1 {
	return deriveMinLT8(l, d)
}

func MaxlT8(l []S1, d S1) S1 {
	return deriveMaxLT8(l, d)
}

func MintT8(a S1, b S1) S1 {
	return deriveMinTT8(a, b)
}

func MaxtT8(a S1, b S1) S1 {
	return deriveMaxTT8(a, b)
}

func CompareT9(a *int64, b *int64) int {
	return deriveCompareT9(a, b)
}

func EqualT9(a *int64, b *int64) bool {
	return deriveEqualT9(a, b)
}

func SortT9(l []*int64) []*int64 {
	return deriveSortT9(l)
}

func MinlT9(l []*int64, d *int64) *int64 {
	return deriveMinLT9(l, d)
}

func MaxlT9(l []*int64, d *int64) *int64 {
	return deriveMaxLT9(l, d)
}

func MintT9(a *int64, b *int64) *int64 {
	return deriveMinTT9(a, b)
}

func MaxtT9(a *int64, b *int64) *int64 {
	return deriveMaxTT9(a, b)
}

func CompareT10(a MyF, b MyF) int {
	return deriveCompareT10(a, b)
}

func EqualT10(a MyF, b MyF) bool {
	return deriveEqualT10(a, b)
}

func SortT10(l []MyF) []MyF {
	return deriveSortT10(l)
}

func MinlT10(l []MyF, d MyF) MyF {
	return deriveMinLT10(l, d)
}

func MaxlT10(l []MyF, d MyF) MyF {
	return deriveMaxLT10(l, d)
}

func MintT10(a MyF, b MyF) MyF {
	return deriveMinTT10(a, b)
}

func MaxtT10(a MyF, b MyF) MyF {
	return deriveMaxTT10(a, b)
}

func KeysofT10(m map[MyF]int) []MyF {
	return deriveKeysT10(m)
}

func CompareT11(a uint8, b uint8) int {
	return deriveCompareT11(a, b)
}

func EqualT11(a uint8, b uint8) bool {
	return deriveEqualT11(a, b)
}

func SortT11(l []uint8) []uint8 {
	return deriveSortT11(l)
}

func MinlT11(l []uint8, d uint8) uint8 {
	return deriveMinLT11(l, d)
}

func MaxlT11(l []uint8, d uint8) uint8 {
	return deriveMaxLT11(l, d)
}

func MintT11(a uint8, b uint8) uint8 {
	return deriveMinTT11(a, b)
}

func MaxtT11(a uint8, b uint8) uint8 {
	return deriveMaxTT11(a, b)
}

func KeysofT11(m map[uint8]int) []uint8 {
	return deriveKeysT11(m)
}

func CompareT12(a MyInt, b MyInt) int {
	return deriveCompareT12(a, b)
}

func EqualT12(a MyInt, b MyInt) bool {
	return deriveEqualT12(a, b)
}

func SortT12(l []MyInt) []MyInt {
	return deriveSortT12(l)
}

func MinlT12(l []MyInt, d MyInt) MyInt {
	return deriveMinLT12(l, d)
}

func MaxlT12(l []MyInt, d MyInt) MyInt {
	return deriveMaxLT12(l, d)
}

func MintT12(a MyInt, b MyInt) MyInt {
	return deriveMinTT12(a, b)
}

func MaxtT12(a MyInt, b MyInt) MyInt {
	return deriveMaxTT12(a, b)
}

func KeysofT12(m map[MyInt]int) []MyInt {
	return deriveKeysT12(m)
}

func CompareT13(a bool, b bool) int {
	return deriveCompareT13(a, b)
}

func EqualT13(a bool, b bool) bool {
	return deriveEqualT13(a, b)
}

func SortT13(l []bool) []bool {
	return deriveSortT13(l)
}

func KeysofT13(m map[bool]int) []bool {
	return deriveKeysT13(m)
}
