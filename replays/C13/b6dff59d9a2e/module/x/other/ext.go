package other

import (
	ext "subj/ext1"
)

type Num float64

type Key struct {
	k0 Num
	k1 Num
}

type E0 struct {
}

type E1 struct {
	f0 *E1
	F1 ext.E0
}
