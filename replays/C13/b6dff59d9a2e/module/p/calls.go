package p

import (
	ext "subj/ext1"
	other "subj/x/other"
)

var Anchor = 0

func CompareT0(a S4, b S4) int {
	return deriveCompareT0(a, b)
}

func EqualT0(a S4, b S4) bool {
	return deriveEqualT0(a, b)
}

func SortT0(l []S4) []S4 {
	return deriveSortT0(l)
}

func MinlT0(l []S4, d S4) S4 {
	return deriveMinLT0(l, d)
}

func MaxlT0(l []S4, d S4) S4 {
	return deriveMaxLT0(l, d)
}

func MintT0(a S4, b S4) S4 {
	return deriveMinTT0(a, b)
}

func MaxtT0(a S4, b S4) S4 {
	return deriveMaxTT0(a, b)
}

func CompareT1(a float32, b float32) int {
	return deriveCompareT1(a, b)
}

func EqualT1(a float32, b float32) bool {
	return deriveEqualT1(a, b)
}

func SortT1(l []float32) []float32 {
	return deriveSortT1(l)
}

func MinlT1(l []float32, d float32) float32 {
	return deriveMinLT1(l, d)
}

func MaxlT1(l []float32, d float32) float32 {
	return deriveMaxLT1(l, d)
}

func MintT1(a float32, b float32) float32 {
	return deriveMinTT1(a, b)
}

func MaxtT1(a float32, b float32) float32 {
	return deriveMaxTT1(a, b)
}

func KeysofT1(m map[float32]int) []float32 {
	return deriveKeysT1(m)
}

func CompareT2(a *S0, b *S0) int {
	return deriveCompareT2(a, b)
}

func EqualT2(a *S0, b *S0) bool {
	return deriveEqualT2(a, b)
}

func SortT2(l []*S0) []*S0 {
	return deriveSortT2(l)
}

func MinlT2(l []*S0, d *S0) *S0 {
	return deriveMinLT2(l, d)
}

func MaxlT2(l []*S0, d *S0) *S0 {
	return deriveMaxLT2(l, d)
}

func MintT2(a *S0, b *S0) *S0 {
	return deriveMinTT2(a, b)
}

func MaxtT2(a *S0, b *S0) *S0 {
	return deriveMaxTT2(a, b)
}

func CompareT3(a *S1, b *S1) int {
	return deriveCompareT3(a, b)
}

func EqualT3(a *S1, b *S1) bool {
	return deriveEqualT3(a, b)
}

func SortT3(l []*S1) []*S1 {
	return deriveSortT3(l)
}

func MinlT3(l []*S1, d *S1) *S1 {
	return deriveMinLT3(l, d)
}

func MaxlT3(l []*S1, d *S1) *S1 {
	return deriveMaxLT3(l, d)
}

func MintT3(a *S1, b *S1) *S1 {
	return deriveMinTT3(a, b)
}

func MaxtT3(a *S1, b *S1) *S1 {
	return deriveMaxTT3(a, b)
}

func CompareT4(a *S2, b *S2) int {
	return deriveCompareT4(a, b)
}

func EqualT4(a *S2, b *S2) bool {
	return deriveEqualT4(a, b)
}

func SortT4(l []*S2) []*S2 {
	return deriveSortT4(l)
}

func MinlT4(l []*S2, d *S2) *S2 {
	return deriveMinLT4(l, d)
}

func MaxlT4(l []*S2, d *S2) *S2 {
	return deriveMaxLT4(l, d)
}

func MintT4(a *S2, b *S2) *S2 {
	return deriveMinTT4(a, b)
}

func MaxtT4(a *S2, b *S2) *S2 {
	return deriveMaxTT4(a, b)
}

func CompareT5(a *complex128, b *complex128) int {
	return deriveCompareT5(a, b)
}

func EqualT5(a *complex128, b *complex128) bool {
	return deriveEqualT5(a, b)
}

func SortT5(l []*complex128) []*complex128 {
	return deriveSortT5(l)
}

func MinlT5(l []*complex128, d *complex128) *complex128 {
	return deriveMinLT5(l, d)
}

func MaxlT5(l []*complex128, d *complex128) *complex128 {
	return deriveMaxLT5(l, d)
}

func MintT5(a *complex128, b *complex128) *complex128 {
	return deriveMinTT5(a, b)
}

func MaxtT5(a *complex128, b *complex128) *complex128 {
	return deriveMaxTT5(a, b)
}

func CompareT6(a N2, b N2) int {
	return deriveCompareT6(a, b)
}

func EqualT6(a N2, b N2) bool {
	return deriveEqualT6(a, b)
}

func SortT6(l []N2) []N2 {
	return deriveSortT6(l)
}

func MinlT6(l []N2, d N2) N2 {
	return deriveMinLT6(l, d)
}

func MaxlT6(l []N2, d N2) N2 {
	return deriveMaxLT6(l, d)
}

func MintT6(a N2, b N2) N2 {
	return deriveMinTT6(a, b)
}

func MaxtT6(a N2, b N2) N2 {
	return deriveMaxTT6(a, b)
}

func CompareT7(a N1, b N1) int {
	return deriveCompareT7(a, b)
}

func EqualT7(a N1, b N1) bool {
	return deriveEqualT7(a, b)
}

func SortT7(l []N1) []N1 {
	return deriveSortT7(l)
}

func MinlT7(l []N1, d N1) N1 {
	return deriveMinLT7(l, d)
}

func MaxlT7(l []N1, d N1) N1 {
	return deriveMaxLT7(l, d)
}

func MintT7(a N1, b N1) N1 {
	return deriveMinTT7(a, b)
}

func MaxtT7(a N1, b N1) N1 {
	return deriveMaxTT7(a, b)
}

func CompareT8(a [1]bool, b [1]bool) int {
	return deriveCompareT8(a, b)
}

func EqualT8(a [1]bool, b [1]bool) bool {
	return deriveEqualT8(a, b)
}

func SortT8(l [][1]bool) [][1]bool {
	return deriveSortT8(l)
}

func MinlT8(l [][1]bool, d [1]bool) [1]bool {
	return deriveMinLT8(l, d)
}

func MaxlT8(l [][1]bool, d [1]bool) [1]bool {
	return deriveMaxLT8(l, d)
}

func MintT8(a [1]bool, b [1]bool) [1]bool {
	return deriveMinTT8(a, b)
}

func MaxtT8(a [1]bool, b [1]bool) [1]bool {
	return deriveMaxTT8(a, b)
}

func KeysofT8(m map[[1]bool]int) [][1]bool {
	return deriveKeysT8(m)
}

func CompareT9(a S0, b S0) int {
	return deriveCompareT9(a, b)
}

func EqualT9(a S0, b S0) bool {
	return deriveEqualT9(a, b)
}

func SortT9(l []S0) []S0 {
	return deriveSortT9(l)
}

func MinlT9(l []S0, d S0) S0 {
	return deriveMinLT9(l, d)
}

func MaxlT9(l []S0, d S0) S0 {
	return deriveMaxLT9(l, d)
}

func MintT9(a S0, b S0) S0 {
	return deriveMinTT9(a, b)
}

func MaxtT9(a S0, b S0) S0 {
	return deriveMaxTT9(a, b)
}

func CompareT10(a map[[2]ext.Num]uintptr, b map[[2]ext.Num]uintptr) int {
	return deriveCompareT10(a, b)
}

func EqualT10(a map[[2]ext.Num]uintptr, b map[[2]ext.Num]uintptr) bool {
	return deriveEqualT10(a, b)
}

func SortT10(l []map[[2]ext.Num]uintptr) []map[[2]ext.Num]uintptr {
	return deriveSortT10(l)
}

func MinlT10(l []map[[2]ext.Num]uintptr, d map[[2]ext.Num]uintptr) map[[2]ext.Num]uintptr {
	return deriveMinLT10(l, d)
}

func MaxlT10(l []map[[2]ext.Num]uintptr, d map[[2]ext.Num]uintptr) map[[2]ext.Num]uintptr {
	return deriveMaxLT10(l, d)
}

func MintT10(a map[[2]ext.Num]uintptr, b map[[2]ext.Num]uintptr) map[[2]ext.Num]uintptr {
	return deriveMinTT10(a, b)
}

func MaxtT10(a map[[2]ext.Num]uintptr, b map[[2]ext.Num]uintptr) map[[2]ext.Num]uintptr {
	return deriveMaxTT10(a, b)
}

func CompareT11(a int8, b int8) int {
	return deriveCompareT11(a, b)
}

func EqualT11(a int8, b int8) bool {
	return deriveEqualT11(a, b)
}

func SortT11(l []int8) []int8 {
	return deriveSortT11(l)
}

func MinlT11(l []int8, d int8) int8 {
	return deriveMinLT11(l, d)
}

func MaxlT11(l []int8, d int8) int8 {
	return deriveMaxLT11(l, d)
}

func MintT11(a int8, b int8) int8 {
	return deriveMinTT11(a, b)
}

func MaxtT11(a int8, b int8) int8 {
	return deriveMaxTT11(a, b)
}

func KeysofT11(m map[int8]int) []int8 {
	return deriveKeysT11(m)
}

func CompareT12(a K1, b K1) int {
	return deriveCompareT12(a, b)
}

func EqualT12(a K1, b K1) bool {
	return deriveEqualT12(a, b)
}

func SortT12(l []K1) []K1 {
	return deriveSortT12(l)
}

func MinlT12(l []K1, d K1) K1 {
	return deriveMinLT12(l, d)
}

func MaxlT12(l []K1, d K1) K1 {
	return deriveMaxLT12(l, d)
}

func MintT12(a K1, b K1) K1 {
	return deriveMinTT12(a, b)
}

func MaxtT12(a K1, b K1) K1 {
	return deriveMaxTT12(a, b)
}

func KeysofT12(m map[K1]int) []K1 {
	return deriveKeysT12(m)
}

func CompareT13(a other.Num, b other.Num) int {
	return deriveCompareT13(a, b)
}

func EqualT13(a other.Num, b other.Num) bool {
	return deriveEqualT13(a, b)
}

func SortT13(l []other.Num) []other.Num {
	return deriveSortT13(l)
}

func MinlT13(l []other.Num, d other.Num) other.Num {
	return deriveMinLT13(l, d)
}

func MaxlT13(l []other.Num, d other.Num) other.Num {
	return deriveMaxLT13(l, d)
}

func MintT13(a other.Num, b other.Num) other.Num {
	return deriveMinTT13(a, b)
}

func MaxtT13(a other.Num, b other.Num) other.Num {
	return deriveMaxTT13(a, b)
}

func KeysofT13(m map[other.Num]int) []other.Num {
	return deriveKeysT13(m)
}
