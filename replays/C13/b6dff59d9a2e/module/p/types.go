package p

import (
	ext "subj/ext1"
	other "subj/x/other"
)

type MyU8 uint8

type N0 map[MyU8]uint

type N1 [][]MyU8

type N2 [][]uint16

type K0 struct {
	F0 ext.Key
}

type K1 struct {
}

type S0 struct {
	F0 []int16
}

type S1 struct {
	K0
	f1 MyU8
	F2 [2]ext.E0
}

type S2 struct {
	f0 [2]int8
	*S1
	f2 other.E0
	F3 *map[string]map[complex128]float32
	F4 map[MyU8]S4
}

type S3 struct {
	F0 map[complex128]ext.Num
	f1 map[MyU8]*S3
	S0
	f3 [1][]S0
	f4 []S3
	f5 MyU8
}

type S4 struct {
	F0 *other.E0
	f1 ***S4
	F2 map[MyU8][]map[uint8]K0
}
