package ext

type Num uint8

type Key struct {
	k0 uint16
}

type E0 struct {
}
