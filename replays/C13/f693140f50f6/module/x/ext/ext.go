package ext

type Num string

type Key struct {
	K0 Num
	k1 Num
	k2 int32
}

type E0 struct {
}
