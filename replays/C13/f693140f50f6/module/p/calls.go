package p

import (
	ext "subj/ext1"
	ext2 "subj/x/ext"
)

var Anchor = 0

func CompareT0(a K0, b K0) int {
	return deriveCompareT0(a, b)
}

func EqualT0(a K0, b K0) bool {
	return deriveEqualT0(a, b)
}

func SortT0(l []K0) []K0 {
	return deriveSortT0(l)
}

func MinlT0(l []K0, d K0) K0 {
	return deriveMinLT0(l, d)
}

func MaxlT0(l []K0, d K0) K0 {
	return deriveMaxLT0(l, d)
}

func MintT0(a K0, b K0) K0 {
	return deriveMinTT0(a, b)
}

func MaxtT0(a K0, b K0) K0 {
	return deriveMaxTT0(a, b)
}

func KeysofT0(m map[K0]int) []K0 {
	return deriveKeysT0(m)
}

func CompareT1(a K1, b K1) int {
	return deriveCompareT1(a, b)
}

func EqualT1(a K1, b K1) bool {
	return deriveEqualT1(a, b)
}

func SortT1(l []K1) []K1 {
	return deriveSortT1(l)
}

func MinlT1(l []K1, d K1) K1 {
	return deriveMinLT1(l, d)
}

func MaxlT1(l []K1, d K1) K1 {
	return deriveMaxLT1(l, d)
}

func MintT1(a K1, b K1) K1 {
	return deriveMinTT1(a, b)
}

func MaxtT1(a K1, b K1) K1 {
	return deriveMaxTT1(a, b)
}

func KeysofT1(m map[K1]int) []K1 {
	return deriveKeysT1(m)
}

func CompareT2(a S0, b S0) int {
	return deriveCompareT2(a, b)
}

func EqualT2(a S0, b S0) bool {
	return deriveEqualT2(a, b)
}

func SortT2(l []S0) []S0 {
	return deriveSortT2(l)
}

func MinlT2(l []S0, d S0) S0 {
	return deriveMinLT2(l, d)
}

func MaxlT2(l []S0, d S0) S0 {
	return deriveMaxLT2(l, d)
}

func MintT2(a S0, b S0) S0 {
	return deriveMinTT2(a, b)
}

func MaxtT2(a S0, b S0) S0 {
	return deriveMaxTT2(a, b)
}

func KeysofT2(m map[S0]int) []S0 {
	return deriveKeysT2(m)
}

func CompareT3(a *S1, b *S1) int {
	return deriveCompareT3(a, b)
}

func EqualT3(a *S1, b *S1) bool {
	return deriveEqualT3(a, b)
}

func SortT3(l []*S1) []*S1 {
	return deriveSortT3(l)
}

func MinlT3(l []*S1, d *S1) *S1 {
	return deriveMinLT3(l, d)
}

func MaxlT3(l []*S1, d *S1) *S1 {
	return deriveMaxLT3(l, d)
}

func MintT3(a *S1, b *S1) *S1 {
	return deriveMinTT3(a, b)
}

func MaxtT3(a *S1, b *S1) *S1 {
	return deriveMaxTT3(a, b)
}

func CompareT4(a N0, b N0) int {
	return deriveCompareT4(a, b)
}

func EqualT4(a N0, b N0) bool {
	return deriveEqualT4(a, b)
}

func SortT4(l []N0) []N0 {
	return deriveSortT4(l)
}

func MinlT4(l []N0, d N0) N0 {
	return deriveMinLT4(l, d)
}

func MaxlT4(l []N0, d N0) N0 {
	return deriveMaxLT4(l, d)
}

func MintT4(a N0, b N0) N0 {
	return deriveMinTT4(a, b)
}

func MaxtT4(a N0, b N0) N0 {
	return deriveMaxTT4(a, b)
}

func CompareT5(a ext2.E0, b ext2.E0) int {
	return deriveCompareT5(a, b)
}

func EqualT5(a ext2.E0, b ext2.E0) bool {
	return deriveEqualT5(a, b)
}

func SortT5(l []ext2.E0) []ext2.E0 {
	return deriveSortT5(l)
}

func MinlT5(l []ext2.E0, d ext2.E0) ext2.E0 {
	return deriveMinLT5(l, d)
}

func MaxlT5(l []ext2.E0, d ext2.E0) ext2.E0 {
	return deriveMaxLT5(l, d)
}

func MintT5(a ext2.E0, b ext2.E0) ext2.E0 {
	return deriveMinTT5(a, b)
}

func MaxtT5(a ext2.E0, b ext2.E0) ext2.E0 {
	return deriveMaxTT5(a, b)
}

func KeysofT5(m map[ext2.E0]int) []ext2.E0 {
	return deriveKeysT5(m)
}

func CompareT6(a complex128, b complex128) int {
	return deriveCompareT6(a, b)
}

func EqualT6(a complex128, b complex128) bool {
	return deriveEqualT6(a, b)
}

func SortT6(l []complex128) []complex128 {
	return deriveSortT6(l)
}

func KeysofT6(m map[complex128]int) []complex128 {
	return deriveKeysT6(m)
}

func CompareT7(a bool, b bool) int {
	return deriveCompareT7(a, b)
}

func EqualT7(a bool, b bool) bool {
	return deriveEqualT7(a, b)
}

func SortT7(l []bool) []bool {
	return deriveSortT7(l)
}

func KeysofT7(m map[bool]int) []bool {
	return deriveKeysT7(m)
}

func CompareT8(a rune, b rune) int {
	return deriveCompareT8(a, b)
}

func EqualT8(a rune, b rune) bool {
	return deriveEqualT8(a, b)
}

func SortT8(l []rune) []rune {
	return deriveSortT8(l)
}

func MinlT8(l []rune, d rune) rune {
	return deriveMinLT8(l, d)
}

func MaxlT8(l []rune, d rune) rune {
	return deriveMaxLT8(l, d)
}

func MintT8(a rune, b rune) rune {
	return deriveMinTT8(a, b)
}

func MaxtT8(a rune, b rune) rune {
	return deriveMaxTT8(a, b)
}

func KeysofT8(m map[rune]int) []rune {
	return deriveKeysT8(m)
}

func CompareT9(a byte, b byte) int {
	return deriveCompareT9(a, b)
}

func EqualT9(a byte, b byte) bool {
	return deriveEqualT9(a, b)
}

func SortT9(l []byte) []byte {
	return deriveSortT9(l)
}

func MinlT9(l []byte, d byte) byte {
	return deriveMinLT9(l, d)
}

func MaxlT9(l []byte, d byte) byte {
	return deriveMaxLT9(l, d)
}

func MintT9(a byte, b byte) byte {
	return deriveMinTT9(a, b)
}

func MaxtT9(a byte, b byte) byte {
	return deriveMaxTT9(a, b)
}

func KeysofT9(m map[byte]int) []byte {
	return deriveKeysT9(m)
}

func CompareT10(a [0]MyRune, b [0]MyRune) int {
	return deriveCompareT10(a, b)
}

func EqualT10(a [0]MyRune, b [0]MyRune) bool {
	return deriveEqualT10(a, b)
}

func SortT10(l [][0]MyRune) [][0]MyRune {
	return deriveSortT10(l)
}

func MinlT10(l [][0]MyRune, d [0]MyRune) [0]MyRune {
	return deriveMinLT10(l, d)
}

func MaxlT10(l [][0]MyRune, d [0]MyRune) [0]MyRune {
	return deriveMaxLT10(l, d)
}

func MintT10(a [0]MyRune, b [0]MyRune) [0]MyRune {
	return deriveMinTT10(a, b)
}

func MaxtT10(a [0]MyRune, b [0]MyRune) [0]MyRune {
	return deriveMaxTT10(a, b)
}

func KeysofT10(m map[[0]MyRune]int) [][0]MyRune {
	return deriveKeysT10(m)
}

func CompareT11(a map[MyU8]int16, b map[MyU8]int16) int {
	return deriveCompareT11(a, b)
}

func EqualT11(a map[MyU8]int16, b map[MyU8]int16) bool {
	return deriveEqualT11(a, b)
}

func SortT11(l []map[MyU8]int16) []map[MyU8]int16 {
	return deriveSortT11(l)
}

func MinlT11(l []map[MyU8]int16, d map[MyU8]int16) map[MyU8]int16 {
	return deriveMinLT11(l, d)
}

func MaxlT11(l []map[MyU8]int16, d map[MyU8]int16) map[MyU8]int16 {
	return deriveMaxLT11(l, d)
}

func MintT11(a map[MyU8]int16, b map[MyU8]int16) map[MyU8]int16 {
	return deriveMinTT11(a, b)
}

func MaxtT11(a map[MyU8]int16, b map[MyU8]int16) map[MyU8]int16 {
	return deriveMaxTT11(a, b)
}

func CompareT12(a ext.Num, b ext.Num) int {
	return deriveCompareT12(a, b)
}

func EqualT12(a ext.Num, b ext.Num) bool {
	return deriveEqualT12(a, b)
}

func SortT12(l []ext.Num) []ext.Num {
	return deriveSortT12(l)
}

func MinlT12(l []ext.Num, d ext.Num) ext.Num {
	return deriveMinLT12(l, d)
}

func MaxlT12(l []ext.Num, d ext.Num) ext.Num {
	return deriveMaxLT12(l, d)
}

func MintT12(a ext.Num, b ext.Num) ext.Num {
	return deriveMinTT12(a, b)
}

func MaxtT12(a ext.Num, b ext.Num) ext.Num {
	return deriveMaxTT12(a, b)
}

func KeysofT12(m map[ext.Num]int) []ext.Num {
	return deriveKeysT12(m)
}

func CompareT13(a []byte, b []byte) int {
	return deriveCompareT13(a, b)
}

func EqualT13(a []byte, b []byte) bool {
	return deriveEqualT13(a, b)
}

func SortT13(l [][]byte) [][]byte {
	return deriveSortT13(l)
}

func MinlT13(l [][]byte, d []byte) []byte {
	return deriveMinLT13(l, d)
}

func MaxlT13(l [][]byte, d []byte) []byte {
	return deriveMaxLT13(l, d)
}

func MintT13(a []byte, b []byte) []byte {
	return deriveMinTT13(a, b)
}

func MaxtT13(a []byte, b []byte) []byte {
	return deriveMaxTT13(a, b)
}
