package p

import (
	ext "subj/ext1"
	ext2 "subj/x/ext"
)

type MyC complex128

type MyRune rune

type MyStr string

type MyU8 uint8

type N0 map[bool]uint64

type K0 struct {
	F0 uint16
	f1 int32
}

type K1 struct {
	F0 K0
	f1 int
	F2 byte
}

type S0 struct {
	F0 ext2.Num
	f1 ext.E0
}

type S1 struct {
	f0 ext.Num
	*K1
	f2 float32
}
