package ext

type Num int64

type Key struct {
	K0 int
	k1 bool
}

type E0 struct {
}

type E1 struct {
	F0 Num
	F1 complex128
	F2 *int
	f3 bool
}
