package ext

type Num uint8

type Key struct {
	k0 int32
	k1 Num
}

type E0 struct {
	f0 []uintptr
}

type E1 struct {
	F0 map[Key]*uint
	F1 *E1
	f2 Num
	F3 int32
}
