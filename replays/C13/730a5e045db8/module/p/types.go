package p

import (
	ext2 "subj/x/ext"
)

type MyRune rune

type MyStr string

type MyU8 uint8

type N0 [2]MyRune

type N1 map[MyStr]uint8

type K0 struct {
}

type K1 struct {
	f0 K0
}

type S0 struct {
	F0 map[K0]S0
	f1 N1
	f2 K1
	F3 int
	F4 []ext2.E0
	f5 MyRune
}

type S1 struct {
}

type S2 struct {
	f0 [][]S1
}

type S3 struct {
	F0 [3]MyStr
	F1 []byte
	f2 S1
}

type S4 struct {
	F0 map[[1]uint16]S4
	F1 map[ext2.Key]rune
}
