package other

import (
	ext "subj/ext1"
)

type Num float64

type Key struct {
	k0 float32
	k1 int
	k2 int64
}

type E0 struct {
}

type E1 struct {
	f0 []byte
	F1 ext.Num
}
