package ext

type Num float64

type Key struct {
	K0 Num
	k1 float32
}

type E0 struct {
	F0 int
}
