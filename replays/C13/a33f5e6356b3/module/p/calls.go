package p

import (
	other "subj/x/other"
)

var Anchor = 0

func CompareT0(a *K0, b *K0) int {
	return deriveCompareT0(a, b)
}

func EqualT0(a *K0, b *K0) bool {
	return deriveEqualT0(a, b)
}

func SortT0(l []*K0) []*K0 {
	return deriveSortT0(l)
}

func MinlT0(l []*K0, d *K0) *K0 {
	return deriveMinLT0(l, d)
}

func MaxlT0(l []*K0, d *K0) *K0 {
	return deriveMaxLT0(l, d)
}

func MintT0(a *K0, b *K0) *K0 {
	return deriveMinTT0(a, b)
}

func MaxtT0(a *K0, b *K0) *K0 {
	return deriveMaxTT0(a, b)
}

func CompareT1(a MyF32, b MyF32) int {
	return deriveCompareT1(a, b)
}

func EqualT1(a MyF32, b MyF32) bool {
	return deriveEqualT1(a, b)
}

func SortT1(l []MyF32) []MyF32 {
	return deriveSortT1(l)
}

func MinlT1(l []MyF32, d MyF32) MyF32 {
	return deriveMinLT1(l, d)
}

func MaxlT1(l []MyF32, d MyF32) MyF32 {
	return deriveMaxLT1(l, d)
}

func MintT1(a MyF32, b MyF32) MyF32 {
	return deriveMinTT1(a, b)
}

func MaxtT1(a MyF32, b MyF32) MyF32 {
	return deriveMaxTT1(a, b)
}

func KeysofT1(m map[MyF32]int) []MyF32 {
	return deriveKeysT1(m)
}

func CompareT2(a *S1, b *S1) int {
	return deriveCompareT2(a, b)
}

func EqualT2(a *S1, b *S1) bool {
	return deriveEqualT2(a, b)
}

func SortT2(l []*S1) []*S1 {
	return deriveSortT2(l)
}

func MinlT2(l []*S1, d *S1) *S1 {
	return deriveMinLT2(l, d)
}

func MaxlT2(l []*S1, d *S1) *S1 {
	return deriveMaxLT2(l, d)
}

func MintT2(a *S1, b *S1) *S1 {
	return deriveMinTT2(a, b)
}

func MaxtT2(a *S1, b *S1) *S1 {
	return deriveMaxTT2(a, b)
}

func CompareT3(a S2, b S2) int {
	return deriveCompareT3(a, b)
}

func EqualT3(a S2, b S2) bool {
	return deriveEqualT3(a, b)
}

func SortT3(l []S2) []S2 {
	return deriveSortT3(l)
}

func MinlT3(l []S2, d S2) S2 {
	return deriveMinLT3(l, d)
}

func MaxlT3(l []S2, d S2) S2 {
	return deriveMaxLT3(l, d)
}

func MintT3(a S2, b S2) S2 {
	return deriveMinTT3(a, b)
}

func MaxtT3(a S2, b S2) S2 {
	return deriveMaxTT3(a, b)
}

func CompareT4(a complex64, b complex64) int {
	return deriveCompareT4(a, b)
}

func EqualT4(a complex64, b complex64) bool {
	return deriveEqualT4(a, b)
}

func SortT4(l []complex64) []complex64 {
	return deriveSortT4(l)
}

func KeysofT4(m map[complex64]int) []complex64 {
	return deriveKeysT4(m)
}

func CompareT5(a S0, b S0) int {
	return deriveCompareT5(a, b)
}

func EqualT5(a S0, b S0) bool {
	return deriveEqualT5(a, b)
}

func SortT5(l []S0) []S0 {
	return deriveSortT5(l)
}

func MinlT5(l []S0, d S0) S0 {
	return deriveMinLT5(l, d)
}

func MaxlT5(l []S0, d S0) S0 {
	return deriveMaxLT5(l, d)
}

func MintT5(a S0, b S0) S0 {
	return deriveMinTT5(a, b)
}

func MaxtT5(a S0, b S0) S0 {
	return deriveMaxTT5(a, b)
}

func CompareT6(a string, b string) int {
	return deriveCompareT6(a, b)
}

func EqualT6(a string, b string) bool {
	return deriveEqualT6(a, b)
}

func SortT6(l []string) []string {
	return deriveSortT6(l)
}

func MinlT6(l []string, d string) string {
	return deriveMinLT6(l, d)
}

func MaxlT6(l []string, d string) string {
	return deriveMaxLT6(l, d)
}

func MintT6(a string, b string) string {
	return deriveMinTT6(a, b)
}

func MaxtT6(a string, b string) string {
	return deriveMaxTT6(a, b)
}

func KeysofT6(m map[string]int) []string {
	return deriveKeysT6(m)
}

func CompareT7(a bool, b bool) int {
	return deriveCompareT7(a, b)
}

func EqualT7(a bool, b bool) bool {
	return deriveEqualT7(a, b)
}

func SortT7(l []bool) []bool {
	return deriveSortT7(l)
}

func KeysofT7(m map[bool]int) []bool {
	return deriveKeysT7(m)
}

func CompareT8(a uint8, b uint8) int {
	return deriveCompareT8(a, b)
}

func EqualT8(a uint8, b uint8) bool {
	return deriveEqualT8(a, b)
}

func SortT8(l []uint8) []uint8 {
	return deriveSortT8(l)
}

func MinlT8(l []uint8, d uint8) uint8 {
	return deriveMinLT8(l, d)
}

func MaxlT8(l []uint8, d uint8) uint8 {
	return deriveMaxLT8(l, d)
}

func MintT8(a uint8, b uint8) uint8 {
	return deriveMinTT8(a, b)
}

func MaxtT8(a uint8, b uint8) uint8 {
	return deriveMaxTT8(a, b)
}

func KeysofT8(m map[uint8]int) []uint8 {
	return deriveKeysT8(m)
}

func CompareT9(a other.Key, b other.Key) int {
	return deriveCompareT9(a, b)
}

func EqualT9(a other.Key, b other.Key) bool {
	return deriveEqualT9(a, b)
}

func SortT9(l []other.Key) []other.Key {
	return deriveSortT9(l)
}

func MinlT9(l []other.Key, d other.Key) other.Key {
	return deriveMinLT9(l, d)
}

func MaxlT9(l []other.Key, d other.Key) other.Key {
	return deriveMaxLT9(l, d)
}

func MintT9(a other.Key, b other.Key) other.Key {
	return deriveMinTT9(a, b)
}

func MaxtT9(a other.Key, b other.Key) other.Key {
	return deriveMaxTT9(a, b)
}

func KeysofT9(m map[other.Key]int) []other.Key {
	return deriveKeysT9(m)
}

func CompareT10(a uint, b uint) int {
	return deriveCompareT10(a, b)
}

func EqualT10(a uint, b uint) bool {
	return deriveEqualT10(a, b)
}

func SortT10(l []uint) []uint {
	return deriveSortT10(l)
}

func MinlT10(l []uint, d uint) uint {
	return deriveMinLT10(l, d)
}

func MaxlT10(l []uint, d uint) uint {
	return deriveMaxLT10(l, d)
}

func MintT10(a uint, b uint) uint {
	return deriveMinTT10(a, b)
}

func MaxtT10(a uint, b uint) uint {
	return deriveMaxTT10(a, b)
}

func KeysofT10(m map[uint]int) []uint {
	return deriveKeysT10(m)
}

func CompareT11(a map[MyF32]S1, b map[MyF32]S1) int {
	return deriveCompareT11(a, b)
}

func EqualT11(a map[MyF32]S1, b map[MyF32]S1) bool {
	return deriveEqualT11(a, b)
}

func SortT11(l []map[MyF32]S1) []map[MyF32]S1 {
	return deriveSortT11(l)
}

func MinlT11(l []map[MyF32]S1, d map[MyF32]S1) map[MyF32]S1 {
	return deriveMinLT11(l, d)
}

func MaxlT11(l []map[MyF32]S1, d map[MyF32]S1) map[MyF32]S1 {
	return deriveMaxLT11(l, d)
}

func MintT11(a map[MyF32]S1, b map[MyF32]S1) map[MyF32]S1 {
	return deriveMinTT11(a, b)
}

func MaxtT11(a map[MyF32]S1, b map[MyF32]S1) map[MyF32]S1 {
	return deriveMaxTT11(a, b)
}

func CompareT12(a []S0, b []S0) int {
	return deriveCompareT12(a, b)
}

func EqualT12(a []S0, b []S0) bool {
	return deriveEqualT12(a, b)
}

func SortT12(l [][]S0) [][]S0 {
	return deriveSortT12(l)
}

func MinlT12(l [][]S0, d []S0) []S0 {
	return deriveMinLT12(l, d)
}

func MaxlT12(l [][]S0, d []S0) []S0 {
	return deriveMaxLT12(l, d)
}

func MintT12(a []S0, b []S0) []S0 {
	return deriveMinTT12(a, b)
}

func MaxtT12(a []S0, b []S0) []S0 {
	return deriveMaxTT12(a, b)
}

func CompareT13(a float64, b float64) int {
	return deriveCompareT13(a, b)
}

func EqualT13(a float64, b float64) bool {
	return deriveEqualT13(a, b)
}

func SortT13(l []float64) []float64 {
	return deriveSortT13(l)
}

func MinlT13(l []float64, d float64) float64 {
	return deriveMinLT13(l, d)
}

func MaxlT13(l []float64, d float64) float64 {
	return deriveMaxLT13(l, d)
}

func MintT13(a float64, b float64) float64 {
	return deriveMinTT13(a, b)
}

func MaxtT13(a float64, b float64) float64 {
	return deriveMaxTT13(a, b)
}

func KeysofT13(m map[float64]int) []float64 {
	return deriveKeysT13(m)
}
