package p

import (
	ext "subj/ext1"
	other "subj/x/other"
)

type MyU8 uint8

type MyF32 float32

type K0 struct {
	f0 MyF32
}

type S0 struct {
	f0 other.Key
	F1 *map[K0]other.E0
}

type S1 struct {
	F0 map[ext.Key]uintptr
	F1 other.E0
}

type S2 struct {
	F0 map[MyU8]S2
	F1 *map[other.Num]map[int32]rune
}
