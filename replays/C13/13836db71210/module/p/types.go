package p

import (
	ext2 "subj/x/ext"
)

type MyInt int

type MyF float64

type MyI64 int64

type MyU uint

type N0 *bool

type K0 struct {
	F0 int64
}

type S0 struct {
	F0 **int32
}

type S1 struct {
	F0 map[K0]S1
	f1 N0
	f2 S0
	F3 int
	F4 []ext2.E0
	f5 MyU
}
