package p

import (
	ext "subj/ext1"
	ext2 "subj/x/ext"
)

var Anchor = 0

func CompareT0(a byte, b byte) int {
	return deriveCompareT0(a, b)
}

func EqualT0(a byte, b byte) bool {
	return deriveEqualT0(a, b)
}

func SortT0(l []byte) []byte {
	return deriveSortT0(l)
}

func MinlT0(l []byte, d byte) byte {
	return deriveMinLT0(l, d)
}

func MaxlT0(l []byte, d byte) byte {
	return deriveMaxLT0(l, d)
}

func MintT0(a byte, b byte) byte {
	return deriveMinTT0(a, b)
}

func MaxtT0(a byte, b byte) byte {
	return deriveMaxTT0(a, b)
}

func KeysofT0(m map[byte]int) []byte {
	return deriveKeysT0(m)
}

func CompareT1(a MyU, b MyU) int {
	return deriveCompareT1(a, b)
}

func EqualT1(a MyU, b MyU) bool {
	return deriveEqualT1(a, b)
}

func SortT1(l []MyU) []MyU {
	return deriveSortT1(l)
}

func MinlT1(l []MyU, d MyU) MyU {
	return deriveMinLT1(l, d)
}

func MaxlT1(l []MyU, d MyU) MyU {
	return deriveMaxLT1(l, d)
}

func MintT1(a MyU, b MyU) MyU {
	return deriveMinTT1(a, b)
}

func MaxtT1(a MyU, b MyU) MyU {
	return deriveMaxTT1(a, b)
}

func KeysofT1(m map[MyU]int) []MyU {
	return deriveKeysT1(m)
}

func CompareT2(a S1, b S1) int {
	return deriveCompareT2(a, b)
}

func EqualT2(a S1, b S1) bool {
	return deriveEqualT2(a, b)
}

func SortT2(l []S1) []S1 {
	return deriveSortT2(l)
}

func MinlT2(l []S1, d S1) S1 {
	return deriveMinLT2(l, d)
}

func MaxlT2(l []S1, d S1) S1 {
	return deriveMaxLT2(l, d)
}

func MintT2(a S1, b S1) S1 {
	return deriveMinTT2(a, b)
}

func MaxtT2(a S1, b S1) S1 {
	return deriveMaxTT2(a, b)
}

func CompareT3(a ext2.Key, b ext2.Key) int {
	return deriveCompareT3(a, b)
}

func EqualT3(a ext2.Key, b ext2.Key) bool {
	return deriveEqualT3(a, b)
}

func SortT3(l []ext2.Key) []ext2.Key {
	return deriveSortT3(l)
}

func MinlT3(l []ext2.Key, d ext2.Key) ext2.Key {
	return deriveMinLT3(l, d)
}

func MaxlT3(l []ext2.Key, d ext2.Key) ext2.Key {
	return deriveMaxLT3(l, d)
}

func MintT3(a ext2.Key, b ext2.Key) ext2.Key {
	return deriveMinTT3(a, b)
}

func MaxtT3(a ext2.Key, b ext2.Key) ext2.Key {
	return deriveMaxTT3(a, b)
}

func KeysofT3(m map[ext2.Key]int) []ext2.Key {
	return deriveKeysT3(m)
}

func CompareT4(a map[K0]MyF, b map[K0]MyF) int {
	return deriveCompareT4(a, b)
}

func EqualT4(a map[K0]MyF, b map[K0]MyF) bool {
	return deriveEqualT4(a, b)
}

func SortT4(l []map[K0]MyF) []map[K0]MyF {
	return deriveSortT4(l)
}

func MinlT4(l []map[K0]MyF, d map[K0]MyF) map[K0]MyF {
	return deriveMinLT4(l, d)
}

func MaxlT4(l []map[K0]MyF, d map[K0]MyF) map[K0]MyF {
	return deriveMaxLT4(l, d)
}

func MintT4(a map[K0]MyF, b map[K0]MyF) map[K0]MyF {
	return deriveMinTT4(a, b)
}

func MaxtT4(a map[K0]MyF, b map[K0]MyF) map[K0]MyF {
	return deriveMaxTT4(a, b)
}

func CompareT5(a N0, b N0) int {
	return deriveCompareT5(a, b)
}

func EqualT5(a N0, b N0) bool {
	return deriveEqualT5(a, b)
}

func SortT5(l []N0) []N0 {
	return deriveSortT5(l)
}

func MinlT5(l []N0, d N0) N0 {
	return deriveMinLT5(l, d)
}

func MaxlT5(l []N0, d N0) N0 {
	return deriveMaxLT5(l, d)
}

func MintT5(a N0, b N0) N0 {
	return deriveMinTT5(a, b)
}

func MaxtT5(a N0, b N0) N0 {
	return deriveMaxTT5(a, b)
}

func CompareT6(a int8, b int8) int {
	return deriveCompareT6(a, b)
}

func EqualT6(a int8, b int8) bool {
	return deriveEqualT6(a, b)
}

func SortT6(l []int8) []int8 {
	return deriveSortT6(l)
}

func MinlT6(l []int8, d int8) int8 {
	return deriveMinLT6(l, d)
}

func MaxlT6(l []int8, d int8) int8 {
	return deriveMaxLT6(l, d)
}

func MintT6(a int8, b int8) int8 {
	return deriveMinTT6(a, b)
}

func MaxtT6(a int8, b int8) int8 {
	return deriveMaxTT6(a, b)
}

func KeysofT6(m map[int8]int) []int8 {
	return deriveKeysT6(m)
}

func CompareT7(a map[MyI64]uint16, b map[MyI64]uint16) int {
	return deriveCompareT7(a, b)
}

func EqualT7(a map[MyI64]uint16, b map[MyI64]uint16) bool {
	return deriveEqualT7(a, b)
}

func SortT7(l []map[MyI64]uint16) []map[MyI64]uint16 {
	return deriveSortT7(l)
}

func MinlT7(l []map[MyI64]uint16, d map[MyI64]uint16) map[MyI64]uint16 {
	return deriveMinLT7(l, d)
}

func MaxlT7(l []map[MyI64]uint16, d map[MyI64]uint16) map[MyI64]uint16 {
	return deriveMaxLT7(l, d)
}

func MintT7(a map[MyI64]uint16, b map[MyI64]uint16) map[MyI64]uint16 {
	return deriveMinTT7(a, b)
}

func MaxtT7(a map[MyI64]uint16, b map[MyI64]uint16) map[MyI64]uint16 {
	return deriveMaxTT7(a, b)
}

func CompareT8(a ext.Num, b ext.Num) int {
	return deriveCompareT8(a, b)
}

func EqualT8(a ext.Num, b ext.Num) bool {
	return deriveEqualT8(a, b)
}

func SortT8(l []ext.Num) []ext.Num {
	return deriveSortT8(l)
}

func MinlT8(l []ext.Num, d ext.Num) ext.Num {
	return deriveMinLT8(l, d)
}

func MaxlT8(l []ext.Num, d ext.Num) ext.Num {
	return deriveMaxLT8(l, d)
}

func MintT8(a ext.Num, b ext.Num) ext.Num {
	return deriveMinTT8(a, b)
}

func MaxtT8(a ext.Num, b ext.Num) ext.Num {
	return deriveMaxTT8(a, b)
}

func KeysofT8(m map[ext.Num]int) []ext.Num {
	return deriveKeysT8(m)
}

func CompareT9(a complex64, b complex64) int {
	return deriveCompareT9(a, b)
}

func EqualT9(a complex64, b complex64) bool {
	return deriveEqualT9(a, b)
}

func SortT9(l []complex64) []complex64 {
	return deriveSortT9(l)
}

func KeysofT9(m map[complex64]int) []complex64 {
	return deriveKeysT9(m)
}

func CompareT10(a [0]N0, b [0]N0) int {
	return deriveCompareT10(a, b)
}

func EqualT10(a [0]N0, b [0]N0) bool {
	return deriveEqualT10(a, b)
}

func SortT10(l [][0]N0) [][0]N0 {
	return deriveSortT10(l)
}

func MinlT10(l [][0]N0, d [0]N0) [0]N0 {
	return deriveMinLT10(l, d)
}

func MaxlT10(l [][0]N0, d [0]N0) [0]N0 {
	return deriveMaxLT10(l, d)
}

func MintT10(a [0]N0, b [0]N0) [0]N0 {
	return deriveMinTT10(a, b)
}

func MaxtT10(a [0]N0, b [0]N0) [0]N0 {
	return deriveMaxTT10(a, b)
}

func CompareT11(a int16, b int16) int {
	return deriveCompareT11(a, b)
}

func EqualT11(a int16, b int16) bool {
	return deriveEqualT11(a, b)
}

func SortT11(l []int16) []int16 {
	return deriveSortT11(l)
}

func MinlT11(l []int16, d int16) int16 {
	return deriveMinLT11(l, d)
}

func MaxlT11(l []int16, d int16) int16 {
	return deriveMaxLT11(l, d)
}

func MintT11(a int16, b int16) int16 {
	return deriveMinTT11(a, b)
}

func MaxtT11(a int16, b int16) int16 {
	return deriveMaxTT11(a, b)
}

func KeysofT11(m map[int16]int) []int16 {
	return deriveKeysT11(m)
}

func CompareT12(a *ext2.E1, b *ext2.E1) int {
	return deriveCompareT12(a, b)
}

func EqualT12(a *ext2.E1, b *ext2.E1) bool {
	return deriveEqualT12(a, b)
}

func SortT12(l []*ext2.E1) []*ext2.E1 {
	return deriveSortT12(l)
}

func MinlT12(l []*ext2.E1, d *ext2.E1) *ext2.E1 {
	return deriveMinLT12(l, d)
}

func MaxlT12(l []*ext2.E1, d *ext2.E1) *ext2.E1 {
	return deriveMaxLT12(l, d)
}

func MintT12(a *ext2.E1, b *ext2.E1) *ext2.E1 {
	return deriveMinTT12(a, b)
}

func MaxtT12(a *ext2.E1, b *ext2.E1) *ext2.E1 {
	return deriveMaxTT12(a, b)
}

func CompareT13(a map[ext.Key][]int, b map[ext.Key][]int) int {
	return deriveCompareT13(a, b)
}

func EqualT13(a map[ext.Key][]int, b map[ext.Key][]int) bool {
	return deriveEqualT13(a, b)
}

func SortT13(l []map[ext.Key][]int) []map[ext.Key][]int {
	return deriveSortT13(l)
}

func MinlT13(l []map[ext.Key][]int, d map[ext.Key][]int) map[ext.Key][]int {
	return deriveMinLT13(l, d)
}

func MaxlT13(l []map[ext.Key][]int, d map[ext.Key][]int) map[ext.Key][]int {
	return deriveMaxLT13(l, d)
}

func MintT13(a map[ext.Key][]int, b map[ext.Key][]int) map[ext.Key][]int {
	return deriveMinTT13(a, b)
}

func MaxtT13(a map[ext.Key][]int, b map[ext.Key][]int) map[ext.Key][]int {
	return deriveMaxTT13(a, b)
}
