package ext

import (
	ext "subj/ext1"
)

type Num uint8

type Key struct {
	k0 int32
	k1 Num
}

type E0 struct {
	f0 uintptr
}

type E1 struct {
	F0 Num
	F1 ext.E0
	F2 Num
	f3 ext.E1
}
