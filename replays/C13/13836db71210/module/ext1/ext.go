package ext

type Num int

type Key struct {
	K0 float32
}

type E0 struct {
	F0 Key
	f1 uint16
}

type E1 struct {
	f0 uint16
	f1 *Num
}
