package p

type MyF32 float32

type MyInt int

type MyF float64

type K0 struct {
	f0 uint16
	F1 int
}

type S0 struct {
	F0 K0
	K0
}
