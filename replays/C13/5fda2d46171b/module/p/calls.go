package p

import (
	ext "subj/ext1"
)

var Anchor = 0

func CompareT0(a int, b int) int {
	return deriveCompareT0(a, b)
}

func EqualT0(a int, b int) bool {
	return deriveEqualT0(a, b)
}

func SortT0(l []int) []int {
	return deriveSortT0(l)
}

func MinlT0(l []int, d int) int {
	return deriveMinLT0(l, d)
}

func MaxlT0(l []int, d int) int {
	return deriveMaxLT0(l, d)
}

func MintT0(a int, b int) int {
	return deriveMinTT0(a, b)
}

func MaxtT0(a int, b int) int {
	return deriveMaxTT0(a, b)
}

func KeysofT0(m map[int]int) []int {
	return deriveKeysT0(m)
}

func CompareT1(a S0, b S0) int {
	return deriveCompareT1(a, b)
}

func EqualT1(a S0, b S0) bool {
	return deriveEqualT1(a, b)
}

func SortT1(l []S0) []S0 {
	return deriveSortT1(l)
}

func MinlT1(l []S0, d S0) S0 {
	return deriveMinLT1(l, d)
}

func MaxlT1(l []S0, d S0) S0 {
	return deriveMaxLT1(l, d)
}

func MintT1(a S0, b S0) S0 {
	return deriveMinTT1(a, b)
}

func MaxtT1(a S0, b S0) S0 {
	return deriveMaxTT1(a, b)
}

func KeysofT1(m map[S0]int) []S0 {
	return deriveKeysT1(m)
}

func CompareT2(a K0, b K0) int {
	return deriveCompareT2(a, b)
}

func EqualT2(a K0, b K0) bool {
	return deriveEqualT2(a, b)
}

func SortT2(l []K0) []K0 {
	return deriveSortT2(l)
}

func MinlT2(l []K0, d K0) K0 {
	return deriveMinLT2(l, d)
}

func MaxlT2(l []K0, d K0) K0 {
	return deriveMaxLT2(l, d)
}

func MintT2(a K0, b K0) K0 {
	return deriveMinTT2(a, b)
}

func MaxtT2(a K0, b K0) K0 {
	return deriveMaxTT2(a, b)
}

func KeysofT2(m map[K0]int) []K0 {
	return deriveKeysT2(m)
}

func CompareT3(a int8, b int8) int {
	return deriveCompareT3(a, b)
}

func EqualT3(a int8, b int8) bool {
	return deriveEqualT3(a, b)
}

func SortT3(l []int8) []int8 {
	return deriveSortT3(l)
}

func MinlT3(l []int8, d int8) int8 {
	return deriveMinLT3(l, d)
}

func MaxlT3(l []int8, d int8) int8 {
	return deriveMaxLT3(l, d)
}

func MintT3(a int8, b int8) int8 {
	return deriveMinTT3(a, b)
}

func MaxtT3(a int8, b int8) int8 {
	return deriveMaxTT3(a, b)
}

func KeysofT3(m map[int8]int) []int8 {
	return deriveKeysT3(m)
}

func CompareT4(a uintptr, b uintptr) int {
	return deriveCompareT4(a, b)
}

func EqualT4(a uintptr, b uintptr) bool {
	return deriveEqualT4(a, b)
}

func SortT4(l []uintptr) []uintptr {
	return deriveSortT4(l)
}

func MinlT4(l []uintptr, d uintptr) uintptr {
	return deriveMinLT4(l, d)
}

func MaxlT4(l []uintptr, d uintptr) uintptr {
	return deriveMaxLT4(l, d)
}

func MintT4(a uintptr, b uintptr) uintptr {
	return deriveMinTT4(a, b)
}

func MaxtT4(a uintptr, b uintptr) uintptr {
	return deriveMaxTT4(a, b)
}

func KeysofT4(m map[uintptr]int) []uintptr {
	return deriveKeysT4(m)
}

func CompareT5(a *K0, b *K0) int {
	return deriveCompareT5(a, b)
}

func EqualT5(a *K0, b *K0) bool {
	return deriveEqualT5(a, b)
}

func SortT5(l []*K0) []*K0 {
	return deriveSortT5(l)
}

func MinlT5(l []*K0, d *K0) *K0 {
	return deriveMinLT5(l, d)
}

func MaxlT5(l []*K0, d *K0) *K0 {
	return deriveMaxLT5(l, d)
}

func MintT5(a *K0, b *K0) *K0 {
	return deriveMinTT5(a, b)
}

func MaxtT5(a *K0, b *K0) *K0 {
	return deriveMaxTT5(a, b)
}

func CompareT6(a map[int]S0, b map[int]S0) int {
	return deriveCompareT6(a, b)
}

func EqualT6(a map[int]S0, b map[int]S0) bool {
	return deriveEqualT6(a, b)
}

func SortT6(l []map[int]S0) []map[int]S0 {
	return deriveSortT6(l)
}

func MinlT6(l []map[int]S0, d map[int]S0) map[int]S0 {
	return deriveMinLT6(l, d)
}

func MaxlT6(l []map[int]S0, d map[int]S0) map[int]S0 {
	return deriveMaxLT6(l, d)
}

func MintT6(a map[int]S0, b map[int]S0) map[int]S0 {
	return deriveMinTT6(a, b)
}

func MaxtT6(a map[int]S0, b map[int]S0) map[int]S0 {
	return deriveMaxTT6(a, b)
}

func CompareT7(a bool, b bool) int {
	return deriveCompareT7(a, b)
}

func EqualT7(a bool, b bool) bool {
	return deriveEqualT7(a, b)
}

func SortT7(l []bool) []bool {
	return deriveSortT7(l)
}

func KeysofT7(m map[bool]int) []bool {
	return deriveKeysT7(m)
}

func CompareT8(a map[int8]int16, b map[int8]int16) int {
	return deriveCompareT8(a, b)
}

func EqualT8(a map[int8]int16, b map[int8]int16) bool {
	return deriveEqualT8(a, b)
}

func SortT8(l []map[int8]int16) []map[int8]int16 {
	return deriveSortT8(l)
}

func MinlT8(l []map[int8]int16, d map[int8]int16) map[int8]int16 {
	return deriveMinLT8(l, d)
}

func MaxlT8(l []map[int8]int16, d map[int8]int16) map[int8]int16 {
	return deriveMaxLT8(l, d)
}

func MintT8(a map[int8]int16, b map[int8]int16) map[int8]int16 {
	return deriveMinTT8(a, b)
}

func MaxtT8(a map[int8]int16, b map[int8]int16) map[int8]int16 {
	return deriveMaxTT8(a, b)
}

func CompareT9(a ext.E0, b ext.E0) int {
	return deriveCompareT9(a, b)
}

func EqualT9(a ext.E0, b ext.E0) bool {
	return deriveEqualT9(a, b)
}

func SortT9(l []ext.E0) []ext.E0 {
	return deriveSortT9(l)
}

func MinlT9(l []ext.E0, d ext.E0) ext.E0 {
	return deriveMinLT9(l, d)
}

func MaxlT9(l []ext.E0, d ext.E0) ext.E0 {
	return deriveMaxLT9(l, d)
}

func MintT9(a ext.E0, b ext.E0) ext.E0 {
	return deriveMinTT9(a, b)
}

func MaxtT9(a ext.E0, b ext.E0) ext.E0 {
	return deriveMaxTT9(a, b)
}

func KeysofT9(m map[ext.E0]int) []ext.E0 {
	return deriveKeysT9(m)
}

func CompareT10(a complex64, b complex64) int {
	return deriveCompareT10(a, b)
}

func EqualT10(a complex64, b complex64) bool {
	return deriveEqualT10(a, b)
}

func SortT10(l []complex64) []complex64 {
	return deriveSortT10(l)
}

func KeysofT10(m map[complex64]int) []complex64 {
	return deriveKeysT10(m)
}

func CompareT11(a uint16, b uint16) int {
	return deriveCompareT11(a, b)
}

func EqualT11(a uint16, b uint16) bool {
	return deriveEqualT11(a, b)
}

func SortT11(l []uint16) []uint16 {
	return deriveSortT11(l)
}

func MinlT11(l []uint16, d uint16) uint16 {
	return deriveMinLT11(l, d)
}

func MaxlT11(l []uint16, d uint16) uint16 {
	return deriveMaxLT11(l, d)
}

func MintT11(a uint16, b uint16) uint16 {
	return deriveMinTT11(a, b)
}

func MaxtT11(a uint16, b uint16) uint16 {
	return deriveMaxTT11(a, b)
}

func KeysofT11(m map[uint16]int) []uint16 {
	return deriveKeysT11(m)
}

func CompareT12(a [][3][]bool, b [][3][]bool) int {
	return deriveCompareT12(a, b)
}

func EqualT12(a [][3][]bool, b [][3][]bool) bool {
	return deriveEqualT12(a, b)
}

func SortT12(l [][][3][]bool) [][][3][]bool {
	return deriveSortT12(l)
}

func MinlT12(l [][][3][]bool, d [][3][]bool) [][3][]bool {
	return deriveMinLT12(l, d)
}

func MaxlT12(l [][][3][]bool, d [][3][]bool) [][3][]bool {
	return deriveMaxLT12(l, d)
}

func MintT12(a [][3][]bool, b [][3][]bool) [][3][]bool {
	return deriveMinTT12(a, b)
}

func MaxtT12(a [][3][]bool, b [][3][]bool) [][3][]bool {
	return deriveMaxTT12(a, b)
}

func CompareT13(a []S0, b []S0) int {
	return deriveCompareT13(a, b)
}

func EqualT13(a []S0, b []S0) bool {
	return deriveEqualT13(a, b)
}

func SortT13(l [][]S0) [][]S0 {
	return deriveSortT13(l)
}

func MinlT13(l [][]S0, d []S0) []S0 {
	return deriveMinLT13(l, d)
}

func MaxlT13(l [][]S0, d []S0) []S0 {
	return deriveMaxLT13(l, d)
}

func MintT13(a []S0, b []S0) []S0 {
	return deriveMinTT13(a, b)
}

func MaxtT13(a []S0, b []S0) []S0 {
	return deriveMaxTT13(a, b)
}
