package ext

type Num string

type Key struct {
	K0 rune
}

type E0 struct {
}
