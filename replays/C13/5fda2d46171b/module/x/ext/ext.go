package ext

type Num int

type Key struct {
	K0 complex128
}

type E0 struct {
}
