package p

import (
	ext "subj/ext1"
)

type MyBool bool

type MyC complex128

type MyRune rune

type N0 [0]bool

type N1 map[K0]float64

type N2 [][]MyC

type K0 struct {
	f0 int32
	f1 ext.Key
}

type S0 struct {
	F0 *[0]map[ext.Key]int
}
