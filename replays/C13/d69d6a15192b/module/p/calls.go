package p

var Anchor = 0

func CompareT0(a K0, b K0) int {
	return deriveCompareT0(a, b)
}

func EqualT0(a K0, b K0) bool {
	return deriveEqualT0(a, b)
}

func SortT0(l []K0) []K0 {
	return deriveSortT0(l)
}

func MinlT0(l []K0, d K0) K0 {
	return deriveMinLT0(l, d)
}

func MaxlT0(l []K0, d K0) K0 {
	return deriveMaxLT0(l, d)
}

func MintT0(a K0, b K0) K0 {
	return deriveMinTT0(a, b)
}

func MaxtT0(a K0, b K0) K0 {
	return deriveMaxTT0(a, b)
}

func KeysofT0(m map[K0]int) []K0 {
	return deriveKeysT0(m)
}

func CompareT1(a S0, b S0) int {
	return deriveCompareT1(a, b)
}

func EqualT1(a S0, b S0) bool {
	return deriveEqualT1(a, b)
}

func SortT1(l []S0) []S0 {
	return deriveSortT1(l)
}

func MinlT1(l []S0, d S0) S0 {
	return deriveMinLT1(l, d)
}

func MaxlT1(l []S0, d S0) S0 {
	return deriveMaxLT1(l, d)
}

func MintT1(a S0, b S0) S0 {
	return deriveMinTT1(a, b)
}

func MaxtT1(a S0, b S0) S0 {
	return deriveMaxTT1(a, b)
}

func CompareT2(a int8, b int8) int {
	return deriveCompareT2(a, b)
}

func EqualT2(a int8, b int8) bool {
	return deriveEqualT2(a, b)
}

func SortT2(l []int8) []int8 {
	return deriveSortT2(l)
}

func MinlT2(l []int8, d int8) int8 {
	return deriveMinLT2(l, d)
}

func MaxlT2(l []int8, d int8) int8 {
	return deriveMaxLT2(l, d)
}

func MintT2(a int8, b int8) int8 {
	return deriveMinTT2(a, b)
}

func MaxtT2(a int8, b int8) int8 {
	return deriveMaxTT2(a, b)
}

func KeysofT2(m map[int8]int) []int8 {
	return deriveKeysT2(m)
}

func CompareT3(a [0]MyC, b [0]MyC) int {
	return deriveCompareT3(a, b)
}

func EqualT3(a [0]MyC, b [0]MyC) bool {
	return deriveEqualT3(a, b)
}

func SortT3(l [][0]MyC) [][0]MyC {
	return deriveSortT3(l)
}

func MinlT3(l [][0]MyC, d [0]MyC) [0]MyC {
	return deriveMinLT3(l, d)
}

func MaxlT3(l [][0]MyC, d [0]MyC) [0]MyC {
	return deriveMaxLT3(l, d)
}

func MintT3(a [0]MyC, b [0]MyC) [0]MyC {
	return deriveMinTT3(a, b)
}

func MaxtT3(a [0]MyC, b [0]MyC) [0]MyC {
	return deriveMaxTT3(a, b)
}

func KeysofT3(m map[[0]MyC]int) [][0]MyC {
	return deriveKeysT3(m)
}

func CompareT4(a *S0, b *S0) int {
	return deriveCompareT4(a, b)
}

func EqualT4(a *S0, b *S0) bool {
	return deriveEqualT4(a, b)
}

func SortT4(l []*S0) []*S0 {
	return deriveSortT4(l)
}

func MinlT4(l []*S0, d *S0) *S0 {
	return deriveMinLT4(l, d)
}

func MaxlT4(l []*S0, d *S0) *S0 {
	return deriveMaxLT4(l, d)
}

func MintT4(a *S0, b *S0) *S0 {
	return deriveMinTT4(a, b)
}

func MaxtT4(a *S0, b *S0) *S0 {
	return deriveMaxTT4(a, b)
}

func CompareT5(a *K0, b *K0) int {
	return deriveCompareT5(a, b)
}

func EqualT5(a *K0, b *K0) bool {
	return deriveEqualT5(a, b)
}

func SortT5(l []*K0) []*K0 {
	return deriveSortT5(l)
}

func MinlT5(l []*K0, d *K0) *K0 {
	return deriveMinLT5(l, d)
}

func MaxlT5(l []*K0, d *K0) *K0 {
	return deriveMaxLT5(l, d)
}

func MintT5(a *K0, b *K0) *K0 {
	return deriveMinTT5(a, b)
}

func MaxtT5(a *K0, b *K0) *K0 {
	return deriveMaxTT5(a, b)
}

func CompareT6(a []*uint32, b []*uint32) int {
	return deriveCompareT6(a, b)
}

func EqualT6(a []*uint32, b []*uint32) bool {
	return deriveEqualT6(a, b)
}

func SortT6(l [][]*uint32) [][]*uint32 {
	return deriveSortT6(l)
}

func MinlT6(l [][]*uint32, d []*uint32) []*uint32 {
	return deriveMinLT6(l, d)
}

func MaxlT6(l [][]*uint32, d []*uint32) []*uint32 {
	return deriveMaxLT6(l, d)
}

func MintT6(a []*uint32, b []*uint32) []*uint32 {
	return deriveMinTT6(a, b)
}

func MaxtT6(a []*uint32, b []*uint32) []*uint32 {
	return deriveMaxTT6(a, b)
}

func CompareT7(a []S0, b []S0) int {
	return deriveCompareT7(a, b)
}

func EqualT7(a []S0, b []S0) bool {
	return deriveEqualT7(a, b)
}

func SortT7(l [][]S0) [][]S0 {
	return deriveSortT7(l)
}

func MinlT7(l [][]S0, d []S0) []S0 {
	return deriveMinLT7(l, d)
}

func MaxlT7(l [][]S0, d []S0) []S0 {
	return deriveMaxLT7(l, d)
}

func MintT7(a []S0, b []S0) []S0 {
	return deriveMinTT7(a, b)
}

func MaxtT7(a []S0, b []S0) []S0 {
	return deriveMaxTT7(a, b)
}

func CompareT8(a int, b int) int {
	return deriveCompareT8(a, b)
}

func EqualT8(a int, b int) bool {
	return deriveEqualT8(a, b)
}

func SortT8(l []int) []int {
	return deriveSortT8(l)
}

func MinlT8(l []int, d int) int {
	return deriveMinLT8(l, d)
}

func MaxlT8(l []int, d int) int {
	return deriveMaxLT8(l, d)
}

func MintT8(a int, b int) int {
	return deriveMinTT8(a, b)
}

func MaxtT8(a int, b int) int {
	return deriveMaxTT8(a, b)
}

func KeysofT8(m map[int]int) []int {
	return deriveKeysT8(m)
}

func CompareT9(a *uint32, b *uint32) int {
	return deriveCompareT9(a, b)
}

func EqualT9(a *uint32, b *uint32) bool {
	return deriveEqualT9(a, b)
}

func SortT9(l []*uint32) []*uint32 {
	return deriveSortT9(l)
}

func MinlT9(l []*uint32, d *uint32) *uint32 {
	return deriveMinLT9(l, d)
}

func MaxlT9(l []*uint32, d *uint32) *uint32 {
	return deriveMaxLT9(l, d)
}

func MintT9(a *uint32, b *uint32) *uint32 {
	return deriveMinTT9(a, b)
}

func MaxtT9(a *uint32, b *uint32) *uint32 {
	return deriveMaxTT9(a, b)
}

func CompareT10(a []MyRune, b []MyRune) int {
	return deriveCompareT10(a, b)
}

func EqualT10(a []MyRune, b []MyRune) bool {
	return deriveEqualT10(a, b)
}

func SortT10(l [][]MyRune) [][]MyRune {
	return deriveSortT10(l)
}

func MinlT10(l [][]MyRune, d []MyRune) []MyRune {
	return deriveMinLT10(l, d)
}

func MaxlT10(l [][]MyRune, d []MyRune) []MyRune {
	return deriveMaxLT10(l, d)
}

func MintT10(a []MyRune, b []MyRune) []MyRune {
	return deriveMinTT10(a, b)
}

func MaxtT10(a []MyRune, b []MyRune) []MyRune {
	return deriveMaxTT10(a, b)
}

func CompareT11(a N0, b N0) int {
	return deriveCompareT11(a, b)
}

func EqualT11(a N0, b N0) bool {
	return deriveEqualT11(a, b)
}

func SortT11(l []N0) []N0 {
	return deriveSortT11(l)
}

func MinlT11(l []N0, d N0) N0 {
	return deriveMinLT11(l, d)
}

func MaxlT11(l []N0, d N0) N0 {
	return deriveMaxLT11(l, d)
}

func MintT11(a N0, b N0) N0 {
	return deriveMinTT11(a, b)
}

func MaxtT11(a N0, b N0) N0 {
	return deriveMaxTT11(a, b)
}

func KeysofT11(m map[N0]int) []N0 {
	return deriveKeysT11(m)
}

func CompareT12(a uint64, b uint64) int {
	return deriveCompareT12(a, b)
}

func EqualT12(a uint64, b uint64) bool {
	return deriveEqualT12(a, b)
}

func SortT12(l []uint64) []uint64 {
	return deriveSortT12(l)
}

func MinlT12(l []uint64, d uint64) uint64 {
	return deriveMinLT12(l, d)
}

func MaxlT12(l []uint64, d uint64) uint64 {
	return deriveMaxLT12(l, d)
}

func MintT12(a uint64, b uint64) uint64 {
	return deriveMinTT12(a, b)
}

func MaxtT12(a uint64, b uint64) uint64 {
	return deriveMaxTT12(a, b)
}

func KeysofT12(m map[uint64]int) []uint64 {
	return deriveKeysT12(m)
}

func CompareT13(a uintptr, b uintptr) int {
	return deriveCompareT13(a, b)
}

func EqualT13(a uintptr, b uintptr) bool {
	return deriveEqualT13(a, b)
}

func SortT13(l []uintptr) []uintptr {
	return deriveSortT13(l)
}

func MinlT13(l []uintptr, d uintptr) uintptr {
	return deriveMinLT13(l, d)
}

func MaxlT13(l []uintptr, d uintptr) uintptr {
	return deriveMaxLT13(l, d)
}

func MintT13(a uintptr, b uintptr) uintptr {
	return deriveMinTT13(a, b)
}

func MaxtT13(a uintptr, b uintptr) uintptr {
	return deriveMaxTT13(a, b)
}

func KeysofT13(m map[uintptr]int) []uintptr {
	return deriveKeysT13(m)
}
