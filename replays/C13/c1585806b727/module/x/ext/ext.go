package ext

type Num int64

type Key struct {
	K0 Num
	k1 Num
	k2 Num
}

type E0 struct {
	F0 *E0
	F1 int32
}

type E1 struct {
	f0 []byte
}
