package p

import (
	ext "subj/ext1"
	ext2 "subj/x/ext"
)

var Anchor = 0

func CompareT0(a int8, b int8) int {
	return deriveCompareT0(a, b)
}

func EqualT0(a int8, b int8) bool {
	return deriveEqualT0(a, b)
}

func SortT0(l []int8) []int8 {
	return deriveSortT0(l)
}

func MinlT0(l []int8, d int8) int8 {
	return deriveMinLT0(l, d)
}

func MaxlT0(l []int8, d int8) int8 {
	return deriveMaxLT0(l, d)
}

func MintT0(a int8, b int8) int8 {
	return deriveMinTT0(a, b)
}

func MaxtT0(a int8, b int8) int8 {
	return deriveMaxTT0(a, b)
}

func KeysofT0(m map[int8]int) []int8 {
	return deriveKeysT0(m)
}

func CompareT1(a K1, b K1) int {
	return deriveCompareT1(a, b)
}

func EqualT1(a K1, b K1) bool {
	return deriveEqualT1(a, b)
}

func SortT1(l []K1) []K1 {
	return deriveSortT1(l)
}

func MinlT1(l []K1, d K1) K1 {
	return deriveMinLT1(l, d)
}

func MaxlT1(l []K1, d K1) K1 {
	return deriveMaxLT1(l, d)
}

func MintT1(a K1, b K1) K1 {
	return deriveMinTT1(a, b)
}

func MaxtT1(a K1, b K1) K1 {
	return deriveMaxTT1(a, b)
}

func KeysofT1(m map[K1]int) []K1 {
	return deriveKeysT1(m)
}

func CompareT2(a bool, b bool) int {
	return deriveCompareT2(a, b)
}

func EqualT2(a bool, b bool) bool {
	return deriveEqualT2(a, b)
}

func SortT2(l []bool) []bool {
	return deriveSortT2(l)
}

func KeysofT2(m map[bool]int) []bool {
	return deriveKeysT2(m)
}

func CompareT3(a uint, b uint) int {
	return deriveCompareT3(a, b)
}

func EqualT3(a uint, b uint) bool {
	return deriveEqualT3(a, b)
}

func SortT3(l []uint) []uint {
	return deriveSortT3(l)
}

func MinlT3(l []uint, d uint) uint {
	return deriveMinLT3(l, d)
}

func MaxlT3(l []uint, d uint) uint {
	return deriveMaxLT3(l, d)
}

func MintT3(a uint, b uint) uint {
	return deriveMinTT3(a, b)
}

func MaxtT3(a uint, b uint) uint {
	return deriveMaxTT3(a, b)
}

func KeysofT3(m map[uint]int) []uint {
	return deriveKeysT3(m)
}

func CompareT4(a MyF32, b MyF32) int {
	return deriveCompareT4(a, b)
}

func EqualT4(a MyF32, b MyF32) bool {
	return deriveEqualT4(a, b)
}

func SortT4(l []MyF32) []MyF32 {
	return deriveSortT4(l)
}

func MinlT4(l []MyF32, d MyF32) MyF32 {
	return deriveMinLT4(l, d)
}

func MaxlT4(l []MyF32, d MyF32) MyF32 {
	return deriveMaxLT4(l, d)
}

func MintT4(a MyF32, b MyF32) MyF32 {
	return deriveMinTT4(a, b)
}

func MaxtT4(a MyF32, b MyF32) MyF32 {
	return deriveMaxTT4(a, b)
}

func KeysofT4(m map[MyF32]int) []MyF32 {
	return deriveKeysT4(m)
}

func CompareT5(a *ext2.E0, b *ext2.E0) int {
	return deriveCompareT5(a, b)
}

func EqualT5(a *ext2.E0, b *ext2.E0) bool {
	return deriveEqualT5(a, b)
}

func SortT5(l []*ext2.E0) []*ext2.E0 {
	return deriveSortT5(l)
}

func MinlT5(l []*ext2.E0, d *ext2.E0) *ext2.E0 {
	return deriveMinLT5(l, d)
}

func MaxlT5(l []*ext2.E0, d *ext2.E0) *ext2.E0 {
	return deriveMaxLT5(l, d)
}

func MintT5(a *ext2.E0, b *ext2.E0) *ext2.E0 {
	return deriveMinTT5(a, b)
}

func MaxtT5(a *ext2.E0, b *ext2.E0) *ext2.E0 {
	return deriveMaxTT5(a, b)
}

func CompareT6(a ext.Key, b ext.Key) int {
	return deriveCompareT6(a, b)
}

func EqualT6(a ext.Key, b ext.Key) bool {
	return deriveEqualT6(a, b)
}

func SortT6(l []ext.Key) []ext.Key {
	return deriveSortT6(l)
}

func MinlT6(l []ext.Key, d ext.Key) ext.Key {
	return deriveMinLT6(l, d)
}

func MaxlT6(l []ext.Key, d ext.Key) ext.Key {
	return deriveMaxLT6(l, d)
}

func MintT6(a ext.Key, b ext.Key) ext.Key {
	return deriveMinTT6(a, b)
}

func MaxtT6(a ext.Key, b ext.Key) ext.Key {
	return deriveMaxTT6(a, b)
}

func KeysofT6(m map[ext.Key]int) []ext.Key {
	return deriveKeysT6(m)
}

func CompareT7(a N0, b N0) int {
	return deriveCompareT7(a, b)
}

func EqualT7(a N0, b N0) bool {
	return deriveEqualT7(a, b)
}

func SortT7(l []N0) []N0 {
	return deriveSortT7(l)
}

func MinlT7(l []N0, d N0) N0 {
	return deriveMinLT7(l, d)
}

func MaxlT7(l []N0, d N0) N0 {
	return deriveMaxLT7(l, d)
}

func MintT7(a N0, b N0) N0 {
	return deriveMinTT7(a, b)
}

func MaxtT7(a N0, b N0) N0 {
	return deriveMaxTT7(a, b)
}

func CompareT8(a *int, b *int) int {
	return deriveCompareT8(a, b)
}

func EqualT8(a *int, b *int) bool {
	return deriveEqualT8(a, b)
}

func SortT8(l []*int) []*int {
	return deriveSortT8(l)
}

func MinlT8(l []*int, d *int) *int {
	return deriveMinLT8(l, d)
}

func MaxlT8(l []*int, d *int) *int {
	return deriveMaxLT8(l, d)
}

func MintT8(a *int, b *int) *int {
	return deriveMinTT8(a, b)
}

func MaxtT8(a *int, b *int) *int {
	return deriveMaxTT8(a, b)
}

func CompareT9(a int16, b int16) int {
	return deriveCompareT9(a, b)
}

func EqualT9(a int16, b int16) bool {
	return deriveEqualT9(a, b)
}

func SortT9(l []int16) []int16 {
	return deriveSortT9(l)
}

func MinlT9(l []int16, d int16) int16 {
	return deriveMinLT9(l, d)
}

func MaxlT9(l []int16, d int16) int16 {
	return deriveMaxLT9(l, d)
}

func MintT9(a int16, b int16) int16 {
	return deriveMinTT9(a, b)
}

func MaxtT9(a int16, b int16) int16 {
	return deriveMaxTT9(a, b)
}

func KeysofT9(m map[int16]int) []int16 {
	return deriveKeysT9(m)
}

func CompareT10(a uint32, b uint32) int {
	return deriveCompareT10(a, b)
}

func EqualT10(a uint32, b uint32) bool {
	return deriveEqualT10(a, b)
}

func SortT10(l []uint32) []uint32 {
	return deriveSortT10(l)
}

func MinlT10(l []uint32, d uint32) uint32 {
	return deriveMinLT10(l, d)
}

func MaxlT10(l []uint32, d uint32) uint32 {
	return deriveMaxLT10(l, d)
}

func MintT10(a uint32, b uint32) uint32 {
	return deriveMinTT10(a, b)
}

func MaxtT10(a uint32, b uint32) uint32 {
	return deriveMaxTT10(a, b)
}

func KeysofT10(m map[uint32]int) []uint32 {
	return deriveKeysT10(m)
}

func CompareT11(a map[K1]ext2.E0, b map[K1]ext2.E0) int {
	return deriveCompareT11(a, b)
}

func EqualT11(a map[K1]ext2.E0, b map[K1]ext2.E0) bool {
	return deriveEqualT11(a, b)
}

func SortT11(l []map[K1]ext2.E0) []map[K1]ext2.E0 {
	return deriveSortT11(l)
}

func MinlT11(l []map[K1]ext2.E0, d map[K1]ext2.E0) map[K1]ext2.E0 {
	return deriveMinLT11(l, d)
}

func MaxlT11(l []map[K1]ext2.E0, d map[K1]ext2.E0) map[K1]ext2.E0 {
	return deriveMaxLT11(l, d)
}

func MintT11(a map[K1]ext2.E0, b map[K1]ext2.E0) map[K1]ext2.E0 {
	return deriveMinTT11(a, b)
}

func MaxtT11(a map[K1]ext2.E0, b map[K1]ext2.E0) map[K1]ext2.E0 {
	return deriveMaxTT11(a, b)
}

func CompareT12(a map[int]uint32, b map[int]uint32) int {
	return deriveCompareT12(a, b)
}

func EqualT12(a map[int]uint32, b map[int]uint32) bool {
	return deriveEqualT12(a, b)
}

func SortT12(l []map[int]uint32) []map[int]uint32 {
	return deriveSortT12(l)
}

func MinlT12(l []map[int]uint32, d map[int]uint32) map[int]uint32 {
	return deriveMinLT12(l, d)
}

func MaxlT12(l []map[int]uint32, d map[int]uint32) map[int]uint32 {
	return deriveMaxLT12(l, d)
}

func MintT12(a map[int]uint32, b map[int]uint32) map[int]uint32 {
	return deriveMinTT12(a, b)
}

func MaxtT12(a map[int]uint32, b map[int]uint32) map[int]uint32 {
	return deriveMaxTT12(a, b)
}

func CompareT13(a S0, b S0) int {
	return deriveCompareT13(a, b)
}

func EqualT13(a S0, b S0) bool {
	return deriveEqualT13(a, b)
}

func SortT13(l []S0) []S0 {
	return deriveSortT13(l)
}

func MinlT13(l []S0, d S0) S0 {
	return deriveMinLT13(l, d)
}

func MaxlT13(l []S0, d S0) S0 {
	return deriveMaxLT13(l, d)
}

func MintT13(a S0, b S0) S0 {
	return deriveMinTT13(a, b)
}

func MaxtT13(a S0, b S0) S0 {
	return deriveMaxTT13(a, b)
}

func KeysofT13(m map[S0]int) []S0 {
	return deriveKeysT13(m)
}
