package p

import (
	ext "subj/ext1"
)

type MyU8 uint8

type MyF32 float32

type N0 map[complex128]MyF32

type K0 struct {
	f0 [2]MyF32
	F1 ext.Num
	F2 [1]rune
}

type K1 struct {
	f0 K0
	F1 complex128
}

type S0 struct {
	F0 MyF32
}
