package ext

type Num int64

type Key struct {
	k0 Num
	K1 Num
}

type E0 struct {
	F0 map[uint]int8
	f1 *uint64
	F2 uint8
	F3 uint64
}
