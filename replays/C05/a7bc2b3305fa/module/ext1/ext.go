package ext

type Num int

type Key struct {
	k0 uint16
	K1 int
}

type E0 struct {
	f0 int64
	F1 float32
	f2 int
}
