package p

import (
	ext2 "subj/x/ext"
)

var Anchor = 0

func CloneT0(a []bool) []bool {
	return deriveCloneT0(a)
}

func DeepcopyT0(dst []bool, src []bool) {
	deriveDeepCopyT0(dst, src)
}

func CloneT1(a *ext2.E0) *ext2.E0 {
	return deriveCloneT1(a)
}

func DeepcopyT1(dst *ext2.E0, src *ext2.E0) {
	deriveDeepCopyT1(dst, src)
}

func CloneT2(a **string) **string {
	return deriveCloneT2(a)
}

func DeepcopyT2(dst **string, src **string) {
	deriveDeepCopyT2(dst, src)
}

func CloneT3(a []byte) []byte {
	return deriveCloneT3(a)
}

func DeepcopyT3(dst []byte, src []byte) {
	deriveDeepCopyT3(dst, src)
}

func CloneT4(a []int) []int {
	return deriveCloneT4(a)
}

func DeepcopyT4(dst []int, src []int) {
	deriveDeepCopyT4(dst, src)
}

func CloneT5(a map[int64]N0) map[int64]N0 {
	return deriveCloneT5(a)
}

func DeepcopyT5(dst map[int64]N0, src map[int64]N0) {
	deriveDeepCopyT5(dst, src)
}

func CloneT6(a **S0) **S0 {
	return deriveCloneT6(a)
}

func DeepcopyT6(dst **S0, src **S0) {
	deriveDeepCopyT6(dst, src)
}

func CloneT7(a *N0) *N0 {
	return deriveCloneT7(a)
}

func DeepcopyT7(dst *N0, src *N0) {
	deriveDeepCopyT7(dst, src)
}

func CloneT8(a *int8) *int8 {
	return deriveCloneT8(a)
}

func DeepcopyT8(dst *int8, src *int8) {
	deriveDeepCopyT8(dst, src)
}

func CloneT9(a map[[1]int8]MyC) map[[1]int8]MyC {
	return deriveCloneT9(a)
}

func DeepcopyT9(dst map[[1]int8]MyC, src map[[1]int8]MyC) {
	deriveDeepCopyT9(dst, src)
}

func CloneT10(a **map[MyBool]float32) **map[MyBool]float32 {
	return deriveCloneT10(a)
}

func DeepcopyT10(dst **map[MyBool]float32, src **map[MyBool]float32) {
	deriveDeepCopyT10(dst, src)
}

func CloneT11(a *[]byte) *[]byte {
	return deriveCloneT11(a)
}

func DeepcopyT11(dst *[]byte, src *[]byte) {
	deriveDeepCopyT11(dst, src)
}

func CloneT12(a map[uint]N0) map[uint]N0 {
	return deriveCloneT12(a)
}

func DeepcopyT12(dst map[uint]N0, src map[uint]N0) {
	deriveDeepCopyT12(dst, src)
}

func CloneT13(a *MyBool) *MyBool {
	return deriveCloneT13(a)
}

func DeepcopyT13(dst *MyBool, src *MyBool) {
	deriveDeepCopyT13(dst, src)
}
