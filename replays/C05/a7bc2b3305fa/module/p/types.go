package p

import (
	ext "subj/ext1"
)

type MyBool bool

type MyC complex128

type MyRune rune

type N0 map[complex128]ext.Num

type K0 struct {
	F0 MyRune
	F1 uint
}

type S0 struct {
	*K0
	F1 map[uintptr]*S0
	f2 int
	F3 int8
	F4 map[[0]uint8]int32
}
