package ext

type Num uint8

type Key struct {
	K0 Num
}

type E0 struct {
	f0 [][]byte
}

type E1 struct {
	f0 *Num
	f1 *E1
}
