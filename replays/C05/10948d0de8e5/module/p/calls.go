package p

import (
	ext "subj/ext1"
	ext2 "subj/x/ext"
)

var Anchor = 0

func CloneT0(a *K0) *K0 {
	return deriveCloneT0(a)
}

func DeepcopyT0(dst *K0, src *K0) {
	deriveDeepCopyT0(dst, src)
}

func CloneT1(a *ext.E0) *ext.E0 {
	return deriveCloneT1(a)
}

func DeepcopyT1(dst *ext.E0, src *ext.E0) {
	deriveDeepCopyT1(dst, src)
}

func CloneT2(a **S1) **S1 {
	return deriveCloneT2(a)
}

func DeepcopyT2(dst **S1, src **S1) {
	deriveDeepCopyT2(dst, src)
}

func CloneT3(a **S2) **S2 {
	return deriveCloneT3(a)
}

func DeepcopyT3(dst **S2, src **S2) {
	deriveDeepCopyT3(dst, src)
}

func CloneT4(a map[ext2.Num]*S3) map[ext2.Num]*S3 {
	return deriveCloneT4(a)
}

func DeepcopyT4(dst map[ext2.Num]*S3, src map[ext2.Num]*S3) {
	deriveDeepCopyT4(dst, src)
}

func CloneT5(a *complex64) *complex64 {
	return deriveCloneT5(a)
}

func DeepcopyT5(dst *complex64, src *complex64) {
	deriveDeepCopyT5(dst, src)
}

func CloneT6(a []map[MyF32]S3) []map[MyF32]S3 {
	return deriveCloneT6(a)
}

func DeepcopyT6(dst []map[MyF32]S3, src []map[MyF32]S3) {
	deriveDeepCopyT6(dst, src)
}

func CloneT7(a MyF) MyF {
	return deriveCloneT7(a)
}

func CloneT8(a map[int32]string) map[int32]string {
	return deriveCloneT8(a)
}

func DeepcopyT8(dst map[int32]string, src map[int32]string) {
	deriveDeepCopyT8(dst, src)
}

func CloneT9(a *map[int64]S0) *map[int64]S0 {
	return deriveCloneT9(a)
}

func DeepcopyT9(dst *map[int64]S0, src *map[int64]S0) {
	deriveDeepCopyT9(dst, src)
}

func CloneT10(a [][2]int64) [][2]int64 {
	return deriveCloneT10(a)
}

func DeepcopyT10(dst [][2]int64, src [][2]int64) {
	deriveDeepCopyT10(dst, src)
}

func CloneT11(a map[int8][]map[int]int16) map[int8][]map[int]int16 {
	return deriveCloneT11(a)
}

func DeepcopyT11(dst map[int8][]map[int]int16, src map[int8][]map[int]int16) {
	deriveDeepCopyT11(dst, src)
}

func CloneT12(a []int) []int {
	return deriveCloneT12(a)
}

func DeepcopyT12(dst []int, src []int) {
	deriveDeepCopyT12(dst, src)
}

func CloneT13(a *bool) *bool {
	return deriveCloneT13(a)
}

func DeepcopyT13(dst *bool, src *bool) {
	deriveDeepCopyT13(dst, src)
}
