package p

import (
	ext2 "subj/x/ext"
)

type MyF32 float32

type MyInt int

type MyF float64

type N0 [][]int8

type N1 map[K0]uint8

type N2 []int

type K0 struct {
	F0 int8
	f1 ext2.Key
}

type S0 struct {
	F0 []int16
	f1 map[[1]int64][2]K0
}

type S1 struct {
	F0 float64
	F1 map[uint]int64
}

type S2 struct {
	S0
	K0
}

type S3 struct {
	F0 int8
	F1 byte
	F2 *[1][3]K0
}
