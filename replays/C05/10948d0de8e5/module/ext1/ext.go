package ext

type Num float64

type Key struct {
	K0 bool
	k1 uint16
	k2 uint8
}

type E0 struct {
	f0 int64
}
