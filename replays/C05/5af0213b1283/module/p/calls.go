package p

import (
	ext "subj/ext1"
)

var Anchor = 0

func CloneT0(a *bool) *bool {
	return deriveCloneT0(a)
}

func DeepcopyT0(dst *bool, src *bool) {
	deriveDeepCopyT0(dst, src)
}

func CloneT1(a map[ext.Key]*S0) map[ext.Key]*S0 {
	return deriveCloneT1(a)
}

func DeepcopyT1(dst map[ext.Key]*S0, src map[ext.Key]*S0) {
	deriveDeepCopyT1(dst, src)
}

func CloneT2(a **S1) **S1 {
	return deriveCloneT2(a)
}

func DeepcopyT2(dst **S1, src **S1) {
	deriveDeepCopyT2(dst, src)
}

func CloneT3(a *int) *int {
	return deriveCloneT3(a)
}

func DeepcopyT3(dst *int, src *int) {
	deriveDeepCopyT3(dst, src)
}

func CloneT4(a *rune) *rune {
	return deriveCloneT4(a)
}

func DeepcopyT4(dst *rune, src *rune) {
	deriveDeepCopyT4(dst, src)
}

func CloneT5(a map[uint8]bool) map[uint8]bool {
	return deriveCloneT5(a)
}

func DeepcopyT5(dst map[uint8]bool, src map[uint8]bool) {
	deriveDeepCopyT5(dst, src)
}

func CloneT6(a *[][]int) *[][]int {
	return deriveCloneT6(a)
}

func DeepcopyT6(dst *[][]int, src *[][]int) {
	deriveDeepCopyT6(dst, src)
}

func CloneT7(a [][]S0) [][]S0 {
	return deriveCloneT7(a)
}

func DeepcopyT7(dst [][]S0, src [][]S0) {
	deriveDeepCopyT7(dst, src)
}

func CloneT8(a *ext.Num) *ext.Num {
	return deriveCloneT8(a)
}

func DeepcopyT8(dst *ext.Num, src *ext.Num) {
	deriveDeepCopyT8(dst, src)
}

func CloneT9(a *MyStr) *MyStr {
	return deriveCloneT9(a)
}

func DeepcopyT9(dst *MyStr, src *MyStr) {
	deriveDeepCopyT9(dst, src)
}

func CloneT10(a *complex64) *complex64 {
	return deriveCloneT10(a)
}

func DeepcopyT10(dst *complex64, src *complex64) {
	deriveDeepCopyT10(dst, src)
}

func CloneT11(a map[[0]bool]int16) map[[0]bool]int16 {
	return deriveCloneT11(a)
}

func DeepcopyT11(dst map[[0]bool]int16, src map[[0]bool]int16) {
	deriveDeepCopyT11(dst, src)
}

func CloneT12(a *int16) *int16 {
	return deriveCloneT12(a)
}

func DeepcopyT12(dst *int16, src *int16) {
	deriveDeepCopyT12(dst, src)
}

func CloneT13(a MyStr) MyStr {
	return deriveCloneT13(a)
}
