package p

type MyStr string

type K0 struct {
}

type S0 struct {
}

type S1 struct {
}
