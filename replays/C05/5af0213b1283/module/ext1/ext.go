package ext

type Num string

type Key struct {
	k0 Num
	k1 int32
}

type E0 struct {
	f0 *int8
}

type E1 struct {
	F0 Num
}
