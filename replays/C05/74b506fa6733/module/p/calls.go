package p

var Anchor = 0

func CloneT0(a map[string][]MyInt) map[string][]MyInt {
	return deriveCloneT0(a)
}

func DeepcopyT0(dst map[string][]MyInt, src map[string][]MyInt) {
	deriveDeepCopyT0(dst, src)
}

func CloneT1(a map[K0][]MyInt) map[K0][]MyInt {
	return deriveCloneT1(a)
}

func DeepcopyT1(dst map[K0][]MyInt, src map[K0][]MyInt) {
	deriveDeepCopyT1(dst, src)
}

func CloneT2(a *[2]MyInt) *[2]MyInt {
	return deriveCloneT2(a)
}

func DeepcopyT2(dst *[2]MyInt, src *[2]MyInt) {
	deriveDeepCopyT2(dst, src)
}

func CloneT3(a [][2]MyInt) [][2]MyInt {
	return deriveCloneT3(a)
}

func DeepcopyT3(dst [][2]MyInt, src [][2]MyInt) {
	deriveDeepCopyT3(dst, src)
}

func CloneT4(a *[2][2]MyInt) *[2][2]MyInt {
	return deriveCloneT4(a)
}

func DeepcopyT4(dst *[2][2]MyInt, src *[2][2]MyInt) {
	deriveDeepCopyT4(dst, src)
}

func CloneT5(a map[string][2]MyInt) map[string][2]MyInt {
	return deriveCloneT5(a)
}

func DeepcopyT5(dst map[string][2]MyInt, src map[string][2]MyInt) {
	deriveDeepCopyT5(dst, src)
}

func CloneT6(a map[K0][2]MyInt) map[K0][2]MyInt {
	return deriveCloneT6(a)
}

func DeepcopyT6(dst map[K0][2]MyInt, src map[K0][2]MyInt) {
	deriveDeepCopyT6(dst, src)
}

func CloneT7(a *map[string]MyInt) *map[string]MyInt {
	return deriveCloneT7(a)
}

func DeepcopyT7(dst *map[string]MyInt, src *map[string]MyInt) {
	deriveDeepCopyT7(dst, src)
}

func CloneT8(a []map[string]MyInt) []map[string]MyInt {
	return deriveCloneT8(a)
}

func DeepcopyT8(dst []map[string]MyInt, src []map[string]MyInt) {
	deriveDeepCopyT8(dst, src)
}

func CloneT9(a *[2]map[string]MyInt) *[2]map[string]MyInt {
	return deriveCloneT9(a)
}

func DeepcopyT9(dst *[2]map[string]MyInt, src *[2]map[string]MyInt) {
	deriveDeepCopyT9(dst, src)
}

func CloneT10(a map[string]map[string]MyInt) map[string]map[string]MyInt {
	return deriveCloneT10(a)
}

func DeepcopyT10(dst map[string]map[string]MyInt, src map[string]map[string]MyInt) {
	deriveDeepCopyT10(dst, src)
}

func CloneT11(a map[K0]map[string]MyInt) map[K0]map[string]MyInt {
	return deriveCloneT11(a)
}

func DeepcopyT11(dst map[K0]map[string]MyInt, src map[K0]map[string]MyInt) {
	deriveDeepCopyT11(dst, src)
}

func CloneT12(a *map[K0]MyInt) *map[K0]MyInt {
	return deriveCloneT12(a)
}

func DeepcopyT12(dst *map[K0]MyInt, src *map[K0]MyInt) {
	deriveDeepCopyT12(dst, src)
}

func CloneT13(a []map[K0]MyInt) []map[K0]MyInt {
	return deriveCloneT13(a)
}

func DeepcopyT13(dst []map[K0]MyInt, src []map[K0]MyInt) {
	deriveDeepCopyT13(dst, src)
}
