package other

import (
	ext "subj/ext1"
)

type Num uint8

type Key struct {
	k0 uintptr
	K1 complex128
	K2 bool
}

type E0 struct {
}

type E1 struct {
	f0 Num
	f1 ext.E0
	f2 ext.E0
	f3 Num
}
