package p

import (
	other "subj/x/other"
)

var Anchor = 0

func CloneT0(a []K0) []K0 {
	return deriveCloneT0(a)
}

func DeepcopyT0(dst []K0, src []K0) {
	deriveDeepCopyT0(dst, src)
}

func CloneT1(a *[1]*N0) *[1]*N0 {
	return deriveCloneT1(a)
}

func DeepcopyT1(dst *[1]*N0, src *[1]*N0) {
	deriveDeepCopyT1(dst, src)
}

func CloneT2(a *S0) *S0 {
	return deriveCloneT2(a)
}

func DeepcopyT2(dst *S0, src *S0) {
	deriveDeepCopyT2(dst, src)
}

func CloneT3(a [][]uint16) [][]uint16 {
	return deriveCloneT3(a)
}

func DeepcopyT3(dst [][]uint16, src [][]uint16) {
	deriveDeepCopyT3(dst, src)
}

func CloneT4(a map[MyU]*N0) map[MyU]*N0 {
	return deriveCloneT4(a)
}

func DeepcopyT4(dst map[MyU]*N0, src map[MyU]*N0) {
	deriveDeepCopyT4(dst, src)
}

func CloneT5(a []S0) []S0 {
	return deriveCloneT5(a)
}

func DeepcopyT5(dst []S0, src []S0) {
	deriveDeepCopyT5(dst, src)
}

func CloneT6(a *bool) *bool {
	return deriveCloneT6(a)
}

func DeepcopyT6(dst *bool, src *bool) {
	deriveDeepCopyT6(dst, src)
}

func CloneT7(a map[int32]int) map[int32]int {
	return deriveCloneT7(a)
}

func DeepcopyT7(dst map[int32]int, src map[int32]int) {
	deriveDeepCopyT7(dst, src)
}

func CloneT8(a map[int32]MyBool) map[int32]MyBool {
	return deriveCloneT8(a)
}

func DeepcopyT8(dst map[int32]MyBool, src map[int32]MyBool) {
	deriveDeepCopyT8(dst, src)
}

func CloneT9(a *N0) *N0 {
	return deriveCloneT9(a)
}

func DeepcopyT9(dst *N0, src *N0) {
	deriveDeepCopyT9(dst, src)
}

func CloneT10(a *map[[2]MyBool]MyBool) *map[[2]MyBool]MyBool {
	return deriveCloneT10(a)
}

func DeepcopyT10(dst *map[[2]MyBool]MyBool, src *map[[2]MyBool]MyBool) {
	deriveDeepCopyT10(dst, src)
}

func CloneT11(a *other.Key) *other.Key {
	return deriveCloneT11(a)
}

func DeepcopyT11(dst *other.Key, src *other.Key) {
	deriveDeepCopyT11(dst, src)
}

func CloneT12(a int16) int16 {
	return deriveCloneT12(a)
}

func CloneT13(a *map[MyU]S0) *map[MyU]S0 {
	return deriveCloneT13(a)
}

func DeepcopyT13(dst *map[MyU]S0, src *map[MyU]S0) {
	deriveDeepCopyT13(dst, src)
}
