package p

import (
	other "subj/x/other"
)

type MyI64 int64

type MyU uint

type MyBool bool

type N0 []int

type K0 struct {
	f0 complex128
}

type K1 struct {
	f0 other.Num
	f1 uint
	F2 MyBool
}

type S0 struct {
	*K0
	F1 N0
}
