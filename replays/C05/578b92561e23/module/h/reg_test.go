package h

import (
	"reflect"

	p "subj/p"
	other "subj/x/other"
)

var _ = p.Anchor

var Registry = []Entry{
	{ID: "T0", Type: reflect.TypeOf((*[]p.K0)(nil)).Elem(), TypeStr: "[]p.K0",
		Funcs: map[string]any{"clone": p.CloneT0, "deepcopy": p.DeepcopyT0},
		Tags:  map[string]string{"f:complex": "1", "f:slice": "1", "f:struct": "1"},
	},
	{ID: "T1", Type: reflect.TypeOf((**[1]*p.N0)(nil)).Elem(), TypeStr: "*[1]*p.N0",
		Funcs: map[string]any{"clone": p.CloneT1, "deepcopy": p.DeepcopyT1},
		Tags:  map[string]string{"f:array": "1", "f:namedcomposite": "1", "f:ptr": "1", "f:slice": "1"},
	},
	{ID: "T2", Type: reflect.TypeOf((**p.S0)(nil)).Elem(), TypeStr: "*p.S0",
		Funcs: map[string]any{"clone": p.CloneT2, "deepcopy": p.DeepcopyT2},
		Tags:  map[string]string{"f:complex": "1", "f:embedded": "1", "f:namedcomposite": "1", "f:ptr": "1", "f:slice": "1", "f:struct": "1"},
	},
	{ID: "T3", Type: reflect.TypeOf((*[][]uint16)(nil)).Elem(), TypeStr: "[][]uint16",
		Funcs: map[string]any{"clone": p.CloneT3, "deepcopy": p.DeepcopyT3},
		Tags:  map[string]string{"f:slice": "1"},
	},
	{ID: "T4", Type: reflect.TypeOf((*map[p.MyU]*p.N0)(nil)).Elem(), TypeStr: "map[p.MyU]*p.N0",
		Funcs: map[string]any{"clone": p.CloneT4, "deepcopy": p.DeepcopyT4},
		Tags:  map[string]string{"f:map": "1", "f:namedbasic": "1", "f:namedcomposite": "1", "f:ptr": "1", "f:slice": "1"},
	},
	{ID: "T5", Type: reflect.TypeOf((*[]p.S0)(nil)).Elem(), TypeStr: "[]p.S0",
		Funcs: map[string]any{"clone": p.CloneT5, "deepcopy": p.DeepcopyT5},
		Tags:  map[string]string{"f:complex": "1", "f:embedded": "1", "f:namedcomposite": "1", "f:ptr": "1", "f:slice": "1", "f:struct": "1"},
	},
	{ID: "T6", Type: reflect.TypeOf((**bool)(nil)).Elem(), TypeStr: "*bool",
		Funcs: map[string]any{"clone": p.CloneT6, "deepcopy": p.DeepcopyT6},
		Tags:  map[string]string{"f:ptr": "1"},
	},
	{ID: "T7", Type: reflect.TypeOf((*map[int32]int)(nil)).Elem(), TypeStr: "map[int32]int",
		Funcs: map[string]any{"clone": p.CloneT7, "deepcopy": p.DeepcopyT7},
		Tags:  map[string]string{"f:map": "1"},
	},
	{ID: "T8", Type: reflect.TypeOf((*map[int32]p.MyBool)(nil)).Elem(), TypeStr: "map[int32]p.MyBool",
		Funcs: map[string]any{"clone": p.CloneT8, "deepcopy": p.DeepcopyT8},
		Tags:  map[string]string{"f:map": "1", "f:namedbasic": "1"},
	},
	{ID: "T9", Type: reflect.TypeOf((**p.N0)(nil)).Elem(), TypeStr: "*p.N0",
		Funcs: map[string]any{"clone": p.CloneT9, "deepcopy": p.DeepcopyT9},
		Tags:  map[string]string{"f:namedcomposite": "1", "f:ptr": "1", "f:slice": "1"},
	},
	{ID: "T10", Type: reflect.TypeOf((**map[[2]p.MyBool]p.MyBool)(nil)).Elem(), TypeStr: "*map[[2]p.MyBool]p.MyBool",
		Funcs: map[string]any{"clone": p.CloneT10, "deepcopy": p.DeepcopyT10},
		Tags:  map[string]string{"f:array": "1", "f:arraykey": "1", "f:map": "1", "f:namedbasic": "1", "f:ptr": "1"},
	},
	{ID: "T11", Type: reflect.TypeOf((**other.Key)(nil)).Elem(), TypeStr: "*other.Key",
		Funcs: map[string]any{"clone": p.CloneT11, "deepcopy": p.DeepcopyT11},
		Tags:  map[string]string{"f:complex": "1", "f:ext": "1", "f:ext-private": "1", "f:ptr": "1", "f:struct": "1"},
	},
	{ID: "T12", Type: reflect.TypeOf((*int16)(nil)).Elem(), TypeStr: "int16",
		Funcs: map[string]any{"clone": p.CloneT12},
		Tags:  map[string]string{"basic-ordered": "1", "comparable": "1"},
	},
	{ID: "T13", Type: reflect.TypeOf((**map[p.MyU]p.S0)(nil)).Elem(), TypeStr: "*map[p.MyU]p.S0",
		Funcs: map[string]any{"clone": p.CloneT13, "deepcopy": p.DeepcopyT13},
		Tags:  map[string]string{"f:complex": "1", "f:embedded": "1", "f:map": "1", "f:namedbasic": "1", "f:namedcomposite": "1", "f:ptr": "1", "f:slice": "1", "f:struct": "1"},
	},
}
