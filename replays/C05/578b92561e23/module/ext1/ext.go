package ext

type Num float64

type Key struct {
	K0 int
	k1 string
	k2 uint16
}

type E0 struct {
	F0 []map[Key]int32
	f1 *[]int
	F2 *E0
}
