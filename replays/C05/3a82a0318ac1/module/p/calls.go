package p

var Anchor = 0

func CloneT0(a [][2]float64) [][2]float64 {
	return deriveCloneT0(a)
}

func DeepcopyT0(dst [][2]float64, src [][2]float64) {
	deriveDeepCopyT0(dst, src)
}

func CloneT1(a *[2][2]float64) *[2][2]float64 {
	return deriveCloneT1(a)
}

func DeepcopyT1(dst *[2][2]float64, src *[2][2]float64) {
	deriveDeepCopyT1(dst, src)
}

func CloneT2(a map[string][2]float64) map[string][2]float64 {
	return deriveCloneT2(a)
}

func DeepcopyT2(dst map[string][2]float64, src map[string][2]float64) {
	deriveDeepCopyT2(dst, src)
}

func CloneT3(a map[K0][2]float64) map[K0][2]float64 {
	return deriveCloneT3(a)
}

func DeepcopyT3(dst map[K0][2]float64, src map[K0][2]float64) {
	deriveDeepCopyT3(dst, src)
}

func CloneT4(a *map[string]float64) *map[string]float64 {
	return deriveCloneT4(a)
}

func DeepcopyT4(dst *map[string]float64, src *map[string]float64) {
	deriveDeepCopyT4(dst, src)
}

func CloneT5(a []map[string]float64) []map[string]float64 {
	return deriveCloneT5(a)
}

func DeepcopyT5(dst []map[string]float64, src []map[string]float64) {
	deriveDeepCopyT5(dst, src)
}

func CloneT6(a *[2]map[string]float64) *[2]map[string]float64 {
	return deriveCloneT6(a)
}

func DeepcopyT6(dst *[2]map[string]float64, src *[2]map[string]float64) {
	deriveDeepCopyT6(dst, src)
}

func CloneT7(a map[string]map[string]float64) map[string]map[string]float64 {
	return deriveCloneT7(a)
}

func DeepcopyT7(dst map[string]map[string]float64, src map[string]map[string]float64) {
	deriveDeepCopyT7(dst, src)
}

func CloneT8(a map[K0]map[string]float64) map[K0]map[string]float64 {
	return deriveCloneT8(a)
}

func DeepcopyT8(dst map[K0]map[string]float64, src map[K0]map[string]float64) {
	deriveDeepCopyT8(dst, src)
}

func CloneT9(a *map[K0]float64) *map[K0]float64 {
	return deriveCloneT9(a)
}

func DeepcopyT9(dst *map[K0]float64, src *map[K0]float64) {
	deriveDeepCopyT9(dst, src)
}

func CloneT10(a []map[K0]float64) []map[K0]float64 {
	return deriveCloneT10(a)
}

func DeepcopyT10(dst []map[K0]float64, src []map[K0]float64) {
	deriveDeepCopyT10(dst, src)
}

func CloneT11(a *[2]map[K0]float64) *[2]map[K0]float64 {
	return deriveCloneT11(a)
}

func DeepcopyT11(dst *[2]map[K0]float64, src *[2]map[K0]float64) {
	deriveDeepCopyT11(dst, src)
}

func CloneT12(a map[string]map[K0]float64) map[string]map[K0]float64 {
	return deriveCloneT12(a)
}

func DeepcopyT12(dst map[string]map[K0]float64, src map[string]map[K0]float64) {
	deriveDeepCopyT12(dst, src)
}

func CloneT13(a map[K0]map[K0]float64) map[K0]map[K0]float64 {
	return deriveCloneT13(a)
}

func DeepcopyT13(dst map[K0]map[K0]float64, src map[K0]map[K0]float64) {
	deriveDeepCopyT13(dst, src)
}
