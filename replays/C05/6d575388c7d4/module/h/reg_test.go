package h

import (
	"reflect"

	ext "subj/ext1"
	p "subj/p"
	ext2 "subj/x/ext"
)

var _ = p.Anchor

var Registry = []Entry{
	{ID: "T0", Type: reflect.TypeOf((*map[[0]ext2.Key]*p.K0)(nil)).Elem(), TypeStr: "map[[0]ext2.Key]*p.K0",
		Funcs: map[string]any{"clone": p.CloneT0, "deepcopy": p.DeepcopyT0},
		Tags:  map[string]string{"f:array": "1", "f:array0": "1", "f:arraykey": "1", "f:emptystruct": "1", "f:ext": "1", "f:map": "1", "f:ptr": "1", "f:struct": "1"},
	},
	{ID: "T1", Type: reflect.TypeOf((*[]p.N0)(nil)).Elem(), TypeStr: "[]p.N0",
		Funcs: map[string]any{"clone": p.CloneT1, "deepcopy": p.DeepcopyT1},
		Tags:  map[string]string{"f:namedcomposite": "1", "f:slice": "1"},
	},
	{ID: "T2", Type: reflect.TypeOf((**p.S1)(nil)).Elem(), TypeStr: "*p.S1",
		Funcs: map[string]any{"clone": p.CloneT2, "deepcopy": p.DeepcopyT2},
		Tags:  map[string]string{"f:ptr": "1", "f:struct": "1"},
	},
	{ID: "T3", Type: reflect.TypeOf((**p.S2)(nil)).Elem(), TypeStr: "*p.S2",
		Funcs: map[string]any{"clone": p.CloneT3, "deepcopy": p.DeepcopyT3},
		Tags:  map[string]string{"f:embedded": "1", "f:emptystruct": "1", "f:ext": "1", "f:float": "1", "f:map": "1", "f:namedbasic": "1", "f:ptr": "1", "f:slice": "1", "f:struct": "1"},
	},
	{ID: "T4", Type: reflect.TypeOf((**p.S3)(nil)).Elem(), TypeStr: "*p.S3",
		Funcs: map[string]any{"clone": p.CloneT4, "deepcopy": p.DeepcopyT4},
		Tags:  map[string]string{"f:namedcomposite": "1", "f:ptr": "1", "f:slice": "1", "f:struct": "1"},
	},
	{ID: "T5", Type: reflect.TypeOf((*map[uint]p.S3)(nil)).Elem(), TypeStr: "map[uint]p.S3",
		Funcs: map[string]any{"clone": p.CloneT5, "deepcopy": p.DeepcopyT5},
		Tags:  map[string]string{"f:map": "1", "f:namedcomposite": "1", "f:slice": "1", "f:struct": "1"},
	},
	{ID: "T6", Type: reflect.TypeOf((**[0]map[ext.Key]map[uint]int32)(nil)).Elem(), TypeStr: "*[0]map[ext.Key]map[uint]int32",
		Funcs: map[string]any{"clone": p.CloneT6, "deepcopy": p.DeepcopyT6},
		Tags:  map[string]string{"f:array": "1", "f:array0": "1", "f:ext": "1", "f:ext-private": "1", "f:map": "1", "f:ptr": "1", "f:struct": "1", "f:structkey": "1"},
	},
	{ID: "T7", Type: reflect.TypeOf((**p.K0)(nil)).Elem(), TypeStr: "*p.K0",
		Funcs: map[string]any{"clone": p.CloneT7, "deepcopy": p.DeepcopyT7},
		Tags:  map[string]string{"f:emptystruct": "1", "f:ptr": "1", "f:struct": "1"},
	},
	{ID: "T8", Type: reflect.TypeOf((**ext.Num)(nil)).Elem(), TypeStr: "*ext.Num",
		Funcs: map[string]any{"clone": p.CloneT8, "deepcopy": p.DeepcopyT8},
		Tags:  map[string]string{"f:ext": "1", "f:float": "1", "f:namedbasic": "1", "f:ptr": "1"},
	},
	{ID: "T9", Type: reflect.TypeOf((**int64)(nil)).Elem(), TypeStr: "*int64",
		Funcs: map[string]any{"clone": p.CloneT9, "deepcopy": p.DeepcopyT9},
		Tags:  map[string]string{"f:ptr": "1"},
	},
	{ID: "T10", Type: reflect.TypeOf((***p.N1)(nil)).Elem(), TypeStr: "**p.N1",
		Funcs: map[string]any{"clone": p.CloneT10, "deepcopy": p.DeepcopyT10},
		Tags:  map[string]string{"f:namedcomposite": "1", "f:ptr": "1", "f:slice": "1"},
	},
	{ID: "T11", Type: reflect.TypeOf((**map[int32]bool)(nil)).Elem(), TypeStr: "*map[int32]bool",
		Funcs: map[string]any{"clone": p.CloneT11, "deepcopy": p.DeepcopyT11},
		Tags:  map[string]string{"f:map": "1", "f:ptr": "1"},
	},
	{ID: "T12", Type: reflect.TypeOf((**p.MyF)(nil)).Elem(), TypeStr: "*p.MyF",
		Funcs: map[string]any{"clone": p.CloneT12, "deepcopy": p.DeepcopyT12},
		Tags:  map[string]string{"f:float": "1", "f:namedbasic": "1", "f:ptr": "1"},
	},
	{ID: "T13", Type: reflect.TypeOf((**[3]int64)(nil)).Elem(), TypeStr: "*[3]int64",
		Funcs: map[string]any{"clone": p.CloneT13, "deepcopy": p.DeepcopyT13},
		Tags:  map[string]string{"f:array": "1", "f:ptr": "1"},
	},
}
