package p

import (
	ext "subj/ext1"
	ext2 "subj/x/ext"
)

var Anchor = 0

func CloneT0(a map[[0]ext2.Key]*K0) map[[0]ext2.Key]*K0 {
	return deriveCloneT0(a)
}

func DeepcopyT0(dst map[[0]ext2.Key]*K0, src map[[0]ext2.Key]*K0) {
	deriveDeepCopyT0(dst, src)
}

func CloneT1(a []N0) []N0 {
	return deriveCloneT1(a)
}

func DeepcopyT1(dst []N0, src []N0) {
	deriveDeepCopyT1(dst, src)
}

func CloneT2(a *S1) *S1 {
	return deriveCloneT2(a)
}

func DeepcopyT2(dst *S1, src *S1) {
	deriveDeepCopyT2(dst, src)
}

func CloneT3(a *S2) *S2 {
	return deriveCloneT3(a)
}

func DeepcopyT3(dst *S2, src *S2) {
	deriveDeepCopyT3(dst, src)
}

func CloneT4(a *S3) *S3 {
	return deriveCloneT4(a)
}

func DeepcopyT4(dst *S3, src *S3) {
	deriveDeepCopyT4(dst, src)
}

func CloneT5(a map[uint]S3) map[uint]S3 {
	return deriveCloneT5(a)
}

func DeepcopyT5(dst map[uint]S3, src map[uint]S3) {
	deriveDeepCopyT5(dst, src)
}

func CloneT6(a *[0]map[ext.Key]map[uint]int32) *[0]map[ext.Key]map[uint]int32 {
	return deriveCloneT6(a)
}

func DeepcopyT6(dst *[0]map[ext.Key]map[uint]int32, src *[0]map[ext.Key]map[uint]int32) {
	deriveDeepCopyT6(dst, src)
}

func CloneT7(a *K0) *K0 {
	return deriveCloneT7(a)
}

func DeepcopyT7(dst *K0, src *K0) {
	deriveDeepCopyT7(dst, src)
}

func CloneT8(a *ext.Num) *ext.Num {
	return deriveCloneT8(a)
}

func DeepcopyT8(dst *ext.Num, src *ext.Num) {
	deriveDeepCopyT8(dst, src)
}

func CloneT9(a *int64) *int64 {
	return deriveCloneT9(a)
}

func DeepcopyT9(dst *int64, src *int64) {
	deriveDeepCopyT9(dst, src)
}

func CloneT10(a **N1) **N1 {
	return deriveCloneT10(a)
}

func DeepcopyT10(dst **N1, src **N1) {
	deriveDeepCopyT10(dst, src)
}

func CloneT11(a *map[int32]bool) *map[int32]bool {
	return deriveCloneT11(a)
}

func DeepcopyT11(dst *map[int32]bool, src *map[int32]bool) {
	deriveDeepCopyT11(dst, src)
}

func CloneT12(a *MyF) *MyF {
	return deriveCloneT12(a)
}

func DeepcopyT12(dst *MyF, src *MyF) {
	deriveDeepCopyT12(dst, src)
}

func CloneT13(a *[3]int64) *[3]int64 {
	return deriveCloneT13(a)
}

func DeepcopyT13(dst *[3]int64, src *[3]int64) {
	deriveDeepCopyT13(dst, src)
}
