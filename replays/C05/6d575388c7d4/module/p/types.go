package p

import (
	ext "subj/ext1"
	ext2 "subj/x/ext"
)

type MyF float64

type MyI64 int64

type N0 []int16

type N1 [][]rune

type N2 *uint8

type K0 struct {
}

type S0 struct {
}

type S1 struct {
	F0 *uint16
}

type S2 struct {
	f0 []ext.Num
	K0
	F2 map[ext2.Num]uint
}

type S3 struct {
	F0 N0
}
