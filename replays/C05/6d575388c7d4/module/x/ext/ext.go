package ext

type Num float64

type Key struct {
	K0 bool
}

type E0 struct {
	F0 *E0
}
