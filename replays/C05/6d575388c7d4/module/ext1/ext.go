package ext

type Num float64

type Key struct {
	k0 int8
}

type E0 struct {
}
