package ext

import (
	ext "subj/ext1"
)

type Num int64

type Key struct {
	K0 byte
}

type E0 struct {
	f0 map[Key]Key
	F1 uint16
	F2 uintptr
	f3 *Num
}

type E1 struct {
	f0 ext.Num
	f1 int
	f2 map[float64]uint16
	F3 [2]ext.Key
}
