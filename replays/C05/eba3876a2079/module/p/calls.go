package p

import (
	ext "subj/ext1"
	ext2 "subj/x/ext"
)

var Anchor = 0

func CloneT0(a bool) bool {
	return deriveCloneT0(a)
}

func CloneT1(a map[K0]ext2.Num) map[K0]ext2.Num {
	return deriveCloneT1(a)
}

func DeepcopyT1(dst map[K0]ext2.Num, src map[K0]ext2.Num) {
	deriveDeepCopyT1(dst, src)
}

func CloneT2(a []map[[2]MyRune]byte) []map[[2]MyRune]byte {
	return deriveCloneT2(a)
}

func DeepcopyT2(dst []map[[2]MyRune]byte, src []map[[2]MyRune]byte) {
	deriveDeepCopyT2(dst, src)
}

func CloneT3(a *S2) *S2 {
	return deriveCloneT3(a)
}

func DeepcopyT3(dst *S2, src *S2) {
	deriveDeepCopyT3(dst, src)
}

func CloneT4(a map[int]ext2.Num) map[int]ext2.Num {
	return deriveCloneT4(a)
}

func DeepcopyT4(dst map[int]ext2.Num, src map[int]ext2.Num) {
	deriveDeepCopyT4(dst, src)
}

func CloneT5(a []N0) []N0 {
	return deriveCloneT5(a)
}

func DeepcopyT5(dst []N0, src []N0) {
	deriveDeepCopyT5(dst, src)
}

func CloneT6(a []byte) []byte {
	return deriveCloneT6(a)
}

func DeepcopyT6(dst []byte, src []byte) {
	deriveDeepCopyT6(dst, src)
}

func CloneT7(a *map[uint16]S0) *map[uint16]S0 {
	return deriveCloneT7(a)
}

func DeepcopyT7(dst *map[uint16]S0, src *map[uint16]S0) {
	deriveDeepCopyT7(dst, src)
}

func CloneT8(a map[ext2.Key]ext2.Num) map[ext2.Key]ext2.Num {
	return deriveCloneT8(a)
}

func DeepcopyT8(dst map[ext2.Key]ext2.Num, src map[ext2.Key]ext2.Num) {
	deriveDeepCopyT8(dst, src)
}

func CloneT9(a map[uint16]S2) map[uint16]S2 {
	return deriveCloneT9(a)
}

func DeepcopyT9(dst map[uint16]S2, src map[uint16]S2) {
	deriveDeepCopyT9(dst, src)
}

func CloneT10(a map[ext.Key]N0) map[ext.Key]N0 {
	return deriveCloneT10(a)
}

func DeepcopyT10(dst map[ext.Key]N0, src map[ext.Key]N0) {
	deriveDeepCopyT10(dst, src)
}

func CloneT11(a map[int]*ext2.Num) map[int]*ext2.Num {
	return deriveCloneT11(a)
}

func DeepcopyT11(dst map[int]*ext2.Num, src map[int]*ext2.Num) {
	deriveDeepCopyT11(dst, src)
}

func CloneT12(a map[ext2.Num]N0) map[ext2.Num]N0 {
	return deriveCloneT12(a)
}

func DeepcopyT12(dst map[ext2.Num]N0, src map[ext2.Num]N0) {
	deriveDeepCopyT12(dst, src)
}

func CloneT13(a *map[float32]int8) *map[float32]int8 {
	return deriveCloneT13(a)
}

func DeepcopyT13(dst *map[float32]int8, src *map[float32]int8) {
	deriveDeepCopyT13(dst, src)
}
