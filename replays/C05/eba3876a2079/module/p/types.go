package p

import (
	ext "subj/ext1"
	ext2 "subj/x/ext"
)

type MyRune rune

type MyStr string

type MyU8 uint8

type N0 [0]bool

type K0 struct {
}

type S0 struct {
	F0 map[MyRune]S2
	f1 []ext.Num
}

type S1 struct {
	S0
	F1 map[int32]ext2.Key
}

type S2 struct {
	F0 *map[MyStr]uint16
	f1 map[[1]int64]map[MyStr]S2
	f2 uint
	F3 *[]uint32
	f4 ext2.Num
}
