package ext

import (
	ext "subj/ext1"
)

type Num uint8

type Key struct {
	k0 bool
	k1 int8
	K2 uint8
}

type E0 struct {
	f0 map[Key]ext.E1
	f1 *E0
	F2 ext.E1
}

type E1 struct {
	F0 *E1
	f1 rune
}
