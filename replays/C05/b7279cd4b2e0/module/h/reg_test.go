package h

import (
	"reflect"

	ext "subj/ext1"
	p "subj/p"
)

var _ = p.Anchor

var Registry = []Entry{
	{ID: "T0", Type: reflect.TypeOf((*map[p.K0]p.K0)(nil)).Elem(), TypeStr: "map[p.K0]p.K0",
		Funcs: map[string]any{"clone": p.CloneT0, "deepcopy": p.DeepcopyT0},
		Tags:  map[string]string{"f:ext": "1", "f:map": "1", "f:namedbasic": "1", "f:struct": "1", "f:structkey": "1"},
	},
	{ID: "T1", Type: reflect.TypeOf((*[]map[uint]bool)(nil)).Elem(), TypeStr: "[]map[uint]bool",
		Funcs: map[string]any{"clone": p.CloneT1, "deepcopy": p.DeepcopyT1},
		Tags:  map[string]string{"f:map": "1", "f:slice": "1"},
	},
	{ID: "T2", Type: reflect.TypeOf((**p.S0)(nil)).Elem(), TypeStr: "*p.S0",
		Funcs: map[string]any{"clone": p.CloneT2, "deepcopy": p.DeepcopyT2},
		Tags:  map[string]string{"f:bytes": "1", "f:complex": "1", "f:ext": "1", "f:namedbasic": "1", "f:ptr": "1", "f:slice": "1", "f:struct": "1"},
	},
	{ID: "T3", Type: reflect.TypeOf((*[]*p.S1)(nil)).Elem(), TypeStr: "[]*p.S1",
		Funcs: map[string]any{"clone": p.CloneT3, "deepcopy": p.DeepcopyT3},
		Tags:  map[string]string{"f:array": "1", "f:map": "1", "f:namedcomposite": "1", "f:ptr": "1", "f:slice": "1", "f:struct": "1"},
	},
	{ID: "T4", Type: reflect.TypeOf((*p.S2)(nil)).Elem(), TypeStr: "p.S2",
		Funcs: map[string]any{"clone": p.CloneT4},
		Tags:  map[string]string{"f:complex": "1", "f:namedbasic": "1", "f:recursive": "1", "f:slice": "1", "f:struct": "1"},
	},
	{ID: "T5", Type: reflect.TypeOf((*[]p.MyC)(nil)).Elem(), TypeStr: "[]p.MyC",
		Funcs: map[string]any{"clone": p.CloneT5, "deepcopy": p.DeepcopyT5},
		Tags:  map[string]string{"f:complex": "1", "f:namedbasic": "1", "f:slice": "1"},
	},
	{ID: "T6", Type: reflect.TypeOf((***p.K0)(nil)).Elem(), TypeStr: "**p.K0",
		Funcs: map[string]any{"clone": p.CloneT6, "deepcopy": p.DeepcopyT6},
		Tags:  map[string]string{"f:ext": "1", "f:namedbasic": "1", "f:ptr": "1", "f:struct": "1"},
	},
	{ID: "T7", Type: reflect.TypeOf((**int8)(nil)).Elem(), TypeStr: "*int8",
		Funcs: map[string]any{"clone": p.CloneT7, "deepcopy": p.DeepcopyT7},
		Tags:  map[string]string{"f:ptr": "1"},
	},
	{ID: "T8", Type: reflect.TypeOf((**p.N0)(nil)).Elem(), TypeStr: "*p.N0",
		Funcs: map[string]any{"clone": p.CloneT8, "deepcopy": p.DeepcopyT8},
		Tags:  map[string]string{"f:complex": "1", "f:namedbasic": "1", "f:namedcomposite": "1", "f:ptr": "1", "f:slice": "1"},
	},
	{ID: "T9", Type: reflect.TypeOf((*[]ext.Num)(nil)).Elem(), TypeStr: "[]ext.Num",
		Funcs: map[string]any{"clone": p.CloneT9, "deepcopy": p.DeepcopyT9},
		Tags:  map[string]string{"f:ext": "1", "f:namedbasic": "1", "f:slice": "1"},
	},
	{ID: "T10", Type: reflect.TypeOf((**p.MyC)(nil)).Elem(), TypeStr: "*p.MyC",
		Funcs: map[string]any{"clone": p.CloneT10, "deepcopy": p.DeepcopyT10},
		Tags:  map[string]string{"f:complex": "1", "f:namedbasic": "1", "f:ptr": "1"},
	},
	{ID: "T11", Type: reflect.TypeOf((***p.N1)(nil)).Elem(), TypeStr: "**p.N1",
		Funcs: map[string]any{"clone": p.CloneT11, "deepcopy": p.DeepcopyT11},
		Tags:  map[string]string{"f:map": "1", "f:namedcomposite": "1", "f:ptr": "1"},
	},
	{ID: "T12", Type: reflect.TypeOf((**[1]bool)(nil)).Elem(), TypeStr: "*[1]bool",
		Funcs: map[string]any{"clone": p.CloneT12, "deepcopy": p.DeepcopyT12},
		Tags:  map[string]string{"f:array": "1", "f:ptr": "1"},
	},
	{ID: "T13", Type: reflect.TypeOf((*[]p.K0)(nil)).Elem(), TypeStr: "[]p.K0",
		Funcs: map[string]any{"clone": p.CloneT13, "deepcopy": p.DeepcopyT13},
		Tags:  map[string]string{"f:ext": "1", "f:namedbasic": "1", "f:slice": "1", "f:struct": "1"},
	},
}
