package p

import (
	ext "subj/ext1"
)

var Anchor = 0

func CloneT0(a map[K0]K0) map[K0]K0 {
	return deriveCloneT0(a)
}

func DeepcopyT0(dst map[K0]K0, src map[K0]K0) {
	deriveDeepCopyT0(dst, src)
}

func CloneT1(a []map[uint]bool) []map[uint]bool {
	return deriveCloneT1(a)
}

func DeepcopyT1(dst []map[uint]bool, src []map[uint]bool) {
	deriveDeepCopyT1(dst, src)
}

func CloneT2(a *S0) *S0 {
	return deriveCloneT2(a)
}

func DeepcopyT2(dst *S0, src *S0) {
	deriveDeepCopyT2(dst, src)
}

func CloneT3(a []*S1) []*S1 {
	return deriveCloneT3(a)
}

func DeepcopyT3(dst []*S1, src []*S1) {
	deriveDeepCopyT3(dst, src)
}

func CloneT4(a S2) S2 {
	return deriveCloneT4(a)
}

func CloneT5(a []MyC) []MyC {
	return deriveCloneT5(a)
}

func DeepcopyT5(dst []MyC, src []MyC) {
	deriveDeepCopyT5(dst, src)
}

func CloneT6(a **K0) **K0 {
	return deriveCloneT6(a)
}

func DeepcopyT6(dst **K0, src **K0) {
	deriveDeepCopyT6(dst, src)
}

func CloneT7(a *int8) *int8 {
	return deriveCloneT7(a)
}

func DeepcopyT7(dst *int8, src *int8) {
	deriveDeepCopyT7(dst, src)
}

func CloneT8(a *N0) *N0 {
	return deriveCloneT8(a)
}

func DeepcopyT8(dst *N0, src *N0) {
	deriveDeepCopyT8(dst, src)
}

func CloneT9(a []ext.Num) []ext.Num {
	return deriveCloneT9(a)
}

func DeepcopyT9(dst []ext.Num, src []ext.Num) {
	deriveDeepCopyT9(dst, src)
}

func CloneT10(a *MyC) *MyC {
	return deriveCloneT10(a)
}

func DeepcopyT10(dst *MyC, src *MyC) {
	deriveDeepCopyT10(dst, src)
}

func CloneT11(a **N1) **N1 {
	return deriveCloneT11(a)
}

func DeepcopyT11(dst **N1, src **N1) {
	deriveDeepCopyT11(dst, src)
}

func CloneT12(a *[1]bool) *[1]bool {
	return deriveCloneT12(a)
}

func DeepcopyT12(dst *[1]bool, src *[1]bool) {
	deriveDeepCopyT12(dst, src)
}

func CloneT13(a []K0) []K0 {
	return deriveCloneT13(a)
}

func DeepcopyT13(dst []K0, src []K0) {
	deriveDeepCopyT13(dst, src)
}
