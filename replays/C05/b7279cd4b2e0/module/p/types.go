package p

import (
	ext "subj/ext1"
)

type MyC complex128

type MyRune rune

type N0 [][]MyC

type N1 map[int]int

type K0 struct {
	f0 int32
	F1 ext.Num
}

type K1 struct {
	F0 uint8
}

type S0 struct {
	f0 int32
	f1 []byte
	F2 K0
	F3 bool
	F4 MyC
}

type S1 struct {
	f0 [2]map[uintptr]N1
}

type S2 struct {
	F0 []S2
	F1 MyC
}

type S3 struct {
}
