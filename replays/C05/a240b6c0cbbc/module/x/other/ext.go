package other

import (
	ext "subj/ext1"
)

type Num string

type Key struct {
	k0 Num
	k1 Num
	K2 Num
}

type E0 struct {
	f0 ext.Key
	f1 *E0
}

type E1 struct {
	F0 bool
	F1 *E1
}
