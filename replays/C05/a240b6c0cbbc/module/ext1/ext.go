package ext

type Num int

type Key struct {
	K0 bool
	k1 Num
	K2 int
}

type E0 struct {
	F0 [2]map[Key]Key
	f1 int
	f2 uint32
}
