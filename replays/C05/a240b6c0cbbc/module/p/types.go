package p

import (
	other "subj/x/other"
)

type MyU uint

type MyBool bool

type MyC complex128

type N0 []string

type K0 struct {
}

type K1 struct {
	f0 rune
	F1 other.Num
}

type S0 struct {
	F0 [2]K0
}

type S1 struct {
}

type S2 struct {
	F0 N0
}

type S3 struct {
	F0 map[MyBool]S3
	F1 N0
	F2 other.Num
	F3 *[0]N0
	F4 []S1
}

type S4 struct {
	f0 map[uintptr]other.Num
	F1 map[MyBool]S4
}
