package p

import (
	ext "subj/ext1"
	other "subj/x/other"
)

var Anchor = 0

func CloneT0(a *K0) *K0 {
	return deriveCloneT0(a)
}

func DeepcopyT0(dst *K0, src *K0) {
	deriveDeepCopyT0(dst, src)
}

func CloneT1(a *float64) *float64 {
	return deriveCloneT1(a)
}

func DeepcopyT1(dst *float64, src *float64) {
	deriveDeepCopyT1(dst, src)
}

func CloneT2(a *int64) *int64 {
	return deriveCloneT2(a)
}

func DeepcopyT2(dst *int64, src *int64) {
	deriveDeepCopyT2(dst, src)
}

func CloneT3(a *[]K0) *[]K0 {
	return deriveCloneT3(a)
}

func DeepcopyT3(dst *[]K0, src *[]K0) {
	deriveDeepCopyT3(dst, src)
}

func CloneT4(a *S2) *S2 {
	return deriveCloneT4(a)
}

func DeepcopyT4(dst *S2, src *S2) {
	deriveDeepCopyT4(dst, src)
}

func CloneT5(a map[ext.Num]complex64) map[ext.Num]complex64 {
	return deriveCloneT5(a)
}

func DeepcopyT5(dst map[ext.Num]complex64, src map[ext.Num]complex64) {
	deriveDeepCopyT5(dst, src)
}

func CloneT6(a *S4) *S4 {
	return deriveCloneT6(a)
}

func DeepcopyT6(dst *S4, src *S4) {
	deriveDeepCopyT6(dst, src)
}

func CloneT7(a *float32) *float32 {
	return deriveCloneT7(a)
}

func DeepcopyT7(dst *float32, src *float32) {
	deriveDeepCopyT7(dst, src)
}

func CloneT8(a *map[K1]S3) *map[K1]S3 {
	return deriveCloneT8(a)
}

func DeepcopyT8(dst *map[K1]S3, src *map[K1]S3) {
	deriveDeepCopyT8(dst, src)
}

func CloneT9(a float32) float32 {
	return deriveCloneT9(a)
}

func CloneT10(a map[other.Key]map[K0]N0) map[other.Key]map[K0]N0 {
	return deriveCloneT10(a)
}

func DeepcopyT10(dst map[other.Key]map[K0]N0, src map[other.Key]map[K0]N0) {
	deriveDeepCopyT10(dst, src)
}

func CloneT11(a *map[int8]other.Key) *map[int8]other.Key {
	return deriveCloneT11(a)
}

func DeepcopyT11(dst *map[int8]other.Key, src *map[int8]other.Key) {
	deriveDeepCopyT11(dst, src)
}

func CloneT12(a *N0) *N0 {
	return deriveCloneT12(a)
}

func DeepcopyT12(dst *N0, src *N0) {
	deriveDeepCopyT12(dst, src)
}

func CloneT13(a *[0]ext.Key) *[0]ext.Key {
	return deriveCloneT13(a)
}

func DeepcopyT13(dst *[0]ext.Key, src *[0]ext.Key) {
	deriveDeepCopyT13(dst, src)
}
