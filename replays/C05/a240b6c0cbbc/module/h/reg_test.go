package h

import (
	"reflect"

	ext "subj/ext1"
	p "subj/p"
	other "subj/x/other"
)

var _ = p.Anchor

var Registry = []Entry{
	{ID: "T0", Type: reflect.TypeOf((**p.K0)(nil)).Elem(), TypeStr: "*p.K0",
		Funcs: map[string]any{"clone": p.CloneT0, "deepcopy": p.DeepcopyT0},
		Tags:  map[string]string{"f:emptystruct": "1", "f:ptr": "1", "f:struct": "1"},
	},
	{ID: "T1", Type: reflect.TypeOf((**float64)(nil)).Elem(), TypeStr: "*float64",
		Funcs: map[string]any{"clone": p.CloneT1, "deepcopy": p.DeepcopyT1},
		Tags:  map[string]string{"f:float": "1", "f:ptr": "1"},
	},
	{ID: "T2", Type: reflect.TypeOf((**int64)(nil)).Elem(), TypeStr: "*int64",
		Funcs: map[string]any{"clone": p.CloneT2, "deepcopy": p.DeepcopyT2},
		Tags:  map[string]string{"f:ptr": "1"},
	},
	{ID: "T3", Type: reflect.TypeOf((**[]p.K0)(nil)).Elem(), TypeStr: "*[]p.K0",
		Funcs: map[string]any{"clone": p.CloneT3, "deepcopy": p.DeepcopyT3},
		Tags:  map[string]string{"f:emptystruct": "1", "f:ptr": "1", "f:slice": "1", "f:struct": "1"},
	},
	{ID: "T4", Type: reflect.TypeOf((**p.S2)(nil)).Elem(), TypeStr: "*p.S2",
		Funcs: map[string]any{"clone": p.CloneT4, "deepcopy": p.DeepcopyT4},
		Tags:  map[string]string{"f:namedcomposite": "1", "f:ptr": "1", "f:slice": "1", "f:string": "1", "f:struct": "1"},
	},
	{ID: "T5", Type: reflect.TypeOf((*map[ext.Num]complex64)(nil)).Elem(), TypeStr: "map[ext.Num]complex64",
		Funcs: map[string]any{"clone": p.CloneT5, "deepcopy": p.DeepcopyT5},
		Tags:  map[string]string{"f:complex": "1", "f:ext": "1", "f:map": "1", "f:namedbasic": "1"},
	},
	{ID: "T6", Type: reflect.TypeOf((**p.S4)(nil)).Elem(), TypeStr: "*p.S4",
		Funcs: map[string]any{"clone": p.CloneT6, "deepcopy": p.DeepcopyT6},
		Tags:  map[string]string{"f:ext": "1", "f:map": "1", "f:namedbasic": "1", "f:ptr": "1", "f:recursive": "1", "f:string": "1", "f:struct": "1"},
	},
	{ID: "T7", Type: reflect.TypeOf((**float32)(nil)).Elem(), TypeStr: "*float32",
		Funcs: map[string]any{"clone": p.CloneT7, "deepcopy": p.DeepcopyT7},
		Tags:  map[string]string{"f:float": "1", "f:ptr": "1"},
	},
	{ID: "T8", Type: reflect.TypeOf((**map[p.K1]p.S3)(nil)).Elem(), TypeStr: "*map[p.K1]p.S3",
		Funcs: map[string]any{"clone": p.CloneT8, "deepcopy": p.DeepcopyT8},
		Tags:  map[string]string{"f:array": "1", "f:array0": "1", "f:emptystruct": "1", "f:ext": "1", "f:map": "1", "f:namedbasic": "1", "f:namedcomposite": "1", "f:ptr": "1", "f:recursive": "1", "f:slice": "1", "f:string": "1", "f:struct": "1", "f:structkey": "1"},
	},
	{ID: "T9", Type: reflect.TypeOf((*float32)(nil)).Elem(), TypeStr: "float32",
		Funcs: map[string]any{"clone": p.CloneT9},
		Tags:  map[string]string{"basic-ordered": "1", "comparable": "1", "f:float": "1"},
	},
	{ID: "T10", Type: reflect.TypeOf((*map[other.Key]map[p.K0]p.N0)(nil)).Elem(), TypeStr: "map[other.Key]map[p.K0]p.N0",
		Funcs: map[string]any{"clone": p.CloneT10, "deepcopy": p.DeepcopyT10},
		Tags:  map[string]string{"f:emptystruct": "1", "f:ext": "1", "f:ext-private": "1", "f:map": "1", "f:namedbasic": "1", "f:namedcomposite": "1", "f:slice": "1", "f:string": "1", "f:struct": "1", "f:structkey": "1"},
	},
	{ID: "T11", Type: reflect.TypeOf((**map[int8]other.Key)(nil)).Elem(), TypeStr: "*map[int8]other.Key",
		Funcs: map[string]any{"clone": p.CloneT11, "deepcopy": p.DeepcopyT11},
		Tags:  map[string]string{"f:ext": "1", "f:ext-private": "1", "f:map": "1", "f:namedbasic": "1", "f:ptr": "1", "f:string": "1", "f:struct": "1"},
	},
	{ID: "T12", Type: reflect.TypeOf((**p.N0)(nil)).Elem(), TypeStr: "*p.N0",
		Funcs: map[string]any{"clone": p.CloneT12, "deepcopy": p.DeepcopyT12},
		Tags:  map[string]string{"f:namedcomposite": "1", "f:ptr": "1", "f:slice": "1", "f:string": "1"},
	},
	{ID: "T13", Type: reflect.TypeOf((**[0]ext.Key)(nil)).Elem(), TypeStr: "*[0]ext.Key",
		Funcs: map[string]any{"clone": p.CloneT13, "deepcopy": p.DeepcopyT13},
		Tags:  map[string]string{"f:array": "1", "f:array0": "1", "f:ext": "1", "f:ext-private": "1", "f:namedbasic": "1", "f:ptr": "1", "f:struct": "1"},
	},
}
