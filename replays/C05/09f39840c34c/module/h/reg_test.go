package h

import (
	"reflect"

	p "subj/p"
	other "subj/x/other"
)

var _ = p.Anchor

var Registry = []Entry{
	{ID: "T0", Type: reflect.TypeOf((*map[p.K0][2]map[string]other.O0)(nil)).Elem(), TypeStr: "map[p.K0][2]map[string]other.O0",
		Funcs: map[string]any{"clone": p.CloneT0, "deepcopy": p.DeepcopyT0},
		Tags:  map[string]string{"enumerated": "1", "f:array": "1", "f:ext": "1", "f:map": "1", "f:namedbasic": "1", "f:slice": "1", "f:string": "1", "f:struct": "1", "f:structkey": "1"},
	},
	{ID: "T1", Type: reflect.TypeOf((**map[string]map[string]other.O0)(nil)).Elem(), TypeStr: "*map[string]map[string]other.O0",
		Funcs: map[string]any{"clone": p.CloneT1, "deepcopy": p.DeepcopyT1},
		Tags:  map[string]string{"enumerated": "1", "f:ext": "1", "f:map": "1", "f:namedbasic": "1", "f:ptr": "1", "f:slice": "1", "f:string": "1", "f:struct": "1"},
	},
	{ID: "T2", Type: reflect.TypeOf((*[]map[string]map[string]other.O0)(nil)).Elem(), TypeStr: "[]map[string]map[string]other.O0",
		Funcs: map[string]any{"clone": p.CloneT2, "deepcopy": p.DeepcopyT2},
		Tags:  map[string]string{"enumerated": "1", "f:ext": "1", "f:map": "1", "f:namedbasic": "1", "f:slice": "1", "f:string": "1", "f:struct": "1"},
	},
	{ID: "T3", Type: reflect.TypeOf((**[2]map[string]map[string]other.O0)(nil)).Elem(), TypeStr: "*[2]map[string]map[string]other.O0",
		Funcs: map[string]any{"clone": p.CloneT3, "deepcopy": p.DeepcopyT3},
		Tags:  map[string]string{"enumerated": "1", "f:array": "1", "f:ext": "1", "f:map": "1", "f:namedbasic": "1", "f:ptr": "1", "f:slice": "1", "f:string": "1", "f:struct": "1"},
	},
	{ID: "T4", Type: reflect.TypeOf((*map[string]map[string]map[string]other.O0)(nil)).Elem(), TypeStr: "map[string]map[string]map[string]other.O0",
		Funcs: map[string]any{"clone": p.CloneT4, "deepcopy": p.DeepcopyT4},
		Tags:  map[string]string{"enumerated": "1", "f:ext": "1", "f:map": "1", "f:namedbasic": "1", "f:slice": "1", "f:string": "1", "f:struct": "1"},
	},
	{ID: "T5", Type: reflect.TypeOf((*map[p.K0]map[string]map[string]other.O0)(nil)).Elem(), TypeStr: "map[p.K0]map[string]map[string]other.O0",
		Funcs: map[string]any{"clone": p.CloneT5, "deepcopy": p.DeepcopyT5},
		Tags:  map[string]string{"enumerated": "1", "f:ext": "1", "f:map": "1", "f:namedbasic": "1", "f:slice": "1", "f:string": "1", "f:struct": "1", "f:structkey": "1"},
	},
	{ID: "T6", Type: reflect.TypeOf((**map[p.K0]map[string]other.O0)(nil)).Elem(), TypeStr: "*map[p.K0]map[string]other.O0",
		Funcs: map[string]any{"clone": p.CloneT6, "deepcopy": p.DeepcopyT6},
		Tags:  map[string]string{"enumerated": "1", "f:ext": "1", "f:map": "1", "f:namedbasic": "1", "f:ptr": "1", "f:slice": "1", "f:string": "1", "f:struct": "1", "f:structkey": "1"},
	},
	{ID: "T7", Type: reflect.TypeOf((*[]map[p.K0]map[string]other.O0)(nil)).Elem(), TypeStr: "[]map[p.K0]map[string]other.O0",
		Funcs: map[string]any{"clone": p.CloneT7, "deepcopy": p.DeepcopyT7},
		Tags:  map[string]string{"enumerated": "1", "f:ext": "1", "f:map": "1", "f:namedbasic": "1", "f:slice": "1", "f:string": "1", "f:struct": "1", "f:structkey": "1"},
	},
	{ID: "T8", Type: reflect.TypeOf((**[2]map[p.K0]map[string]other.O0)(nil)).Elem(), TypeStr: "*[2]map[p.K0]map[string]other.O0",
		Funcs: map[string]any{"clone": p.CloneT8, "deepcopy": p.DeepcopyT8},
		Tags:  map[string]string{"enumerated": "1", "f:array": "1", "f:ext": "1", "f:map": "1", "f:namedbasic": "1", "f:ptr": "1", "f:slice": "1", "f:string": "1", "f:struct": "1", "f:structkey": "1"},
	},
	{ID: "T9", Type: reflect.TypeOf((*map[string]map[p.K0]map[string]other.O0)(nil)).Elem(), TypeStr: "map[string]map[p.K0]map[string]other.O0",
		Funcs: map[string]any{"clone": p.CloneT9, "deepcopy": p.DeepcopyT9},
		Tags:  map[string]string{"enumerated": "1", "f:ext": "1", "f:map": "1", "f:namedbasic": "1", "f:slice": "1", "f:string": "1", "f:struct": "1", "f:structkey": "1"},
	},
	{ID: "T10", Type: reflect.TypeOf((*map[p.K0]map[p.K0]map[string]other.O0)(nil)).Elem(), TypeStr: "map[p.K0]map[p.K0]map[string]other.O0",
		Funcs: map[string]any{"clone": p.CloneT10, "deepcopy": p.DeepcopyT10},
		Tags:  map[string]string{"enumerated": "1", "f:ext": "1", "f:map": "1", "f:namedbasic": "1", "f:slice": "1", "f:string": "1", "f:struct": "1", "f:structkey": "1"},
	},
	{ID: "T11", Type: reflect.TypeOf((***map[p.K0]other.O0)(nil)).Elem(), TypeStr: "**map[p.K0]other.O0",
		Funcs: map[string]any{"clone": p.CloneT11, "deepcopy": p.DeepcopyT11},
		Tags:  map[string]string{"enumerated": "1", "f:ext": "1", "f:map": "1", "f:namedbasic": "1", "f:ptr": "1", "f:slice": "1", "f:string": "1", "f:struct": "1", "f:structkey": "1"},
	},
	{ID: "T12", Type: reflect.TypeOf((*[]*map[p.K0]other.O0)(nil)).Elem(), TypeStr: "[]*map[p.K0]other.O0",
		Funcs: map[string]any{"clone": p.CloneT12, "deepcopy": p.DeepcopyT12},
		Tags:  map[string]string{"enumerated": "1", "f:ext": "1", "f:map": "1", "f:namedbasic": "1", "f:ptr": "1", "f:slice": "1", "f:string": "1", "f:struct": "1", "f:structkey": "1"},
	},
	{ID: "T13", Type: reflect.TypeOf((**[2]*map[p.K0]other.O0)(nil)).Elem(), TypeStr: "*[2]*map[p.K0]other.O0",
		Funcs: map[string]any{"clone": p.CloneT13, "deepcopy": p.DeepcopyT13},
		Tags:  map[string]string{"enumerated": "1", "f:array": "1", "f:ext": "1", "f:map": "1", "f:namedbasic": "1", "f:ptr": "1", "f:slice": "1", "f:string": "1", "f:struct": "1", "f:structkey": "1"},
	},
}
