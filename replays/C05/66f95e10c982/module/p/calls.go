package p

import (
	ext "subj/ext1"
	other "subj/x/other"
)

var Anchor = 0

func CloneT0(a *int) *int {
	return deriveCloneT0(a)
}

func DeepcopyT0(dst *int, src *int) {
	deriveDeepCopyT0(dst, src)
}

func CloneT1(a *string) *string {
	return deriveCloneT1(a)
}

func DeepcopyT1(dst *string, src *string) {
	deriveDeepCopyT1(dst, src)
}

func CloneT2(a *float64) *float64 {
	return deriveCloneT2(a)
}

func DeepcopyT2(dst *float64, src *float64) {
	deriveDeepCopyT2(dst, src)
}

func CloneT3(a *bool) *bool {
	return deriveCloneT3(a)
}

func DeepcopyT3(dst *bool, src *bool) {
	deriveDeepCopyT3(dst, src)
}

func CloneT4(a *byte) *byte {
	return deriveCloneT4(a)
}

func DeepcopyT4(dst *byte, src *byte) {
	deriveDeepCopyT4(dst, src)
}

func CloneT5(a *MyInt) *MyInt {
	return deriveCloneT5(a)
}

func DeepcopyT5(dst *MyInt, src *MyInt) {
	deriveDeepCopyT5(dst, src)
}

func CloneT6(a *S0) *S0 {
	return deriveCloneT6(a)
}

func DeepcopyT6(dst *S0, src *S0) {
	deriveDeepCopyT6(dst, src)
}

func CloneT7(a *ext.E0) *ext.E0 {
	return deriveCloneT7(a)
}

func DeepcopyT7(dst *ext.E0, src *ext.E0) {
	deriveDeepCopyT7(dst, src)
}

func CloneT8(a *R) *R {
	return deriveCloneT8(a)
}

func DeepcopyT8(dst *R, src *R) {
	deriveDeepCopyT8(dst, src)
}

func CloneT9(a *other.O0) *other.O0 {
	return deriveCloneT9(a)
}

func DeepcopyT9(dst *other.O0, src *other.O0) {
	deriveDeepCopyT9(dst, src)
}

func CloneT10(a []int) []int {
	return deriveCloneT10(a)
}

func DeepcopyT10(dst []int, src []int) {
	deriveDeepCopyT10(dst, src)
}

func CloneT11(a *[2]int) *[2]int {
	return deriveCloneT11(a)
}

func DeepcopyT11(dst *[2]int, src *[2]int) {
	deriveDeepCopyT11(dst, src)
}

func CloneT12(a map[string]int) map[string]int {
	return deriveCloneT12(a)
}

func DeepcopyT12(dst map[string]int, src map[string]int) {
	deriveDeepCopyT12(dst, src)
}

func CloneT13(a map[K0]int) map[K0]int {
	return deriveCloneT13(a)
}

func DeepcopyT13(dst map[K0]int, src map[K0]int) {
	deriveDeepCopyT13(dst, src)
}
