package p

import (
	ext "subj/ext1"
)

var Anchor = 0

func CloneT0(a **K0) **K0 {
	return deriveCloneT0(a)
}

func DeepcopyT0(dst **K0, src **K0) {
	deriveDeepCopyT0(dst, src)
}

func CloneT1(a *string) *string {
	return deriveCloneT1(a)
}

func DeepcopyT1(dst *string, src *string) {
	deriveDeepCopyT1(dst, src)
}

func CloneT2(a map[K0]*S1) map[K0]*S1 {
	return deriveCloneT2(a)
}

func DeepcopyT2(dst map[K0]*S1, src map[K0]*S1) {
	deriveDeepCopyT2(dst, src)
}

func CloneT3(a *int) *int {
	return deriveCloneT3(a)
}

func DeepcopyT3(dst *int, src *int) {
	deriveDeepCopyT3(dst, src)
}

func CloneT4(a *int16) *int16 {
	return deriveCloneT4(a)
}

func DeepcopyT4(dst *int16, src *int16) {
	deriveDeepCopyT4(dst, src)
}

func CloneT5(a map[K0]ext.Num) map[K0]ext.Num {
	return deriveCloneT5(a)
}

func DeepcopyT5(dst map[K0]ext.Num, src map[K0]ext.Num) {
	deriveDeepCopyT5(dst, src)
}

func CloneT6(a []complex64) []complex64 {
	return deriveCloneT6(a)
}

func DeepcopyT6(dst []complex64, src []complex64) {
	deriveDeepCopyT6(dst, src)
}

func CloneT7(a *map[[1]int32]K0) *map[[1]int32]K0 {
	return deriveCloneT7(a)
}

func DeepcopyT7(dst *map[[1]int32]K0, src *map[[1]int32]K0) {
	deriveDeepCopyT7(dst, src)
}

func CloneT8(a map[ext.Num][]S1) map[ext.Num][]S1 {
	return deriveCloneT8(a)
}

func DeepcopyT8(dst map[ext.Num][]S1, src map[ext.Num][]S1) {
	deriveDeepCopyT8(dst, src)
}

func CloneT9(a *S1) *S1 {
	return deriveCloneT9(a)
}

func DeepcopyT9(dst *S1, src *S1) {
	deriveDeepCopyT9(dst, src)
}

func CloneT10(a []int) []int {
	return deriveCloneT10(a)
}

func DeepcopyT10(dst []int, src []int) {
	deriveDeepCopyT10(dst, src)
}

func CloneT11(a *map[MyI64]*int) *map[MyI64]*int {
	return deriveCloneT11(a)
}

func DeepcopyT11(dst *map[MyI64]*int, src *map[MyI64]*int) {
	deriveDeepCopyT11(dst, src)
}

func CloneT12(a *int8) *int8 {
	return deriveCloneT12(a)
}

func DeepcopyT12(dst *int8, src *int8) {
	deriveDeepCopyT12(dst, src)
}

func CloneT13(a map[MyI64]S1) map[MyI64]S1 {
	return deriveCloneT13(a)
}

func DeepcopyT13(dst map[MyI64]S1, src map[MyI64]S1) {
	deriveDeepCopyT13(dst, src)
}
