package p

import (
	ext "subj/ext1"
	ext2 "subj/x/ext"
)

type MyF float64

type MyI64 int64

type MyU uint

type N0 [2]MyU

type N1 map[int64]MyU

type N2 [3]ext2.Num

type K0 struct {
}

type S0 struct {
	K0
}

type S1 struct {
	F0 MyF
	F1 uint32
	*S0
	F3 []byte
	K0
	F5 ext.E0
}
