package ext

type Num string

type Key struct {
	K0 string
}

type E0 struct {
	F0 *Num
	F1 [1][2]int16
	F2 [1]Key
}

type E1 struct {
}
