package ext

type Num int

type Key struct {
	K0 int
	k1 string
}

type E0 struct {
	f0 []byte
	f1 rune
	f2 [][]byte
}

type E1 struct {
	F0 uint16
}
