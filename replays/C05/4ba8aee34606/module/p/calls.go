package p

import (
	other "subj/x/other"
)

var Anchor = 0

func CloneT0(a []map[K0]R) []map[K0]R {
	return deriveCloneT0(a)
}

func DeepcopyT0(dst []map[K0]R, src []map[K0]R) {
	deriveDeepCopyT0(dst, src)
}

func CloneT1(a *[2]map[K0]R) *[2]map[K0]R {
	return deriveCloneT1(a)
}

func DeepcopyT1(dst *[2]map[K0]R, src *[2]map[K0]R) {
	deriveDeepCopyT1(dst, src)
}

func CloneT2(a map[string]map[K0]R) map[string]map[K0]R {
	return deriveCloneT2(a)
}

func DeepcopyT2(dst map[string]map[K0]R, src map[string]map[K0]R) {
	deriveDeepCopyT2(dst, src)
}

func CloneT3(a map[K0]map[K0]R) map[K0]map[K0]R {
	return deriveCloneT3(a)
}

func DeepcopyT3(dst map[K0]map[K0]R, src map[K0]map[K0]R) {
	deriveDeepCopyT3(dst, src)
}

func CloneT4(a **other.O0) **other.O0 {
	return deriveCloneT4(a)
}

func DeepcopyT4(dst **other.O0, src **other.O0) {
	deriveDeepCopyT4(dst, src)
}

func CloneT5(a []*other.O0) []*other.O0 {
	return deriveCloneT5(a)
}

func DeepcopyT5(dst []*other.O0, src []*other.O0) {
	deriveDeepCopyT5(dst, src)
}

func CloneT6(a *[2]*other.O0) *[2]*other.O0 {
	return deriveCloneT6(a)
}

func DeepcopyT6(dst *[2]*other.O0, src *[2]*other.O0) {
	deriveDeepCopyT6(dst, src)
}

func CloneT7(a map[string]*other.O0) map[string]*other.O0 {
	return deriveCloneT7(a)
}

func DeepcopyT7(dst map[string]*other.O0, src map[string]*other.O0) {
	deriveDeepCopyT7(dst, src)
}

func CloneT8(a map[K0]*other.O0) map[K0]*other.O0 {
	return deriveCloneT8(a)
}

func DeepcopyT8(dst map[K0]*other.O0, src map[K0]*other.O0) {
	deriveDeepCopyT8(dst, src)
}

func CloneT9(a *[]other.O0) *[]other.O0 {
	return deriveCloneT9(a)
}

func DeepcopyT9(dst *[]other.O0, src *[]other.O0) {
	deriveDeepCopyT9(dst, src)
}

func CloneT10(a [][]other.O0) [][]other.O0 {
	return deriveCloneT10(a)
}

func DeepcopyT10(dst [][]other.O0, src [][]other.O0) {
	deriveDeepCopyT10(dst, src)
}

func CloneT11(a *[2][]other.O0) *[2][]other.O0 {
	return deriveCloneT11(a)
}

func DeepcopyT11(dst *[2][]other.O0, src *[2][]other.O0) {
	deriveDeepCopyT11(dst, src)
}

func CloneT12(a map[string][]other.O0) map[string][]other.O0 {
	return deriveCloneT12(a)
}

func DeepcopyT12(dst map[string][]other.O0, src map[string][]other.O0) {
	deriveDeepCopyT12(dst, src)
}

func CloneT13(a map[K0][]other.O0) map[K0][]other.O0 {
	return deriveCloneT13(a)
}

func DeepcopyT13(dst map[K0][]other.O0, src map[K0][]other.O0) {
	deriveDeepCopyT13(dst, src)
}
