package p

import (
	ext "subj/ext1"
	other "subj/x/other"
)

var Anchor = 0

func CloneT0(a map[K0]map[K0]other.O0) map[K0]map[K0]other.O0 {
	return deriveCloneT0(a)
}

func DeepcopyT0(dst map[K0]map[K0]other.O0, src map[K0]map[K0]other.O0) {
	deriveDeepCopyT0(dst, src)
}

func CloneT1(a *int) *int {
	return deriveCloneT1(a)
}

func DeepcopyT1(dst *int, src *int) {
	deriveDeepCopyT1(dst, src)
}

func CloneT2(a *string) *string {
	return deriveCloneT2(a)
}

func DeepcopyT2(dst *string, src *string) {
	deriveDeepCopyT2(dst, src)
}

func CloneT3(a *float64) *float64 {
	return deriveCloneT3(a)
}

func DeepcopyT3(dst *float64, src *float64) {
	deriveDeepCopyT3(dst, src)
}

func CloneT4(a *bool) *bool {
	return deriveCloneT4(a)
}

func DeepcopyT4(dst *bool, src *bool) {
	deriveDeepCopyT4(dst, src)
}

func CloneT5(a *byte) *byte {
	return deriveCloneT5(a)
}

func DeepcopyT5(dst *byte, src *byte) {
	deriveDeepCopyT5(dst, src)
}

func CloneT6(a *MyInt) *MyInt {
	return deriveCloneT6(a)
}

func DeepcopyT6(dst *MyInt, src *MyInt) {
	deriveDeepCopyT6(dst, src)
}

func CloneT7(a *S0) *S0 {
	return deriveCloneT7(a)
}

func DeepcopyT7(dst *S0, src *S0) {
	deriveDeepCopyT7(dst, src)
}

func CloneT8(a *ext.E0) *ext.E0 {
	return deriveCloneT8(a)
}

func DeepcopyT8(dst *ext.E0, src *ext.E0) {
	deriveDeepCopyT8(dst, src)
}

func CloneT9(a *R) *R {
	return deriveCloneT9(a)
}

func DeepcopyT9(dst *R, src *R) {
	deriveDeepCopyT9(dst, src)
}

func CloneT10(a *other.O0) *other.O0 {
	return deriveCloneT10(a)
}

func DeepcopyT10(dst *other.O0, src *other.O0) {
	deriveDeepCopyT10(dst, src)
}

func CloneT11(a []int) []int {
	return deriveCloneT11(a)
}

func DeepcopyT11(dst []int, src []int) {
	deriveDeepCopyT11(dst, src)
}

func CloneT12(a *[2]int) *[2]int {
	return deriveCloneT12(a)
}

func DeepcopyT12(dst *[2]int, src *[2]int) {
	deriveDeepCopyT12(dst, src)
}

func CloneT13(a map[string]int) map[string]int {
	return deriveCloneT13(a)
}

func DeepcopyT13(dst map[string]int, src map[string]int) {
	deriveDeepCopyT13(dst, src)
}
