package p

type MyBool bool

type MyC complex128

type K0 struct {
}

type K1 struct {
	f0 bool
	F1 bool
	F2 int
}

type S0 struct {
	F0 int8
}
