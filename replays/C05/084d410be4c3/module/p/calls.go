package p

import (
	ext "subj/ext1"
)

var Anchor = 0

func CloneT0(a int8) int8 {
	return deriveCloneT0(a)
}

func CloneT1(a map[float64]uint16) map[float64]uint16 {
	return deriveCloneT1(a)
}

func DeepcopyT1(dst map[float64]uint16, src map[float64]uint16) {
	deriveDeepCopyT1(dst, src)
}

func CloneT2(a *S0) *S0 {
	return deriveCloneT2(a)
}

func DeepcopyT2(dst *S0, src *S0) {
	deriveDeepCopyT2(dst, src)
}

func CloneT3(a []uint8) []uint8 {
	return deriveCloneT3(a)
}

func DeepcopyT3(dst []uint8, src []uint8) {
	deriveDeepCopyT3(dst, src)
}

func CloneT4(a []K0) []K0 {
	return deriveCloneT4(a)
}

func DeepcopyT4(dst []K0, src []K0) {
	deriveDeepCopyT4(dst, src)
}

func CloneT5(a *uint8) *uint8 {
	return deriveCloneT5(a)
}

func DeepcopyT5(dst *uint8, src *uint8) {
	deriveDeepCopyT5(dst, src)
}

func CloneT6(a K1) K1 {
	return deriveCloneT6(a)
}

func CloneT7(a *uintptr) *uintptr {
	return deriveCloneT7(a)
}

func DeepcopyT7(dst *uintptr, src *uintptr) {
	deriveDeepCopyT7(dst, src)
}

func CloneT8(a *int) *int {
	return deriveCloneT8(a)
}

func DeepcopyT8(dst *int, src *int) {
	deriveDeepCopyT8(dst, src)
}

func CloneT9(a string) string {
	return deriveCloneT9(a)
}

func CloneT10(a *complex128) *complex128 {
	return deriveCloneT10(a)
}

func DeepcopyT10(dst *complex128, src *complex128) {
	deriveDeepCopyT10(dst, src)
}

func CloneT11(a []*int8) []*int8 {
	return deriveCloneT11(a)
}

func DeepcopyT11(dst []*int8, src []*int8) {
	deriveDeepCopyT11(dst, src)
}

func CloneT12(a *ext.E0) *ext.E0 {
	return deriveCloneT12(a)
}

func DeepcopyT12(dst *ext.E0, src *ext.E0) {
	deriveDeepCopyT12(dst, src)
}

func CloneT13(a [][]K1) [][]K1 {
	return deriveCloneT13(a)
}

func DeepcopyT13(dst [][]K1, src [][]K1) {
	deriveDeepCopyT13(dst, src)
}
