package ext

type Num float64

type Key struct {
	k0 uint8
}

type E0 struct {
	f0 *E0
}
