package ext

type Num int64

type Key struct {
	K0 Num
	k1 bool
}

type E0 struct {
	F0 Key
	F1 uint32
}

type E1 struct {
	f0 int8
	F1 []byte
}
