package ext

type Num float64

type Key struct {
	k0 complex128
	K1 Num
	k2 Num
}

type E0 struct {
	f0 bool
	f1 *E0
}

type E1 struct {
	f0 byte
	F1 E0
	f2 uint16
	F3 []byte
}
