package other

type Num int64

type Key struct {
	k0 float64
	k1 bool
}

type E0 struct {
	F0 int
	f1 int
}
