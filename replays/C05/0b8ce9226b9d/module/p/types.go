package p

import (
	ext "subj/ext1"
	other "subj/x/other"
)

type MyC complex128

type MyRune rune

type N0 [0]rune

type N1 []float32

type N2 map[MyC]bool

type K0 struct {
	f0 int8
	F1 float32
}

type S0 struct {
	F0 map[MyC]S2
	f1 []ext.Num
}

type S1 struct {
	S0
	F1 map[int32]other.Key
}

type S2 struct {
	F0 *map[MyRune]uint16
	f1 map[[1]int64]map[MyRune]S2
	f2 uint
	F3 *[]uint32
	f4 other.Num
}
