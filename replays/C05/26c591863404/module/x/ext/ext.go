package ext

import (
	ext "subj/ext1"
)

type Num float64

type Key struct {
	k0 Num
	k1 float64
}

type E0 struct {
	F0 ext.Num
}

type E1 struct {
	F0 []*E1
	f1 int16
}
