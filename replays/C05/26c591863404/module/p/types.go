package p

import (
	ext "subj/ext1"
	ext2 "subj/x/ext"
)

type MyC complex128

type N0 *ext.Num

type K0 struct {
}

type K1 struct {
	F0 [0]int32
	f1 ext.Num
	F2 uint16
}

type S0 struct {
	F0 *[]S0
	F1 int8
	f2 map[ext2.Key]K1
}
