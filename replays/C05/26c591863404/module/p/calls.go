package p

import (
	ext "subj/ext1"
)

var Anchor = 0

func CloneT0(a **K0) **K0 {
	return deriveCloneT0(a)
}

func DeepcopyT0(dst **K0, src **K0) {
	deriveDeepCopyT0(dst, src)
}

func CloneT1(a float64) float64 {
	return deriveCloneT1(a)
}

func CloneT2(a *[]ext.Num) *[]ext.Num {
	return deriveCloneT2(a)
}

func DeepcopyT2(dst *[]ext.Num, src *[]ext.Num) {
	deriveDeepCopyT2(dst, src)
}

func CloneT3(a map[ext.Num][]K0) map[ext.Num][]K0 {
	return deriveCloneT3(a)
}

func DeepcopyT3(dst map[ext.Num][]K0, src map[ext.Num][]K0) {
	deriveDeepCopyT3(dst, src)
}

func CloneT4(a *int64) *int64 {
	return deriveCloneT4(a)
}

func DeepcopyT4(dst *int64, src *int64) {
	deriveDeepCopyT4(dst, src)
}

func CloneT5(a map[int8]MyC) map[int8]MyC {
	return deriveCloneT5(a)
}

func DeepcopyT5(dst map[int8]MyC, src map[int8]MyC) {
	deriveDeepCopyT5(dst, src)
}

func CloneT6(a *[2]map[[1]uintptr]K1) *[2]map[[1]uintptr]K1 {
	return deriveCloneT6(a)
}

func DeepcopyT6(dst *[2]map[[1]uintptr]K1, src *[2]map[[1]uintptr]K1) {
	deriveDeepCopyT6(dst, src)
}

func CloneT7(a map[int]map[MyC]N0) map[int]map[MyC]N0 {
	return deriveCloneT7(a)
}

func DeepcopyT7(dst map[int]map[MyC]N0, src map[int]map[MyC]N0) {
	deriveDeepCopyT7(dst, src)
}

func CloneT8(a int) int {
	return deriveCloneT8(a)
}

func CloneT9(a map[MyC]int8) map[MyC]int8 {
	return deriveCloneT9(a)
}

func DeepcopyT9(dst map[MyC]int8, src map[MyC]int8) {
	deriveDeepCopyT9(dst, src)
}

func CloneT10(a []map[int8][]K0) []map[int8][]K0 {
	return deriveCloneT10(a)
}

func DeepcopyT10(dst []map[int8][]K0, src []map[int8][]K0) {
	deriveDeepCopyT10(dst, src)
}

func CloneT11(a []uintptr) []uintptr {
	return deriveCloneT11(a)
}

func DeepcopyT11(dst []uintptr, src []uintptr) {
	deriveDeepCopyT11(dst, src)
}

func CloneT12(a *int8) *int8 {
	return deriveCloneT12(a)
}

func DeepcopyT12(dst *int8, src *int8) {
	deriveDeepCopyT12(dst, src)
}

func CloneT13(a *N0) *N0 {
	return deriveCloneT13(a)
}

func DeepcopyT13(dst *N0, src *N0) {
	deriveDeepCopyT13(dst, src)
}
