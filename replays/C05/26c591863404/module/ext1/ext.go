package ext

type Num string

type Key struct {
	K0 int8
	K1 uint16
	K2 int8
}

type E0 struct {
	f0 []int16
	f1 int
}

type E1 struct {
	F0 int32
}
