package other

type Num float64

type Key struct {
	k0 float32
	K1 Num
	K2 Num
}

type E0 struct {
	F0 Key
	f1 []uint64
	F2 []byte
	f3 []byte
}
