package ext

type Num float64

type Key struct {
	k0 Num
}

type E0 struct {
	f0 uint8
	F1 []*Key
	F2 []int8
}

type E1 struct {
	f0 map[bool]*bool
	F1 E0
	f2 *E1
	f3 bool
}
