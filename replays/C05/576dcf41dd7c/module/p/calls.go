package p

import (
	other "subj/x/other"
)

var Anchor = 0

func CloneT0(a **K0) **K0 {
	return deriveCloneT0(a)
}

func DeepcopyT0(dst **K0, src **K0) {
	deriveDeepCopyT0(dst, src)
}

func CloneT1(a []K1) []K1 {
	return deriveCloneT1(a)
}

func DeepcopyT1(dst []K1, src []K1) {
	deriveDeepCopyT1(dst, src)
}

func CloneT2(a *S0) *S0 {
	return deriveCloneT2(a)
}

func DeepcopyT2(dst *S0, src *S0) {
	deriveDeepCopyT2(dst, src)
}

func CloneT3(a int8) int8 {
	return deriveCloneT3(a)
}

func CloneT4(a []complex128) []complex128 {
	return deriveCloneT4(a)
}

func DeepcopyT4(dst []complex128, src []complex128) {
	deriveDeepCopyT4(dst, src)
}

func CloneT5(a []string) []string {
	return deriveCloneT5(a)
}

func DeepcopyT5(dst []string, src []string) {
	deriveDeepCopyT5(dst, src)
}

func CloneT6(a [1]map[MyC]uint64) [1]map[MyC]uint64 {
	return deriveCloneT6(a)
}

func CloneT7(a []other.E0) []other.E0 {
	return deriveCloneT7(a)
}

func DeepcopyT7(dst []other.E0, src []other.E0) {
	deriveDeepCopyT7(dst, src)
}

func CloneT8(a *int64) *int64 {
	return deriveCloneT8(a)
}

func DeepcopyT8(dst *int64, src *int64) {
	deriveDeepCopyT8(dst, src)
}

func CloneT9(a *other.Key) *other.Key {
	return deriveCloneT9(a)
}

func DeepcopyT9(dst *other.Key, src *other.Key) {
	deriveDeepCopyT9(dst, src)
}

func CloneT10(a *[][]S0) *[][]S0 {
	return deriveCloneT10(a)
}

func DeepcopyT10(dst *[][]S0, src *[][]S0) {
	deriveDeepCopyT10(dst, src)
}

func CloneT11(a *uint16) *uint16 {
	return deriveCloneT11(a)
}

func DeepcopyT11(dst *uint16, src *uint16) {
	deriveDeepCopyT11(dst, src)
}

func CloneT12(a []uint) []uint {
	return deriveCloneT12(a)
}

func DeepcopyT12(dst []uint, src []uint) {
	deriveDeepCopyT12(dst, src)
}

func CloneT13(a *K1) *K1 {
	return deriveCloneT13(a)
}

func DeepcopyT13(dst *K1, src *K1) {
	deriveDeepCopyT13(dst, src)
}
