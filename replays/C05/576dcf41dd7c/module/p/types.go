package p

type MyI64 int64

type MyU uint

type MyBool bool

type MyC complex128

type K0 struct {
	f0 int8
}

type K1 struct {
	F0 uint8
	F1 int
	f2 [1]uint16
}

type S0 struct {
	*K0
	F1 map[int32]string
}
