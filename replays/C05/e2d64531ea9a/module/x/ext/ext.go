package ext

type Num float64

type Key struct {
	k0 complex128
}

type E0 struct {
	f0 Key
	f1 [0]*int64
}

type E1 struct {
	f0 Num
	F1 int
	F2 int
	F3 complex128
}
