package p

import (
	ext "subj/ext1"
	ext2 "subj/x/ext"
)

type MyStr string

type MyU8 uint8

type MyF32 float32

type N0 map[bool]int16

type N1 *byte

type N2 []complex128

type K0 struct {
	f0 MyF32
	F1 [1]int
	f2 ext2.Key
}

type K1 struct {
}

type S0 struct {
	f0 ext.Num
	F1 int8
	F2 map[byte]S0
	F3 ext2.Num
	F4 ext2.E1
	f5 complex128
}

type S1 struct {
	F0 [][]byte
	*K1
	f2 ext.Num
	F3 map[[2]bool]S1
}
