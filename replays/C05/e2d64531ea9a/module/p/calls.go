package p

import (
	ext "subj/ext1"
	ext2 "subj/x/ext"
)

var Anchor = 0

func CloneT0(a []*K0) []*K0 {
	return deriveCloneT0(a)
}

func DeepcopyT0(dst []*K0, src []*K0) {
	deriveDeepCopyT0(dst, src)
}

func CloneT1(a *K1) *K1 {
	return deriveCloneT1(a)
}

func DeepcopyT1(dst *K1, src *K1) {
	deriveDeepCopyT1(dst, src)
}

func CloneT2(a *[]ext.Num) *[]ext.Num {
	return deriveCloneT2(a)
}

func DeepcopyT2(dst *[]ext.Num, src *[]ext.Num) {
	deriveDeepCopyT2(dst, src)
}

func CloneT3(a *S1) *S1 {
	return deriveCloneT3(a)
}

func DeepcopyT3(dst *S1, src *S1) {
	deriveDeepCopyT3(dst, src)
}

func CloneT4(a *map[uintptr]int8) *map[uintptr]int8 {
	return deriveCloneT4(a)
}

func DeepcopyT4(dst *map[uintptr]int8, src *map[uintptr]int8) {
	deriveDeepCopyT4(dst, src)
}

func CloneT5(a map[uint16]ext2.Key) map[uint16]ext2.Key {
	return deriveCloneT5(a)
}

func DeepcopyT5(dst map[uint16]ext2.Key, src map[uint16]ext2.Key) {
	deriveDeepCopyT5(dst, src)
}

func CloneT6(a *map[bool]ext.Key) *map[bool]ext.Key {
	return deriveCloneT6(a)
}

func DeepcopyT6(dst *map[bool]ext.Key, src *map[bool]ext.Key) {
	deriveDeepCopyT6(dst, src)
}

func CloneT7(a []ext2.E1) []ext2.E1 {
	return deriveCloneT7(a)
}

func DeepcopyT7(dst []ext2.E1, src []ext2.E1) {
	deriveDeepCopyT7(dst, src)
}

func CloneT8(a *int16) *int16 {
	return deriveCloneT8(a)
}

func DeepcopyT8(dst *int16, src *int16) {
	deriveDeepCopyT8(dst, src)
}

func CloneT9(a []MyStr) []MyStr {
	return deriveCloneT9(a)
}

func DeepcopyT9(dst []MyStr, src []MyStr) {
	deriveDeepCopyT9(dst, src)
}

func CloneT10(a []uint16) []uint16 {
	return deriveCloneT10(a)
}

func DeepcopyT10(dst []uint16, src []uint16) {
	deriveDeepCopyT10(dst, src)
}

func CloneT11(a map[MyStr]K1) map[MyStr]K1 {
	return deriveCloneT11(a)
}

func DeepcopyT11(dst map[MyStr]K1, src map[MyStr]K1) {
	deriveDeepCopyT11(dst, src)
}

func CloneT12(a *int) *int {
	return deriveCloneT12(a)
}

func DeepcopyT12(dst *int, src *int) {
	deriveDeepCopyT12(dst, src)
}

func CloneT13(a []uint8) []uint8 {
	return deriveCloneT13(a)
}

func DeepcopyT13(dst []uint8, src []uint8) {
	deriveDeepCopyT13(dst, src)
}
