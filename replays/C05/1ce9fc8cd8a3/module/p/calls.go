package p

import (
	ext "subj/ext1"
	other "subj/x/other"
)

var Anchor = 0

func CloneT0(a *ext.E0) *ext.E0 {
	return deriveCloneT0(a)
}

func DeepcopyT0(dst *ext.E0, src *ext.E0) {
	deriveDeepCopyT0(dst, src)
}

func CloneT1(a *R) *R {
	return deriveCloneT1(a)
}

func DeepcopyT1(dst *R, src *R) {
	deriveDeepCopyT1(dst, src)
}

func CloneT2(a *other.O0) *other.O0 {
	return deriveCloneT2(a)
}

func DeepcopyT2(dst *other.O0, src *other.O0) {
	deriveDeepCopyT2(dst, src)
}

func CloneT3(a *int) *int {
	return deriveCloneT3(a)
}

func DeepcopyT3(dst *int, src *int) {
	deriveDeepCopyT3(dst, src)
}

func CloneT4(a []int) []int {
	return deriveCloneT4(a)
}

func DeepcopyT4(dst []int, src []int) {
	deriveDeepCopyT4(dst, src)
}

func CloneT5(a *[2]int) *[2]int {
	return deriveCloneT5(a)
}

func DeepcopyT5(dst *[2]int, src *[2]int) {
	deriveDeepCopyT5(dst, src)
}

func CloneT6(a map[string]int) map[string]int {
	return deriveCloneT6(a)
}

func DeepcopyT6(dst map[string]int, src map[string]int) {
	deriveDeepCopyT6(dst, src)
}

func CloneT7(a map[K0]int) map[K0]int {
	return deriveCloneT7(a)
}

func DeepcopyT7(dst map[K0]int, src map[K0]int) {
	deriveDeepCopyT7(dst, src)
}

func CloneT8(a *string) *string {
	return deriveCloneT8(a)
}

func DeepcopyT8(dst *string, src *string) {
	deriveDeepCopyT8(dst, src)
}

func CloneT9(a []string) []string {
	return deriveCloneT9(a)
}

func DeepcopyT9(dst []string, src []string) {
	deriveDeepCopyT9(dst, src)
}

func CloneT10(a *[2]string) *[2]string {
	return deriveCloneT10(a)
}

func DeepcopyT10(dst *[2]string, src *[2]string) {
	deriveDeepCopyT10(dst, src)
}

func CloneT11(a map[string]string) map[string]string {
	return deriveCloneT11(a)
}

func DeepcopyT11(dst map[string]string, src map[string]string) {
	deriveDeepCopyT11(dst, src)
}

func CloneT12(a map[K0]string) map[K0]string {
	return deriveCloneT12(a)
}

func DeepcopyT12(dst map[K0]string, src map[K0]string) {
	deriveDeepCopyT12(dst, src)
}

func CloneT13(a *float64) *float64 {
	return deriveCloneT13(a)
}

func DeepcopyT13(dst *float64, src *float64) {
	deriveDeepCopyT13(dst, src)
}
