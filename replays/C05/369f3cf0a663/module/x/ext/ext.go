package ext

type Num int

type Key struct {
	K0 Num
	k1 string
	k2 int32
}

type E0 struct {
}

type E1 struct {
	F0 rune
}
