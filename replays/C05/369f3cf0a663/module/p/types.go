package p

import (
	ext2 "subj/x/ext"
)

type MyStr string

type MyU8 uint8

type MyF32 float32

type MyInt int

type N0 []string

type K0 struct {
	f0 bool
	F1 int
}

type K1 struct {
	F0 ext2.Num
}

type S0 struct {
	F0 [2]K0
}

type S1 struct {
}

type S2 struct {
	F0 N0
}

type S3 struct {
	F0 map[MyU8]S3
	F1 N0
	F2 ext2.Num
	F3 *[0]N0
	F4 []S1
}

type S4 struct {
	f0 map[uintptr]ext2.Num
	F1 map[MyInt]*map[MyU8]MyStr
}
