package p

import (
	ext "subj/ext1"
	ext2 "subj/x/ext"
)

var Anchor = 0

func CloneT0(a *K0) *K0 {
	return deriveCloneT0(a)
}

func DeepcopyT0(dst *K0, src *K0) {
	deriveDeepCopyT0(dst, src)
}

func CloneT1(a map[int8]*K1) map[int8]*K1 {
	return deriveCloneT1(a)
}

func DeepcopyT1(dst map[int8]*K1, src map[int8]*K1) {
	deriveDeepCopyT1(dst, src)
}

func CloneT2(a []int) []int {
	return deriveCloneT2(a)
}

func DeepcopyT2(dst []int, src []int) {
	deriveDeepCopyT2(dst, src)
}

func CloneT3(a map[ext.Num]complex64) map[ext.Num]complex64 {
	return deriveCloneT3(a)
}

func DeepcopyT3(dst map[ext.Num]complex64, src map[ext.Num]complex64) {
	deriveDeepCopyT3(dst, src)
}

func CloneT4(a *S3) *S3 {
	return deriveCloneT4(a)
}

func DeepcopyT4(dst *S3, src *S3) {
	deriveDeepCopyT4(dst, src)
}

func CloneT5(a **S4) **S4 {
	return deriveCloneT5(a)
}

func DeepcopyT5(dst **S4, src **S4) {
	deriveDeepCopyT5(dst, src)
}

func CloneT6(a complex64) complex64 {
	return deriveCloneT6(a)
}

func CloneT7(a *N0) *N0 {
	return deriveCloneT7(a)
}

func DeepcopyT7(dst *N0, src *N0) {
	deriveDeepCopyT7(dst, src)
}

func CloneT8(a map[MyInt]S4) map[MyInt]S4 {
	return deriveCloneT8(a)
}

func DeepcopyT8(dst map[MyInt]S4, src map[MyInt]S4) {
	deriveDeepCopyT8(dst, src)
}

func CloneT9(a *complex64) *complex64 {
	return deriveCloneT9(a)
}

func DeepcopyT9(dst *complex64, src *complex64) {
	deriveDeepCopyT9(dst, src)
}

func CloneT10(a []*[]byte) []*[]byte {
	return deriveCloneT10(a)
}

func DeepcopyT10(dst []*[]byte, src []*[]byte) {
	deriveDeepCopyT10(dst, src)
}

func CloneT11(a uint) uint {
	return deriveCloneT11(a)
}

func CloneT12(a map[ext2.Key]int16) map[ext2.Key]int16 {
	return deriveCloneT12(a)
}

func DeepcopyT12(dst map[ext2.Key]int16, src map[ext2.Key]int16) {
	deriveDeepCopyT12(dst, src)
}

func CloneT13(a map[bool]int64) map[bool]int64 {
	return deriveCloneT13(a)
}

func DeepcopyT13(dst map[bool]int64, src map[bool]int64) {
	deriveDeepCopyT13(dst, src)
}
