package ext

type Num string

type Key struct {
	K0 int
	K1 rune
}

type E0 struct {
	F0 int
	f1 *[1]int
	f2 uint32
}

type E1 struct {
	f0 *E1
	f1 bool
}
