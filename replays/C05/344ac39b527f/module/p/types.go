package p

import (
	other "subj/x/other"
)

type MyInt int

type K0 struct {
	F0 MyInt
	F1 complex128
}

type K1 struct {
	F0 other.Key
}

type S0 struct {
}
