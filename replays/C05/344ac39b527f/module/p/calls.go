package p

import (
	ext "subj/ext1"
	other "subj/x/other"
)

var Anchor = 0

func CloneT0(a *other.Num) *other.Num {
	return deriveCloneT0(a)
}

func DeepcopyT0(dst *other.Num, src *other.Num) {
	deriveDeepCopyT0(dst, src)
}

func CloneT1(a *int8) *int8 {
	return deriveCloneT1(a)
}

func DeepcopyT1(dst *int8, src *int8) {
	deriveDeepCopyT1(dst, src)
}

func CloneT2(a *S0) *S0 {
	return deriveCloneT2(a)
}

func DeepcopyT2(dst *S0, src *S0) {
	deriveDeepCopyT2(dst, src)
}

func CloneT3(a *K0) *K0 {
	return deriveCloneT3(a)
}

func DeepcopyT3(dst *K0, src *K0) {
	deriveDeepCopyT3(dst, src)
}

func CloneT4(a string) string {
	return deriveCloneT4(a)
}

func CloneT5(a map[[0]int32]int8) map[[0]int32]int8 {
	return deriveCloneT5(a)
}

func DeepcopyT5(dst map[[0]int32]int8, src map[[0]int32]int8) {
	deriveDeepCopyT5(dst, src)
}

func CloneT6(a *[2][]S0) *[2][]S0 {
	return deriveCloneT6(a)
}

func DeepcopyT6(dst *[2][]S0, src *[2][]S0) {
	deriveDeepCopyT6(dst, src)
}

func CloneT7(a bool) bool {
	return deriveCloneT7(a)
}

func CloneT8(a **K0) **K0 {
	return deriveCloneT8(a)
}

func DeepcopyT8(dst **K0, src **K0) {
	deriveDeepCopyT8(dst, src)
}

func CloneT9(a *uint16) *uint16 {
	return deriveCloneT9(a)
}

func DeepcopyT9(dst *uint16, src *uint16) {
	deriveDeepCopyT9(dst, src)
}

func CloneT10(a []map[rune][]byte) []map[rune][]byte {
	return deriveCloneT10(a)
}

func DeepcopyT10(dst []map[rune][]byte, src []map[rune][]byte) {
	deriveDeepCopyT10(dst, src)
}

func CloneT11(a *string) *string {
	return deriveCloneT11(a)
}

func DeepcopyT11(dst *string, src *string) {
	deriveDeepCopyT11(dst, src)
}

func CloneT12(a *ext.Key) *ext.Key {
	return deriveCloneT12(a)
}

func DeepcopyT12(dst *ext.Key, src *ext.Key) {
	deriveDeepCopyT12(dst, src)
}

func CloneT13(a *uint32) *uint32 {
	return deriveCloneT13(a)
}

func DeepcopyT13(dst *uint32, src *uint32) {
	deriveDeepCopyT13(dst, src)
}
