package h

import (
	"reflect"

	ext "subj/ext1"
	p "subj/p"
	other "subj/x/other"
)

var _ = p.Anchor

var Registry = []Entry{
	{ID: "T0", Type: reflect.TypeOf((**other.Num)(nil)).Elem(), TypeStr: "*other.Num",
		Funcs: map[string]any{"clone": p.CloneT0, "deepcopy": p.DeepcopyT0},
		Tags:  map[string]string{"f:ext": "1", "f:namedbasic": "1", "f:ptr": "1", "f:string": "1"},
	},
	{ID: "T1", Type: reflect.TypeOf((**int8)(nil)).Elem(), TypeStr: "*int8",
		Funcs: map[string]any{"clone": p.CloneT1, "deepcopy": p.DeepcopyT1},
		Tags:  map[string]string{"f:ptr": "1"},
	},
	{ID: "T2", Type: reflect.TypeOf((**p.S0)(nil)).Elem(), TypeStr: "*p.S0",
		Funcs: map[string]any{"clone": p.CloneT2, "deepcopy": p.DeepcopyT2},
		Tags:  map[string]string{"f:emptystruct": "1", "f:ptr": "1", "f:struct": "1"},
	},
	{ID: "T3", Type: reflect.TypeOf((**p.K0)(nil)).Elem(), TypeStr: "*p.K0",
		Funcs: map[string]any{"clone": p.CloneT3, "deepcopy": p.DeepcopyT3},
		Tags:  map[string]string{"f:complex": "1", "f:namedbasic": "1", "f:ptr": "1", "f:struct": "1"},
	},
	{ID: "T4", Type: reflect.TypeOf((*string)(nil)).Elem(), TypeStr: "string",
		Funcs: map[string]any{"clone": p.CloneT4},
		Tags:  map[string]string{"basic-ordered": "1", "comparable": "1", "f:string": "1"},
	},
	{ID: "T5", Type: reflect.TypeOf((*map[[0]int32]int8)(nil)).Elem(), TypeStr: "map[[0]int32]int8",
		Funcs: map[string]any{"clone": p.CloneT5, "deepcopy": p.DeepcopyT5},
		Tags:  map[string]string{"f:array": "1", "f:array0": "1", "f:arraykey": "1", "f:map": "1"},
	},
	{ID: "T6", Type: reflect.TypeOf((**[2][]p.S0)(nil)).Elem(), TypeStr: "*[2][]p.S0",
		Funcs: map[string]any{"clone": p.CloneT6, "deepcopy": p.DeepcopyT6},
		Tags:  map[string]string{"f:array": "1", "f:emptystruct": "1", "f:ptr": "1", "f:slice": "1", "f:struct": "1"},
	},
	{ID: "T7", Type: reflect.TypeOf((*bool)(nil)).Elem(), TypeStr: "bool",
		Funcs: map[string]any{"clone": p.CloneT7},
		Tags:  map[string]string{"comparable": "1"},
	},
	{ID: "T8", Type: reflect.TypeOf((***p.K0)(nil)).Elem(), TypeStr: "**p.K0",
		Funcs: map[string]any{"clone": p.CloneT8, "deepcopy": p.DeepcopyT8},
		Tags:  map[string]string{"f:complex": "1", "f:namedbasic": "1", "f:ptr": "1", "f:struct": "1"},
	},
	{ID: "T9", Type: reflect.TypeOf((**uint16)(nil)).Elem(), TypeStr: "*uint16",
		Funcs: map[string]any{"clone": p.CloneT9, "deepcopy": p.DeepcopyT9},
		Tags:  map[string]string{"f:ptr": "1"},
	},
	{ID: "T10", Type: reflect.TypeOf((*[]map[rune][]byte)(nil)).Elem(), TypeStr: "[]map[rune][]byte",
		Funcs: map[string]any{"clone": p.CloneT10, "deepcopy": p.DeepcopyT10},
		Tags:  map[string]string{"f:bytes": "1", "f:map": "1", "f:slice": "1"},
	},
	{ID: "T11", Type: reflect.TypeOf((**string)(nil)).Elem(), TypeStr: "*string",
		Funcs: map[string]any{"clone": p.CloneT11, "deepcopy": p.DeepcopyT11},
		Tags:  map[string]string{"f:ptr": "1", "f:string": "1"},
	},
	{ID: "T12", Type: reflect.TypeOf((**ext.Key)(nil)).Elem(), TypeStr: "*ext.Key",
		Funcs: map[string]any{"clone": p.CloneT12, "deepcopy": p.DeepcopyT12},
		Tags:  map[string]string{"f:ext": "1", "f:ptr": "1", "f:struct": "1"},
	},
	{ID: "T13", Type: reflect.TypeOf((**uint32)(nil)).Elem(), TypeStr: "*uint32",
		Funcs: map[string]any{"clone": p.CloneT13, "deepcopy": p.DeepcopyT13},
		Tags:  map[string]string{"f:ptr": "1"},
	},
}
