package ext

type Num int64

type Key struct {
	K0 int64
}

type E0 struct {
}
