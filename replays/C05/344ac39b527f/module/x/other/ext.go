package other

type Num string

type Key struct {
	K0 Num
	k1 Num
	k2 uint8
}

type E0 struct {
}
