package p

import (
	ext "subj/ext1"
	other "subj/x/other"
)

func WgostringE30(a *byte) string {
	return deriveGoStringE30(a)
}

func WgostringE31(a []byte) string {
	return deriveGoStringE31(a)
}

func WgostringE32(a [2]byte) string {
	return deriveGoStringE32(a)
}

func WgostringE33(a map[string]byte) string {
	return deriveGoStringE33(a)
}

func WgostringE34(a map[K0]byte) string {
	return deriveGoStringE34(a)
}

func WgostringE35(a *MyInt) string {
	return deriveGoStringE35(a)
}

func WgostringE36(a []MyInt) string {
	return deriveGoStringE36(a)
}

func WgostringE37(a [2]MyInt) string {
	return deriveGoStringE37(a)
}

func WgostringE38(a map[string]MyInt) string {
	return deriveGoStringE38(a)
}

func WgostringE39(a map[K0]MyInt) string {
	return deriveGoStringE39(a)
}

func WgostringE40(a *S0) string {
	return deriveGoStringE40(a)
}

func WgostringE41(a []S0) string {
	return deriveGoStringE41(a)
}

func WgostringE42(a [2]S0) string {
	return deriveGoStringE42(a)
}

func WgostringE43(a map[string]S0) string {
	return deriveGoStringE43(a)
}

func WgostringE44(a map[K0]S0) string {
	return deriveGoStringE44(a)
}

func WgostringE50(a *R) string {
	return deriveGoStringE50(a)
}

func WgostringE51(a []R) string {
	return deriveGoStringE51(a)
}

func WgostringE52(a [2]R) string {
	return deriveGoStringE52(a)
}

func WgostringE53(a map[string]R) string {
	return deriveGoStringE53(a)
}

func WgostringE54(a map[K0]R) string {
	return deriveGoStringE54(a)
}

func WgostringE55(a *other.O0) string {
	return deriveGoStringE55(a)
}

func WgostringE56(a []other.O0) string {
	return deriveGoStringE56(a)
}

func WgostringE57(a [2]other.O0) string {
	return deriveGoStringE57(a)
}

func WgostringE58(a map[string]other.O0) string {
	return deriveGoStringE58(a)
}

func WgostringE59(a map[K0]other.O0) string {
	return deriveGoStringE59(a)
}
