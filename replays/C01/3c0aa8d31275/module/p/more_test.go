package p

func NestedT1(m map[bool]bool) []bool {
	return deriveSortNT1(deriveKeysNT1(m))
}

func NestedT4(a, b int) bool {
	return deriveEqualNT4(deriveCloneNT4(a), b)
}
