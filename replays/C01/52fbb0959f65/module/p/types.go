package p

type MyInt int

type N0 map[int]bool

type K0 struct {
	F0 int32
}

type K1 struct {
}

type S0 struct {
}
