package p

func NestedT0(a, b int8) bool {
	return deriveEqualNT0(deriveCloneNT0(a), b)
}
