package p

func WT1(a bool, b bool) bool {
	return deriveEqualCT1(a)(b)
}

func NestedT3(m map[bool]int) []bool {
	return deriveSortNT3(deriveKeysNT3(m))
}

func WT5(a int, b int) bool {
	return deriveEqualT5(a, b)
}
