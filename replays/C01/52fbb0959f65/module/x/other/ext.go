package other

type Num int

type Key struct {
	K0 bool
	K1 int
}

type E0 struct {
}

type E1 struct {
	f0 bool
}
