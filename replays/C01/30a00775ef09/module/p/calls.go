package p

var WT0 = func(a int32, b int32) bool {
	return deriveEqualCT0(a)(b)
}

func WT1(l []uint64, x uint64) bool {
	return deriveContainsT1(l, x)
}

func WT2(a bool, b bool) int {
	return deriveCompareCT2(a)(b)
}

func NestedT3(l []int, x int) bool {
	return deriveContainsNT3(deriveSortNT3(l), x)
}
