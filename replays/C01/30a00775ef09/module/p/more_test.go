package p

func WT4(pred func(int) bool, l []int) bool {
	return deriveAnyT4(pred, l)
}

func NestedT5(a, b bool) bool {
	return deriveEqualNT5(deriveCloneNT5(a), b)
}
