package other

type Num int

type Key struct {
	K0 int
	k1 Num
}

type E0 struct {
	f0 bool
}

type E1 struct {
}
