package p

func NestedT0(m map[bool]bool) []bool {
	return deriveSortNT0(deriveKeysNT0(m))
}

func NestedT5(a, b bool) bool {
	return deriveEqualNT5(deriveCloneNT5(a), b)
}
