package p

func WT4(a int, b int) bool {
	return deriveEqualCT4(a)(b)
}
