package p

func NestedT0(m map[bool]bool) []bool {
	return deriveSortNT0(deriveKeysNT0(m))
}

func NestedT1(a, b bool) bool {
	return deriveEqualNT1(deriveCloneNT1(a), b)
}

func NestedT3(a, b int) bool {
	return deriveEqualNT3(deriveCloneNT3(a), b)
}
