package p

func NestedT1(m map[bool]bool) []bool {
	return deriveSortNT1(deriveKeysNT1(m))
}

func WT4(a int, b int) bool {
	return deriveEqualCT4(a)(b)
}
