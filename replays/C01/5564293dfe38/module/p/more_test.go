package p

func NestedT0(a, b int) bool {
	return deriveEqualNT0(deriveCloneNT0(a), b)
}

func NestedT2(a, b bool) bool {
	return deriveEqualNT2(deriveCloneNT2(a), b)
}
