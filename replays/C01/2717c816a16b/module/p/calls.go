package p

import (
	ext "subj/ext1"
)

func WgostringE210(a **S0) string {
	return deriveGoStringE210(a)
}

func WgostringE211(a []*S0) string {
	return deriveGoStringE211(a)
}

func WgostringE212(a [2]*S0) string {
	return deriveGoStringE212(a)
}

func WgostringE213(a map[string]*S0) string {
	return deriveGoStringE213(a)
}

func WgostringE214(a map[K0]*S0) string {
	return deriveGoStringE214(a)
}

func WgostringE215(a *[]S0) string {
	return deriveGoStringE215(a)
}

func WgostringE216(a [][]S0) string {
	return deriveGoStringE216(a)
}

func WgostringE217(a [2][]S0) string {
	return deriveGoStringE217(a)
}

func WgostringE218(a map[string][]S0) string {
	return deriveGoStringE218(a)
}

func WgostringE219(a map[K0][]S0) string {
	return deriveGoStringE219(a)
}

func WgostringE220(a *[2]S0) string {
	return deriveGoStringE220(a)
}

func WgostringE221(a [][2]S0) string {
	return deriveGoStringE221(a)
}

func WgostringE222(a [2][2]S0) string {
	return deriveGoStringE222(a)
}

func WgostringE223(a map[string][2]S0) string {
	return deriveGoStringE223(a)
}

func WgostringE224(a map[K0][2]S0) string {
	return deriveGoStringE224(a)
}

func WgostringE225(a *map[string]S0) string {
	return deriveGoStringE225(a)
}

func WgostringE226(a []map[string]S0) string {
	return deriveGoStringE226(a)
}

func WgostringE227(a [2]map[string]S0) string {
	return deriveGoStringE227(a)
}

func WgostringE228(a map[string]map[string]S0) string {
	return deriveGoStringE228(a)
}

func WgostringE229(a map[K0]map[string]S0) string {
	return deriveGoStringE229(a)
}

func WgostringE230(a *map[K0]S0) string {
	return deriveGoStringE230(a)
}

func WgostringE231(a []map[K0]S0) string {
	return deriveGoStringE231(a)
}

func WgostringE232(a [2]map[K0]S0) string {
	return deriveGoStringE232(a)
}

func WgostringE233(a map[string]map[K0]S0) string {
	return deriveGoStringE233(a)
}

func WgostringE234(a map[K0]map[K0]S0) string {
	return deriveGoStringE234(a)
}
