package p

import (
	other "subj/x/other"
)

func WdeepcopyE270(dst *[2]R, src *[2]R) {
	deriveDeepCopyE270(dst, src)
}

func WdeepcopyE271(dst [][2]R, src [][2]R) {
	deriveDeepCopyE271(dst, src)
}

func WdeepcopyE273(dst map[string][2]R, src map[string][2]R) {
	deriveDeepCopyE273(dst, src)
}

func WdeepcopyE274(dst map[K0][2]R, src map[K0][2]R) {
	deriveDeepCopyE274(dst, src)
}

func WdeepcopyE275(dst *map[string]R, src *map[string]R) {
	deriveDeepCopyE275(dst, src)
}

func WdeepcopyE276(dst []map[string]R, src []map[string]R) {
	deriveDeepCopyE276(dst, src)
}

func WdeepcopyE278(dst map[string]map[string]R, src map[string]map[string]R) {
	deriveDeepCopyE278(dst, src)
}

func WdeepcopyE279(dst map[K0]map[string]R, src map[K0]map[string]R) {
	deriveDeepCopyE279(dst, src)
}

func WdeepcopyE280(dst *map[K0]R, src *map[K0]R) {
	deriveDeepCopyE280(dst, src)
}

func WdeepcopyE281(dst []map[K0]R, src []map[K0]R) {
	deriveDeepCopyE281(dst, src)
}

func WdeepcopyE283(dst map[string]map[K0]R, src map[string]map[K0]R) {
	deriveDeepCopyE283(dst, src)
}

func WdeepcopyE284(dst map[K0]map[K0]R, src map[K0]map[K0]R) {
	deriveDeepCopyE284(dst, src)
}

func WdeepcopyE285(dst **other.O0, src **other.O0) {
	deriveDeepCopyE285(dst, src)
}

func WdeepcopyE286(dst []*other.O0, src []*other.O0) {
	deriveDeepCopyE286(dst, src)
}

func WdeepcopyE288(dst map[string]*other.O0, src map[string]*other.O0) {
	deriveDeepCopyE288(dst, src)
}

func WdeepcopyE289(dst map[K0]*other.O0, src map[K0]*other.O0) {
	deriveDeepCopyE289(dst, src)
}

func WdeepcopyE290(dst *[]other.O0, src *[]other.O0) {
	deriveDeepCopyE290(dst, src)
}

func WdeepcopyE291(dst [][]other.O0, src [][]other.O0) {
	deriveDeepCopyE291(dst, src)
}

func WdeepcopyE293(dst map[string][]other.O0, src map[string][]other.O0) {
	deriveDeepCopyE293(dst, src)
}

func WdeepcopyE294(dst map[K0][]other.O0, src map[K0][]other.O0) {
	deriveDeepCopyE294(dst, src)
}

func WdeepcopyE295(dst *[2]other.O0, src *[2]other.O0) {
	deriveDeepCopyE295(dst, src)
}

func WdeepcopyE296(dst [][2]other.O0, src [][2]other.O0) {
	deriveDeepCopyE296(dst, src)
}

func WdeepcopyE298(dst map[string][2]other.O0, src map[string][2]other.O0) {
	deriveDeepCopyE298(dst, src)
}

func WdeepcopyE299(dst map[K0][2]other.O0, src map[K0][2]other.O0) {
	deriveDeepCopyE299(dst, src)
}
