package p

func WT2(a bool, b bool) bool {
	return deriveEqualCT2(a)(b)
}
