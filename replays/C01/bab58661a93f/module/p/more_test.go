package p

func NestedT0(a, b bool) bool {
	return deriveEqualNT0(deriveCloneNT0(a), b)
}

func NestedT3(m map[bool]int) []bool {
	return deriveSortNT3(deriveKeysNT3(m))
}

func WT4(a int, b int) bool {
	return deriveEqualT4(a, b)
}
