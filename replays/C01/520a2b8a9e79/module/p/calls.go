package p

func WT0(a int, b int) bool {
	return deriveEqualT0(a, b)
}

func WT5(a bool, b bool) bool {
	return deriveEqualCT5(a)(b)
}
