package p

func NestedT2(a, b bool) bool {
	return deriveEqualNT2(deriveCloneNT2(a), b)
}
