package p

func NestedT0(m map[bool]bool) []bool {
	return deriveSortNT0(deriveKeysNT0(m))
}
