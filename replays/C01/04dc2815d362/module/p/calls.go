package p

func WT3(a bool, b bool) bool {
	return deriveEqualT3(a, b)
}
