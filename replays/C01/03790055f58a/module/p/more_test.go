package p

func NestedT4(m map[bool]bool) []bool {
	return deriveSortNT4(deriveKeysNT4(m))
}
