package p

type MyInt int

type N0 []bool

type K0 struct {
}

type S0 struct {
}
