package p

func WT0(a bool, b bool) bool {
	return deriveEqualT0(a, b)
}
