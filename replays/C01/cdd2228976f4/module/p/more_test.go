package p

func NestedT0(a, b bool) bool {
	return deriveEqualNT0(deriveCloneNT0(a), b)
}
