package p

func WT4(a int, b int) bool {
	return deriveEqualT4(a, b)
}
