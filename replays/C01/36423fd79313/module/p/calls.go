package p

import (
	other "subj/x/other"
)

func WcloneE270(a *[2]R) *[2]R {
	return deriveCloneE270(a)
}

func WcloneE271(a [][2]R) [][2]R {
	return deriveCloneE271(a)
}

func WcloneE272(a [2][2]R) [2][2]R {
	return deriveCloneE272(a)
}

func WcloneE273(a map[string][2]R) map[string][2]R {
	return deriveCloneE273(a)
}

func WcloneE274(a map[K0][2]R) map[K0][2]R {
	return deriveCloneE274(a)
}

func WcloneE275(a *map[string]R) *map[string]R {
	return deriveCloneE275(a)
}

func WcloneE276(a []map[string]R) []map[string]R {
	return deriveCloneE276(a)
}

func WcloneE277(a [2]map[string]R) [2]map[string]R {
	return deriveCloneE277(a)
}

func WcloneE278(a map[string]map[string]R) map[string]map[string]R {
	return deriveCloneE278(a)
}

func WcloneE279(a map[K0]map[string]R) map[K0]map[string]R {
	return deriveCloneE279(a)
}

func WcloneE280(a *map[K0]R) *map[K0]R {
	return deriveCloneE280(a)
}

func WcloneE281(a []map[K0]R) []map[K0]R {
	return deriveCloneE281(a)
}

func WcloneE282(a [2]map[K0]R) [2]map[K0]R {
	return deriveCloneE282(a)
}

func WcloneE283(a map[string]map[K0]R) map[string]map[K0]R {
	return deriveCloneE283(a)
}

func WcloneE284(a map[K0]map[K0]R) map[K0]map[K0]R {
	return deriveCloneE284(a)
}

func WcloneE285(a **other.O0) **other.O0 {
	return deriveCloneE285(a)
}

func WcloneE286(a []*other.O0) []*other.O0 {
	return deriveCloneE286(a)
}

func WcloneE287(a [2]*other.O0) [2]*other.O0 {
	return deriveCloneE287(a)
}

func WcloneE288(a map[string]*other.O0) map[string]*other.O0 {
	return deriveCloneE288(a)
}

func WcloneE289(a map[K0]*other.O0) map[K0]*other.O0 {
	return deriveCloneE289(a)
}

func WcloneE290(a *[]other.O0) *[]other.O0 {
	return deriveCloneE290(a)
}

func WcloneE291(a [][]other.O0) [][]other.O0 {
	return deriveCloneE291(a)
}

func WcloneE292(a [2][]other.O0) [2][]other.O0 {
	return deriveCloneE292(a)
}

func WcloneE293(a map[string][]other.O0) map[string][]other.O0 {
	return deriveCloneE293(a)
}

func WcloneE294(a map[K0][]other.O0) map[K0][]other.O0 {
	return deriveCloneE294(a)
}

func WcloneE295(a *[2]other.O0) *[2]other.O0 {
	return deriveCloneE295(a)
}

func WcloneE296(a [][2]other.O0) [][2]other.O0 {
	return deriveCloneE296(a)
}

func WcloneE297(a [2][2]other.O0) [2][2]other.O0 {
	return deriveCloneE297(a)
}

func WcloneE298(a map[string][2]other.O0) map[string][2]other.O0 {
	return deriveCloneE298(a)
}

func WcloneE299(a map[K0][2]other.O0) map[K0][2]other.O0 {
	return deriveCloneE299(a)
}
