package p

func NestedT2(a, b bool) bool {
	return deriveEqualNT2(deriveCloneNT2(a), b)
}

func WT4(a bool, b bool) bool {
	return deriveEqualCT4(a)(b)
}
