package p

type MyInt int

type N0 map[bool]bool

type K0 struct {
}

type K1 struct {
	f0 bool
}

type S0 struct {
}

type S1 struct {
}
