package p

func u() {
	deriveMaxX(*new(map[string]interface{}), *new(map[string]interface{}))
}
