package p

func u() {
	deriveMinX(*new([]map[string]func(int) string), *new(map[string]func(int) string))
}
