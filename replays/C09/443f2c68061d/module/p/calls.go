package p

func u() {
	deriveCompareX(*new(map[string]chan int), *new(map[string]chan int))
}
