package p

func u() {
	deriveSortX(*new([]map[string]interface{}))
}
