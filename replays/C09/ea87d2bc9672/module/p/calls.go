package p

func u() {
	deriveCompareX(*new(map[string]interface{}), *new(map[string]interface{}))
}
