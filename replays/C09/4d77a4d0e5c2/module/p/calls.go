package p

func u() {
	deriveCompareX(*new(map[string]func(int) string), *new(map[string]func(int) string))
}
