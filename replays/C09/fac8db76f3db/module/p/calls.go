package p

func u() {
	deriveSortX(*new([]map[string]func(int) string))
}
