package p

func u() {
	deriveMaxX(*new(map[string]chan int), *new(map[string]chan int))
}
