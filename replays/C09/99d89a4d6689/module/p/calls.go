package p

func u() {
	deriveSortX(*new([]map[string]chan int))
}
