package p

import (
	ext "subj/ext1"
)

type MyInt int

type N0 []bool

type N1 map[bool]bool

type K0 struct {
	f0 bool
	f1 bool
	f2 bool
}

type S0 struct {
	f0 map[bool]ext.Num
}
