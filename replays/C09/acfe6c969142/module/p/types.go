package p

import (
	other "subj/x/other"
)

type MyF32 float32

type MyInt int

type MyF float64

type N0 []bool

type K0 struct {
	F0 int
	f1 complex128
	F2 rune
}

type K1 struct {
	F0 uint16
	f1 K0
}

type S0 struct {
	F0 other.Num
	f1 other.E1
}
