package p

func u() {
	deriveMinX(*new([]map[string]chan int), *new(map[string]chan int))
}
