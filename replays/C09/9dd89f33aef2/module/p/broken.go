package p

func u(a map[nosuch.T]int) { deriveKeysX(a) }
