package p

func u() {
	deriveMinX(*new([]map[string]interface{}), *new(map[string]interface{}))
}
