package p

import (
	other "subj/x/other"
)

type MyBool bool

type MyC complex128

type MyRune rune

type MyStr string

type N0 []uint16

type K0 struct {
	F0 other.Num
}

type K1 struct {
}

type S0 struct {
	F0 bool
	f1 rune
	F2 float32
}
