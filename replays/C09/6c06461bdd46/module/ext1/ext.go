package ext

type Num int

type Key struct {
	K0 bool
	K1 Num
}

type E0 struct {
}

type E1 struct {
	F0 Num
	F1 Num
	F2 map[Key]bool
	F3 bool
}
