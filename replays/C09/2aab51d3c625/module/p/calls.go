package p

func u() {
	deriveMaxX(*new(map[string]func(int) string), *new(map[string]func(int) string))
}
