package p

func u(a map[NoSuch]string) { deriveKeysX(a) }
