package p

type MyInt int

type N0 []bool

type K0 struct {
	f0 bool
	f1 bool
}

type K1 struct {
	f0 bool
}

type S0 struct {
	f0 [][]S0
	f1 map[bool]bool
}

type S1 struct {
}
