package p

func u(a, b map[NoSuch][]string) { deriveEqualX(a, b) }
