package p

import (
	ext "subj/ext1"
	ext2 "subj/x/ext"
)

var Anchor = 0

func MemT0(f func(a ext2.Num)) any {
	return deriveMemT0(f)
}

func MemT1(f func(a N0)) any {
	return deriveMemT1(f)
}

func MemT2(f func(int64)) any {
	return deriveMemT2(f)
}

func MemT3(f func(a ext2.E0) uint16) any {
	return deriveMemT3(f)
}

func MemT4(f func(map[ext2.Num][]byte, complex64, uint)) any {
	return deriveMemT4(f)
}

func MemT5(f func()) any {
	return deriveMemT5(f)
}

func MemT6(f func(a float64, b MyInt) int8) any {
	return deriveMemT6(f)
}

func MemT7(f func(a []int, b MyInt, c S0)) any {
	return deriveMemT7(f)
}

func MemT8(f func(a ext.E0, b N0)) any {
	return deriveMemT8(f)
}

func MemT9(f func(a ext2.Key)) any {
	return deriveMemT9(f)
}

func MemT10(f func(a *[]S1) (N0, ext2.Key)) any {
	return deriveMemT10(f)
}

func MemT11(f func(N0, ext.Num, *map[int]ext2.E0) (N0, interface{}, ext2.Num)) any {
	return deriveMemT11(f)
}

func MemT12(f func(int) ([]*int8, []S0)) any {
	return deriveMemT12(f)
}

func MemT13(f func() (*map[ext2.Key]uintptr, MyInt)) any {
	return deriveMemT13(f)
}
