package p

import (
	ext "subj/ext1"
	ext2 "subj/x/ext"
)

type MyInt int

type N0 [3]uint8

type K0 struct {
}

type K1 struct {
	f0 [1]ext2.Num
}

type S0 struct {
	f0 map[int8]S0
	*K0
	F2 [1]ext2.E0
	K1
	F4 map[K0]S1
	f5 *ext2.Key
}

type S1 struct {
	F0 K0
	F1 ext.Num
	f2 map[int]int
	F3 K0
	f4 map[ext2.Num]complex64
	f5 ext.Key
}
