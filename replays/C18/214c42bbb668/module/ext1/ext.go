package ext

type Num int64

type Key struct {
	k0 int8
}

type E0 struct {
	f0 Num
}
