package ext

type Num float64

type Key struct {
	K0 int
}

type E0 struct {
}
