package h

import (
	"reflect"

	ext "subj/ext1"
	p "subj/p"
	ext2 "subj/x/ext"
)

var _ = p.Anchor

var Registry = []Entry{
	{ID: "T0", Type: reflect.TypeOf((*func(a ext2.Num))(nil)).Elem(), TypeStr: "func(a ext2.Num)",
		Funcs: map[string]any{"mem": p.MemT0},
		Tags:  map[string]string{"comparable-args": "1", "mode": "named", "names": "a", "nparams": "1", "nresults": "0"},
	},
	{ID: "T1", Type: reflect.TypeOf((*func(a p.N0))(nil)).Elem(), TypeStr: "func(a p.N0)",
		Funcs: map[string]any{"mem": p.MemT1},
		Tags:  map[string]string{"comparable-args": "1", "mode": "named", "names": "a", "nparams": "1", "nresults": "0"},
	},
	{ID: "T2", Type: reflect.TypeOf((*func(int64))(nil)).Elem(), TypeStr: "func(int64)",
		Funcs: map[string]any{"mem": p.MemT2},
		Tags:  map[string]string{"comparable-args": "1", "mode": "unnamed", "names": "", "nparams": "1", "nresults": "0"},
	},
	{ID: "T3", Type: reflect.TypeOf((*func(a ext2.E0) uint16)(nil)).Elem(), TypeStr: "func(a ext2.E0) uint16",
		Funcs: map[string]any{"mem": p.MemT3},
		Tags:  map[string]string{"comparable-args": "1", "mode": "named", "names": "a", "nparams": "1", "nresults": "1"},
	},
	{ID: "T4", Type: reflect.TypeOf((*func(map[ext2.Num][]byte, complex64, uint))(nil)).Elem(), TypeStr: "func(map[ext2.Num][]byte, complex64, uint)",
		Funcs: map[string]any{"mem": p.MemT4},
		Tags:  map[string]string{"comparable-args": "0", "mode": "unnamed", "names": ",,", "nparams": "3", "nresults": "0"},
	},
	{ID: "T5", Type: reflect.TypeOf((*func())(nil)).Elem(), TypeStr: "func()",
		Funcs: map[string]any{"mem": p.MemT5},
		Tags:  map[string]string{"comparable-args": "1", "mode": "named", "names": "", "nparams": "0", "nresults": "0"},
	},
	{ID: "T6", Type: reflect.TypeOf((*func(a float64, b p.MyInt) int8)(nil)).Elem(), TypeStr: "func(a float64, b p.MyInt) int8",
		Funcs: map[string]any{"mem": p.MemT6},
		Tags:  map[string]string{"comparable-args": "1", "mode": "named", "names": "a,b", "nparams": "2", "nresults": "1"},
	},
	{ID: "T7", Type: reflect.TypeOf((*func(a []int, b p.MyInt, c p.S0))(nil)).Elem(), TypeStr: "func(a []int, b p.MyInt, c p.S0)",
		Funcs: map[string]any{"mem": p.MemT7},
		Tags:  map[string]string{"comparable-args": "0", "mode": "named", "names": "a,b,c", "nparams": "3", "nresults": "0"},
	},
	{ID: "T8", Type: reflect.TypeOf((*func(a ext.E0, b p.N0))(nil)).Elem(), TypeStr: "func(a ext.E0, b p.N0)",
		Funcs: map[string]any{"mem": p.MemT8},
		Tags:  map[string]string{"comparable-args": "1", "mode": "named", "names": "a,b", "nparams": "2", "nresults": "0"},
	},
	{ID: "T9", Type: reflect.TypeOf((*func(a ext2.Key))(nil)).Elem(), TypeStr: "func(a ext2.Key)",
		Funcs: map[string]any{"mem": p.MemT9},
		Tags:  map[string]string{"comparable-args": "1", "mode": "named", "names": "a", "nparams": "1", "nresults": "0"},
	},
	{ID: "T10", Type: reflect.TypeOf((*func(a *[]p.S1) (p.N0, ext2.Key))(nil)).Elem(), TypeStr: "func(a *[]p.S1) (p.N0, ext2.Key)",
		Funcs: map[string]any{"mem": p.MemT10},
		Tags:  map[string]string{"comparable-args": "0", "mode": "named", "names": "a", "nparams": "1", "nresults": "2"},
	},
	{ID: "T11", Type: reflect.TypeOf((*func(p.N0, ext.Num, *map[int]ext2.E0) (p.N0, interface{}, ext2.Num))(nil)).Elem(), TypeStr: "func(p.N0, ext.Num, *map[int]ext2.E0) (p.N0, interface{}, ext2.Num)",
		Funcs: map[string]any{"mem": p.MemT11},
		Tags:  map[string]string{"comparable-args": "0", "mode": "unnamed", "names": ",,", "nparams": "3", "nresults": "3"},
	},
	{ID: "T12", Type: reflect.TypeOf((*func(int) ([]*int8, []p.S0))(nil)).Elem(), TypeStr: "func(int) ([]*int8, []p.S0)",
		Funcs: map[string]any{"mem": p.MemT12},
		Tags:  map[string]string{"comparable-args": "1", "mode": "unnamed", "names": "", "nparams": "1", "nresults": "2"},
	},
	{ID: "T13", Type: reflect.TypeOf((*func() (*map[ext2.Key]uintptr, p.MyInt))(nil)).Elem(), TypeStr: "func() (*map[ext2.Key]uintptr, p.MyInt)",
		Funcs: map[string]any{"mem": p.MemT13},
		Tags:  map[string]string{"comparable-args": "1", "mode": "named", "names": "", "nparams": "0", "nresults": "2"},
	},
}
