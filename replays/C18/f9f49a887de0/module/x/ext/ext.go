package ext

import (
	ext "subj/ext1"
)

type Num int64

type Key struct {
	k0 bool
	k1 Num
}

type E0 struct {
	f0 []byte
	f1 map[Key]ext.E0
	f2 Num
	f3 []byte
}

type E1 struct {
}
