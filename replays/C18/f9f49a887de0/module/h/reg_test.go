package h

import (
	"reflect"

	ext "subj/ext1"
	p "subj/p"
	ext2 "subj/x/ext"
)

var _ = p.Anchor

var Registry = []Entry{
	{ID: "T0", Type: reflect.TypeOf((*func([3]*p.N1) (p.K1, interface{}))(nil)).Elem(), TypeStr: "func([3]*p.N1) (p.K1, interface{})",
		Funcs: map[string]any{"mem": p.MemT0},
		Tags:  map[string]string{"comparable-args": "0", "mode": "unnamed", "names": "", "nparams": "1", "nresults": "2"},
	},
	{ID: "T1", Type: reflect.TypeOf((*func(uint, map[p.K0]*p.N0) (map[[0]ext.Key]uint32, ext.Num, p.N2))(nil)).Elem(), TypeStr: "func(uint, map[p.K0]*p.N0) (map[[0]ext.Key]uint32, ext.Num, p.N2)",
		Funcs: map[string]any{"mem": p.MemT1},
		Tags:  map[string]string{"comparable-args": "0", "mode": "unnamed", "names": ",", "nparams": "2", "nresults": "3"},
	},
	{ID: "T2", Type: reflect.TypeOf((*func(a ext.Num, b map[bool]p.N0, c bool) (int32, bool))(nil)).Elem(), TypeStr: "func(a ext.Num, b map[bool]p.N0, c bool) (int32, bool)",
		Funcs: map[string]any{"mem": p.MemT2},
		Tags:  map[string]string{"comparable-args": "0", "mode": "named", "names": "a,b,c", "nparams": "3", "nresults": "2"},
	},
	{ID: "T3", Type: reflect.TypeOf((*func(map[int]p.K0, complex128))(nil)).Elem(), TypeStr: "func(map[int]p.K0, complex128)",
		Funcs: map[string]any{"mem": p.MemT3},
		Tags:  map[string]string{"comparable-args": "0", "mode": "unnamed", "names": ",", "nparams": "2", "nresults": "0"},
	},
	{ID: "T4", Type: reflect.TypeOf((*func(a p.K1, b *p.MyF32, c ext.E1) p.N0)(nil)).Elem(), TypeStr: "func(a p.K1, b *p.MyF32, c ext.E1) p.N0",
		Funcs: map[string]any{"mem": p.MemT4},
		Tags:  map[string]string{"comparable-args": "0", "mode": "named", "names": "a,b,c", "nparams": "3", "nresults": "1"},
	},
	{ID: "T5", Type: reflect.TypeOf((*func(a int8) error)(nil)).Elem(), TypeStr: "func(a int8) error",
		Funcs: map[string]any{"mem": p.MemT5},
		Tags:  map[string]string{"comparable-args": "1", "mode": "named", "names": "a", "nparams": "1", "nresults": "1"},
	},
	{ID: "T6", Type: reflect.TypeOf((*func([0]map[ext.Key]p.S0) uintptr)(nil)).Elem(), TypeStr: "func([0]map[ext.Key]p.S0) uintptr",
		Funcs: map[string]any{"mem": p.MemT6},
		Tags:  map[string]string{"comparable-args": "0", "mode": "unnamed", "names": "", "nparams": "1", "nresults": "1"},
	},
	{ID: "T7", Type: reflect.TypeOf((*func(p.K0, p.N2, complex64) (error, p.N2))(nil)).Elem(), TypeStr: "func(p.K0, p.N2, complex64) (error, p.N2)",
		Funcs: map[string]any{"mem": p.MemT7},
		Tags:  map[string]string{"comparable-args": "0", "mode": "unnamed", "names": ",,", "nparams": "3", "nresults": "2"},
	},
	{ID: "T8", Type: reflect.TypeOf((*func(p.K1) interface{})(nil)).Elem(), TypeStr: "func(p.K1) interface{}",
		Funcs: map[string]any{"mem": p.MemT8},
		Tags:  map[string]string{"comparable-args": "1", "mode": "unnamed", "names": "", "nparams": "1", "nresults": "1"},
	},
	{ID: "T9", Type: reflect.TypeOf((*func() p.S0)(nil)).Elem(), TypeStr: "func() p.S0",
		Funcs: map[string]any{"mem": p.MemT9},
		Tags:  map[string]string{"comparable-args": "1", "mode": "named", "names": "", "nparams": "0", "nresults": "1"},
	},
	{ID: "T10", Type: reflect.TypeOf((*func() ([]p.N0, complex128, map[p.MyF32]p.K1))(nil)).Elem(), TypeStr: "func() ([]p.N0, complex128, map[p.MyF32]p.K1)",
		Funcs: map[string]any{"mem": p.MemT10},
		Tags:  map[string]string{"comparable-args": "1", "mode": "unnamed", "names": "", "nparams": "0", "nresults": "3"},
	},
	{ID: "T11", Type: reflect.TypeOf((*func(uint32) [1]*ext2.Num)(nil)).Elem(), TypeStr: "func(uint32) [1]*ext2.Num",
		Funcs: map[string]any{"mem": p.MemT11},
		Tags:  map[string]string{"comparable-args": "1", "mode": "unnamed", "names": "", "nparams": "1", "nresults": "1"},
	},
	{ID: "T12", Type: reflect.TypeOf((*func(p.MyF32, *int8, int) error)(nil)).Elem(), TypeStr: "func(p.MyF32, *int8, int) error",
		Funcs: map[string]any{"mem": p.MemT12},
		Tags:  map[string]string{"comparable-args": "0", "mode": "unnamed", "names": ",,", "nparams": "3", "nresults": "1"},
	},
	{ID: "T13", Type: reflect.TypeOf((*func([0]*int32, map[ext2.Key]p.S0, [1]map[float32]rune))(nil)).Elem(), TypeStr: "func([0]*int32, map[ext2.Key]p.S0, [1]map[float32]rune)",
		Funcs: map[string]any{"mem": p.MemT13},
		Tags:  map[string]string{"comparable-args": "0", "mode": "unnamed", "names": ",,", "nparams": "3", "nresults": "0"},
	},
}
