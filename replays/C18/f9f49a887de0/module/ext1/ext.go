package ext

type Num string

type Key struct {
	k0 bool
}

type E0 struct {
}

type E1 struct {
	f0 Num
	f1 map[Key]Num
	f2 *E1
}
