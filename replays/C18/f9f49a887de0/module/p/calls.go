package p

import (
	ext "subj/ext1"
	ext2 "subj/x/ext"
)

var Anchor = 0

func MemT0(f func([3]*N1) (K1, interface{})) any {
	return deriveMemT0(f)
}

func MemT1(f func(uint, map[K0]*N0) (map[[0]ext.Key]uint32, ext.Num, N2)) any {
	return deriveMemT1(f)
}

func MemT2(f func(a ext.Num, b map[bool]N0, c bool) (int32, bool)) any {
	return deriveMemT2(f)
}

func MemT3(f func(map[int]K0, complex128)) any {
	return deriveMemT3(f)
}

func MemT4(f func(a K1, b *MyF32, c ext.E1) N0) any {
	return deriveMemT4(f)
}

func MemT5(f func(a int8) error) any {
	return deriveMemT5(f)
}

func MemT6(f func([0]map[ext.Key]S0) uintptr) any {
	return deriveMemT6(f)
}

func MemT7(f func(K0, N2, complex64) (error, N2)) any {
	return deriveMemT7(f)
}

func MemT8(f func(K1) interface{}) any {
	return deriveMemT8(f)
}

func MemT9(f func() S0) any {
	return deriveMemT9(f)
}

func MemT10(f func() ([]N0, complex128, map[MyF32]K1)) any {
	return deriveMemT10(f)
}

func MemT11(f func(uint32) [1]*ext2.Num) any {
	return deriveMemT11(f)
}

func MemT12(f func(MyF32, *int8, int) error) any {
	return deriveMemT12(f)
}

func MemT13(f func([0]*int32, map[ext2.Key]S0, [1]map[float32]rune)) any {
	return deriveMemT13(f)
}
