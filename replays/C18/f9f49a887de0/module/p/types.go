package p

import (
	ext "subj/ext1"
)

type MyU8 uint8

type MyF32 float32

type MyInt int

type N0 *uint8

type N1 [][]uint16

type N2 map[MyInt]uint8

type K0 struct {
}

type K1 struct {
	F0 ext.Key
}

type S0 struct {
	f0 []byte
}
