package h

import (
	"reflect"

	ext "subj/ext1"
	p "subj/p"
	ext2 "subj/x/ext"
)

var _ = p.Anchor

var Registry = []Entry{
	{ID: "T0", Type: reflect.TypeOf((*func(a uint32, b [1]bool) interface{})(nil)).Elem(), TypeStr: "func(a uint32, b [1]bool) interface{}",
		Funcs: map[string]any{"mem": p.MemT0},
		Tags:  map[string]string{"comparable-args": "1", "mode": "named", "names": "a,b", "nparams": "2", "nresults": "1"},
	},
	{ID: "T1", Type: reflect.TypeOf((*func(p.N2, ext.Num, map[p.MyU]p.MyU))(nil)).Elem(), TypeStr: "func(p.N2, ext.Num, map[p.MyU]p.MyU)",
		Funcs: map[string]any{"mem": p.MemT1},
		Tags:  map[string]string{"comparable-args": "0", "mode": "unnamed", "names": ",,", "nparams": "3", "nresults": "0"},
	},
	{ID: "T2", Type: reflect.TypeOf((*func())(nil)).Elem(), TypeStr: "func()",
		Funcs: map[string]any{"mem": p.MemT2},
		Tags:  map[string]string{"comparable-args": "1", "mode": "named", "names": "", "nparams": "0", "nresults": "0"},
	},
	{ID: "T3", Type: reflect.TypeOf((*func() p.K0)(nil)).Elem(), TypeStr: "func() p.K0",
		Funcs: map[string]any{"mem": p.MemT3},
		Tags:  map[string]string{"comparable-args": "1", "mode": "named", "names": "", "nparams": "0", "nresults": "1"},
	},
	{ID: "T4", Type: reflect.TypeOf((*func(ext.E0, map[p.MyI64][]byte, *int8) (error, interface{}))(nil)).Elem(), TypeStr: "func(ext.E0, map[p.MyI64][]byte, *int8) (error, interface{})",
		Funcs: map[string]any{"mem": p.MemT4},
		Tags:  map[string]string{"comparable-args": "0", "mode": "unnamed", "names": ",,", "nparams": "3", "nresults": "2"},
	},
	{ID: "T5", Type: reflect.TypeOf((*func() interface{})(nil)).Elem(), TypeStr: "func() interface{}",
		Funcs: map[string]any{"mem": p.MemT5},
		Tags:  map[string]string{"comparable-args": "1", "mode": "unnamed", "names": "", "nparams": "0", "nresults": "1"},
	},
	{ID: "T6", Type: reflect.TypeOf((*func(a p.MyF, b map[ext2.Num]p.S1))(nil)).Elem(), TypeStr: "func(a p.MyF, b map[ext2.Num]p.S1)",
		Funcs: map[string]any{"mem": p.MemT6},
		Tags:  map[string]string{"comparable-args": "0", "mode": "named", "names": "a,b", "nparams": "2", "nresults": "0"},
	},
	{ID: "T7", Type: reflect.TypeOf((*func(int32, p.N2, [2]complex128) (bool, interface{}, interface{}))(nil)).Elem(), TypeStr: "func(int32, p.N2, [2]complex128) (bool, interface{}, interface{})",
		Funcs: map[string]any{"mem": p.MemT7},
		Tags:  map[string]string{"comparable-args": "0", "mode": "unnamed", "names": ",,", "nparams": "3", "nresults": "3"},
	},
	{ID: "T8", Type: reflect.TypeOf((*func(int64) (int64, rune, *p.S0))(nil)).Elem(), TypeStr: "func(int64) (int64, rune, *p.S0)",
		Funcs: map[string]any{"mem": p.MemT8},
		Tags:  map[string]string{"comparable-args": "1", "mode": "unnamed", "names": "", "nparams": "1", "nresults": "3"},
	},
	{ID: "T9", Type: reflect.TypeOf((*func(a p.N0))(nil)).Elem(), TypeStr: "func(a p.N0)",
		Funcs: map[string]any{"mem": p.MemT9},
		Tags:  map[string]string{"comparable-args": "0", "mode": "named", "names": "a", "nparams": "1", "nresults": "0"},
	},
	{ID: "T10", Type: reflect.TypeOf((*func(a uint8) ([1]p.K0, *p.K1))(nil)).Elem(), TypeStr: "func(a uint8) ([1]p.K0, *p.K1)",
		Funcs: map[string]any{"mem": p.MemT10},
		Tags:  map[string]string{"comparable-args": "1", "mode": "named", "names": "a", "nparams": "1", "nresults": "2"},
	},
	{ID: "T11", Type: reflect.TypeOf((*func(a [2]uintptr, b int, c string))(nil)).Elem(), TypeStr: "func(a [2]uintptr, b int, c string)",
		Funcs: map[string]any{"mem": p.MemT11},
		Tags:  map[string]string{"comparable-args": "1", "mode": "named", "names": "a,b,c", "nparams": "3", "nresults": "0"},
	},
	{ID: "T12", Type: reflect.TypeOf((*func(complex64, int64, map[rune]rune) (p.K1, [0][]ext.Num))(nil)).Elem(), TypeStr: "func(complex64, int64, map[rune]rune) (p.K1, [0][]ext.Num)",
		Funcs: map[string]any{"mem": p.MemT12},
		Tags:  map[string]string{"comparable-args": "0", "mode": "unnamed", "names": ",,", "nparams": "3", "nresults": "2"},
	},
	{ID: "T13", Type: reflect.TypeOf((*func(a uint16, b int, c p.S0) interface{})(nil)).Elem(), TypeStr: "func(a uint16, b int, c p.S0) interface{}",
		Funcs: map[string]any{"mem": p.MemT13},
		Tags:  map[string]string{"comparable-args": "1", "mode": "named", "names": "a,b,c", "nparams": "3", "nresults": "1"},
	},
}
