package ext

type Num int

type Key struct {
	K0 uint
	K1 int
}

type E0 struct {
}
