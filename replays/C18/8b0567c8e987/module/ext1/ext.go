package ext

type Num uint8

type Key struct {
	k0 Num
}

type E0 struct {
	F0 int
}

type E1 struct {
	f0 []byte
	f1 *Num
}
