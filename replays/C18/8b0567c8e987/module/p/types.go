package p

import (
	ext "subj/ext1"
	ext2 "subj/x/ext"
)

type MyF float64

type MyI64 int64

type MyU uint

type N0 *ext.Num

type N1 [1]MyI64

type N2 []MyU

type K0 struct {
}

type K1 struct {
}

type S0 struct {
	K1
	F1 ext2.Key
	f2 K1
	f3 ext.Num
}

type S1 struct {
}
