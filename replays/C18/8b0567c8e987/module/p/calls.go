package p

import (
	ext "subj/ext1"
	ext2 "subj/x/ext"
)

var Anchor = 0

func MemT0(f func(a uint32, b [1]bool) interface{}) any {
	return deriveMemT0(f)
}

func MemT1(f func(N2, ext.Num, map[MyU]MyU)) any {
	return deriveMemT1(f)
}

func MemT2(f func()) any {
	return deriveMemT2(f)
}

func MemT3(f func() K0) any {
	return deriveMemT3(f)
}

func MemT4(f func(ext.E0, map[MyI64][]byte, *int8) (error, interface{})) any {
	return deriveMemT4(f)
}

func MemT5(f func() interface{}) any {
	return deriveMemT5(f)
}

func MemT6(f func(a MyF, b map[ext2.Num]S1)) any {
	return deriveMemT6(f)
}

func MemT7(f func(int32, N2, [2]complex128) (bool, interface{}, interface{})) any {
	return deriveMemT7(f)
}

func MemT8(f func(int64) (int64, rune, *S0)) any {
	return deriveMemT8(f)
}

func MemT9(f func(a N0)) any {
	return deriveMemT9(f)
}

func MemT10(f func(a uint8) ([1]K0, *K1)) any {
	return deriveMemT10(f)
}

func MemT11(f func(a [2]uintptr, b int, c string)) any {
	return deriveMemT11(f)
}

func MemT12(f func(complex64, int64, map[rune]rune) (K1, [0][]ext.Num)) any {
	return deriveMemT12(f)
}

func MemT13(f func(a uint16, b int, c S0) interface{}) any {
	return deriveMemT13(f)
}
