package p

import (
	ext "subj/ext1"
	ext2 "subj/x/ext"
)

type MyI64 int64

type MyU uint

type N0 [0]bool

type K0 struct {
	F0 MyU
}

type S0 struct {
	K0
	f1 map[float64]S0
	F2 map[ext2.Num]K0
	F3 ext.Num
	f4 []S1
	F5 N0
}

type S1 struct {
	F0 MyI64
}

type S2 struct {
	F0 [3]int64
	F1 K0
	*S0
	F3 [0]*S2
	F4 *int
}
