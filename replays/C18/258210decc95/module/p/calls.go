package p

import (
	ext "subj/ext1"
	ext2 "subj/x/ext"
)

var Anchor = 0

func MemT0(f func() (error, float64)) any {
	return deriveMemT0(f)
}

func MemT1(f func()) any {
	return deriveMemT1(f)
}

func MemT2(f func(a string, b int)) any {
	return deriveMemT2(f)
}

func MemT3(f func(a int, b [1]rune, c S0) ext2.E0) any {
	return deriveMemT3(f)
}

func MemT4(f func(complex128) (error, ext.Num)) any {
	return deriveMemT4(f)
}

func MemT5(f func(a ext.E0, b *S2) error) any {
	return deriveMemT5(f)
}

func MemT6(f func(a map[[1]int32]S0, b ext.Num, c ext.E0) (error, N0, float32)) any {
	return deriveMemT6(f)
}

func MemT7(f func(a map[uint64]int64, b bool, c map[K0]ext2.Num)) any {
	return deriveMemT7(f)
}

func MemT8(f func(ext.Key, [2][]byte) (ext.E0, bool)) any {
	return deriveMemT8(f)
}

func MemT9(f func() (interface{}, error, int)) any {
	return deriveMemT9(f)
}

func MemT10(f func(MyI64, ext.E0, *S0)) any {
	return deriveMemT10(f)
}

func MemT11(f func(S1, map[complex128]MyU, *ext.E0) rune) any {
	return deriveMemT11(f)
}

func MemT12(f func(a *[]MyU, b complex64, c map[uintptr]int)) any {
	return deriveMemT12(f)
}

func MemT13(f func(ext2.Num) (int, []S0, interface{})) any {
	return deriveMemT13(f)
}
