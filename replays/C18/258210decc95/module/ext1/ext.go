package ext

type Num uint8

type Key struct {
	k0 int
	K1 string
	K2 float32
}

type E0 struct {
	f0 uint32
	f1 int
	f2 Key
}

type E1 struct {
	f0 rune
}
