package ext

type Num uint8

type Key struct {
	K0 int8
	K1 float32
	k2 float64
}

type E0 struct {
	f0 *int
}
