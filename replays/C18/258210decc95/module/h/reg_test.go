package h

import (
	"reflect"

	ext "subj/ext1"
	p "subj/p"
	ext2 "subj/x/ext"
)

var _ = p.Anchor

var Registry = []Entry{
	{ID: "T0", Type: reflect.TypeOf((*func() (error, float64))(nil)).Elem(), TypeStr: "func() (error, float64)",
		Funcs: map[string]any{"mem": p.MemT0},
		Tags:  map[string]string{"comparable-args": "1", "mode": "unnamed", "names": "", "nparams": "0", "nresults": "2"},
	},
	{ID: "T1", Type: reflect.TypeOf((*func())(nil)).Elem(), TypeStr: "func()",
		Funcs: map[string]any{"mem": p.MemT1},
		Tags:  map[string]string{"comparable-args": "1", "mode": "named", "names": "", "nparams": "0", "nresults": "0"},
	},
	{ID: "T2", Type: reflect.TypeOf((*func(a string, b int))(nil)).Elem(), TypeStr: "func(a string, b int)",
		Funcs: map[string]any{"mem": p.MemT2},
		Tags:  map[string]string{"comparable-args": "1", "mode": "named", "names": "a,b", "nparams": "2", "nresults": "0"},
	},
	{ID: "T3", Type: reflect.TypeOf((*func(a int, b [1]rune, c p.S0) ext2.E0)(nil)).Elem(), TypeStr: "func(a int, b [1]rune, c p.S0) ext2.E0",
		Funcs: map[string]any{"mem": p.MemT3},
		Tags:  map[string]string{"comparable-args": "0", "mode": "named", "names": "a,b,c", "nparams": "3", "nresults": "1"},
	},
	{ID: "T4", Type: reflect.TypeOf((*func(complex128) (error, ext.Num))(nil)).Elem(), TypeStr: "func(complex128) (error, ext.Num)",
		Funcs: map[string]any{"mem": p.MemT4},
		Tags:  map[string]string{"comparable-args": "1", "mode": "unnamed", "names": "", "nparams": "1", "nresults": "2"},
	},
	{ID: "T5", Type: reflect.TypeOf((*func(a ext.E0, b *p.S2) error)(nil)).Elem(), TypeStr: "func(a ext.E0, b *p.S2) error",
		Funcs: map[string]any{"mem": p.MemT5},
		Tags:  map[string]string{"comparable-args": "0", "mode": "named", "names": "a,b", "nparams": "2", "nresults": "1"},
	},
	{ID: "T6", Type: reflect.TypeOf((*func(a map[[1]int32]p.S0, b ext.Num, c ext.E0) (error, p.N0, float32))(nil)).Elem(), TypeStr: "func(a map[[1]int32]p.S0, b ext.Num, c ext.E0) (error, p.N0, float32)",
		Funcs: map[string]any{"mem": p.MemT6},
		Tags:  map[string]string{"comparable-args": "0", "mode": "named", "names": "a,b,c", "nparams": "3", "nresults": "3"},
	},
	{ID: "T7", Type: reflect.TypeOf((*func(a map[uint64]int64, b bool, c map[p.K0]ext2.Num))(nil)).Elem(), TypeStr: "func(a map[uint64]int64, b bool, c map[p.K0]ext2.Num)",
		Funcs: map[string]any{"mem": p.MemT7},
		Tags:  map[string]string{"comparable-args": "0", "mode": "named", "names": "a,b,c", "nparams": "3", "nresults": "0"},
	},
	{ID: "T8", Type: reflect.TypeOf((*func(ext.Key, [2][]byte) (ext.E0, bool))(nil)).Elem(), TypeStr: "func(ext.Key, [2][]byte) (ext.E0, bool)",
		Funcs: map[string]any{"mem": p.MemT8},
		Tags:  map[string]string{"comparable-args": "0", "mode": "unnamed", "names": ",", "nparams": "2", "nresults": "2"},
	},
	{ID: "T9", Type: reflect.TypeOf((*func() (interface{}, error, int))(nil)).Elem(), TypeStr: "func() (interface{}, error, int)",
		Funcs: map[string]any{"mem": p.MemT9},
		Tags:  map[string]string{"comparable-args": "1", "mode": "unnamed", "names": "", "nparams": "0", "nresults": "3"},
	},
	{ID: "T10", Type: reflect.TypeOf((*func(p.MyI64, ext.E0, *p.S0))(nil)).Elem(), TypeStr: "func(p.MyI64, ext.E0, *p.S0)",
		Funcs: map[string]any{"mem": p.MemT10},
		Tags:  map[string]string{"comparable-args": "0", "mode": "unnamed", "names": ",,", "nparams": "3", "nresults": "0"},
	},
	{ID: "T11", Type: reflect.TypeOf((*func(p.S1, map[complex128]p.MyU, *ext.E0) rune)(nil)).Elem(), TypeStr: "func(p.S1, map[complex128]p.MyU, *ext.E0) rune",
		Funcs: map[string]any{"mem": p.MemT11},
		Tags:  map[string]string{"comparable-args": "0", "mode": "unnamed", "names": ",,", "nparams": "3", "nresults": "1"},
	},
	{ID: "T12", Type: reflect.TypeOf((*func(a *[]p.MyU, b complex64, c map[uintptr]int))(nil)).Elem(), TypeStr: "func(a *[]p.MyU, b complex64, c map[uintptr]int)",
		Funcs: map[string]any{"mem": p.MemT12},
		Tags:  map[string]string{"comparable-args": "0", "mode": "named", "names": "a,b,c", "nparams": "3", "nresults": "0"},
	},
	{ID: "T13", Type: reflect.TypeOf((*func(ext2.Num) (int, []p.S0, interface{}))(nil)).Elem(), TypeStr: "func(ext2.Num) (int, []p.S0, interface{})",
		Funcs: map[string]any{"mem": p.MemT13},
		Tags:  map[string]string{"comparable-args": "1", "mode": "unnamed", "names": "", "nparams": "1", "nresults": "3"},
	},
}
