package p

import (
	ext "subj/ext1"
	ext2 "subj/x/ext"
)

var Anchor = 0

func MemT0(f func(a N1, b uint64, c [0]MyU8) (map[MyStr]rune, ext2.E1)) any {
	return deriveMemT0(f)
}

func MemT1(f func(complex128, int16) (int32, interface{}, [0]map[complex128]int)) any {
	return deriveMemT1(f)
}

func MemT2(f func(int8) error) any {
	return deriveMemT2(f)
}

func MemT3(f func() map[MyStr]uint16) any {
	return deriveMemT3(f)
}

func MemT4(f func(a uint8) (N0, K0, interface{})) any {
	return deriveMemT4(f)
}

func MemT5(f func(a ext.Key, b string) (*rune, map[MyU8]ext2.Num, map[int8]N0)) any {
	return deriveMemT5(f)
}

func MemT6(f func(a bool, b bool) (error, int64, ext.Num)) any {
	return deriveMemT6(f)
}

func MemT7(f func() (error, int64, S0)) any {
	return deriveMemT7(f)
}

func MemT8(f func(int32, MyStr, ext2.Key) (int64, interface{}, int64)) any {
	return deriveMemT8(f)
}

func MemT9(f func()) any {
	return deriveMemT9(f)
}

func MemT10(f func(a N1) interface{}) any {
	return deriveMemT10(f)
}

func MemT11(f func() (interface{}, K0)) any {
	return deriveMemT11(f)
}

func MemT12(f func(uint64)) any {
	return deriveMemT12(f)
}

func MemT13(f func() error) any {
	return deriveMemT13(f)
}
