package p

import (
	ext2 "subj/x/ext"
)

type MyStr string

type MyU8 uint8

type N0 []complex128

type N1 [3]complex64

type K0 struct {
	F0 MyStr
	F1 string
}

type S0 struct {
	f0 []ext2.Key
}
