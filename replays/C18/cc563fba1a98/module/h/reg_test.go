package h

import (
	"reflect"

	ext "subj/ext1"
	p "subj/p"
	ext2 "subj/x/ext"
)

var _ = p.Anchor

var Registry = []Entry{
	{ID: "T0", Type: reflect.TypeOf((*func(a p.N1, b uint64, c [0]p.MyU8) (map[p.MyStr]rune, ext2.E1))(nil)).Elem(), TypeStr: "func(a p.N1, b uint64, c [0]p.MyU8) (map[p.MyStr]rune, ext2.E1)",
		Funcs: map[string]any{"mem": p.MemT0},
		Tags:  map[string]string{"comparable-args": "1", "mode": "named", "names": "a,b,c", "nparams": "3", "nresults": "2"},
	},
	{ID: "T1", Type: reflect.TypeOf((*func(complex128, int16) (int32, interface{}, [0]map[complex128]int))(nil)).Elem(), TypeStr: "func(complex128, int16) (int32, interface{}, [0]map[complex128]int)",
		Funcs: map[string]any{"mem": p.MemT1},
		Tags:  map[string]string{"comparable-args": "1", "mode": "unnamed", "names": ",", "nparams": "2", "nresults": "3"},
	},
	{ID: "T2", Type: reflect.TypeOf((*func(int8) error)(nil)).Elem(), TypeStr: "func(int8) error",
		Funcs: map[string]any{"mem": p.MemT2},
		Tags:  map[string]string{"comparable-args": "1", "mode": "unnamed", "names": "", "nparams": "1", "nresults": "1"},
	},
	{ID: "T3", Type: reflect.TypeOf((*func() map[p.MyStr]uint16)(nil)).Elem(), TypeStr: "func() map[p.MyStr]uint16",
		Funcs: map[string]any{"mem": p.MemT3},
		Tags:  map[string]string{"comparable-args": "1", "mode": "named", "names": "", "nparams": "0", "nresults": "1"},
	},
	{ID: "T4", Type: reflect.TypeOf((*func(a uint8) (p.N0, p.K0, interface{}))(nil)).Elem(), TypeStr: "func(a uint8) (p.N0, p.K0, interface{})",
		Funcs: map[string]any{"mem": p.MemT4},
		Tags:  map[string]string{"comparable-args": "1", "mode": "named", "names": "a", "nparams": "1", "nresults": "3"},
	},
	{ID: "T5", Type: reflect.TypeOf((*func(a ext.Key, b string) (*rune, map[p.MyU8]ext2.Num, map[int8]p.N0))(nil)).Elem(), TypeStr: "func(a ext.Key, b string) (*rune, map[p.MyU8]ext2.Num, map[int8]p.N0)",
		Funcs: map[string]any{"mem": p.MemT5},
		Tags:  map[string]string{"comparable-args": "1", "mode": "named", "names": "a,b", "nparams": "2", "nresults": "3"},
	},
	{ID: "T6", Type: reflect.TypeOf((*func(a bool, b bool) (error, int64, ext.Num))(nil)).Elem(), TypeStr: "func(a bool, b bool) (error, int64, ext.Num)",
		Funcs: map[string]any{"mem": p.MemT6},
		Tags:  map[string]string{"comparable-args": "1", "mode": "named", "names": "a,b", "nparams": "2", "nresults": "3"},
	},
	{ID: "T7", Type: reflect.TypeOf((*func() (error, int64, p.S0))(nil)).Elem(), TypeStr: "func() (error, int64, p.S0)",
		Funcs: map[string]any{"mem": p.MemT7},
		Tags:  map[string]string{"comparable-args": "1", "mode": "named", "names": "", "nparams": "0", "nresults": "3"},
	},
	{ID: "T8", Type: reflect.TypeOf((*func(int32, p.MyStr, ext2.Key) (int64, interface{}, int64))(nil)).Elem(), TypeStr: "func(int32, p.MyStr, ext2.Key) (int64, interface{}, int64)",
		Funcs: map[string]any{"mem": p.MemT8},
		Tags:  map[string]string{"comparable-args": "1", "mode": "unnamed", "names": ",,", "nparams": "3", "nresults": "3"},
	},
	{ID: "T9", Type: reflect.TypeOf((*func())(nil)).Elem(), TypeStr: "func()",
		Funcs: map[string]any{"mem": p.MemT9},
		Tags:  map[string]string{"comparable-args": "1", "mode": "named", "names": "", "nparams": "0", "nresults": "0"},
	},
	{ID: "T10", Type: reflect.TypeOf((*func(a p.N1) interface{})(nil)).Elem(), TypeStr: "func(a p.N1) interface{}",
		Funcs: map[string]any{"mem": p.MemT10},
		Tags:  map[string]string{"comparable-args": "1", "mode": "named", "names": "a", "nparams": "1", "nresults": "1"},
	},
	{ID: "T11", Type: reflect.TypeOf((*func() (interface{}, p.K0))(nil)).Elem(), TypeStr: "func() (interface{}, p.K0)",
		Funcs: map[string]any{"mem": p.MemT11},
		Tags:  map[string]string{"comparable-args": "1", "mode": "named", "names": "", "nparams": "0", "nresults": "2"},
	},
	{ID: "T12", Type: reflect.TypeOf((*func(uint64))(nil)).Elem(), TypeStr: "func(uint64)",
		Funcs: map[string]any{"mem": p.MemT12},
		Tags:  map[string]string{"comparable-args": "1", "mode": "unnamed", "names": "", "nparams": "1", "nresults": "0"},
	},
	{ID: "T13", Type: reflect.TypeOf((*func() error)(nil)).Elem(), TypeStr: "func() error",
		Funcs: map[string]any{"mem": p.MemT13},
		Tags:  map[string]string{"comparable-args": "1", "mode": "named", "names": "", "nparams": "0", "nresults": "1"},
	},
}
