package ext

import (
	ext "subj/ext1"
)

type Num int64

type Key struct {
	K0 int8
}

type E0 struct {
	f0 string
	F1 int
}

type E1 struct {
	f0 *E1
	f1 map[bool]int8
	F2 ext.E0
	f3 ext.Num
}
