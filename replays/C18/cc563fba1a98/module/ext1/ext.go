package ext

type Num int64

type Key struct {
	k0 int8
	K1 complex128
}

type E0 struct {
	f0 []byte
	F1 Key
	f2 complex128
	f3 byte
}
