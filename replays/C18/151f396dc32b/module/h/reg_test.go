package h

import (
	"reflect"

	ext "subj/ext1"
	p "subj/p"
	ext2 "subj/x/ext"
)

var _ = p.Anchor

var Registry = []Entry{
	{ID: "T0", Type: reflect.TypeOf((*func(*p.MyStr) (error, []p.K1, *[]p.N1))(nil)).Elem(), TypeStr: "func(*p.MyStr) (error, []p.K1, *[]p.N1)",
		Funcs: map[string]any{"mem": p.MemT0},
		Tags:  map[string]string{"comparable-args": "0", "mode": "unnamed", "names": "", "nparams": "1", "nresults": "3"},
	},
	{ID: "T1", Type: reflect.TypeOf((*func())(nil)).Elem(), TypeStr: "func()",
		Funcs: map[string]any{"mem": p.MemT1},
		Tags:  map[string]string{"comparable-args": "1", "mode": "unnamed", "names": "", "nparams": "0", "nresults": "0"},
	},
	{ID: "T2", Type: reflect.TypeOf((*func() (interface{}, interface{}, error))(nil)).Elem(), TypeStr: "func() (interface{}, interface{}, error)",
		Funcs: map[string]any{"mem": p.MemT2},
		Tags:  map[string]string{"comparable-args": "1", "mode": "named", "names": "", "nparams": "0", "nresults": "3"},
	},
	{ID: "T3", Type: reflect.TypeOf((*func(uint))(nil)).Elem(), TypeStr: "func(uint)",
		Funcs: map[string]any{"mem": p.MemT3},
		Tags:  map[string]string{"comparable-args": "1", "mode": "unnamed", "names": "", "nparams": "1", "nresults": "0"},
	},
	{ID: "T4", Type: reflect.TypeOf((*func(a [1]ext.E0, b uint8) p.N1)(nil)).Elem(), TypeStr: "func(a [1]ext.E0, b uint8) p.N1",
		Funcs: map[string]any{"mem": p.MemT4},
		Tags:  map[string]string{"comparable-args": "0", "mode": "named", "names": "a,b", "nparams": "2", "nresults": "1"},
	},
	{ID: "T5", Type: reflect.TypeOf((*func(a bool) int64)(nil)).Elem(), TypeStr: "func(a bool) int64",
		Funcs: map[string]any{"mem": p.MemT5},
		Tags:  map[string]string{"comparable-args": "1", "mode": "named", "names": "a", "nparams": "1", "nresults": "1"},
	},
	{ID: "T6", Type: reflect.TypeOf((*func(int32) (*int64, p.K0))(nil)).Elem(), TypeStr: "func(int32) (*int64, p.K0)",
		Funcs: map[string]any{"mem": p.MemT6},
		Tags:  map[string]string{"comparable-args": "1", "mode": "unnamed", "names": "", "nparams": "1", "nresults": "2"},
	},
	{ID: "T7", Type: reflect.TypeOf((*func(uint, float32, float32) interface{})(nil)).Elem(), TypeStr: "func(uint, float32, float32) interface{}",
		Funcs: map[string]any{"mem": p.MemT7},
		Tags:  map[string]string{"comparable-args": "1", "mode": "unnamed", "names": ",,", "nparams": "3", "nresults": "1"},
	},
	{ID: "T8", Type: reflect.TypeOf((*func(uint64, map[ext2.Num]p.N0) (map[complex128]map[ext.Num]p.K1, **p.S0, p.N1))(nil)).Elem(), TypeStr: "func(uint64, map[ext2.Num]p.N0) (map[complex128]map[ext.Num]p.K1, **p.S0, p.N1)",
		Funcs: map[string]any{"mem": p.MemT8},
		Tags:  map[string]string{"comparable-args": "0", "mode": "unnamed", "names": ",", "nparams": "2", "nresults": "3"},
	},
	{ID: "T9", Type: reflect.TypeOf((*func(a p.K0, b p.MyStr, c ext.E0) (byte, complex128))(nil)).Elem(), TypeStr: "func(a p.K0, b p.MyStr, c ext.E0) (byte, complex128)",
		Funcs: map[string]any{"mem": p.MemT9},
		Tags:  map[string]string{"comparable-args": "0", "mode": "named", "names": "a,b,c", "nparams": "3", "nresults": "2"},
	},
	{ID: "T10", Type: reflect.TypeOf((*func(ext2.Key) int16)(nil)).Elem(), TypeStr: "func(ext2.Key) int16",
		Funcs: map[string]any{"mem": p.MemT10},
		Tags:  map[string]string{"comparable-args": "1", "mode": "unnamed", "names": "", "nparams": "1", "nresults": "1"},
	},
	{ID: "T11", Type: reflect.TypeOf((*func(a uint8) error)(nil)).Elem(), TypeStr: "func(a uint8) error",
		Funcs: map[string]any{"mem": p.MemT11},
		Tags:  map[string]string{"comparable-args": "1", "mode": "named", "names": "a", "nparams": "1", "nresults": "1"},
	},
	{ID: "T12", Type: reflect.TypeOf((*func(a map[p.MyU8][2]p.N1, b map[p.MyStr]byte, c uint) (interface{}, ext.Num, ext2.E1))(nil)).Elem(), TypeStr: "func(a map[p.MyU8][2]p.N1, b map[p.MyStr]byte, c uint) (interface{}, ext.Num, ext2.E1)",
		Funcs: map[string]any{"mem": p.MemT12},
		Tags:  map[string]string{"comparable-args": "0", "mode": "named", "names": "a,b,c", "nparams": "3", "nresults": "3"},
	},
	{ID: "T13", Type: reflect.TypeOf((*func() (map[p.K1]uint8, error))(nil)).Elem(), TypeStr: "func() (map[p.K1]uint8, error)",
		Funcs: map[string]any{"mem": p.MemT13},
		Tags:  map[string]string{"comparable-args": "1", "mode": "named", "names": "", "nparams": "0", "nresults": "2"},
	},
}
