package p

type MyI64 int64

type MyU uint

type MyBool bool

type N0 *int32

type K0 struct {
	f0 int
}

type S0 struct {
	f0 float32
	F1 *K0
	f2 **S0
	*K0
	F4 uint64
}
