package p

import (
	ext "subj/ext1"
	other "subj/x/other"
)

var Anchor = 0

func MemT0(f func() error) any {
	return deriveMemT0(f)
}

func MemT1(f func([]byte, map[int]S0, []*uint) interface{}) any {
	return deriveMemT1(f)
}

func MemT2(f func() []byte) any {
	return deriveMemT2(f)
}

func MemT3(f func()) any {
	return deriveMemT3(f)
}

func MemT4(f func(a int, b K0) K0) any {
	return deriveMemT4(f)
}

func MemT5(f func(a N0) (int32, other.Num, ext.Key)) any {
	return deriveMemT5(f)
}

func MemT6(f func(byte) float64) any {
	return deriveMemT6(f)
}

func MemT7(f func(a *int, b uint32, c N0) map[float64]K0) any {
	return deriveMemT7(f)
}

func MemT8(f func(a N0, b ext.E0, c map[[1]uint]uint32) (N0, ext.E0, ext.Num)) any {
	return deriveMemT8(f)
}

func MemT9(f func(int, int) (map[int]int32, uint8, other.Key)) any {
	return deriveMemT9(f)
}

func MemT10(f func(int64) interface{}) any {
	return deriveMemT10(f)
}

func MemT11(f func() (interface{}, *rune, bool)) any {
	return deriveMemT11(f)
}

func MemT12(f func(a other.Num, b S0, c uint32)) any {
	return deriveMemT12(f)
}

func MemT13(f func(a int8, b []byte) (N0, interface{})) any {
	return deriveMemT13(f)
}
