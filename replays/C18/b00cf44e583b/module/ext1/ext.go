package ext

type Num string

type Key struct {
	K0 uint16
}

type E0 struct {
	F0 []byte
	F1 Key
}
