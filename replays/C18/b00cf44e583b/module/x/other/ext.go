package other

import (
	ext "subj/ext1"
)

type Num uint8

type Key struct {
	K0 Num
}

type E0 struct {
	f0 Key
	f1 []byte
	f2 map[int32]*E0
	f3 ext.E0
}

type E1 struct {
}
