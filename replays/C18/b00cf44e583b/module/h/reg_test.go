package h

import (
	"reflect"

	ext "subj/ext1"
	p "subj/p"
	other "subj/x/other"
)

var _ = p.Anchor

var Registry = []Entry{
	{ID: "T0", Type: reflect.TypeOf((*func() error)(nil)).Elem(), TypeStr: "func() error",
		Funcs: map[string]any{"mem": p.MemT0},
		Tags:  map[string]string{"comparable-args": "1", "mode": "named", "names": "", "nparams": "0", "nresults": "1"},
	},
	{ID: "T1", Type: reflect.TypeOf((*func([]byte, map[int]p.S0, []*uint) interface{})(nil)).Elem(), TypeStr: "func([]byte, map[int]p.S0, []*uint) interface{}",
		Funcs: map[string]any{"mem": p.MemT1},
		Tags:  map[string]string{"comparable-args": "0", "mode": "unnamed", "names": ",,", "nparams": "3", "nresults": "1"},
	},
	{ID: "T2", Type: reflect.TypeOf((*func() []byte)(nil)).Elem(), TypeStr: "func() []byte",
		Funcs: map[string]any{"mem": p.MemT2},
		Tags:  map[string]string{"comparable-args": "1", "mode": "unnamed", "names": "", "nparams": "0", "nresults": "1"},
	},
	{ID: "T3", Type: reflect.TypeOf((*func())(nil)).Elem(), TypeStr: "func()",
		Funcs: map[string]any{"mem": p.MemT3},
		Tags:  map[string]string{"comparable-args": "1", "mode": "named", "names": "", "nparams": "0", "nresults": "0"},
	},
	{ID: "T4", Type: reflect.TypeOf((*func(a int, b p.K0) p.K0)(nil)).Elem(), TypeStr: "func(a int, b p.K0) p.K0",
		Funcs: map[string]any{"mem": p.MemT4},
		Tags:  map[string]string{"comparable-args": "1", "mode": "named", "names": "a,b", "nparams": "2", "nresults": "1"},
	},
	{ID: "T5", Type: reflect.TypeOf((*func(a p.N0) (int32, other.Num, ext.Key))(nil)).Elem(), TypeStr: "func(a p.N0) (int32, other.Num, ext.Key)",
		Funcs: map[string]any{"mem": p.MemT5},
		Tags:  map[string]string{"comparable-args": "0", "mode": "named", "names": "a", "nparams": "1", "nresults": "3"},
	},
	{ID: "T6", Type: reflect.TypeOf((*func(byte) float64)(nil)).Elem(), TypeStr: "func(byte) float64",
		Funcs: map[string]any{"mem": p.MemT6},
		Tags:  map[string]string{"comparable-args": "1", "mode": "unnamed", "names": "", "nparams": "1", "nresults": "1"},
	},
	{ID: "T7", Type: reflect.TypeOf((*func(a *int, b uint32, c p.N0) map[float64]p.K0)(nil)).Elem(), TypeStr: "func(a *int, b uint32, c p.N0) map[float64]p.K0",
		Funcs: map[string]any{"mem": p.MemT7},
		Tags:  map[string]string{"comparable-args": "0", "mode": "named", "names": "a,b,c", "nparams": "3", "nresults": "1"},
	},
	{ID: "T8", Type: reflect.TypeOf((*func(a p.N0, b ext.E0, c map[[1]uint]uint32) (p.N0, ext.E0, ext.Num))(nil)).Elem(), TypeStr: "func(a p.N0, b ext.E0, c map[[1]uint]uint32) (p.N0, ext.E0, ext.Num)",
		Funcs: map[string]any{"mem": p.MemT8},
		Tags:  map[string]string{"comparable-args": "0", "mode": "named", "names": "a,b,c", "nparams": "3", "nresults": "3"},
	},
	{ID: "T9", Type: reflect.TypeOf((*func(int, int) (map[int]int32, uint8, other.Key))(nil)).Elem(), TypeStr: "func(int, int) (map[int]int32, uint8, other.Key)",
		Funcs: map[string]any{"mem": p.MemT9},
		Tags:  map[string]string{"comparable-args": "1", "mode": "unnamed", "names": ",", "nparams": "2", "nresults": "3"},
	},
	{ID: "T10", Type: reflect.TypeOf((*func(int64) interface{})(nil)).Elem(), TypeStr: "func(int64) interface{}",
		Funcs: map[string]any{"mem": p.MemT10},
		Tags:  map[string]string{"comparable-args": "1", "mode": "unnamed", "names": "", "nparams": "1", "nresults": "1"},
	},
	{ID: "T11", Type: reflect.TypeOf((*func() (interface{}, *rune, bool))(nil)).Elem(), TypeStr: "func() (interface{}, *rune, bool)",
		Funcs: map[string]any{"mem": p.MemT11},
		Tags:  map[string]string{"comparable-args": "1", "mode": "named", "names": "", "nparams": "0", "nresults": "3"},
	},
	{ID: "T12", Type: reflect.TypeOf((*func(a other.Num, b p.S0, c uint32))(nil)).Elem(), TypeStr: "func(a other.Num, b p.S0, c uint32)",
		Funcs: map[string]any{"mem": p.MemT12},
		Tags:  map[string]string{"comparable-args": "0", "mode": "named", "names": "a,b,c", "nparams": "3", "nresults": "0"},
	},
	{ID: "T13", Type: reflect.TypeOf((*func(a int8, b []byte) (p.N0, interface{}))(nil)).Elem(), TypeStr: "func(a int8, b []byte) (p.N0, interface{})",
		Funcs: map[string]any{"mem": p.MemT13},
		Tags:  map[string]string{"comparable-args": "0", "mode": "named", "names": "a,b", "nparams": "2", "nresults": "2"},
	},
}
