package other

type Num string

type Key struct {
	K0 int
	K1 rune
	k2 Num
}

type E0 struct {
	f0 [][]byte
}

type E1 struct {
}
