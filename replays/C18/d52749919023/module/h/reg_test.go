package h

import (
	"reflect"

	ext "subj/ext1"
	p "subj/p"
	other "subj/x/other"
)

var _ = p.Anchor

var Registry = []Entry{
	{ID: "T0", Type: reflect.TypeOf((*func(a ext.E0) ([3]other.Key, p.N1, p.MyBool))(nil)).Elem(), TypeStr: "func(a ext.E0) ([3]other.Key, p.N1, p.MyBool)",
		Funcs: map[string]any{"mem": p.MemT0},
		Tags:  map[string]string{"comparable-args": "1", "mode": "named", "names": "a", "nparams": "1", "nresults": "3"},
	},
	{ID: "T1", Type: reflect.TypeOf((*func(complex64, map[[0]p.MyI64][2]float64) (*map[string]p.N0, interface{}, error))(nil)).Elem(), TypeStr: "func(complex64, map[[0]p.MyI64][2]float64) (*map[string]p.N0, interface{}, error)",
		Funcs: map[string]any{"mem": p.MemT1},
		Tags:  map[string]string{"comparable-args": "0", "mode": "unnamed", "names": ",", "nparams": "2", "nresults": "3"},
	},
	{ID: "T2", Type: reflect.TypeOf((*func(a map[float32]map[p.K1]uint32, b [2]int16, c string) (p.MyC, int, int32))(nil)).Elem(), TypeStr: "func(a map[float32]map[p.K1]uint32, b [2]int16, c string) (p.MyC, int, int32)",
		Funcs: map[string]any{"mem": p.MemT2},
		Tags:  map[string]string{"comparable-args": "0", "mode": "named", "names": "a,b,c", "nparams": "3", "nresults": "3"},
	},
	{ID: "T3", Type: reflect.TypeOf((*func() *p.K0)(nil)).Elem(), TypeStr: "func() *p.K0",
		Funcs: map[string]any{"mem": p.MemT3},
		Tags:  map[string]string{"comparable-args": "1", "mode": "unnamed", "names": "", "nparams": "0", "nresults": "1"},
	},
	{ID: "T4", Type: reflect.TypeOf((*func() p.N0)(nil)).Elem(), TypeStr: "func() p.N0",
		Funcs: map[string]any{"mem": p.MemT4},
		Tags:  map[string]string{"comparable-args": "1", "mode": "named", "names": "", "nparams": "0", "nresults": "1"},
	},
	{ID: "T5", Type: reflect.TypeOf((*func(a map[[2]int8]p.K1, b p.N0, c int16) (int8, map[p.MyU]p.MyU))(nil)).Elem(), TypeStr: "func(a map[[2]int8]p.K1, b p.N0, c int16) (int8, map[p.MyU]p.MyU)",
		Funcs: map[string]any{"mem": p.MemT5},
		Tags:  map[string]string{"comparable-args": "0", "mode": "named", "names": "a,b,c", "nparams": "3", "nresults": "2"},
	},
	{ID: "T6", Type: reflect.TypeOf((*func(a [0]ext.Num, b ext.Num) (map[p.K0]p.N0, rune, int))(nil)).Elem(), TypeStr: "func(a [0]ext.Num, b ext.Num) (map[p.K0]p.N0, rune, int)",
		Funcs: map[string]any{"mem": p.MemT6},
		Tags:  map[string]string{"comparable-args": "1", "mode": "named", "names": "a,b", "nparams": "2", "nresults": "3"},
	},
	{ID: "T7", Type: reflect.TypeOf((*func() (error, map[[2]uint]p.K0, p.MyBool))(nil)).Elem(), TypeStr: "func() (error, map[[2]uint]p.K0, p.MyBool)",
		Funcs: map[string]any{"mem": p.MemT7},
		Tags:  map[string]string{"comparable-args": "1", "mode": "named", "names": "", "nparams": "0", "nresults": "3"},
	},
	{ID: "T8", Type: reflect.TypeOf((*func(a [2]int, b p.N0) int)(nil)).Elem(), TypeStr: "func(a [2]int, b p.N0) int",
		Funcs: map[string]any{"mem": p.MemT8},
		Tags:  map[string]string{"comparable-args": "0", "mode": "named", "names": "a,b", "nparams": "2", "nresults": "1"},
	},
	{ID: "T9", Type: reflect.TypeOf((*func() (bool, error))(nil)).Elem(), TypeStr: "func() (bool, error)",
		Funcs: map[string]any{"mem": p.MemT9},
		Tags:  map[string]string{"comparable-args": "1", "mode": "named", "names": "", "nparams": "0", "nresults": "2"},
	},
	{ID: "T10", Type: reflect.TypeOf((*func() []p.S1)(nil)).Elem(), TypeStr: "func() []p.S1",
		Funcs: map[string]any{"mem": p.MemT10},
		Tags:  map[string]string{"comparable-args": "1", "mode": "named", "names": "", "nparams": "0", "nresults": "1"},
	},
	{ID: "T11", Type: reflect.TypeOf((*func(ext.E0, map[complex128]map[int32]rune, uint) (p.N2, int16, p.S1))(nil)).Elem(), TypeStr: "func(ext.E0, map[complex128]map[int32]rune, uint) (p.N2, int16, p.S1)",
		Funcs: map[string]any{"mem": p.MemT11},
		Tags:  map[string]string{"comparable-args": "0", "mode": "unnamed", "names": ",,", "nparams": "3", "nresults": "3"},
	},
	{ID: "T12", Type: reflect.TypeOf((*func(a []p.K1, b int, c *[1]uint64))(nil)).Elem(), TypeStr: "func(a []p.K1, b int, c *[1]uint64)",
		Funcs: map[string]any{"mem": p.MemT12},
		Tags:  map[string]string{"comparable-args": "0", "mode": "named", "names": "a,b,c", "nparams": "3", "nresults": "0"},
	},
	{ID: "T13", Type: reflect.TypeOf((*func())(nil)).Elem(), TypeStr: "func()",
		Funcs: map[string]any{"mem": p.MemT13},
		Tags:  map[string]string{"comparable-args": "1", "mode": "unnamed", "names": "", "nparams": "0", "nresults": "0"},
	},
}
