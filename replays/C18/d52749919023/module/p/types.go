package p

type MyI64 int64

type MyU uint

type MyBool bool

type MyC complex128

type N0 []MyI64

type N1 map[string]uint

type N2 []uintptr

type K0 struct {
	F0 MyI64
}

type K1 struct {
	F0 MyU
}

type S0 struct {
	F0 float64
}

type S1 struct {
	f0 float64
}
