package p

import (
	ext "subj/ext1"
	other "subj/x/other"
)

var Anchor = 0

func MemT0(f func(a ext.E0) ([3]other.Key, N1, MyBool)) any {
	return deriveMemT0(f)
}

func MemT1(f func(complex64, map[[0]MyI64][2]float64) (*map[string]N0, interface{}, error)) any {
	return deriveMemT1(f)
}

func MemT2(f func(a map[float32]map[K1]uint32, b [2]int16, c string) (MyC, int, int32)) any {
	return deriveMemT2(f)
}

func MemT3(f func() *K0) any {
	return deriveMemT3(f)
}

func MemT4(f func() N0) any {
	return deriveMemT4(f)
}

func MemT5(f func(a map[[2]int8]K1, b N0, c int16) (int8, map[MyU]MyU)) any {
	return deriveMemT5(f)
}

func MemT6(f func(a [0]ext.Num, b ext.Num) (map[K0]N0, rune, int)) any {
	return deriveMemT6(f)
}

func MemT7(f func() (error, map[[2]uint]K0, MyBool)) any {
	return deriveMemT7(f)
}

func MemT8(f func(a [2]int, b N0) int) any {
	return deriveMemT8(f)
}

func MemT9(f func() (bool, error)) any {
	return deriveMemT9(f)
}

func MemT10(f func() []S1) any {
	return deriveMemT10(f)
}

func MemT11(f func(ext.E0, map[complex128]map[int32]rune, uint) (N2, int16, S1)) any {
	return deriveMemT11(f)
}

func MemT12(f func(a []K1, b int, c *[1]uint64)) any {
	return deriveMemT12(f)
}

func MemT13(f func()) any {
	return deriveMemT13(f)
}
