package ext

type Num int64

type Key struct {
	K0 bool
	K1 complex128
}

type E0 struct {
	f0 Key
}
