package h

import (
	"reflect"

	p "subj/p"
	ext2 "subj/x/ext"
)

var _ = p.Anchor

var Registry = []Entry{
	{ID: "T0", Type: reflect.TypeOf((*func() (int32, error, *p.K1))(nil)).Elem(), TypeStr: "func() (int32, error, *p.K1)",
		Funcs: map[string]any{"mem": p.MemT0},
		Tags:  map[string]string{"comparable-args": "1", "mode": "named", "names": "", "nparams": "0", "nresults": "3"},
	},
	{ID: "T1", Type: reflect.TypeOf((*func(a float64, b p.MyU) (p.S0, interface{}, error))(nil)).Elem(), TypeStr: "func(a float64, b p.MyU) (p.S0, interface{}, error)",
		Funcs: map[string]any{"mem": p.MemT1},
		Tags:  map[string]string{"comparable-args": "1", "mode": "named", "names": "a,b", "nparams": "2", "nresults": "3"},
	},
	{ID: "T2", Type: reflect.TypeOf((*func(uint64, p.MyU, map[p.MyU]uint))(nil)).Elem(), TypeStr: "func(uint64, p.MyU, map[p.MyU]uint)",
		Funcs: map[string]any{"mem": p.MemT2},
		Tags:  map[string]string{"comparable-args": "0", "mode": "unnamed", "names": ",,", "nparams": "3", "nresults": "0"},
	},
	{ID: "T3", Type: reflect.TypeOf((*func(p.N0) *p.K1)(nil)).Elem(), TypeStr: "func(p.N0) *p.K1",
		Funcs: map[string]any{"mem": p.MemT3},
		Tags:  map[string]string{"comparable-args": "1", "mode": "unnamed", "names": "", "nparams": "1", "nresults": "1"},
	},
	{ID: "T4", Type: reflect.TypeOf((*func(p.N0, int8, int32))(nil)).Elem(), TypeStr: "func(p.N0, int8, int32)",
		Funcs: map[string]any{"mem": p.MemT4},
		Tags:  map[string]string{"comparable-args": "1", "mode": "unnamed", "names": ",,", "nparams": "3", "nresults": "0"},
	},
	{ID: "T5", Type: reflect.TypeOf((*func(a p.N1, b map[p.K0]p.K0, c p.MyU) uint)(nil)).Elem(), TypeStr: "func(a p.N1, b map[p.K0]p.K0, c p.MyU) uint",
		Funcs: map[string]any{"mem": p.MemT5},
		Tags:  map[string]string{"comparable-args": "0", "mode": "named", "names": "a,b,c", "nparams": "3", "nresults": "1"},
	},
	{ID: "T6", Type: reflect.TypeOf((*func(p.N1, ext2.Num) (uint8, p.MyU))(nil)).Elem(), TypeStr: "func(p.N1, ext2.Num) (uint8, p.MyU)",
		Funcs: map[string]any{"mem": p.MemT6},
		Tags:  map[string]string{"comparable-args": "0", "mode": "unnamed", "names": ",", "nparams": "2", "nresults": "2"},
	},
	{ID: "T7", Type: reflect.TypeOf((*func(string) (interface{}, p.MyU, interface{}))(nil)).Elem(), TypeStr: "func(string) (interface{}, p.MyU, interface{})",
		Funcs: map[string]any{"mem": p.MemT7},
		Tags:  map[string]string{"comparable-args": "1", "mode": "unnamed", "names": "", "nparams": "1", "nresults": "3"},
	},
	{ID: "T8", Type: reflect.TypeOf((*func(a []ext2.E0, b p.N0) (int64, uintptr))(nil)).Elem(), TypeStr: "func(a []ext2.E0, b p.N0) (int64, uintptr)",
		Funcs: map[string]any{"mem": p.MemT8},
		Tags:  map[string]string{"comparable-args": "0", "mode": "named", "names": "a,b", "nparams": "2", "nresults": "2"},
	},
	{ID: "T9", Type: reflect.TypeOf((*func())(nil)).Elem(), TypeStr: "func()",
		Funcs: map[string]any{"mem": p.MemT9},
		Tags:  map[string]string{"comparable-args": "1", "mode": "named", "names": "", "nparams": "0", "nresults": "0"},
	},
	{ID: "T10", Type: reflect.TypeOf((*func(int16) (error, p.N1, int64))(nil)).Elem(), TypeStr: "func(int16) (error, p.N1, int64)",
		Funcs: map[string]any{"mem": p.MemT10},
		Tags:  map[string]string{"comparable-args": "1", "mode": "unnamed", "names": "", "nparams": "1", "nresults": "3"},
	},
	{ID: "T11", Type: reflect.TypeOf((*func(a map[uint]p.S0, b uint64, c p.N0) error)(nil)).Elem(), TypeStr: "func(a map[uint]p.S0, b uint64, c p.N0) error",
		Funcs: map[string]any{"mem": p.MemT11},
		Tags:  map[string]string{"comparable-args": "0", "mode": "named", "names": "a,b,c", "nparams": "3", "nresults": "1"},
	},
	{ID: "T12", Type: reflect.TypeOf((*func(a *rune, b p.S0) p.N1)(nil)).Elem(), TypeStr: "func(a *rune, b p.S0) p.N1",
		Funcs: map[string]any{"mem": p.MemT12},
		Tags:  map[string]string{"comparable-args": "0", "mode": "named", "names": "a,b", "nparams": "2", "nresults": "1"},
	},
	{ID: "T13", Type: reflect.TypeOf((*func(int, uint16))(nil)).Elem(), TypeStr: "func(int, uint16)",
		Funcs: map[string]any{"mem": p.MemT13},
		Tags:  map[string]string{"comparable-args": "1", "mode": "unnamed", "names": ",", "nparams": "2", "nresults": "0"},
	},
}
