package p

type MyU uint

type N0 [2]string

type N1 *int64

type K0 struct {
	F0 int64
}

type K1 struct {
	F0 bool
	F1 K0
	F2 uint64
}

type S0 struct {
}
