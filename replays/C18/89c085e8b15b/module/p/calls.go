package p

import (
	ext2 "subj/x/ext"
)

var Anchor = 0

func MemT0(f func() (int32, error, *K1)) any {
	return deriveMemT0(f)
}

func MemT1(f func(a float64, b MyU) (S0, interface{}, error)) any {
	return deriveMemT1(f)
}

func MemT2(f func(uint64, MyU, map[MyU]uint)) any {
	return deriveMemT2(f)
}

func MemT3(f func(N0) *K1) any {
	return deriveMemT3(f)
}

func MemT4(f func(N0, int8, int32)) any {
	return deriveMemT4(f)
}

func MemT5(f func(a N1, b map[K0]K0, c MyU) uint) any {
	return deriveMemT5(f)
}

func MemT6(f func(N1, ext2.Num) (uint8, MyU)) any {
	return deriveMemT6(f)
}

func MemT7(f func(string) (interface{}, MyU, interface{})) any {
	return deriveMemT7(f)
}

func MemT8(f func(a []ext2.E0, b N0) (int64, uintptr)) any {
	return deriveMemT8(f)
}

func MemT9(f func()) any {
	return deriveMemT9(f)
}

func MemT10(f func(int16) (error, N1, int64)) any {
	return deriveMemT10(f)
}

func MemT11(f func(a map[uint]S0, b uint64, c N0) error) any {
	return deriveMemT11(f)
}

func MemT12(f func(a *rune, b S0) N1) any {
	return deriveMemT12(f)
}

func MemT13(f func(int, uint16)) any {
	return deriveMemT13(f)
}
