package ext

type Num string

type Key struct {
	k0 int32
	K1 int
	k2 uint8
}

type E0 struct {
	f0 int32
	F1 Key
	F2 uint8
	f3 bool
}
