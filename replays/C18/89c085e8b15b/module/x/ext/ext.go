package ext

type Num int

type Key struct {
	k0 uintptr
	K1 Num
}

type E0 struct {
}

type E1 struct {
}
