package ext

type Num int64

type Key struct {
	K0 int32
}

type E0 struct {
	F0 Num
	f1 []byte
	f2 []bool
}
