package ext

type Num float64

type Key struct {
	k0 Num
}

type E0 struct {
	f0 int16
	f1 Num
	f2 float32
	F3 map[uint64]*E0
}

type E1 struct {
}
