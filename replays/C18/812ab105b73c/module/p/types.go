package p

import (
	ext2 "subj/x/ext"
)

type MyStr string

type MyU8 uint8

type MyF32 float32

type N0 [][]MyF32

type N1 []ext2.Num

type N2 [3]uint8

type K0 struct {
	F0 uintptr
	F1 ext2.Num
	F2 [1]uint64
}

type K1 struct {
	f0 int64
}

type S0 struct {
}

type S1 struct {
	*S0
	F1 map[int64]S1
}

type S2 struct {
	f0 []byte
}
