package p

import (
	ext "subj/ext1"
	ext2 "subj/x/ext"
)

var Anchor = 0

func MemT0(f func(float64) (int8, int32)) any {
	return deriveMemT0(f)
}

func MemT1(f func(uint16) interface{}) any {
	return deriveMemT1(f)
}

func MemT2(f func([3]map[uint]K0)) any {
	return deriveMemT2(f)
}

func MemT3(f func() interface{}) any {
	return deriveMemT3(f)
}

func MemT4(f func(map[uintptr]ext.E0, int8, *string)) any {
	return deriveMemT4(f)
}

func MemT5(f func(a string)) any {
	return deriveMemT5(f)
}

func MemT6(f func(uint, []ext2.E0)) any {
	return deriveMemT6(f)
}

func MemT7(f func(N1, N0) (int16, MyF32, string)) any {
	return deriveMemT7(f)
}

func MemT8(f func() (rune, map[K0]K1, interface{})) any {
	return deriveMemT8(f)
}

func MemT9(f func()) any {
	return deriveMemT9(f)
}

func MemT10(f func([1]rune, N2, ext.E0) [2]complex64) any {
	return deriveMemT10(f)
}

func MemT11(f func(*S0) int) any {
	return deriveMemT11(f)
}

func MemT12(f func() (interface{}, error, rune)) any {
	return deriveMemT12(f)
}

func MemT13(f func(ext2.Key, ext.E1)) any {
	return deriveMemT13(f)
}
