package h

import (
	"reflect"

	ext "subj/ext1"
	p "subj/p"
	ext2 "subj/x/ext"
)

var _ = p.Anchor

var Registry = []Entry{
	{ID: "T0", Type: reflect.TypeOf((*func(float64) (int8, int32))(nil)).Elem(), TypeStr: "func(float64) (int8, int32)",
		Funcs: map[string]any{"mem": p.MemT0},
		Tags:  map[string]string{"comparable-args": "1", "mode": "unnamed", "names": "", "nparams": "1", "nresults": "2"},
	},
	{ID: "T1", Type: reflect.TypeOf((*func(uint16) interface{})(nil)).Elem(), TypeStr: "func(uint16) interface{}",
		Funcs: map[string]any{"mem": p.MemT1},
		Tags:  map[string]string{"comparable-args": "1", "mode": "unnamed", "names": "", "nparams": "1", "nresults": "1"},
	},
	{ID: "T2", Type: reflect.TypeOf((*func([3]map[uint]p.K0))(nil)).Elem(), TypeStr: "func([3]map[uint]p.K0)",
		Funcs: map[string]any{"mem": p.MemT2},
		Tags:  map[string]string{"comparable-args": "0", "mode": "unnamed", "names": "", "nparams": "1", "nresults": "0"},
	},
	{ID: "T3", Type: reflect.TypeOf((*func() interface{})(nil)).Elem(), TypeStr: "func() interface{}",
		Funcs: map[string]any{"mem": p.MemT3},
		Tags:  map[string]string{"comparable-args": "1", "mode": "named", "names": "", "nparams": "0", "nresults": "1"},
	},
	{ID: "T4", Type: reflect.TypeOf((*func(map[uintptr]ext.E0, int8, *string))(nil)).Elem(), TypeStr: "func(map[uintptr]ext.E0, int8, *string)",
		Funcs: map[string]any{"mem": p.MemT4},
		Tags:  map[string]string{"comparable-args": "0", "mode": "unnamed", "names": ",,", "nparams": "3", "nresults": "0"},
	},
	{ID: "T5", Type: reflect.TypeOf((*func(a string))(nil)).Elem(), TypeStr: "func(a string)",
		Funcs: map[string]any{"mem": p.MemT5},
		Tags:  map[string]string{"comparable-args": "1", "mode": "named", "names": "a", "nparams": "1", "nresults": "0"},
	},
	{ID: "T6", Type: reflect.TypeOf((*func(uint, []ext2.E0))(nil)).Elem(), TypeStr: "func(uint, []ext2.E0)",
		Funcs: map[string]any{"mem": p.MemT6},
		Tags:  map[string]string{"comparable-args": "0", "mode": "unnamed", "names": ",", "nparams": "2", "nresults": "0"},
	},
	{ID: "T7", Type: reflect.TypeOf((*func(p.N1, p.N0) (int16, p.MyF32, string))(nil)).Elem(), TypeStr: "func(p.N1, p.N0) (int16, p.MyF32, string)",
		Funcs: map[string]any{"mem": p.MemT7},
		Tags:  map[string]string{"comparable-args": "0", "mode": "unnamed", "names": ",", "nparams": "2", "nresults": "3"},
	},
	{ID: "T8", Type: reflect.TypeOf((*func() (rune, map[p.K0]p.K1, interface{}))(nil)).Elem(), TypeStr: "func() (rune, map[p.K0]p.K1, interface{})",
		Funcs: map[string]any{"mem": p.MemT8},
		Tags:  map[string]string{"comparable-args": "1", "mode": "named", "names": "", "nparams": "0", "nresults": "3"},
	},
	{ID: "T9", Type: reflect.TypeOf((*func())(nil)).Elem(), TypeStr: "func()",
		Funcs: map[string]any{"mem": p.MemT9},
		Tags:  map[string]string{"comparable-args": "1", "mode": "unnamed", "names": "", "nparams": "0", "nresults": "0"},
	},
	{ID: "T10", Type: reflect.TypeOf((*func([1]rune, p.N2, ext.E0) [2]complex64)(nil)).Elem(), TypeStr: "func([1]rune, p.N2, ext.E0) [2]complex64",
		Funcs: map[string]any{"mem": p.MemT10},
		Tags:  map[string]string{"comparable-args": "0", "mode": "unnamed", "names": ",,", "nparams": "3", "nresults": "1"},
	},
	{ID: "T11", Type: reflect.TypeOf((*func(*p.S0) int)(nil)).Elem(), TypeStr: "func(*p.S0) int",
		Funcs: map[string]any{"mem": p.MemT11},
		Tags:  map[string]string{"comparable-args": "0", "mode": "unnamed", "names": "", "nparams": "1", "nresults": "1"},
	},
	{ID: "T12", Type: reflect.TypeOf((*func() (interface{}, error, rune))(nil)).Elem(), TypeStr: "func() (interface{}, error, rune)",
		Funcs: map[string]any{"mem": p.MemT12},
		Tags:  map[string]string{"comparable-args": "1", "mode": "unnamed", "names": "", "nparams": "0", "nresults": "3"},
	},
	{ID: "T13", Type: reflect.TypeOf((*func(ext2.Key, ext.E1))(nil)).Elem(), TypeStr: "func(ext2.Key, ext.E1)",
		Funcs: map[string]any{"mem": p.MemT13},
		Tags:  map[string]string{"comparable-args": "1", "mode": "unnamed", "names": ",", "nparams": "2", "nresults": "0"},
	},
}
