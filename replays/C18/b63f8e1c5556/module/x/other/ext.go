package other

type Num int64

type Key struct {
	K0 bool
	k1 float32
}

type E0 struct {
	f0 [0][1]uint32
}
