package h

import (
	"reflect"

	ext "subj/ext1"
	p "subj/p"
	other "subj/x/other"
)

var _ = p.Anchor

var Registry = []Entry{
	{ID: "T0", Type: reflect.TypeOf((*func(a *map[uintptr]p.K1, b int16, c complex128) (int64, uint32))(nil)).Elem(), TypeStr: "func(a *map[uintptr]p.K1, b int16, c complex128) (int64, uint32)",
		Funcs: map[string]any{"mem": p.MemT0},
		Tags:  map[string]string{"comparable-args": "0", "mode": "named", "names": "a,b,c", "nparams": "3", "nresults": "2"},
	},
	{ID: "T1", Type: reflect.TypeOf((*func(p.K1))(nil)).Elem(), TypeStr: "func(p.K1)",
		Funcs: map[string]any{"mem": p.MemT1},
		Tags:  map[string]string{"comparable-args": "1", "mode": "unnamed", "names": "", "nparams": "1", "nresults": "0"},
	},
	{ID: "T2", Type: reflect.TypeOf((*func(a p.MyU, b int) interface{})(nil)).Elem(), TypeStr: "func(a p.MyU, b int) interface{}",
		Funcs: map[string]any{"mem": p.MemT2},
		Tags:  map[string]string{"comparable-args": "1", "mode": "named", "names": "a,b", "nparams": "2", "nresults": "1"},
	},
	{ID: "T3", Type: reflect.TypeOf((*func(string) (ext.Key, int8, interface{}))(nil)).Elem(), TypeStr: "func(string) (ext.Key, int8, interface{})",
		Funcs: map[string]any{"mem": p.MemT3},
		Tags:  map[string]string{"comparable-args": "1", "mode": "unnamed", "names": "", "nparams": "1", "nresults": "3"},
	},
	{ID: "T4", Type: reflect.TypeOf((*func(a byte) (error, interface{}, interface{}))(nil)).Elem(), TypeStr: "func(a byte) (error, interface{}, interface{})",
		Funcs: map[string]any{"mem": p.MemT4},
		Tags:  map[string]string{"comparable-args": "1", "mode": "named", "names": "a", "nparams": "1", "nresults": "3"},
	},
	{ID: "T5", Type: reflect.TypeOf((*func())(nil)).Elem(), TypeStr: "func()",
		Funcs: map[string]any{"mem": p.MemT5},
		Tags:  map[string]string{"comparable-args": "1", "mode": "unnamed", "names": "", "nparams": "0", "nresults": "0"},
	},
	{ID: "T6", Type: reflect.TypeOf((*func(other.Key, p.S0) interface{})(nil)).Elem(), TypeStr: "func(other.Key, p.S0) interface{}",
		Funcs: map[string]any{"mem": p.MemT6},
		Tags:  map[string]string{"comparable-args": "1", "mode": "unnamed", "names": ",", "nparams": "2", "nresults": "1"},
	},
	{ID: "T7", Type: reflect.TypeOf((*func(other.E0) (p.K1, *uint32))(nil)).Elem(), TypeStr: "func(other.E0) (p.K1, *uint32)",
		Funcs: map[string]any{"mem": p.MemT7},
		Tags:  map[string]string{"comparable-args": "1", "mode": "unnamed", "names": "", "nparams": "1", "nresults": "2"},
	},
	{ID: "T8", Type: reflect.TypeOf((*func(a *p.S2, b ext.E0) (byte, string, int8))(nil)).Elem(), TypeStr: "func(a *p.S2, b ext.E0) (byte, string, int8)",
		Funcs: map[string]any{"mem": p.MemT8},
		Tags:  map[string]string{"comparable-args": "0", "mode": "named", "names": "a,b", "nparams": "2", "nresults": "3"},
	},
	{ID: "T9", Type: reflect.TypeOf((*func(uint32) (int16, interface{}))(nil)).Elem(), TypeStr: "func(uint32) (int16, interface{})",
		Funcs: map[string]any{"mem": p.MemT9},
		Tags:  map[string]string{"comparable-args": "1", "mode": "unnamed", "names": "", "nparams": "1", "nresults": "2"},
	},
	{ID: "T10", Type: reflect.TypeOf((*func(ext.E0, uint))(nil)).Elem(), TypeStr: "func(ext.E0, uint)",
		Funcs: map[string]any{"mem": p.MemT10},
		Tags:  map[string]string{"comparable-args": "1", "mode": "unnamed", "names": ",", "nparams": "2", "nresults": "0"},
	},
	{ID: "T11", Type: reflect.TypeOf((*func() ([]p.S2, int))(nil)).Elem(), TypeStr: "func() ([]p.S2, int)",
		Funcs: map[string]any{"mem": p.MemT11},
		Tags:  map[string]string{"comparable-args": "1", "mode": "unnamed", "names": "", "nparams": "0", "nresults": "2"},
	},
	{ID: "T12", Type: reflect.TypeOf((*func(a float32, b p.MyU) (uint32, p.S0))(nil)).Elem(), TypeStr: "func(a float32, b p.MyU) (uint32, p.S0)",
		Funcs: map[string]any{"mem": p.MemT12},
		Tags:  map[string]string{"comparable-args": "1", "mode": "named", "names": "a,b", "nparams": "2", "nresults": "2"},
	},
	{ID: "T13", Type: reflect.TypeOf((*func(a uintptr, b *map[float32]p.S1) (*p.S0, error, string))(nil)).Elem(), TypeStr: "func(a uintptr, b *map[float32]p.S1) (*p.S0, error, string)",
		Funcs: map[string]any{"mem": p.MemT13},
		Tags:  map[string]string{"comparable-args": "0", "mode": "named", "names": "a,b", "nparams": "2", "nresults": "3"},
	},
}
