package ext

type Num int64

type Key struct {
	k0 int8
	k1 int
	k2 int8
}

type E0 struct {
	f0 [1][1]int8
}

type E1 struct {
	f0 *E1
	f1 uint
	f2 Num
	F3 E0
}
