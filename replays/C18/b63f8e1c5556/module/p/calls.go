package p

import (
	ext "subj/ext1"
	other "subj/x/other"
)

var Anchor = 0

func MemT0(f func(a *map[uintptr]K1, b int16, c complex128) (int64, uint32)) any {
	return deriveMemT0(f)
}

func MemT1(f func(K1)) any {
	return deriveMemT1(f)
}

func MemT2(f func(a MyU, b int) interface{}) any {
	return deriveMemT2(f)
}

func MemT3(f func(string) (ext.Key, int8, interface{})) any {
	return deriveMemT3(f)
}

func MemT4(f func(a byte) (error, interface{}, interface{})) any {
	return deriveMemT4(f)
}

func MemT5(f func()) any {
	return deriveMemT5(f)
}

func MemT6(f func(other.Key, S0) interface{}) any {
	return deriveMemT6(f)
}

func MemT7(f func(other.E0) (K1, *uint32)) any {
	return deriveMemT7(f)
}

func MemT8(f func(a *S2, b ext.E0) (byte, string, int8)) any {
	return deriveMemT8(f)
}

func MemT9(f func(uint32) (int16, interface{})) any {
	return deriveMemT9(f)
}

func MemT10(f func(ext.E0, uint)) any {
	return deriveMemT10(f)
}

func MemT11(f func() ([]S2, int)) any {
	return deriveMemT11(f)
}

func MemT12(f func(a float32, b MyU) (uint32, S0)) any {
	return deriveMemT12(f)
}

func MemT13(f func(a uintptr, b *map[float32]S1) (*S0, error, string)) any {
	return deriveMemT13(f)
}
