package p

import (
	ext "subj/ext1"
	other "subj/x/other"
)

type MyU uint

type K0 struct {
	F0 [2]MyU
	F1 other.Key
	f2 int
}

type K1 struct {
	f0 MyU
	f1 [0]int
	F2 int
}

type S0 struct {
	K1
	F1 int16
}

type S1 struct {
	F0 int32
}

type S2 struct {
	F0 *ext.E0
	f1 string
	f2 [1]K0
	F3 map[[0]K0]bool
	*S0
	f5 map[uint8]S2
}
