package p

import (
	ext "subj/ext1"
	ext2 "subj/x/ext"
)

var Anchor = 0

func MemT0(f func([3][]S1, float32, S1) (int, error)) any {
	return deriveMemT0(f)
}

func MemT1(f func(a int, b uint8, c [3]N0) (N2, error, ext2.Key)) any {
	return deriveMemT1(f)
}

func MemT2(f func(a string, b int8, c ext.Key) error) any {
	return deriveMemT2(f)
}

func MemT3(f func(K0, uintptr, map[rune]S0) (int, byte, *uint8)) any {
	return deriveMemT3(f)
}

func MemT4(f func([0]S0) interface{}) any {
	return deriveMemT4(f)
}

func MemT5(f func() []byte) any {
	return deriveMemT5(f)
}

func MemT6(f func(a S1, b ext2.Num)) any {
	return deriveMemT6(f)
}

func MemT7(f func(a map[uint16]N2) interface{}) any {
	return deriveMemT7(f)
}

func MemT8(f func(a float64) error) any {
	return deriveMemT8(f)
}

func MemT9(f func(int32) ([]byte, error)) any {
	return deriveMemT9(f)
}

func MemT10(f func(a uint64) error) any {
	return deriveMemT10(f)
}

func MemT11(f func(a bool) (error, int)) any {
	return deriveMemT11(f)
}

func MemT12(f func() (error, int, error)) any {
	return deriveMemT12(f)
}

func MemT13(f func() int64) any {
	return deriveMemT13(f)
}
