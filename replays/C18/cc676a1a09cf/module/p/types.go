package p

import (
	ext "subj/ext1"
	ext2 "subj/x/ext"
)

type MyC complex128

type N0 []bool

type N1 map[MyC]ext.Num

type N2 *uint64

type K0 struct {
	F0 int8
}

type S0 struct {
	F0 [2]complex64
	f1 []K0
}

type S1 struct {
	F0 []S2
	F1 *S0
	F2 []MyC
	F3 **rune
	f4 *N2
	F5 *N0
}

type S2 struct {
	*K0
	f1 ext2.Num
}
