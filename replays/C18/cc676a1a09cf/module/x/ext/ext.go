package ext

import (
	ext "subj/ext1"
)

type Num float64

type Key struct {
	K0 float32
	k1 Num
}

type E0 struct {
	F0 uint64
	F1 ext.E0
}

type E1 struct {
	F0 int16
}
