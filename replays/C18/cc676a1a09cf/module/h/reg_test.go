package h

import (
	"reflect"

	ext "subj/ext1"
	p "subj/p"
	ext2 "subj/x/ext"
)

var _ = p.Anchor

var Registry = []Entry{
	{ID: "T0", Type: reflect.TypeOf((*func([3][]p.S1, float32, p.S1) (int, error))(nil)).Elem(), TypeStr: "func([3][]p.S1, float32, p.S1) (int, error)",
		Funcs: map[string]any{"mem": p.MemT0},
		Tags:  map[string]string{"comparable-args": "0", "mode": "unnamed", "names": ",,", "nparams": "3", "nresults": "2"},
	},
	{ID: "T1", Type: reflect.TypeOf((*func(a int, b uint8, c [3]p.N0) (p.N2, error, ext2.Key))(nil)).Elem(), TypeStr: "func(a int, b uint8, c [3]p.N0) (p.N2, error, ext2.Key)",
		Funcs: map[string]any{"mem": p.MemT1},
		Tags:  map[string]string{"comparable-args": "0", "mode": "named", "names": "a,b,c", "nparams": "3", "nresults": "3"},
	},
	{ID: "T2", Type: reflect.TypeOf((*func(a string, b int8, c ext.Key) error)(nil)).Elem(), TypeStr: "func(a string, b int8, c ext.Key) error",
		Funcs: map[string]any{"mem": p.MemT2},
		Tags:  map[string]string{"comparable-args": "1", "mode": "named", "names": "a,b,c", "nparams": "3", "nresults": "1"},
	},
	{ID: "T3", Type: reflect.TypeOf((*func(p.K0, uintptr, map[rune]p.S0) (int, byte, *uint8))(nil)).Elem(), TypeStr: "func(p.K0, uintptr, map[rune]p.S0) (int, byte, *uint8)",
		Funcs: map[string]any{"mem": p.MemT3},
		Tags:  map[string]string{"comparable-args": "0", "mode": "unnamed", "names": ",,", "nparams": "3", "nresults": "3"},
	},
	{ID: "T4", Type: reflect.TypeOf((*func([0]p.S0) interface{})(nil)).Elem(), TypeStr: "func([0]p.S0) interface{}",
		Funcs: map[string]any{"mem": p.MemT4},
		Tags:  map[string]string{"comparable-args": "0", "mode": "unnamed", "names": "", "nparams": "1", "nresults": "1"},
	},
	{ID: "T5", Type: reflect.TypeOf((*func() []byte)(nil)).Elem(), TypeStr: "func() []byte",
		Funcs: map[string]any{"mem": p.MemT5},
		Tags:  map[string]string{"comparable-args": "1", "mode": "unnamed", "names": "", "nparams": "0", "nresults": "1"},
	},
	{ID: "T6", Type: reflect.TypeOf((*func(a p.S1, b ext2.Num))(nil)).Elem(), TypeStr: "func(a p.S1, b ext2.Num)",
		Funcs: map[string]any{"mem": p.MemT6},
		Tags:  map[string]string{"comparable-args": "0", "mode": "named", "names": "a,b", "nparams": "2", "nresults": "0"},
	},
	{ID: "T7", Type: reflect.TypeOf((*func(a map[uint16]p.N2) interface{})(nil)).Elem(), TypeStr: "func(a map[uint16]p.N2) interface{}",
		Funcs: map[string]any{"mem": p.MemT7},
		Tags:  map[string]string{"comparable-args": "0", "mode": "named", "names": "a", "nparams": "1", "nresults": "1"},
	},
	{ID: "T8", Type: reflect.TypeOf((*func(a float64) error)(nil)).Elem(), TypeStr: "func(a float64) error",
		Funcs: map[string]any{"mem": p.MemT8},
		Tags:  map[string]string{"comparable-args": "1", "mode": "named", "names": "a", "nparams": "1", "nresults": "1"},
	},
	{ID: "T9", Type: reflect.TypeOf((*func(int32) ([]byte, error))(nil)).Elem(), TypeStr: "func(int32) ([]byte, error)",
		Funcs: map[string]any{"mem": p.MemT9},
		Tags:  map[string]string{"comparable-args": "1", "mode": "unnamed", "names": "", "nparams": "1", "nresults": "2"},
	},
	{ID: "T10", Type: reflect.TypeOf((*func(a uint64) error)(nil)).Elem(), TypeStr: "func(a uint64) error",
		Funcs: map[string]any{"mem": p.MemT10},
		Tags:  map[string]string{"comparable-args": "1", "mode": "named", "names": "a", "nparams": "1", "nresults": "1"},
	},
	{ID: "T11", Type: reflect.TypeOf((*func(a bool) (error, int))(nil)).Elem(), TypeStr: "func(a bool) (error, int)",
		Funcs: map[string]any{"mem": p.MemT11},
		Tags:  map[string]string{"comparable-args": "1", "mode": "named", "names": "a", "nparams": "1", "nresults": "2"},
	},
	{ID: "T12", Type: reflect.TypeOf((*func() (error, int, error))(nil)).Elem(), TypeStr: "func() (error, int, error)",
		Funcs: map[string]any{"mem": p.MemT12},
		Tags:  map[string]string{"comparable-args": "1", "mode": "named", "names": "", "nparams": "0", "nresults": "3"},
	},
	{ID: "T13", Type: reflect.TypeOf((*func() int64)(nil)).Elem(), TypeStr: "func() int64",
		Funcs: map[string]any{"mem": p.MemT13},
		Tags:  map[string]string{"comparable-args": "1", "mode": "unnamed", "names": "", "nparams": "0", "nresults": "1"},
	},
}
