package ext

type Num float64

type Key struct {
	K0 uint
	K1 Num
	k2 uintptr
}

type E0 struct {
}

type E1 struct {
	f0 int8
	f1 [1]int16
	f2 map[Key]E0
}
