package p

import (
	ext "subj/ext1"
	ext2 "subj/x/ext"
)

type MyInt int

type MyF float64

type MyI64 int64

type N0 map[ext.Num]ext.Num

type K0 struct {
}

type K1 struct {
	F0 ext2.Key
}

type S0 struct {
	f0 map[int32]S0
	F1 N0
	F2 float64
	F3 []MyInt
	F4 N0
	F5 *map[uint8]ext.Num
}
