package p

import (
	ext "subj/ext1"
	ext2 "subj/x/ext"
)

var Anchor = 0

func MemT0(f func() (MyF, N0)) any {
	return deriveMemT0(f)
}

func MemT1(f func(ext.Num) ([]byte, interface{})) any {
	return deriveMemT1(f)
}

func MemT2(f func(a uintptr, b S0, c map[ext.Num]int8) (interface{}, ext2.Key, error)) any {
	return deriveMemT2(f)
}

func MemT3(f func() (error, error)) any {
	return deriveMemT3(f)
}

func MemT4(f func(a []ext.Num) (N0, complex128)) any {
	return deriveMemT4(f)
}

func MemT5(f func(map[ext2.Num]K1)) any {
	return deriveMemT5(f)
}

func MemT6(f func([3]*complex64)) any {
	return deriveMemT6(f)
}

func MemT7(f func(*K0, int)) any {
	return deriveMemT7(f)
}

func MemT8(f func() (int8, MyF)) any {
	return deriveMemT8(f)
}

func MemT9(f func()) any {
	return deriveMemT9(f)
}

func MemT10(f func(a []K0, b *uintptr) (error, interface{}, K0)) any {
	return deriveMemT10(f)
}

func MemT11(f func(complex128, []ext2.E0)) any {
	return deriveMemT11(f)
}

func MemT12(f func(a MyInt) int16) any {
	return deriveMemT12(f)
}

func MemT13(f func(int8) int) any {
	return deriveMemT13(f)
}
