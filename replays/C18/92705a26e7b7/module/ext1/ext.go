package ext

type Num float64

type Key struct {
	K0 bool
	k1 uintptr
}

type E0 struct {
	f0 []int
	f1 uint
}
