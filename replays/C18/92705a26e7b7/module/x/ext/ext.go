package ext

type Num uint8

type Key struct {
	k0 int
	k1 int32
	k2 uint64
}

type E0 struct {
	F0 Num
}
