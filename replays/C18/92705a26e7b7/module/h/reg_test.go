package h

import (
	"reflect"

	ext "subj/ext1"
	p "subj/p"
	ext2 "subj/x/ext"
)

var _ = p.Anchor

var Registry = []Entry{
	{ID: "T0", Type: reflect.TypeOf((*func() (p.MyF, p.N0))(nil)).Elem(), TypeStr: "func() (p.MyF, p.N0)",
		Funcs: map[string]any{"mem": p.MemT0},
		Tags:  map[string]string{"comparable-args": "1", "mode": "unnamed", "names": "", "nparams": "0", "nresults": "2"},
	},
	{ID: "T1", Type: reflect.TypeOf((*func(ext.Num) ([]byte, interface{}))(nil)).Elem(), TypeStr: "func(ext.Num) ([]byte, interface{})",
		Funcs: map[string]any{"mem": p.MemT1},
		Tags:  map[string]string{"comparable-args": "1", "mode": "unnamed", "names": "", "nparams": "1", "nresults": "2"},
	},
	{ID: "T2", Type: reflect.TypeOf((*func(a uintptr, b p.S0, c map[ext.Num]int8) (interface{}, ext2.Key, error))(nil)).Elem(), TypeStr: "func(a uintptr, b p.S0, c map[ext.Num]int8) (interface{}, ext2.Key, error)",
		Funcs: map[string]any{"mem": p.MemT2},
		Tags:  map[string]string{"comparable-args": "0", "mode": "named", "names": "a,b,c", "nparams": "3", "nresults": "3"},
	},
	{ID: "T3", Type: reflect.TypeOf((*func() (error, error))(nil)).Elem(), TypeStr: "func() (error, error)",
		Funcs: map[string]any{"mem": p.MemT3},
		Tags:  map[string]string{"comparable-args": "1", "mode": "unnamed", "names": "", "nparams": "0", "nresults": "2"},
	},
	{ID: "T4", Type: reflect.TypeOf((*func(a []ext.Num) (p.N0, complex128))(nil)).Elem(), TypeStr: "func(a []ext.Num) (p.N0, complex128)",
		Funcs: map[string]any{"mem": p.MemT4},
		Tags:  map[string]string{"comparable-args": "0", "mode": "named", "names": "a", "nparams": "1", "nresults": "2"},
	},
	{ID: "T5", Type: reflect.TypeOf((*func(map[ext2.Num]p.K1))(nil)).Elem(), TypeStr: "func(map[ext2.Num]p.K1)",
		Funcs: map[string]any{"mem": p.MemT5},
		Tags:  map[string]string{"comparable-args": "0", "mode": "unnamed", "names": "", "nparams": "1", "nresults": "0"},
	},
	{ID: "T6", Type: reflect.TypeOf((*func([3]*complex64))(nil)).Elem(), TypeStr: "func([3]*complex64)",
		Funcs: map[string]any{"mem": p.MemT6},
		Tags:  map[string]string{"comparable-args": "0", "mode": "unnamed", "names": "", "nparams": "1", "nresults": "0"},
	},
	{ID: "T7", Type: reflect.TypeOf((*func(*p.K0, int))(nil)).Elem(), TypeStr: "func(*p.K0, int)",
		Funcs: map[string]any{"mem": p.MemT7},
		Tags:  map[string]string{"comparable-args": "0", "mode": "unnamed", "names": ",", "nparams": "2", "nresults": "0"},
	},
	{ID: "T8", Type: reflect.TypeOf((*func() (int8, p.MyF))(nil)).Elem(), TypeStr: "func() (int8, p.MyF)",
		Funcs: map[string]any{"mem": p.MemT8},
		Tags:  map[string]string{"comparable-args": "1", "mode": "named", "names": "", "nparams": "0", "nresults": "2"},
	},
	{ID: "T9", Type: reflect.TypeOf((*func())(nil)).Elem(), TypeStr: "func()",
		Funcs: map[string]any{"mem": p.MemT9},
		Tags:  map[string]string{"comparable-args": "1", "mode": "unnamed", "names": "", "nparams": "0", "nresults": "0"},
	},
	{ID: "T10", Type: reflect.TypeOf((*func(a []p.K0, b *uintptr) (error, interface{}, p.K0))(nil)).Elem(), TypeStr: "func(a []p.K0, b *uintptr) (error, interface{}, p.K0)",
		Funcs: map[string]any{"mem": p.MemT10},
		Tags:  map[string]string{"comparable-args": "0", "mode": "named", "names": "a,b", "nparams": "2", "nresults": "3"},
	},
	{ID: "T11", Type: reflect.TypeOf((*func(complex128, []ext2.E0))(nil)).Elem(), TypeStr: "func(complex128, []ext2.E0)",
		Funcs: map[string]any{"mem": p.MemT11},
		Tags:  map[string]string{"comparable-args": "0", "mode": "unnamed", "names": ",", "nparams": "2", "nresults": "0"},
	},
	{ID: "T12", Type: reflect.TypeOf((*func(a p.MyInt) int16)(nil)).Elem(), TypeStr: "func(a p.MyInt) int16",
		Funcs: map[string]any{"mem": p.MemT12},
		Tags:  map[string]string{"comparable-args": "1", "mode": "named", "names": "a", "nparams": "1", "nresults": "1"},
	},
	{ID: "T13", Type: reflect.TypeOf((*func(int8) int)(nil)).Elem(), TypeStr: "func(int8) int",
		Funcs: map[string]any{"mem": p.MemT13},
		Tags:  map[string]string{"comparable-args": "1", "mode": "unnamed", "names": "", "nparams": "1", "nresults": "1"},
	},
}
