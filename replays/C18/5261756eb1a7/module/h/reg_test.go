package h

import (
	"reflect"

	ext "subj/ext1"
	p "subj/p"
	other "subj/x/other"
)

var _ = p.Anchor

var Registry = []Entry{
	{ID: "T0", Type: reflect.TypeOf((*func() (p.N0, map[int8]p.S0, interface{}))(nil)).Elem(), TypeStr: "func() (p.N0, map[int8]p.S0, interface{})",
		Funcs: map[string]any{"mem": p.MemT0},
		Tags:  map[string]string{"comparable-args": "1", "mode": "unnamed", "names": "", "nparams": "0", "nresults": "3"},
	},
	{ID: "T1", Type: reflect.TypeOf((*func() (int, bool, bool))(nil)).Elem(), TypeStr: "func() (int, bool, bool)",
		Funcs: map[string]any{"mem": p.MemT1},
		Tags:  map[string]string{"comparable-args": "1", "mode": "named", "names": "", "nparams": "0", "nresults": "3"},
	},
	{ID: "T2", Type: reflect.TypeOf((*func() (p.N0, p.N2))(nil)).Elem(), TypeStr: "func() (p.N0, p.N2)",
		Funcs: map[string]any{"mem": p.MemT2},
		Tags:  map[string]string{"comparable-args": "1", "mode": "named", "names": "", "nparams": "0", "nresults": "2"},
	},
	{ID: "T3", Type: reflect.TypeOf((*func(a complex128) other.Key)(nil)).Elem(), TypeStr: "func(a complex128) other.Key",
		Funcs: map[string]any{"mem": p.MemT3},
		Tags:  map[string]string{"comparable-args": "1", "mode": "named", "names": "a", "nparams": "1", "nresults": "1"},
	},
	{ID: "T4", Type: reflect.TypeOf((*func(a *other.Num, b *int32, c uint8) error)(nil)).Elem(), TypeStr: "func(a *other.Num, b *int32, c uint8) error",
		Funcs: map[string]any{"mem": p.MemT4},
		Tags:  map[string]string{"comparable-args": "0", "mode": "named", "names": "a,b,c", "nparams": "3", "nresults": "1"},
	},
	{ID: "T5", Type: reflect.TypeOf((*func(map[p.K0]other.E0, **bool, other.Num) byte)(nil)).Elem(), TypeStr: "func(map[p.K0]other.E0, **bool, other.Num) byte",
		Funcs: map[string]any{"mem": p.MemT5},
		Tags:  map[string]string{"comparable-args": "0", "mode": "unnamed", "names": ",,", "nparams": "3", "nresults": "1"},
	},
	{ID: "T6", Type: reflect.TypeOf((*func() interface{})(nil)).Elem(), TypeStr: "func() interface{}",
		Funcs: map[string]any{"mem": p.MemT6},
		Tags:  map[string]string{"comparable-args": "1", "mode": "unnamed", "names": "", "nparams": "0", "nresults": "1"},
	},
	{ID: "T7", Type: reflect.TypeOf((*func(a p.S0))(nil)).Elem(), TypeStr: "func(a p.S0)",
		Funcs: map[string]any{"mem": p.MemT7},
		Tags:  map[string]string{"comparable-args": "1", "mode": "named", "names": "a", "nparams": "1", "nresults": "0"},
	},
	{ID: "T8", Type: reflect.TypeOf((*func([]p.S0, p.MyStr) (*map[uint16]other.Num, int8))(nil)).Elem(), TypeStr: "func([]p.S0, p.MyStr) (*map[uint16]other.Num, int8)",
		Funcs: map[string]any{"mem": p.MemT8},
		Tags:  map[string]string{"comparable-args": "0", "mode": "unnamed", "names": ",", "nparams": "2", "nresults": "2"},
	},
	{ID: "T9", Type: reflect.TypeOf((*func() int8)(nil)).Elem(), TypeStr: "func() int8",
		Funcs: map[string]any{"mem": p.MemT9},
		Tags:  map[string]string{"comparable-args": "1", "mode": "named", "names": "", "nparams": "0", "nresults": "1"},
	},
	{ID: "T10", Type: reflect.TypeOf((*func(a int8, b map[uint64]ext.Num) byte)(nil)).Elem(), TypeStr: "func(a int8, b map[uint64]ext.Num) byte",
		Funcs: map[string]any{"mem": p.MemT10},
		Tags:  map[string]string{"comparable-args": "0", "mode": "named", "names": "a,b", "nparams": "2", "nresults": "1"},
	},
	{ID: "T11", Type: reflect.TypeOf((*func(a [3]*uint8, b int32) (other.E0, p.MyRune, interface{}))(nil)).Elem(), TypeStr: "func(a [3]*uint8, b int32) (other.E0, p.MyRune, interface{})",
		Funcs: map[string]any{"mem": p.MemT11},
		Tags:  map[string]string{"comparable-args": "0", "mode": "named", "names": "a,b", "nparams": "2", "nresults": "3"},
	},
	{ID: "T12", Type: reflect.TypeOf((*func(a p.N1, b uint, c other.Num) (string, int8, float32))(nil)).Elem(), TypeStr: "func(a p.N1, b uint, c other.Num) (string, int8, float32)",
		Funcs: map[string]any{"mem": p.MemT12},
		Tags:  map[string]string{"comparable-args": "0", "mode": "named", "names": "a,b,c", "nparams": "3", "nresults": "3"},
	},
	{ID: "T13", Type: reflect.TypeOf((*func(a *p.N1) error)(nil)).Elem(), TypeStr: "func(a *p.N1) error",
		Funcs: map[string]any{"mem": p.MemT13},
		Tags:  map[string]string{"comparable-args": "0", "mode": "named", "names": "a", "nparams": "1", "nresults": "1"},
	},
}
