package ext

type Num int64

type Key struct {
	k0 bool
	k1 Num
}

type E0 struct {
	f0 uint32
	f1 uint64
	F2 []byte
}
