package other

type Num uint8

type Key struct {
	K0 int
}

type E0 struct {
}
