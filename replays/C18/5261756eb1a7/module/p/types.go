package p

import (
	ext "subj/ext1"
)

type MyC complex128

type MyRune rune

type MyStr string

type N0 []ext.Num

type N1 map[int32]uintptr

type N2 *rune

type K0 struct {
	F0 ext.Num
	F1 int
}

type S0 struct {
}

type S1 struct {
	F0 ext.Num
	f1 S0
	f2 ext.Num
}

type S2 struct {
	f0 int8
	K0
	F2 N1
}
