package p

import (
	ext "subj/ext1"
	other "subj/x/other"
)

var Anchor = 0

func MemT0(f func() (N0, map[int8]S0, interface{})) any {
	return deriveMemT0(f)
}

func MemT1(f func() (int, bool, bool)) any {
	return deriveMemT1(f)
}

func MemT2(f func() (N0, N2)) any {
	return deriveMemT2(f)
}

func MemT3(f func(a complex128) other.Key) any {
	return deriveMemT3(f)
}

func MemT4(f func(a *other.Num, b *int32, c uint8) error) any {
	return deriveMemT4(f)
}

func MemT5(f func(map[K0]other.E0, **bool, other.Num) byte) any {
	return deriveMemT5(f)
}

func MemT6(f func() interface{}) any {
	return deriveMemT6(f)
}

func MemT7(f func(a S0)) any {
	return deriveMemT7(f)
}

func MemT8(f func([]S0, MyStr) (*map[uint16]other.Num, int8)) any {
	return deriveMemT8(f)
}

func MemT9(f func() int8) any {
	return deriveMemT9(f)
}

func MemT10(f func(a int8, b map[uint64]ext.Num) byte) any {
	return deriveMemT10(f)
}

func MemT11(f func(a [3]*uint8, b int32) (other.E0, MyRune, interface{})) any {
	return deriveMemT11(f)
}

func MemT12(f func(a N1, b uint, c other.Num) (string, int8, float32)) any {
	return deriveMemT12(f)
}

func MemT13(f func(a *N1) error) any {
	return deriveMemT13(f)
}
