package other

type Num float64

type Key struct {
	K0 float32
	K1 uintptr
}

type E0 struct {
	F0 []byte
	F1 float32
	F2 int16
	f3 int32
}
