package h

import (
	"reflect"

	ext "subj/ext1"
	p "subj/p"
	other "subj/x/other"
)

var _ = p.Anchor

var Registry = []Entry{
	{ID: "T0", Type: reflect.TypeOf((*func(a complex128, b p.K0, c map[[0]string]int16))(nil)).Elem(), TypeStr: "func(a complex128, b p.K0, c map[[0]string]int16)",
		Funcs: map[string]any{"mem": p.MemT0},
		Tags:  map[string]string{"comparable-args": "0", "mode": "named", "names": "a,b,c", "nparams": "3", "nresults": "0"},
	},
	{ID: "T1", Type: reflect.TypeOf((*func(a []uint8))(nil)).Elem(), TypeStr: "func(a []uint8)",
		Funcs: map[string]any{"mem": p.MemT1},
		Tags:  map[string]string{"comparable-args": "0", "mode": "named", "names": "a", "nparams": "1", "nresults": "0"},
	},
	{ID: "T2", Type: reflect.TypeOf((*func(a [0]other.Key, b string, c uintptr) (error, p.N0, float32))(nil)).Elem(), TypeStr: "func(a [0]other.Key, b string, c uintptr) (error, p.N0, float32)",
		Funcs: map[string]any{"mem": p.MemT2},
		Tags:  map[string]string{"comparable-args": "1", "mode": "named", "names": "a,b,c", "nparams": "3", "nresults": "3"},
	},
	{ID: "T3", Type: reflect.TypeOf((*func(uint8, p.N0) (other.E0, []bool, int8))(nil)).Elem(), TypeStr: "func(uint8, p.N0) (other.E0, []bool, int8)",
		Funcs: map[string]any{"mem": p.MemT3},
		Tags:  map[string]string{"comparable-args": "1", "mode": "unnamed", "names": ",", "nparams": "2", "nresults": "3"},
	},
	{ID: "T4", Type: reflect.TypeOf((*func() []other.Num)(nil)).Elem(), TypeStr: "func() []other.Num",
		Funcs: map[string]any{"mem": p.MemT4},
		Tags:  map[string]string{"comparable-args": "1", "mode": "named", "names": "", "nparams": "0", "nresults": "1"},
	},
	{ID: "T5", Type: reflect.TypeOf((*func())(nil)).Elem(), TypeStr: "func()",
		Funcs: map[string]any{"mem": p.MemT5},
		Tags:  map[string]string{"comparable-args": "1", "mode": "unnamed", "names": "", "nparams": "0", "nresults": "0"},
	},
	{ID: "T6", Type: reflect.TypeOf((*func() (error, float64, float32))(nil)).Elem(), TypeStr: "func() (error, float64, float32)",
		Funcs: map[string]any{"mem": p.MemT6},
		Tags:  map[string]string{"comparable-args": "1", "mode": "unnamed", "names": "", "nparams": "0", "nresults": "3"},
	},
	{ID: "T7", Type: reflect.TypeOf((*func(int, other.E0) []float32)(nil)).Elem(), TypeStr: "func(int, other.E0) []float32",
		Funcs: map[string]any{"mem": p.MemT7},
		Tags:  map[string]string{"comparable-args": "0", "mode": "unnamed", "names": ",", "nparams": "2", "nresults": "1"},
	},
	{ID: "T8", Type: reflect.TypeOf((*func(int32) error)(nil)).Elem(), TypeStr: "func(int32) error",
		Funcs: map[string]any{"mem": p.MemT8},
		Tags:  map[string]string{"comparable-args": "1", "mode": "unnamed", "names": "", "nparams": "1", "nresults": "1"},
	},
	{ID: "T9", Type: reflect.TypeOf((*func(a complex64, b uint8, c other.Key) (float64, map[uint16]p.S1, [1]ext.E0))(nil)).Elem(), TypeStr: "func(a complex64, b uint8, c other.Key) (float64, map[uint16]p.S1, [1]ext.E0)",
		Funcs: map[string]any{"mem": p.MemT9},
		Tags:  map[string]string{"comparable-args": "1", "mode": "named", "names": "a,b,c", "nparams": "3", "nresults": "3"},
	},
	{ID: "T10", Type: reflect.TypeOf((*func(a []p.K0, b ext.Num, c p.MyF32) (p.K0, bool))(nil)).Elem(), TypeStr: "func(a []p.K0, b ext.Num, c p.MyF32) (p.K0, bool)",
		Funcs: map[string]any{"mem": p.MemT10},
		Tags:  map[string]string{"comparable-args": "0", "mode": "named", "names": "a,b,c", "nparams": "3", "nresults": "2"},
	},
	{ID: "T11", Type: reflect.TypeOf((*func(p.MyU8, p.MyF32, p.S0) *p.K0)(nil)).Elem(), TypeStr: "func(p.MyU8, p.MyF32, p.S0) *p.K0",
		Funcs: map[string]any{"mem": p.MemT11},
		Tags:  map[string]string{"comparable-args": "0", "mode": "unnamed", "names": ",,", "nparams": "3", "nresults": "1"},
	},
	{ID: "T12", Type: reflect.TypeOf((*func() (interface{}, uint, int32))(nil)).Elem(), TypeStr: "func() (interface{}, uint, int32)",
		Funcs: map[string]any{"mem": p.MemT12},
		Tags:  map[string]string{"comparable-args": "1", "mode": "named", "names": "", "nparams": "0", "nresults": "3"},
	},
	{ID: "T13", Type: reflect.TypeOf((*func(a p.MyF32, b ext.Key, c map[int8]uint16) map[float32][]bool)(nil)).Elem(), TypeStr: "func(a p.MyF32, b ext.Key, c map[int8]uint16) map[float32][]bool",
		Funcs: map[string]any{"mem": p.MemT13},
		Tags:  map[string]string{"comparable-args": "0", "mode": "named", "names": "a,b,c", "nparams": "3", "nresults": "1"},
	},
}
