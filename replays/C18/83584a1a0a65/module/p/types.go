package p

import (
	ext "subj/ext1"
	other "subj/x/other"
)

type MyU8 uint8

type MyF32 float32

type N0 [2]other.Num

type K0 struct {
	F0 complex128
	F1 MyF32
	f2 MyU8
}

type S0 struct {
	F0 []byte
	f1 K0
	F2 []S0
	F3 N0
}

type S1 struct {
	F0 other.E0
	f1 [0]*uint16
	F2 K0
	F3 uint64
	F4 *ext.E0
	F5 map[complex128]S1
}
