package p

import (
	ext "subj/ext1"
	other "subj/x/other"
)

var Anchor = 0

func MemT0(f func(a complex128, b K0, c map[[0]string]int16)) any {
	return deriveMemT0(f)
}

func MemT1(f func(a []uint8)) any {
	return deriveMemT1(f)
}

func MemT2(f func(a [0]other.Key, b string, c uintptr) (error, N0, float32)) any {
	return deriveMemT2(f)
}

func MemT3(f func(uint8, N0) (other.E0, []bool, int8)) any {
	return deriveMemT3(f)
}

func MemT4(f func() []other.Num) any {
	return deriveMemT4(f)
}

func MemT5(f func()) any {
	return deriveMemT5(f)
}

func MemT6(f func() (error, float64, float32)) any {
	return deriveMemT6(f)
}

func MemT7(f func(int, other.E0) []float32) any {
	return deriveMemT7(f)
}

func MemT8(f func(int32) error) any {
	return deriveMemT8(f)
}

func MemT9(f func(a complex64, b uint8, c other.Key) (float64, map[uint16]S1, [1]ext.E0)) any {
	return deriveMemT9(f)
}

func MemT10(f func(a []K0, b ext.Num, c MyF32) (K0, bool)) any {
	return deriveMemT10(f)
}

func MemT11(f func(MyU8, MyF32, S0) *K0) any {
	return deriveMemT11(f)
}

func MemT12(f func() (interface{}, uint, int32)) any {
	return deriveMemT12(f)
}

func MemT13(f func(a MyF32, b ext.Key, c map[int8]uint16) map[float32][]bool) any {
	return deriveMemT13(f)
}
