package ext

type Num string

type Key struct {
	K0 byte
	k1 int8
	K2 Num
}

type E0 struct {
}
