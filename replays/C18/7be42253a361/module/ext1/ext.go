package ext

type Num float64

type Key struct {
	K0 complex128
	k1 Num
}

type E0 struct {
	f0 int
	f1 *E0
	f2 map[string]map[Key]Key
	F3 int16
}

type E1 struct {
	f0 uintptr
	F1 int16
}
