package p

import (
	ext "subj/ext1"
	other "subj/x/other"
)

type MyStr string

type MyU8 uint8

type MyF32 float32

type N0 map[complex128]int

type K0 struct {
	F0 int
	f1 other.Key
}

type K1 struct {
	f0 uint16
	f1 uintptr
}

type S0 struct {
	F0 *S0
	F1 []bool
	f2 []map[int32]MyU8
	F3 MyU8
	F4 []bool
	F5 map[K0]S0
}

type S1 struct {
	F0 MyStr
	*K1
	F2 ext.Num
	F3 int
}

type S2 struct {
	F0 ext.E0
	K0
}
