package p

import (
	ext "subj/ext1"
	other "subj/x/other"
)

var Anchor = 0

func MemT0(f func(S2, int32)) any {
	return deriveMemT0(f)
}

func MemT1(f func() error) any {
	return deriveMemT1(f)
}

func MemT2(f func(S0, ext.Num, N0) ([]byte, interface{})) any {
	return deriveMemT2(f)
}

func MemT3(f func(other.E1) (int, *[]N0, float32)) any {
	return deriveMemT3(f)
}

func MemT4(f func(a int32, b N0, c map[uint8]map[[2]complex128]K0)) any {
	return deriveMemT4(f)
}

func MemT5(f func([]byte, uintptr, MyU8) (interface{}, []K1, int64)) any {
	return deriveMemT5(f)
}

func MemT6(f func(float64, *MyU8) (S1, *S1, uintptr)) any {
	return deriveMemT6(f)
}

func MemT7(f func(other.Key, N0, ext.Num)) any {
	return deriveMemT7(f)
}

func MemT8(f func(a float64, b float32) (interface{}, rune, map[uint16][]N0)) any {
	return deriveMemT8(f)
}

func MemT9(f func(S0, float64, uint8) (S0, [3]ext.E0)) any {
	return deriveMemT9(f)
}

func MemT10(f func(MyF32) (uint32, error, int16)) any {
	return deriveMemT10(f)
}

func MemT11(f func() uint16) any {
	return deriveMemT11(f)
}

func MemT12(f func(a byte, b uint32, c map[float64]K0) (rune, uint8, map[ext.Key]bool)) any {
	return deriveMemT12(f)
}

func MemT13(f func()) any {
	return deriveMemT13(f)
}
