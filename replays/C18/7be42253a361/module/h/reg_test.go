package h

import (
	"reflect"

	ext "subj/ext1"
	p "subj/p"
	other "subj/x/other"
)

var _ = p.Anchor

var Registry = []Entry{
	{ID: "T0", Type: reflect.TypeOf((*func(p.S2, int32))(nil)).Elem(), TypeStr: "func(p.S2, int32)",
		Funcs: map[string]any{"mem": p.MemT0},
		Tags:  map[string]string{"comparable-args": "0", "mode": "unnamed", "names": ",", "nparams": "2", "nresults": "0"},
	},
	{ID: "T1", Type: reflect.TypeOf((*func() error)(nil)).Elem(), TypeStr: "func() error",
		Funcs: map[string]any{"mem": p.MemT1},
		Tags:  map[string]string{"comparable-args": "1", "mode": "unnamed", "names": "", "nparams": "0", "nresults": "1"},
	},
	{ID: "T2", Type: reflect.TypeOf((*func(p.S0, ext.Num, p.N0) ([]byte, interface{}))(nil)).Elem(), TypeStr: "func(p.S0, ext.Num, p.N0) ([]byte, interface{})",
		Funcs: map[string]any{"mem": p.MemT2},
		Tags:  map[string]string{"comparable-args": "0", "mode": "unnamed", "names": ",,", "nparams": "3", "nresults": "2"},
	},
	{ID: "T3", Type: reflect.TypeOf((*func(other.E1) (int, *[]p.N0, float32))(nil)).Elem(), TypeStr: "func(other.E1) (int, *[]p.N0, float32)",
		Funcs: map[string]any{"mem": p.MemT3},
		Tags:  map[string]string{"comparable-args": "0", "mode": "unnamed", "names": "", "nparams": "1", "nresults": "3"},
	},
	{ID: "T4", Type: reflect.TypeOf((*func(a int32, b p.N0, c map[uint8]map[[2]complex128]p.K0))(nil)).Elem(), TypeStr: "func(a int32, b p.N0, c map[uint8]map[[2]complex128]p.K0)",
		Funcs: map[string]any{"mem": p.MemT4},
		Tags:  map[string]string{"comparable-args": "0", "mode": "named", "names": "a,b,c", "nparams": "3", "nresults": "0"},
	},
	{ID: "T5", Type: reflect.TypeOf((*func([]byte, uintptr, p.MyU8) (interface{}, []p.K1, int64))(nil)).Elem(), TypeStr: "func([]byte, uintptr, p.MyU8) (interface{}, []p.K1, int64)",
		Funcs: map[string]any{"mem": p.MemT5},
		Tags:  map[string]string{"comparable-args": "0", "mode": "unnamed", "names": ",,", "nparams": "3", "nresults": "3"},
	},
	{ID: "T6", Type: reflect.TypeOf((*func(float64, *p.MyU8) (p.S1, *p.S1, uintptr))(nil)).Elem(), TypeStr: "func(float64, *p.MyU8) (p.S1, *p.S1, uintptr)",
		Funcs: map[string]any{"mem": p.MemT6},
		Tags:  map[string]string{"comparable-args": "0", "mode": "unnamed", "names": ",", "nparams": "2", "nresults": "3"},
	},
	{ID: "T7", Type: reflect.TypeOf((*func(other.Key, p.N0, ext.Num))(nil)).Elem(), TypeStr: "func(other.Key, p.N0, ext.Num)",
		Funcs: map[string]any{"mem": p.MemT7},
		Tags:  map[string]string{"comparable-args": "0", "mode": "unnamed", "names": ",,", "nparams": "3", "nresults": "0"},
	},
	{ID: "T8", Type: reflect.TypeOf((*func(a float64, b float32) (interface{}, rune, map[uint16][]p.N0))(nil)).Elem(), TypeStr: "func(a float64, b float32) (interface{}, rune, map[uint16][]p.N0)",
		Funcs: map[string]any{"mem": p.MemT8},
		Tags:  map[string]string{"comparable-args": "1", "mode": "named", "names": "a,b", "nparams": "2", "nresults": "3"},
	},
	{ID: "T9", Type: reflect.TypeOf((*func(p.S0, float64, uint8) (p.S0, [3]ext.E0))(nil)).Elem(), TypeStr: "func(p.S0, float64, uint8) (p.S0, [3]ext.E0)",
		Funcs: map[string]any{"mem": p.MemT9},
		Tags:  map[string]string{"comparable-args": "0", "mode": "unnamed", "names": ",,", "nparams": "3", "nresults": "2"},
	},
	{ID: "T10", Type: reflect.TypeOf((*func(p.MyF32) (uint32, error, int16))(nil)).Elem(), TypeStr: "func(p.MyF32) (uint32, error, int16)",
		Funcs: map[string]any{"mem": p.MemT10},
		Tags:  map[string]string{"comparable-args": "1", "mode": "unnamed", "names": "", "nparams": "1", "nresults": "3"},
	},
	{ID: "T11", Type: reflect.TypeOf((*func() uint16)(nil)).Elem(), TypeStr: "func() uint16",
		Funcs: map[string]any{"mem": p.MemT11},
		Tags:  map[string]string{"comparable-args": "1", "mode": "unnamed", "names": "", "nparams": "0", "nresults": "1"},
	},
	{ID: "T12", Type: reflect.TypeOf((*func(a byte, b uint32, c map[float64]p.K0) (rune, uint8, map[ext.Key]bool))(nil)).Elem(), TypeStr: "func(a byte, b uint32, c map[float64]p.K0) (rune, uint8, map[ext.Key]bool)",
		Funcs: map[string]any{"mem": p.MemT12},
		Tags:  map[string]string{"comparable-args": "0", "mode": "named", "names": "a,b,c", "nparams": "3", "nresults": "3"},
	},
	{ID: "T13", Type: reflect.TypeOf((*func())(nil)).Elem(), TypeStr: "func()",
		Funcs: map[string]any{"mem": p.MemT13},
		Tags:  map[string]string{"comparable-args": "1", "mode": "named", "names": "", "nparams": "0", "nresults": "0"},
	},
}
