package other

import (
	ext "subj/ext1"
)

type Num string

type Key struct {
	K0 float64
}

type E0 struct {
	f0 []byte
}

type E1 struct {
	f0 complex64
	F1 ext.Num
	f2 []Num
	F3 uint32
}
