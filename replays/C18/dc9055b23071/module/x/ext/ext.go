package ext

import (
	ext "subj/ext1"
)

type Num int

type Key struct {
	k0 Num
	K1 string
	K2 int
}

type E0 struct {
	f0 ext.E0
}
