package p

import (
	ext "subj/ext1"
	ext2 "subj/x/ext"
)

var Anchor = 0

func MemT0(f func(a S0)) any {
	return deriveMemT0(f)
}

func MemT1(f func(complex64) [0]*bool) any {
	return deriveMemT1(f)
}

func MemT2(f func(a MyInt, b uint64)) any {
	return deriveMemT2(f)
}

func MemT3(f func(a string, b *MyF32) uint8) any {
	return deriveMemT3(f)
}

func MemT4(f func() (int, MyStr, complex128)) any {
	return deriveMemT4(f)
}

func MemT5(f func(*K0, int, complex64) (bool, map[uint16]string)) any {
	return deriveMemT5(f)
}

func MemT6(f func(a S0, b map[K0]ext2.E0)) any {
	return deriveMemT6(f)
}

func MemT7(f func(int8, uint) (string, int32)) any {
	return deriveMemT7(f)
}

func MemT8(f func(ext2.E0) map[ext2.Num]ext.Num) any {
	return deriveMemT8(f)
}

func MemT9(f func(K0, MyU8)) any {
	return deriveMemT9(f)
}

func MemT10(f func(S2, [3]ext.Key) (error, map[uintptr]K0, K0)) any {
	return deriveMemT10(f)
}

func MemT11(f func(*S0, *rune) (string, string, interface{})) any {
	return deriveMemT11(f)
}

func MemT12(f func(a ext.E0, b map[int]uint) ([]byte, string, error)) any {
	return deriveMemT12(f)
}

func MemT13(f func(map[bool]K0, uint16, int) (interface{}, map[ext.Key]bool)) any {
	return deriveMemT13(f)
}
