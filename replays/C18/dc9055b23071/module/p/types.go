package p

import (
	ext "subj/ext1"
	ext2 "subj/x/ext"
)

type MyStr string

type MyU8 uint8

type MyF32 float32

type MyInt int

type K0 struct {
	F0 ext2.Num
}

type S0 struct {
	F0 K0
	f1 [1]map[uintptr]string
	F2 [1]map[uint8]ext2.Key
	F3 uintptr
	F4 MyInt
	F5 ext.Num
}

type S1 struct {
	F0 *[]S1
	F1 int16
	F2 MyInt
	S0
	F4 []S0
	F5 *uint8
}

type S2 struct {
	f0 bool
	f1 []byte
	F2 K0
}
