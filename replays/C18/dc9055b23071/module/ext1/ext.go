package ext

type Num int64

type Key struct {
	k0 Num
	k1 uint64
	k2 uint
}

type E0 struct {
	f0 []*int
	f1 rune
}
