package h

import (
	"reflect"

	ext "subj/ext1"
	p "subj/p"
	ext2 "subj/x/ext"
)

var _ = p.Anchor

var Registry = []Entry{
	{ID: "T0", Type: reflect.TypeOf((*func(a p.S0))(nil)).Elem(), TypeStr: "func(a p.S0)",
		Funcs: map[string]any{"mem": p.MemT0},
		Tags:  map[string]string{"comparable-args": "0", "mode": "named", "names": "a", "nparams": "1", "nresults": "0"},
	},
	{ID: "T1", Type: reflect.TypeOf((*func(complex64) [0]*bool)(nil)).Elem(), TypeStr: "func(complex64) [0]*bool",
		Funcs: map[string]any{"mem": p.MemT1},
		Tags:  map[string]string{"comparable-args": "1", "mode": "unnamed", "names": "", "nparams": "1", "nresults": "1"},
	},
	{ID: "T2", Type: reflect.TypeOf((*func(a p.MyInt, b uint64))(nil)).Elem(), TypeStr: "func(a p.MyInt, b uint64)",
		Funcs: map[string]any{"mem": p.MemT2},
		Tags:  map[string]string{"comparable-args": "1", "mode": "named", "names": "a,b", "nparams": "2", "nresults": "0"},
	},
	{ID: "T3", Type: reflect.TypeOf((*func(a string, b *p.MyF32) uint8)(nil)).Elem(), TypeStr: "func(a string, b *p.MyF32) uint8",
		Funcs: map[string]any{"mem": p.MemT3},
		Tags:  map[string]string{"comparable-args": "0", "mode": "named", "names": "a,b", "nparams": "2", "nresults": "1"},
	},
	{ID: "T4", Type: reflect.TypeOf((*func() (int, p.MyStr, complex128))(nil)).Elem(), TypeStr: "func() (int, p.MyStr, complex128)",
		Funcs: map[string]any{"mem": p.MemT4},
		Tags:  map[string]string{"comparable-args": "1", "mode": "named", "names": "", "nparams": "0", "nresults": "3"},
	},
	{ID: "T5", Type: reflect.TypeOf((*func(*p.K0, int, complex64) (bool, map[uint16]string))(nil)).Elem(), TypeStr: "func(*p.K0, int, complex64) (bool, map[uint16]string)",
		Funcs: map[string]any{"mem": p.MemT5},
		Tags:  map[string]string{"comparable-args": "0", "mode": "unnamed", "names": ",,", "nparams": "3", "nresults": "2"},
	},
	{ID: "T6", Type: reflect.TypeOf((*func(a p.S0, b map[p.K0]ext2.E0))(nil)).Elem(), TypeStr: "func(a p.S0, b map[p.K0]ext2.E0)",
		Funcs: map[string]any{"mem": p.MemT6},
		Tags:  map[string]string{"comparable-args": "0", "mode": "named", "names": "a,b", "nparams": "2", "nresults": "0"},
	},
	{ID: "T7", Type: reflect.TypeOf((*func(int8, uint) (string, int32))(nil)).Elem(), TypeStr: "func(int8, uint) (string, int32)",
		Funcs: map[string]any{"mem": p.MemT7},
		Tags:  map[string]string{"comparable-args": "1", "mode": "unnamed", "names": ",", "nparams": "2", "nresults": "2"},
	},
	{ID: "T8", Type: reflect.TypeOf((*func(ext2.E0) map[ext2.Num]ext.Num)(nil)).Elem(), TypeStr: "func(ext2.E0) map[ext2.Num]ext.Num",
		Funcs: map[string]any{"mem": p.MemT8},
		Tags:  map[string]string{"comparable-args": "0", "mode": "unnamed", "names": "", "nparams": "1", "nresults": "1"},
	},
	{ID: "T9", Type: reflect.TypeOf((*func(p.K0, p.MyU8))(nil)).Elem(), TypeStr: "func(p.K0, p.MyU8)",
		Funcs: map[string]any{"mem": p.MemT9},
		Tags:  map[string]string{"comparable-args": "1", "mode": "unnamed", "names": ",", "nparams": "2", "nresults": "0"},
	},
	{ID: "T10", Type: reflect.TypeOf((*func(p.S2, [3]ext.Key) (error, map[uintptr]p.K0, p.K0))(nil)).Elem(), TypeStr: "func(p.S2, [3]ext.Key) (error, map[uintptr]p.K0, p.K0)",
		Funcs: map[string]any{"mem": p.MemT10},
		Tags:  map[string]string{"comparable-args": "0", "mode": "unnamed", "names": ",", "nparams": "2", "nresults": "3"},
	},
	{ID: "T11", Type: reflect.TypeOf((*func(*p.S0, *rune) (string, string, interface{}))(nil)).Elem(), TypeStr: "func(*p.S0, *rune) (string, string, interface{})",
		Funcs: map[string]any{"mem": p.MemT11},
		Tags:  map[string]string{"comparable-args": "0", "mode": "unnamed", "names": ",", "nparams": "2", "nresults": "3"},
	},
	{ID: "T12", Type: reflect.TypeOf((*func(a ext.E0, b map[int]uint) ([]byte, string, error))(nil)).Elem(), TypeStr: "func(a ext.E0, b map[int]uint) ([]byte, string, error)",
		Funcs: map[string]any{"mem": p.MemT12},
		Tags:  map[string]string{"comparable-args": "0", "mode": "named", "names": "a,b", "nparams": "2", "nresults": "3"},
	},
	{ID: "T13", Type: reflect.TypeOf((*func(map[bool]p.K0, uint16, int) (interface{}, map[ext.Key]bool))(nil)).Elem(), TypeStr: "func(map[bool]p.K0, uint16, int) (interface{}, map[ext.Key]bool)",
		Funcs: map[string]any{"mem": p.MemT13},
		Tags:  map[string]string{"comparable-args": "0", "mode": "unnamed", "names": ",,", "nparams": "3", "nresults": "2"},
	},
}
