package ext

type Num float64

type Key struct {
	k0 Num
	k1 uintptr
	K2 uintptr
}

type E0 struct {
	f0 byte
	f1 map[uint16][]int8
}

type E1 struct {
	f0 E0
	F1 map[Key]int8
	f2 [0]int
}
