package p

type MyInt int

type N0 [][]bool

type N1 [1]uint

type K0 struct {
}

type S0 struct {
	f0 map[MyInt]uintptr
	F1 float64
	f2 bool
	f3 MyInt
	*K0
	f5 []K0
}
