package p

import (
	ext "subj/ext1"
	ext2 "subj/x/ext"
)

var Anchor = 0

func MemT0(f func()) any {
	return deriveMemT0(f)
}

func MemT1(f func(complex64) (error, map[[0]rune]rune)) any {
	return deriveMemT1(f)
}

func MemT2(f func([]S0, map[K0]int16, map[K0]S0)) any {
	return deriveMemT2(f)
}

func MemT3(f func() (ext2.Num, error)) any {
	return deriveMemT3(f)
}

func MemT4(f func(a float32, b uint32) (N1, rune)) any {
	return deriveMemT4(f)
}

func MemT5(f func(int32)) any {
	return deriveMemT5(f)
}

func MemT6(f func() ext.Num) any {
	return deriveMemT6(f)
}

func MemT7(f func(ext.Key, int) (MyInt, int32, K0)) any {
	return deriveMemT7(f)
}

func MemT8(f func(a N1, b map[byte]ext.E0) (uint32, ext.Key)) any {
	return deriveMemT8(f)
}

func MemT9(f func(N0, float64) (ext.E1, *N1)) any {
	return deriveMemT9(f)
}

func MemT10(f func() (interface{}, ext.E0, ext.E0)) any {
	return deriveMemT10(f)
}

func MemT11(f func(a S0) (interface{}, S0, ext.E0)) any {
	return deriveMemT11(f)
}

func MemT12(f func(a float64) *int) any {
	return deriveMemT12(f)
}

func MemT13(f func(ext.Key) (error, int8, ext.E1)) any {
	return deriveMemT13(f)
}
