package ext

type Num int64

type Key struct {
	K0 float32
	k1 uint64
	k2 rune
}

type E0 struct {
	F0 int16
	f1 map[Key]int
}

type E1 struct {
	f0 **E1
}
