package h

import (
	"reflect"

	ext "subj/ext1"
	p "subj/p"
	ext2 "subj/x/ext"
)

var _ = p.Anchor

var Registry = []Entry{
	{ID: "T0", Type: reflect.TypeOf((*func())(nil)).Elem(), TypeStr: "func()",
		Funcs: map[string]any{"mem": p.MemT0},
		Tags:  map[string]string{"comparable-args": "1", "mode": "named", "names": "", "nparams": "0", "nresults": "0"},
	},
	{ID: "T1", Type: reflect.TypeOf((*func(complex64) (error, map[[0]rune]rune))(nil)).Elem(), TypeStr: "func(complex64) (error, map[[0]rune]rune)",
		Funcs: map[string]any{"mem": p.MemT1},
		Tags:  map[string]string{"comparable-args": "1", "mode": "unnamed", "names": "", "nparams": "1", "nresults": "2"},
	},
	{ID: "T2", Type: reflect.TypeOf((*func([]p.S0, map[p.K0]int16, map[p.K0]p.S0))(nil)).Elem(), TypeStr: "func([]p.S0, map[p.K0]int16, map[p.K0]p.S0)",
		Funcs: map[string]any{"mem": p.MemT2},
		Tags:  map[string]string{"comparable-args": "0", "mode": "unnamed", "names": ",,", "nparams": "3", "nresults": "0"},
	},
	{ID: "T3", Type: reflect.TypeOf((*func() (ext2.Num, error))(nil)).Elem(), TypeStr: "func() (ext2.Num, error)",
		Funcs: map[string]any{"mem": p.MemT3},
		Tags:  map[string]string{"comparable-args": "1", "mode": "named", "names": "", "nparams": "0", "nresults": "2"},
	},
	{ID: "T4", Type: reflect.TypeOf((*func(a float32, b uint32) (p.N1, rune))(nil)).Elem(), TypeStr: "func(a float32, b uint32) (p.N1, rune)",
		Funcs: map[string]any{"mem": p.MemT4},
		Tags:  map[string]string{"comparable-args": "1", "mode": "named", "names": "a,b", "nparams": "2", "nresults": "2"},
	},
	{ID: "T5", Type: reflect.TypeOf((*func(int32))(nil)).Elem(), TypeStr: "func(int32)",
		Funcs: map[string]any{"mem": p.MemT5},
		Tags:  map[string]string{"comparable-args": "1", "mode": "unnamed", "names": "", "nparams": "1", "nresults": "0"},
	},
	{ID: "T6", Type: reflect.TypeOf((*func() ext.Num)(nil)).Elem(), TypeStr: "func() ext.Num",
		Funcs: map[string]any{"mem": p.MemT6},
		Tags:  map[string]string{"comparable-args": "1", "mode": "named", "names": "", "nparams": "0", "nresults": "1"},
	},
	{ID: "T7", Type: reflect.TypeOf((*func(ext.Key, int) (p.MyInt, int32, p.K0))(nil)).Elem(), TypeStr: "func(ext.Key, int) (p.MyInt, int32, p.K0)",
		Funcs: map[string]any{"mem": p.MemT7},
		Tags:  map[string]string{"comparable-args": "1", "mode": "unnamed", "names": ",", "nparams": "2", "nresults": "3"},
	},
	{ID: "T8", Type: reflect.TypeOf((*func(a p.N1, b map[byte]ext.E0) (uint32, ext.Key))(nil)).Elem(), TypeStr: "func(a p.N1, b map[byte]ext.E0) (uint32, ext.Key)",
		Funcs: map[string]any{"mem": p.MemT8},
		Tags:  map[string]string{"comparable-args": "0", "mode": "named", "names": "a,b", "nparams": "2", "nresults": "2"},
	},
	{ID: "T9", Type: reflect.TypeOf((*func(p.N0, float64) (ext.E1, *p.N1))(nil)).Elem(), TypeStr: "func(p.N0, float64) (ext.E1, *p.N1)",
		Funcs: map[string]any{"mem": p.MemT9},
		Tags:  map[string]string{"comparable-args": "0", "mode": "unnamed", "names": ",", "nparams": "2", "nresults": "2"},
	},
	{ID: "T10", Type: reflect.TypeOf((*func() (interface{}, ext.E0, ext.E0))(nil)).Elem(), TypeStr: "func() (interface{}, ext.E0, ext.E0)",
		Funcs: map[string]any{"mem": p.MemT10},
		Tags:  map[string]string{"comparable-args": "1", "mode": "named", "names": "", "nparams": "0", "nresults": "3"},
	},
	{ID: "T11", Type: reflect.TypeOf((*func(a p.S0) (interface{}, p.S0, ext.E0))(nil)).Elem(), TypeStr: "func(a p.S0) (interface{}, p.S0, ext.E0)",
		Funcs: map[string]any{"mem": p.MemT11},
		Tags:  map[string]string{"comparable-args": "0", "mode": "named", "names": "a", "nparams": "1", "nresults": "3"},
	},
	{ID: "T12", Type: reflect.TypeOf((*func(a float64) *int)(nil)).Elem(), TypeStr: "func(a float64) *int",
		Funcs: map[string]any{"mem": p.MemT12},
		Tags:  map[string]string{"comparable-args": "1", "mode": "named", "names": "a", "nparams": "1", "nresults": "1"},
	},
	{ID: "T13", Type: reflect.TypeOf((*func(ext.Key) (error, int8, ext.E1))(nil)).Elem(), TypeStr: "func(ext.Key) (error, int8, ext.E1)",
		Funcs: map[string]any{"mem": p.MemT13},
		Tags:  map[string]string{"comparable-args": "1", "mode": "unnamed", "names": "", "nparams": "1", "nresults": "3"},
	},
}
