package p

var Anchor = 0

func EqualT0(a map[K0][2]bool, b map[K0][2]bool) bool {
	return deriveEqualT0(a, b)
}

func ContainsT0(l []map[K0][2]bool, x map[K0][2]bool) bool {
	return deriveContainsT0(l, x)
}

func UniqueT0(l []map[K0][2]bool) []map[K0][2]bool {
	return deriveUniqueT0(l)
}

func UnionlT0(a []map[K0][2]bool, b []map[K0][2]bool) []map[K0][2]bool {
	return deriveUnionLT0(a, b)
}

func IntersectlT0(a []map[K0][2]bool, b []map[K0][2]bool) []map[K0][2]bool {
	return deriveIntersectLT0(a, b)
}

func FilterT0(pred func(map[K0][2]bool) bool, l []map[K0][2]bool) []map[K0][2]bool {
	return deriveFilterT0(pred, l)
}

func TakewhileT0(pred func(map[K0][2]bool) bool, l []map[K0][2]bool) []map[K0][2]bool {
	return deriveTakeWhileT0(pred, l)
}

func AllT0(pred func(map[K0][2]bool) bool, l []map[K0][2]bool) bool {
	return deriveAllT0(pred, l)
}

func AnyT0(pred func(map[K0][2]bool) bool, l []map[K0][2]bool) bool {
	return deriveAnyT0(pred, l)
}

func EqualT1(a *map[string]bool, b *map[string]bool) bool {
	return deriveEqualT1(a, b)
}

func ContainsT1(l []*map[string]bool, x *map[string]bool) bool {
	return deriveContainsT1(l, x)
}

func UniqueT1(l []*map[string]bool) []*map[string]bool {
	return deriveUniqueT1(l)
}

func UnionlT1(a []*map[string]bool, b []*map[string]bool) []*map[string]bool {
	return deriveUnionLT1(a, b)
}

func IntersectlT1(a []*map[string]bool, b []*map[string]bool) []*map[string]bool {
	return deriveIntersectLT1(a, b)
}

func FilterT1(pred func(*map[string]bool) bool, l []*map[string]bool) []*map[string]bool {
	return deriveFilterT1(pred, l)
}

func TakewhileT1(pred func(*map[string]bool) bool, l []*map[string]bool) []*map[string]bool {
	return deriveTakeWhileT1(pred, l)
}

func AllT1(pred func(*map[string]bool) bool, l []*map[string]bool) bool {
	return deriveAllT1(pred, l)
}

func AnyT1(pred func(*map[string]bool) bool, l []*map[string]bool) bool {
	return deriveAnyT1(pred, l)
}

func EqualT2(a []map[string]bool, b []map[string]bool) bool {
	return deriveEqualT2(a, b)
}

func ContainsT2(l [][]map[string]bool, x []map[string]bool) bool {
	return deriveContainsT2(l, x)
}

func UniqueT2(l [][]map[string]bool) [][]map[string]bool {
	return deriveUniqueT2(l)
}

func UnionlT2(a [][]map[string]bool, b [][]map[string]bool) [][]map[string]bool {
	return deriveUnionLT2(a, b)
}

func IntersectlT2(a [][]map[string]bool, b [][]map[string]bool) [][]map[string]bool {
	return deriveIntersectLT2(a, b)
}

func FilterT2(pred func([]map[string]bool) bool, l [][]map[string]bool) [][]map[string]bool {
	return deriveFilterT2(pred, l)
}

func TakewhileT2(pred func([]map[string]bool) bool, l [][]map[string]bool) [][]map[string]bool {
	return deriveTakeWhileT2(pred, l)
}

func AllT2(pred func([]map[string]bool) bool, l [][]map[string]bool) bool {
	return deriveAllT2(pred, l)
}

func AnyT2(pred func([]map[string]bool) bool, l [][]map[string]bool) bool {
	return deriveAnyT2(pred, l)
}

func EqualT3(a [2]map[string]bool, b [2]map[string]bool) bool {
	return deriveEqualT3(a, b)
}

func ContainsT3(l [][2]map[string]bool, x [2]map[string]bool) bool {
	return deriveContainsT3(l, x)
}

func UniqueT3(l [][2]map[string]bool) [][2]map[string]bool {
	return deriveUniqueT3(l)
}

func UnionlT3(a [][2]map[string]bool, b [][2]map[string]bool) [][2]map[string]bool {
	return deriveUnionLT3(a, b)
}

func IntersectlT3(a [][2]map[string]bool, b [][2]map[string]bool) [][2]map[string]bool {
	return deriveIntersectLT3(a, b)
}

func FilterT3(pred func([2]map[string]bool) bool, l [][2]map[string]bool) [][2]map[string]bool {
	return deriveFilterT3(pred, l)
}

func TakewhileT3(pred func([2]map[string]bool) bool, l [][2]map[string]bool) [][2]map[string]bool {
	return deriveTakeWhileT3(pred, l)
}

func AllT3(pred func([2]map[string]bool) bool, l [][2]map[string]bool) bool {
	return deriveAllT3(pred, l)
}

func AnyT3(pred func([2]map[string]bool) bool, l [][2]map[string]bool) bool {
	return deriveAnyT3(pred, l)
}

func EqualT4(a map[string]map[string]bool, b map[string]map[string]bool) bool {
	return deriveEqualT4(a, b)
}

func ContainsT4(l []map[string]map[string]bool, x map[string]map[string]bool) bool {
	return deriveContainsT4(l, x)
}

func UniqueT4(l []map[string]map[string]bool) []map[string]map[string]bool {
	return deriveUniqueT4(l)
}

func UnionlT4(a []map[string]map[string]bool, b []map[string]map[string]bool) []map[string]map[string]bool {
	return deriveUnionLT4(a, b)
}

func IntersectlT4(a []map[string]map[string]bool, b []map[string]map[string]bool) []map[string]map[string]bool {
	return deriveIntersectLT4(a, b)
}

func FilterT4(pred func(map[string]map[string]bool) bool, l []map[string]map[string]bool) []map[string]map[string]bool {
	return deriveFilterT4(pred, l)
}

func TakewhileT4(pred func(map[string]map[string]bool) bool, l []map[string]map[string]bool) []map[string]map[string]bool {
	return deriveTakeWhileT4(pred, l)
}

func AllT4(pred func(map[string]map[string]bool) bool, l []map[string]map[string]bool) bool {
	return deriveAllT4(pred, l)
}

func AnyT4(pred func(map[string]map[string]bool) bool, l []map[string]map[string]bool) bool {
	return deriveAnyT4(pred, l)
}

func EqualT5(a map[K0]map[string]bool, b map[K0]map[string]bool) bool {
	return deriveEqualT5(a, b)
}

func ContainsT5(l []map[K0]map[string]bool, x map[K0]map[string]bool) bool {
	return deriveContainsT5(l, x)
}

func UniqueT5(l []map[K0]map[string]bool) []map[K0]map[string]bool {
	return deriveUniqueT5(l)
}

func UnionlT5(a []map[K0]map[string]bool, b []map[K0]map[string]bool) []map[K0]map[string]bool {
	return deriveUnionLT5(a, b)
}

func IntersectlT5(a []map[K0]map[string]bool, b []map[K0]map[string]bool) []map[K0]map[string]bool {
	return deriveIntersectLT5(a, b)
}

func FilterT5(pred func(map[K0]map[string]bool) bool, l []map[K0]map[string]bool) []map[K0]map[string]bool {
	return deriveFilterT5(pred, l)
}

func TakewhileT5(pred func(map[K0]map[string]bool) bool, l []map[K0]map[string]bool) []map[K0]map[string]bool {
	return deriveTakeWhileT5(pred, l)
}

func AllT5(pred func(map[K0]map[string]bool) bool, l []map[K0]map[string]bool) bool {
	return deriveAllT5(pred, l)
}

func AnyT5(pred func(map[K0]map[string]bool) bool, l []map[K0]map[string]bool) bool {
	return deriveAnyT5(pred, l)
}

func EqualT6(a *map[K0]bool, b *map[K0]bool) bool {
	return deriveEqualT6(a, b)
}

func ContainsT6(l []*map[K0]bool, x *map[K0]bool) bool {
	return deriveContainsT6(l, x)
}

func UniqueT6(l []*map[K0]bool) []*map[K0]bool {
	return deriveUniqueT6(l)
}

func UnionlT6(a []*map[K0]bool, b []*map[K0]bool) []*map[K0]bool {
	return deriveUnionLT6(a, b)
}

func IntersectlT6(a []*map[K0]bool, b []*map[K0]bool) []*map[K0]bool {
	return deriveIntersectLT6(a, b)
}

func FilterT6(pred func(*map[K0]bool) bool, l []*map[K0]bool) []*map[K0]bool {
	return deriveFilterT6(pred, l)
}

func TakewhileT6(pred func(*map[K0]bool) bool, l []*map[K0]bool) []*map[K0]bool {
	return deriveTakeWhileT6(pred, l)
}

func AllT6(pred func(*map[K0]bool) bool, l []*map[K0]bool) bool {
	return deriveAllT6(pred, l)
}

func AnyT6(pred func(*map[K0]bool) bool, l []*map[K0]bool) bool {
	return deriveAnyT6(pred, l)
}

func EqualT7(a []map[K0]bool, b []map[K0]bool) bool {
	return deriveEqualT7(a, b)
}

func ContainsT7(l [][]map[K0]bool, x []map[K0]bool) bool {
	return deriveContainsT7(l, x)
}

func UniqueT7(l [][]map[K0]bool) [][]map[K0]bool {
	return deriveUniqueT7(l)
}

func UnionlT7(a [][]map[K0]bool, b [][]map[K0]bool) [][]map[K0]bool {
	return deriveUnionLT7(a, b)
}

func IntersectlT7(a [][]map[K0]bool, b [][]map[K0]bool) [][]map[K0]bool {
	return deriveIntersectLT7(a, b)
}

func FilterT7(pred func([]map[K0]bool) bool, l [][]map[K0]bool) [][]map[K0]bool {
	return deriveFilterT7(pred, l)
}

func TakewhileT7(pred func([]map[K0]bool) bool, l [][]map[K0]bool) [][]map[K0]bool {
	return deriveTakeWhileT7(pred, l)
}

func AllT7(pred func([]map[K0]bool) bool, l [][]map[K0]bool) bool {
	return deriveAllT7(pred, l)
}

func AnyT7(pred func([]map[K0]bool) bool, l [][]map[K0]bool) bool {
	return deriveAnyT7(pred, l)
}

func EqualT8(a [2]map[K0]bool, b [2]map[K0]bool) bool {
	return deriveEqualT8(a, b)
}

func ContainsT8(l [][2]map[K0]bool, x [2]map[K0]bool) bool {
	return deriveContainsT8(l, x)
}

func UniqueT8(l [][2]map[K0]bool) [][2]map[K0]bool {
	return deriveUniqueT8(l)
}

func UnionlT8(a [][2]map[K0]bool, b [][2]map[K0]bool) [][2]map[K0]bool {
	return deriveUnionLT8(a, b)
}

func IntersectlT8(a [][2]map[K0]bool, b [][2]map[K0]bool) [][2]map[K0]bool {
	return deriveIntersectLT8(a, b)
}

func FilterT8(pred func([2]map[K0]bool) bool, l [][2]map[K0]bool) [][2]map[K0]bool {
	return deriveFilterT8(pred, l)
}

func TakewhileT8(pred func([2]map[K0]bool) bool, l [][2]map[K0]bool) [][2]map[K0]bool {
	return deriveTakeWhileT8(pred, l)
}

func AllT8(pred func([2]map[K0]bool) bool, l [][2]map[K0]bool) bool {
	return deriveAllT8(pred, l)
}

func AnyT8(pred func([2]map[K0]bool) bool, l [][2]map[K0]bool) bool {
	return deriveAnyT8(pred, l)
}

func EqualT9(a map[string]map[K0]bool, b map[string]map[K0]bool) bool {
	return deriveEqualT9(a, b)
}

func ContainsT9(l []map[string]map[K0]bool, x map[string]map[K0]bool) bool {
	return deriveContainsT9(l, x)
}

func UniqueT9(l []map[string]map[K0]bool) []map[string]map[K0]bool {
	return deriveUniqueT9(l)
}

func UnionlT9(a []map[string]map[K0]bool, b []map[string]map[K0]bool) []map[string]map[K0]bool {
	return deriveUnionLT9(a, b)
}

func IntersectlT9(a []map[string]map[K0]bool, b []map[string]map[K0]bool) []map[string]map[K0]bool {
	return deriveIntersectLT9(a, b)
}

func FilterT9(pred func(map[string]map[K0]bool) bool, l []map[string]map[K0]bool) []map[string]map[K0]bool {
	return deriveFilterT9(pred, l)
}

func TakewhileT9(pred func(map[string]map[K0]bool) bool, l []map[string]map[K0]bool) []map[string]map[K0]bool {
	return deriveTakeWhileT9(pred, l)
}

func AllT9(pred func(map[string]map[K0]bool) bool, l []map[string]map[K0]bool) bool {
	return deriveAllT9(pred, l)
}

func AnyT9(pred func(map[string]map[K0]bool) bool, l []map[string]map[K0]bool) bool {
	return deriveAnyT9(pred, l)
}

func EqualT10(a map[K0]map[K0]bool, b map[K0]map[K0]bool) bool {
	return deriveEqualT10(a, b)
}

func ContainsT10(l []map[K0]map[K0]bool, x map[K0]map[K0]bool) bool {
	return deriveContainsT10(l, x)
}

func UniqueT10(l []map[K0]map[K0]bool) []map[K0]map[K0]bool {
	return deriveUniqueT10(l)
}

func UnionlT10(a []map[K0]map[K0]bool, b []map[K0]map[K0]bool) []map[K0]map[K0]bool {
	return deriveUnionLT10(a, b)
}

func IntersectlT10(a []map[K0]map[K0]bool, b []map[K0]map[K0]bool) []map[K0]map[K0]bool {
	return deriveIntersectLT10(a, b)
}

func FilterT10(pred func(map[K0]map[K0]bool) bool, l []map[K0]map[K0]bool) []map[K0]map[K0]bool {
	return deriveFilterT10(pred, l)
}

func TakewhileT10(pred func(map[K0]map[K0]bool) bool, l []map[K0]map[K0]bool) []map[K0]map[K0]bool {
	return deriveTakeWhileT10(pred, l)
}

func AllT10(pred func(map[K0]map[K0]bool) bool, l []map[K0]map[K0]bool) bool {
	return deriveAllT10(pred, l)
}

func AnyT10(pred func(map[K0]map[K0]bool) bool, l []map[K0]map[K0]bool) bool {
	return deriveAnyT10(pred, l)
}

func EqualT11(a **byte, b **byte) bool {
	return deriveEqualT11(a, b)
}

func ContainsT11(l []**byte, x **byte) bool {
	return deriveContainsT11(l, x)
}

func UniqueT11(l []**byte) []**byte {
	return deriveUniqueT11(l)
}

func UnionlT11(a []**byte, b []**byte) []**byte {
	return deriveUnionLT11(a, b)
}

func IntersectlT11(a []**byte, b []**byte) []**byte {
	return deriveIntersectLT11(a, b)
}

func FilterT11(pred func(**byte) bool, l []**byte) []**byte {
	return deriveFilterT11(pred, l)
}

func TakewhileT11(pred func(**byte) bool, l []**byte) []**byte {
	return deriveTakeWhileT11(pred, l)
}

func AllT11(pred func(**byte) bool, l []**byte) bool {
	return deriveAllT11(pred, l)
}

func AnyT11(pred func(**byte) bool, l []**byte) bool {
	return deriveAnyT11(pred, l)
}

func EqualT12(a []*byte, b []*byte) bool {
	return deriveEqualT12(a, b)
}

func ContainsT12(l [][]*byte, x []*byte) bool {
	return deriveContainsT12(l, x)
}

func UniqueT12(l [][]*byte) [][]*byte {
	return deriveUniqueT12(l)
}

func UnionlT12(a [][]*byte, b [][]*byte) [][]*byte {
	return deriveUnionLT12(a, b)
}

func IntersectlT12(a [][]*byte, b [][]*byte) [][]*byte {
	return deriveIntersectLT12(a, b)
}

func FilterT12(pred func([]*byte) bool, l [][]*byte) [][]*byte {
	return deriveFilterT12(pred, l)
}

func TakewhileT12(pred func([]*byte) bool, l [][]*byte) [][]*byte {
	return deriveTakeWhileT12(pred, l)
}

func AllT12(pred func([]*byte) bool, l [][]*byte) bool {
	return deriveAllT12(pred, l)
}

func AnyT12(pred func([]*byte) bool, l [][]*byte) bool {
	return deriveAnyT12(pred, l)
}

func EqualT13(a [2]*byte, b [2]*byte) bool {
	return deriveEqualT13(a, b)
}

func ContainsT13(l [][2]*byte, x [2]*byte) bool {
	return deriveContainsT13(l, x)
}

func UniqueT13(l [][2]*byte) [][2]*byte {
	return deriveUniqueT13(l)
}

func UnionlT13(a [][2]*byte, b [][2]*byte) [][2]*byte {
	return deriveUnionLT13(a, b)
}

func IntersectlT13(a [][2]*byte, b [][2]*byte) [][2]*byte {
	return deriveIntersectLT13(a, b)
}

func FilterT13(pred func([2]*byte) bool, l [][2]*byte) [][2]*byte {
	return deriveFilterT13(pred, l)
}

func TakewhileT13(pred func([2]*byte) bool, l [][2]*byte) [][2]*byte {
	return deriveTakeWhileT13(pred, l)
}

func AllT13(pred func([2]*byte) bool, l [][2]*byte) bool {
	return deriveAllT13(pred, l)
}

func AnyT13(pred func([2]*byte) bool, l [][2]*byte) bool {
	return deriveAnyT13(pred, l)
}
