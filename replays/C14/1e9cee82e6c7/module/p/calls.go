package p

import (
	ext "subj/ext1"
	other "subj/x/other"
)

var Anchor = 0

func EqualT0(a K0, b K0) bool {
	return deriveEqualT0(a, b)
}

func ContainsT0(l []K0, x K0) bool {
	return deriveContainsT0(l, x)
}

func UniqueT0(l []K0) []K0 {
	return deriveUniqueT0(l)
}

func SetT0(l []K0) map[K0]struct{} {
	return deriveSetT0(l)
}

func UnionlT0(a []K0, b []K0) []K0 {
	return deriveUnionLT0(a, b)
}

func IntersectlT0(a []K0, b []K0) []K0 {
	return deriveIntersectLT0(a, b)
}

func UnionmT0(a map[K0]struct{}, b map[K0]struct{}) map[K0]struct{} {
	return deriveUnionMT0(a, b)
}

func IntersectmT0(a map[K0]struct{}, b map[K0]struct{}) map[K0]struct{} {
	return deriveIntersectMT0(a, b)
}

func FilterT0(pred func(K0) bool, l []K0) []K0 {
	return deriveFilterT0(pred, l)
}

func TakewhileT0(pred func(K0) bool, l []K0) []K0 {
	return deriveTakeWhileT0(pred, l)
}

func AllT0(pred func(K0) bool, l []K0) bool {
	return deriveAllT0(pred, l)
}

func AnyT0(pred func(K0) bool, l []K0) bool {
	return deriveAnyT0(pred, l)
}

func EqualT1(a complex128, b complex128) bool {
	return deriveEqualT1(a, b)
}

func ContainsT1(l []complex128, x complex128) bool {
	return deriveContainsT1(l, x)
}

func UniqueT1(l []complex128) []complex128 {
	return deriveUniqueT1(l)
}

func SetT1(l []complex128) map[complex128]struct{} {
	return deriveSetT1(l)
}

func UnionlT1(a []complex128, b []complex128) []complex128 {
	return deriveUnionLT1(a, b)
}

func IntersectlT1(a []complex128, b []complex128) []complex128 {
	return deriveIntersectLT1(a, b)
}

func UnionmT1(a map[complex128]struct{}, b map[complex128]struct{}) map[complex128]struct{} {
	return deriveUnionMT1(a, b)
}

func IntersectmT1(a map[complex128]struct{}, b map[complex128]struct{}) map[complex128]struct{} {
	return deriveIntersectMT1(a, b)
}

func FilterT1(pred func(complex128) bool, l []complex128) []complex128 {
	return deriveFilterT1(pred, l)
}

func TakewhileT1(pred func(complex128) bool, l []complex128) []complex128 {
	return deriveTakeWhileT1(pred, l)
}

func AllT1(pred func(complex128) bool, l []complex128) bool {
	return deriveAllT1(pred, l)
}

func AnyT1(pred func(complex128) bool, l []complex128) bool {
	return deriveAnyT1(pred, l)
}

func EqualT2(a MyStr, b MyStr) bool {
	return deriveEqualT2(a, b)
}

func ContainsT2(l []MyStr, x MyStr) bool {
	return deriveContainsT2(l, x)
}

func UniqueT2(l []MyStr) []MyStr {
	return deriveUniqueT2(l)
}

func SetT2(l []MyStr) map[MyStr]struct{} {
	return deriveSetT2(l)
}

func UnionlT2(a []MyStr, b []MyStr) []MyStr {
	return deriveUnionLT2(a, b)
}

func IntersectlT2(a []MyStr, b []MyStr) []MyStr {
	return deriveIntersectLT2(a, b)
}

func UnionmT2(a map[MyStr]struct{}, b map[MyStr]struct{}) map[MyStr]struct{} {
	return deriveUnionMT2(a, b)
}

func IntersectmT2(a map[MyStr]struct{}, b map[MyStr]struct{}) map[MyStr]struct{} {
	return deriveIntersectMT2(a, b)
}

func FilterT2(pred func(MyStr) bool, l []MyStr) []MyStr {
	return deriveFilterT2(pred, l)
}

func TakewhileT2(pred func(MyStr) bool, l []MyStr) []MyStr {
	return deriveTakeWhileT2(pred, l)
}

func AllT2(pred func(MyStr) bool, l []MyStr) bool {
	return deriveAllT2(pred, l)
}

func AnyT2(pred func(MyStr) bool, l []MyStr) bool {
	return deriveAnyT2(pred, l)
}

func EqualT3(a int16, b int16) bool {
	return deriveEqualT3(a, b)
}

func ContainsT3(l []int16, x int16) bool {
	return deriveContainsT3(l, x)
}

func UniqueT3(l []int16) []int16 {
	return deriveUniqueT3(l)
}

func SetT3(l []int16) map[int16]struct{} {
	return deriveSetT3(l)
}

func UnionlT3(a []int16, b []int16) []int16 {
	return deriveUnionLT3(a, b)
}

func IntersectlT3(a []int16, b []int16) []int16 {
	return deriveIntersectLT3(a, b)
}

func UnionmT3(a map[int16]struct{}, b map[int16]struct{}) map[int16]struct{} {
	return deriveUnionMT3(a, b)
}

func IntersectmT3(a map[int16]struct{}, b map[int16]struct{}) map[int16]struct{} {
	return deriveIntersectMT3(a, b)
}

func FilterT3(pred func(int16) bool, l []int16) []int16 {
	return deriveFilterT3(pred, l)
}

func TakewhileT3(pred func(int16) bool, l []int16) []int16 {
	return deriveTakeWhileT3(pred, l)
}

func AllT3(pred func(int16) bool, l []int16) bool {
	return deriveAllT3(pred, l)
}

func AnyT3(pred func(int16) bool, l []int16) bool {
	return deriveAnyT3(pred, l)
}

func EqualT4(a N0, b N0) bool {
	return deriveEqualT4(a, b)
}

func ContainsT4(l []N0, x N0) bool {
	return deriveContainsT4(l, x)
}

func UniqueT4(l []N0) []N0 {
	return deriveUniqueT4(l)
}

func UnionlT4(a []N0, b []N0) []N0 {
	return deriveUnionLT4(a, b)
}

func IntersectlT4(a []N0, b []N0) []N0 {
	return deriveIntersectLT4(a, b)
}

func FilterT4(pred func(N0) bool, l []N0) []N0 {
	return deriveFilterT4(pred, l)
}

func TakewhileT4(pred func(N0) bool, l []N0) []N0 {
	return deriveTakeWhileT4(pred, l)
}

func AllT4(pred func(N0) bool, l []N0) bool {
	return deriveAllT4(pred, l)
}

func AnyT4(pred func(N0) bool, l []N0) bool {
	return deriveAnyT4(pred, l)
}

func EqualT5(a *K1, b *K1) bool {
	return deriveEqualT5(a, b)
}

func ContainsT5(l []*K1, x *K1) bool {
	return deriveContainsT5(l, x)
}

func UniqueT5(l []*K1) []*K1 {
	return deriveUniqueT5(l)
}

func UnionlT5(a []*K1, b []*K1) []*K1 {
	return deriveUnionLT5(a, b)
}

func IntersectlT5(a []*K1, b []*K1) []*K1 {
	return deriveIntersectLT5(a, b)
}

func FilterT5(pred func(*K1) bool, l []*K1) []*K1 {
	return deriveFilterT5(pred, l)
}

func TakewhileT5(pred func(*K1) bool, l []*K1) []*K1 {
	return deriveTakeWhileT5(pred, l)
}

func AllT5(pred func(*K1) bool, l []*K1) bool {
	return deriveAllT5(pred, l)
}

func AnyT5(pred func(*K1) bool, l []*K1) bool {
	return deriveAnyT5(pred, l)
}

func EqualT6(a bool, b bool) bool {
	return deriveEqualT6(a, b)
}

func ContainsT6(l []bool, x bool) bool {
	return deriveContainsT6(l, x)
}

func UniqueT6(l []bool) []bool {
	return deriveUniqueT6(l)
}

func SetT6(l []bool) map[bool]struct{} {
	return deriveSetT6(l)
}

func UnionlT6(a []bool, b []bool) []bool {
	return deriveUnionLT6(a, b)
}

func IntersectlT6(a []bool, b []bool) []bool {
	return deriveIntersectLT6(a, b)
}

func UnionmT6(a map[bool]struct{}, b map[bool]struct{}) map[bool]struct{} {
	return deriveUnionMT6(a, b)
}

func IntersectmT6(a map[bool]struct{}, b map[bool]struct{}) map[bool]struct{} {
	return deriveIntersectMT6(a, b)
}

func FilterT6(pred func(bool) bool, l []bool) []bool {
	return deriveFilterT6(pred, l)
}

func TakewhileT6(pred func(bool) bool, l []bool) []bool {
	return deriveTakeWhileT6(pred, l)
}

func AllT6(pred func(bool) bool, l []bool) bool {
	return deriveAllT6(pred, l)
}

func AnyT6(pred func(bool) bool, l []bool) bool {
	return deriveAnyT6(pred, l)
}

func EqualT7(a other.Key, b other.Key) bool {
	return deriveEqualT7(a, b)
}

func ContainsT7(l []other.Key, x other.Key) bool {
	return deriveContainsT7(l, x)
}

func UniqueT7(l []other.Key) []other.Key {
	return deriveUniqueT7(l)
}

func SetT7(l []other.Key) map[other.Key]struct{} {
	return deriveSetT7(l)
}

func UnionlT7(a []other.Key, b []other.Key) []other.Key {
	return deriveUnionLT7(a, b)
}

func IntersectlT7(a []other.Key, b []other.Key) []other.Key {
	return deriveIntersectLT7(a, b)
}

func UnionmT7(a map[other.Key]struct{}, b map[other.Key]struct{}) map[other.Key]struct{} {
	return deriveUnionMT7(a, b)
}

func IntersectmT7(a map[other.Key]struct{}, b map[other.Key]struct{}) map[other.Key]struct{} {
	return deriveIntersectMT7(a, b)
}

func FilterT7(pred func(other.Key) bool, l []other.Key) []other.Key {
	return deriveFilterT7(pred, l)
}

func TakewhileT7(pred func(other.Key) bool, l []other.Key) []other.Key {
	return deriveTakeWhileT7(pred, l)
}

func AllT7(pred func(other.Key) bool, l []other.Key) bool {
	return deriveAllT7(pred, l)
}

func AnyT7(pred func(other.Key) bool, l []other.Key) bool {
	return deriveAnyT7(pred, l)
}

func EqualT8(a int, b int) bool {
	return deriveEqualT8(a, b)
}

func ContainsT8(l []int, x int) bool {
	return deriveContainsT8(l, x)
}

func UniqueT8(l []int) []int {
	return deriveUniqueT8(l)
}

func SetT8(l []int) map[int]struct{} {
	return deriveSetT8(l)
}

func UnionlT8(a []int, b []int) []int {
	return deriveUnionLT8(a, b)
}

func IntersectlT8(a []int, b []int) []int {
	return deriveIntersectLT8(a, b)
}

func UnionmT8(a map[int]struct{}, b map[int]struct{}) map[int]struct{} {
	return deriveUnionMT8(a, b)
}

func IntersectmT8(a map[int]struct{}, b map[int]struct{}) map[int]struct{} {
	return deriveIntersectMT8(a, b)
}

func FilterT8(pred func(int) bool, l []int) []int {
	return deriveFilterT8(pred, l)
}

func TakewhileT8(pred func(int) bool, l []int) []int {
	return deriveTakeWhileT8(pred, l)
}

func AllT8(pred func(int) bool, l []int) bool {
	return deriveAllT8(pred, l)
}

func AnyT8(pred func(int) bool, l []int) bool {
	return deriveAnyT8(pred, l)
}

func EqualT9(a []*map[MyStr]int8, b []*map[MyStr]int8) bool {
	return deriveEqualT9(a, b)
}

func ContainsT9(l [][]*map[MyStr]int8, x []*map[MyStr]int8) bool {
	return deriveContainsT9(l, x)
}

func UniqueT9(l [][]*map[MyStr]int8) [][]*map[MyStr]int8 {
	return deriveUniqueT9(l)
}

func UnionlT9(a [][]*map[MyStr]int8, b [][]*map[MyStr]int8) [][]*map[MyStr]int8 {
	return deriveUnionLT9(a, b)
}

func IntersectlT9(a [][]*map[MyStr]int8, b [][]*map[MyStr]int8) [][]*map[MyStr]int8 {
	return deriveIntersectLT9(a, b)
}

func FilterT9(pred func([]*map[MyStr]int8) bool, l [][]*map[MyStr]int8) [][]*map[MyStr]int8 {
	return deriveFilterT9(pred, l)
}

func TakewhileT9(pred func([]*map[MyStr]int8) bool, l [][]*map[MyStr]int8) [][]*map[MyStr]int8 {
	return deriveTakeWhileT9(pred, l)
}

func AllT9(pred func([]*map[MyStr]int8) bool, l [][]*map[MyStr]int8) bool {
	return deriveAllT9(pred, l)
}

func AnyT9(pred func([]*map[MyStr]int8) bool, l [][]*map[MyStr]int8) bool {
	return deriveAnyT9(pred, l)
}

func EqualT10(a other.E0, b other.E0) bool {
	return deriveEqualT10(a, b)
}

func ContainsT10(l []other.E0, x other.E0) bool {
	return deriveContainsT10(l, x)
}

func UniqueT10(l []other.E0) []other.E0 {
	return deriveUniqueT10(l)
}

func UnionlT10(a []other.E0, b []other.E0) []other.E0 {
	return deriveUnionLT10(a, b)
}

func IntersectlT10(a []other.E0, b []other.E0) []other.E0 {
	return deriveIntersectLT10(a, b)
}

func FilterT10(pred func(other.E0) bool, l []other.E0) []other.E0 {
	return deriveFilterT10(pred, l)
}

func TakewhileT10(pred func(other.E0) bool, l []other.E0) []other.E0 {
	return deriveTakeWhileT10(pred, l)
}

func AllT10(pred func(other.E0) bool, l []other.E0) bool {
	return deriveAllT10(pred, l)
}

func AnyT10(pred func(other.E0) bool, l []other.E0) bool {
	return deriveAnyT10(pred, l)
}

func EqualT11(a ext.Key, b ext.Key) bool {
	return deriveEqualT11(a, b)
}

func ContainsT11(l []ext.Key, x ext.Key) bool {
	return deriveContainsT11(l, x)
}

func UniqueT11(l []ext.Key) []ext.Key {
	return deriveUniqueT11(l)
}

func SetT11(l []ext.Key) map[ext.Key]struct{} {
	return deriveSetT11(l)
}

func UnionlT11(a []ext.Key, b []ext.Key) []ext.Key {
	return deriveUnionLT11(a, b)
}

func IntersectlT11(a []ext.Key, b []ext.Key) []ext.Key {
	return deriveIntersectLT11(a, b)
}

func UnionmT11(a map[ext.Key]struct{}, b map[ext.Key]struct{}) map[ext.Key]struct{} {
	return deriveUnionMT11(a, b)
}

func IntersectmT11(a map[ext.Key]struct{}, b map[ext.Key]struct{}) map[ext.Key]struct{} {
	return deriveIntersectMT11(a, b)
}

func FilterT11(pred func(ext.Key) bool, l []ext.Key) []ext.Key {
	return deriveFilterT11(pred, l)
}

func TakewhileT11(pred func(ext.Key) bool, l []ext.Key) []ext.Key {
	return deriveTakeWhileT11(pred, l)
}

func AllT11(pred func(ext.Key) bool, l []ext.Key) bool {
	return deriveAllT11(pred, l)
}

func AnyT11(pred func(ext.Key) bool, l []ext.Key) bool {
	return deriveAnyT11(pred, l)
}

func EqualT12(a map[ext.Key]other.Num, b map[ext.Key]other.Num) bool {
	return deriveEqualT12(a, b)
}

func ContainsT12(l []map[ext.Key]other.Num, x map[ext.Key]other.Num) bool {
	return deriveContainsT12(l, x)
}

func UniqueT12(l []map[ext.Key]other.Num) []map[ext.Key]other.Num {
	return deriveUniqueT12(l)
}

func UnionlT12(a []map[ext.Key]other.Num, b []map[ext.Key]other.Num) []map[ext.Key]other.Num {
	return deriveUnionLT12(a, b)
}

func IntersectlT12(a []map[ext.Key]other.Num, b []map[ext.Key]other.Num) []map[ext.Key]other.Num {
	return deriveIntersectLT12(a, b)
}

func FilterT12(pred func(map[ext.Key]other.Num) bool, l []map[ext.Key]other.Num) []map[ext.Key]other.Num {
	return deriveFilterT12(pred, l)
}

func TakewhileT12(pred func(map[ext.Key]other.Num) bool, l []map[ext.Key]other.Num) []map[ext.Key]other.Num {
	return deriveTakeWhileT12(pred, l)
}

func AllT12(pred func(map[ext.Key]other.Num) bool, l []map[ext.Key]other.Num) bool {
	return deriveAllT12(pred, l)
}

func AnyT12(pred func(map[ext.Key]other.Num) bool, l []map[ext.Key]other.Num) bool {
	return deriveAnyT12(pred, l)
}

func EqualT13(a map[string]K0, b map[string]K0) bool {
	return deriveEqualT13(a, b)
}

func ContainsT13(l []map[string]K0, x map[string]K0) bool {
	return deriveContainsT13(l, x)
}

func UniqueT13(l []map[string]K0) []map[string]K0 {
	return deriveUniqueT13(l)
}

func UnionlT13(a []map[string]K0, b []map[string]K0) []map[string]K0 {
	return deriveUnionLT13(a, b)
}

func IntersectlT13(a []map[string]K0, b []map[string]K0) []map[string]K0 {
	return deriveIntersectLT13(a, b)
}

func FilterT13(pred func(map[string]K0) bool, l []map[string]K0) []map[string]K0 {
	return deriveFilterT13(pred, l)
}

func TakewhileT13(pred func(map[string]K0) bool, l []map[string]K0) []map[string]K0 {
	return deriveTakeWhileT13(pred, l)
}

func AllT13(pred func(map[string]K0) bool, l []map[string]K0) bool {
	return deriveAllT13(pred, l)
}

func AnyT13(pred func(map[string]K0) bool, l []map[string]K0) bool {
	return deriveAnyT13(pred, l)
}
