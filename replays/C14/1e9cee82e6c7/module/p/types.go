package p

import (
	ext "subj/ext1"
)

type MyStr string

type MyU8 uint8

type N0 [][]int16

type K0 struct {
}

type K1 struct {
	f0 byte
	f1 ext.Key
	F2 MyStr
}

type S0 struct {
	F0 map[uint8]S0
	f1 K0
	F2 map[K0]K1
}
