package other

import (
	ext "subj/ext1"
)

type Num int64

type Key struct {
	K0 rune
}

type E0 struct {
	F0 Key
	f1 ext.Num
	f2 []byte
	F3 *[]byte
}
