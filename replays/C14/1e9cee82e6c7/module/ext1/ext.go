package ext

type Num string

type Key struct {
	K0 byte
}

type E0 struct {
	F0 Key
	F1 *int16
	f2 Num
}
