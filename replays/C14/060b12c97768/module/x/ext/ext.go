package ext

type Num int

type Key struct {
	k0 int
}

type E0 struct {
}
