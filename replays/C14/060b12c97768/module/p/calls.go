package p

import (
	ext2 "subj/x/ext"
)

var Anchor = 0

func EqualT0(a string, b string) bool {
	return deriveEqualT0(a, b)
}

func ContainsT0(l []string, x string) bool {
	return deriveContainsT0(l, x)
}

func UniqueT0(l []string) []string {
	return deriveUniqueT0(l)
}

func SetT0(l []string) map[string]struct{} {
	return deriveSetT0(l)
}

func UnionlT0(a []string, b []string) []string {
	return deriveUnionLT0(a, b)
}

func IntersectlT0(a []string, b []string) []string {
	return deriveIntersectLT0(a, b)
}

func UnionmT0(a map[string]struct{}, b map[string]struct{}) map[string]struct{} {
	return deriveUnionMT0(a, b)
}

func IntersectmT0(a map[string]struct{}, b map[string]struct{}) map[string]struct{} {
	return deriveIntersectMT0(a, b)
}

func FilterT0(pred func(string) bool, l []string) []string {
	return deriveFilterT0(pred, l)
}

func TakewhileT0(pred func(string) bool, l []string) []string {
	return deriveTakeWhileT0(pred, l)
}

func AllT0(pred func(string) bool, l []string) bool {
	return deriveAllT0(pred, l)
}

func AnyT0(pred func(string) bool, l []string) bool {
	return deriveAnyT0(pred, l)
}

func EqualT1(a *S0, b *S0) bool {
	return deriveEqualT1(a, b)
}

func ContainsT1(l []*S0, x *S0) bool {
	return deriveContainsT1(l, x)
}

func UniqueT1(l []*S0) []*S0 {
	return deriveUniqueT1(l)
}

func UnionlT1(a []*S0, b []*S0) []*S0 {
	return deriveUnionLT1(a, b)
}

func IntersectlT1(a []*S0, b []*S0) []*S0 {
	return deriveIntersectLT1(a, b)
}

func FilterT1(pred func(*S0) bool, l []*S0) []*S0 {
	return deriveFilterT1(pred, l)
}

func TakewhileT1(pred func(*S0) bool, l []*S0) []*S0 {
	return deriveTakeWhileT1(pred, l)
}

func AllT1(pred func(*S0) bool, l []*S0) bool {
	return deriveAllT1(pred, l)
}

func AnyT1(pred func(*S0) bool, l []*S0) bool {
	return deriveAnyT1(pred, l)
}

func EqualT2(a MyF32, b MyF32) bool {
	return deriveEqualT2(a, b)
}

func ContainsT2(l []MyF32, x MyF32) bool {
	return deriveContainsT2(l, x)
}

func UniqueT2(l []MyF32) []MyF32 {
	return deriveUniqueT2(l)
}

func SetT2(l []MyF32) map[MyF32]struct{} {
	return deriveSetT2(l)
}

func UnionlT2(a []MyF32, b []MyF32) []MyF32 {
	return deriveUnionLT2(a, b)
}

func IntersectlT2(a []MyF32, b []MyF32) []MyF32 {
	return deriveIntersectLT2(a, b)
}

func UnionmT2(a map[MyF32]struct{}, b map[MyF32]struct{}) map[MyF32]struct{} {
	return deriveUnionMT2(a, b)
}

func IntersectmT2(a map[MyF32]struct{}, b map[MyF32]struct{}) map[MyF32]struct{} {
	return deriveIntersectMT2(a, b)
}

func FilterT2(pred func(MyF32) bool, l []MyF32) []MyF32 {
	return deriveFilterT2(pred, l)
}

func TakewhileT2(pred func(MyF32) bool, l []MyF32) []MyF32 {
	return deriveTakeWhileT2(pred, l)
}

func AllT2(pred func(MyF32) bool, l []MyF32) bool {
	return deriveAllT2(pred, l)
}

func AnyT2(pred func(MyF32) bool, l []MyF32) bool {
	return deriveAnyT2(pred, l)
}

func EqualT3(a S2, b S2) bool {
	return deriveEqualT3(a, b)
}

func ContainsT3(l []S2, x S2) bool {
	return deriveContainsT3(l, x)
}

func UniqueT3(l []S2) []S2 {
	return deriveUniqueT3(l)
}

func SetT3(l []S2) map[S2]struct{} {
	return deriveSetT3(l)
}

func UnionlT3(a []S2, b []S2) []S2 {
	return deriveUnionLT3(a, b)
}

func IntersectlT3(a []S2, b []S2) []S2 {
	return deriveIntersectLT3(a, b)
}

func UnionmT3(a map[S2]struct{}, b map[S2]struct{}) map[S2]struct{} {
	return deriveUnionMT3(a, b)
}

func IntersectmT3(a map[S2]struct{}, b map[S2]struct{}) map[S2]struct{} {
	return deriveIntersectMT3(a, b)
}

func FilterT3(pred func(S2) bool, l []S2) []S2 {
	return deriveFilterT3(pred, l)
}

func TakewhileT3(pred func(S2) bool, l []S2) []S2 {
	return deriveTakeWhileT3(pred, l)
}

func AllT3(pred func(S2) bool, l []S2) bool {
	return deriveAllT3(pred, l)
}

func AnyT3(pred func(S2) bool, l []S2) bool {
	return deriveAnyT3(pred, l)
}

func EqualT4(a ext2.Num, b ext2.Num) bool {
	return deriveEqualT4(a, b)
}

func ContainsT4(l []ext2.Num, x ext2.Num) bool {
	return deriveContainsT4(l, x)
}

func UniqueT4(l []ext2.Num) []ext2.Num {
	return deriveUniqueT4(l)
}

func SetT4(l []ext2.Num) map[ext2.Num]struct{} {
	return deriveSetT4(l)
}

func UnionlT4(a []ext2.Num, b []ext2.Num) []ext2.Num {
	return deriveUnionLT4(a, b)
}

func IntersectlT4(a []ext2.Num, b []ext2.Num) []ext2.Num {
	return deriveIntersectLT4(a, b)
}

func UnionmT4(a map[ext2.Num]struct{}, b map[ext2.Num]struct{}) map[ext2.Num]struct{} {
	return deriveUnionMT4(a, b)
}

func IntersectmT4(a map[ext2.Num]struct{}, b map[ext2.Num]struct{}) map[ext2.Num]struct{} {
	return deriveIntersectMT4(a, b)
}

func FilterT4(pred func(ext2.Num) bool, l []ext2.Num) []ext2.Num {
	return deriveFilterT4(pred, l)
}

func TakewhileT4(pred func(ext2.Num) bool, l []ext2.Num) []ext2.Num {
	return deriveTakeWhileT4(pred, l)
}

func AllT4(pred func(ext2.Num) bool, l []ext2.Num) bool {
	return deriveAllT4(pred, l)
}

func AnyT4(pred func(ext2.Num) bool, l []ext2.Num) bool {
	return deriveAnyT4(pred, l)
}

func EqualT5(a []byte, b []byte) bool {
	return deriveEqualT5(a, b)
}

func ContainsT5(l [][]byte, x []byte) bool {
	return deriveContainsT5(l, x)
}

func UniqueT5(l [][]byte) [][]byte {
	return deriveUniqueT5(l)
}

func UnionlT5(a [][]byte, b [][]byte) [][]byte {
	return deriveUnionLT5(a, b)
}

func IntersectlT5(a [][]byte, b [][]byte) [][]byte {
	return deriveIntersectLT5(a, b)
}

func FilterT5(pred func([]byte) bool, l [][]byte) [][]byte {
	return deriveFilterT5(pred, l)
}

func TakewhileT5(pred func([]byte) bool, l [][]byte) [][]byte {
	return deriveTakeWhileT5(pred, l)
}

func AllT5(pred func([]byte) bool, l [][]byte) bool {
	return deriveAllT5(pred, l)
}

func AnyT5(pred func([]byte) bool, l [][]byte) bool {
	return deriveAnyT5(pred, l)
}

func EqualT6(a int64, b int64) bool {
	return deriveEqualT6(a, b)
}

func ContainsT6(l []int64, x int64) bool {
	return deriveContainsT6(l, x)
}

func UniqueT6(l []int64) []int64 {
	return deriveUniqueT6(l)
}

func SetT6(l []int64) map[int64]struct{} {
	return deriveSetT6(l)
}

func UnionlT6(a []int64, b []int64) []int64 {
	return deriveUnionLT6(a, b)
}

func IntersectlT6(a []int64, b []int64) []int64 {
	return deriveIntersectLT6(a, b)
}

func UnionmT6(a map[int64]struct{}, b map[int64]struct{}) map[int64]struct{} {
	return deriveUnionMT6(a, b)
}

func IntersectmT6(a map[int64]struct{}, b map[int64]struct{}) map[int64]struct{} {
	return deriveIntersectMT6(a, b)
}

func FilterT6(pred func(int64) bool, l []int64) []int64 {
	return deriveFilterT6(pred, l)
}

func TakewhileT6(pred func(int64) bool, l []int64) []int64 {
	return deriveTakeWhileT6(pred, l)
}

func AllT6(pred func(int64) bool, l []int64) bool {
	return deriveAllT6(pred, l)
}

func AnyT6(pred func(int64) bool, l []int64) bool {
	return deriveAnyT6(pred, l)
}

func EqualT7(a map[int]byte, b map[int]byte) bool {
	return deriveEqualT7(a, b)
}

func ContainsT7(l []map[int]byte, x map[int]byte) bool {
	return deriveContainsT7(l, x)
}

func UniqueT7(l []map[int]byte) []map[int]byte {
	return deriveUniqueT7(l)
}

func UnionlT7(a []map[int]byte, b []map[int]byte) []map[int]byte {
	return deriveUnionLT7(a, b)
}

func IntersectlT7(a []map[int]byte, b []map[int]byte) []map[int]byte {
	return deriveIntersectLT7(a, b)
}

func FilterT7(pred func(map[int]byte) bool, l []map[int]byte) []map[int]byte {
	return deriveFilterT7(pred, l)
}

func TakewhileT7(pred func(map[int]byte) bool, l []map[int]byte) []map[int]byte {
	return deriveTakeWhileT7(pred, l)
}

func AllT7(pred func(map[int]byte) bool, l []map[int]byte) bool {
	return deriveAllT7(pred, l)
}

func AnyT7(pred func(map[int]byte) bool, l []map[int]byte) bool {
	return deriveAnyT7(pred, l)
}

func EqualT8(a map[int8]S2, b map[int8]S2) bool {
	return deriveEqualT8(a, b)
}

func ContainsT8(l []map[int8]S2, x map[int8]S2) bool {
	return deriveContainsT8(l, x)
}

func UniqueT8(l []map[int8]S2) []map[int8]S2 {
	return deriveUniqueT8(l)
}

func UnionlT8(a []map[int8]S2, b []map[int8]S2) []map[int8]S2 {
	return deriveUnionLT8(a, b)
}

func IntersectlT8(a []map[int8]S2, b []map[int8]S2) []map[int8]S2 {
	return deriveIntersectLT8(a, b)
}

func FilterT8(pred func(map[int8]S2) bool, l []map[int8]S2) []map[int8]S2 {
	return deriveFilterT8(pred, l)
}

func TakewhileT8(pred func(map[int8]S2) bool, l []map[int8]S2) []map[int8]S2 {
	return deriveTakeWhileT8(pred, l)
}

func AllT8(pred func(map[int8]S2) bool, l []map[int8]S2) bool {
	return deriveAllT8(pred, l)
}

func AnyT8(pred func(map[int8]S2) bool, l []map[int8]S2) bool {
	return deriveAnyT8(pred, l)
}

func EqualT9(a S0, b S0) bool {
	return deriveEqualT9(a, b)
}

func ContainsT9(l []S0, x S0) bool {
	return deriveContainsT9(l, x)
}

func UniqueT9(l []S0) []S0 {
	return deriveUniqueT9(l)
}

func UnionlT9(a []S0, b []S0) []S0 {
	return deriveUnionLT9(a, b)
}

func IntersectlT9(a []S0, b []S0) []S0 {
	return deriveIntersectLT9(a, b)
}

func FilterT9(pred func(S0) bool, l []S0) []S0 {
	return deriveFilterT9(pred, l)
}

func TakewhileT9(pred func(S0) bool, l []S0) []S0 {
	return deriveTakeWhileT9(pred, l)
}

func AllT9(pred func(S0) bool, l []S0) bool {
	return deriveAllT9(pred, l)
}

func AnyT9(pred func(S0) bool, l []S0) bool {
	return deriveAnyT9(pred, l)
}

func EqualT10(a uint8, b uint8) bool {
	return deriveEqualT10(a, b)
}

func ContainsT10(l []uint8, x uint8) bool {
	return deriveContainsT10(l, x)
}

func UniqueT10(l []uint8) []uint8 {
	return deriveUniqueT10(l)
}

func SetT10(l []uint8) map[uint8]struct{} {
	return deriveSetT10(l)
}

func UnionlT10(a []uint8, b []uint8) []uint8 {
	return deriveUnionLT10(a, b)
}

func IntersectlT10(a []uint8, b []uint8) []uint8 {
	return deriveIntersectLT10(a, b)
}

func UnionmT10(a map[uint8]struct{}, b map[uint8]struct{}) map[uint8]struct{} {
	return deriveUnionMT10(a, b)
}

func IntersectmT10(a map[uint8]struct{}, b map[uint8]struct{}) map[uint8]struct{} {
	return deriveIntersectMT10(a, b)
}

func FilterT10(pred func(uint8) bool, l []uint8) []uint8 {
	return deriveFilterT10(pred, l)
}

func TakewhileT10(pred func(uint8) bool, l []uint8) []uint8 {
	return deriveTakeWhileT10(pred, l)
}

func AllT10(pred func(uint8) bool, l []uint8) bool {
	return deriveAllT10(pred, l)
}

func AnyT10(pred func(uint8) bool, l []uint8) bool {
	return deriveAnyT10(pred, l)
}

func EqualT11(a []ext2.Key, b []ext2.Key) bool {
	return deriveEqualT11(a, b)
}

func ContainsT11(l [][]ext2.Key, x []ext2.Key) bool {
	return deriveContainsT11(l, x)
}

func UniqueT11(l [][]ext2.Key) [][]ext2.Key {
	return deriveUniqueT11(l)
}

func UnionlT11(a [][]ext2.Key, b [][]ext2.Key) [][]ext2.Key {
	return deriveUnionLT11(a, b)
}

func IntersectlT11(a [][]ext2.Key, b [][]ext2.Key) [][]ext2.Key {
	return deriveIntersectLT11(a, b)
}

func FilterT11(pred func([]ext2.Key) bool, l [][]ext2.Key) [][]ext2.Key {
	return deriveFilterT11(pred, l)
}

func TakewhileT11(pred func([]ext2.Key) bool, l [][]ext2.Key) [][]ext2.Key {
	return deriveTakeWhileT11(pred, l)
}

func AllT11(pred func([]ext2.Key) bool, l [][]ext2.Key) bool {
	return deriveAllT11(pred, l)
}

func AnyT11(pred func([]ext2.Key) bool, l [][]ext2.Key) bool {
	return deriveAnyT11(pred, l)
}

func EqualT12(a []uintptr, b []uintptr) bool {
	return deriveEqualT12(a, b)
}

func ContainsT12(l [][]uintptr, x []uintptr) bool {
	return deriveContainsT12(l, x)
}

func UniqueT12(l [][]uintptr) [][]uintptr {
	return deriveUniqueT12(l)
}

func UnionlT12(a [][]uintptr, b [][]uintptr) [][]uintptr {
	return deriveUnionLT12(a, b)
}

func IntersectlT12(a [][]uintptr, b [][]uintptr) [][]uintptr {
	return deriveIntersectLT12(a, b)
}

func FilterT12(pred func([]uintptr) bool, l [][]uintptr) [][]uintptr {
	return deriveFilterT12(pred, l)
}

func TakewhileT12(pred func([]uintptr) bool, l [][]uintptr) [][]uintptr {
	return deriveTakeWhileT12(pred, l)
}

func AllT12(pred func([]uintptr) bool, l [][]uintptr) bool {
	return deriveAllT12(pred, l)
}

func AnyT12(pred func([]uintptr) bool, l [][]uintptr) bool {
	return deriveAnyT12(pred, l)
}

func EqualT13(a ext2.Key, b ext2.Key) bool {
	return deriveEqualT13(a, b)
}

func ContainsT13(l []ext2.Key, x ext2.Key) bool {
	return deriveContainsT13(l, x)
}

func UniqueT13(l []ext2.Key) []ext2.Key {
	return deriveUniqueT13(l)
}

func SetT13(l []ext2.Key) map[ext2.Key]struct{} {
	return deriveSetT13(l)
}

func UnionlT13(a []ext2.Key, b []ext2.Key) []ext2.Key {
	return deriveUnionLT13(a, b)
}

func IntersectlT13(a []ext2.Key, b []ext2.Key) []ext2.Key {
	return deriveIntersectLT13(a, b)
}

func UnionmT13(a map[ext2.Key]struct{}, b map[ext2.Key]struct{}) map[ext2.Key]struct{} {
	return deriveUnionMT13(a, b)
}

func IntersectmT13(a map[ext2.Key]struct{}, b map[ext2.Key]struct{}) map[ext2.Key]struct{} {
	return deriveIntersectMT13(a, b)
}

func FilterT13(pred func(ext2.Key) bool, l []ext2.Key) []ext2.Key {
	return deriveFilterT13(pred, l)
}

func TakewhileT13(pred func(ext2.Key) bool, l []ext2.Key) []ext2.Key {
	return deriveTakeWhileT13(pred, l)
}

func AllT13(pred func(ext2.Key) bool, l []ext2.Key) bool {
	return deriveAllT13(pred, l)
}

func AnyT13(pred func(ext2.Key) bool, l []ext2.Key) bool {
	return deriveAnyT13(pred, l)
}
