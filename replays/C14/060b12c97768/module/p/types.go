package p

import (
	ext "subj/ext1"
	ext2 "subj/x/ext"
)

type MyU8 uint8

type MyF32 float32

type MyInt int

type K0 struct {
}

type S0 struct {
	F0 string
	f1 map[[1]MyInt]ext.Key
	F2 map[ext2.Key]string
	K0
}

type S1 struct {
	*S0
	F1 string
	f2 K0
}

type S2 struct {
	f0 K0
	f1 uint
}
