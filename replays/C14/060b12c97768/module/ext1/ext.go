package ext

type Num string

type Key struct {
	K0 byte
	K1 Num
	k2 string
}

type E0 struct {
	f0 Key
	f1 Num
	f2 int64
}

type E1 struct {
	F0 []byte
	F1 *E0
}
