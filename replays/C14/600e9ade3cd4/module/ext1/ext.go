package ext

type Num string

type Key struct {
	K0 int8
	k1 int64
}

type E0 struct {
	f0 Num
}

type E1 struct {
}
