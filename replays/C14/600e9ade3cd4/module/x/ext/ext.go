package ext

type Num uint8

type Key struct {
	k0 string
	K1 Num
}

type E0 struct {
	F0 Num
	f1 []Key
}

type E1 struct {
	F0 E0
	F1 bool
	F2 [][]int
}
