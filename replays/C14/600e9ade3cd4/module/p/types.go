package p

import (
	ext "subj/ext1"
)

type MyStr string

type MyU8 uint8

type N0 [][]MyStr

type N1 []complex64

type N2 map[ext.Num]string

type K0 struct {
}

type K1 struct {
	F0 [1]float32
	f1 ext.Key
	f2 float64
}

type S0 struct {
	F0 *S0
	F1 map[float64][]complex128
	*K0
	F3 bool
}

type S1 struct {
	f0 int32
}
