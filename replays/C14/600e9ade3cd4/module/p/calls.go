package p

import (
	ext "subj/ext1"
	ext2 "subj/x/ext"
)

var Anchor = 0

func EqualT0(a *K0, b *K0) bool {
	return deriveEqualT0(a, b)
}

func ContainsT0(l []*K0, x *K0) bool {
	return deriveContainsT0(l, x)
}

func UniqueT0(l []*K0) []*K0 {
	return deriveUniqueT0(l)
}

func UnionlT0(a []*K0, b []*K0) []*K0 {
	return deriveUnionLT0(a, b)
}

func IntersectlT0(a []*K0, b []*K0) []*K0 {
	return deriveIntersectLT0(a, b)
}

func FilterT0(pred func(*K0) bool, l []*K0) []*K0 {
	return deriveFilterT0(pred, l)
}

func TakewhileT0(pred func(*K0) bool, l []*K0) []*K0 {
	return deriveTakeWhileT0(pred, l)
}

func AllT0(pred func(*K0) bool, l []*K0) bool {
	return deriveAllT0(pred, l)
}

func AnyT0(pred func(*K0) bool, l []*K0) bool {
	return deriveAnyT0(pred, l)
}

func EqualT1(a ext2.Num, b ext2.Num) bool {
	return deriveEqualT1(a, b)
}

func ContainsT1(l []ext2.Num, x ext2.Num) bool {
	return deriveContainsT1(l, x)
}

func UniqueT1(l []ext2.Num) []ext2.Num {
	return deriveUniqueT1(l)
}

func SetT1(l []ext2.Num) map[ext2.Num]struct{} {
	return deriveSetT1(l)
}

func UnionlT1(a []ext2.Num, b []ext2.Num) []ext2.Num {
	return deriveUnionLT1(a, b)
}

func IntersectlT1(a []ext2.Num, b []ext2.Num) []ext2.Num {
	return deriveIntersectLT1(a, b)
}

func UnionmT1(a map[ext2.Num]struct{}, b map[ext2.Num]struct{}) map[ext2.Num]struct{} {
	return deriveUnionMT1(a, b)
}

func IntersectmT1(a map[ext2.Num]struct{}, b map[ext2.Num]struct{}) map[ext2.Num]struct{} {
	return deriveIntersectMT1(a, b)
}

func FilterT1(pred func(ext2.Num) bool, l []ext2.Num) []ext2.Num {
	return deriveFilterT1(pred, l)
}

func TakewhileT1(pred func(ext2.Num) bool, l []ext2.Num) []ext2.Num {
	return deriveTakeWhileT1(pred, l)
}

func AllT1(pred func(ext2.Num) bool, l []ext2.Num) bool {
	return deriveAllT1(pred, l)
}

func AnyT1(pred func(ext2.Num) bool, l []ext2.Num) bool {
	return deriveAnyT1(pred, l)
}

func EqualT2(a *S0, b *S0) bool {
	return deriveEqualT2(a, b)
}

func ContainsT2(l []*S0, x *S0) bool {
	return deriveContainsT2(l, x)
}

func UniqueT2(l []*S0) []*S0 {
	return deriveUniqueT2(l)
}

func UnionlT2(a []*S0, b []*S0) []*S0 {
	return deriveUnionLT2(a, b)
}

func IntersectlT2(a []*S0, b []*S0) []*S0 {
	return deriveIntersectLT2(a, b)
}

func FilterT2(pred func(*S0) bool, l []*S0) []*S0 {
	return deriveFilterT2(pred, l)
}

func TakewhileT2(pred func(*S0) bool, l []*S0) []*S0 {
	return deriveTakeWhileT2(pred, l)
}

func AllT2(pred func(*S0) bool, l []*S0) bool {
	return deriveAllT2(pred, l)
}

func AnyT2(pred func(*S0) bool, l []*S0) bool {
	return deriveAnyT2(pred, l)
}

func EqualT3(a *S1, b *S1) bool {
	return deriveEqualT3(a, b)
}

func ContainsT3(l []*S1, x *S1) bool {
	return deriveContainsT3(l, x)
}

func UniqueT3(l []*S1) []*S1 {
	return deriveUniqueT3(l)
}

func UnionlT3(a []*S1, b []*S1) []*S1 {
	return deriveUnionLT3(a, b)
}

func IntersectlT3(a []*S1, b []*S1) []*S1 {
	return deriveIntersectLT3(a, b)
}

func FilterT3(pred func(*S1) bool, l []*S1) []*S1 {
	return deriveFilterT3(pred, l)
}

func TakewhileT3(pred func(*S1) bool, l []*S1) []*S1 {
	return deriveTakeWhileT3(pred, l)
}

func AllT3(pred func(*S1) bool, l []*S1) bool {
	return deriveAllT3(pred, l)
}

func AnyT3(pred func(*S1) bool, l []*S1) bool {
	return deriveAnyT3(pred, l)
}

func EqualT4(a complex64, b complex64) bool {
	return deriveEqualT4(a, b)
}

func ContainsT4(l []complex64, x complex64) bool {
	return deriveContainsT4(l, x)
}

func UniqueT4(l []complex64) []complex64 {
	return deriveUniqueT4(l)
}

func SetT4(l []complex64) map[complex64]struct{} {
	return deriveSetT4(l)
}

func UnionlT4(a []complex64, b []complex64) []complex64 {
	return deriveUnionLT4(a, b)
}

func IntersectlT4(a []complex64, b []complex64) []complex64 {
	return deriveIntersectLT4(a, b)
}

func UnionmT4(a map[complex64]struct{}, b map[complex64]struct{}) map[complex64]struct{} {
	return deriveUnionMT4(a, b)
}

func IntersectmT4(a map[complex64]struct{}, b map[complex64]struct{}) map[complex64]struct{} {
	return deriveIntersectMT4(a, b)
}

func FilterT4(pred func(complex64) bool, l []complex64) []complex64 {
	return deriveFilterT4(pred, l)
}

func TakewhileT4(pred func(complex64) bool, l []complex64) []complex64 {
	return deriveTakeWhileT4(pred, l)
}

func AllT4(pred func(complex64) bool, l []complex64) bool {
	return deriveAllT4(pred, l)
}

func AnyT4(pred func(complex64) bool, l []complex64) bool {
	return deriveAnyT4(pred, l)
}

func EqualT5(a N0, b N0) bool {
	return deriveEqualT5(a, b)
}

func ContainsT5(l []N0, x N0) bool {
	return deriveContainsT5(l, x)
}

func UniqueT5(l []N0) []N0 {
	return deriveUniqueT5(l)
}

func UnionlT5(a []N0, b []N0) []N0 {
	return deriveUnionLT5(a, b)
}

func IntersectlT5(a []N0, b []N0) []N0 {
	return deriveIntersectLT5(a, b)
}

func FilterT5(pred func(N0) bool, l []N0) []N0 {
	return deriveFilterT5(pred, l)
}

func TakewhileT5(pred func(N0) bool, l []N0) []N0 {
	return deriveTakeWhileT5(pred, l)
}

func AllT5(pred func(N0) bool, l []N0) bool {
	return deriveAllT5(pred, l)
}

func AnyT5(pred func(N0) bool, l []N0) bool {
	return deriveAnyT5(pred, l)
}

func EqualT6(a ext.E0, b ext.E0) bool {
	return deriveEqualT6(a, b)
}

func ContainsT6(l []ext.E0, x ext.E0) bool {
	return deriveContainsT6(l, x)
}

func UniqueT6(l []ext.E0) []ext.E0 {
	return deriveUniqueT6(l)
}

func SetT6(l []ext.E0) map[ext.E0]struct{} {
	return deriveSetT6(l)
}

func UnionlT6(a []ext.E0, b []ext.E0) []ext.E0 {
	return deriveUnionLT6(a, b)
}

func IntersectlT6(a []ext.E0, b []ext.E0) []ext.E0 {
	return deriveIntersectLT6(a, b)
}

func UnionmT6(a map[ext.E0]struct{}, b map[ext.E0]struct{}) map[ext.E0]struct{} {
	return deriveUnionMT6(a, b)
}

func IntersectmT6(a map[ext.E0]struct{}, b map[ext.E0]struct{}) map[ext.E0]struct{} {
	return deriveIntersectMT6(a, b)
}

func FilterT6(pred func(ext.E0) bool, l []ext.E0) []ext.E0 {
	return deriveFilterT6(pred, l)
}

func TakewhileT6(pred func(ext.E0) bool, l []ext.E0) []ext.E0 {
	return deriveTakeWhileT6(pred, l)
}

func AllT6(pred func(ext.E0) bool, l []ext.E0) bool {
	return deriveAllT6(pred, l)
}

func AnyT6(pred func(ext.E0) bool, l []ext.E0) bool {
	return deriveAnyT6(pred, l)
}

func EqualT7(a map[int64]int8, b map[int64]int8) bool {
	return deriveEqualT7(a, b)
}

func ContainsT7(l []map[int64]int8, x map[int64]int8) bool {
	return deriveContainsT7(l, x)
}

func UniqueT7(l []map[int64]int8) []map[int64]int8 {
	return deriveUniqueT7(l)
}

func UnionlT7(a []map[int64]int8, b []map[int64]int8) []map[int64]int8 {
	return deriveUnionLT7(a, b)
}

func IntersectlT7(a []map[int64]int8, b []map[int64]int8) []map[int64]int8 {
	return deriveIntersectLT7(a, b)
}

func FilterT7(pred func(map[int64]int8) bool, l []map[int64]int8) []map[int64]int8 {
	return deriveFilterT7(pred, l)
}

func TakewhileT7(pred func(map[int64]int8) bool, l []map[int64]int8) []map[int64]int8 {
	return deriveTakeWhileT7(pred, l)
}

func AllT7(pred func(map[int64]int8) bool, l []map[int64]int8) bool {
	return deriveAllT7(pred, l)
}

func AnyT7(pred func(map[int64]int8) bool, l []map[int64]int8) bool {
	return deriveAnyT7(pred, l)
}

func EqualT8(a int16, b int16) bool {
	return deriveEqualT8(a, b)
}

func ContainsT8(l []int16, x int16) bool {
	return deriveContainsT8(l, x)
}

func UniqueT8(l []int16) []int16 {
	return deriveUniqueT8(l)
}

func SetT8(l []int16) map[int16]struct{} {
	return deriveSetT8(l)
}

func UnionlT8(a []int16, b []int16) []int16 {
	return deriveUnionLT8(a, b)
}

func IntersectlT8(a []int16, b []int16) []int16 {
	return deriveIntersectLT8(a, b)
}

func UnionmT8(a map[int16]struct{}, b map[int16]struct{}) map[int16]struct{} {
	return deriveUnionMT8(a, b)
}

func IntersectmT8(a map[int16]struct{}, b map[int16]struct{}) map[int16]struct{} {
	return deriveIntersectMT8(a, b)
}

func FilterT8(pred func(int16) bool, l []int16) []int16 {
	return deriveFilterT8(pred, l)
}

func TakewhileT8(pred func(int16) bool, l []int16) []int16 {
	return deriveTakeWhileT8(pred, l)
}

func AllT8(pred func(int16) bool, l []int16) bool {
	return deriveAllT8(pred, l)
}

func AnyT8(pred func(int16) bool, l []int16) bool {
	return deriveAnyT8(pred, l)
}

func EqualT9(a ext.Key, b ext.Key) bool {
	return deriveEqualT9(a, b)
}

func ContainsT9(l []ext.Key, x ext.Key) bool {
	return deriveContainsT9(l, x)
}

func UniqueT9(l []ext.Key) []ext.Key {
	return deriveUniqueT9(l)
}

func SetT9(l []ext.Key) map[ext.Key]struct{} {
	return deriveSetT9(l)
}

func UnionlT9(a []ext.Key, b []ext.Key) []ext.Key {
	return deriveUnionLT9(a, b)
}

func IntersectlT9(a []ext.Key, b []ext.Key) []ext.Key {
	return deriveIntersectLT9(a, b)
}

func UnionmT9(a map[ext.Key]struct{}, b map[ext.Key]struct{}) map[ext.Key]struct{} {
	return deriveUnionMT9(a, b)
}

func IntersectmT9(a map[ext.Key]struct{}, b map[ext.Key]struct{}) map[ext.Key]struct{} {
	return deriveIntersectMT9(a, b)
}

func FilterT9(pred func(ext.Key) bool, l []ext.Key) []ext.Key {
	return deriveFilterT9(pred, l)
}

func TakewhileT9(pred func(ext.Key) bool, l []ext.Key) []ext.Key {
	return deriveTakeWhileT9(pred, l)
}

func AllT9(pred func(ext.Key) bool, l []ext.Key) bool {
	return deriveAllT9(pred, l)
}

func AnyT9(pred func(ext.Key) bool, l []ext.Key) bool {
	return deriveAnyT9(pred, l)
}

func EqualT10(a bool, b bool) bool {
	return deriveEqualT10(a, b)
}

func ContainsT10(l []bool, x bool) bool {
	return deriveContainsT10(l, x)
}

func UniqueT10(l []bool) []bool {
	return deriveUniqueT10(l)
}

func SetT10(l []bool) map[bool]struct{} {
	return deriveSetT10(l)
}

func UnionlT10(a []bool, b []bool) []bool {
	return deriveUnionLT10(a, b)
}

func IntersectlT10(a []bool, b []bool) []bool {
	return deriveIntersectLT10(a, b)
}

func UnionmT10(a map[bool]struct{}, b map[bool]struct{}) map[bool]struct{} {
	return deriveUnionMT10(a, b)
}

func IntersectmT10(a map[bool]struct{}, b map[bool]struct{}) map[bool]struct{} {
	return deriveIntersectMT10(a, b)
}

func FilterT10(pred func(bool) bool, l []bool) []bool {
	return deriveFilterT10(pred, l)
}

func TakewhileT10(pred func(bool) bool, l []bool) []bool {
	return deriveTakeWhileT10(pred, l)
}

func AllT10(pred func(bool) bool, l []bool) bool {
	return deriveAllT10(pred, l)
}

func AnyT10(pred func(bool) bool, l []bool) bool {
	return deriveAnyT10(pred, l)
}

func EqualT11(a map[ext.Key]*byte, b map[ext.Key]*byte) bool {
	return deriveEqualT11(a, b)
}

func ContainsT11(l []map[ext.Key]*byte, x map[ext.Key]*byte) bool {
	return deriveContainsT11(l, x)
}

func UniqueT11(l []map[ext.Key]*byte) []map[ext.Key]*byte {
	return deriveUniqueT11(l)
}

func UnionlT11(a []map[ext.Key]*byte, b []map[ext.Key]*byte) []map[ext.Key]*byte {
	return deriveUnionLT11(a, b)
}

func IntersectlT11(a []map[ext.Key]*byte, b []map[ext.Key]*byte) []map[ext.Key]*byte {
	return deriveIntersectLT11(a, b)
}

func FilterT11(pred func(map[ext.Key]*byte) bool, l []map[ext.Key]*byte) []map[ext.Key]*byte {
	return deriveFilterT11(pred, l)
}

func TakewhileT11(pred func(map[ext.Key]*byte) bool, l []map[ext.Key]*byte) []map[ext.Key]*byte {
	return deriveTakeWhileT11(pred, l)
}

func AllT11(pred func(map[ext.Key]*byte) bool, l []map[ext.Key]*byte) bool {
	return deriveAllT11(pred, l)
}

func AnyT11(pred func(map[ext.Key]*byte) bool, l []map[ext.Key]*byte) bool {
	return deriveAnyT11(pred, l)
}

func EqualT12(a map[ext.Num]N0, b map[ext.Num]N0) bool {
	return deriveEqualT12(a, b)
}

func ContainsT12(l []map[ext.Num]N0, x map[ext.Num]N0) bool {
	return deriveContainsT12(l, x)
}

func UniqueT12(l []map[ext.Num]N0) []map[ext.Num]N0 {
	return deriveUniqueT12(l)
}

func UnionlT12(a []map[ext.Num]N0, b []map[ext.Num]N0) []map[ext.Num]N0 {
	return deriveUnionLT12(a, b)
}

func IntersectlT12(a []map[ext.Num]N0, b []map[ext.Num]N0) []map[ext.Num]N0 {
	return deriveIntersectLT12(a, b)
}

func FilterT12(pred func(map[ext.Num]N0) bool, l []map[ext.Num]N0) []map[ext.Num]N0 {
	return deriveFilterT12(pred, l)
}

func TakewhileT12(pred func(map[ext.Num]N0) bool, l []map[ext.Num]N0) []map[ext.Num]N0 {
	return deriveTakeWhileT12(pred, l)
}

func AllT12(pred func(map[ext.Num]N0) bool, l []map[ext.Num]N0) bool {
	return deriveAllT12(pred, l)
}

func AnyT12(pred func(map[ext.Num]N0) bool, l []map[ext.Num]N0) bool {
	return deriveAnyT12(pred, l)
}

func EqualT13(a MyStr, b MyStr) bool {
	return deriveEqualT13(a, b)
}

func ContainsT13(l []MyStr, x MyStr) bool {
	return deriveContainsT13(l, x)
}

func UniqueT13(l []MyStr) []MyStr {
	return deriveUniqueT13(l)
}

func SetT13(l []MyStr) map[MyStr]struct{} {
	return deriveSetT13(l)
}

func UnionlT13(a []MyStr, b []MyStr) []MyStr {
	return deriveUnionLT13(a, b)
}

func IntersectlT13(a []MyStr, b []MyStr) []MyStr {
	return deriveIntersectLT13(a, b)
}

func UnionmT13(a map[MyStr]struct{}, b map[MyStr]struct{}) map[MyStr]struct{} {
	return deriveUnionMT13(a, b)
}

func IntersectmT13(a map[MyStr]struct{}, b map[MyStr]struct{}) map[MyStr]struct{} {
	return deriveIntersectMT13(a, b)
}

func FilterT13(pred func(MyStr) bool, l []MyStr) []MyStr {
	return deriveFilterT13(pred, l)
}

func TakewhileT13(pred func(MyStr) bool, l []MyStr) []MyStr {
	return deriveTakeWhileT13(pred, l)
}

func AllT13(pred func(MyStr) bool, l []MyStr) bool {
	return deriveAllT13(pred, l)
}

func AnyT13(pred func(MyStr) bool, l []MyStr) bool {
	return deriveAnyT13(pred, l)
}
