package p

import (
	ext "subj/ext1"
	other "subj/x/other"
)

var Anchor = 0

func EqualT0(a string, b string) bool {
	return deriveEqualT0(a, b)
}

func ContainsT0(l []string, x string) bool {
	return deriveContainsT0(l, x)
}

func UniqueT0(l []string) []string {
	return deriveUniqueT0(l)
}

func SetT0(l []string) map[string]struct{} {
	return deriveSetT0(l)
}

func UnionlT0(a []string, b []string) []string {
	return deriveUnionLT0(a, b)
}

func IntersectlT0(a []string, b []string) []string {
	return deriveIntersectLT0(a, b)
}

func UnionmT0(a map[string]struct{}, b map[string]struct{}) map[string]struct{} {
	return deriveUnionMT0(a, b)
}

func IntersectmT0(a map[string]struct{}, b map[string]struct{}) map[string]struct{} {
	return deriveIntersectMT0(a, b)
}

func FilterT0(pred func(string) bool, l []string) []string {
	return deriveFilterT0(pred, l)
}

func TakewhileT0(pred func(string) bool, l []string) []string {
	return deriveTakeWhileT0(pred, l)
}

func AllT0(pred func(string) bool, l []string) bool {
	return deriveAllT0(pred, l)
}

func AnyT0(pred func(string) bool, l []string) bool {
	return deriveAnyT0(pred, l)
}

func EqualT1(a float64, b float64) bool {
	return deriveEqualT1(a, b)
}

func ContainsT1(l []float64, x float64) bool {
	return deriveContainsT1(l, x)
}

func UniqueT1(l []float64) []float64 {
	return deriveUniqueT1(l)
}

func SetT1(l []float64) map[float64]struct{} {
	return deriveSetT1(l)
}

func UnionlT1(a []float64, b []float64) []float64 {
	return deriveUnionLT1(a, b)
}

func IntersectlT1(a []float64, b []float64) []float64 {
	return deriveIntersectLT1(a, b)
}

func UnionmT1(a map[float64]struct{}, b map[float64]struct{}) map[float64]struct{} {
	return deriveUnionMT1(a, b)
}

func IntersectmT1(a map[float64]struct{}, b map[float64]struct{}) map[float64]struct{} {
	return deriveIntersectMT1(a, b)
}

func FilterT1(pred func(float64) bool, l []float64) []float64 {
	return deriveFilterT1(pred, l)
}

func TakewhileT1(pred func(float64) bool, l []float64) []float64 {
	return deriveTakeWhileT1(pred, l)
}

func AllT1(pred func(float64) bool, l []float64) bool {
	return deriveAllT1(pred, l)
}

func AnyT1(pred func(float64) bool, l []float64) bool {
	return deriveAnyT1(pred, l)
}

func EqualT2(a bool, b bool) bool {
	return deriveEqualT2(a, b)
}

func ContainsT2(l []bool, x bool) bool {
	return deriveContainsT2(l, x)
}

func UniqueT2(l []bool) []bool {
	return deriveUniqueT2(l)
}

func SetT2(l []bool) map[bool]struct{} {
	return deriveSetT2(l)
}

func UnionlT2(a []bool, b []bool) []bool {
	return deriveUnionLT2(a, b)
}

func IntersectlT2(a []bool, b []bool) []bool {
	return deriveIntersectLT2(a, b)
}

func UnionmT2(a map[bool]struct{}, b map[bool]struct{}) map[bool]struct{} {
	return deriveUnionMT2(a, b)
}

func IntersectmT2(a map[bool]struct{}, b map[bool]struct{}) map[bool]struct{} {
	return deriveIntersectMT2(a, b)
}

func FilterT2(pred func(bool) bool, l []bool) []bool {
	return deriveFilterT2(pred, l)
}

func TakewhileT2(pred func(bool) bool, l []bool) []bool {
	return deriveTakeWhileT2(pred, l)
}

func AllT2(pred func(bool) bool, l []bool) bool {
	return deriveAllT2(pred, l)
}

func AnyT2(pred func(bool) bool, l []bool) bool {
	return deriveAnyT2(pred, l)
}

func EqualT3(a byte, b byte) bool {
	return deriveEqualT3(a, b)
}

func ContainsT3(l []byte, x byte) bool {
	return deriveContainsT3(l, x)
}

func UniqueT3(l []byte) []byte {
	return deriveUniqueT3(l)
}

func SetT3(l []byte) map[byte]struct{} {
	return deriveSetT3(l)
}

func UnionlT3(a []byte, b []byte) []byte {
	return deriveUnionLT3(a, b)
}

func IntersectlT3(a []byte, b []byte) []byte {
	return deriveIntersectLT3(a, b)
}

func UnionmT3(a map[byte]struct{}, b map[byte]struct{}) map[byte]struct{} {
	return deriveUnionMT3(a, b)
}

func IntersectmT3(a map[byte]struct{}, b map[byte]struct{}) map[byte]struct{} {
	return deriveIntersectMT3(a, b)
}

func FilterT3(pred func(byte) bool, l []byte) []byte {
	return deriveFilterT3(pred, l)
}

func TakewhileT3(pred func(byte) bool, l []byte) []byte {
	return deriveTakeWhileT3(pred, l)
}

func AllT3(pred func(byte) bool, l []byte) bool {
	return deriveAllT3(pred, l)
}

func AnyT3(pred func(byte) bool, l []byte) bool {
	return deriveAnyT3(pred, l)
}

func EqualT4(a MyInt, b MyInt) bool {
	return deriveEqualT4(a, b)
}

func ContainsT4(l []MyInt, x MyInt) bool {
	return deriveContainsT4(l, x)
}

func UniqueT4(l []MyInt) []MyInt {
	return deriveUniqueT4(l)
}

func SetT4(l []MyInt) map[MyInt]struct{} {
	return deriveSetT4(l)
}

func UnionlT4(a []MyInt, b []MyInt) []MyInt {
	return deriveUnionLT4(a, b)
}

func IntersectlT4(a []MyInt, b []MyInt) []MyInt {
	return deriveIntersectLT4(a, b)
}

func UnionmT4(a map[MyInt]struct{}, b map[MyInt]struct{}) map[MyInt]struct{} {
	return deriveUnionMT4(a, b)
}

func IntersectmT4(a map[MyInt]struct{}, b map[MyInt]struct{}) map[MyInt]struct{} {
	return deriveIntersectMT4(a, b)
}

func FilterT4(pred func(MyInt) bool, l []MyInt) []MyInt {
	return deriveFilterT4(pred, l)
}

func TakewhileT4(pred func(MyInt) bool, l []MyInt) []MyInt {
	return deriveTakeWhileT4(pred, l)
}

func AllT4(pred func(MyInt) bool, l []MyInt) bool {
	return deriveAllT4(pred, l)
}

func AnyT4(pred func(MyInt) bool, l []MyInt) bool {
	return deriveAnyT4(pred, l)
}

func EqualT5(a S0, b S0) bool {
	return deriveEqualT5(a, b)
}

func ContainsT5(l []S0, x S0) bool {
	return deriveContainsT5(l, x)
}

func UniqueT5(l []S0) []S0 {
	return deriveUniqueT5(l)
}

func UnionlT5(a []S0, b []S0) []S0 {
	return deriveUnionLT5(a, b)
}

func IntersectlT5(a []S0, b []S0) []S0 {
	return deriveIntersectLT5(a, b)
}

func FilterT5(pred func(S0) bool, l []S0) []S0 {
	return deriveFilterT5(pred, l)
}

func TakewhileT5(pred func(S0) bool, l []S0) []S0 {
	return deriveTakeWhileT5(pred, l)
}

func AllT5(pred func(S0) bool, l []S0) bool {
	return deriveAllT5(pred, l)
}

func AnyT5(pred func(S0) bool, l []S0) bool {
	return deriveAnyT5(pred, l)
}

func EqualT6(a ext.E0, b ext.E0) bool {
	return deriveEqualT6(a, b)
}

func ContainsT6(l []ext.E0, x ext.E0) bool {
	return deriveContainsT6(l, x)
}

func UniqueT6(l []ext.E0) []ext.E0 {
	return deriveUniqueT6(l)
}

func UnionlT6(a []ext.E0, b []ext.E0) []ext.E0 {
	return deriveUnionLT6(a, b)
}

func IntersectlT6(a []ext.E0, b []ext.E0) []ext.E0 {
	return deriveIntersectLT6(a, b)
}

func FilterT6(pred func(ext.E0) bool, l []ext.E0) []ext.E0 {
	return deriveFilterT6(pred, l)
}

func TakewhileT6(pred func(ext.E0) bool, l []ext.E0) []ext.E0 {
	return deriveTakeWhileT6(pred, l)
}

func AllT6(pred func(ext.E0) bool, l []ext.E0) bool {
	return deriveAllT6(pred, l)
}

func AnyT6(pred func(ext.E0) bool, l []ext.E0) bool {
	return deriveAnyT6(pred, l)
}

func EqualT7(a R, b R) bool {
	return deriveEqualT7(a, b)
}

func ContainsT7(l []R, x R) bool {
	return deriveContainsT7(l, x)
}

func UniqueT7(l []R) []R {
	return deriveUniqueT7(l)
}

func UnionlT7(a []R, b []R) []R {
	return deriveUnionLT7(a, b)
}

func IntersectlT7(a []R, b []R) []R {
	return deriveIntersectLT7(a, b)
}

func FilterT7(pred func(R) bool, l []R) []R {
	return deriveFilterT7(pred, l)
}

func TakewhileT7(pred func(R) bool, l []R) []R {
	return deriveTakeWhileT7(pred, l)
}

func AllT7(pred func(R) bool, l []R) bool {
	return deriveAllT7(pred, l)
}

func AnyT7(pred func(R) bool, l []R) bool {
	return deriveAnyT7(pred, l)
}

func EqualT8(a other.O0, b other.O0) bool {
	return deriveEqualT8(a, b)
}

func ContainsT8(l []other.O0, x other.O0) bool {
	return deriveContainsT8(l, x)
}

func UniqueT8(l []other.O0) []other.O0 {
	return deriveUniqueT8(l)
}

func UnionlT8(a []other.O0, b []other.O0) []other.O0 {
	return deriveUnionLT8(a, b)
}

func IntersectlT8(a []other.O0, b []other.O0) []other.O0 {
	return deriveIntersectLT8(a, b)
}

func FilterT8(pred func(other.O0) bool, l []other.O0) []other.O0 {
	return deriveFilterT8(pred, l)
}

func TakewhileT8(pred func(other.O0) bool, l []other.O0) []other.O0 {
	return deriveTakeWhileT8(pred, l)
}

func AllT8(pred func(other.O0) bool, l []other.O0) bool {
	return deriveAllT8(pred, l)
}

func AnyT8(pred func(other.O0) bool, l []other.O0) bool {
	return deriveAnyT8(pred, l)
}

func EqualT9(a *int, b *int) bool {
	return deriveEqualT9(a, b)
}

func ContainsT9(l []*int, x *int) bool {
	return deriveContainsT9(l, x)
}

func UniqueT9(l []*int) []*int {
	return deriveUniqueT9(l)
}

func UnionlT9(a []*int, b []*int) []*int {
	return deriveUnionLT9(a, b)
}

func IntersectlT9(a []*int, b []*int) []*int {
	return deriveIntersectLT9(a, b)
}

func FilterT9(pred func(*int) bool, l []*int) []*int {
	return deriveFilterT9(pred, l)
}

func TakewhileT9(pred func(*int) bool, l []*int) []*int {
	return deriveTakeWhileT9(pred, l)
}

func AllT9(pred func(*int) bool, l []*int) bool {
	return deriveAllT9(pred, l)
}

func AnyT9(pred func(*int) bool, l []*int) bool {
	return deriveAnyT9(pred, l)
}

func EqualT10(a []int, b []int) bool {
	return deriveEqualT10(a, b)
}

func ContainsT10(l [][]int, x []int) bool {
	return deriveContainsT10(l, x)
}

func UniqueT10(l [][]int) [][]int {
	return deriveUniqueT10(l)
}

func UnionlT10(a [][]int, b [][]int) [][]int {
	return deriveUnionLT10(a, b)
}

func IntersectlT10(a [][]int, b [][]int) [][]int {
	return deriveIntersectLT10(a, b)
}

func FilterT10(pred func([]int) bool, l [][]int) [][]int {
	return deriveFilterT10(pred, l)
}

func TakewhileT10(pred func([]int) bool, l [][]int) [][]int {
	return deriveTakeWhileT10(pred, l)
}

func AllT10(pred func([]int) bool, l [][]int) bool {
	return deriveAllT10(pred, l)
}

func AnyT10(pred func([]int) bool, l [][]int) bool {
	return deriveAnyT10(pred, l)
}

func EqualT11(a [2]int, b [2]int) bool {
	return deriveEqualT11(a, b)
}

func ContainsT11(l [][2]int, x [2]int) bool {
	return deriveContainsT11(l, x)
}

func UniqueT11(l [][2]int) [][2]int {
	return deriveUniqueT11(l)
}

func SetT11(l [][2]int) map[[2]int]struct{} {
	return deriveSetT11(l)
}

func UnionlT11(a [][2]int, b [][2]int) [][2]int {
	return deriveUnionLT11(a, b)
}

func IntersectlT11(a [][2]int, b [][2]int) [][2]int {
	return deriveIntersectLT11(a, b)
}

func UnionmT11(a map[[2]int]struct{}, b map[[2]int]struct{}) map[[2]int]struct{} {
	return deriveUnionMT11(a, b)
}

func IntersectmT11(a map[[2]int]struct{}, b map[[2]int]struct{}) map[[2]int]struct{} {
	return deriveIntersectMT11(a, b)
}

func FilterT11(pred func([2]int) bool, l [][2]int) [][2]int {
	return deriveFilterT11(pred, l)
}

func TakewhileT11(pred func([2]int) bool, l [][2]int) [][2]int {
	return deriveTakeWhileT11(pred, l)
}

func AllT11(pred func([2]int) bool, l [][2]int) bool {
	return deriveAllT11(pred, l)
}

func AnyT11(pred func([2]int) bool, l [][2]int) bool {
	return deriveAnyT11(pred, l)
}

func EqualT12(a map[string]int, b map[string]int) bool {
	return deriveEqualT12(a, b)
}

func ContainsT12(l []map[string]int, x map[string]int) bool {
	return deriveContainsT12(l, x)
}

func UniqueT12(l []map[string]int) []map[string]int {
	return deriveUniqueT12(l)
}

func UnionlT12(a []map[string]int, b []map[string]int) []map[string]int {
	return deriveUnionLT12(a, b)
}

func IntersectlT12(a []map[string]int, b []map[string]int) []map[string]int {
	return deriveIntersectLT12(a, b)
}

func FilterT12(pred func(map[string]int) bool, l []map[string]int) []map[string]int {
	return deriveFilterT12(pred, l)
}

func TakewhileT12(pred func(map[string]int) bool, l []map[string]int) []map[string]int {
	return deriveTakeWhileT12(pred, l)
}

func AllT12(pred func(map[string]int) bool, l []map[string]int) bool {
	return deriveAllT12(pred, l)
}

func AnyT12(pred func(map[string]int) bool, l []map[string]int) bool {
	return deriveAnyT12(pred, l)
}

func EqualT13(a map[K0]int, b map[K0]int) bool {
	return deriveEqualT13(a, b)
}

func ContainsT13(l []map[K0]int, x map[K0]int) bool {
	return deriveContainsT13(l, x)
}

func UniqueT13(l []map[K0]int) []map[K0]int {
	return deriveUniqueT13(l)
}

func UnionlT13(a []map[K0]int, b []map[K0]int) []map[K0]int {
	return deriveUnionLT13(a, b)
}

func IntersectlT13(a []map[K0]int, b []map[K0]int) []map[K0]int {
	return deriveIntersectLT13(a, b)
}

func FilterT13(pred func(map[K0]int) bool, l []map[K0]int) []map[K0]int {
	return deriveFilterT13(pred, l)
}

func TakewhileT13(pred func(map[K0]int) bool, l []map[K0]int) []map[K0]int {
	return deriveTakeWhileT13(pred, l)
}

func AllT13(pred func(map[K0]int) bool, l []map[K0]int) bool {
	return deriveAllT13(pred, l)
}

func AnyT13(pred func(map[K0]int) bool, l []map[K0]int) bool {
	return deriveAnyT13(pred, l)
}
