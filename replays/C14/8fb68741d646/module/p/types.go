package p

import (
	ext "subj/ext1"
	ext2 "subj/x/ext"
)

type MyC complex128

type N0 [1]bool

type K0 struct {
	f0 int
	f1 ext.Num
}

type K1 struct {
	f0 int
	F1 int
	F2 int64
}

type S0 struct {
	F0 uint8
}

type S1 struct {
}

type S2 struct {
	F0 int8
	F1 ext2.Num
	*K1
}
