package p

import (
	ext "subj/ext1"
	ext2 "subj/x/ext"
)

var Anchor = 0

func EqualT0(a [0]int, b [0]int) bool {
	return deriveEqualT0(a, b)
}

func ContainsT0(l [][0]int, x [0]int) bool {
	return deriveContainsT0(l, x)
}

func UniqueT0(l [][0]int) [][0]int {
	return deriveUniqueT0(l)
}

func SetT0(l [][0]int) map[[0]int]struct{} {
	return deriveSetT0(l)
}

func UnionlT0(a [][0]int, b [][0]int) [][0]int {
	return deriveUnionLT0(a, b)
}

func IntersectlT0(a [][0]int, b [][0]int) [][0]int {
	return deriveIntersectLT0(a, b)
}

func UnionmT0(a map[[0]int]struct{}, b map[[0]int]struct{}) map[[0]int]struct{} {
	return deriveUnionMT0(a, b)
}

func IntersectmT0(a map[[0]int]struct{}, b map[[0]int]struct{}) map[[0]int]struct{} {
	return deriveIntersectMT0(a, b)
}

func FilterT0(pred func([0]int) bool, l [][0]int) [][0]int {
	return deriveFilterT0(pred, l)
}

func TakewhileT0(pred func([0]int) bool, l [][0]int) [][0]int {
	return deriveTakeWhileT0(pred, l)
}

func AllT0(pred func([0]int) bool, l [][0]int) bool {
	return deriveAllT0(pred, l)
}

func AnyT0(pred func([0]int) bool, l [][0]int) bool {
	return deriveAnyT0(pred, l)
}

func EqualT1(a int16, b int16) bool {
	return deriveEqualT1(a, b)
}

func ContainsT1(l []int16, x int16) bool {
	return deriveContainsT1(l, x)
}

func UniqueT1(l []int16) []int16 {
	return deriveUniqueT1(l)
}

func SetT1(l []int16) map[int16]struct{} {
	return deriveSetT1(l)
}

func UnionlT1(a []int16, b []int16) []int16 {
	return deriveUnionLT1(a, b)
}

func IntersectlT1(a []int16, b []int16) []int16 {
	return deriveIntersectLT1(a, b)
}

func UnionmT1(a map[int16]struct{}, b map[int16]struct{}) map[int16]struct{} {
	return deriveUnionMT1(a, b)
}

func IntersectmT1(a map[int16]struct{}, b map[int16]struct{}) map[int16]struct{} {
	return deriveIntersectMT1(a, b)
}

func FilterT1(pred func(int16) bool, l []int16) []int16 {
	return deriveFilterT1(pred, l)
}

func TakewhileT1(pred func(int16) bool, l []int16) []int16 {
	return deriveTakeWhileT1(pred, l)
}

func AllT1(pred func(int16) bool, l []int16) bool {
	return deriveAllT1(pred, l)
}

func AnyT1(pred func(int16) bool, l []int16) bool {
	return deriveAnyT1(pred, l)
}

func EqualT2(a *S0, b *S0) bool {
	return deriveEqualT2(a, b)
}

func ContainsT2(l []*S0, x *S0) bool {
	return deriveContainsT2(l, x)
}

func UniqueT2(l []*S0) []*S0 {
	return deriveUniqueT2(l)
}

func UnionlT2(a []*S0, b []*S0) []*S0 {
	return deriveUnionLT2(a, b)
}

func IntersectlT2(a []*S0, b []*S0) []*S0 {
	return deriveIntersectLT2(a, b)
}

func FilterT2(pred func(*S0) bool, l []*S0) []*S0 {
	return deriveFilterT2(pred, l)
}

func TakewhileT2(pred func(*S0) bool, l []*S0) []*S0 {
	return deriveTakeWhileT2(pred, l)
}

func AllT2(pred func(*S0) bool, l []*S0) bool {
	return deriveAllT2(pred, l)
}

func AnyT2(pred func(*S0) bool, l []*S0) bool {
	return deriveAnyT2(pred, l)
}

func EqualT3(a bool, b bool) bool {
	return deriveEqualT3(a, b)
}

func ContainsT3(l []bool, x bool) bool {
	return deriveContainsT3(l, x)
}

func UniqueT3(l []bool) []bool {
	return deriveUniqueT3(l)
}

func SetT3(l []bool) map[bool]struct{} {
	return deriveSetT3(l)
}

func UnionlT3(a []bool, b []bool) []bool {
	return deriveUnionLT3(a, b)
}

func IntersectlT3(a []bool, b []bool) []bool {
	return deriveIntersectLT3(a, b)
}

func UnionmT3(a map[bool]struct{}, b map[bool]struct{}) map[bool]struct{} {
	return deriveUnionMT3(a, b)
}

func IntersectmT3(a map[bool]struct{}, b map[bool]struct{}) map[bool]struct{} {
	return deriveIntersectMT3(a, b)
}

func FilterT3(pred func(bool) bool, l []bool) []bool {
	return deriveFilterT3(pred, l)
}

func TakewhileT3(pred func(bool) bool, l []bool) []bool {
	return deriveTakeWhileT3(pred, l)
}

func AllT3(pred func(bool) bool, l []bool) bool {
	return deriveAllT3(pred, l)
}

func AnyT3(pred func(bool) bool, l []bool) bool {
	return deriveAnyT3(pred, l)
}

func EqualT4(a *uint32, b *uint32) bool {
	return deriveEqualT4(a, b)
}

func ContainsT4(l []*uint32, x *uint32) bool {
	return deriveContainsT4(l, x)
}

func UniqueT4(l []*uint32) []*uint32 {
	return deriveUniqueT4(l)
}

func UnionlT4(a []*uint32, b []*uint32) []*uint32 {
	return deriveUnionLT4(a, b)
}

func IntersectlT4(a []*uint32, b []*uint32) []*uint32 {
	return deriveIntersectLT4(a, b)
}

func FilterT4(pred func(*uint32) bool, l []*uint32) []*uint32 {
	return deriveFilterT4(pred, l)
}

func TakewhileT4(pred func(*uint32) bool, l []*uint32) []*uint32 {
	return deriveTakeWhileT4(pred, l)
}

func AllT4(pred func(*uint32) bool, l []*uint32) bool {
	return deriveAllT4(pred, l)
}

func AnyT4(pred func(*uint32) bool, l []*uint32) bool {
	return deriveAnyT4(pred, l)
}

func EqualT5(a rune, b rune) bool {
	return deriveEqualT5(a, b)
}

func ContainsT5(l []rune, x rune) bool {
	return deriveContainsT5(l, x)
}

func UniqueT5(l []rune) []rune {
	return deriveUniqueT5(l)
}

func SetT5(l []rune) map[rune]struct{} {
	return deriveSetT5(l)
}

func UnionlT5(a []rune, b []rune) []rune {
	return deriveUnionLT5(a, b)
}

func IntersectlT5(a []rune, b []rune) []rune {
	return deriveIntersectLT5(a, b)
}

func UnionmT5(a map[rune]struct{}, b map[rune]struct{}) map[rune]struct{} {
	return deriveUnionMT5(a, b)
}

func IntersectmT5(a map[rune]struct{}, b map[rune]struct{}) map[rune]struct{} {
	return deriveIntersectMT5(a, b)
}

func FilterT5(pred func(rune) bool, l []rune) []rune {
	return deriveFilterT5(pred, l)
}

func TakewhileT5(pred func(rune) bool, l []rune) []rune {
	return deriveTakeWhileT5(pred, l)
}

func AllT5(pred func(rune) bool, l []rune) bool {
	return deriveAllT5(pred, l)
}

func AnyT5(pred func(rune) bool, l []rune) bool {
	return deriveAnyT5(pred, l)
}

func EqualT6(a ext2.Num, b ext2.Num) bool {
	return deriveEqualT6(a, b)
}

func ContainsT6(l []ext2.Num, x ext2.Num) bool {
	return deriveContainsT6(l, x)
}

func UniqueT6(l []ext2.Num) []ext2.Num {
	return deriveUniqueT6(l)
}

func SetT6(l []ext2.Num) map[ext2.Num]struct{} {
	return deriveSetT6(l)
}

func UnionlT6(a []ext2.Num, b []ext2.Num) []ext2.Num {
	return deriveUnionLT6(a, b)
}

func IntersectlT6(a []ext2.Num, b []ext2.Num) []ext2.Num {
	return deriveIntersectLT6(a, b)
}

func UnionmT6(a map[ext2.Num]struct{}, b map[ext2.Num]struct{}) map[ext2.Num]struct{} {
	return deriveUnionMT6(a, b)
}

func IntersectmT6(a map[ext2.Num]struct{}, b map[ext2.Num]struct{}) map[ext2.Num]struct{} {
	return deriveIntersectMT6(a, b)
}

func FilterT6(pred func(ext2.Num) bool, l []ext2.Num) []ext2.Num {
	return deriveFilterT6(pred, l)
}

func TakewhileT6(pred func(ext2.Num) bool, l []ext2.Num) []ext2.Num {
	return deriveTakeWhileT6(pred, l)
}

func AllT6(pred func(ext2.Num) bool, l []ext2.Num) bool {
	return deriveAllT6(pred, l)
}

func AnyT6(pred func(ext2.Num) bool, l []ext2.Num) bool {
	return deriveAnyT6(pred, l)
}

func EqualT7(a ext2.E0, b ext2.E0) bool {
	return deriveEqualT7(a, b)
}

func ContainsT7(l []ext2.E0, x ext2.E0) bool {
	return deriveContainsT7(l, x)
}

func UniqueT7(l []ext2.E0) []ext2.E0 {
	return deriveUniqueT7(l)
}

func SetT7(l []ext2.E0) map[ext2.E0]struct{} {
	return deriveSetT7(l)
}

func UnionlT7(a []ext2.E0, b []ext2.E0) []ext2.E0 {
	return deriveUnionLT7(a, b)
}

func IntersectlT7(a []ext2.E0, b []ext2.E0) []ext2.E0 {
	return deriveIntersectLT7(a, b)
}

func UnionmT7(a map[ext2.E0]struct{}, b map[ext2.E0]struct{}) map[ext2.E0]struct{} {
	return deriveUnionMT7(a, b)
}

func IntersectmT7(a map[ext2.E0]struct{}, b map[ext2.E0]struct{}) map[ext2.E0]struct{} {
	return deriveIntersectMT7(a, b)
}

func FilterT7(pred func(ext2.E0) bool, l []ext2.E0) []ext2.E0 {
	return deriveFilterT7(pred, l)
}

func TakewhileT7(pred func(ext2.E0) bool, l []ext2.E0) []ext2.E0 {
	return deriveTakeWhileT7(pred, l)
}

func AllT7(pred func(ext2.E0) bool, l []ext2.E0) bool {
	return deriveAllT7(pred, l)
}

func AnyT7(pred func(ext2.E0) bool, l []ext2.E0) bool {
	return deriveAnyT7(pred, l)
}

func EqualT8(a ext.E1, b ext.E1) bool {
	return deriveEqualT8(a, b)
}

func ContainsT8(l []ext.E1, x ext.E1) bool {
	return deriveContainsT8(l, x)
}

func UniqueT8(l []ext.E1) []ext.E1 {
	return deriveUniqueT8(l)
}

func SetT8(l []ext.E1) map[ext.E1]struct{} {
	return deriveSetT8(l)
}

func UnionlT8(a []ext.E1, b []ext.E1) []ext.E1 {
	return deriveUnionLT8(a, b)
}

func IntersectlT8(a []ext.E1, b []ext.E1) []ext.E1 {
	return deriveIntersectLT8(a, b)
}

func UnionmT8(a map[ext.E1]struct{}, b map[ext.E1]struct{}) map[ext.E1]struct{} {
	return deriveUnionMT8(a, b)
}

func IntersectmT8(a map[ext.E1]struct{}, b map[ext.E1]struct{}) map[ext.E1]struct{} {
	return deriveIntersectMT8(a, b)
}

func FilterT8(pred func(ext.E1) bool, l []ext.E1) []ext.E1 {
	return deriveFilterT8(pred, l)
}

func TakewhileT8(pred func(ext.E1) bool, l []ext.E1) []ext.E1 {
	return deriveTakeWhileT8(pred, l)
}

func AllT8(pred func(ext.E1) bool, l []ext.E1) bool {
	return deriveAllT8(pred, l)
}

func AnyT8(pred func(ext.E1) bool, l []ext.E1) bool {
	return deriveAnyT8(pred, l)
}

func EqualT9(a ext2.Key, b ext2.Key) bool {
	return deriveEqualT9(a, b)
}

func ContainsT9(l []ext2.Key, x ext2.Key) bool {
	return deriveContainsT9(l, x)
}

func UniqueT9(l []ext2.Key) []ext2.Key {
	return deriveUniqueT9(l)
}

func SetT9(l []ext2.Key) map[ext2.Key]struct{} {
	return deriveSetT9(l)
}

func UnionlT9(a []ext2.Key, b []ext2.Key) []ext2.Key {
	return deriveUnionLT9(a, b)
}

func IntersectlT9(a []ext2.Key, b []ext2.Key) []ext2.Key {
	return deriveIntersectLT9(a, b)
}

func UnionmT9(a map[ext2.Key]struct{}, b map[ext2.Key]struct{}) map[ext2.Key]struct{} {
	return deriveUnionMT9(a, b)
}

func IntersectmT9(a map[ext2.Key]struct{}, b map[ext2.Key]struct{}) map[ext2.Key]struct{} {
	return deriveIntersectMT9(a, b)
}

func FilterT9(pred func(ext2.Key) bool, l []ext2.Key) []ext2.Key {
	return deriveFilterT9(pred, l)
}

func TakewhileT9(pred func(ext2.Key) bool, l []ext2.Key) []ext2.Key {
	return deriveTakeWhileT9(pred, l)
}

func AllT9(pred func(ext2.Key) bool, l []ext2.Key) bool {
	return deriveAllT9(pred, l)
}

func AnyT9(pred func(ext2.Key) bool, l []ext2.Key) bool {
	return deriveAnyT9(pred, l)
}

func EqualT10(a uint8, b uint8) bool {
	return deriveEqualT10(a, b)
}

func ContainsT10(l []uint8, x uint8) bool {
	return deriveContainsT10(l, x)
}

func UniqueT10(l []uint8) []uint8 {
	return deriveUniqueT10(l)
}

func SetT10(l []uint8) map[uint8]struct{} {
	return deriveSetT10(l)
}

func UnionlT10(a []uint8, b []uint8) []uint8 {
	return deriveUnionLT10(a, b)
}

func IntersectlT10(a []uint8, b []uint8) []uint8 {
	return deriveIntersectLT10(a, b)
}

func UnionmT10(a map[uint8]struct{}, b map[uint8]struct{}) map[uint8]struct{} {
	return deriveUnionMT10(a, b)
}

func IntersectmT10(a map[uint8]struct{}, b map[uint8]struct{}) map[uint8]struct{} {
	return deriveIntersectMT10(a, b)
}

func FilterT10(pred func(uint8) bool, l []uint8) []uint8 {
	return deriveFilterT10(pred, l)
}

func TakewhileT10(pred func(uint8) bool, l []uint8) []uint8 {
	return deriveTakeWhileT10(pred, l)
}

func AllT10(pred func(uint8) bool, l []uint8) bool {
	return deriveAllT10(pred, l)
}

func AnyT10(pred func(uint8) bool, l []uint8) bool {
	return deriveAnyT10(pred, l)
}

func EqualT11(a int64, b int64) bool {
	return deriveEqualT11(a, b)
}

func ContainsT11(l []int64, x int64) bool {
	return deriveContainsT11(l, x)
}

func UniqueT11(l []int64) []int64 {
	return deriveUniqueT11(l)
}

func SetT11(l []int64) map[int64]struct{} {
	return deriveSetT11(l)
}

func UnionlT11(a []int64, b []int64) []int64 {
	return deriveUnionLT11(a, b)
}

func IntersectlT11(a []int64, b []int64) []int64 {
	return deriveIntersectLT11(a, b)
}

func UnionmT11(a map[int64]struct{}, b map[int64]struct{}) map[int64]struct{} {
	return deriveUnionMT11(a, b)
}

func IntersectmT11(a map[int64]struct{}, b map[int64]struct{}) map[int64]struct{} {
	return deriveIntersectMT11(a, b)
}

func FilterT11(pred func(int64) bool, l []int64) []int64 {
	return deriveFilterT11(pred, l)
}

func TakewhileT11(pred func(int64) bool, l []int64) []int64 {
	return deriveTakeWhileT11(pred, l)
}

func AllT11(pred func(int64) bool, l []int64) bool {
	return deriveAllT11(pred, l)
}

func AnyT11(pred func(int64) bool, l []int64) bool {
	return deriveAnyT11(pred, l)
}

func EqualT12(a MyC, b MyC) bool {
	return deriveEqualT12(a, b)
}

func ContainsT12(l []MyC, x MyC) bool {
	return deriveContainsT12(l, x)
}

func UniqueT12(l []MyC) []MyC {
	return deriveUniqueT12(l)
}

func SetT12(l []MyC) map[MyC]struct{} {
	return deriveSetT12(l)
}

func UnionlT12(a []MyC, b []MyC) []MyC {
	return deriveUnionLT12(a, b)
}

func IntersectlT12(a []MyC, b []MyC) []MyC {
	return deriveIntersectLT12(a, b)
}

func UnionmT12(a map[MyC]struct{}, b map[MyC]struct{}) map[MyC]struct{} {
	return deriveUnionMT12(a, b)
}

func IntersectmT12(a map[MyC]struct{}, b map[MyC]struct{}) map[MyC]struct{} {
	return deriveIntersectMT12(a, b)
}

func FilterT12(pred func(MyC) bool, l []MyC) []MyC {
	return deriveFilterT12(pred, l)
}

func TakewhileT12(pred func(MyC) bool, l []MyC) []MyC {
	return deriveTakeWhileT12(pred, l)
}

func AllT12(pred func(MyC) bool, l []MyC) bool {
	return deriveAllT12(pred, l)
}

func AnyT12(pred func(MyC) bool, l []MyC) bool {
	return deriveAnyT12(pred, l)
}

func EqualT13(a uint, b uint) bool {
	return deriveEqualT13(a, b)
}

func ContainsT13(l []uint, x uint) bool {
	return deriveContainsT13(l, x)
}

func UniqueT13(l []uint) []uint {
	return deriveUniqueT13(l)
}

func SetT13(l []uint) map[uint]struct{} {
	return deriveSetT13(l)
}

func UnionlT13(a []uint, b []uint) []uint {
	return deriveUnionLT13(a, b)
}

func IntersectlT13(a []uint, b []uint) []uint {
	return deriveIntersectLT13(a, b)
}

func UnionmT13(a map[uint]struct{}, b map[uint]struct{}) map[uint]struct{} {
	return deriveUnionMT13(a, b)
}

func IntersectmT13(a map[uint]struct{}, b map[uint]struct{}) map[uint]struct{} {
	return deriveIntersectMT13(a, b)
}

func FilterT13(pred func(uint) bool, l []uint) []uint {
	return deriveFilterT13(pred, l)
}

func TakewhileT13(pred func(uint) bool, l []uint) []uint {
	return deriveTakeWhileT13(pred, l)
}

func AllT13(pred func(uint) bool, l []uint) bool {
	return deriveAllT13(pred, l)
}

func AnyT13(pred func(uint) bool, l []uint) bool {
	return deriveAnyT13(pred, l)
}
