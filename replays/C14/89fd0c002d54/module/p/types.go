package p

import (
	ext "subj/ext1"
	other "subj/x/other"
)

type MyC complex128

type MyRune rune

type N0 map[bool]ext.Num

type K0 struct {
	f0 uint64
	f1 other.Num
}

type S0 struct {
}

type S1 struct {
	f0 *[3][]N0
	F1 complex128
}

type S2 struct {
	F0 *S2
	f1 bool
	f2 *S2
	F3 complex64
}

type S3 struct {
	F0 int32
}
