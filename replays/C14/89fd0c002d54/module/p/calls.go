package p

import (
	ext "subj/ext1"
	other "subj/x/other"
)

var Anchor = 0

func EqualT0(a *int64, b *int64) bool {
	return deriveEqualT0(a, b)
}

func ContainsT0(l []*int64, x *int64) bool {
	return deriveContainsT0(l, x)
}

func UniqueT0(l []*int64) []*int64 {
	return deriveUniqueT0(l)
}

func UnionlT0(a []*int64, b []*int64) []*int64 {
	return deriveUnionLT0(a, b)
}

func IntersectlT0(a []*int64, b []*int64) []*int64 {
	return deriveIntersectLT0(a, b)
}

func FilterT0(pred func(*int64) bool, l []*int64) []*int64 {
	return deriveFilterT0(pred, l)
}

func TakewhileT0(pred func(*int64) bool, l []*int64) []*int64 {
	return deriveTakeWhileT0(pred, l)
}

func AllT0(pred func(*int64) bool, l []*int64) bool {
	return deriveAllT0(pred, l)
}

func AnyT0(pred func(*int64) bool, l []*int64) bool {
	return deriveAnyT0(pred, l)
}

func EqualT1(a *[2]S1, b *[2]S1) bool {
	return deriveEqualT1(a, b)
}

func ContainsT1(l []*[2]S1, x *[2]S1) bool {
	return deriveContainsT1(l, x)
}

func UniqueT1(l []*[2]S1) []*[2]S1 {
	return deriveUniqueT1(l)
}

func UnionlT1(a []*[2]S1, b []*[2]S1) []*[2]S1 {
	return deriveUnionLT1(a, b)
}

func IntersectlT1(a []*[2]S1, b []*[2]S1) []*[2]S1 {
	return deriveIntersectLT1(a, b)
}

func FilterT1(pred func(*[2]S1) bool, l []*[2]S1) []*[2]S1 {
	return deriveFilterT1(pred, l)
}

func TakewhileT1(pred func(*[2]S1) bool, l []*[2]S1) []*[2]S1 {
	return deriveTakeWhileT1(pred, l)
}

func AllT1(pred func(*[2]S1) bool, l []*[2]S1) bool {
	return deriveAllT1(pred, l)
}

func AnyT1(pred func(*[2]S1) bool, l []*[2]S1) bool {
	return deriveAnyT1(pred, l)
}

func EqualT2(a *S1, b *S1) bool {
	return deriveEqualT2(a, b)
}

func ContainsT2(l []*S1, x *S1) bool {
	return deriveContainsT2(l, x)
}

func UniqueT2(l []*S1) []*S1 {
	return deriveUniqueT2(l)
}

func UnionlT2(a []*S1, b []*S1) []*S1 {
	return deriveUnionLT2(a, b)
}

func IntersectlT2(a []*S1, b []*S1) []*S1 {
	return deriveIntersectLT2(a, b)
}

func FilterT2(pred func(*S1) bool, l []*S1) []*S1 {
	return deriveFilterT2(pred, l)
}

func TakewhileT2(pred func(*S1) bool, l []*S1) []*S1 {
	return deriveTakeWhileT2(pred, l)
}

func AllT2(pred func(*S1) bool, l []*S1) bool {
	return deriveAllT2(pred, l)
}

func AnyT2(pred func(*S1) bool, l []*S1) bool {
	return deriveAnyT2(pred, l)
}

func EqualT3(a *S2, b *S2) bool {
	return deriveEqualT3(a, b)
}

func ContainsT3(l []*S2, x *S2) bool {
	return deriveContainsT3(l, x)
}

func UniqueT3(l []*S2) []*S2 {
	return deriveUniqueT3(l)
}

func UnionlT3(a []*S2, b []*S2) []*S2 {
	return deriveUnionLT3(a, b)
}

func IntersectlT3(a []*S2, b []*S2) []*S2 {
	return deriveIntersectLT3(a, b)
}

func FilterT3(pred func(*S2) bool, l []*S2) []*S2 {
	return deriveFilterT3(pred, l)
}

func TakewhileT3(pred func(*S2) bool, l []*S2) []*S2 {
	return deriveTakeWhileT3(pred, l)
}

func AllT3(pred func(*S2) bool, l []*S2) bool {
	return deriveAllT3(pred, l)
}

func AnyT3(pred func(*S2) bool, l []*S2) bool {
	return deriveAnyT3(pred, l)
}

func EqualT4(a *S3, b *S3) bool {
	return deriveEqualT4(a, b)
}

func ContainsT4(l []*S3, x *S3) bool {
	return deriveContainsT4(l, x)
}

func UniqueT4(l []*S3) []*S3 {
	return deriveUniqueT4(l)
}

func UnionlT4(a []*S3, b []*S3) []*S3 {
	return deriveUnionLT4(a, b)
}

func IntersectlT4(a []*S3, b []*S3) []*S3 {
	return deriveIntersectLT4(a, b)
}

func FilterT4(pred func(*S3) bool, l []*S3) []*S3 {
	return deriveFilterT4(pred, l)
}

func TakewhileT4(pred func(*S3) bool, l []*S3) []*S3 {
	return deriveTakeWhileT4(pred, l)
}

func AllT4(pred func(*S3) bool, l []*S3) bool {
	return deriveAllT4(pred, l)
}

func AnyT4(pred func(*S3) bool, l []*S3) bool {
	return deriveAnyT4(pred, l)
}

func EqualT5(a float32, b float32) bool {
	return deriveEqualT5(a, b)
}

func ContainsT5(l []float32, x float32) bool {
	return deriveContainsT5(l, x)
}

func UniqueT5(l []float32) []float32 {
	return deriveUniqueT5(l)
}

func SetT5(l []float32) map[float32]struct{} {
	return deriveSetT5(l)
}

func UnionlT5(a []float32, b []float32) []float32 {
	return deriveUnionLT5(a, b)
}

func IntersectlT5(a []float32, b []float32) []float32 {
	return deriveIntersectLT5(a, b)
}

func UnionmT5(a map[float32]struct{}, b map[float32]struct{}) map[float32]struct{} {
	return deriveUnionMT5(a, b)
}

func IntersectmT5(a map[float32]struct{}, b map[float32]struct{}) map[float32]struct{} {
	return deriveIntersectMT5(a, b)
}

func FilterT5(pred func(float32) bool, l []float32) []float32 {
	return deriveFilterT5(pred, l)
}

func TakewhileT5(pred func(float32) bool, l []float32) []float32 {
	return deriveTakeWhileT5(pred, l)
}

func AllT5(pred func(float32) bool, l []float32) bool {
	return deriveAllT5(pred, l)
}

func AnyT5(pred func(float32) bool, l []float32) bool {
	return deriveAnyT5(pred, l)
}

func EqualT6(a S2, b S2) bool {
	return deriveEqualT6(a, b)
}

func ContainsT6(l []S2, x S2) bool {
	return deriveContainsT6(l, x)
}

func UniqueT6(l []S2) []S2 {
	return deriveUniqueT6(l)
}

func UnionlT6(a []S2, b []S2) []S2 {
	return deriveUnionLT6(a, b)
}

func IntersectlT6(a []S2, b []S2) []S2 {
	return deriveIntersectLT6(a, b)
}

func FilterT6(pred func(S2) bool, l []S2) []S2 {
	return deriveFilterT6(pred, l)
}

func TakewhileT6(pred func(S2) bool, l []S2) []S2 {
	return deriveTakeWhileT6(pred, l)
}

func AllT6(pred func(S2) bool, l []S2) bool {
	return deriveAllT6(pred, l)
}

func AnyT6(pred func(S2) bool, l []S2) bool {
	return deriveAnyT6(pred, l)
}

func EqualT7(a N0, b N0) bool {
	return deriveEqualT7(a, b)
}

func ContainsT7(l []N0, x N0) bool {
	return deriveContainsT7(l, x)
}

func UniqueT7(l []N0) []N0 {
	return deriveUniqueT7(l)
}

func UnionlT7(a []N0, b []N0) []N0 {
	return deriveUnionLT7(a, b)
}

func IntersectlT7(a []N0, b []N0) []N0 {
	return deriveIntersectLT7(a, b)
}

func FilterT7(pred func(N0) bool, l []N0) []N0 {
	return deriveFilterT7(pred, l)
}

func TakewhileT7(pred func(N0) bool, l []N0) []N0 {
	return deriveTakeWhileT7(pred, l)
}

func AllT7(pred func(N0) bool, l []N0) bool {
	return deriveAllT7(pred, l)
}

func AnyT7(pred func(N0) bool, l []N0) bool {
	return deriveAnyT7(pred, l)
}

func EqualT8(a *K0, b *K0) bool {
	return deriveEqualT8(a, b)
}

func ContainsT8(l []*K0, x *K0) bool {
	return deriveContainsT8(l, x)
}

func UniqueT8(l []*K0) []*K0 {
	return deriveUniqueT8(l)
}

func UnionlT8(a []*K0, b []*K0) []*K0 {
	return deriveUnionLT8(a, b)
}

func IntersectlT8(a []*K0, b []*K0) []*K0 {
	return deriveIntersectLT8(a, b)
}

func FilterT8(pred func(*K0) bool, l []*K0) []*K0 {
	return deriveFilterT8(pred, l)
}

func TakewhileT8(pred func(*K0) bool, l []*K0) []*K0 {
	return deriveTakeWhileT8(pred, l)
}

func AllT8(pred func(*K0) bool, l []*K0) bool {
	return deriveAllT8(pred, l)
}

func AnyT8(pred func(*K0) bool, l []*K0) bool {
	return deriveAnyT8(pred, l)
}

func EqualT9(a other.Key, b other.Key) bool {
	return deriveEqualT9(a, b)
}

func ContainsT9(l []other.Key, x other.Key) bool {
	return deriveContainsT9(l, x)
}

func UniqueT9(l []other.Key) []other.Key {
	return deriveUniqueT9(l)
}

func SetT9(l []other.Key) map[other.Key]struct{} {
	return deriveSetT9(l)
}

func UnionlT9(a []other.Key, b []other.Key) []other.Key {
	return deriveUnionLT9(a, b)
}

func IntersectlT9(a []other.Key, b []other.Key) []other.Key {
	return deriveIntersectLT9(a, b)
}

func UnionmT9(a map[other.Key]struct{}, b map[other.Key]struct{}) map[other.Key]struct{} {
	return deriveUnionMT9(a, b)
}

func IntersectmT9(a map[other.Key]struct{}, b map[other.Key]struct{}) map[other.Key]struct{} {
	return deriveIntersectMT9(a, b)
}

func FilterT9(pred func(other.Key) bool, l []other.Key) []other.Key {
	return deriveFilterT9(pred, l)
}

func TakewhileT9(pred func(other.Key) bool, l []other.Key) []other.Key {
	return deriveTakeWhileT9(pred, l)
}

func AllT9(pred func(other.Key) bool, l []other.Key) bool {
	return deriveAllT9(pred, l)
}

func AnyT9(pred func(other.Key) bool, l []other.Key) bool {
	return deriveAnyT9(pred, l)
}

func EqualT10(a other.E0, b other.E0) bool {
	return deriveEqualT10(a, b)
}

func ContainsT10(l []other.E0, x other.E0) bool {
	return deriveContainsT10(l, x)
}

func UniqueT10(l []other.E0) []other.E0 {
	return deriveUniqueT10(l)
}

func UnionlT10(a []other.E0, b []other.E0) []other.E0 {
	return deriveUnionLT10(a, b)
}

func IntersectlT10(a []other.E0, b []other.E0) []other.E0 {
	return deriveIntersectLT10(a, b)
}

func FilterT10(pred func(other.E0) bool, l []other.E0) []other.E0 {
	return deriveFilterT10(pred, l)
}

func TakewhileT10(pred func(other.E0) bool, l []other.E0) []other.E0 {
	return deriveTakeWhileT10(pred, l)
}

func AllT10(pred func(other.E0) bool, l []other.E0) bool {
	return deriveAllT10(pred, l)
}

func AnyT10(pred func(other.E0) bool, l []other.E0) bool {
	return deriveAnyT10(pred, l)
}

func EqualT11(a MyC, b MyC) bool {
	return deriveEqualT11(a, b)
}

func ContainsT11(l []MyC, x MyC) bool {
	return deriveContainsT11(l, x)
}

func UniqueT11(l []MyC) []MyC {
	return deriveUniqueT11(l)
}

func SetT11(l []MyC) map[MyC]struct{} {
	return deriveSetT11(l)
}

func UnionlT11(a []MyC, b []MyC) []MyC {
	return deriveUnionLT11(a, b)
}

func IntersectlT11(a []MyC, b []MyC) []MyC {
	return deriveIntersectLT11(a, b)
}

func UnionmT11(a map[MyC]struct{}, b map[MyC]struct{}) map[MyC]struct{} {
	return deriveUnionMT11(a, b)
}

func IntersectmT11(a map[MyC]struct{}, b map[MyC]struct{}) map[MyC]struct{} {
	return deriveIntersectMT11(a, b)
}

func FilterT11(pred func(MyC) bool, l []MyC) []MyC {
	return deriveFilterT11(pred, l)
}

func TakewhileT11(pred func(MyC) bool, l []MyC) []MyC {
	return deriveTakeWhileT11(pred, l)
}

func AllT11(pred func(MyC) bool, l []MyC) bool {
	return deriveAllT11(pred, l)
}

func AnyT11(pred func(MyC) bool, l []MyC) bool {
	return deriveAnyT11(pred, l)
}

func EqualT12(a map[other.Key]int8, b map[other.Key]int8) bool {
	return deriveEqualT12(a, b)
}

func ContainsT12(l []map[other.Key]int8, x map[other.Key]int8) bool {
	return deriveContainsT12(l, x)
}

func UniqueT12(l []map[other.Key]int8) []map[other.Key]int8 {
	return deriveUniqueT12(l)
}

func UnionlT12(a []map[other.Key]int8, b []map[other.Key]int8) []map[other.Key]int8 {
	return deriveUnionLT12(a, b)
}

func IntersectlT12(a []map[other.Key]int8, b []map[other.Key]int8) []map[other.Key]int8 {
	return deriveIntersectLT12(a, b)
}

func FilterT12(pred func(map[other.Key]int8) bool, l []map[other.Key]int8) []map[other.Key]int8 {
	return deriveFilterT12(pred, l)
}

func TakewhileT12(pred func(map[other.Key]int8) bool, l []map[other.Key]int8) []map[other.Key]int8 {
	return deriveTakeWhileT12(pred, l)
}

func AllT12(pred func(map[other.Key]int8) bool, l []map[other.Key]int8) bool {
	return deriveAllT12(pred, l)
}

func AnyT12(pred func(map[other.Key]int8) bool, l []map[other.Key]int8) bool {
	return deriveAnyT12(pred, l)
}

func EqualT13(a ext.E0, b ext.E0) bool {
	return deriveEqualT13(a, b)
}

func ContainsT13(l []ext.E0, x ext.E0) bool {
	return deriveContainsT13(l, x)
}

func UniqueT13(l []ext.E0) []ext.E0 {
	return deriveUniqueT13(l)
}

func UnionlT13(a []ext.E0, b []ext.E0) []ext.E0 {
	return deriveUnionLT13(a, b)
}

func IntersectlT13(a []ext.E0, b []ext.E0) []ext.E0 {
	return deriveIntersectLT13(a, b)
}

func FilterT13(pred func(ext.E0) bool, l []ext.E0) []ext.E0 {
	return deriveFilterT13(pred, l)
}

func TakewhileT13(pred func(ext.E0) bool, l []ext.E0) []ext.E0 {
	return deriveTakeWhileT13(pred, l)
}

func AllT13(pred func(ext.E0) bool, l []ext.E0) bool {
	return deriveAllT13(pred, l)
}

func AnyT13(pred func(ext.E0) bool, l []ext.E0) bool {
	return deriveAnyT13(pred, l)
}
