package p

import (
	ext2 "subj/x/ext"
)

var Anchor = 0

func EqualT0(a *K0, b *K0) bool {
	return deriveEqualT0(a, b)
}

func ContainsT0(l []*K0, x *K0) bool {
	return deriveContainsT0(l, x)
}

func UniqueT0(l []*K0) []*K0 {
	return deriveUniqueT0(l)
}

func UnionlT0(a []*K0, b []*K0) []*K0 {
	return deriveUnionLT0(a, b)
}

func IntersectlT0(a []*K0, b []*K0) []*K0 {
	return deriveIntersectLT0(a, b)
}

func FilterT0(pred func(*K0) bool, l []*K0) []*K0 {
	return deriveFilterT0(pred, l)
}

func TakewhileT0(pred func(*K0) bool, l []*K0) []*K0 {
	return deriveTakeWhileT0(pred, l)
}

func AllT0(pred func(*K0) bool, l []*K0) bool {
	return deriveAllT0(pred, l)
}

func AnyT0(pred func(*K0) bool, l []*K0) bool {
	return deriveAnyT0(pred, l)
}

func EqualT1(a K1, b K1) bool {
	return deriveEqualT1(a, b)
}

func ContainsT1(l []K1, x K1) bool {
	return deriveContainsT1(l, x)
}

func UniqueT1(l []K1) []K1 {
	return deriveUniqueT1(l)
}

func SetT1(l []K1) map[K1]struct{} {
	return deriveSetT1(l)
}

func UnionlT1(a []K1, b []K1) []K1 {
	return deriveUnionLT1(a, b)
}

func IntersectlT1(a []K1, b []K1) []K1 {
	return deriveIntersectLT1(a, b)
}

func UnionmT1(a map[K1]struct{}, b map[K1]struct{}) map[K1]struct{} {
	return deriveUnionMT1(a, b)
}

func IntersectmT1(a map[K1]struct{}, b map[K1]struct{}) map[K1]struct{} {
	return deriveIntersectMT1(a, b)
}

func FilterT1(pred func(K1) bool, l []K1) []K1 {
	return deriveFilterT1(pred, l)
}

func TakewhileT1(pred func(K1) bool, l []K1) []K1 {
	return deriveTakeWhileT1(pred, l)
}

func AllT1(pred func(K1) bool, l []K1) bool {
	return deriveAllT1(pred, l)
}

func AnyT1(pred func(K1) bool, l []K1) bool {
	return deriveAnyT1(pred, l)
}

func EqualT2(a bool, b bool) bool {
	return deriveEqualT2(a, b)
}

func ContainsT2(l []bool, x bool) bool {
	return deriveContainsT2(l, x)
}

func UniqueT2(l []bool) []bool {
	return deriveUniqueT2(l)
}

func SetT2(l []bool) map[bool]struct{} {
	return deriveSetT2(l)
}

func UnionlT2(a []bool, b []bool) []bool {
	return deriveUnionLT2(a, b)
}

func IntersectlT2(a []bool, b []bool) []bool {
	return deriveIntersectLT2(a, b)
}

func UnionmT2(a map[bool]struct{}, b map[bool]struct{}) map[bool]struct{} {
	return deriveUnionMT2(a, b)
}

func IntersectmT2(a map[bool]struct{}, b map[bool]struct{}) map[bool]struct{} {
	return deriveIntersectMT2(a, b)
}

func FilterT2(pred func(bool) bool, l []bool) []bool {
	return deriveFilterT2(pred, l)
}

func TakewhileT2(pred func(bool) bool, l []bool) []bool {
	return deriveTakeWhileT2(pred, l)
}

func AllT2(pred func(bool) bool, l []bool) bool {
	return deriveAllT2(pred, l)
}

func AnyT2(pred func(bool) bool, l []bool) bool {
	return deriveAnyT2(pred, l)
}

func EqualT3(a *S0, b *S0) bool {
	return deriveEqualT3(a, b)
}

func ContainsT3(l []*S0, x *S0) bool {
	return deriveContainsT3(l, x)
}

func UniqueT3(l []*S0) []*S0 {
	return deriveUniqueT3(l)
}

func UnionlT3(a []*S0, b []*S0) []*S0 {
	return deriveUnionLT3(a, b)
}

func IntersectlT3(a []*S0, b []*S0) []*S0 {
	return deriveIntersectLT3(a, b)
}

func FilterT3(pred func(*S0) bool, l []*S0) []*S0 {
	return deriveFilterT3(pred, l)
}

func TakewhileT3(pred func(*S0) bool, l []*S0) []*S0 {
	return deriveTakeWhileT3(pred, l)
}

func AllT3(pred func(*S0) bool, l []*S0) bool {
	return deriveAllT3(pred, l)
}

func AnyT3(pred func(*S0) bool, l []*S0) bool {
	return deriveAnyT3(pred, l)
}

func EqualT4(a int, b int) bool {
	return deriveEqualT4(a, b)
}

func ContainsT4(l []int, x int) bool {
	return deriveContainsT4(l, x)
}

func UniqueT4(l []int) []int {
	return deriveUniqueT4(l)
}

func SetT4(l []int) map[int]struct{} {
	return deriveSetT4(l)
}

func UnionlT4(a []int, b []int) []int {
	return deriveUnionLT4(a, b)
}

func IntersectlT4(a []int, b []int) []int {
	return deriveIntersectLT4(a, b)
}

func UnionmT4(a map[int]struct{}, b map[int]struct{}) map[int]struct{} {
	return deriveUnionMT4(a, b)
}

func IntersectmT4(a map[int]struct{}, b map[int]struct{}) map[int]struct{} {
	return deriveIntersectMT4(a, b)
}

func FilterT4(pred func(int) bool, l []int) []int {
	return deriveFilterT4(pred, l)
}

func TakewhileT4(pred func(int) bool, l []int) []int {
	return deriveTakeWhileT4(pred, l)
}

func AllT4(pred func(int) bool, l []int) bool {
	return deriveAllT4(pred, l)
}

func AnyT4(pred func(int) bool, l []int) bool {
	return deriveAnyT4(pred, l)
}

func EqualT5(a N0, b N0) bool {
	return deriveEqualT5(a, b)
}

func ContainsT5(l []N0, x N0) bool {
	return deriveContainsT5(l, x)
}

func UniqueT5(l []N0) []N0 {
	return deriveUniqueT5(l)
}

func UnionlT5(a []N0, b []N0) []N0 {
	return deriveUnionLT5(a, b)
}

func IntersectlT5(a []N0, b []N0) []N0 {
	return deriveIntersectLT5(a, b)
}

func FilterT5(pred func(N0) bool, l []N0) []N0 {
	return deriveFilterT5(pred, l)
}

func TakewhileT5(pred func(N0) bool, l []N0) []N0 {
	return deriveTakeWhileT5(pred, l)
}

func AllT5(pred func(N0) bool, l []N0) bool {
	return deriveAllT5(pred, l)
}

func AnyT5(pred func(N0) bool, l []N0) bool {
	return deriveAnyT5(pred, l)
}

func EqualT6(a ext2.Num, b ext2.Num) bool {
	return deriveEqualT6(a, b)
}

func ContainsT6(l []ext2.Num, x ext2.Num) bool {
	return deriveContainsT6(l, x)
}

func UniqueT6(l []ext2.Num) []ext2.Num {
	return deriveUniqueT6(l)
}

func SetT6(l []ext2.Num) map[ext2.Num]struct{} {
	return deriveSetT6(l)
}

func UnionlT6(a []ext2.Num, b []ext2.Num) []ext2.Num {
	return deriveUnionLT6(a, b)
}

func IntersectlT6(a []ext2.Num, b []ext2.Num) []ext2.Num {
	return deriveIntersectLT6(a, b)
}

func UnionmT6(a map[ext2.Num]struct{}, b map[ext2.Num]struct{}) map[ext2.Num]struct{} {
	return deriveUnionMT6(a, b)
}

func IntersectmT6(a map[ext2.Num]struct{}, b map[ext2.Num]struct{}) map[ext2.Num]struct{} {
	return deriveIntersectMT6(a, b)
}

func FilterT6(pred func(ext2.Num) bool, l []ext2.Num) []ext2.Num {
	return deriveFilterT6(pred, l)
}

func TakewhileT6(pred func(ext2.Num) bool, l []ext2.Num) []ext2.Num {
	return deriveTakeWhileT6(pred, l)
}

func AllT6(pred func(ext2.Num) bool, l []ext2.Num) bool {
	return deriveAllT6(pred, l)
}

func AnyT6(pred func(ext2.Num) bool, l []ext2.Num) bool {
	return deriveAnyT6(pred, l)
}

func EqualT7(a *N0, b *N0) bool {
	return deriveEqualT7(a, b)
}

func ContainsT7(l []*N0, x *N0) bool {
	return deriveContainsT7(l, x)
}

func UniqueT7(l []*N0) []*N0 {
	return deriveUniqueT7(l)
}

func UnionlT7(a []*N0, b []*N0) []*N0 {
	return deriveUnionLT7(a, b)
}

func IntersectlT7(a []*N0, b []*N0) []*N0 {
	return deriveIntersectLT7(a, b)
}

func FilterT7(pred func(*N0) bool, l []*N0) []*N0 {
	return deriveFilterT7(pred, l)
}

func TakewhileT7(pred func(*N0) bool, l []*N0) []*N0 {
	return deriveTakeWhileT7(pred, l)
}

func AllT7(pred func(*N0) bool, l []*N0) bool {
	return deriveAllT7(pred, l)
}

func AnyT7(pred func(*N0) bool, l []*N0) bool {
	return deriveAnyT7(pred, l)
}

func EqualT8(a int16, b int16) bool {
	return deriveEqualT8(a, b)
}

func ContainsT8(l []int16, x int16) bool {
	return deriveContainsT8(l, x)
}

func UniqueT8(l []int16) []int16 {
	return deriveUniqueT8(l)
}

func SetT8(l []int16) map[int16]struct{} {
	return deriveSetT8(l)
}

func UnionlT8(a []int16, b []int16) []int16 {
	return deriveUnionLT8(a, b)
}

func IntersectlT8(a []int16, b []int16) []int16 {
	return deriveIntersectLT8(a, b)
}

func UnionmT8(a map[int16]struct{}, b map[int16]struct{}) map[int16]struct{} {
	return deriveUnionMT8(a, b)
}

func IntersectmT8(a map[int16]struct{}, b map[int16]struct{}) map[int16]struct{} {
	return deriveIntersectMT8(a, b)
}

func FilterT8(pred func(int16) bool, l []int16) []int16 {
	return deriveFilterT8(pred, l)
}

func TakewhileT8(pred func(int16) bool, l []int16) []int16 {
	return deriveTakeWhileT8(pred, l)
}

func AllT8(pred func(int16) bool, l []int16) bool {
	return deriveAllT8(pred, l)
}

func AnyT8(pred func(int16) bool, l []int16) bool {
	return deriveAnyT8(pred, l)
}

func EqualT9(a int8, b int8) bool {
	return deriveEqualT9(a, b)
}

func ContainsT9(l []int8, x int8) bool {
	return deriveContainsT9(l, x)
}

func UniqueT9(l []int8) []int8 {
	return deriveUniqueT9(l)
}

func SetT9(l []int8) map[int8]struct{} {
	return deriveSetT9(l)
}

func UnionlT9(a []int8, b []int8) []int8 {
	return deriveUnionLT9(a, b)
}

func IntersectlT9(a []int8, b []int8) []int8 {
	return deriveIntersectLT9(a, b)
}

func UnionmT9(a map[int8]struct{}, b map[int8]struct{}) map[int8]struct{} {
	return deriveUnionMT9(a, b)
}

func IntersectmT9(a map[int8]struct{}, b map[int8]struct{}) map[int8]struct{} {
	return deriveIntersectMT9(a, b)
}

func FilterT9(pred func(int8) bool, l []int8) []int8 {
	return deriveFilterT9(pred, l)
}

func TakewhileT9(pred func(int8) bool, l []int8) []int8 {
	return deriveTakeWhileT9(pred, l)
}

func AllT9(pred func(int8) bool, l []int8) bool {
	return deriveAllT9(pred, l)
}

func AnyT9(pred func(int8) bool, l []int8) bool {
	return deriveAnyT9(pred, l)
}

func EqualT10(a [3]N0, b [3]N0) bool {
	return deriveEqualT10(a, b)
}

func ContainsT10(l [][3]N0, x [3]N0) bool {
	return deriveContainsT10(l, x)
}

func UniqueT10(l [][3]N0) [][3]N0 {
	return deriveUniqueT10(l)
}

func UnionlT10(a [][3]N0, b [][3]N0) [][3]N0 {
	return deriveUnionLT10(a, b)
}

func IntersectlT10(a [][3]N0, b [][3]N0) [][3]N0 {
	return deriveIntersectLT10(a, b)
}

func FilterT10(pred func([3]N0) bool, l [][3]N0) [][3]N0 {
	return deriveFilterT10(pred, l)
}

func TakewhileT10(pred func([3]N0) bool, l [][3]N0) [][3]N0 {
	return deriveTakeWhileT10(pred, l)
}

func AllT10(pred func([3]N0) bool, l [][3]N0) bool {
	return deriveAllT10(pred, l)
}

func AnyT10(pred func([3]N0) bool, l [][3]N0) bool {
	return deriveAnyT10(pred, l)
}

func EqualT11(a [0]int32, b [0]int32) bool {
	return deriveEqualT11(a, b)
}

func ContainsT11(l [][0]int32, x [0]int32) bool {
	return deriveContainsT11(l, x)
}

func UniqueT11(l [][0]int32) [][0]int32 {
	return deriveUniqueT11(l)
}

func SetT11(l [][0]int32) map[[0]int32]struct{} {
	return deriveSetT11(l)
}

func UnionlT11(a [][0]int32, b [][0]int32) [][0]int32 {
	return deriveUnionLT11(a, b)
}

func IntersectlT11(a [][0]int32, b [][0]int32) [][0]int32 {
	return deriveIntersectLT11(a, b)
}

func UnionmT11(a map[[0]int32]struct{}, b map[[0]int32]struct{}) map[[0]int32]struct{} {
	return deriveUnionMT11(a, b)
}

func IntersectmT11(a map[[0]int32]struct{}, b map[[0]int32]struct{}) map[[0]int32]struct{} {
	return deriveIntersectMT11(a, b)
}

func FilterT11(pred func([0]int32) bool, l [][0]int32) [][0]int32 {
	return deriveFilterT11(pred, l)
}

func TakewhileT11(pred func([0]int32) bool, l [][0]int32) [][0]int32 {
	return deriveTakeWhileT11(pred, l)
}

func AllT11(pred func([0]int32) bool, l [][0]int32) bool {
	return deriveAllT11(pred, l)
}

func AnyT11(pred func([0]int32) bool, l [][0]int32) bool {
	return deriveAnyT11(pred, l)
}

func EqualT12(a []map[complex128]uint, b []map[complex128]uint) bool {
	return deriveEqualT12(a, b)
}

func ContainsT12(l [][]map[complex128]uint, x []map[complex128]uint) bool {
	return deriveContainsT12(l, x)
}

func UniqueT12(l [][]map[complex128]uint) [][]map[complex128]uint {
	return deriveUniqueT12(l)
}

func UnionlT12(a [][]map[complex128]uint, b [][]map[complex128]uint) [][]map[complex128]uint {
	return deriveUnionLT12(a, b)
}

func IntersectlT12(a [][]map[complex128]uint, b [][]map[complex128]uint) [][]map[complex128]uint {
	return deriveIntersectLT12(a, b)
}

func FilterT12(pred func([]map[complex128]uint) bool, l [][]map[complex128]uint) [][]map[complex128]uint {
	return deriveFilterT12(pred, l)
}

func TakewhileT12(pred func([]map[complex128]uint) bool, l [][]map[complex128]uint) [][]map[complex128]uint {
	return deriveTakeWhileT12(pred, l)
}

func AllT12(pred func([]map[complex128]uint) bool, l [][]map[complex128]uint) bool {
	return deriveAllT12(pred, l)
}

func AnyT12(pred func([]map[complex128]uint) bool, l [][]map[complex128]uint) bool {
	return deriveAnyT12(pred, l)
}

func EqualT13(a map[int]K0, b map[int]K0) bool {
	return deriveEqualT13(a, b)
}

func ContainsT13(l []map[int]K0, x map[int]K0) bool {
	return deriveContainsT13(l, x)
}

func UniqueT13(l []map[int]K0) []map[int]K0 {
	return deriveUniqueT13(l)
}

func UnionlT13(a []map[int]K0, b []map[int]K0) []map[int]K0 {
	return deriveUnionLT13(a, b)
}

func IntersectlT13(a []map[int]K0, b []map[int]K0) []map[int]K0 {
	return deriveIntersectLT13(a, b)
}

func FilterT13(pred func(map[int]K0) bool, l []map[int]K0) []map[int]K0 {
	return deriveFilterT13(pred, l)
}

func TakewhileT13(pred func(map[int]K0) bool, l []map[int]K0) []map[int]K0 {
	return deriveTakeWhileT13(pred, l)
}

func AllT13(pred func(map[int]K0) bool, l []map[int]K0) bool {
	return deriveAllT13(pred, l)
}

func AnyT13(pred func(map[int]K0) bool, l []map[int]K0) bool {
	return deriveAnyT13(pred, l)
}
