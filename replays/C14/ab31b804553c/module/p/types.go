package p

import (
	ext2 "subj/x/ext"
)

type MyC complex128

type MyRune rune

type MyStr string

type N0 [][]ext2.Num

type K0 struct {
	f0 [0]rune
	f1 MyC
}

type K1 struct {
	F0 int32
}

type S0 struct {
	F0 uintptr
	F1 bool
	F2 int
	f3 uint8
}
