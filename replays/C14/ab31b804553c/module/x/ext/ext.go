package ext

type Num float64

type Key struct {
	k0 uint
	K1 bool
}

type E0 struct {
}

type E1 struct {
	f0 []byte
	f1 int
	F2 []byte
	f3 E0
}
