package ext

type Num uint8

type Key struct {
	k0 int8
	k1 int64
	k2 int
}

type E0 struct {
}
