package ext

type Num int

type Key struct {
	K0 int
}

type E0 struct {
}
