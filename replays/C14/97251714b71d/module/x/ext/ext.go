package ext

import (
	ext "subj/ext1"
)

type Num int64

type Key struct {
	K0 Num
}

type E0 struct {
	F0 uint64
	f1 ext.Key
	f2 *E0
	F3 Key
}
