package p

import (
	ext "subj/ext1"
	ext2 "subj/x/ext"
)

type MyStr string

type MyU8 uint8

type N0 *MyStr

type K0 struct {
}

type S0 struct {
}

type S1 struct {
	F0 N0
	f1 N0
	F2 map[ext.Num]uint64
	F3 N0
	F4 map[int64][]ext.Num
	F5 ext2.E0
}

type S2 struct {
	F0 int64
	F1 bool
	F2 N0
	f3 map[int64]rune
	*K0
	F5 complex64
}
