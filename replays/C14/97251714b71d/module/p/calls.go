package p

import (
	ext "subj/ext1"
	ext2 "subj/x/ext"
)

var Anchor = 0

func EqualT0(a K0, b K0) bool {
	return deriveEqualT0(a, b)
}

func ContainsT0(l []K0, x K0) bool {
	return deriveContainsT0(l, x)
}

func UniqueT0(l []K0) []K0 {
	return deriveUniqueT0(l)
}

func SetT0(l []K0) map[K0]struct{} {
	return deriveSetT0(l)
}

func UnionlT0(a []K0, b []K0) []K0 {
	return deriveUnionLT0(a, b)
}

func IntersectlT0(a []K0, b []K0) []K0 {
	return deriveIntersectLT0(a, b)
}

func UnionmT0(a map[K0]struct{}, b map[K0]struct{}) map[K0]struct{} {
	return deriveUnionMT0(a, b)
}

func IntersectmT0(a map[K0]struct{}, b map[K0]struct{}) map[K0]struct{} {
	return deriveIntersectMT0(a, b)
}

func FilterT0(pred func(K0) bool, l []K0) []K0 {
	return deriveFilterT0(pred, l)
}

func TakewhileT0(pred func(K0) bool, l []K0) []K0 {
	return deriveTakeWhileT0(pred, l)
}

func AllT0(pred func(K0) bool, l []K0) bool {
	return deriveAllT0(pred, l)
}

func AnyT0(pred func(K0) bool, l []K0) bool {
	return deriveAnyT0(pred, l)
}

func EqualT1(a *N0, b *N0) bool {
	return deriveEqualT1(a, b)
}

func ContainsT1(l []*N0, x *N0) bool {
	return deriveContainsT1(l, x)
}

func UniqueT1(l []*N0) []*N0 {
	return deriveUniqueT1(l)
}

func UnionlT1(a []*N0, b []*N0) []*N0 {
	return deriveUnionLT1(a, b)
}

func IntersectlT1(a []*N0, b []*N0) []*N0 {
	return deriveIntersectLT1(a, b)
}

func FilterT1(pred func(*N0) bool, l []*N0) []*N0 {
	return deriveFilterT1(pred, l)
}

func TakewhileT1(pred func(*N0) bool, l []*N0) []*N0 {
	return deriveTakeWhileT1(pred, l)
}

func AllT1(pred func(*N0) bool, l []*N0) bool {
	return deriveAllT1(pred, l)
}

func AnyT1(pred func(*N0) bool, l []*N0) bool {
	return deriveAnyT1(pred, l)
}

func EqualT2(a S1, b S1) bool {
	return deriveEqualT2(a, b)
}

func ContainsT2(l []S1, x S1) bool {
	return deriveContainsT2(l, x)
}

func UniqueT2(l []S1) []S1 {
	return deriveUniqueT2(l)
}

func UnionlT2(a []S1, b []S1) []S1 {
	return deriveUnionLT2(a, b)
}

func IntersectlT2(a []S1, b []S1) []S1 {
	return deriveIntersectLT2(a, b)
}

func FilterT2(pred func(S1) bool, l []S1) []S1 {
	return deriveFilterT2(pred, l)
}

func TakewhileT2(pred func(S1) bool, l []S1) []S1 {
	return deriveTakeWhileT2(pred, l)
}

func AllT2(pred func(S1) bool, l []S1) bool {
	return deriveAllT2(pred, l)
}

func AnyT2(pred func(S1) bool, l []S1) bool {
	return deriveAnyT2(pred, l)
}

func EqualT3(a *S2, b *S2) bool {
	return deriveEqualT3(a, b)
}

func ContainsT3(l []*S2, x *S2) bool {
	return deriveContainsT3(l, x)
}

func UniqueT3(l []*S2) []*S2 {
	return deriveUniqueT3(l)
}

func UnionlT3(a []*S2, b []*S2) []*S2 {
	return deriveUnionLT3(a, b)
}

func IntersectlT3(a []*S2, b []*S2) []*S2 {
	return deriveIntersectLT3(a, b)
}

func FilterT3(pred func(*S2) bool, l []*S2) []*S2 {
	return deriveFilterT3(pred, l)
}

func TakewhileT3(pred func(*S2) bool, l []*S2) []*S2 {
	return deriveTakeWhileT3(pred, l)
}

func AllT3(pred func(*S2) bool, l []*S2) bool {
	return deriveAllT3(pred, l)
}

func AnyT3(pred func(*S2) bool, l []*S2) bool {
	return deriveAnyT3(pred, l)
}

func EqualT4(a map[uintptr]map[ext2.Key]string, b map[uintptr]map[ext2.Key]string) bool {
	return deriveEqualT4(a, b)
}

func ContainsT4(l []map[uintptr]map[ext2.Key]string, x map[uintptr]map[ext2.Key]string) bool {
	return deriveContainsT4(l, x)
}

func UniqueT4(l []map[uintptr]map[ext2.Key]string) []map[uintptr]map[ext2.Key]string {
	return deriveUniqueT4(l)
}

func UnionlT4(a []map[uintptr]map[ext2.Key]string, b []map[uintptr]map[ext2.Key]string) []map[uintptr]map[ext2.Key]string {
	return deriveUnionLT4(a, b)
}

func IntersectlT4(a []map[uintptr]map[ext2.Key]string, b []map[uintptr]map[ext2.Key]string) []map[uintptr]map[ext2.Key]string {
	return deriveIntersectLT4(a, b)
}

func FilterT4(pred func(map[uintptr]map[ext2.Key]string) bool, l []map[uintptr]map[ext2.Key]string) []map[uintptr]map[ext2.Key]string {
	return deriveFilterT4(pred, l)
}

func TakewhileT4(pred func(map[uintptr]map[ext2.Key]string) bool, l []map[uintptr]map[ext2.Key]string) []map[uintptr]map[ext2.Key]string {
	return deriveTakeWhileT4(pred, l)
}

func AllT4(pred func(map[uintptr]map[ext2.Key]string) bool, l []map[uintptr]map[ext2.Key]string) bool {
	return deriveAllT4(pred, l)
}

func AnyT4(pred func(map[uintptr]map[ext2.Key]string) bool, l []map[uintptr]map[ext2.Key]string) bool {
	return deriveAnyT4(pred, l)
}

func EqualT5(a uintptr, b uintptr) bool {
	return deriveEqualT5(a, b)
}

func ContainsT5(l []uintptr, x uintptr) bool {
	return deriveContainsT5(l, x)
}

func UniqueT5(l []uintptr) []uintptr {
	return deriveUniqueT5(l)
}

func SetT5(l []uintptr) map[uintptr]struct{} {
	return deriveSetT5(l)
}

func UnionlT5(a []uintptr, b []uintptr) []uintptr {
	return deriveUnionLT5(a, b)
}

func IntersectlT5(a []uintptr, b []uintptr) []uintptr {
	return deriveIntersectLT5(a, b)
}

func UnionmT5(a map[uintptr]struct{}, b map[uintptr]struct{}) map[uintptr]struct{} {
	return deriveUnionMT5(a, b)
}

func IntersectmT5(a map[uintptr]struct{}, b map[uintptr]struct{}) map[uintptr]struct{} {
	return deriveIntersectMT5(a, b)
}

func FilterT5(pred func(uintptr) bool, l []uintptr) []uintptr {
	return deriveFilterT5(pred, l)
}

func TakewhileT5(pred func(uintptr) bool, l []uintptr) []uintptr {
	return deriveTakeWhileT5(pred, l)
}

func AllT5(pred func(uintptr) bool, l []uintptr) bool {
	return deriveAllT5(pred, l)
}

func AnyT5(pred func(uintptr) bool, l []uintptr) bool {
	return deriveAnyT5(pred, l)
}

func EqualT6(a *S0, b *S0) bool {
	return deriveEqualT6(a, b)
}

func ContainsT6(l []*S0, x *S0) bool {
	return deriveContainsT6(l, x)
}

func UniqueT6(l []*S0) []*S0 {
	return deriveUniqueT6(l)
}

func UnionlT6(a []*S0, b []*S0) []*S0 {
	return deriveUnionLT6(a, b)
}

func IntersectlT6(a []*S0, b []*S0) []*S0 {
	return deriveIntersectLT6(a, b)
}

func FilterT6(pred func(*S0) bool, l []*S0) []*S0 {
	return deriveFilterT6(pred, l)
}

func TakewhileT6(pred func(*S0) bool, l []*S0) []*S0 {
	return deriveTakeWhileT6(pred, l)
}

func AllT6(pred func(*S0) bool, l []*S0) bool {
	return deriveAllT6(pred, l)
}

func AnyT6(pred func(*S0) bool, l []*S0) bool {
	return deriveAnyT6(pred, l)
}

func EqualT7(a ext2.Num, b ext2.Num) bool {
	return deriveEqualT7(a, b)
}

func ContainsT7(l []ext2.Num, x ext2.Num) bool {
	return deriveContainsT7(l, x)
}

func UniqueT7(l []ext2.Num) []ext2.Num {
	return deriveUniqueT7(l)
}

func SetT7(l []ext2.Num) map[ext2.Num]struct{} {
	return deriveSetT7(l)
}

func UnionlT7(a []ext2.Num, b []ext2.Num) []ext2.Num {
	return deriveUnionLT7(a, b)
}

func IntersectlT7(a []ext2.Num, b []ext2.Num) []ext2.Num {
	return deriveIntersectLT7(a, b)
}

func UnionmT7(a map[ext2.Num]struct{}, b map[ext2.Num]struct{}) map[ext2.Num]struct{} {
	return deriveUnionMT7(a, b)
}

func IntersectmT7(a map[ext2.Num]struct{}, b map[ext2.Num]struct{}) map[ext2.Num]struct{} {
	return deriveIntersectMT7(a, b)
}

func FilterT7(pred func(ext2.Num) bool, l []ext2.Num) []ext2.Num {
	return deriveFilterT7(pred, l)
}

func TakewhileT7(pred func(ext2.Num) bool, l []ext2.Num) []ext2.Num {
	return deriveTakeWhileT7(pred, l)
}

func AllT7(pred func(ext2.Num) bool, l []ext2.Num) bool {
	return deriveAllT7(pred, l)
}

func AnyT7(pred func(ext2.Num) bool, l []ext2.Num) bool {
	return deriveAnyT7(pred, l)
}

func EqualT8(a ext2.Key, b ext2.Key) bool {
	return deriveEqualT8(a, b)
}

func ContainsT8(l []ext2.Key, x ext2.Key) bool {
	return deriveContainsT8(l, x)
}

func UniqueT8(l []ext2.Key) []ext2.Key {
	return deriveUniqueT8(l)
}

func SetT8(l []ext2.Key) map[ext2.Key]struct{} {
	return deriveSetT8(l)
}

func UnionlT8(a []ext2.Key, b []ext2.Key) []ext2.Key {
	return deriveUnionLT8(a, b)
}

func IntersectlT8(a []ext2.Key, b []ext2.Key) []ext2.Key {
	return deriveIntersectLT8(a, b)
}

func UnionmT8(a map[ext2.Key]struct{}, b map[ext2.Key]struct{}) map[ext2.Key]struct{} {
	return deriveUnionMT8(a, b)
}

func IntersectmT8(a map[ext2.Key]struct{}, b map[ext2.Key]struct{}) map[ext2.Key]struct{} {
	return deriveIntersectMT8(a, b)
}

func FilterT8(pred func(ext2.Key) bool, l []ext2.Key) []ext2.Key {
	return deriveFilterT8(pred, l)
}

func TakewhileT8(pred func(ext2.Key) bool, l []ext2.Key) []ext2.Key {
	return deriveTakeWhileT8(pred, l)
}

func AllT8(pred func(ext2.Key) bool, l []ext2.Key) bool {
	return deriveAllT8(pred, l)
}

func AnyT8(pred func(ext2.Key) bool, l []ext2.Key) bool {
	return deriveAnyT8(pred, l)
}

func EqualT9(a map[ext.Key]int, b map[ext.Key]int) bool {
	return deriveEqualT9(a, b)
}

func ContainsT9(l []map[ext.Key]int, x map[ext.Key]int) bool {
	return deriveContainsT9(l, x)
}

func UniqueT9(l []map[ext.Key]int) []map[ext.Key]int {
	return deriveUniqueT9(l)
}

func UnionlT9(a []map[ext.Key]int, b []map[ext.Key]int) []map[ext.Key]int {
	return deriveUnionLT9(a, b)
}

func IntersectlT9(a []map[ext.Key]int, b []map[ext.Key]int) []map[ext.Key]int {
	return deriveIntersectLT9(a, b)
}

func FilterT9(pred func(map[ext.Key]int) bool, l []map[ext.Key]int) []map[ext.Key]int {
	return deriveFilterT9(pred, l)
}

func TakewhileT9(pred func(map[ext.Key]int) bool, l []map[ext.Key]int) []map[ext.Key]int {
	return deriveTakeWhileT9(pred, l)
}

func AllT9(pred func(map[ext.Key]int) bool, l []map[ext.Key]int) bool {
	return deriveAllT9(pred, l)
}

func AnyT9(pred func(map[ext.Key]int) bool, l []map[ext.Key]int) bool {
	return deriveAnyT9(pred, l)
}

func EqualT10(a bool, b bool) bool {
	return deriveEqualT10(a, b)
}

func ContainsT10(l []bool, x bool) bool {
	return deriveContainsT10(l, x)
}

func UniqueT10(l []bool) []bool {
	return deriveUniqueT10(l)
}

func SetT10(l []bool) map[bool]struct{} {
	return deriveSetT10(l)
}

func UnionlT10(a []bool, b []bool) []bool {
	return deriveUnionLT10(a, b)
}

func IntersectlT10(a []bool, b []bool) []bool {
	return deriveIntersectLT10(a, b)
}

func UnionmT10(a map[bool]struct{}, b map[bool]struct{}) map[bool]struct{} {
	return deriveUnionMT10(a, b)
}

func IntersectmT10(a map[bool]struct{}, b map[bool]struct{}) map[bool]struct{} {
	return deriveIntersectMT10(a, b)
}

func FilterT10(pred func(bool) bool, l []bool) []bool {
	return deriveFilterT10(pred, l)
}

func TakewhileT10(pred func(bool) bool, l []bool) []bool {
	return deriveTakeWhileT10(pred, l)
}

func AllT10(pred func(bool) bool, l []bool) bool {
	return deriveAllT10(pred, l)
}

func AnyT10(pred func(bool) bool, l []bool) bool {
	return deriveAnyT10(pred, l)
}

func EqualT11(a N0, b N0) bool {
	return deriveEqualT11(a, b)
}

func ContainsT11(l []N0, x N0) bool {
	return deriveContainsT11(l, x)
}

func UniqueT11(l []N0) []N0 {
	return deriveUniqueT11(l)
}

func UnionlT11(a []N0, b []N0) []N0 {
	return deriveUnionLT11(a, b)
}

func IntersectlT11(a []N0, b []N0) []N0 {
	return deriveIntersectLT11(a, b)
}

func FilterT11(pred func(N0) bool, l []N0) []N0 {
	return deriveFilterT11(pred, l)
}

func TakewhileT11(pred func(N0) bool, l []N0) []N0 {
	return deriveTakeWhileT11(pred, l)
}

func AllT11(pred func(N0) bool, l []N0) bool {
	return deriveAllT11(pred, l)
}

func AnyT11(pred func(N0) bool, l []N0) bool {
	return deriveAnyT11(pred, l)
}

func EqualT12(a map[ext.Key]S1, b map[ext.Key]S1) bool {
	return deriveEqualT12(a, b)
}

func ContainsT12(l []map[ext.Key]S1, x map[ext.Key]S1) bool {
	return deriveContainsT12(l, x)
}

func UniqueT12(l []map[ext.Key]S1) []map[ext.Key]S1 {
	return deriveUniqueT12(l)
}

func UnionlT12(a []map[ext.Key]S1, b []map[ext.Key]S1) []map[ext.Key]S1 {
	return deriveUnionLT12(a, b)
}

func IntersectlT12(a []map[ext.Key]S1, b []map[ext.Key]S1) []map[ext.Key]S1 {
	return deriveIntersectLT12(a, b)
}

func FilterT12(pred func(map[ext.Key]S1) bool, l []map[ext.Key]S1) []map[ext.Key]S1 {
	return deriveFilterT12(pred, l)
}

func TakewhileT12(pred func(map[ext.Key]S1) bool, l []map[ext.Key]S1) []map[ext.Key]S1 {
	return deriveTakeWhileT12(pred, l)
}

func AllT12(pred func(map[ext.Key]S1) bool, l []map[ext.Key]S1) bool {
	return deriveAllT12(pred, l)
}

func AnyT12(pred func(map[ext.Key]S1) bool, l []map[ext.Key]S1) bool {
	return deriveAnyT12(pred, l)
}

func EqualT13(a map[ext2.Num]uint16, b map[ext2.Num]uint16) bool {
	return deriveEqualT13(a, b)
}

func ContainsT13(l []map[ext2.Num]uint16, x map[ext2.Num]uint16) bool {
	return deriveContainsT13(l, x)
}

func UniqueT13(l []map[ext2.Num]uint16) []map[ext2.Num]uint16 {
	return deriveUniqueT13(l)
}

func UnionlT13(a []map[ext2.Num]uint16, b []map[ext2.Num]uint16) []map[ext2.Num]uint16 {
	return deriveUnionLT13(a, b)
}

func IntersectlT13(a []map[ext2.Num]uint16, b []map[ext2.Num]uint16) []map[ext2.Num]uint16 {
	return deriveIntersectLT13(a, b)
}

func FilterT13(pred func(map[ext2.Num]uint16) bool, l []map[ext2.Num]uint16) []map[ext2.Num]uint16 {
	return deriveFilterT13(pred, l)
}

func TakewhileT13(pred func(map[ext2.Num]uint16) bool, l []map[ext2.Num]uint16) []map[ext2.Num]uint16 {
	return deriveTakeWhileT13(pred, l)
}

func AllT13(pred func(map[ext2.Num]uint16) bool, l []map[ext2.Num]uint16) bool {
	return deriveAllT13(pred, l)
}

func AnyT13(pred func(map[ext2.Num]uint16) bool, l []map[ext2.Num]uint16) bool {
	return deriveAnyT13(pred, l)
}
