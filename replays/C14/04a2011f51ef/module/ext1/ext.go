package ext

type Num uint8

type Key struct {
	k0 bool
	k1 int64
	k2 int8
}

type E0 struct {
	f0 [][]byte
}
