package p

type MyRune rune

type MyStr string

type N0 [2]uint

type N1 *MyStr

type N2 [2]string

type K0 struct {
	F0 uint
	f1 complex128
}

type S0 struct {
	*K0
}

type S1 struct {
	f0 S0
	F1 N2
	F2 *S0
	K0
	f4 int
	F5 float64
}
