package p

import (
	ext "subj/ext1"
	ext2 "subj/x/ext"
)

var Anchor = 0

func EqualT0(a uint8, b uint8) bool {
	return deriveEqualT0(a, b)
}

func ContainsT0(l []uint8, x uint8) bool {
	return deriveContainsT0(l, x)
}

func UniqueT0(l []uint8) []uint8 {
	return deriveUniqueT0(l)
}

func SetT0(l []uint8) map[uint8]struct{} {
	return deriveSetT0(l)
}

func UnionlT0(a []uint8, b []uint8) []uint8 {
	return deriveUnionLT0(a, b)
}

func IntersectlT0(a []uint8, b []uint8) []uint8 {
	return deriveIntersectLT0(a, b)
}

func UnionmT0(a map[uint8]struct{}, b map[uint8]struct{}) map[uint8]struct{} {
	return deriveUnionMT0(a, b)
}

func IntersectmT0(a map[uint8]struct{}, b map[uint8]struct{}) map[uint8]struct{} {
	return deriveIntersectMT0(a, b)
}

func FilterT0(pred func(uint8) bool, l []uint8) []uint8 {
	return deriveFilterT0(pred, l)
}

func TakewhileT0(pred func(uint8) bool, l []uint8) []uint8 {
	return deriveTakeWhileT0(pred, l)
}

func AllT0(pred func(uint8) bool, l []uint8) bool {
	return deriveAllT0(pred, l)
}

func AnyT0(pred func(uint8) bool, l []uint8) bool {
	return deriveAnyT0(pred, l)
}

func EqualT1(a S0, b S0) bool {
	return deriveEqualT1(a, b)
}

func ContainsT1(l []S0, x S0) bool {
	return deriveContainsT1(l, x)
}

func UniqueT1(l []S0) []S0 {
	return deriveUniqueT1(l)
}

func UnionlT1(a []S0, b []S0) []S0 {
	return deriveUnionLT1(a, b)
}

func IntersectlT1(a []S0, b []S0) []S0 {
	return deriveIntersectLT1(a, b)
}

func FilterT1(pred func(S0) bool, l []S0) []S0 {
	return deriveFilterT1(pred, l)
}

func TakewhileT1(pred func(S0) bool, l []S0) []S0 {
	return deriveTakeWhileT1(pred, l)
}

func AllT1(pred func(S0) bool, l []S0) bool {
	return deriveAllT1(pred, l)
}

func AnyT1(pred func(S0) bool, l []S0) bool {
	return deriveAnyT1(pred, l)
}

func EqualT2(a []N0, b []N0) bool {
	return deriveEqualT2(a, b)
}

func ContainsT2(l [][]N0, x []N0) bool {
	return deriveContainsT2(l, x)
}

func UniqueT2(l [][]N0) [][]N0 {
	return deriveUniqueT2(l)
}

func UnionlT2(a [][]N0, b [][]N0) [][]N0 {
	return deriveUnionLT2(a, b)
}

func IntersectlT2(a [][]N0, b [][]N0) [][]N0 {
	return deriveIntersectLT2(a, b)
}

func FilterT2(pred func([]N0) bool, l [][]N0) [][]N0 {
	return deriveFilterT2(pred, l)
}

func TakewhileT2(pred func([]N0) bool, l [][]N0) [][]N0 {
	return deriveTakeWhileT2(pred, l)
}

func AllT2(pred func([]N0) bool, l [][]N0) bool {
	return deriveAllT2(pred, l)
}

func AnyT2(pred func([]N0) bool, l [][]N0) bool {
	return deriveAnyT2(pred, l)
}

func EqualT3(a *map[ext2.Num]*complex128, b *map[ext2.Num]*complex128) bool {
	return deriveEqualT3(a, b)
}

func ContainsT3(l []*map[ext2.Num]*complex128, x *map[ext2.Num]*complex128) bool {
	return deriveContainsT3(l, x)
}

func UniqueT3(l []*map[ext2.Num]*complex128) []*map[ext2.Num]*complex128 {
	return deriveUniqueT3(l)
}

func UnionlT3(a []*map[ext2.Num]*complex128, b []*map[ext2.Num]*complex128) []*map[ext2.Num]*complex128 {
	return deriveUnionLT3(a, b)
}

func IntersectlT3(a []*map[ext2.Num]*complex128, b []*map[ext2.Num]*complex128) []*map[ext2.Num]*complex128 {
	return deriveIntersectLT3(a, b)
}

func FilterT3(pred func(*map[ext2.Num]*complex128) bool, l []*map[ext2.Num]*complex128) []*map[ext2.Num]*complex128 {
	return deriveFilterT3(pred, l)
}

func TakewhileT3(pred func(*map[ext2.Num]*complex128) bool, l []*map[ext2.Num]*complex128) []*map[ext2.Num]*complex128 {
	return deriveTakeWhileT3(pred, l)
}

func AllT3(pred func(*map[ext2.Num]*complex128) bool, l []*map[ext2.Num]*complex128) bool {
	return deriveAllT3(pred, l)
}

func AnyT3(pred func(*map[ext2.Num]*complex128) bool, l []*map[ext2.Num]*complex128) bool {
	return deriveAnyT3(pred, l)
}

func EqualT4(a **ext2.Num, b **ext2.Num) bool {
	return deriveEqualT4(a, b)
}

func ContainsT4(l []**ext2.Num, x **ext2.Num) bool {
	return deriveContainsT4(l, x)
}

func UniqueT4(l []**ext2.Num) []**ext2.Num {
	return deriveUniqueT4(l)
}

func UnionlT4(a []**ext2.Num, b []**ext2.Num) []**ext2.Num {
	return deriveUnionLT4(a, b)
}

func IntersectlT4(a []**ext2.Num, b []**ext2.Num) []**ext2.Num {
	return deriveIntersectLT4(a, b)
}

func FilterT4(pred func(**ext2.Num) bool, l []**ext2.Num) []**ext2.Num {
	return deriveFilterT4(pred, l)
}

func TakewhileT4(pred func(**ext2.Num) bool, l []**ext2.Num) []**ext2.Num {
	return deriveTakeWhileT4(pred, l)
}

func AllT4(pred func(**ext2.Num) bool, l []**ext2.Num) bool {
	return deriveAllT4(pred, l)
}

func AnyT4(pred func(**ext2.Num) bool, l []**ext2.Num) bool {
	return deriveAnyT4(pred, l)
}

func EqualT5(a uint64, b uint64) bool {
	return deriveEqualT5(a, b)
}

func ContainsT5(l []uint64, x uint64) bool {
	return deriveContainsT5(l, x)
}

func UniqueT5(l []uint64) []uint64 {
	return deriveUniqueT5(l)
}

func SetT5(l []uint64) map[uint64]struct{} {
	return deriveSetT5(l)
}

func UnionlT5(a []uint64, b []uint64) []uint64 {
	return deriveUnionLT5(a, b)
}

func IntersectlT5(a []uint64, b []uint64) []uint64 {
	return deriveIntersectLT5(a, b)
}

func UnionmT5(a map[uint64]struct{}, b map[uint64]struct{}) map[uint64]struct{} {
	return deriveUnionMT5(a, b)
}

func IntersectmT5(a map[uint64]struct{}, b map[uint64]struct{}) map[uint64]struct{} {
	return deriveIntersectMT5(a, b)
}

func FilterT5(pred func(uint64) bool, l []uint64) []uint64 {
	return deriveFilterT5(pred, l)
}

func TakewhileT5(pred func(uint64) bool, l []uint64) []uint64 {
	return deriveTakeWhileT5(pred, l)
}

func AllT5(pred func(uint64) bool, l []uint64) bool {
	return deriveAllT5(pred, l)
}

func AnyT5(pred func(uint64) bool, l []uint64) bool {
	return deriveAnyT5(pred, l)
}

func EqualT6(a int32, b int32) bool {
	return deriveEqualT6(a, b)
}

func ContainsT6(l []int32, x int32) bool {
	return deriveContainsT6(l, x)
}

func UniqueT6(l []int32) []int32 {
	return deriveUniqueT6(l)
}

func SetT6(l []int32) map[int32]struct{} {
	return deriveSetT6(l)
}

func UnionlT6(a []int32, b []int32) []int32 {
	return deriveUnionLT6(a, b)
}

func IntersectlT6(a []int32, b []int32) []int32 {
	return deriveIntersectLT6(a, b)
}

func UnionmT6(a map[int32]struct{}, b map[int32]struct{}) map[int32]struct{} {
	return deriveUnionMT6(a, b)
}

func IntersectmT6(a map[int32]struct{}, b map[int32]struct{}) map[int32]struct{} {
	return deriveIntersectMT6(a, b)
}

func FilterT6(pred func(int32) bool, l []int32) []int32 {
	return deriveFilterT6(pred, l)
}

func TakewhileT6(pred func(int32) bool, l []int32) []int32 {
	return deriveTakeWhileT6(pred, l)
}

func AllT6(pred func(int32) bool, l []int32) bool {
	return deriveAllT6(pred, l)
}

func AnyT6(pred func(int32) bool, l []int32) bool {
	return deriveAnyT6(pred, l)
}

func EqualT7(a []S0, b []S0) bool {
	return deriveEqualT7(a, b)
}

func ContainsT7(l [][]S0, x []S0) bool {
	return deriveContainsT7(l, x)
}

func UniqueT7(l [][]S0) [][]S0 {
	return deriveUniqueT7(l)
}

func UnionlT7(a [][]S0, b [][]S0) [][]S0 {
	return deriveUnionLT7(a, b)
}

func IntersectlT7(a [][]S0, b [][]S0) [][]S0 {
	return deriveIntersectLT7(a, b)
}

func FilterT7(pred func([]S0) bool, l [][]S0) [][]S0 {
	return deriveFilterT7(pred, l)
}

func TakewhileT7(pred func([]S0) bool, l [][]S0) [][]S0 {
	return deriveTakeWhileT7(pred, l)
}

func AllT7(pred func([]S0) bool, l [][]S0) bool {
	return deriveAllT7(pred, l)
}

func AnyT7(pred func([]S0) bool, l [][]S0) bool {
	return deriveAnyT7(pred, l)
}

func EqualT8(a *S0, b *S0) bool {
	return deriveEqualT8(a, b)
}

func ContainsT8(l []*S0, x *S0) bool {
	return deriveContainsT8(l, x)
}

func UniqueT8(l []*S0) []*S0 {
	return deriveUniqueT8(l)
}

func UnionlT8(a []*S0, b []*S0) []*S0 {
	return deriveUnionLT8(a, b)
}

func IntersectlT8(a []*S0, b []*S0) []*S0 {
	return deriveIntersectLT8(a, b)
}

func FilterT8(pred func(*S0) bool, l []*S0) []*S0 {
	return deriveFilterT8(pred, l)
}

func TakewhileT8(pred func(*S0) bool, l []*S0) []*S0 {
	return deriveTakeWhileT8(pred, l)
}

func AllT8(pred func(*S0) bool, l []*S0) bool {
	return deriveAllT8(pred, l)
}

func AnyT8(pred func(*S0) bool, l []*S0) bool {
	return deriveAnyT8(pred, l)
}

func EqualT9(a ext.Key, b ext.Key) bool {
	return deriveEqualT9(a, b)
}

func ContainsT9(l []ext.Key, x ext.Key) bool {
	return deriveContainsT9(l, x)
}

func UniqueT9(l []ext.Key) []ext.Key {
	return deriveUniqueT9(l)
}

func SetT9(l []ext.Key) map[ext.Key]struct{} {
	return deriveSetT9(l)
}

func UnionlT9(a []ext.Key, b []ext.Key) []ext.Key {
	return deriveUnionLT9(a, b)
}

func IntersectlT9(a []ext.Key, b []ext.Key) []ext.Key {
	return deriveIntersectLT9(a, b)
}

func UnionmT9(a map[ext.Key]struct{}, b map[ext.Key]struct{}) map[ext.Key]struct{} {
	return deriveUnionMT9(a, b)
}

func IntersectmT9(a map[ext.Key]struct{}, b map[ext.Key]struct{}) map[ext.Key]struct{} {
	return deriveIntersectMT9(a, b)
}

func FilterT9(pred func(ext.Key) bool, l []ext.Key) []ext.Key {
	return deriveFilterT9(pred, l)
}

func TakewhileT9(pred func(ext.Key) bool, l []ext.Key) []ext.Key {
	return deriveTakeWhileT9(pred, l)
}

func AllT9(pred func(ext.Key) bool, l []ext.Key) bool {
	return deriveAllT9(pred, l)
}

func AnyT9(pred func(ext.Key) bool, l []ext.Key) bool {
	return deriveAnyT9(pred, l)
}

func EqualT10(a N0, b N0) bool {
	return deriveEqualT10(a, b)
}

func ContainsT10(l []N0, x N0) bool {
	return deriveContainsT10(l, x)
}

func UniqueT10(l []N0) []N0 {
	return deriveUniqueT10(l)
}

func SetT10(l []N0) map[N0]struct{} {
	return deriveSetT10(l)
}

func UnionlT10(a []N0, b []N0) []N0 {
	return deriveUnionLT10(a, b)
}

func IntersectlT10(a []N0, b []N0) []N0 {
	return deriveIntersectLT10(a, b)
}

func UnionmT10(a map[N0]struct{}, b map[N0]struct{}) map[N0]struct{} {
	return deriveUnionMT10(a, b)
}

func IntersectmT10(a map[N0]struct{}, b map[N0]struct{}) map[N0]struct{} {
	return deriveIntersectMT10(a, b)
}

func FilterT10(pred func(N0) bool, l []N0) []N0 {
	return deriveFilterT10(pred, l)
}

func TakewhileT10(pred func(N0) bool, l []N0) []N0 {
	return deriveTakeWhileT10(pred, l)
}

func AllT10(pred func(N0) bool, l []N0) bool {
	return deriveAllT10(pred, l)
}

func AnyT10(pred func(N0) bool, l []N0) bool {
	return deriveAnyT10(pred, l)
}

func EqualT11(a map[ext.Key]ext2.Num, b map[ext.Key]ext2.Num) bool {
	return deriveEqualT11(a, b)
}

func ContainsT11(l []map[ext.Key]ext2.Num, x map[ext.Key]ext2.Num) bool {
	return deriveContainsT11(l, x)
}

func UniqueT11(l []map[ext.Key]ext2.Num) []map[ext.Key]ext2.Num {
	return deriveUniqueT11(l)
}

func UnionlT11(a []map[ext.Key]ext2.Num, b []map[ext.Key]ext2.Num) []map[ext.Key]ext2.Num {
	return deriveUnionLT11(a, b)
}

func IntersectlT11(a []map[ext.Key]ext2.Num, b []map[ext.Key]ext2.Num) []map[ext.Key]ext2.Num {
	return deriveIntersectLT11(a, b)
}

func FilterT11(pred func(map[ext.Key]ext2.Num) bool, l []map[ext.Key]ext2.Num) []map[ext.Key]ext2.Num {
	return deriveFilterT11(pred, l)
}

func TakewhileT11(pred func(map[ext.Key]ext2.Num) bool, l []map[ext.Key]ext2.Num) []map[ext.Key]ext2.Num {
	return deriveTakeWhileT11(pred, l)
}

func AllT11(pred func(map[ext.Key]ext2.Num) bool, l []map[ext.Key]ext2.Num) bool {
	return deriveAllT11(pred, l)
}

func AnyT11(pred func(map[ext.Key]ext2.Num) bool, l []map[ext.Key]ext2.Num) bool {
	return deriveAnyT11(pred, l)
}

func EqualT12(a ext2.E0, b ext2.E0) bool {
	return deriveEqualT12(a, b)
}

func ContainsT12(l []ext2.E0, x ext2.E0) bool {
	return deriveContainsT12(l, x)
}

func UniqueT12(l []ext2.E0) []ext2.E0 {
	return deriveUniqueT12(l)
}

func UnionlT12(a []ext2.E0, b []ext2.E0) []ext2.E0 {
	return deriveUnionLT12(a, b)
}

func IntersectlT12(a []ext2.E0, b []ext2.E0) []ext2.E0 {
	return deriveIntersectLT12(a, b)
}

func FilterT12(pred func(ext2.E0) bool, l []ext2.E0) []ext2.E0 {
	return deriveFilterT12(pred, l)
}

func TakewhileT12(pred func(ext2.E0) bool, l []ext2.E0) []ext2.E0 {
	return deriveTakeWhileT12(pred, l)
}

func AllT12(pred func(ext2.E0) bool, l []ext2.E0) bool {
	return deriveAllT12(pred, l)
}

func AnyT12(pred func(ext2.E0) bool, l []ext2.E0) bool {
	return deriveAnyT12(pred, l)
}

func EqualT13(a map[MyStr]K0, b map[MyStr]K0) bool {
	return deriveEqualT13(a, b)
}

func ContainsT13(l []map[MyStr]K0, x map[MyStr]K0) bool {
	return deriveContainsT13(l, x)
}

func UniqueT13(l []map[MyStr]K0) []map[MyStr]K0 {
	return deriveUniqueT13(l)
}

func UnionlT13(a []map[MyStr]K0, b []map[MyStr]K0) []map[MyStr]K0 {
	return deriveUnionLT13(a, b)
}

func IntersectlT13(a []map[MyStr]K0, b []map[MyStr]K0) []map[MyStr]K0 {
	return deriveIntersectLT13(a, b)
}

func FilterT13(pred func(map[MyStr]K0) bool, l []map[MyStr]K0) []map[MyStr]K0 {
	return deriveFilterT13(pred, l)
}

func TakewhileT13(pred func(map[MyStr]K0) bool, l []map[MyStr]K0) []map[MyStr]K0 {
	return deriveTakeWhileT13(pred, l)
}

func AllT13(pred func(map[MyStr]K0) bool, l []map[MyStr]K0) bool {
	return deriveAllT13(pred, l)
}

func AnyT13(pred func(map[MyStr]K0) bool, l []map[MyStr]K0) bool {
	return deriveAnyT13(pred, l)
}
