package ext

type Num int64

type Key struct {
	k0 float64
}

type E0 struct {
	F0 [][]uint16
}
