package p

import (
	ext "subj/ext1"
	other "subj/x/other"
)

var Anchor = 0

func EqualT0(a MyInt, b MyInt) bool {
	return deriveEqualT0(a, b)
}

func ContainsT0(l []MyInt, x MyInt) bool {
	return deriveContainsT0(l, x)
}

func UniqueT0(l []MyInt) []MyInt {
	return deriveUniqueT0(l)
}

func SetT0(l []MyInt) map[MyInt]struct{} {
	return deriveSetT0(l)
}

func UnionlT0(a []MyInt, b []MyInt) []MyInt {
	return deriveUnionLT0(a, b)
}

func IntersectlT0(a []MyInt, b []MyInt) []MyInt {
	return deriveIntersectLT0(a, b)
}

func UnionmT0(a map[MyInt]struct{}, b map[MyInt]struct{}) map[MyInt]struct{} {
	return deriveUnionMT0(a, b)
}

func IntersectmT0(a map[MyInt]struct{}, b map[MyInt]struct{}) map[MyInt]struct{} {
	return deriveIntersectMT0(a, b)
}

func FilterT0(pred func(MyInt) bool, l []MyInt) []MyInt {
	return deriveFilterT0(pred, l)
}

func TakewhileT0(pred func(MyInt) bool, l []MyInt) []MyInt {
	return deriveTakeWhileT0(pred, l)
}

func AllT0(pred func(MyInt) bool, l []MyInt) bool {
	return deriveAllT0(pred, l)
}

func AnyT0(pred func(MyInt) bool, l []MyInt) bool {
	return deriveAnyT0(pred, l)
}

func EqualT1(a S0, b S0) bool {
	return deriveEqualT1(a, b)
}

func ContainsT1(l []S0, x S0) bool {
	return deriveContainsT1(l, x)
}

func UniqueT1(l []S0) []S0 {
	return deriveUniqueT1(l)
}

func UnionlT1(a []S0, b []S0) []S0 {
	return deriveUnionLT1(a, b)
}

func IntersectlT1(a []S0, b []S0) []S0 {
	return deriveIntersectLT1(a, b)
}

func FilterT1(pred func(S0) bool, l []S0) []S0 {
	return deriveFilterT1(pred, l)
}

func TakewhileT1(pred func(S0) bool, l []S0) []S0 {
	return deriveTakeWhileT1(pred, l)
}

func AllT1(pred func(S0) bool, l []S0) bool {
	return deriveAllT1(pred, l)
}

func AnyT1(pred func(S0) bool, l []S0) bool {
	return deriveAnyT1(pred, l)
}

func EqualT2(a ext.E0, b ext.E0) bool {
	return deriveEqualT2(a, b)
}

func ContainsT2(l []ext.E0, x ext.E0) bool {
	return deriveContainsT2(l, x)
}

func UniqueT2(l []ext.E0) []ext.E0 {
	return deriveUniqueT2(l)
}

func UnionlT2(a []ext.E0, b []ext.E0) []ext.E0 {
	return deriveUnionLT2(a, b)
}

func IntersectlT2(a []ext.E0, b []ext.E0) []ext.E0 {
	return deriveIntersectLT2(a, b)
}

func FilterT2(pred func(ext.E0) bool, l []ext.E0) []ext.E0 {
	return deriveFilterT2(pred, l)
}

func TakewhileT2(pred func(ext.E0) bool, l []ext.E0) []ext.E0 {
	return deriveTakeWhileT2(pred, l)
}

func AllT2(pred func(ext.E0) bool, l []ext.E0) bool {
	return deriveAllT2(pred, l)
}

func AnyT2(pred func(ext.E0) bool, l []ext.E0) bool {
	return deriveAnyT2(pred, l)
}

func EqualT3(a R, b R) bool {
	return deriveEqualT3(a, b)
}

func ContainsT3(l []R, x R) bool {
	return deriveContainsT3(l, x)
}

func UniqueT3(l []R) []R {
	return deriveUniqueT3(l)
}

func UnionlT3(a []R, b []R) []R {
	return deriveUnionLT3(a, b)
}

func IntersectlT3(a []R, b []R) []R {
	return deriveIntersectLT3(a, b)
}

func FilterT3(pred func(R) bool, l []R) []R {
	return deriveFilterT3(pred, l)
}

func TakewhileT3(pred func(R) bool, l []R) []R {
	return deriveTakeWhileT3(pred, l)
}

func AllT3(pred func(R) bool, l []R) bool {
	return deriveAllT3(pred, l)
}

func AnyT3(pred func(R) bool, l []R) bool {
	return deriveAnyT3(pred, l)
}

func EqualT4(a other.O0, b other.O0) bool {
	return deriveEqualT4(a, b)
}

func ContainsT4(l []other.O0, x other.O0) bool {
	return deriveContainsT4(l, x)
}

func UniqueT4(l []other.O0) []other.O0 {
	return deriveUniqueT4(l)
}

func UnionlT4(a []other.O0, b []other.O0) []other.O0 {
	return deriveUnionLT4(a, b)
}

func IntersectlT4(a []other.O0, b []other.O0) []other.O0 {
	return deriveIntersectLT4(a, b)
}

func FilterT4(pred func(other.O0) bool, l []other.O0) []other.O0 {
	return deriveFilterT4(pred, l)
}

func TakewhileT4(pred func(other.O0) bool, l []other.O0) []other.O0 {
	return deriveTakeWhileT4(pred, l)
}

func AllT4(pred func(other.O0) bool, l []other.O0) bool {
	return deriveAllT4(pred, l)
}

func AnyT4(pred func(other.O0) bool, l []other.O0) bool {
	return deriveAnyT4(pred, l)
}

func EqualT5(a *int, b *int) bool {
	return deriveEqualT5(a, b)
}

func ContainsT5(l []*int, x *int) bool {
	return deriveContainsT5(l, x)
}

func UniqueT5(l []*int) []*int {
	return deriveUniqueT5(l)
}

func UnionlT5(a []*int, b []*int) []*int {
	return deriveUnionLT5(a, b)
}

func IntersectlT5(a []*int, b []*int) []*int {
	return deriveIntersectLT5(a, b)
}

func FilterT5(pred func(*int) bool, l []*int) []*int {
	return deriveFilterT5(pred, l)
}

func TakewhileT5(pred func(*int) bool, l []*int) []*int {
	return deriveTakeWhileT5(pred, l)
}

func AllT5(pred func(*int) bool, l []*int) bool {
	return deriveAllT5(pred, l)
}

func AnyT5(pred func(*int) bool, l []*int) bool {
	return deriveAnyT5(pred, l)
}

func EqualT6(a []int, b []int) bool {
	return deriveEqualT6(a, b)
}

func ContainsT6(l [][]int, x []int) bool {
	return deriveContainsT6(l, x)
}

func UniqueT6(l [][]int) [][]int {
	return deriveUniqueT6(l)
}

func UnionlT6(a [][]int, b [][]int) [][]int {
	return deriveUnionLT6(a, b)
}

func IntersectlT6(a [][]int, b [][]int) [][]int {
	return deriveIntersectLT6(a, b)
}

func FilterT6(pred func([]int) bool, l [][]int) [][]int {
	return deriveFilterT6(pred, l)
}

func TakewhileT6(pred func([]int) bool, l [][]int) [][]int {
	return deriveTakeWhileT6(pred, l)
}

func AllT6(pred func([]int) bool, l [][]int) bool {
	return deriveAllT6(pred, l)
}

func AnyT6(pred func([]int) bool, l [][]int) bool {
	return deriveAnyT6(pred, l)
}

func EqualT7(a [2]int, b [2]int) bool {
	return deriveEqualT7(a, b)
}

func ContainsT7(l [][2]int, x [2]int) bool {
	return deriveContainsT7(l, x)
}

func UniqueT7(l [][2]int) [][2]int {
	return deriveUniqueT7(l)
}

func SetT7(l [][2]int) map[[2]int]struct{} {
	return deriveSetT7(l)
}

func UnionlT7(a [][2]int, b [][2]int) [][2]int {
	return deriveUnionLT7(a, b)
}

func IntersectlT7(a [][2]int, b [][2]int) [][2]int {
	return deriveIntersectLT7(a, b)
}

func UnionmT7(a map[[2]int]struct{}, b map[[2]int]struct{}) map[[2]int]struct{} {
	return deriveUnionMT7(a, b)
}

func IntersectmT7(a map[[2]int]struct{}, b map[[2]int]struct{}) map[[2]int]struct{} {
	return deriveIntersectMT7(a, b)
}

func FilterT7(pred func([2]int) bool, l [][2]int) [][2]int {
	return deriveFilterT7(pred, l)
}

func TakewhileT7(pred func([2]int) bool, l [][2]int) [][2]int {
	return deriveTakeWhileT7(pred, l)
}

func AllT7(pred func([2]int) bool, l [][2]int) bool {
	return deriveAllT7(pred, l)
}

func AnyT7(pred func([2]int) bool, l [][2]int) bool {
	return deriveAnyT7(pred, l)
}

func EqualT8(a map[string]int, b map[string]int) bool {
	return deriveEqualT8(a, b)
}

func ContainsT8(l []map[string]int, x map[string]int) bool {
	return deriveContainsT8(l, x)
}

func UniqueT8(l []map[string]int) []map[string]int {
	return deriveUniqueT8(l)
}

func UnionlT8(a []map[string]int, b []map[string]int) []map[string]int {
	return deriveUnionLT8(a, b)
}

func IntersectlT8(a []map[string]int, b []map[string]int) []map[string]int {
	return deriveIntersectLT8(a, b)
}

func FilterT8(pred func(map[string]int) bool, l []map[string]int) []map[string]int {
	return deriveFilterT8(pred, l)
}

func TakewhileT8(pred func(map[string]int) bool, l []map[string]int) []map[string]int {
	return deriveTakeWhileT8(pred, l)
}

func AllT8(pred func(map[string]int) bool, l []map[string]int) bool {
	return deriveAllT8(pred, l)
}

func AnyT8(pred func(map[string]int) bool, l []map[string]int) bool {
	return deriveAnyT8(pred, l)
}

func EqualT9(a map[K0]int, b map[K0]int) bool {
	return deriveEqualT9(a, b)
}

func ContainsT9(l []map[K0]int, x map[K0]int) bool {
	return deriveContainsT9(l, x)
}

func UniqueT9(l []map[K0]int) []map[K0]int {
	return deriveUniqueT9(l)
}

func UnionlT9(a []map[K0]int, b []map[K0]int) []map[K0]int {
	return deriveUnionLT9(a, b)
}

func IntersectlT9(a []map[K0]int, b []map[K0]int) []map[K0]int {
	return deriveIntersectLT9(a, b)
}

func FilterT9(pred func(map[K0]int) bool, l []map[K0]int) []map[K0]int {
	return deriveFilterT9(pred, l)
}

func TakewhileT9(pred func(map[K0]int) bool, l []map[K0]int) []map[K0]int {
	return deriveTakeWhileT9(pred, l)
}

func AllT9(pred func(map[K0]int) bool, l []map[K0]int) bool {
	return deriveAllT9(pred, l)
}

func AnyT9(pred func(map[K0]int) bool, l []map[K0]int) bool {
	return deriveAnyT9(pred, l)
}

func EqualT10(a *string, b *string) bool {
	return deriveEqualT10(a, b)
}

func ContainsT10(l []*string, x *string) bool {
	return deriveContainsT10(l, x)
}

func UniqueT10(l []*string) []*string {
	return deriveUniqueT10(l)
}

func UnionlT10(a []*string, b []*string) []*string {
	return deriveUnionLT10(a, b)
}

func IntersectlT10(a []*string, b []*string) []*string {
	return deriveIntersectLT10(a, b)
}

func FilterT10(pred func(*string) bool, l []*string) []*string {
	return deriveFilterT10(pred, l)
}

func TakewhileT10(pred func(*string) bool, l []*string) []*string {
	return deriveTakeWhileT10(pred, l)
}

func AllT10(pred func(*string) bool, l []*string) bool {
	return deriveAllT10(pred, l)
}

func AnyT10(pred func(*string) bool, l []*string) bool {
	return deriveAnyT10(pred, l)
}

func EqualT11(a []string, b []string) bool {
	return deriveEqualT11(a, b)
}

func ContainsT11(l [][]string, x []string) bool {
	return deriveContainsT11(l, x)
}

func UniqueT11(l [][]string) [][]string {
	return deriveUniqueT11(l)
}

func UnionlT11(a [][]string, b [][]string) [][]string {
	return deriveUnionLT11(a, b)
}

func IntersectlT11(a [][]string, b [][]string) [][]string {
	return deriveIntersectLT11(a, b)
}

func FilterT11(pred func([]string) bool, l [][]string) [][]string {
	return deriveFilterT11(pred, l)
}

func TakewhileT11(pred func([]string) bool, l [][]string) [][]string {
	return deriveTakeWhileT11(pred, l)
}

func AllT11(pred func([]string) bool, l [][]string) bool {
	return deriveAllT11(pred, l)
}

func AnyT11(pred func([]string) bool, l [][]string) bool {
	return deriveAnyT11(pred, l)
}

func EqualT12(a [2]string, b [2]string) bool {
	return deriveEqualT12(a, b)
}

func ContainsT12(l [][2]string, x [2]string) bool {
	return deriveContainsT12(l, x)
}

func UniqueT12(l [][2]string) [][2]string {
	return deriveUniqueT12(l)
}

func SetT12(l [][2]string) map[[2]string]struct{} {
	return deriveSetT12(l)
}

func UnionlT12(a [][2]string, b [][2]string) [][2]string {
	return deriveUnionLT12(a, b)
}

func IntersectlT12(a [][2]string, b [][2]string) [][2]string {
	return deriveIntersectLT12(a, b)
}

func UnionmT12(a map[[2]string]struct{}, b map[[2]string]struct{}) map[[2]string]struct{} {
	return deriveUnionMT12(a, b)
}

func IntersectmT12(a map[[2]string]struct{}, b map[[2]string]struct{}) map[[2]string]struct{} {
	return deriveIntersectMT12(a, b)
}

func FilterT12(pred func([2]string) bool, l [][2]string) [][2]string {
	return deriveFilterT12(pred, l)
}

func TakewhileT12(pred func([2]string) bool, l [][2]string) [][2]string {
	return deriveTakeWhileT12(pred, l)
}

func AllT12(pred func([2]string) bool, l [][2]string) bool {
	return deriveAllT12(pred, l)
}

func AnyT12(pred func([2]string) bool, l [][2]string) bool {
	return deriveAnyT12(pred, l)
}

func EqualT13(a map[string]string, b map[string]string) bool {
	return deriveEqualT13(a, b)
}

func ContainsT13(l []map[string]string, x map[string]string) bool {
	return deriveContainsT13(l, x)
}

func UniqueT13(l []map[string]string) []map[string]string {
	return deriveUniqueT13(l)
}

func UnionlT13(a []map[string]string, b []map[string]string) []map[string]string {
	return deriveUnionLT13(a, b)
}

func IntersectlT13(a []map[string]string, b []map[string]string) []map[string]string {
	return deriveIntersectLT13(a, b)
}

func FilterT13(pred func(map[string]string) bool, l []map[string]string) []map[string]string {
	return deriveFilterT13(pred, l)
}

func TakewhileT13(pred func(map[string]string) bool, l []map[string]string) []map[string]string {
	return deriveTakeWhileT13(pred, l)
}

func AllT13(pred func(map[string]string) bool, l []map[string]string) bool {
	return deriveAllT13(pred, l)
}

func AnyT13(pred func(map[string]string) bool, l []map[string]string) bool {
	return deriveAnyT13(pred, l)
}
