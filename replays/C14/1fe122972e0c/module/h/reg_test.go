package h

import (
	"reflect"

	ext "subj/ext1"
	p "subj/p"
	other "subj/x/other"
)

var _ = p.Anchor

var Registry = []Entry{
	{ID: "T0", Type: reflect.TypeOf((*p.MyInt)(nil)).Elem(), TypeStr: "p.MyInt",
		Funcs: map[string]any{"all": p.AllT0, "any": p.AnyT0, "contains": p.ContainsT0, "equal": p.EqualT0, "filter": p.FilterT0, "intersectl": p.IntersectlT0, "intersectm": p.IntersectmT0, "set": p.SetT0, "takewhile": p.TakewhileT0, "unionl": p.UnionlT0, "unionm": p.UnionmT0, "unique": p.UniqueT0},
		Tags:  map[string]string{"comparable": "1", "enumerated": "1", "f:namedbasic": "1"},
	},
	{ID: "T1", Type: reflect.TypeOf((*p.S0)(nil)).Elem(), TypeStr: "p.S0",
		Funcs: map[string]any{"all": p.AllT1, "any": p.AnyT1, "contains": p.ContainsT1, "equal": p.EqualT1, "filter": p.FilterT1, "intersectl": p.IntersectlT1, "takewhile": p.TakewhileT1, "unionl": p.UnionlT1, "unique": p.UniqueT1},
		Tags:  map[string]string{"enumerated": "1", "f:bytes": "1", "f:ptr": "1", "f:slice": "1", "f:string": "1", "f:struct": "1"},
	},
	{ID: "T2", Type: reflect.TypeOf((*ext.E0)(nil)).Elem(), TypeStr: "ext.E0",
		Funcs: map[string]any{"all": p.AllT2, "any": p.AnyT2, "contains": p.ContainsT2, "equal": p.EqualT2, "filter": p.FilterT2, "intersectl": p.IntersectlT2, "takewhile": p.TakewhileT2, "unionl": p.UnionlT2, "unique": p.UniqueT2},
		Tags:  map[string]string{"enumerated": "1", "f:ext": "1", "f:ext-private": "1", "f:float": "1", "f:ptr": "1", "f:slice": "1", "f:string": "1", "f:struct": "1"},
	},
	{ID: "T3", Type: reflect.TypeOf((*p.R)(nil)).Elem(), TypeStr: "p.R",
		Funcs: map[string]any{"all": p.AllT3, "any": p.AnyT3, "contains": p.ContainsT3, "equal": p.EqualT3, "filter": p.FilterT3, "intersectl": p.IntersectlT3, "takewhile": p.TakewhileT3, "unionl": p.UnionlT3, "unique": p.UniqueT3},
		Tags:  map[string]string{"enumerated": "1", "f:map": "1", "f:ptr": "1", "f:recursive": "1", "f:slice": "1", "f:string": "1", "f:struct": "1"},
	},
	{ID: "T4", Type: reflect.TypeOf((*other.O0)(nil)).Elem(), TypeStr: "other.O0",
		Funcs: map[string]any{"all": p.AllT4, "any": p.AnyT4, "contains": p.ContainsT4, "equal": p.EqualT4, "filter": p.FilterT4, "intersectl": p.IntersectlT4, "takewhile": p.TakewhileT4, "unionl": p.UnionlT4, "unique": p.UniqueT4},
		Tags:  map[string]string{"enumerated": "1", "f:ext": "1", "f:namedbasic": "1", "f:slice": "1", "f:string": "1", "f:struct": "1"},
	},
	{ID: "T5", Type: reflect.TypeOf((**int)(nil)).Elem(), TypeStr: "*int",
		Funcs: map[string]any{"all": p.AllT5, "any": p.AnyT5, "contains": p.ContainsT5, "equal": p.EqualT5, "filter": p.FilterT5, "intersectl": p.IntersectlT5, "takewhile": p.TakewhileT5, "unionl": p.UnionlT5, "unique": p.UniqueT5},
		Tags:  map[string]string{"enumerated": "1", "f:ptr": "1"},
	},
	{ID: "T6", Type: reflect.TypeOf((*[]int)(nil)).Elem(), TypeStr: "[]int",
		Funcs: map[string]any{"all": p.AllT6, "any": p.AnyT6, "contains": p.ContainsT6, "equal": p.EqualT6, "filter": p.FilterT6, "intersectl": p.IntersectlT6, "takewhile": p.TakewhileT6, "unionl": p.UnionlT6, "unique": p.UniqueT6},
		Tags:  map[string]string{"enumerated": "1", "f:slice": "1"},
	},
	{ID: "T7", Type: reflect.TypeOf((*[2]int)(nil)).Elem(), TypeStr: "[2]int",
		Funcs: map[string]any{"all": p.AllT7, "any": p.AnyT7, "contains": p.ContainsT7, "equal": p.EqualT7, "filter": p.FilterT7, "intersectl": p.IntersectlT7, "intersectm": p.IntersectmT7, "set": p.SetT7, "takewhile": p.TakewhileT7, "unionl": p.UnionlT7, "unionm": p.UnionmT7, "unique": p.UniqueT7},
		Tags:  map[string]string{"comparable": "1", "enumerated": "1", "f:array": "1"},
	},
	{ID: "T8", Type: reflect.TypeOf((*map[string]int)(nil)).Elem(), TypeStr: "map[string]int",
		Funcs: map[string]any{"all": p.AllT8, "any": p.AnyT8, "contains": p.ContainsT8, "equal": p.EqualT8, "filter": p.FilterT8, "intersectl": p.IntersectlT8, "takewhile": p.TakewhileT8, "unionl": p.UnionlT8, "unique": p.UniqueT8},
		Tags:  map[string]string{"enumerated": "1", "f:map": "1", "f:string": "1"},
	},
	{ID: "T9", Type: reflect.TypeOf((*map[p.K0]int)(nil)).Elem(), TypeStr: "map[p.K0]int",
		Funcs: map[string]any{"all": p.AllT9, "any": p.AnyT9, "contains": p.ContainsT9, "equal": p.EqualT9, "filter": p.FilterT9, "intersectl": p.IntersectlT9, "takewhile": p.TakewhileT9, "unionl": p.UnionlT9, "unique": p.UniqueT9},
		Tags:  map[string]string{"enumerated": "1", "f:map": "1", "f:string": "1", "f:struct": "1", "f:structkey": "1"},
	},
	{ID: "T10", Type: reflect.TypeOf((**string)(nil)).Elem(), TypeStr: "*string",
		Funcs: map[string]any{"all": p.AllT10, "any": p.AnyT10, "contains": p.ContainsT10, "equal": p.EqualT10, "filter": p.FilterT10, "intersectl": p.IntersectlT10, "takewhile": p.TakewhileT10, "unionl": p.UnionlT10, "unique": p.UniqueT10},
		Tags:  map[string]string{"enumerated": "1", "f:ptr": "1", "f:string": "1"},
	},
	{ID: "T11", Type: reflect.TypeOf((*[]string)(nil)).Elem(), TypeStr: "[]string",
		Funcs: map[string]any{"all": p.AllT11, "any": p.AnyT11, "contains": p.ContainsT11, "equal": p.EqualT11, "filter": p.FilterT11, "intersectl": p.IntersectlT11, "takewhile": p.TakewhileT11, "unionl": p.UnionlT11, "unique": p.UniqueT11},
		Tags:  map[string]string{"enumerated": "1", "f:slice": "1", "f:string": "1"},
	},
	{ID: "T12", Type: reflect.TypeOf((*[2]string)(nil)).Elem(), TypeStr: "[2]string",
		Funcs: map[string]any{"all": p.AllT12, "any": p.AnyT12, "contains": p.ContainsT12, "equal": p.EqualT12, "filter": p.FilterT12, "intersectl": p.IntersectlT12, "intersectm": p.IntersectmT12, "set": p.SetT12, "takewhile": p.TakewhileT12, "unionl": p.UnionlT12, "unionm": p.UnionmT12, "unique": p.UniqueT12},
		Tags:  map[string]string{"comparable": "1", "enumerated": "1", "f:array": "1", "f:string": "1"},
	},
	{ID: "T13", Type: reflect.TypeOf((*map[string]string)(nil)).Elem(), TypeStr: "map[string]string",
		Funcs: map[string]any{"all": p.AllT13, "any": p.AnyT13, "contains": p.ContainsT13, "equal": p.EqualT13, "filter": p.FilterT13, "intersectl": p.IntersectlT13, "takewhile": p.TakewhileT13, "unionl": p.UnionlT13, "unique": p.UniqueT13},
		Tags:  map[string]string{"enumerated": "1", "f:map": "1", "f:string": "1"},
	},
}
