package ext

import (
	ext "subj/ext1"
)

type Num float64

type Key struct {
	K0 Num
}

type E0 struct {
	f0 []Key
	F1 ext.E0
}

type E1 struct {
	f0 ext.Num
	F1 ext.Num
	f2 int32
}
