package ext

type Num string

type Key struct {
	k0 bool
	K1 uint
}

type E0 struct {
	F0 *E0
	F1 *E0
	F2 uint32
	f3 *E0
}
