package p

import (
	ext "subj/ext1"
)

var Anchor = 0

func EqualT0(a map[int64]K0, b map[int64]K0) bool {
	return deriveEqualT0(a, b)
}

func ContainsT0(l []map[int64]K0, x map[int64]K0) bool {
	return deriveContainsT0(l, x)
}

func UniqueT0(l []map[int64]K0) []map[int64]K0 {
	return deriveUniqueT0(l)
}

func UnionlT0(a []map[int64]K0, b []map[int64]K0) []map[int64]K0 {
	return deriveUnionLT0(a, b)
}

func IntersectlT0(a []map[int64]K0, b []map[int64]K0) []map[int64]K0 {
	return deriveIntersectLT0(a, b)
}

func FilterT0(pred func(map[int64]K0) bool, l []map[int64]K0) []map[int64]K0 {
	return deriveFilterT0(pred, l)
}

func TakewhileT0(pred func(map[int64]K0) bool, l []map[int64]K0) []map[int64]K0 {
	return deriveTakeWhileT0(pred, l)
}

func AllT0(pred func(map[int64]K0) bool, l []map[int64]K0) bool {
	return deriveAllT0(pred, l)
}

func AnyT0(pred func(map[int64]K0) bool, l []map[int64]K0) bool {
	return deriveAnyT0(pred, l)
}

func EqualT1(a *S0, b *S0) bool {
	return deriveEqualT1(a, b)
}

func ContainsT1(l []*S0, x *S0) bool {
	return deriveContainsT1(l, x)
}

func UniqueT1(l []*S0) []*S0 {
	return deriveUniqueT1(l)
}

func UnionlT1(a []*S0, b []*S0) []*S0 {
	return deriveUnionLT1(a, b)
}

func IntersectlT1(a []*S0, b []*S0) []*S0 {
	return deriveIntersectLT1(a, b)
}

func FilterT1(pred func(*S0) bool, l []*S0) []*S0 {
	return deriveFilterT1(pred, l)
}

func TakewhileT1(pred func(*S0) bool, l []*S0) []*S0 {
	return deriveTakeWhileT1(pred, l)
}

func AllT1(pred func(*S0) bool, l []*S0) bool {
	return deriveAllT1(pred, l)
}

func AnyT1(pred func(*S0) bool, l []*S0) bool {
	return deriveAnyT1(pred, l)
}

func EqualT2(a int, b int) bool {
	return deriveEqualT2(a, b)
}

func ContainsT2(l []int, x int) bool {
	return deriveContainsT2(l, x)
}

func UniqueT2(l []int) []int {
	return deriveUniqueT2(l)
}

func SetT2(l []int) map[int]struct{} {
	return deriveSetT2(l)
}

func UnionlT2(a []int, b []int) []int {
	return deriveUnionLT2(a, b)
}

func IntersectlT2(a []int, b []int) []int {
	return deriveIntersectLT2(a, b)
}

func UnionmT2(a map[int]struct{}, b map[int]struct{}) map[int]struct{} {
	return deriveUnionMT2(a, b)
}

func IntersectmT2(a map[int]struct{}, b map[int]struct{}) map[int]struct{} {
	return deriveIntersectMT2(a, b)
}

func FilterT2(pred func(int) bool, l []int) []int {
	return deriveFilterT2(pred, l)
}

func TakewhileT2(pred func(int) bool, l []int) []int {
	return deriveTakeWhileT2(pred, l)
}

func AllT2(pred func(int) bool, l []int) bool {
	return deriveAllT2(pred, l)
}

func AnyT2(pred func(int) bool, l []int) bool {
	return deriveAnyT2(pred, l)
}

func EqualT3(a string, b string) bool {
	return deriveEqualT3(a, b)
}

func ContainsT3(l []string, x string) bool {
	return deriveContainsT3(l, x)
}

func UniqueT3(l []string) []string {
	return deriveUniqueT3(l)
}

func SetT3(l []string) map[string]struct{} {
	return deriveSetT3(l)
}

func UnionlT3(a []string, b []string) []string {
	return deriveUnionLT3(a, b)
}

func IntersectlT3(a []string, b []string) []string {
	return deriveIntersectLT3(a, b)
}

func UnionmT3(a map[string]struct{}, b map[string]struct{}) map[string]struct{} {
	return deriveUnionMT3(a, b)
}

func IntersectmT3(a map[string]struct{}, b map[string]struct{}) map[string]struct{} {
	return deriveIntersectMT3(a, b)
}

func FilterT3(pred func(string) bool, l []string) []string {
	return deriveFilterT3(pred, l)
}

func TakewhileT3(pred func(string) bool, l []string) []string {
	return deriveTakeWhileT3(pred, l)
}

func AllT3(pred func(string) bool, l []string) bool {
	return deriveAllT3(pred, l)
}

func AnyT3(pred func(string) bool, l []string) bool {
	return deriveAnyT3(pred, l)
}

func EqualT4(a *ext.Num, b *ext.Num) bool {
	return deriveEqualT4(a, b)
}

func ContainsT4(l []*ext.Num, x *ext.Num) bool {
	return deriveContainsT4(l, x)
}

func UniqueT4(l []*ext.Num) []*ext.Num {
	return deriveUniqueT4(l)
}

func UnionlT4(a []*ext.Num, b []*ext.Num) []*ext.Num {
	return deriveUnionLT4(a, b)
}

func IntersectlT4(a []*ext.Num, b []*ext.Num) []*ext.Num {
	return deriveIntersectLT4(a, b)
}

func FilterT4(pred func(*ext.Num) bool, l []*ext.Num) []*ext.Num {
	return deriveFilterT4(pred, l)
}

func TakewhileT4(pred func(*ext.Num) bool, l []*ext.Num) []*ext.Num {
	return deriveTakeWhileT4(pred, l)
}

func AllT4(pred func(*ext.Num) bool, l []*ext.Num) bool {
	return deriveAllT4(pred, l)
}

func AnyT4(pred func(*ext.Num) bool, l []*ext.Num) bool {
	return deriveAnyT4(pred, l)
}

func EqualT5(a uint, b uint) bool {
	return deriveEqualT5(a, b)
}

func ContainsT5(l []uint, x uint) bool {
	return deriveContainsT5(l, x)
}

func UniqueT5(l []uint) []uint {
	return deriveUniqueT5(l)
}

func SetT5(l []uint) map[uint]struct{} {
	return deriveSetT5(l)
}

func UnionlT5(a []uint, b []uint) []uint {
	return deriveUnionLT5(a, b)
}

func IntersectlT5(a []uint, b []uint) []uint {
	return deriveIntersectLT5(a, b)
}

func UnionmT5(a map[uint]struct{}, b map[uint]struct{}) map[uint]struct{} {
	return deriveUnionMT5(a, b)
}

func IntersectmT5(a map[uint]struct{}, b map[uint]struct{}) map[uint]struct{} {
	return deriveIntersectMT5(a, b)
}

func FilterT5(pred func(uint) bool, l []uint) []uint {
	return deriveFilterT5(pred, l)
}

func TakewhileT5(pred func(uint) bool, l []uint) []uint {
	return deriveTakeWhileT5(pred, l)
}

func AllT5(pred func(uint) bool, l []uint) bool {
	return deriveAllT5(pred, l)
}

func AnyT5(pred func(uint) bool, l []uint) bool {
	return deriveAnyT5(pred, l)
}

func EqualT6(a map[ext.Key]string, b map[ext.Key]string) bool {
	return deriveEqualT6(a, b)
}

func ContainsT6(l []map[ext.Key]string, x map[ext.Key]string) bool {
	return deriveContainsT6(l, x)
}

func UniqueT6(l []map[ext.Key]string) []map[ext.Key]string {
	return deriveUniqueT6(l)
}

func UnionlT6(a []map[ext.Key]string, b []map[ext.Key]string) []map[ext.Key]string {
	return deriveUnionLT6(a, b)
}

func IntersectlT6(a []map[ext.Key]string, b []map[ext.Key]string) []map[ext.Key]string {
	return deriveIntersectLT6(a, b)
}

func FilterT6(pred func(map[ext.Key]string) bool, l []map[ext.Key]string) []map[ext.Key]string {
	return deriveFilterT6(pred, l)
}

func TakewhileT6(pred func(map[ext.Key]string) bool, l []map[ext.Key]string) []map[ext.Key]string {
	return deriveTakeWhileT6(pred, l)
}

func AllT6(pred func(map[ext.Key]string) bool, l []map[ext.Key]string) bool {
	return deriveAllT6(pred, l)
}

func AnyT6(pred func(map[ext.Key]string) bool, l []map[ext.Key]string) bool {
	return deriveAnyT6(pred, l)
}

func EqualT7(a [1]string, b [1]string) bool {
	return deriveEqualT7(a, b)
}

func ContainsT7(l [][1]string, x [1]string) bool {
	return deriveContainsT7(l, x)
}

func UniqueT7(l [][1]string) [][1]string {
	return deriveUniqueT7(l)
}

func SetT7(l [][1]string) map[[1]string]struct{} {
	return deriveSetT7(l)
}

func UnionlT7(a [][1]string, b [][1]string) [][1]string {
	return deriveUnionLT7(a, b)
}

func IntersectlT7(a [][1]string, b [][1]string) [][1]string {
	return deriveIntersectLT7(a, b)
}

func UnionmT7(a map[[1]string]struct{}, b map[[1]string]struct{}) map[[1]string]struct{} {
	return deriveUnionMT7(a, b)
}

func IntersectmT7(a map[[1]string]struct{}, b map[[1]string]struct{}) map[[1]string]struct{} {
	return deriveIntersectMT7(a, b)
}

func FilterT7(pred func([1]string) bool, l [][1]string) [][1]string {
	return deriveFilterT7(pred, l)
}

func TakewhileT7(pred func([1]string) bool, l [][1]string) [][1]string {
	return deriveTakeWhileT7(pred, l)
}

func AllT7(pred func([1]string) bool, l [][1]string) bool {
	return deriveAllT7(pred, l)
}

func AnyT7(pred func([1]string) bool, l [][1]string) bool {
	return deriveAnyT7(pred, l)
}

func EqualT8(a *K0, b *K0) bool {
	return deriveEqualT8(a, b)
}

func ContainsT8(l []*K0, x *K0) bool {
	return deriveContainsT8(l, x)
}

func UniqueT8(l []*K0) []*K0 {
	return deriveUniqueT8(l)
}

func UnionlT8(a []*K0, b []*K0) []*K0 {
	return deriveUnionLT8(a, b)
}

func IntersectlT8(a []*K0, b []*K0) []*K0 {
	return deriveIntersectLT8(a, b)
}

func FilterT8(pred func(*K0) bool, l []*K0) []*K0 {
	return deriveFilterT8(pred, l)
}

func TakewhileT8(pred func(*K0) bool, l []*K0) []*K0 {
	return deriveTakeWhileT8(pred, l)
}

func AllT8(pred func(*K0) bool, l []*K0) bool {
	return deriveAllT8(pred, l)
}

func AnyT8(pred func(*K0) bool, l []*K0) bool {
	return deriveAnyT8(pred, l)
}

func EqualT9(a int8, b int8) bool {
	return deriveEqualT9(a, b)
}

func ContainsT9(l []int8, x int8) bool {
	return deriveContainsT9(l, x)
}

func UniqueT9(l []int8) []int8 {
	return deriveUniqueT9(l)
}

func SetT9(l []int8) map[int8]struct{} {
	return deriveSetT9(l)
}

func UnionlT9(a []int8, b []int8) []int8 {
	return deriveUnionLT9(a, b)
}

func IntersectlT9(a []int8, b []int8) []int8 {
	return deriveIntersectLT9(a, b)
}

func UnionmT9(a map[int8]struct{}, b map[int8]struct{}) map[int8]struct{} {
	return deriveUnionMT9(a, b)
}

func IntersectmT9(a map[int8]struct{}, b map[int8]struct{}) map[int8]struct{} {
	return deriveIntersectMT9(a, b)
}

func FilterT9(pred func(int8) bool, l []int8) []int8 {
	return deriveFilterT9(pred, l)
}

func TakewhileT9(pred func(int8) bool, l []int8) []int8 {
	return deriveTakeWhileT9(pred, l)
}

func AllT9(pred func(int8) bool, l []int8) bool {
	return deriveAllT9(pred, l)
}

func AnyT9(pred func(int8) bool, l []int8) bool {
	return deriveAnyT9(pred, l)
}

func EqualT10(a map[MyI64]ext.E0, b map[MyI64]ext.E0) bool {
	return deriveEqualT10(a, b)
}

func ContainsT10(l []map[MyI64]ext.E0, x map[MyI64]ext.E0) bool {
	return deriveContainsT10(l, x)
}

func UniqueT10(l []map[MyI64]ext.E0) []map[MyI64]ext.E0 {
	return deriveUniqueT10(l)
}

func UnionlT10(a []map[MyI64]ext.E0, b []map[MyI64]ext.E0) []map[MyI64]ext.E0 {
	return deriveUnionLT10(a, b)
}

func IntersectlT10(a []map[MyI64]ext.E0, b []map[MyI64]ext.E0) []map[MyI64]ext.E0 {
	return deriveIntersectLT10(a, b)
}

func FilterT10(pred func(map[MyI64]ext.E0) bool, l []map[MyI64]ext.E0) []map[MyI64]ext.E0 {
	return deriveFilterT10(pred, l)
}

func TakewhileT10(pred func(map[MyI64]ext.E0) bool, l []map[MyI64]ext.E0) []map[MyI64]ext.E0 {
	return deriveTakeWhileT10(pred, l)
}

func AllT10(pred func(map[MyI64]ext.E0) bool, l []map[MyI64]ext.E0) bool {
	return deriveAllT10(pred, l)
}

func AnyT10(pred func(map[MyI64]ext.E0) bool, l []map[MyI64]ext.E0) bool {
	return deriveAnyT10(pred, l)
}

func EqualT11(a complex128, b complex128) bool {
	return deriveEqualT11(a, b)
}

func ContainsT11(l []complex128, x complex128) bool {
	return deriveContainsT11(l, x)
}

func UniqueT11(l []complex128) []complex128 {
	return deriveUniqueT11(l)
}

func SetT11(l []complex128) map[complex128]struct{} {
	return deriveSetT11(l)
}

func UnionlT11(a []complex128, b []complex128) []complex128 {
	return deriveUnionLT11(a, b)
}

func IntersectlT11(a []complex128, b []complex128) []complex128 {
	return deriveIntersectLT11(a, b)
}

func UnionmT11(a map[complex128]struct{}, b map[complex128]struct{}) map[complex128]struct{} {
	return deriveUnionMT11(a, b)
}

func IntersectmT11(a map[complex128]struct{}, b map[complex128]struct{}) map[complex128]struct{} {
	return deriveIntersectMT11(a, b)
}

func FilterT11(pred func(complex128) bool, l []complex128) []complex128 {
	return deriveFilterT11(pred, l)
}

func TakewhileT11(pred func(complex128) bool, l []complex128) []complex128 {
	return deriveTakeWhileT11(pred, l)
}

func AllT11(pred func(complex128) bool, l []complex128) bool {
	return deriveAllT11(pred, l)
}

func AnyT11(pred func(complex128) bool, l []complex128) bool {
	return deriveAnyT11(pred, l)
}

func EqualT12(a []uintptr, b []uintptr) bool {
	return deriveEqualT12(a, b)
}

func ContainsT12(l [][]uintptr, x []uintptr) bool {
	return deriveContainsT12(l, x)
}

func UniqueT12(l [][]uintptr) [][]uintptr {
	return deriveUniqueT12(l)
}

func UnionlT12(a [][]uintptr, b [][]uintptr) [][]uintptr {
	return deriveUnionLT12(a, b)
}

func IntersectlT12(a [][]uintptr, b [][]uintptr) [][]uintptr {
	return deriveIntersectLT12(a, b)
}

func FilterT12(pred func([]uintptr) bool, l [][]uintptr) [][]uintptr {
	return deriveFilterT12(pred, l)
}

func TakewhileT12(pred func([]uintptr) bool, l [][]uintptr) [][]uintptr {
	return deriveTakeWhileT12(pred, l)
}

func AllT12(pred func([]uintptr) bool, l [][]uintptr) bool {
	return deriveAllT12(pred, l)
}

func AnyT12(pred func([]uintptr) bool, l [][]uintptr) bool {
	return deriveAnyT12(pred, l)
}

func EqualT13(a uintptr, b uintptr) bool {
	return deriveEqualT13(a, b)
}

func ContainsT13(l []uintptr, x uintptr) bool {
	return deriveContainsT13(l, x)
}

func UniqueT13(l []uintptr) []uintptr {
	return deriveUniqueT13(l)
}

func SetT13(l []uintptr) map[uintptr]struct{} {
	return deriveSetT13(l)
}

func UnionlT13(a []uintptr, b []uintptr) []uintptr {
	return deriveUnionLT13(a, b)
}

func IntersectlT13(a []uintptr, b []uintptr) []uintptr {
	return deriveIntersectLT13(a, b)
}

func UnionmT13(a map[uintptr]struct{}, b map[uintptr]struct{}) map[uintptr]struct{} {
	return deriveUnionMT13(a, b)
}

func IntersectmT13(a map[uintptr]struct{}, b map[uintptr]struct{}) map[uintptr]struct{} {
	return deriveIntersectMT13(a, b)
}

func FilterT13(pred func(uintptr) bool, l []uintptr) []uintptr {
	return deriveFilterT13(pred, l)
}

func TakewhileT13(pred func(uintptr) bool, l []uintptr) []uintptr {
	return deriveTakeWhileT13(pred, l)
}

func AllT13(pred func(uintptr) bool, l []uintptr) bool {
	return deriveAllT13(pred, l)
}

func AnyT13(pred func(uintptr) bool, l []uintptr) bool {
	return deriveAnyT13(pred, l)
}
