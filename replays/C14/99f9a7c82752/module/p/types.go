package p

type MyF float64

type MyI64 int64

type MyU uint

type K0 struct {
}

type S0 struct {
}
