package ext

import (
	ext "subj/ext1"
)

type Num int

type Key struct {
	K0 byte
	K1 float32
	k2 bool
}

type E0 struct {
	f0 *ext.Num
	F1 Key
}

type E1 struct {
	f0 Num
	F1 []byte
	f2 [2]ext.Key
	F3 []byte
}
