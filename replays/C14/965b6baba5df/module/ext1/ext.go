package ext

type Num int64

type Key struct {
	K0 Num
	K1 int
	k2 Num
}

type E0 struct {
}

type E1 struct {
	F0 E0
	F1 map[float32]E0
	f2 [1][]byte
}
