package p

import (
	ext "subj/ext1"
	ext2 "subj/x/ext"
)

type MyStr string

type MyU8 uint8

type MyF32 float32

type MyInt int

type N0 []int16

type N1 [3]ext2.Num

type N2 [][]int

type K0 struct {
	f0 complex128
}

type K1 struct {
	f0 rune
	f1 ext2.Num
	F2 MyU8
}

type S0 struct {
	f0 ext2.E0
	f1 *[][]S0
}

type S1 struct {
	f0 float32
}

type S2 struct {
	F0 int
	F1 map[MyU8]uint
	F2 map[ext.Num]uint32
	F3 *S2
}

type S3 struct {
	f0 map[MyU8]float32
	F1 ext.Num
	F2 map[ext2.Num]ext.Num
	F3 *S3
}
