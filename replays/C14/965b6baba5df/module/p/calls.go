package p

var Anchor = 0

func EqualT0(a *K0, b *K0) bool {
	return deriveEqualT0(a, b)
}

func ContainsT0(l []*K0, x *K0) bool {
	return deriveContainsT0(l, x)
}

func UniqueT0(l []*K0) []*K0 {
	return deriveUniqueT0(l)
}

func UnionlT0(a []*K0, b []*K0) []*K0 {
	return deriveUnionLT0(a, b)
}

func IntersectlT0(a []*K0, b []*K0) []*K0 {
	return deriveIntersectLT0(a, b)
}

func FilterT0(pred func(*K0) bool, l []*K0) []*K0 {
	return deriveFilterT0(pred, l)
}

func TakewhileT0(pred func(*K0) bool, l []*K0) []*K0 {
	return deriveTakeWhileT0(pred, l)
}

func AllT0(pred func(*K0) bool, l []*K0) bool {
	return deriveAllT0(pred, l)
}

func AnyT0(pred func(*K0) bool, l []*K0) bool {
	return deriveAnyT0(pred, l)
}

func EqualT1(a *K1, b *K1) bool {
	return deriveEqualT1(a, b)
}

func ContainsT1(l []*K1, x *K1) bool {
	return deriveContainsT1(l, x)
}

func UniqueT1(l []*K1) []*K1 {
	return deriveUniqueT1(l)
}

func UnionlT1(a []*K1, b []*K1) []*K1 {
	return deriveUnionLT1(a, b)
}

func IntersectlT1(a []*K1, b []*K1) []*K1 {
	return deriveIntersectLT1(a, b)
}

func FilterT1(pred func(*K1) bool, l []*K1) []*K1 {
	return deriveFilterT1(pred, l)
}

func TakewhileT1(pred func(*K1) bool, l []*K1) []*K1 {
	return deriveTakeWhileT1(pred, l)
}

func AllT1(pred func(*K1) bool, l []*K1) bool {
	return deriveAllT1(pred, l)
}

func AnyT1(pred func(*K1) bool, l []*K1) bool {
	return deriveAnyT1(pred, l)
}

func EqualT2(a S0, b S0) bool {
	return deriveEqualT2(a, b)
}

func ContainsT2(l []S0, x S0) bool {
	return deriveContainsT2(l, x)
}

func UniqueT2(l []S0) []S0 {
	return deriveUniqueT2(l)
}

func UnionlT2(a []S0, b []S0) []S0 {
	return deriveUnionLT2(a, b)
}

func IntersectlT2(a []S0, b []S0) []S0 {
	return deriveIntersectLT2(a, b)
}

func FilterT2(pred func(S0) bool, l []S0) []S0 {
	return deriveFilterT2(pred, l)
}

func TakewhileT2(pred func(S0) bool, l []S0) []S0 {
	return deriveTakeWhileT2(pred, l)
}

func AllT2(pred func(S0) bool, l []S0) bool {
	return deriveAllT2(pred, l)
}

func AnyT2(pred func(S0) bool, l []S0) bool {
	return deriveAnyT2(pred, l)
}

func EqualT3(a uint16, b uint16) bool {
	return deriveEqualT3(a, b)
}

func ContainsT3(l []uint16, x uint16) bool {
	return deriveContainsT3(l, x)
}

func UniqueT3(l []uint16) []uint16 {
	return deriveUniqueT3(l)
}

func SetT3(l []uint16) map[uint16]struct{} {
	return deriveSetT3(l)
}

func UnionlT3(a []uint16, b []uint16) []uint16 {
	return deriveUnionLT3(a, b)
}

func IntersectlT3(a []uint16, b []uint16) []uint16 {
	return deriveIntersectLT3(a, b)
}

func UnionmT3(a map[uint16]struct{}, b map[uint16]struct{}) map[uint16]struct{} {
	return deriveUnionMT3(a, b)
}

func IntersectmT3(a map[uint16]struct{}, b map[uint16]struct{}) map[uint16]struct{} {
	return deriveIntersectMT3(a, b)
}

func FilterT3(pred func(uint16) bool, l []uint16) []uint16 {
	return deriveFilterT3(pred, l)
}

func TakewhileT3(pred func(uint16) bool, l []uint16) []uint16 {
	return deriveTakeWhileT3(pred, l)
}

func AllT3(pred func(uint16) bool, l []uint16) bool {
	return deriveAllT3(pred, l)
}

func AnyT3(pred func(uint16) bool, l []uint16) bool {
	return deriveAnyT3(pred, l)
}

func EqualT4(a *S2, b *S2) bool {
	return deriveEqualT4(a, b)
}

func ContainsT4(l []*S2, x *S2) bool {
	return deriveContainsT4(l, x)
}

func UniqueT4(l []*S2) []*S2 {
	return deriveUniqueT4(l)
}

func UnionlT4(a []*S2, b []*S2) []*S2 {
	return deriveUnionLT4(a, b)
}

func IntersectlT4(a []*S2, b []*S2) []*S2 {
	return deriveIntersectLT4(a, b)
}

func FilterT4(pred func(*S2) bool, l []*S2) []*S2 {
	return deriveFilterT4(pred, l)
}

func TakewhileT4(pred func(*S2) bool, l []*S2) []*S2 {
	return deriveTakeWhileT4(pred, l)
}

func AllT4(pred func(*S2) bool, l []*S2) bool {
	return deriveAllT4(pred, l)
}

func AnyT4(pred func(*S2) bool, l []*S2) bool {
	return deriveAnyT4(pred, l)
}

func EqualT5(a *S3, b *S3) bool {
	return deriveEqualT5(a, b)
}

func ContainsT5(l []*S3, x *S3) bool {
	return deriveContainsT5(l, x)
}

func UniqueT5(l []*S3) []*S3 {
	return deriveUniqueT5(l)
}

func UnionlT5(a []*S3, b []*S3) []*S3 {
	return deriveUnionLT5(a, b)
}

func IntersectlT5(a []*S3, b []*S3) []*S3 {
	return deriveIntersectLT5(a, b)
}

func FilterT5(pred func(*S3) bool, l []*S3) []*S3 {
	return deriveFilterT5(pred, l)
}

func TakewhileT5(pred func(*S3) bool, l []*S3) []*S3 {
	return deriveTakeWhileT5(pred, l)
}

func AllT5(pred func(*S3) bool, l []*S3) bool {
	return deriveAllT5(pred, l)
}

func AnyT5(pred func(*S3) bool, l []*S3) bool {
	return deriveAnyT5(pred, l)
}

func EqualT6(a *[]K0, b *[]K0) bool {
	return deriveEqualT6(a, b)
}

func ContainsT6(l []*[]K0, x *[]K0) bool {
	return deriveContainsT6(l, x)
}

func UniqueT6(l []*[]K0) []*[]K0 {
	return deriveUniqueT6(l)
}

func UnionlT6(a []*[]K0, b []*[]K0) []*[]K0 {
	return deriveUnionLT6(a, b)
}

func IntersectlT6(a []*[]K0, b []*[]K0) []*[]K0 {
	return deriveIntersectLT6(a, b)
}

func FilterT6(pred func(*[]K0) bool, l []*[]K0) []*[]K0 {
	return deriveFilterT6(pred, l)
}

func TakewhileT6(pred func(*[]K0) bool, l []*[]K0) []*[]K0 {
	return deriveTakeWhileT6(pred, l)
}

func AllT6(pred func(*[]K0) bool, l []*[]K0) bool {
	return deriveAllT6(pred, l)
}

func AnyT6(pred func(*[]K0) bool, l []*[]K0) bool {
	return deriveAnyT6(pred, l)
}

func EqualT7(a map[int32]S1, b map[int32]S1) bool {
	return deriveEqualT7(a, b)
}

func ContainsT7(l []map[int32]S1, x map[int32]S1) bool {
	return deriveContainsT7(l, x)
}

func UniqueT7(l []map[int32]S1) []map[int32]S1 {
	return deriveUniqueT7(l)
}

func UnionlT7(a []map[int32]S1, b []map[int32]S1) []map[int32]S1 {
	return deriveUnionLT7(a, b)
}

func IntersectlT7(a []map[int32]S1, b []map[int32]S1) []map[int32]S1 {
	return deriveIntersectLT7(a, b)
}

func FilterT7(pred func(map[int32]S1) bool, l []map[int32]S1) []map[int32]S1 {
	return deriveFilterT7(pred, l)
}

func TakewhileT7(pred func(map[int32]S1) bool, l []map[int32]S1) []map[int32]S1 {
	return deriveTakeWhileT7(pred, l)
}

func AllT7(pred func(map[int32]S1) bool, l []map[int32]S1) bool {
	return deriveAllT7(pred, l)
}

func AnyT7(pred func(map[int32]S1) bool, l []map[int32]S1) bool {
	return deriveAnyT7(pred, l)
}

func EqualT8(a uint, b uint) bool {
	return deriveEqualT8(a, b)
}

func ContainsT8(l []uint, x uint) bool {
	return deriveContainsT8(l, x)
}

func UniqueT8(l []uint) []uint {
	return deriveUniqueT8(l)
}

func SetT8(l []uint) map[uint]struct{} {
	return deriveSetT8(l)
}

func UnionlT8(a []uint, b []uint) []uint {
	return deriveUnionLT8(a, b)
}

func IntersectlT8(a []uint, b []uint) []uint {
	return deriveIntersectLT8(a, b)
}

func UnionmT8(a map[uint]struct{}, b map[uint]struct{}) map[uint]struct{} {
	return deriveUnionMT8(a, b)
}

func IntersectmT8(a map[uint]struct{}, b map[uint]struct{}) map[uint]struct{} {
	return deriveIntersectMT8(a, b)
}

func FilterT8(pred func(uint) bool, l []uint) []uint {
	return deriveFilterT8(pred, l)
}

func TakewhileT8(pred func(uint) bool, l []uint) []uint {
	return deriveTakeWhileT8(pred, l)
}

func AllT8(pred func(uint) bool, l []uint) bool {
	return deriveAllT8(pred, l)
}

func AnyT8(pred func(uint) bool, l []uint) bool {
	return deriveAnyT8(pred, l)
}

func EqualT9(a *int, b *int) bool {
	return deriveEqualT9(a, b)
}

func ContainsT9(l []*int, x *int) bool {
	return deriveContainsT9(l, x)
}

func UniqueT9(l []*int) []*int {
	return deriveUniqueT9(l)
}

func UnionlT9(a []*int, b []*int) []*int {
	return deriveUnionLT9(a, b)
}

func IntersectlT9(a []*int, b []*int) []*int {
	return deriveIntersectLT9(a, b)
}

func FilterT9(pred func(*int) bool, l []*int) []*int {
	return deriveFilterT9(pred, l)
}

func TakewhileT9(pred func(*int) bool, l []*int) []*int {
	return deriveTakeWhileT9(pred, l)
}

func AllT9(pred func(*int) bool, l []*int) bool {
	return deriveAllT9(pred, l)
}

func AnyT9(pred func(*int) bool, l []*int) bool {
	return deriveAnyT9(pred, l)
}

func EqualT10(a *S0, b *S0) bool {
	return deriveEqualT10(a, b)
}

func ContainsT10(l []*S0, x *S0) bool {
	return deriveContainsT10(l, x)
}

func UniqueT10(l []*S0) []*S0 {
	return deriveUniqueT10(l)
}

func UnionlT10(a []*S0, b []*S0) []*S0 {
	return deriveUnionLT10(a, b)
}

func IntersectlT10(a []*S0, b []*S0) []*S0 {
	return deriveIntersectLT10(a, b)
}

func FilterT10(pred func(*S0) bool, l []*S0) []*S0 {
	return deriveFilterT10(pred, l)
}

func TakewhileT10(pred func(*S0) bool, l []*S0) []*S0 {
	return deriveTakeWhileT10(pred, l)
}

func AllT10(pred func(*S0) bool, l []*S0) bool {
	return deriveAllT10(pred, l)
}

func AnyT10(pred func(*S0) bool, l []*S0) bool {
	return deriveAnyT10(pred, l)
}

func EqualT11(a string, b string) bool {
	return deriveEqualT11(a, b)
}

func ContainsT11(l []string, x string) bool {
	return deriveContainsT11(l, x)
}

func UniqueT11(l []string) []string {
	return deriveUniqueT11(l)
}

func SetT11(l []string) map[string]struct{} {
	return deriveSetT11(l)
}

func UnionlT11(a []string, b []string) []string {
	return deriveUnionLT11(a, b)
}

func IntersectlT11(a []string, b []string) []string {
	return deriveIntersectLT11(a, b)
}

func UnionmT11(a map[string]struct{}, b map[string]struct{}) map[string]struct{} {
	return deriveUnionMT11(a, b)
}

func IntersectmT11(a map[string]struct{}, b map[string]struct{}) map[string]struct{} {
	return deriveIntersectMT11(a, b)
}

func FilterT11(pred func(string) bool, l []string) []string {
	return deriveFilterT11(pred, l)
}

func TakewhileT11(pred func(string) bool, l []string) []string {
	return deriveTakeWhileT11(pred, l)
}

func AllT11(pred func(string) bool, l []string) bool {
	return deriveAllT11(pred, l)
}

func AnyT11(pred func(string) bool, l []string) bool {
	return deriveAnyT11(pred, l)
}

func EqualT12(a map[uint16]K0, b map[uint16]K0) bool {
	return deriveEqualT12(a, b)
}

func ContainsT12(l []map[uint16]K0, x map[uint16]K0) bool {
	return deriveContainsT12(l, x)
}

func UniqueT12(l []map[uint16]K0) []map[uint16]K0 {
	return deriveUniqueT12(l)
}

func UnionlT12(a []map[uint16]K0, b []map[uint16]K0) []map[uint16]K0 {
	return deriveUnionLT12(a, b)
}

func IntersectlT12(a []map[uint16]K0, b []map[uint16]K0) []map[uint16]K0 {
	return deriveIntersectLT12(a, b)
}

func FilterT12(pred func(map[uint16]K0) bool, l []map[uint16]K0) []map[uint16]K0 {
	return deriveFilterT12(pred, l)
}

func TakewhileT12(pred func(map[uint16]K0) bool, l []map[uint16]K0) []map[uint16]K0 {
	return deriveTakeWhileT12(pred, l)
}

func AllT12(pred func(map[uint16]K0) bool, l []map[uint16]K0) bool {
	return deriveAllT12(pred, l)
}

func AnyT12(pred func(map[uint16]K0) bool, l []map[uint16]K0) bool {
	return deriveAnyT12(pred, l)
}

func EqualT13(a int16, b int16) bool {
	return deriveEqualT13(a, b)
}

func ContainsT13(l []int16, x int16) bool {
	return deriveContainsT13(l, x)
}

func UniqueT13(l []int16) []int16 {
	return deriveUniqueT13(l)
}

func SetT13(l []int16) map[int16]struct{} {
	return deriveSetT13(l)
}

func UnionlT13(a []int16, b []int16) []int16 {
	return deriveUnionLT13(a, b)
}

func IntersectlT13(a []int16, b []int16) []int16 {
	return deriveIntersectLT13(a, b)
}

func UnionmT13(a map[int16]struct{}, b map[int16]struct{}) map[int16]struct{} {
	return deriveUnionMT13(a, b)
}

func IntersectmT13(a map[int16]struct{}, b map[int16]struct{}) map[int16]struct{} {
	return deriveIntersectMT13(a, b)
}

func FilterT13(pred func(int16) bool, l []int16) []int16 {
	return deriveFilterT13(pred, l)
}

func TakewhileT13(pred func(int16) bool, l []int16) []int16 {
	return deriveTakeWhileT13(pred, l)
}

func AllT13(pred func(int16) bool, l []int16) bool {
	return deriveAllT13(pred, l)
}

func AnyT13(pred func(int16) bool, l []int16) bool {
	return deriveAnyT13(pred, l)
}
