package ext

type Num string

type Key struct {
	K0 Num
	k1 int64
}

type E0 struct {
	F0 int8
	f1 []byte
}

type E1 struct {
	F0 Num
}
