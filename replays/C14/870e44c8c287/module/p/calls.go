package p

import (
	ext "subj/ext1"
)

var Anchor = 0

func EqualT0(a K0, b K0) bool {
	return deriveEqualT0(a, b)
}

func ContainsT0(l []K0, x K0) bool {
	return deriveContainsT0(l, x)
}

func UniqueT0(l []K0) []K0 {
	return deriveUniqueT0(l)
}

func SetT0(l []K0) map[K0]struct{} {
	return deriveSetT0(l)
}

func UnionlT0(a []K0, b []K0) []K0 {
	return deriveUnionLT0(a, b)
}

func IntersectlT0(a []K0, b []K0) []K0 {
	return deriveIntersectLT0(a, b)
}

func UnionmT0(a map[K0]struct{}, b map[K0]struct{}) map[K0]struct{} {
	return deriveUnionMT0(a, b)
}

func IntersectmT0(a map[K0]struct{}, b map[K0]struct{}) map[K0]struct{} {
	return deriveIntersectMT0(a, b)
}

func FilterT0(pred func(K0) bool, l []K0) []K0 {
	return deriveFilterT0(pred, l)
}

func TakewhileT0(pred func(K0) bool, l []K0) []K0 {
	return deriveTakeWhileT0(pred, l)
}

func AllT0(pred func(K0) bool, l []K0) bool {
	return deriveAllT0(pred, l)
}

func AnyT0(pred func(K0) bool, l []K0) bool {
	return deriveAnyT0(pred, l)
}

func EqualT1(a *K0, b *K0) bool {
	return deriveEqualT1(a, b)
}

func ContainsT1(l []*K0, x *K0) bool {
	return deriveContainsT1(l, x)
}

func UniqueT1(l []*K0) []*K0 {
	return deriveUniqueT1(l)
}

func UnionlT1(a []*K0, b []*K0) []*K0 {
	return deriveUnionLT1(a, b)
}

func IntersectlT1(a []*K0, b []*K0) []*K0 {
	return deriveIntersectLT1(a, b)
}

func FilterT1(pred func(*K0) bool, l []*K0) []*K0 {
	return deriveFilterT1(pred, l)
}

func TakewhileT1(pred func(*K0) bool, l []*K0) []*K0 {
	return deriveTakeWhileT1(pred, l)
}

func AllT1(pred func(*K0) bool, l []*K0) bool {
	return deriveAllT1(pred, l)
}

func AnyT1(pred func(*K0) bool, l []*K0) bool {
	return deriveAnyT1(pred, l)
}

func EqualT2(a MyU8, b MyU8) bool {
	return deriveEqualT2(a, b)
}

func ContainsT2(l []MyU8, x MyU8) bool {
	return deriveContainsT2(l, x)
}

func UniqueT2(l []MyU8) []MyU8 {
	return deriveUniqueT2(l)
}

func SetT2(l []MyU8) map[MyU8]struct{} {
	return deriveSetT2(l)
}

func UnionlT2(a []MyU8, b []MyU8) []MyU8 {
	return deriveUnionLT2(a, b)
}

func IntersectlT2(a []MyU8, b []MyU8) []MyU8 {
	return deriveIntersectLT2(a, b)
}

func UnionmT2(a map[MyU8]struct{}, b map[MyU8]struct{}) map[MyU8]struct{} {
	return deriveUnionMT2(a, b)
}

func IntersectmT2(a map[MyU8]struct{}, b map[MyU8]struct{}) map[MyU8]struct{} {
	return deriveIntersectMT2(a, b)
}

func FilterT2(pred func(MyU8) bool, l []MyU8) []MyU8 {
	return deriveFilterT2(pred, l)
}

func TakewhileT2(pred func(MyU8) bool, l []MyU8) []MyU8 {
	return deriveTakeWhileT2(pred, l)
}

func AllT2(pred func(MyU8) bool, l []MyU8) bool {
	return deriveAllT2(pred, l)
}

func AnyT2(pred func(MyU8) bool, l []MyU8) bool {
	return deriveAnyT2(pred, l)
}

func EqualT3(a int, b int) bool {
	return deriveEqualT3(a, b)
}

func ContainsT3(l []int, x int) bool {
	return deriveContainsT3(l, x)
}

func UniqueT3(l []int) []int {
	return deriveUniqueT3(l)
}

func SetT3(l []int) map[int]struct{} {
	return deriveSetT3(l)
}

func UnionlT3(a []int, b []int) []int {
	return deriveUnionLT3(a, b)
}

func IntersectlT3(a []int, b []int) []int {
	return deriveIntersectLT3(a, b)
}

func UnionmT3(a map[int]struct{}, b map[int]struct{}) map[int]struct{} {
	return deriveUnionMT3(a, b)
}

func IntersectmT3(a map[int]struct{}, b map[int]struct{}) map[int]struct{} {
	return deriveIntersectMT3(a, b)
}

func FilterT3(pred func(int) bool, l []int) []int {
	return deriveFilterT3(pred, l)
}

func TakewhileT3(pred func(int) bool, l []int) []int {
	return deriveTakeWhileT3(pred, l)
}

func AllT3(pred func(int) bool, l []int) bool {
	return deriveAllT3(pred, l)
}

func AnyT3(pred func(int) bool, l []int) bool {
	return deriveAnyT3(pred, l)
}

func EqualT4(a string, b string) bool {
	return deriveEqualT4(a, b)
}

func ContainsT4(l []string, x string) bool {
	return deriveContainsT4(l, x)
}

func UniqueT4(l []string) []string {
	return deriveUniqueT4(l)
}

func SetT4(l []string) map[string]struct{} {
	return deriveSetT4(l)
}

func UnionlT4(a []string, b []string) []string {
	return deriveUnionLT4(a, b)
}

func IntersectlT4(a []string, b []string) []string {
	return deriveIntersectLT4(a, b)
}

func UnionmT4(a map[string]struct{}, b map[string]struct{}) map[string]struct{} {
	return deriveUnionMT4(a, b)
}

func IntersectmT4(a map[string]struct{}, b map[string]struct{}) map[string]struct{} {
	return deriveIntersectMT4(a, b)
}

func FilterT4(pred func(string) bool, l []string) []string {
	return deriveFilterT4(pred, l)
}

func TakewhileT4(pred func(string) bool, l []string) []string {
	return deriveTakeWhileT4(pred, l)
}

func AllT4(pred func(string) bool, l []string) bool {
	return deriveAllT4(pred, l)
}

func AnyT4(pred func(string) bool, l []string) bool {
	return deriveAnyT4(pred, l)
}

func EqualT5(a int16, b int16) bool {
	return deriveEqualT5(a, b)
}

func ContainsT5(l []int16, x int16) bool {
	return deriveContainsT5(l, x)
}

func UniqueT5(l []int16) []int16 {
	return deriveUniqueT5(l)
}

func SetT5(l []int16) map[int16]struct{} {
	return deriveSetT5(l)
}

func UnionlT5(a []int16, b []int16) []int16 {
	return deriveUnionLT5(a, b)
}

func IntersectlT5(a []int16, b []int16) []int16 {
	return deriveIntersectLT5(a, b)
}

func UnionmT5(a map[int16]struct{}, b map[int16]struct{}) map[int16]struct{} {
	return deriveUnionMT5(a, b)
}

func IntersectmT5(a map[int16]struct{}, b map[int16]struct{}) map[int16]struct{} {
	return deriveIntersectMT5(a, b)
}

func FilterT5(pred func(int16) bool, l []int16) []int16 {
	return deriveFilterT5(pred, l)
}

func TakewhileT5(pred func(int16) bool, l []int16) []int16 {
	return deriveTakeWhileT5(pred, l)
}

func AllT5(pred func(int16) bool, l []int16) bool {
	return deriveAllT5(pred, l)
}

func AnyT5(pred func(int16) bool, l []int16) bool {
	return deriveAnyT5(pred, l)
}

func EqualT6(a bool, b bool) bool {
	return deriveEqualT6(a, b)
}

func ContainsT6(l []bool, x bool) bool {
	return deriveContainsT6(l, x)
}

func UniqueT6(l []bool) []bool {
	return deriveUniqueT6(l)
}

func SetT6(l []bool) map[bool]struct{} {
	return deriveSetT6(l)
}

func UnionlT6(a []bool, b []bool) []bool {
	return deriveUnionLT6(a, b)
}

func IntersectlT6(a []bool, b []bool) []bool {
	return deriveIntersectLT6(a, b)
}

func UnionmT6(a map[bool]struct{}, b map[bool]struct{}) map[bool]struct{} {
	return deriveUnionMT6(a, b)
}

func IntersectmT6(a map[bool]struct{}, b map[bool]struct{}) map[bool]struct{} {
	return deriveIntersectMT6(a, b)
}

func FilterT6(pred func(bool) bool, l []bool) []bool {
	return deriveFilterT6(pred, l)
}

func TakewhileT6(pred func(bool) bool, l []bool) []bool {
	return deriveTakeWhileT6(pred, l)
}

func AllT6(pred func(bool) bool, l []bool) bool {
	return deriveAllT6(pred, l)
}

func AnyT6(pred func(bool) bool, l []bool) bool {
	return deriveAnyT6(pred, l)
}

func EqualT7(a uint, b uint) bool {
	return deriveEqualT7(a, b)
}

func ContainsT7(l []uint, x uint) bool {
	return deriveContainsT7(l, x)
}

func UniqueT7(l []uint) []uint {
	return deriveUniqueT7(l)
}

func SetT7(l []uint) map[uint]struct{} {
	return deriveSetT7(l)
}

func UnionlT7(a []uint, b []uint) []uint {
	return deriveUnionLT7(a, b)
}

func IntersectlT7(a []uint, b []uint) []uint {
	return deriveIntersectLT7(a, b)
}

func UnionmT7(a map[uint]struct{}, b map[uint]struct{}) map[uint]struct{} {
	return deriveUnionMT7(a, b)
}

func IntersectmT7(a map[uint]struct{}, b map[uint]struct{}) map[uint]struct{} {
	return deriveIntersectMT7(a, b)
}

func FilterT7(pred func(uint) bool, l []uint) []uint {
	return deriveFilterT7(pred, l)
}

func TakewhileT7(pred func(uint) bool, l []uint) []uint {
	return deriveTakeWhileT7(pred, l)
}

func AllT7(pred func(uint) bool, l []uint) bool {
	return deriveAllT7(pred, l)
}

func AnyT7(pred func(uint) bool, l []uint) bool {
	return deriveAnyT7(pred, l)
}

func EqualT8(a int8, b int8) bool {
	return deriveEqualT8(a, b)
}

func ContainsT8(l []int8, x int8) bool {
	return deriveContainsT8(l, x)
}

func UniqueT8(l []int8) []int8 {
	return deriveUniqueT8(l)
}

func SetT8(l []int8) map[int8]struct{} {
	return deriveSetT8(l)
}

func UnionlT8(a []int8, b []int8) []int8 {
	return deriveUnionLT8(a, b)
}

func IntersectlT8(a []int8, b []int8) []int8 {
	return deriveIntersectLT8(a, b)
}

func UnionmT8(a map[int8]struct{}, b map[int8]struct{}) map[int8]struct{} {
	return deriveUnionMT8(a, b)
}

func IntersectmT8(a map[int8]struct{}, b map[int8]struct{}) map[int8]struct{} {
	return deriveIntersectMT8(a, b)
}

func FilterT8(pred func(int8) bool, l []int8) []int8 {
	return deriveFilterT8(pred, l)
}

func TakewhileT8(pred func(int8) bool, l []int8) []int8 {
	return deriveTakeWhileT8(pred, l)
}

func AllT8(pred func(int8) bool, l []int8) bool {
	return deriveAllT8(pred, l)
}

func AnyT8(pred func(int8) bool, l []int8) bool {
	return deriveAnyT8(pred, l)
}

func EqualT9(a int64, b int64) bool {
	return deriveEqualT9(a, b)
}

func ContainsT9(l []int64, x int64) bool {
	return deriveContainsT9(l, x)
}

func UniqueT9(l []int64) []int64 {
	return deriveUniqueT9(l)
}

func SetT9(l []int64) map[int64]struct{} {
	return deriveSetT9(l)
}

func UnionlT9(a []int64, b []int64) []int64 {
	return deriveUnionLT9(a, b)
}

func IntersectlT9(a []int64, b []int64) []int64 {
	return deriveIntersectLT9(a, b)
}

func UnionmT9(a map[int64]struct{}, b map[int64]struct{}) map[int64]struct{} {
	return deriveUnionMT9(a, b)
}

func IntersectmT9(a map[int64]struct{}, b map[int64]struct{}) map[int64]struct{} {
	return deriveIntersectMT9(a, b)
}

func FilterT9(pred func(int64) bool, l []int64) []int64 {
	return deriveFilterT9(pred, l)
}

func TakewhileT9(pred func(int64) bool, l []int64) []int64 {
	return deriveTakeWhileT9(pred, l)
}

func AllT9(pred func(int64) bool, l []int64) bool {
	return deriveAllT9(pred, l)
}

func AnyT9(pred func(int64) bool, l []int64) bool {
	return deriveAnyT9(pred, l)
}

func EqualT10(a ext.E1, b ext.E1) bool {
	return deriveEqualT10(a, b)
}

func ContainsT10(l []ext.E1, x ext.E1) bool {
	return deriveContainsT10(l, x)
}

func UniqueT10(l []ext.E1) []ext.E1 {
	return deriveUniqueT10(l)
}

func SetT10(l []ext.E1) map[ext.E1]struct{} {
	return deriveSetT10(l)
}

func UnionlT10(a []ext.E1, b []ext.E1) []ext.E1 {
	return deriveUnionLT10(a, b)
}

func IntersectlT10(a []ext.E1, b []ext.E1) []ext.E1 {
	return deriveIntersectLT10(a, b)
}

func UnionmT10(a map[ext.E1]struct{}, b map[ext.E1]struct{}) map[ext.E1]struct{} {
	return deriveUnionMT10(a, b)
}

func IntersectmT10(a map[ext.E1]struct{}, b map[ext.E1]struct{}) map[ext.E1]struct{} {
	return deriveIntersectMT10(a, b)
}

func FilterT10(pred func(ext.E1) bool, l []ext.E1) []ext.E1 {
	return deriveFilterT10(pred, l)
}

func TakewhileT10(pred func(ext.E1) bool, l []ext.E1) []ext.E1 {
	return deriveTakeWhileT10(pred, l)
}

func AllT10(pred func(ext.E1) bool, l []ext.E1) bool {
	return deriveAllT10(pred, l)
}

func AnyT10(pred func(ext.E1) bool, l []ext.E1) bool {
	return deriveAnyT10(pred, l)
}

func EqualT11(a S1, b S1) bool {
	return deriveEqualT11(a, b)
}

func ContainsT11(l []S1, x S1) bool {
	return deriveContainsT11(l, x)
}

func UniqueT11(l []S1) []S1 {
	return deriveUniqueT11(l)
}

func SetT11(l []S1) map[S1]struct{} {
	return deriveSetT11(l)
}

func UnionlT11(a []S1, b []S1) []S1 {
	return deriveUnionLT11(a, b)
}

func IntersectlT11(a []S1, b []S1) []S1 {
	return deriveIntersectLT11(a, b)
}

func UnionmT11(a map[S1]struct{}, b map[S1]struct{}) map[S1]struct{} {
	return deriveUnionMT11(a, b)
}

func IntersectmT11(a map[S1]struct{}, b map[S1]struct{}) map[S1]struct{} {
	return deriveIntersectMT11(a, b)
}

func FilterT11(pred func(S1) bool, l []S1) []S1 {
	return deriveFilterT11(pred, l)
}

func TakewhileT11(pred func(S1) bool, l []S1) []S1 {
	return deriveTakeWhileT11(pred, l)
}

func AllT11(pred func(S1) bool, l []S1) bool {
	return deriveAllT11(pred, l)
}

func AnyT11(pred func(S1) bool, l []S1) bool {
	return deriveAnyT11(pred, l)
}

func EqualT12(a []S0, b []S0) bool {
	return deriveEqualT12(a, b)
}

func ContainsT12(l [][]S0, x []S0) bool {
	return deriveContainsT12(l, x)
}

func UniqueT12(l [][]S0) [][]S0 {
	return deriveUniqueT12(l)
}

func UnionlT12(a [][]S0, b [][]S0) [][]S0 {
	return deriveUnionLT12(a, b)
}

func IntersectlT12(a [][]S0, b [][]S0) [][]S0 {
	return deriveIntersectLT12(a, b)
}

func FilterT12(pred func([]S0) bool, l [][]S0) [][]S0 {
	return deriveFilterT12(pred, l)
}

func TakewhileT12(pred func([]S0) bool, l [][]S0) [][]S0 {
	return deriveTakeWhileT12(pred, l)
}

func AllT12(pred func([]S0) bool, l [][]S0) bool {
	return deriveAllT12(pred, l)
}

func AnyT12(pred func([]S0) bool, l [][]S0) bool {
	return deriveAnyT12(pred, l)
}

func EqualT13(a rune, b rune) bool {
	return deriveEqualT13(a, b)
}

func ContainsT13(l []rune, x rune) bool {
	return deriveContainsT13(l, x)
}

func UniqueT13(l []rune) []rune {
	return deriveUniqueT13(l)
}

func SetT13(l []rune) map[rune]struct{} {
	return deriveSetT13(l)
}

func UnionlT13(a []rune, b []rune) []rune {
	return deriveUnionLT13(a, b)
}

func IntersectlT13(a []rune, b []rune) []rune {
	return deriveIntersectLT13(a, b)
}

func UnionmT13(a map[rune]struct{}, b map[rune]struct{}) map[rune]struct{} {
	return deriveUnionMT13(a, b)
}

func IntersectmT13(a map[rune]struct{}, b map[rune]struct{}) map[rune]struct{} {
	return deriveIntersectMT13(a, b)
}

func FilterT13(pred func(rune) bool, l []rune) []rune {
	return deriveFilterT13(pred, l)
}

func TakewhileT13(pred func(rune) bool, l []rune) []rune {
	return deriveTakeWhileT13(pred, l)
}

func AllT13(pred func(rune) bool, l []rune) bool {
	return deriveAllT13(pred, l)
}

func AnyT13(pred func(rune) bool, l []rune) bool {
	return deriveAnyT13(pred, l)
}
