package other

type Num uint8

type Key struct {
	K0 bool
}

type E0 struct {
	f0 bool
}
