package ext

type Num float64

type Key struct {
	k0 float64
	k1 rune
	K2 rune
}

type E0 struct {
	F0 []byte
	F1 *E0
}

type E1 struct {
	f0 *float32
	F1 uintptr
	f2 E0
	F3 []byte
}
