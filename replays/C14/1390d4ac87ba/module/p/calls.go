package p

import (
	ext "subj/ext1"
	ext2 "subj/x/ext"
)

var Anchor = 0

func EqualT0(a *K0, b *K0) bool {
	return deriveEqualT0(a, b)
}

func ContainsT0(l []*K0, x *K0) bool {
	return deriveContainsT0(l, x)
}

func UniqueT0(l []*K0) []*K0 {
	return deriveUniqueT0(l)
}

func UnionlT0(a []*K0, b []*K0) []*K0 {
	return deriveUnionLT0(a, b)
}

func IntersectlT0(a []*K0, b []*K0) []*K0 {
	return deriveIntersectLT0(a, b)
}

func FilterT0(pred func(*K0) bool, l []*K0) []*K0 {
	return deriveFilterT0(pred, l)
}

func TakewhileT0(pred func(*K0) bool, l []*K0) []*K0 {
	return deriveTakeWhileT0(pred, l)
}

func AllT0(pred func(*K0) bool, l []*K0) bool {
	return deriveAllT0(pred, l)
}

func AnyT0(pred func(*K0) bool, l []*K0) bool {
	return deriveAnyT0(pred, l)
}

func EqualT1(a S0, b S0) bool {
	return deriveEqualT1(a, b)
}

func ContainsT1(l []S0, x S0) bool {
	return deriveContainsT1(l, x)
}

func UniqueT1(l []S0) []S0 {
	return deriveUniqueT1(l)
}

func UnionlT1(a []S0, b []S0) []S0 {
	return deriveUnionLT1(a, b)
}

func IntersectlT1(a []S0, b []S0) []S0 {
	return deriveIntersectLT1(a, b)
}

func FilterT1(pred func(S0) bool, l []S0) []S0 {
	return deriveFilterT1(pred, l)
}

func TakewhileT1(pred func(S0) bool, l []S0) []S0 {
	return deriveTakeWhileT1(pred, l)
}

func AllT1(pred func(S0) bool, l []S0) bool {
	return deriveAllT1(pred, l)
}

func AnyT1(pred func(S0) bool, l []S0) bool {
	return deriveAnyT1(pred, l)
}

func EqualT2(a S1, b S1) bool {
	return deriveEqualT2(a, b)
}

func ContainsT2(l []S1, x S1) bool {
	return deriveContainsT2(l, x)
}

func UniqueT2(l []S1) []S1 {
	return deriveUniqueT2(l)
}

func UnionlT2(a []S1, b []S1) []S1 {
	return deriveUnionLT2(a, b)
}

func IntersectlT2(a []S1, b []S1) []S1 {
	return deriveIntersectLT2(a, b)
}

func FilterT2(pred func(S1) bool, l []S1) []S1 {
	return deriveFilterT2(pred, l)
}

func TakewhileT2(pred func(S1) bool, l []S1) []S1 {
	return deriveTakeWhileT2(pred, l)
}

func AllT2(pred func(S1) bool, l []S1) bool {
	return deriveAllT2(pred, l)
}

func AnyT2(pred func(S1) bool, l []S1) bool {
	return deriveAnyT2(pred, l)
}

func EqualT3(a *S2, b *S2) bool {
	return deriveEqualT3(a, b)
}

func ContainsT3(l []*S2, x *S2) bool {
	return deriveContainsT3(l, x)
}

func UniqueT3(l []*S2) []*S2 {
	return deriveUniqueT3(l)
}

func UnionlT3(a []*S2, b []*S2) []*S2 {
	return deriveUnionLT3(a, b)
}

func IntersectlT3(a []*S2, b []*S2) []*S2 {
	return deriveIntersectLT3(a, b)
}

func FilterT3(pred func(*S2) bool, l []*S2) []*S2 {
	return deriveFilterT3(pred, l)
}

func TakewhileT3(pred func(*S2) bool, l []*S2) []*S2 {
	return deriveTakeWhileT3(pred, l)
}

func AllT3(pred func(*S2) bool, l []*S2) bool {
	return deriveAllT3(pred, l)
}

func AnyT3(pred func(*S2) bool, l []*S2) bool {
	return deriveAnyT3(pred, l)
}

func EqualT4(a S3, b S3) bool {
	return deriveEqualT4(a, b)
}

func ContainsT4(l []S3, x S3) bool {
	return deriveContainsT4(l, x)
}

func UniqueT4(l []S3) []S3 {
	return deriveUniqueT4(l)
}

func UnionlT4(a []S3, b []S3) []S3 {
	return deriveUnionLT4(a, b)
}

func IntersectlT4(a []S3, b []S3) []S3 {
	return deriveIntersectLT4(a, b)
}

func FilterT4(pred func(S3) bool, l []S3) []S3 {
	return deriveFilterT4(pred, l)
}

func TakewhileT4(pred func(S3) bool, l []S3) []S3 {
	return deriveTakeWhileT4(pred, l)
}

func AllT4(pred func(S3) bool, l []S3) bool {
	return deriveAllT4(pred, l)
}

func AnyT4(pred func(S3) bool, l []S3) bool {
	return deriveAnyT4(pred, l)
}

func EqualT5(a uint, b uint) bool {
	return deriveEqualT5(a, b)
}

func ContainsT5(l []uint, x uint) bool {
	return deriveContainsT5(l, x)
}

func UniqueT5(l []uint) []uint {
	return deriveUniqueT5(l)
}

func SetT5(l []uint) map[uint]struct{} {
	return deriveSetT5(l)
}

func UnionlT5(a []uint, b []uint) []uint {
	return deriveUnionLT5(a, b)
}

func IntersectlT5(a []uint, b []uint) []uint {
	return deriveIntersectLT5(a, b)
}

func UnionmT5(a map[uint]struct{}, b map[uint]struct{}) map[uint]struct{} {
	return deriveUnionMT5(a, b)
}

func IntersectmT5(a map[uint]struct{}, b map[uint]struct{}) map[uint]struct{} {
	return deriveIntersectMT5(a, b)
}

func FilterT5(pred func(uint) bool, l []uint) []uint {
	return deriveFilterT5(pred, l)
}

func TakewhileT5(pred func(uint) bool, l []uint) []uint {
	return deriveTakeWhileT5(pred, l)
}

func AllT5(pred func(uint) bool, l []uint) bool {
	return deriveAllT5(pred, l)
}

func AnyT5(pred func(uint) bool, l []uint) bool {
	return deriveAnyT5(pred, l)
}

func EqualT6(a map[ext.Num]float32, b map[ext.Num]float32) bool {
	return deriveEqualT6(a, b)
}

func ContainsT6(l []map[ext.Num]float32, x map[ext.Num]float32) bool {
	return deriveContainsT6(l, x)
}

func UniqueT6(l []map[ext.Num]float32) []map[ext.Num]float32 {
	return deriveUniqueT6(l)
}

func UnionlT6(a []map[ext.Num]float32, b []map[ext.Num]float32) []map[ext.Num]float32 {
	return deriveUnionLT6(a, b)
}

func IntersectlT6(a []map[ext.Num]float32, b []map[ext.Num]float32) []map[ext.Num]float32 {
	return deriveIntersectLT6(a, b)
}

func FilterT6(pred func(map[ext.Num]float32) bool, l []map[ext.Num]float32) []map[ext.Num]float32 {
	return deriveFilterT6(pred, l)
}

func TakewhileT6(pred func(map[ext.Num]float32) bool, l []map[ext.Num]float32) []map[ext.Num]float32 {
	return deriveTakeWhileT6(pred, l)
}

func AllT6(pred func(map[ext.Num]float32) bool, l []map[ext.Num]float32) bool {
	return deriveAllT6(pred, l)
}

func AnyT6(pred func(map[ext.Num]float32) bool, l []map[ext.Num]float32) bool {
	return deriveAnyT6(pred, l)
}

func EqualT7(a ext.E0, b ext.E0) bool {
	return deriveEqualT7(a, b)
}

func ContainsT7(l []ext.E0, x ext.E0) bool {
	return deriveContainsT7(l, x)
}

func UniqueT7(l []ext.E0) []ext.E0 {
	return deriveUniqueT7(l)
}

func UnionlT7(a []ext.E0, b []ext.E0) []ext.E0 {
	return deriveUnionLT7(a, b)
}

func IntersectlT7(a []ext.E0, b []ext.E0) []ext.E0 {
	return deriveIntersectLT7(a, b)
}

func FilterT7(pred func(ext.E0) bool, l []ext.E0) []ext.E0 {
	return deriveFilterT7(pred, l)
}

func TakewhileT7(pred func(ext.E0) bool, l []ext.E0) []ext.E0 {
	return deriveTakeWhileT7(pred, l)
}

func AllT7(pred func(ext.E0) bool, l []ext.E0) bool {
	return deriveAllT7(pred, l)
}

func AnyT7(pred func(ext.E0) bool, l []ext.E0) bool {
	return deriveAnyT7(pred, l)
}

func EqualT8(a uint16, b uint16) bool {
	return deriveEqualT8(a, b)
}

func ContainsT8(l []uint16, x uint16) bool {
	return deriveContainsT8(l, x)
}

func UniqueT8(l []uint16) []uint16 {
	return deriveUniqueT8(l)
}

func SetT8(l []uint16) map[uint16]struct{} {
	return deriveSetT8(l)
}

func UnionlT8(a []uint16, b []uint16) []uint16 {
	return deriveUnionLT8(a, b)
}

func IntersectlT8(a []uint16, b []uint16) []uint16 {
	return deriveIntersectLT8(a, b)
}

func UnionmT8(a map[uint16]struct{}, b map[uint16]struct{}) map[uint16]struct{} {
	return deriveUnionMT8(a, b)
}

func IntersectmT8(a map[uint16]struct{}, b map[uint16]struct{}) map[uint16]struct{} {
	return deriveIntersectMT8(a, b)
}

func FilterT8(pred func(uint16) bool, l []uint16) []uint16 {
	return deriveFilterT8(pred, l)
}

func TakewhileT8(pred func(uint16) bool, l []uint16) []uint16 {
	return deriveTakeWhileT8(pred, l)
}

func AllT8(pred func(uint16) bool, l []uint16) bool {
	return deriveAllT8(pred, l)
}

func AnyT8(pred func(uint16) bool, l []uint16) bool {
	return deriveAnyT8(pred, l)
}

func EqualT9(a int16, b int16) bool {
	return deriveEqualT9(a, b)
}

func ContainsT9(l []int16, x int16) bool {
	return deriveContainsT9(l, x)
}

func UniqueT9(l []int16) []int16 {
	return deriveUniqueT9(l)
}

func SetT9(l []int16) map[int16]struct{} {
	return deriveSetT9(l)
}

func UnionlT9(a []int16, b []int16) []int16 {
	return deriveUnionLT9(a, b)
}

func IntersectlT9(a []int16, b []int16) []int16 {
	return deriveIntersectLT9(a, b)
}

func UnionmT9(a map[int16]struct{}, b map[int16]struct{}) map[int16]struct{} {
	return deriveUnionMT9(a, b)
}

func IntersectmT9(a map[int16]struct{}, b map[int16]struct{}) map[int16]struct{} {
	return deriveIntersectMT9(a, b)
}

func FilterT9(pred func(int16) bool, l []int16) []int16 {
	return deriveFilterT9(pred, l)
}

func TakewhileT9(pred func(int16) bool, l []int16) []int16 {
	return deriveTakeWhileT9(pred, l)
}

func AllT9(pred func(int16) bool, l []int16) bool {
	return deriveAllT9(pred, l)
}

func AnyT9(pred func(int16) bool, l []int16) bool {
	return deriveAnyT9(pred, l)
}

func EqualT10(a ext2.Key, b ext2.Key) bool {
	return deriveEqualT10(a, b)
}

func ContainsT10(l []ext2.Key, x ext2.Key) bool {
	return deriveContainsT10(l, x)
}

func UniqueT10(l []ext2.Key) []ext2.Key {
	return deriveUniqueT10(l)
}

func SetT10(l []ext2.Key) map[ext2.Key]struct{} {
	return deriveSetT10(l)
}

func UnionlT10(a []ext2.Key, b []ext2.Key) []ext2.Key {
	return deriveUnionLT10(a, b)
}

func IntersectlT10(a []ext2.Key, b []ext2.Key) []ext2.Key {
	return deriveIntersectLT10(a, b)
}

func UnionmT10(a map[ext2.Key]struct{}, b map[ext2.Key]struct{}) map[ext2.Key]struct{} {
	return deriveUnionMT10(a, b)
}

func IntersectmT10(a map[ext2.Key]struct{}, b map[ext2.Key]struct{}) map[ext2.Key]struct{} {
	return deriveIntersectMT10(a, b)
}

func FilterT10(pred func(ext2.Key) bool, l []ext2.Key) []ext2.Key {
	return deriveFilterT10(pred, l)
}

func TakewhileT10(pred func(ext2.Key) bool, l []ext2.Key) []ext2.Key {
	return deriveTakeWhileT10(pred, l)
}

func AllT10(pred func(ext2.Key) bool, l []ext2.Key) bool {
	return deriveAllT10(pred, l)
}

func AnyT10(pred func(ext2.Key) bool, l []ext2.Key) bool {
	return deriveAnyT10(pred, l)
}

func EqualT11(a map[K0]int, b map[K0]int) bool {
	return deriveEqualT11(a, b)
}

func ContainsT11(l []map[K0]int, x map[K0]int) bool {
	return deriveContainsT11(l, x)
}

func UniqueT11(l []map[K0]int) []map[K0]int {
	return deriveUniqueT11(l)
}

func UnionlT11(a []map[K0]int, b []map[K0]int) []map[K0]int {
	return deriveUnionLT11(a, b)
}

func IntersectlT11(a []map[K0]int, b []map[K0]int) []map[K0]int {
	return deriveIntersectLT11(a, b)
}

func FilterT11(pred func(map[K0]int) bool, l []map[K0]int) []map[K0]int {
	return deriveFilterT11(pred, l)
}

func TakewhileT11(pred func(map[K0]int) bool, l []map[K0]int) []map[K0]int {
	return deriveTakeWhileT11(pred, l)
}

func AllT11(pred func(map[K0]int) bool, l []map[K0]int) bool {
	return deriveAllT11(pred, l)
}

func AnyT11(pred func(map[K0]int) bool, l []map[K0]int) bool {
	return deriveAnyT11(pred, l)
}

func EqualT12(a [][]N0, b [][]N0) bool {
	return deriveEqualT12(a, b)
}

func ContainsT12(l [][][]N0, x [][]N0) bool {
	return deriveContainsT12(l, x)
}

func UniqueT12(l [][][]N0) [][][]N0 {
	return deriveUniqueT12(l)
}

func UnionlT12(a [][][]N0, b [][][]N0) [][][]N0 {
	return deriveUnionLT12(a, b)
}

func IntersectlT12(a [][][]N0, b [][][]N0) [][][]N0 {
	return deriveIntersectLT12(a, b)
}

func FilterT12(pred func([][]N0) bool, l [][][]N0) [][][]N0 {
	return deriveFilterT12(pred, l)
}

func TakewhileT12(pred func([][]N0) bool, l [][][]N0) [][][]N0 {
	return deriveTakeWhileT12(pred, l)
}

func AllT12(pred func([][]N0) bool, l [][][]N0) bool {
	return deriveAllT12(pred, l)
}

func AnyT12(pred func([][]N0) bool, l [][][]N0) bool {
	return deriveAnyT12(pred, l)
}

func EqualT13(a float32, b float32) bool {
	return deriveEqualT13(a, b)
}

func ContainsT13(l []float32, x float32) bool {
	return deriveContainsT13(l, x)
}

func UniqueT13(l []float32) []float32 {
	return deriveUniqueT13(l)
}

func SetT13(l []float32) map[float32]struct{} {
	return deriveSetT13(l)
}

func UnionlT13(a []float32, b []float32) []float32 {
	return deriveUnionLT13(a, b)
}

func IntersectlT13(a []float32, b []float32) []float32 {
	return deriveIntersectLT13(a, b)
}

func UnionmT13(a map[float32]struct{}, b map[float32]struct{}) map[float32]struct{} {
	return deriveUnionMT13(a, b)
}

func IntersectmT13(a map[float32]struct{}, b map[float32]struct{}) map[float32]struct{} {
	return deriveIntersectMT13(a, b)
}

func FilterT13(pred func(float32) bool, l []float32) []float32 {
	return deriveFilterT13(pred, l)
}

func TakewhileT13(pred func(float32) bool, l []float32) []float32 {
	return deriveTakeWhileT13(pred, l)
}

func AllT13(pred func(float32) bool, l []float32) bool {
	return deriveAllT13(pred, l)
}

func AnyT13(pred func(float32) bool, l []float32) bool {
	return deriveAnyT13(pred, l)
}
