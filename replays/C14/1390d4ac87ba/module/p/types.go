package p

import (
	ext "subj/ext1"
	ext2 "subj/x/ext"
)

type MyBool bool

type N0 map[bool]ext.Num

type N1 [][]complex64

type K0 struct {
}

type S0 struct {
	f0 N0
}

type S1 struct {
	f0 int
	F1 []map[ext2.Num]ext2.Key
	f2 []byte
	f3 [1]N0
	f4 *[]byte
	K0
}

type S2 struct {
}

type S3 struct {
	F0 [0]*[]S1
	f1 byte
	S0
	f3 MyBool
	f4 *ext.Num
	f5 *[1]uintptr
}
