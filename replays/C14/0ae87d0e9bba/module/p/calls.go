package p

var Anchor = 0

func EqualT0(a map[K0][2]float64, b map[K0][2]float64) bool {
	return deriveEqualT0(a, b)
}

func ContainsT0(l []map[K0][2]float64, x map[K0][2]float64) bool {
	return deriveContainsT0(l, x)
}

func UniqueT0(l []map[K0][2]float64) []map[K0][2]float64 {
	return deriveUniqueT0(l)
}

func UnionlT0(a []map[K0][2]float64, b []map[K0][2]float64) []map[K0][2]float64 {
	return deriveUnionLT0(a, b)
}

func IntersectlT0(a []map[K0][2]float64, b []map[K0][2]float64) []map[K0][2]float64 {
	return deriveIntersectLT0(a, b)
}

func FilterT0(pred func(map[K0][2]float64) bool, l []map[K0][2]float64) []map[K0][2]float64 {
	return deriveFilterT0(pred, l)
}

func TakewhileT0(pred func(map[K0][2]float64) bool, l []map[K0][2]float64) []map[K0][2]float64 {
	return deriveTakeWhileT0(pred, l)
}

func AllT0(pred func(map[K0][2]float64) bool, l []map[K0][2]float64) bool {
	return deriveAllT0(pred, l)
}

func AnyT0(pred func(map[K0][2]float64) bool, l []map[K0][2]float64) bool {
	return deriveAnyT0(pred, l)
}

func EqualT1(a *map[string]float64, b *map[string]float64) bool {
	return deriveEqualT1(a, b)
}

func ContainsT1(l []*map[string]float64, x *map[string]float64) bool {
	return deriveContainsT1(l, x)
}

func UniqueT1(l []*map[string]float64) []*map[string]float64 {
	return deriveUniqueT1(l)
}

func UnionlT1(a []*map[string]float64, b []*map[string]float64) []*map[string]float64 {
	return deriveUnionLT1(a, b)
}

func IntersectlT1(a []*map[string]float64, b []*map[string]float64) []*map[string]float64 {
	return deriveIntersectLT1(a, b)
}

func FilterT1(pred func(*map[string]float64) bool, l []*map[string]float64) []*map[string]float64 {
	return deriveFilterT1(pred, l)
}

func TakewhileT1(pred func(*map[string]float64) bool, l []*map[string]float64) []*map[string]float64 {
	return deriveTakeWhileT1(pred, l)
}

func AllT1(pred func(*map[string]float64) bool, l []*map[string]float64) bool {
	return deriveAllT1(pred, l)
}

func AnyT1(pred func(*map[string]float64) bool, l []*map[string]float64) bool {
	return deriveAnyT1(pred, l)
}

func EqualT2(a []map[string]float64, b []map[string]float64) bool {
	return deriveEqualT2(a, b)
}

func ContainsT2(l [][]map[string]float64, x []map[string]float64) bool {
	return deriveContainsT2(l, x)
}

func UniqueT2(l [][]map[string]float64) [][]map[string]float64 {
	return deriveUniqueT2(l)
}

func UnionlT2(a [][]map[string]float64, b [][]map[string]float64) [][]map[string]float64 {
	return deriveUnionLT2(a, b)
}

func IntersectlT2(a [][]map[string]float64, b [][]map[string]float64) [][]map[string]float64 {
	return deriveIntersectLT2(a, b)
}

func FilterT2(pred func([]map[string]float64) bool, l [][]map[string]float64) [][]map[string]float64 {
	return deriveFilterT2(pred, l)
}

func TakewhileT2(pred func([]map[string]float64) bool, l [][]map[string]float64) [][]map[string]float64 {
	return deriveTakeWhileT2(pred, l)
}

func AllT2(pred func([]map[string]float64) bool, l [][]map[string]float64) bool {
	return deriveAllT2(pred, l)
}

func AnyT2(pred func([]map[string]float64) bool, l [][]map[string]float64) bool {
	return deriveAnyT2(pred, l)
}

func EqualT3(a [2]map[string]float64, b [2]map[string]float64) bool {
	return deriveEqualT3(a, b)
}

func ContainsT3(l [][2]map[string]float64, x [2]map[string]float64) bool {
	return deriveContainsT3(l, x)
}

func UniqueT3(l [][2]map[string]float64) [][2]map[string]float64 {
	return deriveUniqueT3(l)
}

func UnionlT3(a [][2]map[string]float64, b [][2]map[string]float64) [][2]map[string]float64 {
	return deriveUnionLT3(a, b)
}

func IntersectlT3(a [][2]map[string]float64, b [][2]map[string]float64) [][2]map[string]float64 {
	return deriveIntersectLT3(a, b)
}

func FilterT3(pred func([2]map[string]float64) bool, l [][2]map[string]float64) [][2]map[string]float64 {
	return deriveFilterT3(pred, l)
}

func TakewhileT3(pred func([2]map[string]float64) bool, l [][2]map[string]float64) [][2]map[string]float64 {
	return deriveTakeWhileT3(pred, l)
}

func AllT3(pred func([2]map[string]float64) bool, l [][2]map[string]float64) bool {
	return deriveAllT3(pred, l)
}

func AnyT3(pred func([2]map[string]float64) bool, l [][2]map[string]float64) bool {
	return deriveAnyT3(pred, l)
}

func EqualT4(a map[string]map[string]float64, b map[string]map[string]float64) bool {
	return deriveEqualT4(a, b)
}

func ContainsT4(l []map[string]map[string]float64, x map[string]map[string]float64) bool {
	return deriveContainsT4(l, x)
}

func UniqueT4(l []map[string]map[string]float64) []map[string]map[string]float64 {
	return deriveUniqueT4(l)
}

func UnionlT4(a []map[string]map[string]float64, b []map[string]map[string]float64) []map[string]map[string]float64 {
	return deriveUnionLT4(a, b)
}

func IntersectlT4(a []map[string]map[string]float64, b []map[string]map[string]float64) []map[string]map[string]float64 {
	return deriveIntersectLT4(a, b)
}

func FilterT4(pred func(map[string]map[string]float64) bool, l []map[string]map[string]float64) []map[string]map[string]float64 {
	return deriveFilterT4(pred, l)
}

func TakewhileT4(pred func(map[string]map[string]float64) bool, l []map[string]map[string]float64) []map[string]map[string]float64 {
	return deriveTakeWhileT4(pred, l)
}

func AllT4(pred func(map[string]map[string]float64) bool, l []map[string]map[string]float64) bool {
	return deriveAllT4(pred, l)
}

func AnyT4(pred func(map[string]map[string]float64) bool, l []map[string]map[string]float64) bool {
	return deriveAnyT4(pred, l)
}

func EqualT5(a map[K0]map[string]float64, b map[K0]map[string]float64) bool {
	return deriveEqualT5(a, b)
}

func ContainsT5(l []map[K0]map[string]float64, x map[K0]map[string]float64) bool {
	return deriveContainsT5(l, x)
}

func UniqueT5(l []map[K0]map[string]float64) []map[K0]map[string]float64 {
	return deriveUniqueT5(l)
}

func UnionlT5(a []map[K0]map[string]float64, b []map[K0]map[string]float64) []map[K0]map[string]float64 {
	return deriveUnionLT5(a, b)
}

func IntersectlT5(a []map[K0]map[string]float64, b []map[K0]map[string]float64) []map[K0]map[string]float64 {
	return deriveIntersectLT5(a, b)
}

func FilterT5(pred func(map[K0]map[string]float64) bool, l []map[K0]map[string]float64) []map[K0]map[string]float64 {
	return deriveFilterT5(pred, l)
}

func TakewhileT5(pred func(map[K0]map[string]float64) bool, l []map[K0]map[string]float64) []map[K0]map[string]float64 {
	return deriveTakeWhileT5(pred, l)
}

func AllT5(pred func(map[K0]map[string]float64) bool, l []map[K0]map[string]float64) bool {
	return deriveAllT5(pred, l)
}

func AnyT5(pred func(map[K0]map[string]float64) bool, l []map[K0]map[string]float64) bool {
	return deriveAnyT5(pred, l)
}

func EqualT6(a *map[K0]float64, b *map[K0]float64) bool {
	return deriveEqualT6(a, b)
}

func ContainsT6(l []*map[K0]float64, x *map[K0]float64) bool {
	return deriveContainsT6(l, x)
}

func UniqueT6(l []*map[K0]float64) []*map[K0]float64 {
	return deriveUniqueT6(l)
}

func UnionlT6(a []*map[K0]float64, b []*map[K0]float64) []*map[K0]float64 {
	return deriveUnionLT6(a, b)
}

func IntersectlT6(a []*map[K0]float64, b []*map[K0]float64) []*map[K0]float64 {
	return deriveIntersectLT6(a, b)
}

func FilterT6(pred func(*map[K0]float64) bool, l []*map[K0]float64) []*map[K0]float64 {
	return deriveFilterT6(pred, l)
}

func TakewhileT6(pred func(*map[K0]float64) bool, l []*map[K0]float64) []*map[K0]float64 {
	return deriveTakeWhileT6(pred, l)
}

func AllT6(pred func(*map[K0]float64) bool, l []*map[K0]float64) bool {
	return deriveAllT6(pred, l)
}

func AnyT6(pred func(*map[K0]float64) bool, l []*map[K0]float64) bool {
	return deriveAnyT6(pred, l)
}

func EqualT7(a []map[K0]float64, b []map[K0]float64) bool {
	return deriveEqualT7(a, b)
}

func ContainsT7(l [][]map[K0]float64, x []map[K0]float64) bool {
	return deriveContainsT7(l, x)
}

func UniqueT7(l [][]map[K0]float64) [][]map[K0]float64 {
	return deriveUniqueT7(l)
}

func UnionlT7(a [][]map[K0]float64, b [][]map[K0]float64) [][]map[K0]float64 {
	return deriveUnionLT7(a, b)
}

func IntersectlT7(a [][]map[K0]float64, b [][]map[K0]float64) [][]map[K0]float64 {
	return deriveIntersectLT7(a, b)
}

func FilterT7(pred func([]map[K0]float64) bool, l [][]map[K0]float64) [][]map[K0]float64 {
	return deriveFilterT7(pred, l)
}

func TakewhileT7(pred func([]map[K0]float64) bool, l [][]map[K0]float64) [][]map[K0]float64 {
	return deriveTakeWhileT7(pred, l)
}

func AllT7(pred func([]map[K0]float64) bool, l [][]map[K0]float64) bool {
	return deriveAllT7(pred, l)
}

func AnyT7(pred func([]map[K0]float64) bool, l [][]map[K0]float64) bool {
	return deriveAnyT7(pred, l)
}

func EqualT8(a [2]map[K0]float64, b [2]map[K0]float64) bool {
	return deriveEqualT8(a, b)
}

func ContainsT8(l [][2]map[K0]float64, x [2]map[K0]float64) bool {
	return deriveContainsT8(l, x)
}

func UniqueT8(l [][2]map[K0]float64) [][2]map[K0]float64 {
	return deriveUniqueT8(l)
}

func UnionlT8(a [][2]map[K0]float64, b [][2]map[K0]float64) [][2]map[K0]float64 {
	return deriveUnionLT8(a, b)
}

func IntersectlT8(a [][2]map[K0]float64, b [][2]map[K0]float64) [][2]map[K0]float64 {
	return deriveIntersectLT8(a, b)
}

func FilterT8(pred func([2]map[K0]float64) bool, l [][2]map[K0]float64) [][2]map[K0]float64 {
	return deriveFilterT8(pred, l)
}

func TakewhileT8(pred func([2]map[K0]float64) bool, l [][2]map[K0]float64) [][2]map[K0]float64 {
	return deriveTakeWhileT8(pred, l)
}

func AllT8(pred func([2]map[K0]float64) bool, l [][2]map[K0]float64) bool {
	return deriveAllT8(pred, l)
}

func AnyT8(pred func([2]map[K0]float64) bool, l [][2]map[K0]float64) bool {
	return deriveAnyT8(pred, l)
}

func EqualT9(a map[string]map[K0]float64, b map[string]map[K0]float64) bool {
	return deriveEqualT9(a, b)
}

func ContainsT9(l []map[string]map[K0]float64, x map[string]map[K0]float64) bool {
	return deriveContainsT9(l, x)
}

func UniqueT9(l []map[string]map[K0]float64) []map[string]map[K0]float64 {
	return deriveUniqueT9(l)
}

func UnionlT9(a []map[string]map[K0]float64, b []map[string]map[K0]float64) []map[string]map[K0]float64 {
	return deriveUnionLT9(a, b)
}

func IntersectlT9(a []map[string]map[K0]float64, b []map[string]map[K0]float64) []map[string]map[K0]float64 {
	return deriveIntersectLT9(a, b)
}

func FilterT9(pred func(map[string]map[K0]float64) bool, l []map[string]map[K0]float64) []map[string]map[K0]float64 {
	return deriveFilterT9(pred, l)
}

func TakewhileT9(pred func(map[string]map[K0]float64) bool, l []map[string]map[K0]float64) []map[string]map[K0]float64 {
	return deriveTakeWhileT9(pred, l)
}

func AllT9(pred func(map[string]map[K0]float64) bool, l []map[string]map[K0]float64) bool {
	return deriveAllT9(pred, l)
}

func AnyT9(pred func(map[string]map[K0]float64) bool, l []map[string]map[K0]float64) bool {
	return deriveAnyT9(pred, l)
}

func EqualT10(a map[K0]map[K0]float64, b map[K0]map[K0]float64) bool {
	return deriveEqualT10(a, b)
}

func ContainsT10(l []map[K0]map[K0]float64, x map[K0]map[K0]float64) bool {
	return deriveContainsT10(l, x)
}

func UniqueT10(l []map[K0]map[K0]float64) []map[K0]map[K0]float64 {
	return deriveUniqueT10(l)
}

func UnionlT10(a []map[K0]map[K0]float64, b []map[K0]map[K0]float64) []map[K0]map[K0]float64 {
	return deriveUnionLT10(a, b)
}

func IntersectlT10(a []map[K0]map[K0]float64, b []map[K0]map[K0]float64) []map[K0]map[K0]float64 {
	return deriveIntersectLT10(a, b)
}

func FilterT10(pred func(map[K0]map[K0]float64) bool, l []map[K0]map[K0]float64) []map[K0]map[K0]float64 {
	return deriveFilterT10(pred, l)
}

func TakewhileT10(pred func(map[K0]map[K0]float64) bool, l []map[K0]map[K0]float64) []map[K0]map[K0]float64 {
	return deriveTakeWhileT10(pred, l)
}

func AllT10(pred func(map[K0]map[K0]float64) bool, l []map[K0]map[K0]float64) bool {
	return deriveAllT10(pred, l)
}

func AnyT10(pred func(map[K0]map[K0]float64) bool, l []map[K0]map[K0]float64) bool {
	return deriveAnyT10(pred, l)
}

func EqualT11(a **bool, b **bool) bool {
	return deriveEqualT11(a, b)
}

func ContainsT11(l []**bool, x **bool) bool {
	return deriveContainsT11(l, x)
}

func UniqueT11(l []**bool) []**bool {
	return deriveUniqueT11(l)
}

func UnionlT11(a []**bool, b []**bool) []**bool {
	return deriveUnionLT11(a, b)
}

func IntersectlT11(a []**bool, b []**bool) []**bool {
	return deriveIntersectLT11(a, b)
}

func FilterT11(pred func(**bool) bool, l []**bool) []**bool {
	return deriveFilterT11(pred, l)
}

func TakewhileT11(pred func(**bool) bool, l []**bool) []**bool {
	return deriveTakeWhileT11(pred, l)
}

func AllT11(pred func(**bool) bool, l []**bool) bool {
	return deriveAllT11(pred, l)
}

func AnyT11(pred func(**bool) bool, l []**bool) bool {
	return deriveAnyT11(pred, l)
}

func EqualT12(a []*bool, b []*bool) bool {
	return deriveEqualT12(a, b)
}

func ContainsT12(l [][]*bool, x []*bool) bool {
	return deriveContainsT12(l, x)
}

func UniqueT12(l [][]*bool) [][]*bool {
	return deriveUniqueT12(l)
}

func UnionlT12(a [][]*bool, b [][]*bool) [][]*bool {
	return deriveUnionLT12(a, b)
}

func IntersectlT12(a [][]*bool, b [][]*bool) [][]*bool {
	return deriveIntersectLT12(a, b)
}

func FilterT12(pred func([]*bool) bool, l [][]*bool) [][]*bool {
	return deriveFilterT12(pred, l)
}

func TakewhileT12(pred func([]*bool) bool, l [][]*bool) [][]*bool {
	return deriveTakeWhileT12(pred, l)
}

func AllT12(pred func([]*bool) bool, l [][]*bool) bool {
	return deriveAllT12(pred, l)
}

func AnyT12(pred func([]*bool) bool, l [][]*bool) bool {
	return deriveAnyT12(pred, l)
}

func EqualT13(a [2]*bool, b [2]*bool) bool {
	return deriveEqualT13(a, b)
}

func ContainsT13(l [][2]*bool, x [2]*bool) bool {
	return deriveContainsT13(l, x)
}

func UniqueT13(l [][2]*bool) [][2]*bool {
	return deriveUniqueT13(l)
}

func UnionlT13(a [][2]*bool, b [][2]*bool) [][2]*bool {
	return deriveUnionLT13(a, b)
}

func IntersectlT13(a [][2]*bool, b [][2]*bool) [][2]*bool {
	return deriveIntersectLT13(a, b)
}

func FilterT13(pred func([2]*bool) bool, l [][2]*bool) [][2]*bool {
	return deriveFilterT13(pred, l)
}

func TakewhileT13(pred func([2]*bool) bool, l [][2]*bool) [][2]*bool {
	return deriveTakeWhileT13(pred, l)
}

func AllT13(pred func([2]*bool) bool, l [][2]*bool) bool {
	return deriveAllT13(pred, l)
}

func AnyT13(pred func([2]*bool) bool, l [][2]*bool) bool {
	return deriveAnyT13(pred, l)
}
