package p

import (
	ext "subj/ext1"
	ext2 "subj/x/ext"
)

var Anchor = 0

func EqualT0(a N0, b N0) bool {
	return deriveEqualT0(a, b)
}

func ContainsT0(l []N0, x N0) bool {
	return deriveContainsT0(l, x)
}

func UniqueT0(l []N0) []N0 {
	return deriveUniqueT0(l)
}

func SetT0(l []N0) map[N0]struct{} {
	return deriveSetT0(l)
}

func UnionlT0(a []N0, b []N0) []N0 {
	return deriveUnionLT0(a, b)
}

func IntersectlT0(a []N0, b []N0) []N0 {
	return deriveIntersectLT0(a, b)
}

func UnionmT0(a map[N0]struct{}, b map[N0]struct{}) map[N0]struct{} {
	return deriveUnionMT0(a, b)
}

func IntersectmT0(a map[N0]struct{}, b map[N0]struct{}) map[N0]struct{} {
	return deriveIntersectMT0(a, b)
}

func FilterT0(pred func(N0) bool, l []N0) []N0 {
	return deriveFilterT0(pred, l)
}

func TakewhileT0(pred func(N0) bool, l []N0) []N0 {
	return deriveTakeWhileT0(pred, l)
}

func AllT0(pred func(N0) bool, l []N0) bool {
	return deriveAllT0(pred, l)
}

func AnyT0(pred func(N0) bool, l []N0) bool {
	return deriveAnyT0(pred, l)
}

func EqualT1(a K1, b K1) bool {
	return deriveEqualT1(a, b)
}

func ContainsT1(l []K1, x K1) bool {
	return deriveContainsT1(l, x)
}

func UniqueT1(l []K1) []K1 {
	return deriveUniqueT1(l)
}

func SetT1(l []K1) map[K1]struct{} {
	return deriveSetT1(l)
}

func UnionlT1(a []K1, b []K1) []K1 {
	return deriveUnionLT1(a, b)
}

func IntersectlT1(a []K1, b []K1) []K1 {
	return deriveIntersectLT1(a, b)
}

func UnionmT1(a map[K1]struct{}, b map[K1]struct{}) map[K1]struct{} {
	return deriveUnionMT1(a, b)
}

func IntersectmT1(a map[K1]struct{}, b map[K1]struct{}) map[K1]struct{} {
	return deriveIntersectMT1(a, b)
}

func FilterT1(pred func(K1) bool, l []K1) []K1 {
	return deriveFilterT1(pred, l)
}

func TakewhileT1(pred func(K1) bool, l []K1) []K1 {
	return deriveTakeWhileT1(pred, l)
}

func AllT1(pred func(K1) bool, l []K1) bool {
	return deriveAllT1(pred, l)
}

func AnyT1(pred func(K1) bool, l []K1) bool {
	return deriveAnyT1(pred, l)
}

func EqualT2(a MyInt, b MyInt) bool {
	return deriveEqualT2(a, b)
}

func ContainsT2(l []MyInt, x MyInt) bool {
	return deriveContainsT2(l, x)
}

func UniqueT2(l []MyInt) []MyInt {
	return deriveUniqueT2(l)
}

func SetT2(l []MyInt) map[MyInt]struct{} {
	return deriveSetT2(l)
}

func UnionlT2(a []MyInt, b []MyInt) []MyInt {
	return deriveUnionLT2(a, b)
}

func IntersectlT2(a []MyInt, b []MyInt) []MyInt {
	return deriveIntersectLT2(a, b)
}

func UnionmT2(a map[MyInt]struct{}, b map[MyInt]struct{}) map[MyInt]struct{} {
	return deriveUnionMT2(a, b)
}

func IntersectmT2(a map[MyInt]struct{}, b map[MyInt]struct{}) map[MyInt]struct{} {
	return deriveIntersectMT2(a, b)
}

func FilterT2(pred func(MyInt) bool, l []MyInt) []MyInt {
	return deriveFilterT2(pred, l)
}

func TakewhileT2(pred func(MyInt) bool, l []MyInt) []MyInt {
	return deriveTakeWhileT2(pred, l)
}

func AllT2(pred func(MyInt) bool, l []MyInt) bool {
	return deriveAllT2(pred, l)
}

func AnyT2(pred func(MyInt) bool, l []MyInt) bool {
	return deriveAnyT2(pred, l)
}

func EqualT3(a complex64, b complex64) bool {
	return deriveEqualT3(a, b)
}

func ContainsT3(l []complex64, x complex64) bool {
	return deriveContainsT3(l, x)
}

func UniqueT3(l []complex64) []complex64 {
	return deriveUniqueT3(l)
}

func SetT3(l []complex64) map[complex64]struct{} {
	return deriveSetT3(l)
}

func UnionlT3(a []complex64, b []complex64) []complex64 {
	return deriveUnionLT3(a, b)
}

func IntersectlT3(a []complex64, b []complex64) []complex64 {
	return deriveIntersectLT3(a, b)
}

func UnionmT3(a map[complex64]struct{}, b map[complex64]struct{}) map[complex64]struct{} {
	return deriveUnionMT3(a, b)
}

func IntersectmT3(a map[complex64]struct{}, b map[complex64]struct{}) map[complex64]struct{} {
	return deriveIntersectMT3(a, b)
}

func FilterT3(pred func(complex64) bool, l []complex64) []complex64 {
	return deriveFilterT3(pred, l)
}

func TakewhileT3(pred func(complex64) bool, l []complex64) []complex64 {
	return deriveTakeWhileT3(pred, l)
}

func AllT3(pred func(complex64) bool, l []complex64) bool {
	return deriveAllT3(pred, l)
}

func AnyT3(pred func(complex64) bool, l []complex64) bool {
	return deriveAnyT3(pred, l)
}

func EqualT4(a *S2, b *S2) bool {
	return deriveEqualT4(a, b)
}

func ContainsT4(l []*S2, x *S2) bool {
	return deriveContainsT4(l, x)
}

func UniqueT4(l []*S2) []*S2 {
	return deriveUniqueT4(l)
}

func UnionlT4(a []*S2, b []*S2) []*S2 {
	return deriveUnionLT4(a, b)
}

func IntersectlT4(a []*S2, b []*S2) []*S2 {
	return deriveIntersectLT4(a, b)
}

func FilterT4(pred func(*S2) bool, l []*S2) []*S2 {
	return deriveFilterT4(pred, l)
}

func TakewhileT4(pred func(*S2) bool, l []*S2) []*S2 {
	return deriveTakeWhileT4(pred, l)
}

func AllT4(pred func(*S2) bool, l []*S2) bool {
	return deriveAllT4(pred, l)
}

func AnyT4(pred func(*S2) bool, l []*S2) bool {
	return deriveAnyT4(pred, l)
}

func EqualT5(a S3, b S3) bool {
	return deriveEqualT5(a, b)
}

func ContainsT5(l []S3, x S3) bool {
	return deriveContainsT5(l, x)
}

func UniqueT5(l []S3) []S3 {
	return deriveUniqueT5(l)
}

func SetT5(l []S3) map[S3]struct{} {
	return deriveSetT5(l)
}

func UnionlT5(a []S3, b []S3) []S3 {
	return deriveUnionLT5(a, b)
}

func IntersectlT5(a []S3, b []S3) []S3 {
	return deriveIntersectLT5(a, b)
}

func UnionmT5(a map[S3]struct{}, b map[S3]struct{}) map[S3]struct{} {
	return deriveUnionMT5(a, b)
}

func IntersectmT5(a map[S3]struct{}, b map[S3]struct{}) map[S3]struct{} {
	return deriveIntersectMT5(a, b)
}

func FilterT5(pred func(S3) bool, l []S3) []S3 {
	return deriveFilterT5(pred, l)
}

func TakewhileT5(pred func(S3) bool, l []S3) []S3 {
	return deriveTakeWhileT5(pred, l)
}

func AllT5(pred func(S3) bool, l []S3) bool {
	return deriveAllT5(pred, l)
}

func AnyT5(pred func(S3) bool, l []S3) bool {
	return deriveAnyT5(pred, l)
}

func EqualT6(a S0, b S0) bool {
	return deriveEqualT6(a, b)
}

func ContainsT6(l []S0, x S0) bool {
	return deriveContainsT6(l, x)
}

func UniqueT6(l []S0) []S0 {
	return deriveUniqueT6(l)
}

func UnionlT6(a []S0, b []S0) []S0 {
	return deriveUnionLT6(a, b)
}

func IntersectlT6(a []S0, b []S0) []S0 {
	return deriveIntersectLT6(a, b)
}

func FilterT6(pred func(S0) bool, l []S0) []S0 {
	return deriveFilterT6(pred, l)
}

func TakewhileT6(pred func(S0) bool, l []S0) []S0 {
	return deriveTakeWhileT6(pred, l)
}

func AllT6(pred func(S0) bool, l []S0) bool {
	return deriveAllT6(pred, l)
}

func AnyT6(pred func(S0) bool, l []S0) bool {
	return deriveAnyT6(pred, l)
}

func EqualT7(a map[int64]map[ext.Num]K1, b map[int64]map[ext.Num]K1) bool {
	return deriveEqualT7(a, b)
}

func ContainsT7(l []map[int64]map[ext.Num]K1, x map[int64]map[ext.Num]K1) bool {
	return deriveContainsT7(l, x)
}

func UniqueT7(l []map[int64]map[ext.Num]K1) []map[int64]map[ext.Num]K1 {
	return deriveUniqueT7(l)
}

func UnionlT7(a []map[int64]map[ext.Num]K1, b []map[int64]map[ext.Num]K1) []map[int64]map[ext.Num]K1 {
	return deriveUnionLT7(a, b)
}

func IntersectlT7(a []map[int64]map[ext.Num]K1, b []map[int64]map[ext.Num]K1) []map[int64]map[ext.Num]K1 {
	return deriveIntersectLT7(a, b)
}

func FilterT7(pred func(map[int64]map[ext.Num]K1) bool, l []map[int64]map[ext.Num]K1) []map[int64]map[ext.Num]K1 {
	return deriveFilterT7(pred, l)
}

func TakewhileT7(pred func(map[int64]map[ext.Num]K1) bool, l []map[int64]map[ext.Num]K1) []map[int64]map[ext.Num]K1 {
	return deriveTakeWhileT7(pred, l)
}

func AllT7(pred func(map[int64]map[ext.Num]K1) bool, l []map[int64]map[ext.Num]K1) bool {
	return deriveAllT7(pred, l)
}

func AnyT7(pred func(map[int64]map[ext.Num]K1) bool, l []map[int64]map[ext.Num]K1) bool {
	return deriveAnyT7(pred, l)
}

func EqualT8(a int32, b int32) bool {
	return deriveEqualT8(a, b)
}

func ContainsT8(l []int32, x int32) bool {
	return deriveContainsT8(l, x)
}

func UniqueT8(l []int32) []int32 {
	return deriveUniqueT8(l)
}

func SetT8(l []int32) map[int32]struct{} {
	return deriveSetT8(l)
}

func UnionlT8(a []int32, b []int32) []int32 {
	return deriveUnionLT8(a, b)
}

func IntersectlT8(a []int32, b []int32) []int32 {
	return deriveIntersectLT8(a, b)
}

func UnionmT8(a map[int32]struct{}, b map[int32]struct{}) map[int32]struct{} {
	return deriveUnionMT8(a, b)
}

func IntersectmT8(a map[int32]struct{}, b map[int32]struct{}) map[int32]struct{} {
	return deriveIntersectMT8(a, b)
}

func FilterT8(pred func(int32) bool, l []int32) []int32 {
	return deriveFilterT8(pred, l)
}

func TakewhileT8(pred func(int32) bool, l []int32) []int32 {
	return deriveTakeWhileT8(pred, l)
}

func AllT8(pred func(int32) bool, l []int32) bool {
	return deriveAllT8(pred, l)
}

func AnyT8(pred func(int32) bool, l []int32) bool {
	return deriveAnyT8(pred, l)
}

func EqualT9(a uint, b uint) bool {
	return deriveEqualT9(a, b)
}

func ContainsT9(l []uint, x uint) bool {
	return deriveContainsT9(l, x)
}

func UniqueT9(l []uint) []uint {
	return deriveUniqueT9(l)
}

func SetT9(l []uint) map[uint]struct{} {
	return deriveSetT9(l)
}

func UnionlT9(a []uint, b []uint) []uint {
	return deriveUnionLT9(a, b)
}

func IntersectlT9(a []uint, b []uint) []uint {
	return deriveIntersectLT9(a, b)
}

func UnionmT9(a map[uint]struct{}, b map[uint]struct{}) map[uint]struct{} {
	return deriveUnionMT9(a, b)
}

func IntersectmT9(a map[uint]struct{}, b map[uint]struct{}) map[uint]struct{} {
	return deriveIntersectMT9(a, b)
}

func FilterT9(pred func(uint) bool, l []uint) []uint {
	return deriveFilterT9(pred, l)
}

func TakewhileT9(pred func(uint) bool, l []uint) []uint {
	return deriveTakeWhileT9(pred, l)
}

func AllT9(pred func(uint) bool, l []uint) bool {
	return deriveAllT9(pred, l)
}

func AnyT9(pred func(uint) bool, l []uint) bool {
	return deriveAnyT9(pred, l)
}

func EqualT10(a map[uint8]S1, b map[uint8]S1) bool {
	return deriveEqualT10(a, b)
}

func ContainsT10(l []map[uint8]S1, x map[uint8]S1) bool {
	return deriveContainsT10(l, x)
}

func UniqueT10(l []map[uint8]S1) []map[uint8]S1 {
	return deriveUniqueT10(l)
}

func UnionlT10(a []map[uint8]S1, b []map[uint8]S1) []map[uint8]S1 {
	return deriveUnionLT10(a, b)
}

func IntersectlT10(a []map[uint8]S1, b []map[uint8]S1) []map[uint8]S1 {
	return deriveIntersectLT10(a, b)
}

func FilterT10(pred func(map[uint8]S1) bool, l []map[uint8]S1) []map[uint8]S1 {
	return deriveFilterT10(pred, l)
}

func TakewhileT10(pred func(map[uint8]S1) bool, l []map[uint8]S1) []map[uint8]S1 {
	return deriveTakeWhileT10(pred, l)
}

func AllT10(pred func(map[uint8]S1) bool, l []map[uint8]S1) bool {
	return deriveAllT10(pred, l)
}

func AnyT10(pred func(map[uint8]S1) bool, l []map[uint8]S1) bool {
	return deriveAnyT10(pred, l)
}

func EqualT11(a []byte, b []byte) bool {
	return deriveEqualT11(a, b)
}

func ContainsT11(l [][]byte, x []byte) bool {
	return deriveContainsT11(l, x)
}

func UniqueT11(l [][]byte) [][]byte {
	return deriveUniqueT11(l)
}

func UnionlT11(a [][]byte, b [][]byte) [][]byte {
	return deriveUnionLT11(a, b)
}

func IntersectlT11(a [][]byte, b [][]byte) [][]byte {
	return deriveIntersectLT11(a, b)
}

func FilterT11(pred func([]byte) bool, l [][]byte) [][]byte {
	return deriveFilterT11(pred, l)
}

func TakewhileT11(pred func([]byte) bool, l [][]byte) [][]byte {
	return deriveTakeWhileT11(pred, l)
}

func AllT11(pred func([]byte) bool, l [][]byte) bool {
	return deriveAllT11(pred, l)
}

func AnyT11(pred func([]byte) bool, l [][]byte) bool {
	return deriveAnyT11(pred, l)
}

func EqualT12(a ext2.Key, b ext2.Key) bool {
	return deriveEqualT12(a, b)
}

func ContainsT12(l []ext2.Key, x ext2.Key) bool {
	return deriveContainsT12(l, x)
}

func UniqueT12(l []ext2.Key) []ext2.Key {
	return deriveUniqueT12(l)
}

func SetT12(l []ext2.Key) map[ext2.Key]struct{} {
	return deriveSetT12(l)
}

func UnionlT12(a []ext2.Key, b []ext2.Key) []ext2.Key {
	return deriveUnionLT12(a, b)
}

func IntersectlT12(a []ext2.Key, b []ext2.Key) []ext2.Key {
	return deriveIntersectLT12(a, b)
}

func UnionmT12(a map[ext2.Key]struct{}, b map[ext2.Key]struct{}) map[ext2.Key]struct{} {
	return deriveUnionMT12(a, b)
}

func IntersectmT12(a map[ext2.Key]struct{}, b map[ext2.Key]struct{}) map[ext2.Key]struct{} {
	return deriveIntersectMT12(a, b)
}

func FilterT12(pred func(ext2.Key) bool, l []ext2.Key) []ext2.Key {
	return deriveFilterT12(pred, l)
}

func TakewhileT12(pred func(ext2.Key) bool, l []ext2.Key) []ext2.Key {
	return deriveTakeWhileT12(pred, l)
}

func AllT12(pred func(ext2.Key) bool, l []ext2.Key) bool {
	return deriveAllT12(pred, l)
}

func AnyT12(pred func(ext2.Key) bool, l []ext2.Key) bool {
	return deriveAnyT12(pred, l)
}

func EqualT13(a float32, b float32) bool {
	return deriveEqualT13(a, b)
}

func ContainsT13(l []float32, x float32) bool {
	return deriveContainsT13(l, x)
}

func UniqueT13(l []float32) []float32 {
	return deriveUniqueT13(l)
}

func SetT13(l []float32) map[float32]struct{} {
	return deriveSetT13(l)
}

func UnionlT13(a []float32, b []float32) []float32 {
	return deriveUnionLT13(a, b)
}

func IntersectlT13(a []float32, b []float32) []float32 {
	return deriveIntersectLT13(a, b)
}

func UnionmT13(a map[float32]struct{}, b map[float32]struct{}) map[float32]struct{} {
	return deriveUnionMT13(a, b)
}

func IntersectmT13(a map[float32]struct{}, b map[float32]struct{}) map[float32]struct{} {
	return deriveIntersectMT13(a, b)
}

func FilterT13(pred func(float32) bool, l []float32) []float32 {
	return deriveFilterT13(pred, l)
}

func TakewhileT13(pred func(float32) bool, l []float32) []float32 {
	return deriveTakeWhileT13(pred, l)
}

func AllT13(pred func(float32) bool, l []float32) bool {
	return deriveAllT13(pred, l)
}

func AnyT13(pred func(float32) bool, l []float32) bool {
	return deriveAnyT13(pred, l)
}
